import OmplModel.Proofs.PhsGeom
import OmplModel.Proofs.PhsMeasure
import OmplModel.Proofs.PhsBridge
import OmplModel.Proofs.PhsLogic
import OmplModel.Proofs.PhsCap
import OmplModel.Proofs.PhsState
import OmplModel.Proofs.PhsMore
import OmplModel.Proofs.PhsVolume
import OmplModel.Proofs.PhsOrdered
import OmplModel.Proofs.PhsNonvac
import OmplModel.Proofs.PhsEdge
import OmplModel.Proofs.PhsFixed
import OmplModel.Proofs.PhsRound10
import OmplModel.Proofs.PhsUniform
/-!
# C15 — informed sampling returns only, and all of, the states that can still help

Property theorems about the model `OmplModel.Phs` (Model/Phs.lean) of `ompl::ProlateHyperspheroid`,
`GeometricEquations.cpp` and the informed samplers.  Helper lemmas: `Proofs/PhsGeom.lean` (geometry in
an arbitrary real inner-product space), `Proofs/PhsBridge.lean` (list model at ℝ ↔ `EuclideanSpace`),
`Proofs/PhsMeasure.lean` (measure, Γ recurrence, finite overlap argument), `Proofs/PhsLogic.lean`
(arithmetic-free loop theorems).

Marks: **[EX]** proved for the ℝ instantiation of the model (what stays unverified is IEEE rounding —
and rounding is exactly what finding F34 was about: the fixed code re-tests the rounded point); **[AF]** arithmetic-free: holds for every
`Num α`, in particular for the `Float` instantiation that the driver runs in lock-step with the code.

The rotation `R` is a parameter of the model.  Its hypotheses (`Setup`: orthonormal columns, first
column the unit focal axis) are what the check verifies numerically (1e-9) for every real PHS before
the model is applied.  All geometric statements hold in every dimension `n+1 ≥ 1`.
-/
namespace OmplModel.Props.C15
open OmplModel OmplModel.Phs OmplModel.Phs.PhsBridge OmplModel.Phs.PhsMeasure OmplModel.Phs.PhsLogic
open scoped InnerProductSpace
attribute [-instance] Num.instOfNat

/-! ## Geometry of the model's `transform` [EX] -/

variable {n : ℕ} {f1 f2 : List ℝ} {rot : List (List ℝ)}

/-- **Surface**: points of the unit sphere map to points whose summed focal distance equals the
cost bound `c` exactly (`isOnPhs`), and which are not strictly inside (`isInPhs` is `<`). -/
theorem phs_surface (hs : Setup n f1 f2 rot) (id : ℕ) (c : ℝ) {u : List ℝ}
    (hu : u.length = n + 1) (hsq : sumSq u = 1)
    (hc : ((Phs.mk' id f1 f2 rot).setC c).cmin ≤ c) :
    ∃ x, ((Phs.mk' id f1 f2 rot).setC c).transform u = some x ∧ x.length = n + 1 ∧
      ((Phs.mk' id f1 f2 rot).setC c).pathLength x = c ∧
      ((Phs.mk' id f1 f2 rot).setC c).isOn x = true ∧
      ((Phs.mk' id f1 f2 rot).setC c).isIn x = false :=
  model_phs_surface hs id c hu hsq hc

/-- **Interior**: every point of the open unit ball maps to a state whose heuristic cost (focal
sum) is strictly below `c`: "returns only states that can still help". -/
theorem phs_interior (hs : Setup n f1 f2 rot) (id : ℕ) (c : ℝ) {u : List ℝ}
    (hu : u.length = n + 1) (hsq : sumSq u < 1)
    (hc : ((Phs.mk' id f1 f2 rot).setC c).cmin < c) :
    ∃ x, ((Phs.mk' id f1 f2 rot).setC c).transform u = some x ∧ x.length = n + 1 ∧
      ((Phs.mk' id f1 f2 rot).setC c).isIn x = true :=
  model_phs_interior hs id c hu hsq hc

/-- **Onto**: every state with focal sum `< c` is the image of some point of the open unit ball:
"no state that could improve the current solution is excluded from sampling". -/
theorem phs_onto (hs : Setup n f1 f2 rot) (id : ℕ) (c : ℝ)
    (hc : ((Phs.mk' id f1 f2 rot).setC c).cmin < c) (x : List ℝ) (hx : x.length = n + 1)
    (hin : ((Phs.mk' id f1 f2 rot).setC c).isIn x = true) :
    ∃ u : List ℝ, u.length = n + 1 ∧ sumSq u < 1 ∧
      ((Phs.mk' id f1 f2 rot).setC c).transform u = some x :=
  model_phs_onto hs id c hc x hx hin

/-- `getPathLength` is the sum of the two focal distances; `isInPhs` is `<`, `isOnPhs` is `=`. -/
theorem pathLength_is_focal_sum (hs : Setup n f1 f2 rot) (id : ℕ) (c : ℝ) {x : List ℝ}
    (hx : x.length = n + 1) :
    ((Phs.mk' id f1 f2 rot).setC c).pathLength x
        = ‖toE (n + 1) x - toE (n + 1) f1‖ + ‖toE (n + 1) x - toE (n + 1) f2‖ ∧
    (((Phs.mk' id f1 f2 rot).setC c).isIn x = true ↔ ((Phs.mk' id f1 f2 rot).setC c).pathLength x < c) ∧
    (((Phs.mk' id f1 f2 rot).setC c).isOn x = true ↔ ((Phs.mk' id f1 f2 rot).setC c).pathLength x = c) :=
  ⟨model_pathLength_eq hs id c hx, model_isIn_iff id c x, model_isOn_iff id c x⟩

/-- The same facts without lists, in ANY real inner-product space: the image of the open unit ball
under `w ↦ b (w − ⟨w,e⟩e) + a⟨w,e⟩ e` is EXACTLY the open prolate hyperspheroid with foci `∓f e`
and transverse diameter `2a` (`b² = a² − f²`). -/
theorem phs_region_exact {E : Type*} [NormedAddCommGroup E] [InnerProductSpace ℝ E]
    {e : E} (he : ‖e‖ = 1) {a b f : ℝ} (hb : b ^ 2 = a ^ 2 - f ^ 2)
    (hb0 : 0 < b) (hfa : f < a) (hf0 : 0 ≤ f) :
    (PhsGeom.img a b e) '' Metric.ball 0 1 = {p | ‖p + f • e‖ + ‖p - f • e‖ < 2 * a} :=
  PhsGeom.phs_image_eq he hb hb0 hfa hf0

/-- The linear part of the map is the same for every sample (`phs_det_const`): uniform on the ball
goes to uniform on the PHS because `x ↦ centre + L u` with one fixed linear `L = R·diag`. Stated as
additivity and homogeneity of the model's image in `u` (through `toE`). -/
theorem transform_affine (hs : Setup n f1 f2 rot) (id : ℕ) (c : ℝ) {u : List ℝ} (hu : u.length = n + 1) :
    ∃ x, ((Phs.mk' id f1 f2 rot).setC c).transform u = some x ∧ x.length = n + 1 ∧
      toE (n + 1) x = (1 / 2 : ℝ) • (toE (n + 1) f1 + toE (n + 1) f2)
        + ∑ j : Fin (n + 1),
            (diagE n c ‖toE (n + 1) f2 - toE (n + 1) f1‖ j * u.getD j 0) • colE (n + 1) rot j :=
  model_transform_eq hs id c hu

/-! ## Measure [EX] -/

/-- **The reported measure equals the analytic volume**: the coded loop computes
`unitBall(n) · (c/2) · (√(c²−cmin²)/2)^(n−1)`; a diameter below the focal distance throws. -/
theorem measure_formula (n : ℕ) (cmin c : ℝ) (h : cmin ≤ c) :
    phsMeasure n cmin c = some (unitNBallMeasure n * (c / 2) * (Real.sqrt (c ^ 2 - cmin ^ 2) / 2) ^ (n - 1)) :=
  PhsMeasure.measure_formula n cmin c h

theorem measure_throws (n : ℕ) (cmin c : ℝ) (h : c < cmin) : phsMeasure n cmin c = none :=
  PhsMeasure.measure_throws n cmin c h

/-- the unit-ball factor is `π^{n/2}/Γ(n/2+1)` (the model's half-integer recurrence is Γ) … -/
theorem unitNBall_closed_form (n : ℕ) :
    (unitNBallMeasure n : ℝ) = Real.sqrt Real.pi ^ n / Real.Gamma ((n : ℝ) / 2 + 1) :=
  PhsMeasure.unitNBall_eq n

/-- … it satisfies `V(n+2) = V(n) · 2π/(n+2)`, `V(0) = 1`, `V(1) = 2` … -/
theorem unitNBall_recurrence (n : ℕ) :
    (unitNBallMeasure (n + 2) : ℝ) = unitNBallMeasure n * (2 * Real.pi / ((n : ℝ) + 2)) ∧
    (unitNBallMeasure 0 : ℝ) = 1 ∧ (unitNBallMeasure 1 : ℝ) = 2 :=
  ⟨PhsMeasure.unitNBall_rec n, PhsMeasure.unitNBall_zero, PhsMeasure.unitNBall_one⟩

/-- … and it IS the Lebesgue volume of the Euclidean unit ball (Mathlib's `EuclideanSpace.volume_ball`). -/
theorem unitNBall_is_volume (n : ℕ) :
    MeasureTheory.volume (Metric.ball (0 : EuclideanSpace ℝ (Fin n)) 1) = ENNReal.ofReal (unitNBallMeasure n) :=
  PhsMeasure.unitNBall_volume n

/-! ## Overlap rejection (finite version) [EX] -/

section overlap
variable {ι κ : Type} [Fintype ι] [DecidableEq κ]

/-- **1/k rejection makes the mixture uniform**: pick region `i` with probability `m_i/M`, a cell of
it in proportion to the cell's measure, accept with probability `1/k(cell)`: every covered cell is
accepted with mass `μ_j/M`, i.e. with the same density `1/M`. -/
theorem overlap_rejection_uniform (μ : κ → ℝ) (S : ι → Finset κ)
    (hm : ∀ i, 0 < regionMass μ S i) (j : κ) (hμ : 0 < μ j) (hk : 0 < cover S j) :
    acceptMass μ S j = μ j / totalMass μ S ∧ acceptMass μ S j / μ j = 1 / totalMass μ S :=
  ⟨PhsMeasure.overlap_rejection_uniform μ S hm j hk, PhsMeasure.overlap_rejection_density μ S hm j hμ hk⟩

/-- without the rejection a cell covered `k` times is proposed with `k` times that mass -/
theorem without_rejection_oversampled (μ : κ → ℝ) (S : ι → Finset κ)
    (hm : ∀ i, 0 < regionMass μ S i) (j : κ) :
    proposeMass μ S j = (cover S j : ℝ) * μ j / totalMass μ S :=
  PhsMeasure.no_rejection_mass μ S hm j
end overlap


/-! ## Decision logic of the samplers [AF]

Generic over every `Num α` (no law of `α` is used): these hold for the `Float` instantiation that
runs in lock-step with the real samplers.  `ds` is the stream of raw draws / oracle answers, one
`Draw` per loop iteration; `inB` is `satisfiesBounds`; `DirectOk` (Proofs/PhsLogic.lean) says which
test the returned state passed on the branch taken:
* infinite bound: the state is a base-sampler draw;
* `sampleBoundsRejectPhs`: the state is a base-sampler draw and `isInAnyPhs` was true;
* `samplePhsRejectBounds`: the state is `transform(phs, ball draw)` for a PHS of the list, it was
  kept by `keepSample`, `satisfiesBounds` was true AND `isInAnyPhs` was true (the re-test added by the
  fix of F34, commit 74ee9605c; over ℝ the re-test always succeeds by `phs_interior`, under `Float`
  rounding it is what keeps the cost below `c`). -/

section logic
variable {α : Type} [Num α] {ρ σ : Type}

/-- **`sample_success_sound`** (direct sampler, `sampleUniform(state, maxCost)`): for EVERY stream of
draws, if the base sampler's draws are in bounds (property C08) a `true` return implies the returned
state passed the bounds test and the test of the branch taken; the iteration counter never exceeds
`numIters_` and at most `numIters_` draws are consumed (exactly one for an infinite bound). -/
theorem sample_success_sound (s : Sampler α) (inB : List α × ρ → Bool) (fin : Bool) (c : α)
    (ds : List (Draw α ρ)) (cur : List α × ρ)
    (hbase : ∀ d ∈ ds, inB (d.baseInf, d.baseRest) = true)
    (hf : (s.sample2 inB fin c ds cur).2.found = true) :
    inB (s.sample2 inB fin c ds cur).2.st = true ∧
    DirectOk (s.update c) inB fin ds (s.sample2 inB fin c ds cur).2.st ∧
    (s.sample2 inB fin c ds cur).2.rest <:+ ds ∧
    (fin = true → (s.sample2 inB fin c ds cur).2.iters ≤ s.numIters ∧
      ds.length ≤ (s.sample2 inB fin c ds cur).2.rest.length + s.numIters) ∧
    (fin = false → ds.length ≤ (s.sample2 inB fin c ds cur).2.rest.length + 1) :=
  PhsLogic.sample_success_sound s inB fin c ds cur hbase hf

/-- **three-argument form** `sampleUniform(state, minCost, maxCost)`: a `true` return additionally
passed `isCostEquivalentTo(minCost, h) || isCostBetterThan(minCost, h)` on the sampler's own
heuristic `h`, and all outer iterations together consume at most `numIters_` draws (one more only on
the null-PHS exit of `randomPhsPtr`, which the C++ code would dereference). -/
theorem sample3_success_sound (s : Sampler α) (inB : List α × ρ → Bool) (fin : Bool) (minC c : α)
    (ds : List (Draw α ρ)) (cur : List α × ρ) :
    ((s.sample3 inB fin minC c ds cur).2.found = true →
      DirectOk (s.update c) inB fin ds (s.sample3 inB fin minC c ds cur).2.st ∧
      ∃ sc, (if fin then s.update c else s).hcost (s.sample3 inB fin minC c ds cur).2.st.1 = some sc
        ∧ ((¬ sc < minC) ∨ minC < sc)) ∧
    (s.sample3 inB fin minC c ds cur).2.rest <:+ ds ∧
    ((s.sample3 inB fin minC c ds cur).2.nullPhs = false →
      ds.length ≤ (s.sample3 inB fin minC c ds cur).2.rest.length + s.numIters) := by
  obtain ⟨_, h2, h3, h4, _⟩ := PhsLogic.sample3_sound s inB fin minC c ds cur
  refine ⟨fun hf => ?_, h3, h4⟩
  obtain ⟨hd, sc, hsc, hl⟩ := h2 hf
  exact ⟨hd, sc, hsc, (lowerOk_true_iff minC sc).1 hl⟩

/-- **RejectionInfSampler**: a `true` return means the returned state is a base-sampler draw whose
heuristic cost is strictly below `maxCost` (and not below `minCost` in the three-argument form);
at most `numIters_` draws are made. -/
theorem rejection_success_sound (h : List α × ρ → α) (lim : Nat) (minC c : α) (ds : List (Draw α ρ))
    (cur : List α × ρ) :
    ((rejSample2 h lim c ds cur).found = true →
      h (rejSample2 h lim c ds cur).st < c ∧
      ∃ d ∈ ds, (rejSample2 h lim c ds cur).st = (d.baseInf, d.baseRest)) ∧
    (rejSample2 h lim c ds cur).iters ≤ lim ∧
    ds.length ≤ (rejSample2 h lim c ds cur).rest.length + lim ∧
    ((rejSample3 h lim minC c ds cur).found = true →
      h (rejSample3 h lim minC c ds cur).st < c ∧
      (∃ d ∈ ds, (rejSample3 h lim minC c ds cur).st = (d.baseInf, d.baseRest)) ∧
      ((¬ h (rejSample3 h lim minC c ds cur).st < minC) ∨ minC < h (rejSample3 h lim minC c ds cur).st)) ∧
    ds.length ≤ (rejSample3 h lim minC c ds cur).rest.length + lim := by
  obtain ⟨a1, _, a3, a4⟩ := PhsLogic.rejSample2_sound h lim c ds cur
  obtain ⟨b1, _, b3⟩ := PhsLogic.rejSample3_sound h lim minC c ds cur
  refine ⟨a1, a3, a4, fun hf => ?_, b3⟩
  obtain ⟨x1, x2, x3⟩ := b1 hf
  exact ⟨x1, x2, (lowerOk_true_iff _ _).1 x3⟩

/-- **OrderedInfSampler** (as fixed by 4bc34ddf9, F35) — **`ordered_success_sound`**: a `true` return
implies the returned state was produced by a SUCCESSFUL wrapped-sampler call of some batch and passes
the cost test `h t < maxCost`; the queue holds exactly the successful samples of that batch. -/
theorem ordered_success_sound (h : σ → α) (c : α) (bs : List (List (Wrapped σ))) (t : σ) (q : List σ)
    (hs : orderedSample h c bs = .found t q) :
    h t < c ∧ ∃ b ∈ bs, q = (b.filter (·.1)).map (·.2) ∧ ∃ w ∈ b, w.1 = true ∧ w.2 = t :=
  PhsLogic.ordered_success_sound h c bs t q hs

/-- hence whatever the wrapped sampler guarantees for its successes (`good`: in bounds, cost below
the bound — `sample_success_sound`, `rejection_success_sound`) holds for the ordered sampler's successes;
and it returns `false` only when the whole batch of wrapped calls failed OR the best of the batch drawn for
this very `maxCost` is not below it (the `freshBatch` return of d1f394c05, F144). -/
theorem ordered_success_inherits (h : σ → α) (c : α) (good : σ → Prop)
    (bs : List (List (Wrapped σ))) (hw : ∀ b ∈ bs, ∀ w ∈ b, w.1 = true → good w.2) :
    (∀ t q, orderedSample h c bs = .found t q → good t ∧ h t < c) ∧
    (orderedSample h c bs = .failed → ∃ b, bs.head? = some b ∧
      ((∀ w ∈ b, w.1 = false) ∨ ∃ t, argBest h ((b.filter (·.1)).map (·.2)) = some t ∧ ¬ h t < c)) :=
  ⟨fun t q hs => PhsLogic.ordered_success_good h c good bs hw t q hs, PhsLogic.ordered_failed_batch h c bs⟩

/-- **Defect F35 (code before 4bc34ddf9)**: `createBatch` ignored the wrapped sampler's return value,
so a state that the wrapped sampler reported as a FAILURE (e.g. left outside the bounds when it ran
out of iterations) was returned as a success whenever its cost was below the bound; the fixed wrapper
returns `false` on the same input. -/
theorem ordered_old_sound_fails (h : σ → α) (c : α) (t : σ) (ht : h t < c) :
    (∃ bs q, orderedSampleOld h c bs = some (t, q) ∧ ∀ b ∈ bs, ∀ w ∈ b, w.2 = t → w.1 = false) ∧
    orderedSample h c [[(false, t)]] = .failed := by
  refine ⟨⟨[[(false, t)]], [t], PhsLogic.ordered_old_returns_failed_sample h c t ht, ?_⟩,
    PhsLogic.ordered_new_rejects_failed_sample h c t⟩
  intro b hb w hw _
  simp only [List.mem_singleton] at hb
  subst hb
  simp only [List.mem_singleton] at hw
  subst hw
  rfl

/-- **Defect F34 (code before 74ee9605c)**: the old `samplePhsRejectBounds` loop tested only the
bounds: whenever the transformed point is in no PHS (which `Float` rounding realises for a very thin
PHS — corpus 03 on the old code) it was still returned as a success; the fixed loop rejects it. -/
theorem direct_old_phs_branch_fails (s : Sampler α) (inB : List α × ρ → Bool) (lim : Nat)
    (hl : 0 < lim) (d : Draw α ρ) (cur : List α × ρ) (p : Phs α) (x : List α)
    (hr : s.randomPhs d.r1 = some p) (ht : p.transform d.ball = some x)
    (hk : s.keep x d.r2 = true) (hb : inB (x, d.rot) = true) (hout : s.isInAny x = false) :
    (phsRejectBoundsOld s inB lim [d] cur 0).found = true ∧
    (phsRejectBoundsOld s inB lim [d] cur 0).st = (x, d.rot) ∧
    s.isInAny (phsRejectBoundsOld s inB lim [d] cur 0).st.1 = false ∧
    (phsRejectBounds s inB lim [d] cur 0).found = false :=
  PhsLogic.direct_old_phs_branch_fails s inB lim hl d cur p x hr ht hk hb hout

/-- the bounds-branch test is a cost test: if some PHS contains `x` then the sampler's heuristic
(best focal sum over the PHS list) is below `c`.  Needs two order laws of `<` (true of ℝ, and of
`Float` without NaN), passed explicitly. -/
theorem isInAny_implies_cost_below (trans : ∀ a b c : α, a < b → b < c → a < c)
    (conn : ∀ a b c : α, ¬ a < b → a < c → b < c) (s : Sampler α) (x : List α) (c : α)
    (hall : ∀ p ∈ s.phss, p.c = c) (hin : s.isInAny x = true) :
    ∃ h, s.hcost x = some h ∧ h < c :=
  PhsLogic.hcost_lt_of_isInAny trans conn s x c hall hin

/-- non-vacuity: the infinite-bound call on a one-draw stream succeeds with that draw -/
example (s : Sampler α) (inB : List α × ρ → Bool) (c : α) (d : Draw α ρ) (cur : List α × ρ) :
    (s.sample2 inB false c [d] cur).2.found = true := by
  simp [Sampler.sample2, Sampler.sampleInner]
end logic


/-! ## End to end over ℝ [EX] -/

/-- the hypotheses on the rotation at list level — exactly what the check verifies numerically for
every real PHS (sizes, `RᵀR = I` entrywise, `R e₁ = (f₂−f₁)/cmin` entrywise) — give `Setup`. -/
theorem setup_from_checked_hypotheses {n : ℕ} {f1 f2 : List ℝ} {rot : List (List ℝ)}
    (h1 : f1.length = n + 1) (h2 : f2.length = n + 1) (hR : rot.length = n + 1)
    (hC : ∀ col ∈ rot, col.length = n + 1)
    (horth : ∀ i j : Fin (n + 1), ∑ k : Fin (n + 1), (rot.getD i []).getD k 0 * (rot.getD j []).getD k 0
        = if i = j then 1 else 0)
    (hne : vnorm (vsub f1 f2) ≠ 0)
    (hax : ∀ k : Fin (n + 1), (rot.getD 0 []).getD k 0 = (f2.getD k 0 - f1.getD k 0) / vnorm (vsub f1 f2)) :
    Setup n f1 f2 rot :=
  PhsCap.setup_of_lists h1 h2 hR hC horth hne hax

/-- **A successful direct informed sample lies within the bounds and has a heuristic solution cost
strictly below `c`** — both branches, every number of start/goal pairs, every dimension, every stream
of draws whose ball points lie in the open unit ball and whose base draws are in bounds, every finite
cost bound above the focal distances of the PHSs still in the list.  (Over ℝ; under `Float` rounding the
same conclusion is delivered by the `isInAnyPhs` re-test of the fixed code, see `DirectOk`.) -/
theorem direct_success_in_bounds_and_below_cost {n : ℕ} {ρ : Type} (s : Sampler ℝ) (inB : List ℝ × ρ → Bool)
    (c : ℝ) (ds : List (Draw ℝ ρ)) (cur : List ℝ × ρ)
    (hbase : ∀ d ∈ ds, inB (d.baseInf, d.baseRest) = true)
    (hphs : ∀ p ∈ (s.update c).phss, ∃ id f1 f2 rot, Setup n f1 f2 rot ∧
      p = (Phs.mk' id f1 f2 rot).setC c ∧ ((Phs.mk' id f1 f2 rot).setC c).cmin < c)
    (hball : ∀ d ∈ ds, d.ball.length = n + 1 ∧ sumSq d.ball < 1)
    (hf : (s.sample2 inB true c ds cur).2.found = true) :
    inB (s.sample2 inB true c ds cur).2.st = true ∧
    ∃ h, (s.update c).hcost (s.sample2 inB true c ds cur).2.st.1 = some h ∧ h < c :=
  PhsCap.direct_success_cost_below s inB c ds cur hbase hphs hball hf


/-- the same conclusion for the FIXED code from the `isInAnyPhs` re-test alone — no hypothesis on the
rotation or on the ball draws: whatever the transform produced, a success was re-tested against the
PHSs, so its heuristic cost is below `c` (this is the form that survives rounding once the two order
laws are granted, cf. `isInAny_implies_cost_below`). -/
theorem direct_success_below_cost_by_retest {ρ : Type} (s : Sampler ℝ) (inB : List ℝ × ρ → Bool)
    (c : ℝ) (ds : List (Draw ℝ ρ)) (cur : List ℝ × ρ)
    (hbase : ∀ d ∈ ds, inB (d.baseInf, d.baseRest) = true)
    (hall : ∀ p ∈ (s.update c).phss, p.c = c)
    (hf : (s.sample2 inB true c ds cur).2.found = true) :
    inB (s.sample2 inB true c ds cur).2.st = true ∧
    (s.update c).isInAny (s.sample2 inB true c ds cur).2.st.1 = true ∧
    ∃ h, (s.update c).hcost (s.sample2 inB true c ds cur).2.st.1 = some h ∧ h < c :=
  PhsCap.direct_success_cost_below_retest s inB c ds cur hbase hall hf


/-! ## The PHS state is a function of the current diameter [AF] -/

section state
variable {α : Type} [Num α]

/-- **`phs_state_is_function_of_current_diameter`**: whatever sequence `cs` of successful
`setTransverseDiameter` calls an object went through, a final call with `d` gives exactly the object
a FRESH `p` gives when set to `d` (same throw behaviour, and as whole records when it succeeds) — hence
`transform`, `getPathLength`, `isInPhs`, `isOnPhs` and the cached `getPhsMeasure` depend on the current
diameter only, never on an earlier one.  Arithmetic-free: holds for `Float`; the lock-step run with
consecutive diameters 1 ulp / 2 ulp / 1e-16 apart is what ties the C++ `!=` shortcut to it. -/
theorem phs_state_is_function_of_current_diameter (cs : List α) (p q : Phs α) (d : α)
    (h : PhsState.history p cs = some q) :
    q.setTransverseDiameter d = p.setTransverseDiameter d ∧
    (∀ q' p', q.setTransverseDiameter d = some q' → p.setTransverseDiameter d = some p' →
      q' = p' ∧ (∀ u, q'.transform u = p'.transform u) ∧ (∀ x, q'.isIn x = p'.isIn x) ∧
      (∀ x, q'.isOn x = p'.isOn x) ∧ (∀ x, q'.pathLength x = p'.pathLength x) ∧ q'.measure = p'.measure ∧
      q'.c = d) := by
  have e := PhsState.history_then_set cs p q d h
  refine ⟨e, fun q' p' hq hp => ?_⟩
  have : q' = p' := Option.some.inj (hq ▸ hp ▸ e)
  subst this
  refine ⟨rfl, fun _ => rfl, fun _ => rfl, fun _ => rfl, fun _ => rfl, rfl, ?_⟩
  rw [PhsState.setTD_eq p q' d hp]
  rfl

/-- non-vacuity: an empty and a one-call history exist for every object -/
example (p : Phs α) : PhsState.history p [] = some p := rfl
end state


/-! ## Round 3: closed ball, two-bound form over ℝ, wrapper, n-ball with radius, the model's own 2-D rotation -/

/-- **The PHS transform maps the closed unit ball into `{x | d(x,f₁)+d(x,f₂) ≤ dTransverse}`** (every
dimension; `cmin ≤ c`, so the degenerate PHS `c = cmin` — the focal segment — is included). -/
theorem phs_closed_ball {n : ℕ} {f1 f2 : List ℝ} {rot : List (List ℝ)} (hs : Setup n f1 f2 rot) (id : ℕ) (c : ℝ)
    {u : List ℝ} (hu : u.length = n + 1) (hsq : sumSq u ≤ 1)
    (hc : ((Phs.mk' id f1 f2 rot).setC c).cmin ≤ c) :
    ∃ x, ((Phs.mk' id f1 f2 rot).setC c).transform u = some x ∧ x.length = n + 1 ∧
      ((Phs.mk' id f1 f2 rot).setC c).pathLength x ≤ c :=
  PhsMore.model_phs_closed_ball hs id c hu hsq hc

/-- **Two-bound form over ℝ**: a successful `sampleUniform(state, minCost, maxCost)` of the direct sampler
returns a state with `minCost ≤ heuristic < maxCost` (both branches, any number of start/goal pairs; from the
`isInAnyPhs` tests of the code, no hypothesis on the rotation or the draws), inside the bounds when the base
sampler's draws are. -/
theorem direct3_success_cost_between {ρ : Type} (s : Sampler ℝ) (inB : List ℝ × ρ → Bool) (minC c : ℝ)
    (ds : List (Draw ℝ ρ)) (cur : List ℝ × ρ) (hall : ∀ p ∈ (s.update c).phss, p.c = c)
    (hf : (s.sample3 inB true minC c ds cur).2.found = true) :
    (∃ sc, (s.update c).hcost (s.sample3 inB true minC c ds cur).2.st.1 = some sc ∧ minC ≤ sc ∧ sc < c) ∧
    ((∀ d ∈ ds, inB (d.baseInf, d.baseRest) = true) → inB (s.sample3 inB true minC c ds cur).2.st = true) :=
  ⟨PhsMore.direct3_success_cost_between s inB minC c ds cur hall hf,
   fun hbase => PhsMore.direct3_success_in_bounds s inB minC c ds cur hbase hf⟩

/-- rejection sampler over ℝ: `heuristic < maxCost`, and `minCost ≤ heuristic < maxCost` for the two-bound form -/
theorem rejection_success_cost_between {ρ : Type} (h : List ℝ × ρ → ℝ) (lim : ℕ) (minC c : ℝ)
    (ds : List (Draw ℝ ρ)) (cur : List ℝ × ρ) :
    ((rejSample2 h lim c ds cur).found = true → h (rejSample2 h lim c ds cur).st < c) ∧
    ((rejSample3 h lim minC c ds cur).found = true →
      minC ≤ h (rejSample3 h lim minC c ds cur).st ∧ h (rejSample3 h lim minC c ds cur).st < c) :=
  ⟨PhsMore.rej2_success_cost_below h lim c ds cur, PhsMore.rej_success_cost_between h lim minC c ds cur⟩

/-- **InformedStateSampler** (the `StateSampler` planners hold) [AF]: it returns either the informed sampler's
successful state or, after a reported failure, the next regular base sample — never the leftover of a failed
attempt; hence always a state inside the bounds. -/
theorem informed_state_sampler_sound {α ρ : Type} (inB : List α × ρ → Bool) (o : Out α ρ)
    (st : List α × ρ) (rest : List (Draw α ρ)) (flag : Bool)
    (h : informedStateSample o = some (st, rest, flag)) :
    ((flag = true → o.found = true ∧ st = o.st ∧ rest = o.rest) ∧
     (flag = false → o.found = false ∧ ∃ d, o.rest = d :: rest ∧ st = (d.baseInf, d.baseRest))) ∧
    ((o.found = true → inB o.st = true) → (∀ d ∈ o.rest, inB (d.baseInf, d.baseRest) = true) → inB st = true) :=
  ⟨PhsMore.informedStateSample_spec o st rest flag h,
   fun hfound hbase => PhsMore.informedStateSample_in_bounds inB o hfound hbase st rest flag h⟩

/-- `nBallMeasure(N, r)` as coded equals `unitBall(N)·r^N`, the Lebesgue volume of the radius-`r` ball -/
theorem nBallMeasure_closed_form (n : ℕ) (r : ℝ) :
    (nBallMeasure n r : ℝ) = unitNBallMeasure n * r ^ n ∧
    (0 ≤ r → MeasureTheory.volume (Metric.ball (0 : EuclideanSpace ℝ (Fin (n + 1))) r)
      = ENNReal.ofReal (nBallMeasure (n + 1) r)) :=
  ⟨PhsMore.nBallMeasure_eq n r, PhsMore.nBallMeasure_volume_succ n r⟩

/-- **In the plane the rotation is no longer a parameter**: the model's own `rot2` (what `updateRotation`'s
SVD + `det = +1` must produce; compared with the recovered matrix at 1e-9 on every run) satisfies `Setup` for
every pair of distinct foci, so surface / interior / onto hold unconditionally in 2-D. -/
theorem phs2d_unconditional {f1 f2 : List ℝ} (h1 : f1.length = 2) (h2 : f2.length = 2) (hne : f1 ≠ f2)
    (id : ℕ) (c : ℝ) :
    Setup 1 f1 f2 (rot2 f1 f2) ∧
    (∀ u : List ℝ, u.length = 2 → sumSq u = 1 → ((Phs.mk' id f1 f2 (rot2 f1 f2)).setC c).cmin ≤ c →
      ∃ x, ((Phs.mk' id f1 f2 (rot2 f1 f2)).setC c).transform u = some x ∧
        ((Phs.mk' id f1 f2 (rot2 f1 f2)).setC c).pathLength x = c) ∧
    (∀ u : List ℝ, u.length = 2 → sumSq u < 1 → ((Phs.mk' id f1 f2 (rot2 f1 f2)).setC c).cmin < c →
      ∃ x, ((Phs.mk' id f1 f2 (rot2 f1 f2)).setC c).transform u = some x ∧
        ((Phs.mk' id f1 f2 (rot2 f1 f2)).setC c).isIn x = true) ∧
    (((Phs.mk' id f1 f2 (rot2 f1 f2)).setC c).cmin < c → ∀ x : List ℝ, x.length = 2 →
      ((Phs.mk' id f1 f2 (rot2 f1 f2)).setC c).isIn x = true →
      ∃ u : List ℝ, u.length = 2 ∧ sumSq u < 1 ∧ ((Phs.mk' id f1 f2 (rot2 f1 f2)).setC c).transform u = some x) := by
  refine ⟨PhsMore.rot2_setup_of_ne h1 h2 hne, fun u hu hsq hc => ?_, fun u hu hsq hc => ?_, fun hc x hx hin => ?_⟩
  · obtain ⟨x, hx, _, hp, _⟩ := PhsMore.phs2d_surface h1 h2 hne id c hu hsq hc
    exact ⟨x, hx, hp⟩
  · obtain ⟨x, hx, _, hi⟩ := PhsMore.phs2d_interior h1 h2 hne id c hu hsq hc
    exact ⟨x, hx, hi⟩
  · exact PhsMore.phs2d_onto h1 h2 hne id c hc x hx hin

/-- non-vacuity: distinct foci of length 2 exist -/
example : ([-3, 0] : List ℝ).length = 2 ∧ ([3, 0] : List ℝ).length = 2 ∧ ([-3, 0] : List ℝ) ≠ [3, 0] := by
  refine ⟨rfl, rfl, ?_⟩
  intro h
  have := (List.cons.inj h).1
  norm_num at this


/-- **The reported measure IS the Lebesgue volume of the informed set**, in every dimension `n+1`: for foci
given as coordinate lists, `cmin = ‖f₁ − f₂‖ < c`, the value `prolateHyperspheroidMeasure(n+1, cmin, c)`
computed by the coded loop equals `volume {x | ‖x − f₁‖ + ‖x − f₂‖ < c}` (Mathlib's Lebesgue measure on
`EuclideanSpace ℝ (Fin (n+1))`; the set is the linear image of the unit ball, determinant `(c/2)·rⁿ`). -/
theorem reported_measure_is_lebesgue_volume (n : ℕ) (f1 f2 : List ℝ) (h1 : f1.length = n + 1)
    (h2 : f2.length = n + 1) (hne : toE (n + 1) f1 ≠ toE (n + 1) f2) (c : ℝ)
    (hc : vnorm (vsub f1 f2) < c) :
    ∃ m : ℝ, phsMeasure (n + 1) (vnorm (vsub f1 f2)) c = some m ∧
      MeasureTheory.volume {x : EuclideanSpace ℝ (Fin (n + 1)) |
        ‖x - toE (n + 1) f1‖ + ‖x - toE (n + 1) f2‖ < c} = ENNReal.ofReal m := by
  have hcm : vnorm (vsub f1 f2) = ‖toE (n + 1) f2 - toE (n + 1) f1‖ := by
    rw [vnorm_eq (vsub_length h1 h2), toE_vsub h1 h2, norm_sub_rev]
  rw [hcm] at hc ⊢
  exact PhsVolume.phs_volume_model n (toE (n + 1) f1) (toE (n + 1) f2) hne c hc


/-- **OrderedInfSampler with its persistent queue** [AF] (`orderedRun`: the state machine the driver runs in
lock-step with the real class over scripted draws; fixed code incl. the `freshBatch` return of d1f394c05, so the
loop needs no fuel: it always returns): if every state already queued is `good` and every SUCCESSFUL wrapped call
of `createBatch` yields a `good` state, then a `true` return yields a `good` state that passes the cost test for the
CURRENT bound, and the queue left behind is again all `good` — so the guarantee composes over any number of
successive calls with changing bounds; `false` is returned only when the whole fresh batch failed OR the best of the
batch drawn for this very bound is not below it. -/
theorem ordered_queue_sound {α : Type} [Num α] {σ S : Type} (h : σ → α) (c : α)
    (mk : S → Option (List (Wrapped σ) × S)) (good : σ → Prop)
    (hmk : ∀ s b s', mk s = some (b, s') → ∀ w ∈ b, w.1 = true → good w.2)
    (q : List σ) (s : S) (hq : ∀ x ∈ q, good x) :
    (∀ t rest s', orderedRun h c mk q s = .found t rest s' → good t ∧ h t < c ∧ ∀ x ∈ rest, good x) ∧
    (∀ s', orderedRun h c mk q s = .failed s' → ∃ s0 b, mk s0 = some (b, s') ∧
      ((∀ w ∈ b, w.1 = false) ∨
        ∃ t rest, popBest h ((b.filter (·.1)).map (·.2)) = some (t, rest) ∧ ¬ h t < c)) :=
  ⟨fun t rest s' hr => PhsOrdered.orderedRun_sound h c mk good hmk q s hq t rest s' hr,
   fun s' hr => PhsOrdered.orderedRun_failed h c mk q s s' hr⟩

/-- **Defect F144 (code before d1f394c05)**: when no sample can beat `maxCost` (constant-reject stream: every batch
holds a successful sample whose cost is not below the bound) the old loop never returns — for EVERY number of loop
passes / supplied batches the model of the old code is still looping (`.starved`) — while the fixed code returns
`false` on the first fresh batch. -/
theorem ordered_old_loops_forever {α : Type} [Num α] {σ : Type} (h : σ → α) (c : α) (t : σ) (ht : ¬ h t < c) :
    (∀ fuel : Nat, orderedRunOld h c (fun _ : Unit => some ([(true, t)], ())) fuel [] () = .starved) ∧
    (∀ n : Nat, orderedSampleLoop h c (List.replicate n [(true, t)]) = .starved) ∧
    (∃ s', orderedRun h c (fun _ : Unit => some ([(true, t)], ())) [] () = .failed s') := by
  refine ⟨PhsOrdered.orderedRunOld_loops h c t ht, PhsLogic.ordered_old_loops h c t ht, ⟨(), ?_⟩⟩
  simp [orderedRun, orderedFresh, popBest, ht]

/-! ## Non-vacuity (Proofs/PhsNonvac.lean): the hypotheses of the theorems above are jointly satisfiable -/

/-- a concrete finite-bound run of the direct sampler that SUCCEEDS on the PHS branch (foci (∓3,0), c = 10, one
draw at the ball centre): premises of `sample_success_sound`, `direct_success_*` hold for it -/
example : (PhsNonvac.exSampler.sample2 (fun _ => true) true 10 [PhsNonvac.exDraw] (([] : List ℝ), ())).2.found = true :=
  PhsNonvac.ex_success
example : Setup 1 [-3, 0] [3, 0] [[1, 0], [0, 1]] := PhsNonvac.ex_setup_of_lists
example : phsMeasure 2 (6 : ℝ) 10 = some (Real.pi * 5 * 4) := PhsNonvac.ex_measure
example {α : Type} [Num α] {σ : Type} (h : σ → α) (c : α) (t : σ) (ht : h t < c) :
    orderedSample h c [[(true, t)]] = .found t [t] := PhsNonvac.ordered_one_success h c t ht
example {α : Type} [Num α] {σ : Type} (h : σ → α) (c : α) (t : σ) (ht : h t < c) :
    orderedRun h c (fun _ : Unit => some ([(true, t)], ())) [] () = .found t [] () :=
  PhsNonvac.orderedRun_one_success h c t ht
example {α : Type} [Num α] {ρ : Type} (h : List α × ρ → α) (c : α) (d : Draw α ρ) (cur : List α × ρ)
    (hd : h (d.baseInf, d.baseRest) < c) :
    rejSample2 h 1 c [d] cur = ⟨true, (d.baseInf, d.baseRest), 1, [], false, false⟩ :=
  PhsNonvac.rejSample2_one_success h c d cur hd


/-- **`phs_sample_history_independent`** [AF]: `RNG::uniformProlateHyperspheroid` as coded (model `uniformPhs`) takes
the ball's dimension from the PHS (`dir.length = p.dim`: one `uniformNormalVector` of exactly that size plus one
uniform draw for the radius `pow(u, 1/dim)`), its result is the transform of that ball point, and it depends on
nothing but this call's own draws: whatever PHSs of whatever dimensions were sampled before, with whatever draws,
the next call returns the same point.  (The lock-step runs several problems of descending and mixed dimension in one
process against this model; a scratch buffer that keeps an earlier, larger dimension makes the real call consume
other draws and return another point.) -/
theorem phs_sample_history_independent {α : Type} [Num α] (root : Nat → α → α)
    (hist : List (Phs α × List α × α)) (p : Phs α) (dir : List α) (u : α) :
    (uniformPhsRun root (hist ++ [(p, dir, u)])).getLast? = some (uniformPhs root p dir u) ∧
    (∀ x, uniformPhs root p dir u = some x →
      dir.length = p.dim ∧ (uniformInBall root (Num.ofNat 1) dir u).length = p.dim ∧
      p.transform (uniformInBall root (Num.ofNat 1) dir u) = some x) :=
  ⟨PhsState.uniformPhsRun_last root hist p dir u, fun x h => PhsState.uniformPhs_some root p dir u x h⟩


/-! ## Round 4: edges of the quantifier — bound at/below the focal distance, start = goal, repairs -/

/-- **A bound at or below the focal distance never succeeds — over ℝ** (single start/goal pair; any rotation; a
sampler that may have been used before): both branches test `isInAnyPhs`, and `pathLength x ≥ cmin ≥ c` by the
triangle inequality.  Together with the iteration caps (`sample_success_sound`) the call returns `false`, it does
not loop.  Under `Float` rounding the code does NOT behave like this: a point of the focal segment can have a
rounded focal sum one ulp below `cmin` (finding F130); `degenerate_bound_repair` is the arithmetic-free repair. -/
theorem direct_no_success_at_or_below_focal_distance {ρ : Type} {n : ℕ} (s : Sampler ℝ)
    (inB : List ℝ × ρ → Bool) (c : ℝ) (ds : List (Draw ℝ ρ)) (cur : List ℝ × ρ) (p : Phs ℝ)
    (hs : s.phss = [p]) (h1 : p.f1.length = n) (h2 : p.f2.length = n)
    (hcm : p.cmin = vnorm (vsub p.f1 p.f2)) (hc : c ≤ p.cmin)
    (hbase : ∀ d ∈ ds, d.baseInf.length = n)
    (htr : ∀ d ∈ ds, ∀ x, (p.setC p.cmin).transform d.ball = some x → x.length = n) :
    (s.sample2 inB true c ds cur).2.found = false :=
  PhsEdge.direct_no_success_at_or_below_focal_distance s inB c ds cur p hs h1 h2 hcm hc hbase htr

/-- the focal sum is never below the focal distance (no hypothesis on the rotation) -/
theorem pathLength_ge_focal_distance {n : ℕ} (p : Phs ℝ) (h1 : p.f1.length = n) (h2 : p.f2.length = n)
    (hcm : p.cmin = vnorm (vsub p.f1 p.f2)) {x : List ℝ} (hx : x.length = n) : p.cmin ≤ p.pathLength x :=
  PhsEdge.pathLength_ge_cmin p h1 h2 hcm hx

/-- **Repair of F130** [AF]: with the proposed early return (`sampleInnerFixed`) a bound no PHS can improve on is
answered `false` at once (no draw consumed, counter untouched) — no arithmetic, hence no rounding, involved; in every
other situation the repaired function is the coded one. -/
theorem degenerate_bound_repair {α : Type} [Num α] {ρ : Type} (s : Sampler α) (inB : List α × ρ → Bool) (c : α)
    (ds : List (Draw α ρ)) (cur : List α × ρ) (it : Nat) :
    ((s.update c).cannotImprove c = true →
      (s.sampleInnerFixed inB true c ds cur it).2.found = false ∧
      (s.sampleInnerFixed inB true c ds cur it).2.rest = ds ∧
      (s.sampleInnerFixed inB true c ds cur it).2.iters = it) ∧
    (∀ fin, (fin && (s.update c).cannotImprove c) = false →
      s.sampleInnerFixed inB fin c ds cur it = s.sampleInner inB fin c ds cur it) ∧
    (∀ p, (s.update c).phss = [p] → ¬ p.cmin < c → (s.update c).cannotImprove c = true) :=
  ⟨fun h => PhsState.sampleInnerFixed_cannotImprove s inB c ds cur it h,
   fun fin h => PhsState.sampleInnerFixed_eq s inB fin c ds cur it h,
   fun p hs hc => PhsState.cannotImprove_single (s.update c) p c hs hc⟩

/-- **Start = goal (the circle branch of `updateRotation`)**: with coincident foci `mkAuto` takes the identity
rotation whatever rotation is supplied, and the sampled region is EXACTLY the open ball of radius `c/2` around the
common state: unit vectors map to focal sum `c`, the open ball into `isInPhs`, and every `isInPhs` point is an image.
(Foci closer than `circleTol = 1e-9` but distinct also get the identity: there the region is an ellipsoid aligned
with e₁ instead of the focal axis — outside the property's quantifier; the `isInAnyPhs` re-test keeps successes sound.) -/
theorem start_equals_goal_region {n : ℕ} {f : List ℝ} (hf : f.length = n + 1) (id : ℕ) (rot : List (List ℝ))
    (c : ℝ) (hc : 0 < c) :
    Phs.mkAuto id f f rot = Phs.mk' id f f (identityRot (n + 1)) ∧
    (∀ u : List ℝ, u.length = n + 1 → sumSq u = 1 →
      ∃ x, ((Phs.mk' id f f (identityRot (n + 1))).setC c).transform u = some x ∧
        ((Phs.mk' id f f (identityRot (n + 1))).setC c).pathLength x = c) ∧
    (∀ u : List ℝ, u.length = n + 1 → sumSq u < 1 →
      ∃ x, ((Phs.mk' id f f (identityRot (n + 1))).setC c).transform u = some x ∧
        ((Phs.mk' id f f (identityRot (n + 1))).setC c).isIn x = true) ∧
    (∀ x : List ℝ, x.length = n + 1 → ((Phs.mk' id f f (identityRot (n + 1))).setC c).isIn x = true →
      ∃ u : List ℝ, u.length = n + 1 ∧ sumSq u < 1 ∧
        ((Phs.mk' id f f (identityRot (n + 1))).setC c).transform u = some x) :=
  ⟨PhsEdge.mkAuto_circle hf id rot,
   fun _ hu hsq => PhsEdge.circle_surface hf id c hc.le hu hsq,
   fun _ hu hsq => PhsEdge.circle_interior hf id c hc hu hsq,
   fun x hx hin => PhsEdge.circle_onto hf id c hc x hx hin⟩

/-- **F36 as coded, and its repair** [AF]: `updatePhsDefinitions` is NOT history independent (a low bound that drops
a PHS followed by a higher bound leaves one PHS where a single call with the higher bound keeps two), whereas the
repaired update (restore the construction-time list first) gives the same sampler whatever bounds came before. -/
theorem update_history {α : Type} [Num α] (s : Sampler α) (p1 p2 : Phs α) (c1 c2 : α) (hs : s.phss = [p1, p2])
    (h11 : p1.cmin < c1) (h21 : ¬ p2.cmin < c1) (h12 : p1.cmin < c2) (h22 : p2.cmin < c2)
    (all : List (Phs α)) (cs : List α) (c : α) :
    (((s.update c1).update c2).phss.length = 1 ∧ (s.update c2).phss.length = 2) ∧
    (cs.foldl (fun s c' => s.updateRestoring all c') s).updateRestoring all c = s.updateRestoring all c :=
  ⟨PhsEdge.update_not_history_independent s p1 p2 c1 c2 hs h11 h21 h12 h22,
   PhsEdge.updateRestoring_history_independent all cs s c⟩


/-! ## The direct sampler AS CODED NOW (fixes 09980379c = F36, 5852532a8 = F130)

`sample2F` / `sample3F` / `updateF` / `hcostF` are the current code (the check selects them from the tree under
test); `sample2` / `sample3` / `update` / `hcost` used in the theorems further up are their building blocks and at
the same time the code BEFORE the two fixes — those theorems stay as lemmas and `_old_` witnesses. -/

/-- **`sample_success_sound` for the current code** [AF]: every conclusion of the pre-fix theorem, now for
`sampleUniform(state, maxCost)` with the PHS list restored from `allPhsPtrs_` on every call and the early return. -/
theorem direct_sampler_success_sound {α : Type} [Num α] {ρ : Type} (s : Sampler α) (inB : List α × ρ → Bool)
    (fin : Bool) (c : α) (ds : List (Draw α ρ)) (cur : List α × ρ)
    (hbase : ∀ d ∈ ds, inB (d.baseInf, d.baseRest) = true)
    (hf : (s.sample2F inB fin c ds cur).2.found = true) :
    inB (s.sample2F inB fin c ds cur).2.st = true ∧
    DirectOk (s.updateF c) inB fin ds (s.sample2F inB fin c ds cur).2.st ∧
    (s.sample2F inB fin c ds cur).2.rest <:+ ds ∧
    (fin = true → (s.sample2F inB fin c ds cur).2.iters ≤ s.numIters ∧
      ds.length ≤ (s.sample2F inB fin c ds cur).2.rest.length + s.numIters) ∧
    (fin = false → ds.length ≤ (s.sample2F inB fin c ds cur).2.rest.length + 1) :=
  PhsFixed.sample2F_success_sound s inB fin c ds cur hbase hf

/-- three-argument form of the current code [AF]: the lower bound is tested on the heuristic over ALL start/goal
pairs (`hcostF`), so a state whose true heuristic cost is below `minCost` is never returned (the pre-fix code
tested it on the PHSs that survived earlier bounds only). -/
theorem direct_sampler3_success_sound {α : Type} [Num α] {ρ : Type} (s : Sampler α) (inB : List α × ρ → Bool)
    (fin : Bool) (minC c : α) (ds : List (Draw α ρ)) (cur : List α × ρ) :
    ((s.sample3F inB fin minC c ds cur).2.found = true →
      DirectOk (s.updateF c) inB fin ds (s.sample3F inB fin minC c ds cur).2.st ∧
      ∃ sc, (if fin then s.updateF c else s).hcostF (s.sample3F inB fin minC c ds cur).2.st.1 = some sc ∧
        ((¬ sc < minC) ∨ minC < sc)) ∧
    (s.sample3F inB fin minC c ds cur).2.rest <:+ ds ∧
    ((s.sample3F inB fin minC c ds cur).2.nullPhs = false →
      ds.length ≤ (s.sample3F inB fin minC c ds cur).2.rest.length + s.numIters) := by
  obtain ⟨_, h2, h3, h4, _⟩ := PhsFixed.sample3F_success_sound s inB fin minC c ds cur
  refine ⟨fun hf => ?_, h3, h4⟩
  obtain ⟨hd, sc, hsc, hl⟩ := h2 hf
  exact ⟨hd, sc, hsc, (lowerOk_true_iff minC sc).1 hl⟩

/-- **A bound no PHS can improve on is answered `false`, consuming no draw** [AF, every `Num α` incl. `Float`]:
single start/goal pair, `¬ cmin < maxCost` — no length, rotation or rounding side condition (contrast: the pre-fix
code needed exact arithmetic for this, `direct_no_success_at_or_below_focal_distance`, and failed under rounding: F130). -/
theorem direct_sampler_no_success_at_or_below_focal_distance {α : Type} [Num α] {ρ : Type} (s : Sampler α)
    (inB : List α × ρ → Bool) (c : α) (ds : List (Draw α ρ)) (cur : List α × ρ) (p : Phs α)
    (hs : s.all = [p]) (hc : ¬ p.cmin < c) :
    (s.sample2F inB true c ds cur).2.found = false ∧ (s.sample2F inB true c ds cur).2.rest = ds :=
  PhsFixed.directF_no_success_at_or_below_focal_distance s inB c ds cur p hs hc

/-- **The current `updatePhsDefinitions` is history independent** [AF]: whatever bounds were passed before
(lower, higher, any order), the sampler after a call with `c` is the one a fresh sampler would have
(contrast: `update_history`, first part, for the pre-fix code — F36). -/
theorem direct_sampler_update_history_independent {α : Type} [Num α] (cs : List α) (s : Sampler α) (c : α) :
    (cs.foldl (fun s c' => s.updateF c') s).updateF c = s.updateF c :=
  PhsFixed.updateF_history_independent cs s c

/-- **Current code over ℝ**: a successful finite-bound sample is in bounds, lies in a PHS of the working list and
its heuristic cost — both over the working list and over ALL start/goal pairs (`heuristicSolnCost` as coded now) —
is strictly below `maxCost`. -/
theorem direct_sampler_success_cost_below {ρ : Type} (s : Sampler ℝ) (inB : List ℝ × ρ → Bool) (c : ℝ)
    (ds : List (Draw ℝ ρ)) (cur : List ℝ × ρ)
    (hbase : ∀ d ∈ ds, inB (d.baseInf, d.baseRest) = true)
    (hall : ∀ p ∈ (s.updateF c).phss, p.c = c)
    (hf : (s.sample2F inB true c ds cur).2.found = true) :
    inB (s.sample2F inB true c ds cur).2.st = true ∧
    (s.updateF c).isInAny (s.sample2F inB true c ds cur).2.st.1 = true ∧
    (∃ h, (s.updateF c).hcost (s.sample2F inB true c ds cur).2.st.1 = some h ∧ h < c) ∧
    (∃ h', s.hcostF (s.sample2F inB true c ds cur).2.st.1 = some h' ∧ h' < c) :=
  PhsFixed.direct_successF_cost_below s inB c ds cur hbase hall hf


/-! ## Round 10: the glue around the core — constructor classification, `createFullState` / `getInformedSubstate`, PHS order;
the diameter invariant of `updatePhsDefinitions` established from the code -/

/-- **Current code over ℝ with NO hypothesis on the PHS list** (`direct_sampler_success_cost_below` assumed `hall`: every PHS
of the updated list has diameter `c`; here it is DERIVED: `updLoop` sets every kept PHS to `c`, and the only other outcome —
the degenerate single PHS — makes the call return `false`): a successful finite-bound `sampleUniform(state, maxCost)` yields a
state in bounds, inside a PHS of the working list, with heuristic cost `< maxCost` for the working list AND for all pairs. -/
theorem direct_sampler_success_cost_below_unconditional {ρ : Type} (s : Sampler ℝ) (inB : List ℝ × ρ → Bool) (c : ℝ)
    (ds : List (Draw ℝ ρ)) (cur : List ℝ × ρ)
    (hbase : ∀ d ∈ ds, inB (d.baseInf, d.baseRest) = true)
    (hf : (s.sample2F inB true c ds cur).2.found = true) :
    inB (s.sample2F inB true c ds cur).2.st = true ∧
    (s.updateF c).isInAny (s.sample2F inB true c ds cur).2.st.1 = true ∧
    (∃ h, (s.updateF c).hcost (s.sample2F inB true c ds cur).2.st.1 = some h ∧ h < c) ∧
    (∃ h', s.hcostF (s.sample2F inB true c ds cur).2.st.1 = some h' ∧ h' < c) :=
  PhsRound10.direct_successF_cost_below_unconditional s inB c ds cur hbase hf

/-- the invariant itself [AF, every `Num α` incl. `Float`]: after `updatePhsDefinitions(c)` every PHS of the working list has
transverse diameter `c`, or the list is the single degenerate PHS that cannot improve on `c` (then the sampler returns false) -/
theorem update_sets_every_diameter {α : Type} [Num α] (s : Sampler α) (c : α) :
    (∀ q ∈ (s.updateF c).phss, q.c = c) ∨ (s.updateF c).cannotImprove c = true :=
  PhsRound10.update_c_or_cannotImprove s.restored c

/-- non-vacuity: the first alternative is realised by the concrete successful run of `PhsNonvac` (premise `hf` holds) -/
example : (PhsNonvac.exSampler.sample2 (fun _ => true) true 10 [PhsNonvac.exDraw] (([] : List ℝ), ())).2.found = true :=
  PhsNonvac.ex_success

/-- **The constructors accept only well-formed problems, and what the classification returns** [no arithmetic]: a
`PathLengthDirectInfSampler` is constructed only with an optimization objective, ≥ 1 start, a sampleable goal with ≥ 1 state and
a space that is (a) non-compound of type RealVector / Unknown, or (b) a genuine `CompoundStateSpace` object whose type is
SE2 / SE3 / Dubins / ReedsShepp with exactly two subspaces, none of them foreign — then the informed and the uninformed index
are two DIFFERENT valid indices — or (c) any other compound type with exactly one real-vector subspace — then, as coded, BOTH
indices are 0 (`inf = un ↔ ¬ isSE`: the seed of F450). -/
theorem ctor_accepts_only (i : CtorIn) (L : Layout) (h : ctorCheck i = .ok L) :
    (i.hasObjective = true ∧ 0 < i.numStarts ∧ i.goalSampleable = true ∧ 0 < i.numGoals) ∧
    L.compound = i.space.compound ∧
    (i.space.compound = false → (i.space.ty = .realVector ∨ i.space.ty = .unknown) ∧ L.inf = 0 ∧ L.un = 0) ∧
    (i.space.compound = true → i.space.castOk = true ∧ L.inf < i.space.subs.length ∧ L.un < i.space.subs.length ∧
      (L.inf = L.un ↔ i.space.ty.isSE = false) ∧ (i.space.ty.isSE = false → i.space.subs = [.rv]) ∧
      (i.space.ty.isSE = true → i.space.subs.length = 2 ∧ ∀ t ∈ i.space.subs, t ≠ .other)) := by
  obtain ⟨h1, h2, h3, h4, h5⟩ := PhsRound10.ctorCheck_ok i L h
  exact ⟨⟨h1, h2, h3, h4⟩, PhsRound10.classify_ok i.space L h5⟩

/-- SE(2)/SE(3)-type spaces, BOTH subspace orders: the informed index is where the real-vector subspace is, the uninformed one
where the rotation is (the library's own classes have the order (R^n, SO(n)); the check also drives the swapped order). -/
theorem classify_se_either_order (ty : SpType) (hty : ty.isSE = true) (rot : SubType) (hrot : rot = .so2 ∨ rot = .so3) :
    classify ⟨true, true, ty, [.rv, rot]⟩ = .ok ⟨true, 0, 1⟩ ∧ classify ⟨true, true, ty, [rot, .rv]⟩ = .ok ⟨true, 1, 0⟩ := by
  rcases hrot with rfl | rfl <;> cases ty <;> simp [SpType.isSE] at hty <;> exact ⟨rfl, rfl⟩

/-- non-vacuity: an accepted problem on SE(2) -/
example : ctorCheck ⟨true, 1, true, 2, ⟨true, true, .se2, [.rv, .so2]⟩⟩ = .ok ⟨true, 0, 1⟩ := rfl

/-- **Code before fix 1d61cd7e5 (F450)**: the state returned carries the vector that was tested — in the OLD code this is only true when the space is not compound or the
two indices differ (`_partial`; the full statement "for every layout the constructor can return" is FALSE for the unchanged code,
see `single_subspace_compound_old_overwritten_fails`): `getInformedSubstate(createFullState(st, v, r)) = v`, and the uninformed
component holds the uninformed draw `r`.  Since `isInAnyPhs`, `keepSample` are evaluated on `v` and `heuristicSolnCost` on
`getInformedSubstate(state)`, this is what transfers `DirectOk` / "cost < c" from the tested vector to the returned STATE. -/
theorem created_state_old_carries_tested_vector_partial {α : Type} (L : Layout) (st : FullState α) (v r : List α)
    (hne : L.compound = false ∨ L.inf ≠ L.un)
    (hshape : L.compound = true → ∃ cs, st = .comp cs ∧ L.inf < cs.length ∧ L.un < cs.length) :
    L.informedSubstate (L.createFullStateOld st v r) = v ∧
    (L.compound = true → ∃ cs', L.createFullStateOld st v r = .comp cs' ∧ cs'[L.un]? = some r) := by
  refine ⟨PhsRound10.createFullStateOld_roundtrip L st v r hne (fun hc => ?_), fun hc => ?_⟩
  · obtain ⟨cs, e, h1, _⟩ := hshape hc
    exact ⟨cs, e, h1⟩
  · obtain ⟨cs, e, _, h2⟩ := hshape hc
    subst e
    exact PhsRound10.createFullStateOld_uninformed L cs v r hc h2

/-- non-vacuity: SE(2) layout, a two-component state -/
example : (⟨true, 0, 1⟩ : Layout).informedSubstate ((⟨true, 0, 1⟩ : Layout).createFullStateOld (.comp [[0, 0], [0]]) [1, 2] [(3 : Nat)])
    = [1, 2] := rfl

/-- **Defect F450 (code before 1d61cd7e5)**: the constructor ACCEPTS a compound space with one real-vector subspace and returns
`informedIdx_ = uninformedIdx_ = 0` with an uninformed part; `createFullState` then leaves the UNINFORMED draw `r` — a uniform
sample of the whole subspace — in the informed component, whatever vector `v` was tested (in a PHS, kept, in bounds), and
`getInformedMeasure` multiplies by the subspace measure.  So the full version of `created_state_carries_tested_vector_partial`
fails for a layout the constructor returns, for every `v ≠ r`. -/
theorem single_subspace_compound_old_overwritten_fails {α : Type} (old v r : List α) (m : Nat → α) :
    ctorCheck ⟨true, 1, true, 1, ⟨true, true, .unknown, [.rv]⟩⟩ = .ok ⟨true, 0, 0⟩ ∧
    (⟨true, 0, 0⟩ : Layout).informedSubstate ((⟨true, 0, 0⟩ : Layout).createFullStateOld (.comp [old]) v r) = r ∧
    (v ≠ r → (⟨true, 0, 0⟩ : Layout).informedSubstate ((⟨true, 0, 0⟩ : Layout).createFullStateOld (.comp [old]) v r) ≠ v) ∧
    (⟨true, 0, 0⟩ : Layout).unMeasureG false m = some (m 0) := by
  have h := PhsRound10.createFullStateOld_overwritten 0 [old] v r (by simp)
  exact ⟨rfl, h, fun hne => by rw [h]; exact fun e => hne e.symm, rfl⟩

/-- **The state returned carries the vector that was tested — current code (fix 1d61cd7e5), EVERY accepted space**: whatever layout the classification
returns, the returned state's informed part is the tested vector; an uninformed part exists exactly when the indices differ
(so the single-subspace compound space gets no extra measure factor). -/
theorem created_state_carries_tested_vector {α : Type} (d : SpaceDesc) (L : Layout) (hL : classify d = .ok L)
    (st : FullState α) (v r : List α)
    (hshape : L.compound = true → ∃ cs, st = .comp cs ∧ cs.length = d.subs.length) (m : Nat → α) :
    L.informedSubstate (L.createFullState st v r) = v ∧
    (L.hasUninformedG true = true ↔ L.compound = true ∧ L.inf ≠ L.un) ∧
    (L.unMeasureG true m = none ↔ (L.compound = false ∨ L.inf = L.un)) := by
  obtain ⟨hcmp, _, hcomp⟩ := PhsRound10.classify_ok d L hL
  refine ⟨PhsRound10.createFullState_roundtrip L st v r (fun hc => ?_), ?_, ?_⟩
  · obtain ⟨cs, e, hlen⟩ := hshape hc
    obtain ⟨_, hi, _⟩ := hcomp (hcmp ▸ hc)
    exact ⟨cs, e, hlen ▸ hi⟩
  · simp [Layout.hasUninformedG]
  · cases hc : L.compound <;> by_cases he : L.inf = L.un <;> simp [Layout.unMeasureG, Layout.hasUninformedG, hc, he]

/-- non-vacuity: the current glue on the single-subspace compound space keeps the tested vector -/
example : (⟨true, 0, 0⟩ : Layout).informedSubstate ((⟨true, 0, 0⟩ : Layout).createFullState (.comp [[0, 0]]) [1, 2] [(3 : Nat), 4])
    = [1, 2] := rfl

/-- with a sound glue (`view = fst`: the returned state's informed part is the tested vector) the three-argument form with the
glue made explicit IS the `sample3G` all earlier theorems are about -/
theorem three_arg_with_sound_glue {α : Type} [Num α] {ρ : Type} (restore degfix : Bool) (s : Sampler α)
    (inB : List α × ρ → Bool) (fin : Bool) (minC c : α) (ds : List (Draw α ρ)) (cur : List α × ρ) :
    s.sample3GV (fun st => st.1) restore degfix inB fin minC c ds cur = s.sample3G restore degfix inB fin minC c ds cur := rfl

/-- **Order of the PHS list** (`listPhsPtrs_`, start-major): there are `|starts|·|goals|` PHSs and number `i·|goals| + j` has
foci (start `i`, goal `j`) — the indexing `k / |goals|`, `k % |goals|` the harness and the check use to pair each internal PHS
with its rotation and foci. -/
theorem phs_list_order {β : Type} (starts goals : List β) :
    (phsPairs starts goals).length = starts.length * goals.length ∧
    ∀ i j (hi : i < starts.length) (hj : j < goals.length),
      (phsPairs starts goals)[i * goals.length + j]? = some (starts[i], goals[j]) := by
  refine ⟨PhsRound10.phsPairs_length starts goals, fun i j hi hj => ?_⟩
  rw [PhsRound10.phsPairs_getElem? goals starts i j hi hj]
  simp [hi, hj]

/-- **"Samples are uniformly distributed over the region"** — measure-theoretic form, every dimension `n+1`: the PHS map
`T w = centre + L w` (`L` = the ONE linear map `R·diag(c/2, r, …, r)` of `transform_affine`, `det L = (c/2)·rⁿ ≠ 0`) carries the
normalised Lebesgue measure of the open unit ball to the normalised Lebesgue measure of the informed set: for EVERY set `A` of
states, `P(T(w) ∈ A) = vol(A ∩ PHS) / vol(PHS)` when `w` is uniform in the ball — stated cross-multiplied (no division in
`ℝ≥0∞`): `vol(T⁻¹A ∩ ball) · vol(PHS) = vol(A ∩ PHS) · vol(ball)`.  Together with `phs_region_exact` (image = the open PHS)
and `overlap_rejection_uniform` (the 1/k rule across overlapping PHSs) this is the uniformity clause for the construction;
what stays outside is that the RNG's ball points ARE uniform (`uniformInBall_radius_law_partial`, C20). -/
theorem phs_sampling_uniform (n : ℕ) (F1 F2 : EuclideanSpace ℝ (Fin (n + 1))) (hne : F1 ≠ F2) (c : ℝ)
    (hc : ‖F2 - F1‖ < c) (A : Set (EuclideanSpace ℝ (Fin (n + 1)))) :
    MeasureTheory.volume ((fun w => (1 / 2 : ℝ) • (F1 + F2)
        + PhsVolume.imgL (c / 2) (Real.sqrt (c ^ 2 - ‖F2 - F1‖ ^ 2) / 2) ((1 / ‖F2 - F1‖) • (F2 - F1)) w) ⁻¹' A
          ∩ Metric.ball 0 1)
      * MeasureTheory.volume {x : EuclideanSpace ℝ (Fin (n + 1)) | ‖x - F1‖ + ‖x - F2‖ < c}
    = MeasureTheory.volume (A ∩ {x : EuclideanSpace ℝ (Fin (n + 1)) | ‖x - F1‖ + ‖x - F2‖ < c})
      * MeasureTheory.volume (Metric.ball (0 : EuclideanSpace ℝ (Fin (n + 1))) 1) :=
  PhsUniform.phs_pushforward_uniform n F1 F2 hne c hc A

/-- non-vacuity: distinct foci and a bound above the focal distance exist in every dimension (here `n+1 = 2`, foci (0,0) and (1,0), c = 2) -/
example : ∃ (F1 F2 : EuclideanSpace ℝ (Fin 2)) (c : ℝ), F1 ≠ F2 ∧ ‖F2 - F1‖ < c := by
  refine ⟨0, EuclideanSpace.single 0 1, 2, ?_, ?_⟩
  · intro h
    have h1 : ‖EuclideanSpace.single (0 : Fin 2) (1 : ℝ)‖ = 1 := by rw [EuclideanSpace.norm_single]; exact norm_one
    rw [← h, norm_zero] at h1
    exact zero_ne_one h1
  · rw [sub_zero, EuclideanSpace.norm_single, norm_one]; exact one_lt_two

/-- **Radius law of `RNG::uniformInBall`** (`radiusScale = r · pow(u, 1/n)`, model `uniformInBall`) — `_partial`.
FULL CLAUSE (not proved): if `dir` is uniform on the unit sphere of ℝⁿ and `u` is uniform on `[0,1]`, independent, then
`pow(u, 1/n) · dir` is uniformly distributed in the unit ball.  PROVED PART, every dimension `n+1`: the radial marginal is
right — for `0 ≤ t ≤ 1` the draws `u ∈ [0,1]` with `u^(1/(n+1)) ≤ t` are exactly `[0, t^(n+1)]`, of Lebesgue measure
`t^(n+1) = vol(ball t) / vol(ball 1)`, i.e. `P(‖point‖ ≤ t)` of a uniform point.  MISSING: the polar decomposition of Lebesgue
measure (radius and direction independent, direction uniform — Mathlib's `Measure.toSphere`), and that boost's
`uniform_on_sphere` / mt19937 deliver those laws (property C20). -/
theorem uniformInBall_radius_law_partial (n : ℕ) (t : ℝ) (h0 : 0 ≤ t) (h1 : t ≤ 1) :
    {u : ℝ | 0 ≤ u ∧ u ≤ 1 ∧ u ^ ((1 : ℝ) / ((n : ℝ) + 1)) ≤ t} = Set.Icc 0 (t ^ (n + 1)) ∧
    MeasureTheory.volume {u : ℝ | 0 ≤ u ∧ u ≤ 1 ∧ u ^ ((1 : ℝ) / ((n : ℝ) + 1)) ≤ t} = ENNReal.ofReal (t ^ (n + 1)) ∧
    MeasureTheory.volume (Metric.ball (0 : EuclideanSpace ℝ (Fin (n + 1))) t)
      = ENNReal.ofReal (t ^ (n + 1)) * MeasureTheory.volume (Metric.ball (0 : EuclideanSpace ℝ (Fin (n + 1))) 1) :=
  PhsUniform.radius_law n t h0 h1

/-- non-vacuity: `t = 1/2` -/
example : (0 : ℝ) ≤ 1 / 2 ∧ (1 / 2 : ℝ) ≤ 1 := by norm_num

/-- **Finding F451 (unchanged code)**: an SE(2)/SE(3)/Dubins/ReedsShepp-TYPED compound space whose two subspaces are BOTH
rotations passes the constructor (no subspace is foreign) with `informedIdx_ = 0` left at its default: the "informed" subspace
is a rotation, the PHSs are 1-dimensional intervals of raw angle values and the focal sum ignores the wrap-around — the heuristic
over-estimates, states that can improve the solution are excluded (replay `notes/C15-repro-F451.cpp`: start yaw 3.0, goal yaw −3.0,
true cost-to-go 0.283, bound 1.0: the direct sampler never succeeds and reports an informed measure of 0 while the rejection
sampler succeeds 677/1000).  The repaired classification (`classifyG true`: one R^n AND one SO(n) subspace) rejects these. -/
theorem se_typed_two_rotations_accepted_fails (ty : SpType) (hty : ty.isSE = true) (a b : SubType)
    (ha : a = .so2 ∨ a = .so3) (hb : b = .so2 ∨ b = .so3) :
    classify ⟨true, true, ty, [a, b]⟩ = .ok ⟨true, 0, 1⟩ ∧ [a, b][0]? ≠ some SubType.rv ∧
    classifyG true ⟨true, true, ty, [a, b]⟩ = .error .notOneOfEach := by
  obtain ⟨h1, h2⟩ := PhsRound10.classify_two_rotations ty hty a b ha hb
  refine ⟨h1, ?_, h2⟩
  rcases ha with rfl | rfl <;> simp

/-- **Repaired classification (notes/C15-fix-F451.diff)**: every SE-typed compound it accepts has a REAL-VECTOR informed subspace
and a rotation as the uninformed one, at different indices — and on those spaces it returns exactly what the unchanged code
returns (the repair only rejects more). -/
theorem classification_repaired_informed_is_real_vector (d : SpaceDesc) (L : Layout) (h : classifyG true d = .ok L)
    (hc : d.compound = true) (hse : d.ty.isSE = true) :
    classify d = .ok L ∧ d.subs[L.inf]? = some .rv ∧
    (d.subs[L.un]? = some .so2 ∨ d.subs[L.un]? = some .so3) ∧ L.inf ≠ L.un :=
  PhsRound10.classifyG_strict_se d L h hc hse

/-- non-vacuity: SE(3) in the library's order is accepted by the repaired classification -/
example : classifyG true ⟨true, true, .se3, [.rv, .so3]⟩ = .ok ⟨true, 0, 1⟩ := rfl

/-- **Polar factorisation of the uniform law on the ball** (sharpens `uniformInBall_radius_law_partial`), every dimension
`n+1`, EVERY set `S` of directions, every `t > 0`: `vol{x : ‖x‖ < t, x/‖x‖ ∈ S} = t^(n+1) · vol{x : ‖x‖ < 1, x/‖x‖ ∈ S}` — under
the uniform law on the unit ball the radius is independent of the direction and has CDF `t^(n+1)`; the direction has the cone law
`σ(S) = vol{x ∈ ball : x/‖x‖ ∈ S} / vol(ball)`.  `uniformInBall` draws `dir` and `u` independently and returns `u^(1/(n+1))·dir`,
whose radius has exactly this CDF (`uniformInBall_radius_law_partial`); so its law agrees with the uniform law on every set
`{‖x‖ < t, x/‖x‖ ∈ S}` as soon as `dir` has the cone law σ.  EXACTLY what is missing for the full clause: (i) `dir ~ σ`, i.e.
`uniformNormalVector` (normalised Gaussian) is rotation invariant — a statement about boost/mt19937 (C20); (ii) the π-λ
extension from these product sets to all Borel sets (Mathlib: `Measure.ext_of_generateFrom_of_iUnion`, not done). -/
theorem uniform_ball_polar_factorisation (n : ℕ) (S : Set (EuclideanSpace ℝ (Fin (n + 1)))) (t : ℝ) (ht : 0 < t) :
    MeasureTheory.volume {x : EuclideanSpace ℝ (Fin (n + 1)) | ‖x‖ < t ∧ x ≠ 0 ∧ ‖x‖⁻¹ • x ∈ S}
      = ENNReal.ofReal (t ^ (n + 1))
        * MeasureTheory.volume {x : EuclideanSpace ℝ (Fin (n + 1)) | ‖x‖ < 1 ∧ x ≠ 0 ∧ ‖x‖⁻¹ • x ∈ S} :=
  PhsUniform.ball_polar_factorisation n S t ht

/-- non-vacuity: a radius -/
example : (0 : ℝ) < 1 / 2 := by norm_num

/-! ## Non-vacuity of the geometric hypotheses -/

/-- a concrete 2-D instance satisfying `Setup`: foci (∓3, 0), identity rotation -/
example : Setup 1 [-3, 0] [3, 0] [[1, 0], [0, 1]] := setup_example

example : (5 : ℝ) ^ 2 = 13 ^ 2 - 12 ^ 2 ∧ (0:ℝ) < 5 ∧ (12:ℝ) < 13 := by norm_num

end OmplModel.Props.C15
