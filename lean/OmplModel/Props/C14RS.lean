import OmplModel.Proofs.RSAF
import OmplModel.Proofs.RSReal
import OmplModel.Proofs.RSInteg
import OmplModel.Proofs.RSWords
import OmplModel.Proofs.RSExamples
import OmplModel.Proofs.RSWordsBack
import OmplModel.Proofs.RSWordsCCSC
import OmplModel.Proofs.RSReach
import OmplModel.Proofs.RSCCCC
import OmplModel.Proofs.RSCCCC2
/-!
# C14 (rounds 2 and 3) — Reeds–Shepp curves: the reported word is a shortest candidate, the base words reach the goal, `interpolate` drives the signed word

Property theorems about the model `OmplModel.RS` (Model/ReedsShepp.lean) of
`ompl::base::ReedsSheppStateSpace` (ReedsSheppStateSpace.cpp).  Helper lemmas live in `Proofs/RS*.lean`
(and reuse round 1's `Proofs/Dubins*.lean`).

Tags:
* **[AF]** arithmetic-free: generic over `[RSNum α]`, no algebraic law of `α` is used, so the theorem
  holds for the `Float` instantiation the driver runs (under the stated order hypotheses, if any).
* **[EX]** exact arithmetic: proved for the instantiation at ℝ (`Proofs/RSReal.lean`, `asin = Real.arcsin`
  on top of round 1's instance); what is left unverified is exactly the IEEE rounding of the `double` run.

What is proved
* [AF] one family (`CSC`, `CCC`, `CCCC`, `CCSC`, `CCSCC`) is a fold of `Lmin > L` updates: it keeps the
  incoming path or returns a candidate's path, and no candidate's key (nor the incoming `Lmin`) is
  strictly below the chosen key (`rs_consider_fold`, `rs_family_min`).
* [AF] the interpolation loop with its signed running budget drives the truncated signed word; the
  truncated word spells a prefix (`rs_integ_eq_integFull_truncate`, `rsInterpPath_eq`,
  `rsTruncate_letters_prefix` — together `rs_prefix_of_path`).
* [EX] `mod2pi` changes its argument by an exact multiple of 2π and is the identity on `[-π, π]`
  (`rmod2pi_exact`, `rmod2pi_of_mem`).
* [EX] every builder's constructor length is the compared key plus the family offset
  (`rs_builder_lengths`), hence per family (`rs_family_len`) and for the whole of `reedsShepp`
  (`rs_candidates_min`): **the returned path is one of the 48 candidates generated and no candidate
  generated in any of the five families is shorter**; if any candidate exists a path is returned.
* [EX] each signed segment step is the unit-speed, curvature-`±1/0` vehicle model driven in gear `σ`;
  a negative length is reversing along the same circle/line (`rs_integrate_segment`, `rs_segment_concat`).
* [EX] chord ≤ |arc|, so a signed word ends no farther from its start than the sum of its absolute
  lengths, and a path whose word reaches `(x,y)` has `√(x²+y²) ≤ length`
  (`rs_length_ge_chord`, `rs_distance_ge_straight_line_of_reaches`).
* [EX] the truncated signed word is exactly `seg` long in absolute length, every kept length has the
  sign of and is no larger than the original (`rs_truncate_total`, `rs_truncate_bounded`).
* [EX] timeflip and reflect (`rs_timeflip_reflect_fold`, `rs_timeflip_reflect`, `rs_mirror_table`).
* [EX] **the three-segment base words reach the goal**: formulas 8.1, 8.2, 8.3/8.4 — the exact form of
  the `assert`s in `LpSpLp`, `LpSpRp`, `LpRmL` (`rs_LpSpLp_reaches`, `rs_LpSpRp_reaches`,
  `rs_LpRmL_reaches`), and **the two CCSC base words** of formulas 8.9, 8.10 (`rs_LpRmSmLm_reaches`,
  `rs_LpRmSmRm_reaches`).
* [EX] the "backwards" transform: a stored word that drives like the reverse of a word reaching the
  code's `(xb, yb, φ)` reaches `(x, y, φ)` (`rs_backwards_reaches`, on top of `rs_backwards` of
  `Proofs/RSBack.lean`).
* [EX] hence **all 8 CSC, all 8 CCC and all 16 CCSC candidates reach the goal** — plain, timeflip,
  reflect, both, and their backwards images (`rs_CSC_candidates_reach`, `rs_CCC_candidates_reach`,
  `rs_CCSC_candidates_reach`).
* [EX] (round 3) `tauOmega`: closed form of `(tau, omega)` modulo 2π (`rs_tauOmega_spec`); when `t2 ≥ 0` and
  `ξ² + η² = 4(A² + B²)` the returned `tau` solves `2(A cos τ − B sin τ) = ξ`, `2(B cos τ + A sin τ) = η`
  (`rs_tauOmega_tau_solves`); at both call sites `t2` is `(2 cos u − 1)²` resp. `5 − 4 cos u`, so the
  `t2 < 0` branch is never taken in exact arithmetic (`rs_tauOmega_t2_callers`).
* [EX] (round 3) **the two four-arc base words reach the goal**: formulas 8.7, 8.8 — the exact form of the
  `assert`s in `LpRupLumRm`, `LpRumLumRp` (`rs_LpRupLumRm_reaches`, `rs_LpRumLumRp_reaches`) — hence **all 8
  CCCC candidates reach the goal** (`rs_CCCC_candidates_reach`).
* [EX] (round 3) **whatever `reedsShepp(x, y, φ)` returns reaches the goal** (`rs_reedsShepp_reaches`,
  unconditional): driven from the origin by the model's integration the returned word ends at `(x, y)`
  with heading `φ + 2πk`.  It combines `rs_candidates_min` (the returned path is one of the 48 candidates)
  with the reach theorems of all five families (CSC, CCC, CCSC here; CCSCC = formula 8.11 in
  `Proofs/RSFive.lean` / `Proofs/RSFiveAll.lean`, restated in `Props/C14.lean`; CCCC here).  What remains
  assumed is the model's own frame: exact arithmetic over ℝ (`mod2pi` exact modulo 2π is proved,
  `rmod2pi_exact`); the code's acceptance tests (`t ≥ -ZERO` …) are part of the solvers.  Consequence:
  `√(x² + y²) ≤ length()` for every returned path (`rs_reedsShepp_length_ge_straight_line`).

What is NOT proved
* optimality of the 48-word set (Reeds–Shepp's theorem): `rs_candidates_min` is minimality among the
  candidates the code computes, not among all curvature-bounded curves with reversals;
* symmetry of the distance, and `reedsShepp ≤ dubins`;
* floating-point rounding, and the behaviour inside the `ZERO = 10·DBL_EPSILON` acceptance thresholds
  (`t ≥ -ZERO` etc.): over ℝ they only decide which candidates exist (defect F67 lives there).
-/
namespace OmplModel.Props.C14RS
open OmplModel OmplModel.Dubins OmplModel.RS

/-! ## Group 1 [AF] -/
section AF
variable {α : Type} [RSNum α]

/-- [AF] **The candidate fold.**  Folding `if (Lmin > L) { path = p; Lmin = L; }` over a list of
candidates either keeps the initial `(Lmin, path)` or ends on one of the candidates; if `<` is a strict
weak order (asymmetric, negatively transitive — nothing arithmetic), no candidate's key is strictly
below the final `Lmin` and the final `Lmin` is not above the initial one. -/
theorem rs_consider_fold (h : StrictWeak α) (cands : List (Cand α)) (acc : Acc α) :
    (((cands.foldl consider acc).path = acc.path ∧ (cands.foldl consider acc).lmin = acc.lmin) ∨
      ∃ L p, some (L, p) ∈ cands ∧ (cands.foldl consider acc).lmin = some L ∧
        (cands.foldl consider acc).path = some p) ∧
    (∀ L p, some (L, p) ∈ cands → gtOpt (cands.foldl consider acc).lmin L = false) ∧
    (∀ m, acc.lmin = some m → gtOpt (cands.foldl consider acc).lmin m = false) :=
  ⟨foldl_consider_mem cands acc, foldl_consider_min h cands acc⟩

-- arithmetic-free non-vacuity: from `Lmin = DBL_MAX` the first candidate is taken, whatever its key
example (L : α) (p : RSPath α) : ([some (L, p)].foldl consider ⟨none, none⟩).path = some p := by
  simp [consider, gtOpt]
example (acc : Acc α) (L : α) (p : RSPath α) (h : gtOpt acc.lmin L = true) :
    consider acc (some (L, p)) = ⟨some L, some p⟩ := consider_some_take acc L p h

/-- [AF] **One family returns a shortest of its candidates.**  `runFamily off cands cur` (one of `CSC`,
`CCC`, `CCCC`, `CCSC`, `CCSCC` run on the current best path `cur`) either keeps `cur`, and then no
candidate's key is strictly below the incoming `Lmin = cur.length() - off`; or it returns the path of
a candidate `(L, p)`, no candidate's key is strictly below `L`, and the incoming `Lmin` is not strictly
below `L` either. -/
theorem rs_family_min (h : StrictWeak α) (off : Option α) (cands : List (Cand α)) (cur : Option (RSPath α)) :
    (runFamily off cands cur = cur ∧
        ∀ L p, some (L, p) ∈ cands → gtOpt (startLmin off cur) L = false) ∨
      ∃ L p, some (L, p) ∈ cands ∧ runFamily off cands cur = some p ∧
        (∀ L' p', some (L', p') ∈ cands → ¬ L' < L) ∧
        (∀ m, startLmin off cur = some m → ¬ m < L) :=
  runFamily_min h off cands cur

example (L : α) (p : RSPath α) : runFamily none [some (L, p)] none = some p := by
  simp [runFamily, startLmin, consider, gtOpt]
example (off : Option α) (cur : Option (RSPath α)) : runFamily off [none, none] cur = cur := rfl

/-- [AF] **The interpolation loop drives the truncated signed word**: `rsInteg` (running budget `seg`,
`max(-seg, len)` for reversing segments, `min(seg, len)` for forward ones, early exit) equals driving
every segment of `rsTruncate segs seg` fully. -/
theorem rs_integ_eq_integFull_truncate (segs : List (RSeg × α)) (seg : α) (P : Pose α) :
    rsInteg segs seg P = rsIntegFull (rsTruncate segs seg) P :=
  rsInteg_eq_integFull_truncate segs seg P

example (seg : α) (P : Pose α) : rsInteg [] seg P = P := rfl

/-- [AF] `rs_prefix_of_path`, part 2: the state `interpolate` reports at `t` is the end of the truncated
signed word driven from `(0,0,yaw)`, scaled by `rho`, translated, yaw wrapped. -/
theorem rsInterpPath_eq (rho : α) (frm : Pose α) (p : RSPath α) (t : α) :
    rsInterpPath rho frm p t =
      ⟨(rsIntegFull (rsTruncate p.segList (t * p.len)) ⟨0, 0, frm.th⟩).x * rho + frm.x,
       (rsIntegFull (rsTruncate p.segList (t * p.len)) ⟨0, 0, frm.th⟩).y * rho + frm.y,
       so2Enforce (rsIntegFull (rsTruncate p.segList (t * p.len)) ⟨0, 0, frm.th⟩).th⟩ :=
  RS.rsInterpPath_eq rho frm p t

example (p : RSPath α) : p.segList = (rsType p.ty).zip [p.l0, p.l1, p.l2, p.l3, p.l4] := rfl

/-- [AF] `rs_prefix_of_path`, part 3: the truncated word spells a prefix of the original word. -/
theorem rsTruncate_letters_prefix (segs : List (RSeg × α)) (seg : α) :
    (rsTruncate segs seg).map Prod.fst <+: segs.map Prod.fst :=
  RS.rsTruncate_letters_prefix segs seg

example (seg : α) : rsTruncate ([] : List (RSeg × α)) seg = [] := rfl

end AF

/- From here on everything is about ℝ; numerals must be Mathlib's (see Proofs/DubinsReal.lean). -/
attribute [-instance] Num.instOfNat

/-- the order hypotheses of `rs_family_min` hold over ℝ -/
theorem rs_strictWeak_real : StrictWeak ℝ := RS.strictWeak_real

-- non-vacuity: `gtOpt … = false` has content (it is `true` for a smaller key, and for `DBL_MAX`) …
example : gtOpt (some (2 : ℝ)) 1 = true := by
  simp only [gtOpt, decide_eq_true_eq]; exact one_lt_two
example : gtOpt (none : Option ℝ) 1 = true := rfl
-- … and `consider` really replaces the path by a candidate with a smaller key
example (p q : RSPath ℝ) : consider ⟨some 2, some p⟩ (some (1, q)) = ⟨some 1, some q⟩ := by
  apply consider_some_take
  simp only [gtOpt, decide_eq_true_eq]; exact one_lt_two
-- the signed truncation on a concrete word: budget 2 of `L 1 · S (-3)` keeps `L 1 · S (-1)`
example : rsTruncate [(RSeg.L, (1 : ℝ)), (RSeg.S, -3)] 2 = [(RSeg.L, 1), (RSeg.S, -1)] := by
  rw [rsTruncate_cons_pos _ _ _ _ (by norm_num)]
  have h1 : cut 2 1 = 1 := by unfold cut; rw [if_neg (by norm_num)]; norm_num
  rw [h1, abs_one, show (2 : ℝ) - 1 = 1 by norm_num, rsTruncate_cons_pos _ _ _ _ (by norm_num)]
  have h2 : cut 1 (-3) = -1 := by unfold cut; rw [if_pos (by norm_num)]; norm_num
  rw [h2, rsTruncate_of_nonpos _ _ (by norm_num)]

/-! ## Group 0 [EX]: angle normalisation -/

/-- [EX] **`mod2pi` is exact modulo 2π**: over ℝ the code's `mod2pi` (C `fmod` by `2π`, then one wrap
into `[-π, π]`) changes its argument by an integer multiple of 2π. -/
theorem rmod2pi_exact (x : ℝ) : ∃ k : ℤ, rmod2pi x = x + k * (2 * Real.pi) := RS.rmod2pi_exact x

example : rmod2pi (0 : ℝ) = 0 + ((0 : ℤ) : ℝ) * (2 * Real.pi) := by rw [rmod2pi_zero]; simp

/-- [EX] on `[-π, π]` the code's `mod2pi` is the identity. -/
theorem rmod2pi_of_mem (x : ℝ) (h1 : -Real.pi ≤ x) (h2 : x ≤ Real.pi) : rmod2pi x = x :=
  RS.rmod2pi_of_mem x h1 h2

example : rmod2pi Real.pi = Real.pi :=
  rmod2pi_of_mem Real.pi (by have := Real.pi_pos; linarith) le_rfl

example : rmod2pi (0 : ℝ) = 0 := rmod2pi_zero
example : (0 : ℝ) < rzero := RSR.rzero_pos

/-! ## Group 2 [EX]: the search returns a shortest of the candidates generated -/

/-- [EX] **Stored length = compared key + family offset.**  For each of the seven path constructors the
C++ uses, `ReedsSheppPath(...).length()` equals the `L` compared against `Lmin`, plus `0` (CSC, CCC,
CCCC), `π/2` (CCSC) or `π` (CCSCC) — the offset subtracted from `Lmin` at the start of the family. -/
theorem rs_builder_lengths (ty : Nat) (f : Bool) (t u v : ℝ) :
    (bCSC ty f t u v).len = key3 t u v ∧
    (bCCCrev ty f t u v).len = key3 t u v ∧
    (bCCCCa ty f t u v).len = key4 t u v ∧
    (bCCCCb ty f t u v).len = key4 t u v ∧
    (bCCSC ty f t u v).len = key3 t u v + Real.pi / 2 ∧
    (bCCSCrev ty f t u v).len = key3 t u v + Real.pi / 2 ∧
    (bCCSCC ty f t u v).len = key3 t u v + Real.pi :=
  ⟨len_bCSC ty f t u v, len_bCCCrev ty f t u v, len_bCCCCa ty f t u v, len_bCCCCb ty f t u v,
    len_bCCSC ty f t u v, len_bCCSCrev ty f t u v, len_bCCSCC ty f t u v⟩

example : (bCCSCC 16 true (1 : ℝ) (-2) 3).len = key3 1 (-2) 3 + Real.pi := (rs_builder_lengths 16 true 1 (-2) 3).2.2.2.2.2.2

/-- [EX] **One family, in path lengths.**  If every candidate's stored path is `off` longer than its
key (`Good off cands`, true for the five families: `rs_families_good`), the family returns the incoming
path or a candidate's path, and the returned path is no longer than the incoming one and no longer than
any candidate's path (in particular a path is returned whenever there was one or a candidate exists). -/
theorem rs_family_len (off : Option ℝ) (cands : List (Cand ℝ)) (cur : Option (RSPath ℝ))
    (hg : Good off cands) :
    (runFamily off cands cur = cur ∨ ∃ L Q, some (L, Q) ∈ cands ∧ runFamily off cands cur = some Q) ∧
    (∀ p, cur = some p → ∃ q, runFamily off cands cur = some q ∧ q.len ≤ p.len) ∧
    (∀ L Q, some (L, Q) ∈ cands → ∃ q, runFamily off cands cur = some q ∧ q.len ≤ Q.len) :=
  runFamily_len off cands cur hg

example (x y phi : ℝ) : Good none (candsCSC x y phi) := good_CSC x y phi

/-- [EX] the hypothesis of `rs_family_len` holds for the five families with the offsets the code uses -/
theorem rs_families_good (x y phi : ℝ) :
    Good none (candsCSC x y phi) ∧ Good none (candsCCC x y phi) ∧ Good none (candsCCCC x y phi) ∧
    Good (some hpi) (candsCCSC x y phi) ∧ Good (some rpi) (candsCCSCC x y phi) :=
  ⟨good_CSC x y phi, good_CCC x y phi, good_CCCC x y phi, good_CCSC x y phi, good_CCSCC x y phi⟩

example : offVal none = 0 ∧ offVal (some (hpi : ℝ)) = Real.pi / 2 ∧ offVal (some (rpi : ℝ)) = Real.pi := by
  refine ⟨rfl, ?_, rfl⟩
  show (hpi : ℝ) = Real.pi / 2
  exact RSR.hpi_eq

/-- [EX] **`reedsShepp(x, y, φ)` returns a shortest of all candidates generated.**  With
`allCands = CSC ++ CCC ++ CCCC ++ CCSC ++ CCSCC` (all 48 solver images, in the code's order):
the returned path is the stored path of one of the candidates, every candidate's stored path is at
least as long, and if there is any candidate a path is returned. -/
theorem rs_candidates_min (x y phi : ℝ) :
    (∀ P, reedsShepp x y phi = some P →
      (∃ L, some (L, P) ∈ allCands x y phi) ∧
      ∀ L Q, some (L, Q) ∈ allCands x y phi → P.len ≤ Q.len) ∧
    (∀ L Q, some (L, Q) ∈ allCands x y phi → ∃ P, reedsShepp x y phi = some P) := by
  obtain ⟨h1, h2⟩ := reedsShepp_inv x y phi
  refine ⟨fun P hP => ⟨h1 P hP, fun L Q hm => ?_⟩, fun L Q hm => ?_⟩
  · obtain ⟨q, hq, hle⟩ := h2 L Q hm
    rw [hP] at hq
    obtain rfl := Option.some.inj hq
    exact hle
  · obtain ⟨q, hq, -⟩ := h2 L Q hm
    exact ⟨q, hq⟩

-- non-vacuity: for the goal `(3, 0, 0)` the CSC family has a candidate, so a path is returned
example : some (key3 (0 : ℝ) 3 0, bCSC 14 false (0 : ℝ) 3 0) ∈ candsCSC (3 : ℝ) 0 0 := candsCSC_3_0_0
example : ∃ P, reedsShepp (3 : ℝ) 0 0 = some P := reedsShepp_3_0_0
example : allCands (3 : ℝ) 0 0 =
    candsCSC 3 0 0 ++ candsCCC 3 0 0 ++ candsCCCC 3 0 0 ++ candsCCSC 3 0 0 ++ candsCCSCC 3 0 0 := rfl

/-! ## Group 2 [EX]: the vehicle model with reversing -/

/-- [EX] **A signed segment integrates the vehicle model in gear `σ`.**  For a letter `L`, `S`, `R` and
`σ : ℝ` (think `±1`) the curve `r ↦ rsStep s (σ r) P` starts at `P`, moves with velocity
`σ·(cos θ, sin θ)` and turns at rate `σ·κ`, `κ = +1` (L), `-1` (R), `0` (S): a negative length is
driving backwards along the same circle or line.  `N` (no segment) leaves the pose unchanged. -/
theorem rs_integrate_segment (s : RSeg) (hs : s ≠ .N) (σ : ℝ) (P : Pose ℝ) (r : ℝ) :
    rsStep s (σ * 0) P = P ∧
    HasDerivAt (fun r => (rsStep s (σ * r) P).x) (σ * Real.cos (rsStep s (σ * r) P).th) r ∧
    HasDerivAt (fun r => (rsStep s (σ * r) P).y) (σ * Real.sin (rsStep s (σ * r) P).th) r ∧
    HasDerivAt (fun r => (rsStep s (σ * r) P).th) (σ * rkappa s) r ∧
    ∀ v, rsStep .N v P = P :=
  ⟨by rw [mul_zero]; exact rsStep_zero s P, rsStep_hasDeriv_x s hs σ P r, rsStep_hasDeriv_y s hs σ P r,
    rsStep_hasDeriv_th s σ P r, fun _ => rfl⟩

example : rkappa .L = 1 ∧ rkappa .R = -1 ∧ rkappa .S = 0 := ⟨rfl, rfl, rfl⟩
example : RSeg.L ≠ RSeg.N := by decide

/-- [EX] concatenation: driving signed lengths `u` then `v` along the same letter is driving `u + v`
(so position and heading are continuous where `interpolate` cuts a segment, and `v` then `-v` returns). -/
theorem rs_segment_concat (s : RSeg) (u v : ℝ) (P : Pose ℝ) :
    rsStep s (u + v) P = rsStep s v (rsStep s u P) := rsStep_add s u v P

-- consequence: driving `v` and then `-v` along the same letter returns to the start
example (s : RSeg) (v : ℝ) (P : Pose ℝ) : rsStep s (-v) (rsStep s v P) = P := by
  rw [← rs_segment_concat, add_neg_cancel, rsStep_zero]

/-! ## Group 2 [EX]: chord ≤ |arc| -/

/-- [EX] **A driven signed word ends no farther from its start than the sum of its absolute segment
lengths** (any letters, any signs). -/
theorem rs_length_ge_chord (segs : List (RSeg × ℝ)) (P : Pose ℝ) :
    Real.sqrt (((rsIntegFull segs P).x - P.x) ^ 2 + ((rsIntegFull segs P).y - P.y) ^ 2) ≤
      (segs.map (fun s => |s.2|)).sum :=
  RS.rs_length_ge_chord segs P

-- a concrete signed word: forward 1, back 3 along a line; the bound 4 is not attained (end at distance 2)
example : ([(RSeg.S, (1 : ℝ)), (RSeg.S, -3)].map (fun s => |s.2|)).sum = 4 := by
  simp only [List.map_cons, List.map_nil, List.sum_cons, List.sum_nil, abs_one, abs_neg]
  rw [abs_of_pos (by norm_num : (0 : ℝ) < 3)]; norm_num

/-- [EX] **Reported length ≥ straight-line distance, when the word reaches the target**: a path whose
word, driven from the origin with heading `α`, ends at position `(x, y)` has `√(x² + y²) ≤ length()`;
after scaling by the turning radius `rho > 0`, `rho·√(x²+y²) ≤ rho·length()` = what `distance` reports. -/
theorem rs_distance_ge_straight_line_of_reaches (p : RSPath ℝ) (α x y rho : ℝ) (hrho : 0 < rho)
    (hx : (rsIntegFull p.segList ⟨0, 0, α⟩).x = x) (hy : (rsIntegFull p.segList ⟨0, 0, α⟩).y = y) :
    Real.sqrt (x ^ 2 + y ^ 2) ≤ p.len ∧ rho * Real.sqrt (x ^ 2 + y ^ 2) ≤ rho * p.len := by
  have h := reaches_len_ge p α x y hx hy
  exact ⟨h, mul_le_mul_of_nonneg_left h hrho.le⟩

-- satisfiable: the straight word of length 3 reaches (3, 0)
example : (rsIntegFull (bCSC 14 false (0 : ℝ) 3 0).segList ⟨0, 0, 0⟩).x = 3 ∧
    (rsIntegFull (bCSC 14 false (0 : ℝ) 3 0).segList ⟨0, 0, 0⟩).y = 0 := by
  have h := LpSpLp_reaches 3 0 0 0 3 0 LpSpLp_3_0_0
  exact ⟨h.1, h.2.1⟩

/-! ## Group 2 [EX]: truncation of a signed word -/

/-- [EX] **The truncated signed word is exactly `seg` long** (sum of absolute lengths), for
`0 ≤ seg ≤ total absolute length`. -/
theorem rs_truncate_total (segs : List (RSeg × ℝ)) (seg : ℝ) (h0 : 0 ≤ seg)
    (h1 : seg ≤ (segs.map (fun s => |s.2|)).sum) :
    ((rsTruncate segs seg).map (fun s => |s.2|)).sum = seg :=
  rsTruncate_total segs seg h0 h1

example : ((rsTruncate [(RSeg.L, (1 : ℝ)), (RSeg.S, -3)] 2).map (fun s => |s.2|)).sum = 2 := by
  apply rs_truncate_total _ _ (by norm_num)
  simp only [List.map_cons, List.map_nil, List.sum_cons, List.sum_nil, abs_one, abs_neg]
  rw [abs_of_pos (by norm_num : (0 : ℝ) < 3)]; norm_num

/-- [EX] letter for letter the truncated word is a prefix of the original; every kept signed length is
no larger in absolute value than the original one and has its sign (product `≥ 0`). -/
theorem rs_truncate_bounded (segs : List (RSeg × ℝ)) (seg : ℝ) :
    List.Forall₂ (fun a b : RSeg × ℝ => a.1 = b.1 ∧ |a.2| ≤ |b.2| ∧ 0 ≤ a.2 * b.2)
      (rsTruncate segs seg) (segs.take (rsTruncate segs seg).length) :=
  rsTruncate_bounded segs seg

example : (0 : ℝ) ≤ 2 ∧ (2 : ℝ) ≤ ([(RSeg.L, (1 : ℝ)), (RSeg.S, -3)].map (fun s => |s.2|)).sum := by
  refine ⟨by norm_num, ?_⟩
  simp only [List.map_cons, List.map_nil, List.sum_cons, List.sum_nil, abs_one, abs_neg]
  rw [abs_of_pos (by norm_num : (0 : ℝ) < 3)]; norm_num

/-! ## Group 3 [EX]: timeflip and reflect -/

/-- [EX] **The two symmetries of the integration**, for an arbitrary start pose: driving the word with
every length negated from the time-flipped pose `(-x, y, -θ)` ends at the time-flip of the original end
pose; driving the mirrored word (`L ↔ R`) from the reflected pose `(x, -y, -θ)` ends at the reflection. -/
theorem rs_timeflip_reflect_fold (segs : List (RSeg × ℝ)) (P : Pose ℝ) :
    rsIntegFull (segs.map (fun s => (s.1, -s.2))) (tflip P) = tflip (rsIntegFull segs P) ∧
    rsIntegFull (segs.map (fun s => (s.1.mirror, s.2))) (reflect P) = reflect (rsIntegFull segs P) :=
  ⟨rsIntegFull_tflip segs P, rsIntegFull_reflect segs P⟩

example : tflip ⟨1, 2, 3⟩ = ⟨-1, 2, -3⟩ ∧ reflect ⟨1, 2, 3⟩ = ⟨1, -2, -3⟩ := ⟨rfl, rfl⟩

/-- [EX] the type table is closed under `L ↔ R` exactly in the pairs the C++ uses for "reflect" -/
theorem rs_mirror_table :
    rsType 1 = (rsType 0).map RSeg.mirror ∧ rsType 3 = (rsType 2).map RSeg.mirror ∧
    rsType 5 = (rsType 4).map RSeg.mirror ∧ rsType 7 = (rsType 6).map RSeg.mirror ∧
    rsType 9 = (rsType 8).map RSeg.mirror ∧ rsType 11 = (rsType 10).map RSeg.mirror ∧
    rsType 13 = (rsType 12).map RSeg.mirror ∧ rsType 15 = (rsType 14).map RSeg.mirror ∧
    rsType 17 = (rsType 16).map RSeg.mirror :=
  rsType_mirror_table

example : RSeg.mirror .L = .R ∧ RSeg.mirror .R = .L ∧ RSeg.mirror .S = .S ∧ RSeg.mirror .N = .N :=
  ⟨rfl, rfl, rfl, rfl⟩

/-- [EX] **`rs_timeflip_reflect`**: if the word `p` (type, five signed lengths), driven from the origin,
reaches `(x, y, φ)` (heading modulo 2π), then the same type with all lengths negated reaches
`(-x, y, -φ)`, and the mirrored type `ty'` with the same lengths reaches `(x, -y, -φ)`. -/
theorem rs_timeflip_reflect (p : RSPath ℝ) (x y phi : ℝ) (h : Reaches p x y phi) :
    Reaches p.flip (-x) y (-phi) ∧
    ∀ ty', rsType ty' = (rsType p.ty).map RSeg.mirror → Reaches (p.setTy ty') x (-y) (-phi) :=
  ⟨reaches_flip p x y phi h, fun ty' h' => reaches_mirror p ty' h' x y phi h⟩

-- `Reaches` unfolded, so that the statements above and below can be read without the definition
example (p : RSPath ℝ) (x y phi : ℝ) : Reaches p x y phi ↔
    ((rsIntegFull p.segList ⟨0, 0, 0⟩).x = x ∧ (rsIntegFull p.segList ⟨0, 0, 0⟩).y = y ∧
      ∃ k : ℤ, (rsIntegFull p.segList ⟨0, 0, 0⟩).th = phi + k * (2 * Real.pi)) := Iff.rfl
example : Reaches (bCSC 14 false (0 : ℝ) 3 0) 3 0 0 := LpSpLp_reaches 3 0 0 0 3 0 LpSpLp_3_0_0
example (p : RSPath ℝ) : p.flip = ⟨p.ty, -p.l0, -p.l1, -p.l2, -p.l3, -p.l4⟩ := rfl

/-! ## Group 3 [EX]: the base words reach the goal -/

/-- [EX] **`L⁺S⁺L⁺` (formula 8.1) reaches the goal**: if `LpSpLp(x, y, φ)` returns `(t, u, v)`, the word
`L t · S u · L v` (type 14) driven from the origin ends at `x`, `y`, heading `φ + 2πk` (the three
`assert`s of `LpSpLp`, exactly). -/
theorem rs_LpSpLp_reaches (x y phi t u v : ℝ) (h : LpSpLp x y phi = some (t, u, v)) :
    (rsIntegFull (bCSC 14 false t u v).segList ⟨0, 0, 0⟩).x = x ∧
    (rsIntegFull (bCSC 14 false t u v).segList ⟨0, 0, 0⟩).y = y ∧
    ∃ k : ℤ, (rsIntegFull (bCSC 14 false t u v).segList ⟨0, 0, 0⟩).th = phi + k * (2 * Real.pi) :=
  LpSpLp_reaches x y phi t u v h

example : LpSpLp (3 : ℝ) 0 0 = some (0, 3, 0) := LpSpLp_3_0_0

/-- [EX] **`L⁺S⁺R⁺` (formula 8.2) reaches the goal** (type 12; the three `assert`s of `LpSpRp`, exactly). -/
theorem rs_LpSpRp_reaches (x y phi t u v : ℝ) (h : LpSpRp x y phi = some (t, u, v)) :
    (rsIntegFull (bCSC 12 false t u v).segList ⟨0, 0, 0⟩).x = x ∧
    (rsIntegFull (bCSC 12 false t u v).segList ⟨0, 0, 0⟩).y = y ∧
    ∃ k : ℤ, (rsIntegFull (bCSC 12 false t u v).segList ⟨0, 0, 0⟩).th = phi + k * (2 * Real.pi) :=
  LpSpRp_reaches x y phi t u v h

example : ∃ t u v : ℝ, LpSpRp (4 : ℝ) 2 0 = some (t, u, v) := LpSpRp_4_2_0

/-- [EX] **`L⁺R⁻L` (formula 8.3/8.4) reaches the goal** (type 0, `u ≤ 0` is the reversing middle arc; the
three `assert`s of `LpRmL`, exactly). -/
theorem rs_LpRmL_reaches (x y phi t u v : ℝ) (h : LpRmL x y phi = some (t, u, v)) :
    (rsIntegFull (bCSC 0 false t u v).segList ⟨0, 0, 0⟩).x = x ∧
    (rsIntegFull (bCSC 0 false t u v).segList ⟨0, 0, 0⟩).y = y ∧
    ∃ k : ℤ, (rsIntegFull (bCSC 0 false t u v).segList ⟨0, 0, 0⟩).th = phi + k * (2 * Real.pi) :=
  LpRmL_reaches x y phi t u v h

example : LpRmL (0 : ℝ) 0 0 = some (Real.pi, 0, -Real.pi) := LpRmL_0_0_0

/-- [EX] **Every CSC candidate reaches the goal**: all eight images (plain, timeflip, reflect, both, of
`LpSpLp` and `LpSpRp`) that `CSC(x, y, φ)` may store, driven from the origin, end at `(x, y)` with
heading `φ` modulo 2π. -/
theorem rs_CSC_candidates_reach (x y phi L : ℝ) (Q : RSPath ℝ) (h : some (L, Q) ∈ candsCSC x y phi) :
    (rsIntegFull Q.segList ⟨0, 0, 0⟩).x = x ∧ (rsIntegFull Q.segList ⟨0, 0, 0⟩).y = y ∧
    ∃ k : ℤ, (rsIntegFull Q.segList ⟨0, 0, 0⟩).th = phi + k * (2 * Real.pi) :=
  CSC_candidates_reach x y phi L Q h

example : some (key3 (0 : ℝ) 3 0, bCSC 14 false (0 : ℝ) 3 0) ∈ candsCSC (3 : ℝ) 0 0 := candsCSC_3_0_0

/-- [EX] **The backwards transform.**  `backX/backY` are the code's `xb = x cos φ + y sin φ`,
`yb = x sin φ − y cos φ`.  If the word `p` reaches `(xb, yb, φ)` and the stored word `q` drives like `p`
reversed (same signed lengths, opposite order), then `q` reaches `(x, y, φ)`. -/
theorem rs_backwards_reaches (p q : RSPath ℝ)
    (hrev : rsIntegFull q.segList ⟨0, 0, 0⟩ = rsIntegFull p.segList.reverse ⟨0, 0, 0⟩)
    (x y phi : ℝ) (h : Reaches p (backX x y phi) (backY x y phi) phi) : Reaches q x y phi :=
  reaches_reverse p q hrev x y phi h

-- the stored backwards CCC / CCSC words do drive like the reversed base words
example (f : Bool) (t u v : ℝ) : rsIntegFull (bCCCrev 0 f t u v).segList ⟨0, 0, 0⟩ =
    rsIntegFull (bCSC 0 f t u v).segList.reverse ⟨0, 0, 0⟩ :=
  bCCCrev_drives_reverse 0 (Or.inl rfl) f t u v
example (f : Bool) (t u v : ℝ) : rsIntegFull (bCCSCrev 6 f t u v).segList ⟨0, 0, 0⟩ =
    rsIntegFull (bCCSC 4 f t u v).segList.reverse ⟨0, 0, 0⟩ :=
  bCCSCrev_drives_reverse 4 6 (Or.inl ⟨rfl, rfl⟩) f t u v

/-- [EX] **Every CCC candidate reaches the goal**: plain, timeflip, reflect, both, of `LpRmL(x, y, φ)`,
and the four "backwards" images (`LpRmL(xb, yb, φ)` stored as `(v, u, t)`). -/
theorem rs_CCC_candidates_reach (x y phi L : ℝ) (Q : RSPath ℝ) (h : some (L, Q) ∈ candsCCC x y phi) :
    (rsIntegFull Q.segList ⟨0, 0, 0⟩).x = x ∧ (rsIntegFull Q.segList ⟨0, 0, 0⟩).y = y ∧
    ∃ k : ℤ, (rsIntegFull Q.segList ⟨0, 0, 0⟩).th = phi + k * (2 * Real.pi) :=
  CCC_all_candidates_reach x y phi L Q h

example : some (key3 Real.pi 0 (-Real.pi), bCSC 0 false Real.pi 0 (-Real.pi)) ∈ candsCCC (0 : ℝ) 0 0 := by
  unfold candsCCC four
  rw [LpRmL_0_0_0]
  simp [mkCand]

/-- [EX] **`L⁺R⁻S⁻L⁻` (formula 8.9) reaches the goal**: if `LpRmSmLm(x, y, φ)` returns `(t, u, v)`, the word
`L t · R (-π/2) · S u · L v` (type 4) driven from the origin ends at `x`, `y`, heading `φ + 2πk` (the three
`assert`s of `LpRmSmLm`, exactly). -/
theorem rs_LpRmSmLm_reaches (x y phi t u v : ℝ) (h : LpRmSmLm x y phi = some (t, u, v)) :
    (rsIntegFull (bCCSC 4 false t u v).segList ⟨0, 0, 0⟩).x = x ∧
    (rsIntegFull (bCCSC 4 false t u v).segList ⟨0, 0, 0⟩).y = y ∧
    ∃ k : ℤ, (rsIntegFull (bCCSC 4 false t u v).segList ⟨0, 0, 0⟩).th = phi + k * (2 * Real.pi) :=
  LpRmSmLm_reaches x y phi t u v h

example : LpRmSmLm (-1 : ℝ) (-2) (Real.pi / 2) = some (0, -1, 0) := LpRmSmLm_ex

/-- [EX] **`L⁺R⁻S⁻R⁻` (formula 8.10) reaches the goal** (type 8; the three `assert`s of `LpRmSmRm`, exactly). -/
theorem rs_LpRmSmRm_reaches (x y phi t u v : ℝ) (h : LpRmSmRm x y phi = some (t, u, v)) :
    (rsIntegFull (bCCSC 8 false t u v).segList ⟨0, 0, 0⟩).x = x ∧
    (rsIntegFull (bCCSC 8 false t u v).segList ⟨0, 0, 0⟩).y = y ∧
    ∃ k : ℤ, (rsIntegFull (bCCSC 8 false t u v).segList ⟨0, 0, 0⟩).th = phi + k * (2 * Real.pi) :=
  LpRmSmRm_reaches x y phi t u v h

example : LpRmSmRm (-1 : ℝ) (-2) (Real.pi / 2) = some (0, -1, 0) := LpRmSmRm_ex

/-- [EX] **Every CCSC candidate reaches the goal**: the four images of `LpRmSmLm` (types 4, 5) and of
`LpRmSmRm` (types 8, 9), and the four backwards images of each (types 6, 7 and 10, 11). -/
theorem rs_CCSC_candidates_reach (x y phi L : ℝ) (Q : RSPath ℝ) (h : some (L, Q) ∈ candsCCSC x y phi) :
    (rsIntegFull Q.segList ⟨0, 0, 0⟩).x = x ∧ (rsIntegFull Q.segList ⟨0, 0, 0⟩).y = y ∧
    ∃ k : ℤ, (rsIntegFull Q.segList ⟨0, 0, 0⟩).th = phi + k * (2 * Real.pi) :=
  CCSC_all_candidates_reach x y phi L Q h

example : some (key3 (0 : ℝ) (-1) 0, bCCSC 4 false (0 : ℝ) (-1) 0) ∈
    candsCCSC (-1 : ℝ) (-2) (Real.pi / 2) := by
  unfold candsCCSC four
  rw [LpRmSmLm_ex]
  simp [mkCand]

/-! ## Group 3 [EX] (round 3): `tauOmega` and the four-arc family CCCC -/

/-- [EX] **Closed form of `tauOmega`.**  With `δ = mod2pi(u − v)`, `A = sin u − sin δ`,
`B = cos u − cos δ − 1`, `t2 = 2(cos δ − cos v − cos u) + 3` and `T = atan2(ηA − ξB, ξA + ηB)`
(`Num.atan2 y x = Complex.arg ⟨x, y⟩` over ℝ), the pair `(tau, omega)` the code computes satisfies, modulo
2π: `δ ≡ u − v`, `tau ≡ T + π` if `t2 < 0` and `tau ≡ T` otherwise, `omega ≡ tau − u + v − φ`. -/
theorem rs_tauOmega_spec (u v xi eta phi : ℝ) :
    let δ := rmod2pi (u - v)
    let A := Real.sin u - Real.sin δ
    let B := Real.cos u - Real.cos δ - 1
    let t2 := 2 * (Real.cos δ - Real.cos v - Real.cos u) + 3
    let T := Complex.arg ⟨xi * A + eta * B, eta * A - xi * B⟩
    let tau := (tauOmega u v xi eta phi).1
    let omega := (tauOmega u v xi eta phi).2
    (∃ k : ℤ, δ = u - v + k * (2 * Real.pi)) ∧
    (∃ k : ℤ, tau = (if t2 < 0 then T + Real.pi else T) + k * (2 * Real.pi)) ∧
    (∃ k : ℤ, omega = tau - u + v - phi + k * (2 * Real.pi)) :=
  tauOmega_spec u v xi eta phi

example : tauOmega (0 : ℝ) 0 2 0 0 = (Real.pi / 2, Real.pi / 2) := tauOmega_ex
example : tauOmega (Real.pi / 3) (-(Real.pi / 3)) 0 0 0 = (0, -(2 * Real.pi / 3)) := tauOmega_ex2

/-- [EX] **What `tau` solves.**  In the branch `t2 ≥ 0`, if `ξ² + η² = 4(A² + B²)` (which is how the two
callers choose `u`), the returned `tau` satisfies `2(A cos τ − B sin τ) = ξ` and `2(B cos τ + A sin τ) = η`:
the rotation by `τ` of the fixed vector `2(A, B)` is `(ξ, η)`. -/
theorem rs_tauOmega_tau_solves (u v xi eta phi : ℝ) :
    let δ := rmod2pi (u - v)
    let A := Real.sin u - Real.sin δ
    let B := Real.cos u - Real.cos δ - 1
    let tau := (tauOmega u v xi eta phi).1
    0 ≤ 2 * (Real.cos δ - Real.cos v - Real.cos u) + 3 →
    xi ^ 2 + eta ^ 2 = 4 * (A ^ 2 + B ^ 2) →
    2 * (A * Real.cos tau - B * Real.sin tau) = xi ∧ 2 * (B * Real.cos tau + A * Real.sin tau) = eta :=
  fun ht2 h => tauOmega_tau_solves u v xi eta phi ht2 h

-- the premises are satisfiable: `u = v = 0`, `(ξ, η) = (2, 0)` gives `δ = 0`, `A = 0`, `B = −1`, `t2 = 1`
example : (0 : ℝ) ≤ 2 * (Real.cos (rmod2pi (0 - 0)) - Real.cos 0 - Real.cos 0) + 3 ∧
    (2 : ℝ) ^ 2 + 0 ^ 2 = 4 * ((Real.sin 0 - Real.sin (rmod2pi (0 - 0))) ^ 2 +
      (Real.cos 0 - Real.cos (rmod2pi (0 - 0)) - 1) ^ 2) := by
  rw [sub_self, rmod2pi_zero, Real.sin_zero, Real.cos_zero]; norm_num

/-- [EX] **The `t2 < 0` branch of `tauOmega` is dead at both call sites** (in exact arithmetic):
`LpRupLumRm` calls `tauOmega(u, −u, …)` where `t2 = (2 cos u − 1)² ≥ 0`, `LpRumLumRp` calls
`tauOmega(u, u, …)` where `t2 = 5 − 4 cos u ≥ 1`. -/
theorem rs_tauOmega_t2_callers (u : ℝ) :
    2 * (Real.cos (rmod2pi (u - -u)) - Real.cos (-u) - Real.cos u) + 3 = (2 * Real.cos u - 1) ^ 2 ∧
    2 * (Real.cos (rmod2pi (u - u)) - Real.cos u - Real.cos u) + 3 = 5 - 4 * Real.cos u :=
  tauOmega_t2_callers u

-- the square does vanish (at `u = π/3`, i.e. `ξ = η = 0`), so over doubles `t2` may round either way there
example : (2 * Real.cos (Real.pi / 3) - 1) ^ 2 = 0 := by rw [Real.cos_pi_div_three]; norm_num

/-- [EX] **`L⁺R⁺L⁻R⁻` (formula 8.7) reaches the goal**: if `LpRupLumRm(x, y, φ)` returns `(t, u, v)`, the
word `L t · R u · L (−u) · R v` (type 2, as `CCCC` stores it) driven from the origin ends at `x`, `y`,
heading `φ + 2πk` (the three `assert`s of `LpRupLumRm`, exactly). -/
theorem rs_LpRupLumRm_reaches (x y phi t u v : ℝ) (h : LpRupLumRm x y phi = some (t, u, v)) :
    (rsIntegFull (bCCCCa 2 false t u v).segList ⟨0, 0, 0⟩).x = x ∧
    (rsIntegFull (bCCCCa 2 false t u v).segList ⟨0, 0, 0⟩).y = y ∧
    ∃ k : ℤ, (rsIntegFull (bCCCCa 2 false t u v).segList ⟨0, 0, 0⟩).th = phi + k * (2 * Real.pi) :=
  LpRupLumRm_reaches x y phi t u v h

-- the parallel pose two radii to the left is reached by the four-arc word `L 0 · R π/3 · L −π/3 · R −2π/3`
example : LpRupLumRm (0 : ℝ) 2 0 = some (0, Real.pi / 3, -(2 * Real.pi / 3)) := LpRupLumRm_ex2
example : LpRupLumRm (1 : ℝ) 1 (Real.pi / 2) = some (Real.pi / 2, 0, 0) := LpRupLumRm_ex
-- the end pose of the stored word, in closed form (the left sides of the three `assert`s)
example (t u v : ℝ) : rsIntegFull (bCCCCa 2 false t u v).segList ⟨0, 0, 0⟩ =
    ⟨2 * Real.sin t - 2 * Real.sin (t - u) + 2 * Real.sin (t - 2 * u) - Real.sin (t - 2 * u - v),
     1 - 2 * Real.cos t + 2 * Real.cos (t - u) - 2 * Real.cos (t - 2 * u) + Real.cos (t - 2 * u - v),
     t - 2 * u - v⟩ := end_LRLR_a t u v

/-- [EX] **`L⁺R⁻L⁻R⁺` (formula 8.8) reaches the goal**: if `LpRumLumRp(x, y, φ)` returns `(t, u, v)`, the
word `L t · R u · L u · R v` (type 2, `u ≤ 0`) driven from the origin ends at `x`, `y`, heading `φ + 2πk`
(the three `assert`s of `LpRumLumRp`, exactly). -/
theorem rs_LpRumLumRp_reaches (x y phi t u v : ℝ) (h : LpRumLumRp x y phi = some (t, u, v)) :
    (rsIntegFull (bCCCCb 2 false t u v).segList ⟨0, 0, 0⟩).x = x ∧
    (rsIntegFull (bCCCCb 2 false t u v).segList ⟨0, 0, 0⟩).y = y ∧
    ∃ k : ℤ, (rsIntegFull (bCCCCb 2 false t u v).segList ⟨0, 0, 0⟩).th = phi + k * (2 * Real.pi) :=
  LpRumLumRp_reaches x y phi t u v h

example : LpRumLumRp (2 : ℝ) 2 0 = some (Real.pi / 2, 0, Real.pi / 2) := LpRumLumRp_ex
example (t u v : ℝ) : rsIntegFull (bCCCCb 2 false t u v).segList ⟨0, 0, 0⟩ =
    ⟨4 * Real.sin t - 2 * Real.sin (t - u) - Real.sin (t - v),
     1 - 4 * Real.cos t + 2 * Real.cos (t - u) + Real.cos (t - v), t - v⟩ := end_LRLR_b t u v

/-- [EX] **Every CCCC candidate reaches the goal**: all eight images (plain, timeflip with all four
lengths negated, reflect = type 3, both, of `LpRupLumRm` and `LpRumLumRp`) that `CCCC(x, y, φ)` may store,
driven from the origin, end at `(x, y)` with heading `φ` modulo 2π. -/
theorem rs_CCCC_candidates_reach (x y phi L : ℝ) (Q : RSPath ℝ) (h : some (L, Q) ∈ candsCCCC x y phi) :
    (rsIntegFull Q.segList ⟨0, 0, 0⟩).x = x ∧ (rsIntegFull Q.segList ⟨0, 0, 0⟩).y = y ∧
    ∃ k : ℤ, (rsIntegFull Q.segList ⟨0, 0, 0⟩).th = phi + k * (2 * Real.pi) :=
  CCCC_candidates_reach x y phi L Q h

example : some (key4 (0 : ℝ) (Real.pi / 3) (-(2 * Real.pi / 3)),
    bCCCCa 2 false (0 : ℝ) (Real.pi / 3) (-(2 * Real.pi / 3))) ∈ candsCCCC (0 : ℝ) 2 0 := by
  unfold candsCCCC four
  rw [LpRupLumRm_ex2]
  simp [mkCand]

/-! ## Group 3 [EX]: the returned path reaches the goal -/

/-- [EX] **What `reedsShepp` returns reaches the goal.**  Whatever path `reedsShepp(x, y, φ)` returns —
any of the 18 word types, any of the timeflip / reflect / backwards images of the nine base formulas
8.1–8.11 — its word (type and five signed lengths), driven from the origin `(0, 0, 0)` by the model's own
integration `rsIntegFull` (the vehicle model of `rs_integrate_segment`), ends at position `(x, y)` with
heading `φ + 2πk`.  No hypothesis on the word type or on `(x, y, φ)`; what is assumed is the frame of the
[EX] theorems only: exact real arithmetic in place of doubles (`mod2pi` exact modulo 2π is proved,
`rmod2pi_exact`); the `±ZERO` acceptance tests are part of the solvers and decide only which candidates
exist. -/
theorem rs_reedsShepp_reaches (x y phi : ℝ) (P : RSPath ℝ) (hP : reedsShepp x y phi = some P) :
    (rsIntegFull P.segList ⟨0, 0, 0⟩).x = x ∧ (rsIntegFull P.segList ⟨0, 0, 0⟩).y = y ∧
    ∃ k : ℤ, (rsIntegFull P.segList ⟨0, 0, 0⟩).th = phi + k * (2 * Real.pi) :=
  reedsShepp_reaches x y phi P hP

-- the premise is satisfiable: paths are returned for `(3,0,0)` (a CSC candidate exists) and for `(0,2,0)`
-- (a CCCC candidate exists)
example : ∃ P, reedsShepp (3 : ℝ) 0 0 = some P := reedsShepp_3_0_0
example : ∃ P, reedsShepp (0 : ℝ) 2 0 = some P := by
  refine (rs_candidates_min 0 2 0).2 (key4 (0 : ℝ) (Real.pi / 3) (-(2 * Real.pi / 3)))
    (bCCCCa 2 false (0 : ℝ) (Real.pi / 3) (-(2 * Real.pi / 3))) ?_
  unfold allCands
  simp only [List.mem_append]
  refine Or.inl (Or.inl (Or.inr ?_))
  unfold candsCCCC four
  rw [LpRupLumRm_ex2]
  simp [mkCand]

/-- [EX] consequence: the reported length is at least the straight-line distance to the goal,
`√(x² + y²) ≤ length()`, for every path `reedsShepp` returns. -/
theorem rs_reedsShepp_length_ge_straight_line (x y phi : ℝ) (P : RSPath ℝ)
    (hP : reedsShepp x y phi = some P) : Real.sqrt (x ^ 2 + y ^ 2) ≤ P.len := by
  obtain ⟨hx, hy, -⟩ := reedsShepp_reaches x y phi P hP
  exact reaches_len_ge P 0 x y hx hy

example : ∃ P, reedsShepp (3 : ℝ) 0 0 = some P := reedsShepp_3_0_0

end OmplModel.Props.C14RS
