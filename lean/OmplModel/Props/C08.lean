import OmplModel.Proofs.SpaceBounds
import OmplModel.Proofs.SpaceBoundsValid
import OmplModel.Proofs.SpaceBoundsSamplers
import OmplModel.Proofs.SpaceBoundsSubspace
import OmplModel.Proofs.SpaceBoundsShipped
import OmplModel.Proofs.SpaceBoundsNearby
/-!
C08 — bound enforcement and every sampler keep states inside the space.
Property theorems only (helper lemmas: `Proofs/SpaceBounds*.lean`).  `[EX]` = exact real arithmetic
(`Num ℝ`), `[AF]` = arithmetic-free (holds for the `Float` instantiation as well).
-/
namespace OmplModel.SpaceBounds.C08
open OmplModel OmplModel.SpaceBounds
attribute [-instance] Num.instOfNat

/-- [EX] Enforcing bounds turns *any* state (every real is finite) into one that satisfies the bounds:
R^n / time / discrete under `lo ≤ hi`, SO(2) in the code's own predicate `[-π, π)`, SO(3) through all three
branches (first-order renormalisation, zero/tiny quaternion -> identity, exact normalisation), compounds and
wrappers nested arbitrarily, the special spaces through their components. -/
theorem enforce_inbounds (sp : Space ℝ) : ∀ (s : OmplModel.St ℝ), boundsOk sp →
    satisfiesBounds sp (enforceBounds sp s) = true := by
  induction sp with
  | rv lo hi => intro s h; simpa [enforceBounds, satisfiesBounds, enfRv] using rvEnforce_sat lo hi _ h
  | so2 => intro s _; simpa [enforceBounds, satisfiesBounds, enfSo2] using so2Enforce_sat _
  | so3 =>
    intro s _
    obtain ⟨a, b, c, d, he, hs⟩ := so3Enforce_sat (St.qx s) (St.qy s) (St.qz s) (St.qw s)
    simpa [enforceBounds, satisfiesBounds, he] using hs
  | time b lo hi =>
    intro s h
    cases b
    · simp [satisfiesBounds]
    · have := clampHL_mem (h rfl) (St.tm s)
      simp only [enforceBounds, satisfiesBounds, tm_time, if_true, Bool.not_true, Bool.false_or, timeSat_iff]
      constructor <;> linarith [eps_pos]
  | disc lo hi => intro s h; simpa [enforceBounds, satisfiesBounds] using discEnforce_sat h _
  | cnil => intro s _; simp [satisfiesBounds]
  | ccons w hd tl ih1 ih2 =>
    intro s h
    simp [enforceBounds, satisfiesBounds, ih1 _ h.1, ih2 _ h.2]
  | torus R r =>
    intro s _
    simp [enforceBounds, satisfiesBounds, enfSo2, so2Enforce_sat]
  | mobius imax rad =>
    intro s h
    have : rvOk [-imax] [imax] := ⟨by have : 0 ≤ imax := h; linarith, trivial⟩
    simp [enforceBounds, satisfiesBounds, enfSo2, enfRv, so2Enforce_sat,
      rvEnforce_sat _ _ _ this]
  | klein =>
    intro s _
    have : rvOk [Num.ofNat 0] [Num.pi] := ⟨by simpa [Num.ofNat, pi_val] using Real.pi_pos.le, trivial⟩
    simp [enforceBounds, satisfiesBounds, enfSo2, enfRv, so2Enforce_sat,
      rvEnforce_sat _ _ _ this]
  | sphere r =>
    intro s _
    have : rvOk [Num.ofNat 0] [Num.pi] := ⟨by simpa [Num.ofNat, pi_val] using Real.pi_pos.le, trivial⟩
    simp [enforceBounds, satisfiesBounds, enfSo2, enfRv, so2Enforce_sat,
      rvEnforce_sat _ _ _ this]
  | wrap sp ih => intro s h; simpa [enforceBounds, satisfiesBounds] using ih s h

/-- a compound of R^2 (one zero-width coordinate in a negative range), SO(2) and SO(3) -/
noncomputable def exSpace : Space ℝ := .ccons 1 (.rv [0, -5] [1, -5]) (.ccons 1 .so2 (.ccons 1 .so3 .cnil))
theorem exSpace_ok : boundsOk exSpace := ⟨⟨by norm_num, by norm_num, trivial⟩, trivial, trivial, trivial⟩

-- non-vacuity: a far-out state of that compound (zero quaternion included)
example : satisfiesBounds exSpace
    (enforceBounds exSpace (.ccons (.rv [7, 7]) (.ccons (.so2 1000) (.ccons (.so3 0 0 0 0) .cnil)))) = true :=
  enforce_inbounds _ _ exSpace_ok

/-- [EX] Enforcing bounds leaves an in-bounds state unchanged: exactly in SO(2), discrete components and in the
structure; within `eps = 2⁻⁵²` per real coordinate of R^n / time (the slack `satisfiesBounds` itself grants, half of
the `equalStates` tolerance `2·eps`); an SO(3) component is rescaled by a factor `k`, `|k - 1| ≤ 2e-9` (the same
rotation, `equalStates`).  Well-typedness is needed because the model reads ill-typed states through defaults. -/
theorem enforce_noop_inbounds (sp : Space ℝ) : ∀ (s : OmplModel.St ℝ), boundsOk sp → Space.wellTyped sp s = true →
    satisfiesBounds sp s = true → stClose eps (enforceBounds sp s) s := by
  induction sp with
  | rv lo hi =>
    intro s h hw hs
    cases s <;> simp [Space.wellTyped] at hw
    simpa [enforceBounds, enfRv, stClose] using rvEnforce_close lo hi _ h (by simpa [satisfiesBounds] using hs)
  | so2 =>
    intro s _ hw hs
    cases s <;> simp [Space.wellTyped] at hw
    simp only [satisfiesBounds, ang_so2] at hs
    simp [enforceBounds, enfSo2, stClose, so2Enforce_noop hs]
  | so3 =>
    intro s _ hw hs
    cases s <;> simp [Space.wellTyped] at hw
    simp only [satisfiesBounds, qx_so3, qy_so3, qz_so3, qw_so3] at hs
    obtain ⟨k, hk, he⟩ := so3Enforce_close hs
    simp only [enforceBounds, qx_so3, qy_so3, qz_so3, qw_so3, he, stClose]
    exact ⟨k, hk, rfl, rfl, rfl, rfl⟩
  | time b lo hi =>
    intro s h hw hs
    cases s <;> simp [Space.wellTyped] at hw
    cases b
    · simp [enforceBounds, stClose, eps_pos.le]
    · simp only [satisfiesBounds, Bool.not_true, Bool.false_or, tm_time, timeSat_iff] at hs
      simpa [enforceBounds, stClose] using clampHL_close (h rfl) hs
  | disc lo hi =>
    intro s _ hw hs
    cases s <;> simp [Space.wellTyped] at hw
    simp only [satisfiesBounds, dv_disc] at hs
    simp [enforceBounds, stClose, discEnforce_noop hs]
  | cnil => intro s _ hw _; cases s <;> simp [Space.wellTyped] at hw; simp [enforceBounds, stClose]
  | ccons w hd tl ih1 ih2 =>
    intro s h hw hs
    cases s <;> simp [Space.wellTyped] at hw
    simp only [satisfiesBounds, hd_ccons, tl_ccons, Bool.and_eq_true] at hs
    simp only [enforceBounds, hd_ccons, tl_ccons, stClose]
    exact ⟨ih1 _ h.1 hw.1 hs.1, ih2 _ h.2 hw.2 hs.2⟩
  | torus R r =>
    intro s _ hw hs
    unfold Space.wellTyped at hw
    split at hw <;> simp_all [satisfiesBounds, enforceBounds, enfSo2, pair, stClose, so2Enforce_noop]
  | mobius imax rad =>
    intro s h hw hs
    have hok : rvOk [-imax] [imax] := ⟨by have : 0 ≤ imax := h; linarith, trivial⟩
    unfold Space.wellTyped at hw
    split at hw <;> simp_all [satisfiesBounds, enforceBounds, enfSo2, enfRv, pair, stClose, so2Enforce_noop]
    exact rvEnforce_close _ _ _ hok hs.2
  | klein =>
    intro s _ hw hs
    have hok : rvOk [Num.ofNat 0] [Num.pi] := ⟨by simpa [Num.ofNat, pi_val] using Real.pi_pos.le, trivial⟩
    unfold Space.wellTyped at hw
    split at hw <;> simp_all [satisfiesBounds, enforceBounds, enfSo2, enfRv, pair, stClose, so2Enforce_noop]
    exact rvEnforce_close _ _ _ hok hs.1
  | sphere r =>
    intro s _ hw hs
    have hok : rvOk [Num.ofNat 0] [Num.pi] := ⟨by simpa [Num.ofNat, pi_val] using Real.pi_pos.le, trivial⟩
    unfold Space.wellTyped at hw
    split at hw <;> simp_all [satisfiesBounds, enforceBounds, enfSo2, enfRv, pair, stClose, so2Enforce_noop]
    exact rvEnforce_close _ _ _ hok hs.2
  | wrap sp ih =>
    intro s h hw hs
    exact (by simpa [enforceBounds] using ih s h (by simpa [Space.wellTyped] using hw) (by simpa [satisfiesBounds] using hs))

-- non-vacuity: an in-bounds state of the example compound
example : stClose eps (enforceBounds exSpace (.ccons (.rv [1, -5]) (.ccons (.so2 1) (.ccons (.so3 0 0 1 0) .cnil))))
    (.ccons (.rv [1, -5]) (.ccons (.so2 1) (.ccons (.so3 0 0 1 0) .cnil))) := by
  apply enforce_noop_inbounds _ _ exSpace_ok
  · simp [exSpace, Space.wellTyped]
  · have h3 : (2 : ℝ) ≤ Real.pi := Real.two_le_pi
    have e := eps_pos
    simp only [exSpace, satisfiesBounds, hd_ccons, tl_ccons, vals_rv, ang_so2, qx_so3, qy_so3, qz_so3, qw_so3,
      rvSat, Bool.and_eq_true, rvSat1_iff, so2Sat_iff, and_true]
    refine ⟨⟨⟨?_, ?_⟩, ?_, ?_⟩, ⟨?_, ?_⟩, so3Sat_of_close ?_⟩ <;> try linarith
    simp [nrmSq_val, eps_pos.le]

theorem clampHL_idem {lo hi : ℝ} (h : lo ≤ hi) (v : ℝ) : clampHL lo hi (clampHL lo hi v) = clampHL lo hi v :=
  clampHL_of_mem (clampHL_mem h v).1 (clampHL_mem h v).2

/-- [EX] Enforcing bounds is idempotent — exactly — for every space without an SO(3) component (clamps, the SO(2)
wrap, arbitrarily nested compounds and wrappers, the special spaces). -/
theorem enforce_idem (sp : Space ℝ) : ∀ (s : OmplModel.St ℝ), boundsOk sp → so3Free sp →
    enforceBounds sp (enforceBounds sp s) = enforceBounds sp s := by
  induction sp with
  | rv lo hi => intro s h _; simp [enforceBounds, enfRv, rvEnforce_idem lo hi _ h]
  | so2 => intro s _ _; simp [enforceBounds, enfSo2, so2Enforce_idem]
  | so3 => intro s _ h; exact absurd h (by simp [so3Free])
  | time b lo hi =>
    intro s h _
    cases b
    · simp [enforceBounds]
    · simp [enforceBounds, clampHL_idem (h rfl)]
  | disc lo hi => intro s h _; simp [enforceBounds, discEnforce_noop (discEnforce_sat h _)]
  | cnil => intro s _ _; simp [enforceBounds]
  | ccons w hd tl ih1 ih2 => intro s h hf; simp [enforceBounds, ih1 _ h.1 hf.1, ih2 _ h.2 hf.2]
  | torus R r => intro s _ _; simp [enforceBounds, enfSo2, so2Enforce_idem]
  | mobius imax rad =>
    intro s h _
    have hok : rvOk [-imax] [imax] := ⟨by have : 0 ≤ imax := h; linarith, trivial⟩
    simp [enforceBounds, enfSo2, enfRv, so2Enforce_idem, rvEnforce_idem _ _ _ hok]
  | klein =>
    intro s _ _
    have hok : rvOk [Num.ofNat 0] [Num.pi] := ⟨by simpa [Num.ofNat, pi_val] using Real.pi_pos.le, trivial⟩
    simp [enforceBounds, enfSo2, enfRv, so2Enforce_idem, rvEnforce_idem _ _ _ hok]
  | sphere r =>
    intro s _ _
    have hok : rvOk [Num.ofNat 0] [Num.pi] := ⟨by simpa [Num.ofNat, pi_val] using Real.pi_pos.le, trivial⟩
    simp [enforceBounds, enfSo2, enfRv, so2Enforce_idem, rvEnforce_idem _ _ _ hok]
  | wrap sp ih => intro s h hf; simpa [enforceBounds] using ih s h hf

-- non-vacuity
example (s : OmplModel.St ℝ) : enforceBounds (.ccons 1 (.rv [0] [0]) (.ccons 2 .so2 .cnil))
    (enforceBounds (.ccons 1 (.rv [0] [0]) (.ccons 2 .so2 .cnil)) s)
    = enforceBounds (.ccons 1 (.rv [0] [0]) (.ccons 2 .so2 .cnil)) s :=
  enforce_idem _ s ⟨⟨le_refl _, trivial⟩, trivial, trivial⟩ ⟨trivial, trivial, trivial⟩

/-- [EX] SO(3): a second enforcement after the exact-normalisation or the zero->identity branch changes nothing;
after the first-order branch it rescales once more by a factor within 2e-9 of 1 (full exact idempotence does not
hold for the code: `2/(1+n²)` is not 1 for the once-renormalised quaternion). -/
theorem enforce_idem_so3_partial (x y z w : ℝ) :
    ∃ a b c d k, so3Enforce x y z w = .so3 a b c d ∧ |k - 1| ≤ 2 / 1000000000 ∧
      so3Enforce a b c d = .so3 (a * k) (b * k) (c * k) (d * k) := by
  obtain ⟨a, b, c, d, he, hs⟩ := so3Enforce_sat x y z w
  obtain ⟨k, hk, he2⟩ := so3Enforce_close hs
  exact ⟨a, b, c, d, k, he, hk, he2⟩

/-! ### samplers as functions of their raw draws `[EX]` -/

theorem rvOk_pi : rvOk [Num.ofNat 0] [(Num.pi : ℝ)] := ⟨by simpa [Num.ofNat, pi_val] using Real.pi_pos.le, trivial⟩

/-- [EX] `sampleUniform` of every space (compound, wrapped, special) is in bounds for all `uniform01()` draws in
`[0,1)`; SO(3) through `RNG::quaternion` as coded. -/
theorem sampler_inbounds_uniform (R : Rng ℝ) (hR : drawsOk R) (sp : Space ℝ) : ∀ (p : Pos), boundsOk sp →
    satisfiesBounds sp (sampleUniform R sp p).1 = true := by
  induction sp with
  | rv lo hi => intro p h; simpa [sampleUniform, satisfiesBounds] using rvUniform_sat R hR lo hi _ h
  | so2 => intro p _; simpa [sampleUniform, satisfiesBounds] using so2Uniform_sat (hR _).1 (hR _).2
  | so3 =>
    intro p _
    obtain ⟨a, b, c, d, he, hn⟩ := rngQuaternion_unit (u1 := R.u (p.ui + 1)) (u2 := R.u (p.ui + 2)) (hR p.ui).1 (hR p.ui).2
    simpa [sampleUniform, so3Uniform, satisfiesBounds, he] using so3Sat_of_unit hn
  | time b lo hi =>
    intro p h
    cases b
    · simp [sampleUniform, satisfiesBounds]
    · have := uniformReal_mem (h rfl) (hR p.ui).1 (hR p.ui).2
      simp only [sampleUniform, satisfiesBounds, if_true, tm_time, Bool.not_true, Bool.false_or, timeSat_iff]
      constructor <;> linarith [eps_pos]
  | disc lo hi => intro p h; simpa [sampleUniform, satisfiesBounds] using uniformInt_sat h (hR _).1 (hR _).2
  | cnil => intro p _; simp [sampleUniform, satisfiesBounds]
  | ccons w hd tl ih1 ih2 => intro p h; simp [sampleUniform, satisfiesBounds, ih1 _ h.1, ih2 _ h.2]
  | torus _ _ =>
    intro p _
    simp [sampleUniform, satisfiesBounds, so2Uniform_sat (hR _).1 (hR _).2]
  | mobius imax _ =>
    intro p h
    have hi : -imax ≤ imax := by have : 0 ≤ imax := h; linarith
    have := uniformReal_mem hi (hR (p.ui + 1)).1 (hR (p.ui + 1)).2
    simp [sampleUniform, satisfiesBounds, rvSat, so2Uniform_sat (hR _).1 (hR _).2, rvSat1_of_mem this.1 this.2]
  | klein =>
    intro p _
    have := uniformReal_mem (a := (Num.ofNat 0 : ℝ)) (b := Num.pi) rvOk_pi.1 (hR p.ui).1 (hR p.ui).2
    simp [sampleUniform, satisfiesBounds, rvSat, so2Uniform_sat (hR _).1 (hR _).2, rvSat1_of_mem this.1 this.2]
  | sphere _ =>
    intro p _
    have hp := Real.pi_pos
    have h1 : so2Sat (Num.ofNat 2 * Num.pi * uniformReal (Num.ofNat 0) (Num.ofNat 1) (R.u p.ui) - Num.pi : ℝ) = true := by
      rw [so2Sat_iff]
      simp only [uniformReal_val, Num.ofNat, pi_val, Nat.cast_ofNat, Nat.cast_zero, Nat.cast_one]
      have := hR p.ui
      constructor <;> nlinarith
    have h2 := rvSat1_of_mem (l := (Num.ofNat 0 : ℝ)) (h := Num.pi)
      (x := Num.acos (Num.ofNat 1 - Num.ofNat 2 * uniformReal (Num.ofNat 0) (Num.ofNat 1) (R.u (p.ui + 1))))
      (by simpa [Num.ofNat, Num.acos] using Real.arccos_nonneg _) (by simpa [Num.acos, pi_val] using Real.arccos_le_pi _)
    simp [sampleUniform, satisfiesBounds, rvSat, h1, h2]
  | wrap sp ih => intro p h; simpa [sampleUniform, satisfiesBounds] using ih p h

-- non-vacuity
example (R : Rng ℝ) (hR : drawsOk R) : satisfiesBounds exSpace (sampleUniform R exSpace {}).1 = true :=
  sampler_inbounds_uniform R hR _ _ exSpace_ok

/-- [EX] `sampleUniformNear` of every space is in bounds for all draws, every radius `0 ≤ d` (up to infinity: no upper
bound is assumed) and every in-bounds centre; compounds scale the radius by the component's weight importance and
fall back to `sampleUniform` when the importance is `≤ eps`, exactly as coded. -/
theorem sampler_inbounds_near (R : Rng ℝ) (hR : drawsOk R) (sp : Space ℝ) :
    ∀ (ctx : Option ℝ) (c : OmplModel.St ℝ) (d : ℝ) (p : Pos), boundsOk sp → 0 ≤ d → satisfiesBounds sp c = true →
    satisfiesBounds sp (sampleNear R ctx sp c d p).1 = true := by
  induction sp with
  | rv lo hi =>
    intro ctx c d p h hd hs
    simpa [sampleNear, satisfiesBounds] using rvNear_sat R hR hd lo hi _ _ h (by simpa [satisfiesBounds] using hs)
  | so2 => intro ctx c d p _ _ _; simpa [sampleNear, satisfiesBounds] using so2Enforce_sat _
  | so3 =>
    intro ctx c d p _ _ hs
    simp only [sampleNear, so3Near]
    split_ifs
    · obtain ⟨a, b, c', d', he, hn⟩ :=
        rngQuaternion_unit (u1 := R.u (p.ui + 1)) (u2 := R.u (p.ui + 2)) (hR p.ui).1 (hR p.ui).2
      simpa [so3Uniform, satisfiesBounds, he] using so3Sat_of_unit hn
    · obtain ⟨x, y, z, w, hq, hu⟩ := axisAngle_unit (R.g (p.gi + 2)) (R.g (p.gi + 1)) (R.g p.gi)
        (Num.ofNat 2 * R.u p.ui * d)
      obtain ⟨x', y', z', w', he, hsat⟩ := quatMul_sat c hu (by simpa [satisfiesBounds] using hs)
      simpa [satisfiesBounds, hq, he] using hsat
  | time b lo hi =>
    intro ctx c d p h _ _
    cases b
    · simp [sampleNear, satisfiesBounds]
    · have := clampHL_mem (h rfl) (rawNear R (St.tm c) d p.ui)
      simp only [sampleNear, satisfiesBounds, if_true, tm_time, Bool.not_true, Bool.false_or, timeSat_iff]
      constructor <;> linarith [eps_pos]
  | disc lo hi => intro ctx c d p h _ _; simpa [sampleNear, satisfiesBounds] using discEnforce_sat h _
  | cnil => intro ctx c d p _ _ _; simp [sampleNear, satisfiesBounds]
  | ccons w hd tl ih1 ih2 =>
    intro ctx c d p h hd' hs
    simp only [satisfiesBounds, Bool.and_eq_true] at hs
    simp only [sampleNear, satisfiesBounds, hd_ccons, tl_ccons, Bool.and_eq_true]
    refine ⟨?_, ih2 _ _ _ _ h.2 hd' hs.2⟩
    unfold nearBranch
    split_ifs with hi
    · exact ih1 _ _ _ _ h.1 (mul_nonneg hd' (le_of_lt (lt_trans eps_pos hi))) hs.1
    · exact sampler_inbounds_uniform R hR _ _ h.1
  | torus _ _ => intro ctx c d p _ _ _; simp [sampleNear, satisfiesBounds, so2Enforce_sat]
  | mobius imax _ =>
    intro ctx c d p h hd' hs
    have hi : rvOk [-imax] [imax] := ⟨by have : 0 ≤ imax := h; linarith, trivial⟩
    simp only [satisfiesBounds, Bool.and_eq_true] at hs
    simp only [sampleNear]
    split_ifs with himp
    · have := rvNear_sat R hR (mul_nonneg hd' (le_of_lt (lt_trans eps_pos himp))) [-imax] [imax]
        (St.vals (St.hd (St.tl c))) (p.ui + 1) hi hs.2
      simp [satisfiesBounds, so2Enforce_sat, this]
    · have := uniformReal_mem hi.1 (hR (p.ui + 1)).1 (hR (p.ui + 1)).2
      simp [satisfiesBounds, rvSat, so2Uniform_sat (hR _).1 (hR _).2, rvSat1_of_mem this.1 this.2]
  | klein =>
    intro ctx c d p _ _ _
    simp [sampleNear, satisfiesBounds, so2Enforce_sat, enfRv, rvEnforce_sat _ _ _ rvOk_pi]
  | sphere _ =>
    intro ctx c d p _ _ _
    simp [sampleNear, satisfiesBounds, so2Enforce_sat, enfRv, rvEnforce_sat _ _ _ rvOk_pi]
  | wrap sp ih => intro ctx c d p h hd hs; simpa [sampleNear, satisfiesBounds] using ih none c d p h hd (by simpa [satisfiesBounds] using hs)

-- non-vacuity: any radius, e.g. a million times the extent
example (R : Rng ℝ) (hR : drawsOk R) (c : OmplModel.St ℝ) (hc : satisfiesBounds exSpace c = true) :
    satisfiesBounds exSpace (sampleNear R none exSpace c 1000000 {}).1 = true :=
  sampler_inbounds_near R hR _ _ _ _ _ exSpace_ok (by norm_num) hc

/-- [EX] `sampleGaussian` of every space is in bounds for all `gaussian01()` draws (any real number), every standard
deviation (no sign or size restriction) and every in-bounds mean (the mean matters only for SO(3), whose sampler
multiplies it by a unit quaternion). -/
theorem sampler_inbounds_gaussian (R : Rng ℝ) (hR : drawsOk R) (sp : Space ℝ) :
    ∀ (ctx : Option ℝ) (c : OmplModel.St ℝ) (sd : ℝ) (p : Pos), boundsOk sp → satisfiesBounds sp c = true →
    satisfiesBounds sp (sampleGauss R ctx sp c sd p).1 = true := by
  induction sp with
  | rv lo hi => intro ctx c sd p h _; simpa [sampleGauss, satisfiesBounds] using rvGauss_sat R sd lo hi _ _ h
  | so2 => intro ctx c sd p _ _; simpa [sampleGauss, satisfiesBounds] using so2Enforce_sat _
  | so3 =>
    intro ctx c sd p _ hs
    obtain ⟨a, b, c', d, he, hsat⟩ := so3Gauss_sat R hR c sd p (by simpa [satisfiesBounds] using hs)
    simpa [sampleGauss, satisfiesBounds, he] using hsat
  | time b lo hi =>
    intro ctx c sd p h _
    cases b
    · simp [sampleGauss, satisfiesBounds]
    · have := clampHL_mem (h rfl) (gaussian (St.tm c) sd (R.g p.gi))
      simp only [sampleGauss, satisfiesBounds, if_true, tm_time, Bool.not_true, Bool.false_or, timeSat_iff]
      constructor <;> linarith [eps_pos]
  | disc lo hi => intro ctx c sd p h _; simpa [sampleGauss, satisfiesBounds] using discEnforce_sat h _
  | cnil => intro ctx c sd p _ _; simp [sampleGauss, satisfiesBounds]
  | ccons w hd tl ih1 ih2 =>
    intro ctx c sd p h hs
    simp only [satisfiesBounds, Bool.and_eq_true] at hs
    simp only [sampleGauss, satisfiesBounds, hd_ccons, tl_ccons, Bool.and_eq_true]
    exact ⟨ih1 _ _ _ _ h.1 hs.1, ih2 _ _ _ _ h.2 hs.2⟩
  | torus _ _ => intro ctx c sd p _ _; simp [sampleGauss, satisfiesBounds, so2Enforce_sat]
  | mobius imax _ =>
    intro ctx c sd p h _
    have hi : rvOk [-imax] [imax] := ⟨by have : 0 ≤ imax := h; linarith, trivial⟩
    simp [sampleGauss, satisfiesBounds, so2Enforce_sat, rvGauss_sat R _ _ _ _ _ hi]
  | klein =>
    intro ctx c sd p _ _
    simp [sampleGauss, satisfiesBounds, so2Enforce_sat, enfRv, rvEnforce_sat _ _ _ rvOk_pi]
  | sphere _ =>
    intro ctx c sd p _ _
    simp [sampleGauss, satisfiesBounds, so2Enforce_sat, enfRv, rvEnforce_sat _ _ _ rvOk_pi]
  | wrap sp ih => intro ctx c sd p h hs; simpa [sampleGauss, satisfiesBounds] using ih none c sd p h (by simpa [satisfiesBounds] using hs)

-- non-vacuity
example (R : Rng ℝ) (hR : drawsOk R) (c : OmplModel.St ℝ) (hc : satisfiesBounds exSpace c = true) :
    satisfiesBounds exSpace (sampleGauss R none exSpace c 1000000 {}).1 = true :=
  sampler_inbounds_gaussian R hR _ _ _ _ _ exSpace_ok hc

/-- [EX] The modelled samplers take the space — hence its bounds — as an ARGUMENT of every draw; the only thing a
sampler carries from one draw to the next is its position `Pos` in the RNG streams.  So whatever bound setting `b1` the
sampler was used with before (legal or not, any structure), a draw made under the current setting `b2` from the position
the earlier draw left behind satisfies `b2`: uniform, near (every radius, centre in the current bounds) and Gaussian.
(`sampler_inbounds_*` already quantify over the bounds at draw time; this makes the "sampler follows the current bounds"
reading explicit.  A C++ sampler object that snapshots the bounds in its constructor does not refine this model; the
`rebound` runs of the check look for exactly that.) -/
theorem sampler_follows_current_bounds (R : Rng ℝ) (hR : drawsOk R) (b1 b2 : Space ℝ) (p : Pos) (h2 : boundsOk b2) :
    satisfiesBounds b2 (sampleUniform R b2 (sampleUniform R b1 p).2).1 = true ∧
    (∀ (c1 c : OmplModel.St ℝ) (d1 d : ℝ), 0 ≤ d → satisfiesBounds b2 c = true →
      satisfiesBounds b2 (sampleNear R none b2 c d (sampleNear R none b1 c1 d1 p).2).1 = true) ∧
    (∀ (c1 c : OmplModel.St ℝ) (sd1 sd : ℝ), satisfiesBounds b2 c = true →
      satisfiesBounds b2 (sampleGauss R none b2 c sd (sampleGauss R none b1 c1 sd1 p).2).1 = true) :=
  ⟨sampler_inbounds_uniform R hR b2 _ h2,
   fun _ c _ d hd hc => sampler_inbounds_near R hR b2 none c d _ h2 hd hc,
   fun _ c _ sd hc => sampler_inbounds_gaussian R hR b2 none c sd _ h2 hc⟩

-- non-vacuity: first the box [0,1], then the disjoint box [5,6] with the same sampler position
example (R : Rng ℝ) (hR : drawsOk R) :
    satisfiesBounds (.rv [5] [6]) (sampleUniform R (.rv [5] [6]) (sampleUniform R (.rv [0] [1]) {}).2).1 = true :=
  (sampler_follows_current_bounds R hR (.rv [0] [1]) (.rv [5] [6]) {} ⟨by norm_num, trivial⟩).1

/-- [EX] `quaternionProduct` of unit quaternions is unit (norm is multiplicative). -/
theorem quaternionProduct_unit (a b : OmplModel.St ℝ)
    (ha : nrmSq (St.qx a) (St.qy a) (St.qz a) (St.qw a) = 1) (hb : nrmSq (St.qx b) (St.qy b) (St.qz b) (St.qw b) = 1) :
    ∃ x y z w, quatMul a b = .so3 x y z w ∧ nrmSq x y z w = 1 := by
  obtain ⟨x, y, z, w, he, hn⟩ := quatMul_nrmSq a b
  exact ⟨x, y, z, w, he, by rw [hn, ha, hb]; norm_num⟩

/-- [EX] Finding F77 (unchanged code): with `state == near` the in-place `quaternionProduct` of SO3StateSampler does not
return a unit quaternion.  Witness: near = (1,0,0,0), perturbation = (0,0,3/5,4/5) — both unit; the aliased product is
(4/5, -12/25, 0, 0) with squared norm 544/625 (norm ≈ 0.933), while the non-aliased product is unit. -/
theorem so3_sampler_aliased_not_unit :
    ∃ a b : OmplModel.St ℝ,
      nrmSq (St.qx a) (St.qy a) (St.qz a) (St.qw a) = 1 ∧ nrmSq (St.qx b) (St.qy b) (St.qz b) (St.qw b) = 1 ∧
      quatMulAliased a b = .so3 (4 / 5) (-(12 / 25)) 0 0 ∧ so3Sat (4 / 5 : ℝ) (-(12 / 25)) 0 0 = false := by
  refine ⟨.so3 1 0 0 0, .so3 0 0 (3 / 5) (4 / 5), ?_, ?_, ?_, ?_⟩
  · simp [nrmSq_val]
  · simp only [qx_so3, qy_so3, qz_so3, qw_so3, nrmSq_val]; norm_num
  · simp only [quatMulAliased, qx_so3, qy_so3, qz_so3, qw_so3]
    norm_num
  · have hn : nrmSq (4 / 5 : ℝ) (-(12 / 25)) 0 0 = 544 / 625 := by simp only [nrmSq_val]; norm_num
    have hlt : Real.sqrt (544 / 625) < 999 / 1000 := by
      rw [show (999 / 1000 : ℝ) = Real.sqrt ((999 / 1000) ^ 2) from (Real.sqrt_sq (by norm_num)).symm]
      exact Real.sqrt_lt_sqrt (by norm_num) (by norm_num)
    unfold so3Sat so3Norm
    simp only [hn, Num.abs, Num.sqrt, Num.ofNat, Nat.cast_one, eps_val, qErr_val, decide_eq_false_iff_not, not_lt]
    rw [if_pos (by rw [abs_of_neg (by norm_num)]; norm_num)]
    rw [abs_of_neg (by linarith)]
    linarith

/-! ### SubspaceStateSampler `[EX]` -/

/-- [EX] SubspaceStateSampler over the (arbitrarily nested) component at `path` of a compound, with the inner default
sampler and the weight-scaled distance / σ (`weightSum_ < eps ? 1 : w/weightSum_` for a direct component — the F78
convention —, 1 for deeper ones): for uniform, near (every radius `0 ≤ d`) and Gaussian (every σ) sampling the
components it writes satisfy their bounds, so a full state that was in bounds stays in bounds; every substate on a path
that parts ways with `path` is untouched.  Assumed: legal bounds, non-negative weights (OMPL rejects negative ones),
a path through compounds only, `near`/`mean` in bounds. -/
theorem subspace_sampler_inbounds (R : Rng ℝ) (hR : drawsOk R) (sp : Space ℝ) (path : List Nat)
    (hv : validPath sp path = true) (hb : boundsOk sp) (hw : weightsNonneg sp)
    (st : OmplModel.St ℝ) (hst : satisfiesBounds sp st = true) (p : Pos) :
    satisfiesBounds sp (subspaceUniform R sp path st p).1 = true ∧
    (∀ (near : OmplModel.St ℝ) (d : ℝ), 0 ≤ d → satisfiesBounds sp near = true →
      satisfiesBounds sp (subspaceNear R sp path st near d p).1 = true) ∧
    (∀ (mean : OmplModel.St ℝ) (sd : ℝ), satisfiesBounds sp mean = true →
      satisfiesBounds sp (subspaceGauss R sp path st mean sd p).1 = true) ∧
    (∀ q, Diverge path q →
      getAt (subspaceUniform R sp path st p).1 q = getAt st q ∧
      (∀ near d, getAt (subspaceNear R sp path st near d p).1 q = getAt st q) ∧
      (∀ mean sd, getAt (subspaceGauss R sp path st mean sd p).1 q = getAt st q)) := by
  have hsub := boundsOk_subAt path sp hb
  refine ⟨?_, ?_, ?_, ?_⟩
  · exact sat_setAt path sp st _ hv hst (sampler_inbounds_uniform R hR _ _ hsub)
  · intro near d hd hn
    exact sat_setAt path sp st _ hv hst
      (sampler_inbounds_near R hR _ none _ _ _ hsub (mul_nonneg hd (subWeight_nonneg sp hw path))
        (sat_getAt path sp near hv hn))
  · intro mean sd hm
    exact sat_setAt path sp st _ hv hst
      (sampler_inbounds_gaussian R hR _ none _ _ _ hsub (sat_getAt path sp mean hv hm))
  · intro q hq
    exact ⟨getAt_setAt_other hq _ _, fun _ _ => getAt_setAt_other hq _ _, fun _ _ => getAt_setAt_other hq _ _⟩

/-- two SE(3)-like bodies `[[R^1, SO(3)], [R^1, SO(3)]]`; the sampled subspace is the rotation of the second body -/
noncomputable def exBodies : Space ℝ :=
  .ccons 1 (.ccons 1 (.rv [0] [1]) (.ccons 1 .so3 .cnil)) (.ccons 1 (.ccons 1 (.rv [0] [1]) (.ccons 1 .so3 .cnil)) .cnil)

theorem exBodies_ok : boundsOk exBodies ∧ weightsNonneg exBodies ∧ validPath exBodies [1, 1] = true := by
  refine ⟨?_, ?_, ?_⟩
  · simp [exBodies, boundsOk, rvOk]
  · simp [exBodies, weightsNonneg]
  · simp [exBodies, validPath, hasComp, comp]

-- non-vacuity: near-sampling the nested path [1, 1] with radius 0.3, caller passing state == near
example (R : Rng ℝ) (hR : drawsOk R) (st : OmplModel.St ℝ) (h : satisfiesBounds exBodies st = true) :
    satisfiesBounds exBodies (subspaceNear R exBodies [1, 1] st st (3 / 10) {}).1 = true :=
  (subspace_sampler_inbounds R hR exBodies [1, 1] exBodies_ok.2.2 exBodies_ok.1 exBodies_ok.2.1 st h {}).2.1
    st _ (by norm_num) h

/-- [AF] Alias safety of SubspaceStateSampler::sampleUniformNear / sampleGaussian as coded (program over named state
slots; `inner b x` is the inner sampler's result on input `x`, told by `b` whether its output slot IS its input slot,
behaving arbitrarily differently then — cf. F77): the inner sampler is always called with distinct scratch states
(`b = false`), and the result in the caller's `state` is the functional model's, also when the caller passes
`state == near` (`nearSlot = Slot.state`).  The in-place variant (seeded change s1) calls the inner sampler aliased. -/
theorem subspace_sampler_alias_safe {α : Type} [Num α] (inner : Bool → OmplModel.St α → OmplModel.St α)
    (path : List Nat) (m : Mem α) :
    (run inner path m (subNearProg .near)) .state = setAt (m .state) path (inner false (getAt (m .near) path)) ∧
    (run inner path m (subNearProg .state)) .state = setAt (m .state) path (inner false (getAt (m .state) path)) ∧
    (run inner path m (subNearProgInPlace .near)) .state = setAt (m .state) path (inner true (getAt (m .near) path)) := by
  refine ⟨?_, ?_, ?_⟩ <;> simp [run, subNearProg, subNearProgInPlace, exec, Mem.set]

/-! ### the special spaces' samplers `[EX]` -/

/-- [EX] Torus and Klein-bottle `sampleUniform` with their rejection loops as coded: whatever iteration is accepted, the
state written is in bounds (Sphere: direct parameter draws, Möbius: compound default sampler — both already in
`sampler_inbounds_uniform`; near / Gaussian of all four = draw then `enforceBounds`: `sampler_inbounds_near/_gaussian`). -/
theorem special_sampler_inbounds (R : Rng ℝ) (hR : drawsOk R) (Rr r : ℝ) (fuel : Nat) (p : Pos) :
    (∀ s p', (torusUniformRej R Rr r fuel p).2 = some (s, p') → satisfiesBounds (.torus Rr r) s = true) ∧
    (∀ s p', (kleinUniformRej R fuel p).2 = some (s, p') → satisfiesBounds (.klein : Space ℝ) s = true) ∧
    (∀ rad, satisfiesBounds (.sphere rad) (sampleUniform R (.sphere rad) p).1 = true) ∧
    (∀ imax rad, 0 ≤ imax → satisfiesBounds (.mobius imax rad) (sampleUniform R (.mobius imax rad) p).1 = true) := by
  refine ⟨?_, ?_, fun rad => sampler_inbounds_uniform R hR _ _ trivial,
    fun imax rad h => sampler_inbounds_uniform R hR _ _ h⟩
  · intro s p' h
    unfold torusUniformRej at h
    split at h <;> simp at h
    rw [← h.1]; exact sampler_inbounds_uniform R hR _ _ trivial
  · intro s p' h
    unfold kleinUniformRej at h
    split at h <;> simp at h
    rw [← h.1]; exact sampler_inbounds_uniform R hR _ _ trivial

/-- [AF] Termination of the rejection loops, stated as "returns at the first accepted draw": within `fuel` iterations the
loop reports iteration `j` exactly when `j` is accepted and every earlier iteration was rejected (none threw), and it
runs out of fuel exactly when all `fuel` iterations rejected.  That some iteration IS eventually accepted (acceptance
probability > 0 over the RNG's distribution) is a probabilistic statement about the draws and is not provable here;
the C++ loop has no bound. -/
theorem rejection_returns_first_accepted (step : Nat → Option Bool) (fuel j : Nat) :
    (rejFirst step fuel 0 = .found j ↔
      (j < fuel ∧ step j = some true ∧ ∀ m, m < j → step m = some false)) ∧
    (rejFirst step fuel 0 = .exhausted ↔ ∀ m, m < fuel → step m = some false) := by
  constructor
  · rw [rejFirst_found_iff]; simp
  · rw [rejFirst_exhausted_iff]; simp

-- non-vacuity: a step function that rejects twice and then accepts
example : rejFirst (fun i => some (decide (2 ≤ i))) 10 0 = .found 2 := by decide

/-- [EX] the Torus loop accepts an iteration whenever its `mu` draw is 0 and `0 < r ≤ R` (so acceptance is possible for
every major/minor radius the space allows; it says nothing about probability) -/
theorem torus_accepts_mu_zero (R : Rng ℝ) (Rr r : ℝ) (hr : 0 < r) (hRr : r ≤ Rr) (k : Nat) (h0 : R.u (k + 2) = 0) :
    torusAccept R Rr r k = true := by
  unfold torusAccept
  simp only [uniformReal_val, h0, Num.ofNat, Nat.cast_zero, Nat.cast_one, Num.cos, decide_eq_true_eq]
  have hc := Real.neg_one_le_cos ((Num.pi - -Num.pi) * R.u (k + 1) + -Num.pi)
  have hpos : 0 < Rr + r := by linarith
  have hn : 0 ≤ Rr + r * Real.cos ((Num.pi - -Num.pi) * R.u (k + 1) + -Num.pi) := by nlinarith
  have := div_nonneg hn hpos.le
  linarith

/-! ### `RNG::uniformInt` (the draw behind DiscreteStateSampler::sampleUniform) -/

/-- [EX] `uniformInt(lo, hi)` as coded after fix ebb35683a (`floor(uniformReal(lo, hi + 1))`, the clamp taken in `double`,
then the cast; with the unbounded `Int` of the model the value equals the cast-then-clamp form) is in `[lo, hi]` for EVERY draw
value `0 ≤ u` — in particular for `u = 1` and beyond: the clamp makes the upper bound unconditional (no hypothesis on
`u` at all); the lower bound needs only `0 ≤ u`. -/
theorem uniformInt_in_range (lo hi : Int) (h : lo ≤ hi) (u : ℝ) :
    uniformInt lo hi u ≤ hi ∧ (0 ≤ u → lo ≤ uniformInt lo hi u) := by
  rw [uniformInt_val]
  constructor
  · split_ifs <;> omega
  · intro h0
    have hc : (lo : ℝ) ≤ (hi : ℝ) := by exact_mod_cast h
    have hlo : (lo : ℝ) ≤ uniformReal (Num.ofInt lo) (Num.ofInt hi + Num.ofNat 1) u := by
      simp only [uniformReal_val, Num.ofInt, Num.ofNat, Nat.cast_one]
      nlinarith
    have hfl : lo ≤ ⌊uniformReal (Num.ofInt lo) (Num.ofInt hi + Num.ofNat 1) u⌋ := Int.le_floor.mpr hlo
    split_ifs <;> omega

/-- [EX] the same with IEEE rounding made explicit, stating exactly which rounding facts are used: the rounding of the
product is monotone and keeps 0, the rounding of the sum is monotone and keeps `lo` (every `int` is a double).  Nothing
is assumed about how far the sum is rounded — it may round up to `hi + 1` (it does: see the witness) — because the clamp
absorbs that.  (Not modelled: the `(int)` cast of a double ≥ 2³¹, which is undefined behaviour — finding F165.) -/
theorem uniformInt_in_range_rounded (rm ra : ℝ → ℝ) (hrm : Monotone rm) (hrm0 : rm 0 = 0) (hra : Monotone ra)
    (lo hi : Int) (hralo : ra lo = lo) (h : lo ≤ hi) (u : ℝ) (h0 : 0 ≤ u) :
    lo ≤ uniformIntRnd rm ra lo hi u ∧ uniformIntRnd rm ra lo hi u ≤ hi := by
  unfold uniformIntRnd
  have hc : (lo : ℝ) ≤ (hi : ℝ) := by exact_mod_cast h
  have hx : 0 ≤ ((hi : ℝ) + 1 - lo) * u := mul_nonneg (by linarith) h0
  have h1 : 0 ≤ rm (((hi : ℝ) + 1 - lo) * u) := by rw [← hrm0]; exact hrm hx
  have h2 : (lo : ℝ) ≤ ra (rm (((hi : ℝ) + 1 - lo) * u) + lo) := by
    calc (lo : ℝ) = ra lo := hralo.symm
      _ ≤ ra (rm (((hi : ℝ) + 1 - lo) * u) + lo) := hra (by linarith)
  have hfl : lo ≤ ⌊ra (rm (((hi : ℝ) + 1 - lo) * u) + lo)⌋ := Int.le_floor.mpr h2
  simp only []
  constructor <;> split_ifs <;> omega

/-- [EX] Witness for seeded change s4: WITHOUT the clamp, under exactly those rounding facts (exact product — `u` itself is
a double —, round-to-nearest on the 2⁻²² grid of the doubles around 2³⁰ for the sum), `lo = hi = 2³⁰` and the largest
draw `u = 1 - 2⁻⁵³ = nextafter(1, 0)` give `2³⁰ + 1 > hi`.  (The same input is executed at `Float` by the driver on every
run — `nc=1073741825` — and against the real inline function; a kernel proof about `Float` itself is impossible without
`native_decide`: `Float` arithmetic is opaque to the kernel.) -/
theorem uniformInt_without_clamp_exceeds :
    Monotone (id : ℝ → ℝ) ∧ (id : ℝ → ℝ) 0 = 0 ∧ Monotone rndGrid22 ∧ rndGrid22 ((1073741824 : Int) : ℝ) = ((1073741824 : Int) : ℝ) ∧
    uniformIntRndNoClamp id rndGrid22 1073741824 1073741824 (1 - 1 / 9007199254740992) = 1073741825 ∧
    uniformIntRnd id rndGrid22 1073741824 1073741824 (1 - 1 / 9007199254740992) = 1073741824 := by
  have hv : rndGrid22 ((((1073741824 : Int) : ℝ) + 1 - ((1073741824 : Int) : ℝ)) * (1 - 1 / 9007199254740992) +
      ((1073741824 : Int) : ℝ)) = 1073741825 := by
    unfold rndGrid22
    have : ⌊((((1073741824 : Int) : ℝ) + 1 - ((1073741824 : Int) : ℝ)) * (1 - 1 / 9007199254740992) +
        ((1073741824 : Int) : ℝ)) * 4194304 + 1 / 2⌋ = 4503599631564800 := by
      rw [Int.floor_eq_iff]; push_cast; constructor <;> norm_num
    rw [this]; norm_num
  refine ⟨monotone_id, rfl, rndGrid22_mono, by push_cast; exact rndGrid22_two30, ?_, ?_⟩
  · unfold uniformIntRndNoClamp
    simp only [id]
    rw [hv, Int.floor_eq_iff]; constructor <;> norm_num
  · unfold uniformIntRnd
    simp only [id]
    rw [hv]
    have : ⌊(1073741825 : ℝ)⌋ = 1073741825 := by rw [Int.floor_eq_iff]; constructor <;> norm_num
    rw [this]; norm_num

/-! ### shipped samplers that no space allocates, and `RNG::halfNormal*` `[EX]` -/

/-- [EX] `HaltonSequence1D::sample()` as coded lies in `[0, 1)` for every base `≥ 2` and every index (loop invariant
`r + f ≤ 1`, `f > 0`); hence the SO(2), R^n and SE(2) DeterministicStateSamplers over Halton sequences — and over any
sequence with values in `[0, 1)` (SO(2)) resp. `[0, 1]` (R^n) — produce in-bounds states. -/
theorem deterministic_sampler_inbounds :
    (∀ (b i : Nat), 2 ≤ b → 0 ≤ (halton1D b i : ℝ) ∧ (halton1D b i : ℝ) < 1) ∧
    (∀ s : ℝ, 0 ≤ s → s < 1 → so2Sat (detSO2 s) = true) ∧
    (∀ lo hi xs : List ℝ, rvOk lo hi → unitList xs → rvSat lo hi (detRv lo hi xs) = true) :=
  ⟨halton1D_mem, fun _ h0 h1 => detSO2_sat h0 h1, detRv_sat⟩

/-- [EX] boundary class: the sequence value 1 (possible in a user's PrecomputedSequence, never produced by Halton) is mapped by
SO2DeterministicStateSampler to `+π`, which is outside `[-π, π)`; R^n maps it to `high`, in bounds.  (Observation, not
recorded as a finding: the contract of DeterministicSequence does not say whether 1 is a legal value.) -/
theorem deterministic_so2_value_one_out : so2Sat (detSO2 (1 : ℝ)) = false := by
  have : detSO2 (1 : ℝ) = Real.pi := by simp only [detSO2, pi_val, Num.ofNat, Nat.cast_ofNat]; ring
  rw [this]
  cases h : so2Sat Real.pi
  · rfl
  · rw [so2Sat_iff] at h; exact absurd h.2 (lt_irrefl _)

/-- [EX] `RNG::halfNormalReal` is in `[r_min, r_max]` for every Gaussian draw and every focus, `halfNormalInt` in
`[r_min, r_max]` (as fixed by b4cb23619: clamp in `double`, then the cast; findings F167 / F204 were the `(int)` cast of 2³¹
for `r_max = INT_MAX` in the cast-then-clamp form; the model's `Int` does not overflow). -/
theorem halfNormal_in_range :
    (∀ (rmin rmax : ℝ), rmin ≤ rmax → ∀ focus g : ℝ,
      rmin ≤ halfNormalReal rmin rmax focus g ∧ halfNormalReal rmin rmax focus g ≤ rmax) ∧
    (∀ (rmin rmax : Int), rmin ≤ rmax → ∀ focus g : ℝ,
      rmin ≤ halfNormalInt rmin rmax focus g ∧ halfNormalInt rmin rmax focus g ≤ rmax) :=
  ⟨fun _ _ h f g => halfNormalReal_mem h f g, fun _ _ h f g => halfNormalInt_mem h f g⟩

/-- [EX] PrecomputedStateSampler::sampleUniformNear on R^n: with the stored state and `near` inside the box and a
NON-NEGATIVE distance the result is inside the box (convexity; `sampleUniform` copies a stored state). -/
theorem precomputed_near_inbounds (lo hi near s : List ℝ) (hn : rvIn lo hi near) (hs : rvIn lo hi s) (d : ℝ) (hd : 0 ≤ d) :
    rvSat lo hi (preNearRv near s d) = true :=
  rvIn_sat lo hi _ (preNearRv_in lo hi near s hn hs hd)

/-- [EX] PrecomputedStateSampler::sampleGaussian as fixed by cf0cbdaed (F166) on R^n: mean and stored state inside the box ->
the result is inside the box for EVERY Gaussian draw and every σ (the magnitude of the draw is the distance). -/
theorem precomputed_gaussian_inbounds (lo hi mean s : List ℝ) (hm : rvIn lo hi mean) (hs : rvIn lo hi s) (sd g : ℝ) :
    rvSat lo hi (preGaussRv mean s sd g) = true :=
  rvIn_sat lo hi _ (preGaussRv_in lo hi mean s hm hs sd g)

/-- [EX] Finding F166, the code BEFORE cf0cbdaed: the SIGNED draw `gaussian(0, σ)` was the distance; for `R¹ = [0, 1]`, mean `0`,
stored state `1`, `σ = 1/2` and the draw `g = -1` the result is `-1/2`, out of bounds (the fixed code gives `1/2`). -/
theorem precomputed_gaussian_old_negative_fails :
    rvIn [0] [1] [0] ∧ rvIn [0] [1] [1] ∧ preGaussRvOld [0] [1] (1 / 2 : ℝ) (-1) = [-(1 / 2)] ∧
    rvSat [0] [1] (preGaussRvOld [0] [1] (1 / 2 : ℝ) (-1)) = false := by
  have hd : preGaussRvOld [0] [1] (1 / 2 : ℝ) (-1) = [-(1 / 2)] := by
    have hs : Real.sqrt ((0 : ℝ) + (0 - 1) * (0 - 1)) = 1 := by norm_num
    simp only [preGaussRvOld, preNearRv, gaussian_val, rvDistSq, Num.sqrt, Num.ofNat, Nat.cast_zero, hs]
    rw [if_pos (by norm_num)]
    simp only [rvInterp]
    norm_num
  refine ⟨by simp [rvIn], by simp [rvIn], hd, ?_⟩
  rw [hd]
  have e := eps_val
  cases h : rvSat [0] [1] [-(1 / 2 : ℝ)]
  · rfl
  · simp only [rvSat, Bool.and_true, rvSat1_iff] at h
    rw [e] at h
    norm_num at h

/-! ### valid-state samplers `[AF]`

`Validated s s' x c` : among the validity queries recorded between oracle states `s` and `s'` there is one about
the state `x` that was answered `true` (with clearance `c`).  The theorems hold for every state type `σ`, every
clearance type `κ`, every oracle (sample stream, answer stream — not necessarily consistent with a predicate) and
every attempt limit; by parametricity in `σ` the witness query is the one made on the returned state object.
`validSampler_valid` specialises them to an oracle that answers by a predicate. -/
section
variable {σ δ κ : Type}

/-- UniformValidStateSampler::sample / sampleNear -/
theorem validSampler_sound_uniform (o : Orc σ δ κ) (c : Call σ δ) (attempts : Nat) (s : OS σ δ κ) :
    (uniformV o c attempts s).ok = true →
    ∃ k, Validated s (uniformV o c attempts s).os (uniformV o c attempts s).st k :=
  uniformV_sound o c attempts s

/-- GaussianValidStateSampler: returns `state` if `v1 ∧ ¬v2`, `temp` if `¬v1 ∧ v2` -/
theorem validSampler_sound_gaussian (o : Orc σ δ κ) (c : Call σ δ) (sd : δ) (attempts : Nat) (s : OS σ δ κ) :
    (gaussV o c sd attempts s).ok = true →
    ∃ k, Validated s (gaussV o c sd attempts s).os (gaussV o c sd attempts s).st k :=
  gaussV_sound o c sd attempts s

/-- ObstacleBasedValidStateSampler as fixed by 96c4da7bb (`if (fail.second == 0.0) copyState(state, temp)` after
DiscreteMotionValidator::checkMotion(temp, state, fail)), for every interpolation function — the hypothesis
`interpolate(a, b, 0) = a` is gone.  What remains assumed: `validSegmentCount ≥ 1` (it is 0 only for two states at
distance 0, where the code computes `lastValid.second = -1/0` and interpolates at `-inf`). -/
theorem validSampler_sound_obstacleBased (o : Orc σ δ κ) (segs : σ → σ → Nat) (interp : σ → σ → Nat → Nat → σ)
    (hseg : ∀ a b, 1 ≤ segs a b) (c : Call σ δ) (attempts : Nat) (s : OS σ δ κ) :
    (obstacleV o segs interp c attempts s).ok = true →
    ∃ k, Validated s (obstacleV o segs interp c attempts s).os (obstacleV o segs interp c attempts s).st k :=
  obstacleV_sound o segs interp hseg c attempts s

/-- the code before the fix was sound only for interpolation functions with `interpolate(a, b, 0) = a` -/
theorem obstacleBased_old_sound_partial (o : Orc σ δ κ) (segs : σ → σ → Nat) (interp : σ → σ → Nat → Nat → σ)
    (h0 : ∀ a b n, interp a b 0 n = a) (c : Call σ δ) (attempts : Nat) (s : OS σ δ κ) :
    (obstacleVOld o segs interp c attempts s).ok = true →
    ∃ k, Validated s (obstacleVOld o segs interp c attempts s).os (obstacleVOld o segs interp c attempts s).st k :=
  obstacleVOld_sound o segs interp h0 c attempts s

/-- witness oracle of finding F27: first sample (10) invalid, second (11) valid, three segments, the first interpolated
state invalid; `interp` at index 0 gives 100, not its first argument (as SO(3) slerp at t = 0 is an ulp off) -/
def f27Orc : Orc Nat Nat Nat := ⟨fun k _ => 10 + k, fun k => (k == 1, 0)⟩
def f27Interp : Nat → Nat → Nat → Nat → Nat := fun _ _ j _ => 100 + j

/-- F27 (fixed by 96c4da7bb): the old code returned with success a state that was never validity-checked -/
theorem obstacleBased_old_returns_unvalidated :
    (obstacleVOld f27Orc (fun _ _ => 3) f27Interp .uniform 4 {}).ok = true ∧
    (obstacleVOld f27Orc (fun _ _ => 3) f27Interp .uniform 4 {}).st = 100 ∧
    ∀ e ∈ (obstacleVOld f27Orc (fun _ _ => 3) f27Interp .uniform 4 {}).os.log, e.1 ≠ 100 := by decide

-- the fixed code returns the validated `temp` (11) on the same oracle
example : (obstacleV f27Orc (fun _ _ => 3) f27Interp .uniform 4 {}).st = 11 ∧
    (11, true, 0) ∈ (obstacleV f27Orc (fun _ _ => 3) f27Interp .uniform 4 {}).os.log := by decide

/-- BridgeTestValidStateSampler: the returned midpoint is the state that was tested last -/
theorem validSampler_sound_bridgeTest (o : Orc σ δ κ) (mid : σ → σ → σ) (c : Call σ δ) (sd : δ) (attempts : Nat)
    (s : OS σ δ κ) : (bridgeV o mid c sd attempts s).ok = true →
    ∃ k, Validated s (bridgeV o mid c sd attempts s).os (bridgeV o mid c sd attempts s).st k :=
  (bridgeV_ext_sound o mid c sd attempts s).2

/-- MaximizeClearanceValidStateSampler, any number of improvement attempts -/
theorem validSampler_sound_maximizeClearance (o : Orc σ δ κ) (lt : κ → κ → Bool) (c : Call σ δ) (attempts improve : Nat)
    (s : OS σ δ κ) : (maxClearV o lt c attempts improve s).ok = true →
    ∃ k, Validated s (maxClearV o lt c attempts improve s).os (maxClearV o lt c attempts improve s).st k :=
  maxClearV_sound o lt c attempts improve s

/-- MinimumClearanceValidStateSampler: valid, and the recorded clearance is not below the bound -/
theorem validSampler_sound_minimumClearance (o : Orc σ δ κ) (lt : κ → κ → Bool) (clearance : κ) (c : Call σ δ)
    (attempts : Nat) (s : OS σ δ κ) : (minClearV o lt clearance c attempts s).ok = true →
    ∃ k, Validated s (minClearV o lt clearance c attempts s).os (minClearV o lt clearance c attempts s).st k ∧
      lt k clearance = false :=
  minClearV_sound o lt clearance c attempts s

/-- if the checker answers by a predicate (every recorded answer equals `valid` of the queried state), a validated
state is valid: "every state a valid-state sampler returns with success is valid", for every validity predicate -/
theorem validSampler_valid (valid : σ → Bool) (s s' : OS σ δ κ) (x : σ) (k : κ)
    (hcons : ∀ e ∈ s'.log, e.2.1 = valid e.1) (h : Validated s s' x k) : valid x = true := by
  obtain ⟨new, e, m⟩ := h
  have := hcons (x, true, k) (by rw [e]; exact List.mem_append_left _ m)
  exact this.symm

-- non-vacuity: an oracle whose second sample is valid; Uniform with 3 attempts succeeds with that sample
example : (uniformV (σ := Nat) (δ := Nat) (κ := Nat) ⟨fun k _ => 10 + k, fun k => (k == 1, 0)⟩ .uniform 2 {}).ok = true ∧
    (uniformV (σ := Nat) (δ := Nat) (κ := Nat) ⟨fun k _ => 10 + k, fun k => (k == 1, 0)⟩ .uniform 2 {}).st = 11 := by decide
-- Gaussian returns `temp` when only the second answer is `true`
example : (gaussV (σ := Nat) (δ := Nat) (κ := Nat) ⟨fun k _ => 10 + k, fun k => (k == 1, 0)⟩ .uniform 7 0 {}).st = 11 := by decide
-- ObstacleBased: invalid 10, valid 11, motion 11 -> 10 with 3 segments fails at the second test state: returns the first
example : (obstacleV (σ := Nat) (δ := Nat) (κ := Nat) ⟨fun k _ => 10 + k, fun k => (k == 1 || k == 2, 0)⟩ (fun _ _ => 3)
    (fun a _ j _ => if j = 0 then a else 100 + j) .uniform 4 {}).st = 101 := by decide
end


/-! ### round 10: the IN-BOUNDS clause of the valid-state samplers `[AF]`

"every state that a valid-state sampler returns with success is both in bounds and valid": `validSampler_sound_*` are the
"valid" half; these are the "in bounds" half.  `P` = satisfies the bounds, `D` = acceptable near-distance.  Hypothesis
`SamplerOk P D o`: the inner `StateSampler` keeps its contract — handed an in-bounds near / mean state and an acceptable
distance it writes an in-bounds state (that is `sampler_inbounds_uniform/_near/_gaussian`, see
`defaultSampler_keeps_contract`); `CallOk P D c`: the caller's own `near` is in bounds and its distance acceptable.
Conclusion, for every attempt limit and every stream of validity answers, success or not: the state left in `state`
satisfies `P`, AND (`CallsExt`) every call the valid-state sampler made to the inner sampler had acceptable arguments —
e.g. the mean of the Gaussian step is the state sampled just before, never `temp` or a stale state.  The model records the
arguments (`Call.near c d`, `Call.gauss m sd`) and the `vsa` lock-step compares them with what the real samplers pass. -/
section
variable {σ δ κ : Type} {P : σ → Prop} {D : δ → Prop}

/-- UniformValidStateSampler::sample / sampleNear -/
theorem validSampler_inbounds_uniform (o : Orc σ δ κ) (ho : SamplerOk P D o) (c : Call σ δ) (hc : CallOk P D c)
    (attempts : Nat) (s : OS σ δ κ) :
    P (uniformV o c attempts s).st ∧ CallsExt P D s (uniformV o c attempts s).os := uniformV_inb ho hc attempts s

/-- GaussianValidStateSampler (`state` or `temp`; the Gaussian draw's mean is the in-bounds `state`), every sigma -/
theorem validSampler_inbounds_gaussian (o : Orc σ δ κ) (ho : SamplerOk P D o) (c : Call σ δ) (hc : CallOk P D c) (sd : δ)
    (attempts : Nat) (s : OS σ δ κ) :
    P (gaussV o c sd attempts s).st ∧ CallsExt P D s (gaussV o c sd attempts s).os := gaussV_inb ho hc sd attempts s

/-- MinimumClearanceValidStateSampler -/
theorem validSampler_inbounds_minimumClearance (o : Orc σ δ κ) (ho : SamplerOk P D o) (lt : κ → κ → Bool) (cl : κ)
    (c : Call σ δ) (hc : CallOk P D c) (attempts : Nat) (s : OS σ δ κ) :
    P (minClearV o lt cl c attempts s).st ∧ CallsExt P D s (minClearV o lt cl c attempts s).os :=
  minClearV_inb ho lt cl hc attempts s

/-- MaximizeClearanceValidStateSampler, any number of improvement attempts -/
theorem validSampler_inbounds_maximizeClearance (o : Orc σ δ κ) (ho : SamplerOk P D o) (lt : κ → κ → Bool)
    (c : Call σ δ) (hc : CallOk P D c) (attempts improve : Nat) (s : OS σ δ κ) :
    P (maxClearV o lt c attempts improve s).st ∧ CallsExt P D s (maxClearV o lt c attempts improve s).os :=
  maxClearV_inb ho lt hc attempts improve s

/-- BridgeTestValidStateSampler: the returned state is `interpolate(endpoint, state, 0.5)`; in bounds for every space
whose `interpolate` maps two in-bounds states to an in-bounds state (`hmid`; R^n: `rv_interpolate_keeps_bounds`) -/
theorem validSampler_inbounds_bridgeTest (o : Orc σ δ κ) (ho : SamplerOk P D o) (mid : σ → σ → σ)
    (hmid : ∀ e x, P e → P x → P (mid e x)) (c : Call σ δ) (hc : CallOk P D c) (sd : δ) (attempts : Nat) (s : OS σ δ κ) :
    P (bridgeV o mid c sd attempts s).st ∧ CallsExt P D s (bridgeV o mid c sd attempts s).os :=
  bridgeV_inb ho mid hmid hc sd attempts s

/-- ObstacleBasedValidStateSampler (fixed code): `temp`, or `interpolate(temp, state, (j-1)/nd)` with `j - 1 ≤ nd` — the
index never leaves `[0, nd]` (proved: loop invariant `j + k ≤ nd`), so `hint` is only needed for `t ∈ [0, 1]` -/
theorem validSampler_inbounds_obstacleBased (o : Orc σ δ κ) (ho : SamplerOk P D o) (segs : σ → σ → Nat)
    (interp : σ → σ → Nat → Nat → σ) (hint : ∀ a b j n, j ≤ n → P a → P b → P (interp a b j n))
    (c : Call σ δ) (hc : CallOk P D c) (attempts : Nat) (s : OS σ δ κ) :
    P (obstacleV o segs interp c attempts s).st ∧ CallsExt P D s (obstacleV o segs interp c attempts s).os :=
  obstacleV_inb ho segs interp hint hc attempts s

-- non-vacuity: "in bounds" = `10 ≤ x`, an inner sampler that adds to its near / mean state; Gaussian with 2 attempts
-- returns `temp` = 10 + 10 + 1 (second answer true), in bounds, having handed the in-bounds 10 as mean
example : (gaussV (σ := Nat) (δ := Nat) (κ := Nat)
      ⟨fun k c => match c with | .uniform => 10 + k | .near x _ => x + k | .gauss m _ => m + 10 + k, fun k => (k == 1, 0)⟩
      .uniform 3 1 {}).st = 21 := by decide
example : SamplerOk (fun x : Nat => 10 ≤ x) (fun _ : Nat => True)
    (⟨fun k c => match c with | .uniform => 10 + k | .near x _ => x + k | .gauss m _ => m + 10 + k,
      fun k => (k == 1, 0)⟩ : Orc Nat Nat Nat) := by
  intro k c hc
  cases c with
  | uniform => simp
  | near x d => exact Nat.le_trans hc.1 (Nat.le_add_right _ _)
  | gauss m sd => have : 10 ≤ m := hc; simp only; omega

/-! #### SpaceInformation::searchValidNearby `[AF]` (both overloads; `sat` / `enforce` = the space's `satisfiesBounds` /
`enforceBounds`, `vss` = `sampleNear` of any valid-state sampler) -/

/-- success ⇒ a validity query of this call about the returned state was answered `true` (the enforced `near` itself, or
what the sampler returned), for every sampler that is itself sound -/
theorem searchValidNearby_sound (o : Orc σ δ κ) (sat : σ → Bool) (enforce : σ → σ)
    (vss : σ → δ → OS σ δ κ → VRes σ δ κ)
    (hv : ∀ c d s, (vss c d s).ok = true → ∃ k, Validated s (vss c d s).os (vss c d s).st k)
    (near : σ) (d : δ) (s : OS σ δ κ) :
    (searchNearbyV o sat enforce vss near d s).ok = true →
    ∃ k, Validated s (searchNearbyV o sat enforce vss near d s).os (searchNearbyV o sat enforce vss near d s).st k :=
  searchNearbyV_sound o sat enforce vss hv near d s

/-- for EVERY `near` (in bounds or not): if enforcing yields an in-bounds state (`enforce_inbounds`) and the sampler keeps
in-bounds centres in bounds, the state left in `state` satisfies the bounds and the sampler was handed an in-bounds near
state — the precondition of `sampler_inbounds_near` is ESTABLISHED by the glue, not assumed -/
theorem searchValidNearby_inbounds (o : Orc σ δ κ) (sat : σ → Bool) (enforce : σ → σ)
    (hE : ∀ x, sat (enforce x) = true) (vss : σ → δ → OS σ δ κ → VRes σ δ κ)
    (hv : ∀ c d s, sat c = true → D d →
      sat (vss c d s).st = true ∧ CallsExt (fun x => sat x = true) D s (vss c d s).os)
    (near : σ) (d : δ) (hd : D d) (s : OS σ δ κ) :
    sat (searchNearbyV o sat enforce vss near d s).st = true ∧
    CallsExt (fun x => sat x = true) D s (searchNearbyV o sat enforce vss near d s).os :=
  searchNearbyV_inb o sat enforce hE vss hv near d hd s

/-- the `(state, near, distance, attempts)` overload (short-circuit test, then a fresh UniformValidStateSampler) -/
theorem searchValidNearby_attempts_sound (o : Orc σ δ κ) (sat : σ → Bool) (enforce : σ → σ) (near : σ) (d : δ)
    (attempts : Nat) (s : OS σ δ κ) :
    (searchNearbyAttempts o sat enforce near d attempts s).ok = true →
    ∃ k, Validated s (searchNearbyAttempts o sat enforce near d attempts s).os
      (searchNearbyAttempts o sat enforce near d attempts s).st k :=
  searchNearbyAttempts_sound o sat enforce near d attempts s

theorem searchValidNearby_attempts_inbounds (o : Orc σ δ κ) (sat : σ → Bool) (enforce : σ → σ)
    (hE : ∀ x, sat (enforce x) = true) (ho : SamplerOk (fun x => sat x = true) D o)
    (near : σ) (d : δ) (hd : D d) (attempts : Nat) (s : OS σ δ κ) :
    sat (searchNearbyAttempts o sat enforce near d attempts s).st = true ∧
    CallsExt (fun x => sat x = true) D s (searchNearbyAttempts o sat enforce near d attempts s).os :=
  searchNearbyAttempts_inb o sat enforce hE ho near d hd attempts s

-- non-vacuity: bounds `10 ≤ x ≤ 20`, enforce = clamp; near = 99 is clamped to 20, answered invalid (k = 0), the
-- sampler's first near-sample (20 - 1) is answered valid
example : (searchNearbyAttempts (σ := Nat) (δ := Nat) (κ := Nat)
      ⟨fun _ c => match c with | .near x _ => x - 1 | _ => 15, fun k => (k == 1, 0)⟩
      (fun x => decide (10 ≤ x) && decide (x ≤ 20)) (fun x => if x < 10 then 10 else if 20 < x then 20 else x)
      99 3 4 {}).st = 19 := by decide
end

/-! #### the same over the modelled samplers of every space `[EX]` -/

/-- [EX] The modelled default sampler of every space with legal bounds keeps the contract the `[AF]` theorems assume:
with an in-bounds near / mean state and a non-negative near-distance (any sigma) its output satisfies the bounds, at
every position of the RNG streams. -/
theorem defaultSampler_keeps_contract {κ : Type} (R : Rng ℝ) (hR : drawsOk R) (sp : Space ℝ) (h : boundsOk sp)
    (pos : Nat → Pos) (ans : Nat → Bool × κ) :
    SamplerOk (fun x => satisfiesBounds sp x = true) (fun d : ℝ => 0 ≤ d) (defaultSamplerOrc R sp pos ans) := by
  intro k c hc
  cases c with
  | uniform => exact sampler_inbounds_uniform R hR sp _ h
  | near c d => exact sampler_inbounds_near R hR sp none c d _ h hc.2 hc.1
  | gauss m sd => exact sampler_inbounds_gaussian R hR sp none m sd _ h hc

/-- [EX] `searchValidNearby(state, near, distance, attempts)` over the default sampler of ANY space (nested compounds,
wrappers, SO(3), specials) with legal bounds, for EVERY `near` — far out of bounds, denormalised quaternion, many periods
away —, every `0 ≤ distance`, attempt limit, draw and validity answer: the state it leaves satisfies the bounds (clauses 1
and 2 of the property composed by the library's own glue: `enforce_inbounds` feeds `sampler_inbounds_near`), and on
success a query of this call about that state was answered `true`. -/
theorem searchValidNearby_inbounds_real {κ : Type} (R : Rng ℝ) (hR : drawsOk R) (sp : Space ℝ) (h : boundsOk sp)
    (pos : Nat → Pos) (ans : Nat → Bool × κ) (near : OmplModel.St ℝ) (d : ℝ) (hd : 0 ≤ d) (attempts : Nat)
    (s : OS (OmplModel.St ℝ) ℝ κ) :
    let r := searchNearbyAttempts (defaultSamplerOrc R sp pos ans) (satisfiesBounds sp) (enforceBounds sp) near d attempts s
    satisfiesBounds sp r.st = true ∧ (r.ok = true → ∃ k, Validated s r.os r.st k) :=
  ⟨(searchNearbyAttempts_inb (D := fun d : ℝ => 0 ≤ d) _ _ _ (fun x => enforce_inbounds sp x h)
      (defaultSampler_keeps_contract R hR sp h pos ans) near d hd attempts s).1,
   searchNearbyAttempts_sound _ _ _ near d attempts s⟩

-- non-vacuity: the compound of `exSpace`, a `near` state far outside (zero quaternion included)
example (R : Rng ℝ) (hR : drawsOk R) (pos : Nat → Pos) (ans : Nat → Bool × ℝ) :
    satisfiesBounds exSpace (searchNearbyAttempts (defaultSamplerOrc R exSpace pos ans) (satisfiesBounds exSpace)
      (enforceBounds exSpace) (.ccons (.rv [7, 7]) (.ccons (.so2 1000) (.ccons (.so3 0 0 0 0) .cnil))) 3 5 {}).st = true :=
  (searchValidNearby_inbounds_real R hR exSpace exSpace_ok pos ans _ 3 (by norm_num) 5 {}).1

/-- [EX] The six valid-state samplers over the modelled default sampler of any space with legal bounds, `sample` and
`sampleNear` (in-bounds `near`, `0 ≤ distance`), every sigma / attempt limit / clearance bound / answer stream: the state
left in `state` satisfies the bounds.  Gaussian, Uniform, MinimumClearance, MaximizeClearance outright; BridgeTest and
ObstacleBased for every `interpolate` that keeps two in-bounds states in bounds for `t ∈ [0,1]`. -/
theorem validSampler_inbounds_real {κ : Type} (R : Rng ℝ) (hR : drawsOk R) (sp : Space ℝ) (h : boundsOk sp)
    (pos : Nat → Pos) (ans : Nat → Bool × κ) (c : Call (OmplModel.St ℝ) ℝ)
    (hc : CallOk (fun x => satisfiesBounds sp x = true) (fun d : ℝ => 0 ≤ d) c) (sd : ℝ) (attempts improve : Nat)
    (lt : κ → κ → Bool) (cl : κ) (s : OS (OmplModel.St ℝ) ℝ κ) :
    let o := defaultSamplerOrc R sp pos ans
    satisfiesBounds sp (uniformV o c attempts s).st = true ∧
    satisfiesBounds sp (gaussV o c sd attempts s).st = true ∧
    satisfiesBounds sp (minClearV o lt cl c attempts s).st = true ∧
    satisfiesBounds sp (maxClearV o lt c attempts improve s).st = true ∧
    (∀ mid : OmplModel.St ℝ → OmplModel.St ℝ → OmplModel.St ℝ,
      (∀ e x, satisfiesBounds sp e = true → satisfiesBounds sp x = true → satisfiesBounds sp (mid e x) = true) →
      satisfiesBounds sp (bridgeV o mid c sd attempts s).st = true) ∧
    (∀ (segs : OmplModel.St ℝ → OmplModel.St ℝ → Nat) (interp : OmplModel.St ℝ → OmplModel.St ℝ → Nat → Nat → OmplModel.St ℝ),
      (∀ a b j n, j ≤ n → satisfiesBounds sp a = true → satisfiesBounds sp b = true →
        satisfiesBounds sp (interp a b j n) = true) →
      satisfiesBounds sp (obstacleV o segs interp c attempts s).st = true) := by
  have ho := defaultSampler_keeps_contract R hR sp h pos ans
  exact ⟨(uniformV_inb ho hc attempts s).1, (gaussV_inb ho hc sd attempts s).1, (minClearV_inb ho lt cl hc attempts s).1,
    (maxClearV_inb ho lt hc attempts improve s).1,
    fun mid hmid => (bridgeV_inb ho mid hmid hc sd attempts s).1,
    fun segs interp hint => (obstacleV_inb ho segs interp hint hc attempts s).1⟩

/-- [EX] `RealVectorStateSpace::interpolate` (`from + (to - from) * t`) keeps the `eps`-slack box of `satisfiesBounds`:
the BridgeTest midpoint (`t = 1/2`) and every `lastValid` state of `checkMotion` (`t = j/nd`, `j ≤ nd`) — the closure
hypotheses of `validSampler_inbounds_bridgeTest` / `_obstacleBased` hold on R^n.
FULL statement (not proved here): the same for `interpolate` of every space; that is C07's model (`interp_inbounds_all`
in C07's own in-bounds predicate, without the `eps` slack) — the two predicates are not unified, so beyond R^n the
midpoint's bounds are covered by the `vreal` oracle (`badBounds = 0`) only. -/
theorem rv_interpolate_keeps_bounds_partial (lo hi : List ℝ) :
    (∀ e x, rvSat lo hi e = true → rvSat lo hi x = true → rvSat lo hi (rvInterp (1 / 2) e x) = true) ∧
    (∀ a b (j n : Nat), j ≤ n → rvSat lo hi a = true → rvSat lo hi b = true →
      rvSat lo hi (rvInterp ((j : ℝ) / (n : ℝ)) a b) = true) := by
  refine ⟨fun e x he hx => rvInterp_sat (by norm_num) (by norm_num) lo hi e x he hx, fun a b j n hj ha hb => ?_⟩
  have h0 : (0 : ℝ) ≤ (j : ℝ) / (n : ℝ) := div_nonneg (Nat.cast_nonneg j) (Nat.cast_nonneg n)
  have h1 : (j : ℝ) / (n : ℝ) ≤ 1 := by
    rcases Nat.eq_zero_or_pos n with hn | hn
    · subst hn; simp
    · rw [div_le_one (by exact_mod_cast hn)]; exact_mod_cast hj
  exact rvInterp_sat h0 h1 lo hi a b ha hb

-- non-vacuity: BridgeTest on the box [0,1]² with the R^n midpoint: in bounds for every in-bounds-keeping inner sampler
example (o : Orc (List ℝ) ℝ ℝ) (ho : SamplerOk (fun x => rvSat [0, 0] [1, 1] x = true) (fun d : ℝ => 0 ≤ d) o)
    (attempts : Nat) : rvSat [0, 0] [1, 1] (bridgeV o (rvInterp (1 / 2)) .uniform 3 attempts {}).st = true :=
  (validSampler_inbounds_bridgeTest o ho _ (rv_interpolate_keeps_bounds_partial [0, 0] [1, 1]).1 .uniform trivial 3
    attempts {}).1

/-- [EX] round 10 (weakness fixed): `precomputed_near_inbounds` / `_gaussian_inbounds` assume the EXACT box (`rvIn`) for
`near` and the stored state, but states that merely satisfy `satisfiesBounds` (its `eps` slack: `hi + eps` is "in bounds")
are what the library hands over.  The same conclusions from `rvSat` itself (the slack box is convex too): -/
theorem precomputed_inbounds_slack (lo hi near s : List ℝ) (hn : rvSat lo hi near = true) (hs : rvSat lo hi s = true) :
    (∀ d : ℝ, 0 ≤ d → rvSat lo hi (preNearRv near s d) = true) ∧
    (∀ sd g : ℝ, rvSat lo hi (preGaussRv near s sd g) = true) := by
  have key : ∀ d : ℝ, 0 ≤ d → rvSat lo hi (preNearRv near s d) = true := by
    intro d hd
    unfold preNearRv
    simp only []
    split_ifs with h
    · have hpos : (0 : ℝ) < Num.sqrt (rvDistSq near s (Num.ofNat 0)) := lt_of_le_of_lt hd h
      exact rvInterp_sat (div_nonneg hd hpos.le) ((div_le_one hpos).2 h.le) lo hi near s hn hs
    · exact hs
  exact ⟨key, fun sd g => key _ (abs_nonneg _)⟩

-- non-vacuity: near = hi + eps/2 (outside the exact box, inside the slack box)
example : rvSat [0] [1] (preNearRv [1 + eps / 2] [(0 : ℝ)] (1 / 4)) = true :=
  (precomputed_inbounds_slack [0] [1] [1 + eps / 2] [0]
    (by simp only [rvSat, Bool.and_true, rvSat1_iff]; constructor <;> linarith [eps_pos])
    (by simp only [rvSat, Bool.and_true, rvSat1_iff]; constructor <;> linarith [eps_pos])).1 _ (by norm_num)

/-! ### samplers of the constrained spaces (wrapped samplers) `[EX]` -/

/-- [EX] ProjectedStateSampler (and AtlasStateSampler, which also ends with `enforceBounds`): as coded — project, THEN
clamp — the returned state satisfies the bounds of the ambient space (any space with legal bounds) for ANY projection
function and any ambient sample: nothing is assumed about the constraint, its Newton iteration or whether it converged. -/
theorem projected_sampler_inbounds (sp : Space ℝ) (h : boundsOk sp) (project : OmplModel.St ℝ → OmplModel.St ℝ)
    (ambient : OmplModel.St ℝ) : satisfiesBounds sp (projectedSample sp project ambient) = true :=
  enforce_inbounds sp _ h

/-- [EX] witness for seeded change s6 (clamp first, project last): the line `y = x` in the box `x ∈ [-2,2]`, `y ∈ [-1/2,1/2]`
(the box cuts the manifold), orthogonal projection, the in-bounds ambient sample `(2, 1/2)`: clamp-first returns
`(5/4, 5/4)`, out of bounds; the code as it is returns `(5/4, 1/2)`. -/
noncomputable def lineProj : OmplModel.St ℝ → OmplModel.St ℝ
  | .rv [a, b] => .rv [(a + b) / 2, (a + b) / 2]
  | s => s

theorem projected_sampler_clamp_first_fails :
    rvOk [-2, -(1 / 2)] [2, (1 / 2 : ℝ)] ∧
    satisfiesBounds (.rv [-2, -(1 / 2)] [2, (1 / 2 : ℝ)]) (.rv [2, 1 / 2]) = true ∧
    projectedSampleClampFirst (.rv [-2, -(1 / 2)] [2, (1 / 2 : ℝ)]) lineProj (.rv [2, 1 / 2]) = .rv [5 / 4, 5 / 4] ∧
    satisfiesBounds (.rv [-2, -(1 / 2)] [2, (1 / 2 : ℝ)])
      (projectedSampleClampFirst (.rv [-2, -(1 / 2)] [2, (1 / 2 : ℝ)]) lineProj (.rv [2, 1 / 2])) = false ∧
    projectedSample (.rv [-2, -(1 / 2)] [2, (1 / 2 : ℝ)]) lineProj (.rv [2, 1 / 2]) = .rv [5 / 4, 1 / 2] := by
  have e := eps_val
  have hc : projectedSampleClampFirst (.rv [-2, -(1 / 2)] [2, (1 / 2 : ℝ)]) lineProj (.rv [2, 1 / 2]) = .rv [5 / 4, 5 / 4] := by
    simp only [projectedSampleClampFirst, enforceBounds, enfRv, St.vals, rvEnforce, clampHL]
    norm_num [lineProj]
  refine ⟨⟨by norm_num, by norm_num, trivial⟩, ?_, hc, ?_, ?_⟩
  · simp only [satisfiesBounds, St.vals, rvSat, Bool.and_true, Bool.and_eq_true, rvSat1_iff]
    rw [e]; norm_num
  · rw [hc]
    cases hh : satisfiesBounds (.rv [-2, -(1 / 2)] [2, (1 / 2 : ℝ)]) (.rv [5 / 4, 5 / 4])
    · rfl
    · simp only [satisfiesBounds, St.vals, rvSat, Bool.and_true, Bool.and_eq_true, rvSat1_iff] at hh
      rw [e] at hh; norm_num at hh
  · simp only [projectedSample, lineProj, enforceBounds, enfRv, St.vals, rvEnforce, clampHL]
    norm_num

-- non-vacuity of `projected_sampler_inbounds`: the same box and projection
example : satisfiesBounds (.rv [-2, -(1 / 2)] [2, (1 / 2 : ℝ)])
    (projectedSample (.rv [-2, -(1 / 2)] [2, (1 / 2 : ℝ)]) lineProj (.rv [2, 1 / 2])) = true :=
  projected_sampler_inbounds (.rv [-2, -(1 / 2)] [2, (1 / 2 : ℝ)]) projected_sampler_clamp_first_fails.1 _ _

/-! ### `RNG::uniformReal` on a pinned coordinate (`low == high`) -/

/-- [EX] `uniformReal(a, a)` as coded — `(b - a) * u + a` — returns `a` EXACTLY for every draw, also with the two IEEE
roundings explicit (`rm` for the product, `ra` for the sum): the only rounding facts used are `rm 0 = 0` and `ra a = a`
(`a` is a double; `a - a = 0` is exact).  So a pinned coordinate (zero-width bound, any magnitude) is reproduced bit for
bit and satisfies `satisfiesBounds`, whose tolerance is an ABSOLUTE `eps`.  The second part is the witness for seeded
change s7 (`(1-u)*lo + u*hi`): under round-to-nearest on a 2⁻²² grid (halves up) the blend of `5` with itself at
`u = 2⁻²³/5` is `5 + 2⁻²²`, one grid step off. -/
theorem uniformReal_zero_width_exact (rm ra : ℝ → ℝ) (hrm0 : rm 0 = 0) (a u : ℝ) (hra : ra a = a) :
    ra (rm ((a - a) * u) + a) = a ∧ uniformReal a a u = a ∧
    rndGrid22 (rndGrid22 ((1 - 1 / 41943040) * 5) + rndGrid22 (1 / 41943040 * 5)) = 5 + 1 / 4194304 := by
  refine ⟨by rw [sub_self, zero_mul, hrm0, zero_add, hra], by rw [uniformReal_val]; ring, ?_⟩
  have h1 : rndGrid22 ((1 - 1 / 41943040) * 5) = 5 := by
    unfold rndGrid22
    have : ⌊((1 - 1 / 41943040 : ℝ) * 5) * 4194304 + 1 / 2⌋ = 20971520 := by
      rw [Int.floor_eq_iff]; constructor <;> norm_num
    rw [this]; norm_num
  have h2 : rndGrid22 (1 / 41943040 * 5) = 1 / 4194304 := by
    unfold rndGrid22
    have : ⌊((1 / 41943040 : ℝ) * 5) * 4194304 + 1 / 2⌋ = 1 := by
      rw [Int.floor_eq_iff]; constructor <;> norm_num
    rw [this]; norm_num
  rw [h1, h2]
  unfold rndGrid22
  have : ⌊((5 : ℝ) + 1 / 4194304) * 4194304 + 1 / 2⌋ = 20971521 := by
    rw [Int.floor_eq_iff]; constructor <;> norm_num
  rw [this]; norm_num

-- non-vacuity: exact arithmetic (`id`) and the grid rounding both keep 0 and the grid point 5
example : rndGrid22 (rndGrid22 ((5 - 5) * (3 / 10)) + 5) = 5 := by
  have h0 : rndGrid22 0 = 0 := by unfold rndGrid22; norm_num
  have h5 : rndGrid22 5 = 5 := by
    unfold rndGrid22
    have : ⌊(5 : ℝ) * 4194304 + 1 / 2⌋ = 20971520 := by rw [Int.floor_eq_iff]; constructor <;> norm_num
    rw [this]; norm_num
  exact (uniformReal_zero_width_exact rndGrid22 rndGrid22 h0 5 (3 / 10) h5).1

end OmplModel.SpaceBounds.C08
