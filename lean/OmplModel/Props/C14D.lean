import OmplModel.Proofs.DubinsClassReal
import OmplModel.Proofs.DubinsRevCurve
/-!
# C14, round 3 — Dubins: the classification table's logic and the symmetric variant

Property theorems about `OmplModel.Dubins` (Model/Dubins.lean); helper lemmas in `Proofs/DubinsClass.lean`,
`Proofs/DubinsSym.lean`, `Proofs/DubinsClassReal.lean`, `Proofs/DubinsRevCurve.lean`.

* **[AF+order]** (generic over `[DNum α]`, only order facts of the angle comparisons, `AngleOrder`; holds for the
  `Float` run, NaN excluded): every angle in `[0, 2π]` passes exactly one of the four range tests of
  `getDubinsClass` and `quadrant` returns its index (`dubins_class_total`); every table cell returns one of the
  six words' solver outputs (`classification_is_candidate`, `classification_total`); hence the classified path is
  never strictly shorter than the exhaustive minimum (`classification_ge_exhaustive`).
* **[AF]** the symmetric variant as coded: `symmetric_distance_min`, `symmetric_choice`,
  `symmetric_interpolate_reverses` (a `reverse_` path is driven through its (type, length) pairs in reversed
  order with `stepRev`).
* **[EX]** over ℝ: the order hypotheses hold, the boundary angles `π/2, π, 3π/2` belong to the lower quadrant,
  the symmetrised distance is symmetric; the reversed traversal moves backwards along the
  chosen path's own curve at unit speed (`symmetric_reverse_traces_forward_curve`).

NOT proved: that the switching functions `s_ij` (float32) select the *minimal* word inside a cell — the
classification is proved to return *a* candidate, its minimality is compared differentially (checks/c14.py,
clause `not-minimal`).
-/
namespace OmplModel.Props.C14D
open OmplModel OmplModel.Dubins

section AF
variable {α : Type} [DNum α]

/-- [AF+order] **Exactly one class is selected.**  For every `α, β ∈ [0, 2π]`: each passes exactly one of the four
range tests of `getDubinsClass` as coded (`inQuadrant`: lower bound strict, upper bound closed, so a boundary
angle belongs to the lower quadrant only), `quadrant` returns that test's index in `1..4`, and the table has a
cell for the pair: exactly one class `a_ij` is selected.  (Making both bounds strict — a seeded change — leaves the
boundary angles in no quadrant and falsifies the first conjunct.) -/
theorem dubins_class_total (o : AngleOrder α) (d a b : α) (ha0 : 0 ≤ a) (ha1 : a ≤ twopi)
    (hb0 : 0 ≤ b) (hb1 : b ≤ twopi) :
    (inQuadrant (quadrant a) a ∧ (1 ≤ quadrant a ∧ quadrant a ≤ 4) ∧ ∀ j, inQuadrant j a → j = quadrant a) ∧
    (inQuadrant (quadrant b) b ∧ (1 ≤ quadrant b ∧ quadrant b ≤ 4) ∧ ∀ j, inQuadrant j b → j = quadrant b) ∧
    ∃ pk, classify (quadrant a) (quadrant b) d a b = some pk :=
  ⟨quadrant_exactly_one o a ha0 ha1, quadrant_exactly_one o b hb0 hb1,
    classify_isSome _ _ (quadrant_exactly_one o a ha0 ha1).2.1 (quadrant_exactly_one o b hb0 hb1).2.1 d a b⟩

/-- [AF] **Every class branch returns one of the six words' solver outputs.** -/
theorem classification_is_candidate (d a b : α) (hd : degenerate d a b = false)
    (pk : Pick) (hpk : classify (quadrant a) (quadrant b) d a b = some pk) :
    ∃ w : Word, dubinsClassification d a b = Res.ofOpt (solve mod2pi w d a b) :=
  Dubins.classification_is_candidate d a b hd pk hpk

/-- [AF+order] for angles in `[0, 2π]` the classification is never `unclassified`: it is one of the six candidates. -/
theorem classification_total (o : AngleOrder α) (d a b : α) (ha0 : 0 ≤ a) (ha1 : a ≤ twopi)
    (hb0 : 0 ≤ b) (hb1 : b ≤ twopi) (hd : degenerate d a b = false) :
    ∃ w : Word, dubinsClassification d a b = Res.ofOpt (solve mod2pi w d a b) :=
  Dubins.classification_total o d a b ha0 ha1 hb0 hb1 hd

/-- [AF+order] **Classification ≥ exhaustive**: whenever the classification returns a path `P`, `P` is not strictly
shorter than what the exhaustive search over the same six solvers returns (`none` = `DBL_MAX`). -/
theorem classification_ge_exhaustive (sw : StrictWeak α) (d a b : α) (hd : degenerate d a b = false)
    (pk : Pick) (hpk : classify (quadrant a) (quadrant b) d a b = some pk) (P : Path α)
    (hP : dubinsClassification d a b = .path P) :
    ltLen (some P.len) (olen (exhaustiveCore mod2pi d a b)) = false :=
  classification_not_below_exhaustive sw d a b hd pk hpk P hP

/-- [AF] **`distance` as coded**: `rho · L(a→b)`, and `rho · min(L(a→b), L(b→a))` for the symmetric variant. -/
theorem symmetric_distance_min (rho : α) (s1 s2 : Pose α) (l12 l21 : α)
    (h1 : (dubinsStates rho s1 s2).len = some l12) (h2 : (dubinsStates rho s2 s1).len = some l21) :
    distance rho false s1 s2 = some (rho * l12) ∧
    distance rho true s1 s2 = some (rho * Num.min l12 l21) :=
  distance_spec rho s1 s2 l12 l21 h1 h2

/-- [AF] **Which curve the symmetric `interpolate` stores**: the `to → from` path marked `reverse_` iff it is strictly
shorter; the plain variant never reverses. -/
theorem symmetric_choice (rho : α) (frm tgt : Pose α) (P P2 : Path α)
    (h1 : dubinsStates rho frm tgt = .path P) (h2 : dubinsStates rho tgt frm = .path P2) :
    choosePath rho true frm tgt = (if P2.len < P.len then .path { P2 with rev := true } else .path P) ∧
    choosePath rho false frm tgt = .path P :=
  ⟨choosePath_sym rho frm tgt P P2 h1 h2, choosePath_plain rho frm tgt P h1⟩

/-- [AF] **When the reversed curve is chosen, `interpolate(t)` traces the reversed word**: the stored path's
(type, length) pairs in reversed order — third letter with `q`, second with `p`, first with `t`; types and
lengths are both read at `2 - i` — truncated to `t · length` and driven with the reversing step `stepRev` from
`(0, 0, yaw(from))`, then scaled by `rho`, translated, yaw wrapped.  (Reading the types in forward order — a seeded
change — pairs `s1` with `q` and falsifies the second conjunct.) -/
theorem symmetric_interpolate_reverses (rho : α) (sym : Bool) (frm tgt : Pose α) (t : α) (P : Path α)
    (ht1 : ¬ 1 ≤ t) (ht0 : ¬ t ≤ 0) (hc : choosePath rho sym frm tgt = .path P) (hrev : P.rev = true) :
    interpolate rho sym frm tgt t =
      some ⟨(integFull stepRev (truncate ((P.w.segs.zip [P.t, P.p, P.q]).reverse) (t * P.len)) ⟨0, 0, frm.th⟩).x * rho + frm.x,
            (integFull stepRev (truncate ((P.w.segs.zip [P.t, P.p, P.q]).reverse) (t * P.len)) ⟨0, 0, frm.th⟩).y * rho + frm.y,
            so2Enforce (integFull stepRev (truncate ((P.w.segs.zip [P.t, P.p, P.q]).reverse) (t * P.len)) ⟨0, 0, frm.th⟩).th⟩ ∧
    (∃ s1 s2 s3, P.w.segs = [s1, s2, s3] ∧
      (P.w.segs.zip [P.t, P.p, P.q]).reverse = [(s3, P.q), (s2, P.p), (s1, P.t)]) := by
  refine ⟨interpolate_reversed rho sym frm tgt t P ht1 ht0 hc hrev, ?_⟩
  obtain ⟨s1, s2, s3, h⟩ := word_segs_three P.w
  exact ⟨s1, s2, s3, h, by rw [h]; rfl⟩

-- non-vacuity: the reversed list of LSR with (1,2,3) pairs R with 3, S with 2, L with 1
example : ((Word.LSR).segs.zip [(1 : Nat), 2, 3]).reverse = [(Seg.R, 3), (Seg.S, 2), (Seg.L, 1)] := rfl
example : ∃ pk, classify 1 2 (0.0 : Float) 0.0 0.0 = some pk := classify_isSome 1 2 (by decide) (by decide) _ _ _

end AF

attribute [-instance] Num.instOfNat

/-- [EX] the order hypotheses of `dubins_class_total` hold over ℝ -/
theorem angleOrder_real : AngleOrder ℝ := Dubins.angleOrder_real

/-- [EX] **Quadrant boundaries**: `0` and `π/2` are in the first quadrant, `π` in the second, `3π/2` in the third,
`2π` in the fourth (closed upper bounds), and just above `π/2` the second quadrant starts (strict lower bound). -/
theorem quadrant_boundaries :
    quadrant (0 : ℝ) = 1 ∧ quadrant (Real.pi / 2) = 1 ∧ quadrant Real.pi = 2 ∧
    quadrant (3 * (Real.pi / 2)) = 3 ∧ quadrant (2 * Real.pi) = 4 ∧
    ∀ e : ℝ, 0 < e → e ≤ Real.pi / 2 → quadrant (Real.pi / 2 + e) = 2 :=
  ⟨Dubins.quadrant_boundaries.1, Dubins.quadrant_boundaries.2.1, Dubins.quadrant_boundaries.2.2.1,
    Dubins.quadrant_boundaries.2.2.2.1, Dubins.quadrant_boundaries.2.2.2.2, quadrant_above_halfpi⟩

/-- [EX] **The symmetrised Dubins distance is symmetric** (`min` commutes over ℝ). -/
theorem symmetric_distance_symm (rho : ℝ) (s1 s2 : Pose ℝ) :
    distance rho true s1 s2 = distance rho true s2 s1 := distance_sym_symm rho s1 s2

/-- [EX] **The reversed traversal moves backwards along the chosen path's own curve.**  Let `P` be a path
(computed from `to` to `from`, `rev = false`, non-negative lengths) and `E` the end of its forward curve from `Q`.
Driving `P` marked `reverse_` — reversed (type, length) pairs, `stepRev` — from `E` with the budget `t · L`
(`0 ≤ t ≤ 1`), exactly what `interpolate` does, arrives at the point of the forward curve at arc length
`(1 − t) · L`: the symmetric `interpolate(t)` lies on the `to → from` curve, traversed backwards at unit speed. -/
theorem symmetric_reverse_traces_forward_curve (P : Path ℝ) (hrev : P.rev = false)
    (h1 : 0 ≤ P.t) (h2 : 0 ≤ P.p) (h3 : 0 ≤ P.q) (Q : Pose ℝ) (t : ℝ) (ht0 : 0 ≤ t) (ht1 : t ≤ 1) :
    integ stepRev (Path.segList { P with rev := true }) (t * P.len) (integFull stepFwd P.segList Q) =
      integ stepFwd P.segList ((1 - t) * P.len) Q := by
  have hnn := segList_nonneg P h1 h2 h3
  have hlen : 0 ≤ P.len := by unfold Path.len; exact add_nonneg (add_nonneg h1 h2) h3
  rw [segList_rev P hrev]
  have := reverse_traces_forward_curve P.segList hnn Q (t * P.len) (mul_nonneg ht0 hlen)
    (by rw [segList_sum]; calc t * P.len ≤ 1 * P.len := mul_le_mul_of_nonneg_right ht1 hlen
          _ = P.len := one_mul _)
  rw [this, segList_sum]
  congr 1; ring

-- non-vacuity: at t = 1/2 of the straight path of length 2 both sides are the midpoint
example : integ stepFwd (Path.segList (⟨.LSL, 0, 2, 0, false⟩ : Path ℝ)) ((1 - 1 / 2) * 2) ⟨0, 0, 0⟩ =
    integ stepFwd (Path.segList (⟨.LSL, 0, 2, 0, false⟩ : Path ℝ)) 1 ⟨0, 0, 0⟩ := by norm_num

-- non-vacuity: `[0, 2π]` is inhabited by the boundary angles themselves
example : (0 : ℝ) ≤ Real.pi / 2 ∧ Real.pi / 2 ≤ 2 * Real.pi := by
  constructor <;> linarith [Real.pi_pos]

end OmplModel.Props.C14D
