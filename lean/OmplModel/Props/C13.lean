import OmplModel.Proofs.GridComponents
import OmplModel.Proofs.GridRun
import OmplModel.Proofs.GridCoords
import OmplModel.Proofs.DiscProps
import OmplModel.Proofs.DiscReal
import OmplModel.Proofs.KPIECE1
import OmplModel.Proofs.LBKPIECE1
import OmplModel.Proofs.LBKPIECE1Path
import OmplModel.Proofs.LBKPIECE1Forest
import OmplModel.Proofs.GridN
import OmplModel.Proofs.GridSplit
import OmplModel.Proofs.GridFresh
import OmplModel.Proofs.DiscFresh
/-!
# C13 — grid discretizations track cells, neighbours, borders and components exactly

Property theorems over the executable model `OmplModel.Model.Grid` of `Grid.h` / `GridN.h` / `GridB.h`
(the model follows the code with the F3 repair of `topInternal`/`topExternal`).  All are arithmetic-free
([AF]): they hold for every dimension, every bounds / interior-limit setting, every update event and, except
`tops_best`, every ordering functor (`tops_best` needs the functors to be strict weak orders).

"Every history" = `run cfg ops` for an arbitrary list `ops` of protocol operations (`Op`: createCell+add of an
absent coordinate, remove of a present cell, data change + update, data changes + updateAll, clear); the only
side condition is `Op.valid`: a new coordinate has `dim` entries.
-/
namespace OmplModel.Props.C13
open OmplModel.Grid OmplModel.Heap

/-! ## Grid: lookups, neighbours, components (for every cell list with distinct coordinates) -/

/-- lookups find exactly the cells present -/
theorem has_iff (cells : List Cell) (x : Coord) : has cells x = true ↔ ∃ c ∈ cells, c.coord = x :=
  OmplModel.Grid.has_iff

theorem getCell_some {dim : Nat} {cells : List Cell} (h : WF dim cells) (x : Coord) (c : Cell) :
    getCell cells x = some c ↔ c ∈ cells ∧ c.coord = x :=
  getCell_eq_some_iff h.nodup

/-- `neighbors(x)` consists of exactly the present cells whose coordinate differs from `x` by one in a single
dimension, each listed once. -/
theorem neighbors_exact {dim : Nat} {cells : List Cell} (h : WF dim cells) {x : Coord} (hx : x.length = dim) :
    (∀ c, c ∈ neighbors dim cells x ↔
      c ∈ cells ∧ c.coord.length = dim ∧ ∃ i, i < dim ∧
        (c.coord.getD i 0 = x.getD i 0 - 1 ∨ c.coord.getD i 0 = x.getD i 0 + 1) ∧
        ∀ j, j ≠ i → c.coord.getD j 0 = x.getD j 0) ∧
    ((neighbors dim cells x).map (·.coord)).Nodup := by
  refine ⟨fun c => ?_, neighbors_nodup hx⟩
  rw [mem_neighbors_iff h.nodup, mem_neighborCoords_iff_differ hx]

/-- the neighbour relation is symmetric -/
theorem neighbors_symm {dim : Nat} {cells : List Cell} (h : WF dim cells) {a b : Cell} (ha : a ∈ cells)
    (hb : b ∈ cells) : b ∈ neighbors dim cells a.coord ↔ a ∈ neighbors dim cells b.coord := by
  rw [mem_neighbors_iff h.nodup, mem_neighbors_iff h.nodup]
  exact ⟨fun h' => ⟨ha, neighborCoords_symm (h.len a ha) h'.2⟩, fun h' => ⟨hb, neighborCoords_symm (h.len b hb) h'.2⟩⟩

/-- `components()` is the partition of the present cells into the classes of the reflexive-transitive closure
of the neighbour relation: every cell is in exactly one component, exactly once (`flatten` is a permutation of
the cell list); a component containing `a` contains exactly the cells reachable from `a`; no component is
empty; components come in order of non-increasing size. -/
theorem components_partition {dim : Nat} {cells : List Cell} (h : WF dim cells) :
    (components dim cells).flatten.Perm cells ∧
    (∀ comp ∈ components dim cells, ∀ a ∈ comp, ∀ b ∈ cells, (b ∈ comp ↔ Reach dim cells a.coord b.coord)) ∧
    (∀ comp ∈ components dim cells, comp ≠ []) ∧
    (components dim cells).Pairwise (fun a b => a.length ≥ b.length) :=
  ⟨components_perm h, components_class h, components_ne_nil h, components_sorted⟩

/-- non-vacuity: a 4-cell grid (a path of three cells and an isolated one) -/
def sample : List Cell :=
  [{ id := 0, coord := [0, 0], data := 5 }, { id := 1, coord := [5, 5], data := 1 },
   { id := 2, coord := [0, 1], data := 2 }, { id := 3, coord := [-1, 1], data := 9 }]

example : WF 2 sample := ⟨by decide, by decide⟩
example : has sample [0, 1] = true ∧ has sample [1, 1] = false := by decide
example : (neighbors 2 sample [0, 1]).map (·.id) = [0, 3] := by decide
example : (neighbors 2 sample [0, 0]).map (·.id) = [2] ∧ (neighbors 2 sample [5, 5]).map (·.id) = [] := by decide

/-! ## GridN / GridB: for every protocol history -/

/-- every reachable state has distinct coordinates of the right length (so the `Grid` theorems above apply
to it) -/
theorem run_wf (cfg : Cfg) (ops : List Op) (hv : ∀ op ∈ ops, op.valid cfg.dim) : WF cfg.dim (run cfg ops).cells :=
  ⟨(run_inv ops hv).nodup, (run_inv ops hv).len⟩

/-- `GridNInv`: after every history each cell's counter equals the number of its present neighbours plus the
number of dimensions in which it sits on a bound, and it is a border cell iff that count is below the limit. -/
theorem gridN_count_border (cfg : Cfg) (ops : List Op) (hv : ∀ op ∈ ops, op.valid cfg.dim) :
    ∀ c ∈ (run cfg ops).cells,
      c.nbrs = (neighbors cfg.dim (run cfg ops).cells c.coord).length + boundaryDims cfg c.coord ∧
      (c.border = true ↔ c.nbrs < cfg.limit) := by
  intro c hc
  have hi := run_inv ops hv
  refine ⟨by rw [hi.count c hc, cnt_eq_neighbors], ?_⟩
  rw [hi.border c hc]; simp

/-- `GridBInv`: after every history the two queues together hold every cell exactly once (cell ids are
distinct), the external queue holds exactly the border cells and the internal one exactly the others, with the
cell's current data as the key. -/
theorem gridB_one_queue (cfg : Cfg) (ops : List Op) (hv : ∀ op ∈ ops, op.valid cfg.dim) :
    let g := run cfg ops
    (qids g.external ++ qids g.internal).Perm (g.cells.map (·.id)) ∧ (g.cells.map (·.id)).Nodup ∧
    (∀ c ∈ g.cells, (c.id ∈ qids g.external ↔ c.border = true) ∧ (c.id ∈ qids g.internal ↔ c.border = false)) ∧
    g.external.items.Perm (side (·.border) g.cells) ∧ g.internal.items.Perm (side (fun c => !c.border) g.cells) := by
  intro g
  have hi : Inv cfg g := run_inv ops hv
  exact ⟨hi.queues_perm, hi.idnd, fun c hc => ⟨hi.ext_iff_border hc, hi.int_iff_interior hc⟩, hi.ext, hi.int⟩

/-- `countInternal() + countExternal() = size()` -/
theorem counts_sum (cfg : Cfg) (ops : List Op) (hv : ∀ op ∈ ops, op.valid cfg.dim) :
    countInternal (run cfg ops) + countExternal (run cfg ops) = (run cfg ops).cells.length := by
  have hi := run_inv ops hv
  have h := hi.queues_perm.length_eq
  simp only [List.length_append, List.length_map, qids, Heap.items] at h
  simp only [countInternal, countExternal]
  rw [← Array.length_toList, ← Array.length_toList]
  omega

/-- the tops are the best cells: `topInternal()` is an interior cell such that no interior cell is better
under `LessThanInternal`; if there is no interior cell it is a border cell such that no border cell is better
under `LessThanExternal` (the fallback the code intends, F3); `none` only for an empty grid.  Symmetrically
for `topExternal()`. -/
theorem tops_best (cfg : Cfg) (ok : CmpOK cfg) (ops : List Op) (hv : ∀ op ∈ ops, op.valid cfg.dim) :
    let g := run cfg ops
    (match topInternal g with
      | none => g.cells = []
      | some i => ∃ c ∈ g.cells, c.id = i ∧
          ((c.border = false ∧ ∀ c' ∈ g.cells, c'.border = false → cfg.ltI c'.data c.data = false) ∨
           ((∀ c' ∈ g.cells, c'.border = true) ∧ c.border = true ∧
              ∀ c' ∈ g.cells, c'.border = true → cfg.ltE c'.data c.data = false))) ∧
    (match topExternal g with
      | none => g.cells = []
      | some i => ∃ c ∈ g.cells, c.id = i ∧
          ((c.border = true ∧ ∀ c' ∈ g.cells, c'.border = true → cfg.ltE c'.data c.data = false) ∨
           ((∀ c' ∈ g.cells, c'.border = false) ∧ c.border = false ∧
              ∀ c' ∈ g.cells, c'.border = false → cfg.ltI c'.data c.data = false))) := by
  intro g
  exact tops_best_of_inv ok (run_inv ops hv) (run_ordered ok ops)

/-! non-vacuity: a concrete configuration (2-D, bounds [0,1]², limit 3, `<` on the data, event adds nothing)
whose functors are strict weak orders, and a history that creates three cells and removes one. -/
def cfg0 : Cfg :=
  { dim := 2, bounds := some ([0, 0], [1, 1]), limit := 3,
    ltE := fun a b => decide (a < b), ltI := fun a b => decide (a > b), ev := fun c => c.data }

def ops0 : List Op := [.new [0, 0] 5, .new [0, 1] 7, .new [1, 0] 3, .rm [0, 1], .upd [0, 0] 9, .updAll [([1, 0], 4)]]

example : ∀ op ∈ ops0, op.valid cfg0.dim := by simp [ops0, Op.valid, cfg0]
example : CmpOK cfg0 :=
  ⟨⟨fun a => by simp [cfg0], fun a b c => by simp [cfg0]; omega, fun a b c => by simp [cfg0]; omega⟩,
   ⟨fun a => by simp [cfg0], fun a b c => by simp [cfg0]; omega, fun a b c => by simp [cfg0]; omega⟩⟩
/-- the interior limit is crossed in both directions in this history: a lone corner cell has 0 neighbours + 2
boundary dimensions = 2 < 3 (border); with one neighbour it is interior; once both neighbours are removed it is a
border cell again. -/
example : ((run cfg0 (ops0.take 1)).cells.map (fun c => (c.coord, c.nbrs, c.border))) = [([0, 0], 2, true)] := by
  decide
example : ((run cfg0 (ops0 ++ [.rm [1, 0]])).cells.map (fun c => (c.coord, c.nbrs, c.border, c.data))) =
    [([0, 0], 2, true, 9)] := by decide
example : ((run cfg0 (ops0.take 3)).cells.map (fun c => (c.coord, c.nbrs, c.border))) =
    [([0, 0], 4, false), ([0, 1], 3, false), ([1, 0], 3, false)] := by decide

/-! ## Discretization (the user of `GridB` in KPIECE1 / BKPIECE1 / LBKPIECE1)

Model `OmplModel.Disc` (Model/Discretization.lean) over any `Num α`.  "Every history" = `drun P bf ops` for an
arbitrary list of operations (`addMotion`, `selectMotion` with scripted draws, score change + `updateCell`,
`removeMotion`, `countIteration`, `setBorderFraction`, `clear`); `validFrom`: a motion is added once (fresh `Motion*`)
under a coordinate of `dim` entries.  `specRun` is the abstract list of (motion, coordinate) pairs added and not
removed. -/
section Discretization
open OmplModel.Disc
variable {α : Type} [Num α] [HasLog α]

/-- the protocol assumption of C13 is met by its main user: every `Discretization` operation accesses `grid_` by at
most one step of the C13 protocol alphabet, with a coordinate of `dim` entries, `createCell`+`add` only for an absent
coordinate and `remove` only for a present cell -- after every history. -/
theorem discretization_obeys_grid_protocol (P : Params α) (bf : α) (ops : List (DOp α)) (hv : validFrom P [] ops)
    (op : DOp α) (hop : opValid P (specRun [] ops) op) :
    GridAccess P (drun P bf ops) (dstep P (drun P bf ops) op) :=
  dstep_access (drun_inv P bf ops hv) op hop

/-- motion bookkeeping, after every history: the grid cells and the `CellData` table have the same coordinates
(distinct); the cell at `x` holds exactly the motions added under `x` and not removed, in order of addition, and no
cell is empty; every stored motion's coordinate has a cell; a stored motion is in the cell of its coordinate and in no
other cell; `size_` counts the stored motions. -/
theorem disc_motions_in_cells (P : Params α) (bf : α) (ops : List (DOp α)) (hv : validFrom P [] ops) :
    let d := drun P bf ops
    let live := specRun [] ops
    d.grid.cells.map (·.coord) = keys d.cdata ∧ (keys d.cdata).Nodup ∧
    (∀ e ∈ d.cdata, e.2.motions = motionsAt live e.1 ∧ e.2.motions ≠ []) ∧
    (∀ p ∈ live, p.2 ∈ keys d.cdata) ∧
    (∀ m x, (m, x) ∈ live → ∀ e ∈ d.cdata, (m ∈ e.2.motions ↔ e.1 = x)) ∧
    d.size = live.length := by
  intro d live
  have h : DInv P d live := drun_inv P bf ops hv
  exact ⟨h.sync, h.keys_nodup, h.mot, h.cov, fun m x hm e he => mem_cell_iff h hm he, h.size⟩

/-- the GridB invariants of C13 hold throughout every `Discretization` history: well-formed cell list, counters and
border flags (no bounds: the count is the number of present neighbours), each cell in exactly one queue, external iff
border; and, if the ordering functor is a strict weak order on the importances that occur, both tops are best cells. -/
theorem disc_grid_invariants (P : Params α) (bf : α) (ops : List (DOp α)) (hv : validFrom P [] ops) :
    let d := drun P bf ops
    let g := d.grid
    WF P.dim g.cells ∧
    (∀ c ∈ g.cells, c.nbrs = (neighbors P.dim g.cells c.coord).length ∧ (c.border = true ↔ c.nbrs < 2 * P.dim)) ∧
    (qids g.external ++ qids g.internal).Perm (g.cells.map (·.id)) ∧ (g.cells.map (·.id)).Nodup ∧
    (∀ c ∈ g.cells, (c.id ∈ qids g.external ↔ c.border = true) ∧ (c.id ∈ qids g.internal ↔ c.border = false)) ∧
    (FunctorOK P → TopsBest (gcfg P d.cdata) g) := by
  intro d g
  have h : DInv P d (specRun [] ops) := drun_inv P bf ops hv
  have hi := h.ginv
  refine ⟨⟨hi.nodup, hi.len⟩, ?_, hi.queues_perm, hi.idnd, fun c hc => ⟨hi.ext_iff_border hc, hi.int_iff_interior hc⟩, ?_⟩
  · intro c hc
    refine ⟨?_, ?_⟩
    · have := hi.count c hc
      rw [cnt_eq_neighbors] at this
      exact this
    · have := hi.border c hc
      rw [this]; simp; rfl
  · intro hf
    exact tops_best_of_inv (cmpOK hf _) hi (drun_ordered hf bf ops hv)

/-- `selectMotion` on a non-empty discretization returns a motion that was added and not removed, with its cell --
whatever the two random draws are (within `halfNormalInt`'s range contract). -/
theorem disc_select_returns_stored_motion (P : Params α) (bf : α) (ops : List (DOp α)) (hv : validFrom P [] ops)
    (hne : specRun [] ops ≠ []) (u : α) (pick : Nat → Nat) (hpick : ∀ n, 0 < n → pick n < n) :
    ∃ m x, (select P (drun P bf ops) u pick).2 = some (m, x) ∧ (m, x) ∈ specRun [] ops :=
  select_returns_live (drun_inv P bf ops hv) hne u pick hpick

/-- F3 seen from `selectMotion` (dimension ≥ 1, at least one motion stored): the external queue is never empty, so
`topExternal()` never runs on an empty queue; `topInternal()` runs on an EMPTY internal queue exactly in the branch
"draw not below max(borderFraction, fracExternal)" while no interior cell exists, and the repaired fallback then
answers the external top, a present border cell (the unrepaired code dereferenced `nullptr` there). -/
theorem disc_select_empty_side (P : Params α) (bf : α) (ops : List (DOp α)) (hv : validFrom P [] ops)
    (hne : specRun [] ops ≠ []) (hd : 0 < P.dim) (u : α) :
    let d := drun P bf ops
    d.grid.external.top ≠ none ∧
    (wantsExternal d u = false → d.grid.internal.top = none →
      topInternal d.grid = topExternal d.grid ∧ ∃ c ∈ d.grid.cells, c.border = true ∧ topInternal d.grid = some c.id) :=
  select_empty_side (drun_inv P bf ops hv) hne hd u

/-! non-vacuity.  A valid history and its abstract motion list, for every `α`; and the reason for `0 < P.dim` in
`disc_select_empty_side`: in dimension 0 the limit is 0, the only possible cell is interior and the external queue
IS empty (evaluated on the grid model). -/
example (P : Params α) (hP : P.dim = 2) (a b : α) :
    validFrom P [] [.add 0 [0, 0] a, .add 1 [0, 1] b, .add 2 [0, 0] a, .remove 0 [0, 0], .remove 1 [0, 1], .clear] := by
  simp [validFrom, opValid, specStep, hP]
example (a b : α) : specRun ([] : Live) [DOp.add 0 [0, 0] a, .add 1 [0, 1] b, .add 2 [0, 0] a, .remove 0 [0, 0]]
    = [(1, [0, 1]), (2, [0, 0])] := by
  simp [specRun, specStep]
def cfgD0 : Cfg := { dim := 0, limit := 0, ltE := fun a b => decide (a > b), ltI := fun a b => decide (a > b), ev := fun c => c.data }
example : (run cfgD0 [.new [] 7]).external.arr.size = 0 ∧ (run cfgD0 [.new [] 7]).cells.map (·.border) = [false] := by
  decide

/-- **the importance of every cell is current** (round 10, second lap; was an oracle clause only): after every
history of `addMotion` / `selectMotion` / score change + `updateCell` / `removeMotion` / `countIteration` /
`setBorderFraction` / `clear` (also reuse after `clear`), every grid cell has its `CellData`, and the key it is queued
under is `computeImportance` of that data's CURRENT score and coverage and of the cell's CURRENT neighbour counter, with
a selection count `s` that is at most the current one -- `selectMotion` does `++selections` without `grid_.update`, the
only way a key can lag; everything else that moves an input of the formula (coverage in `addMotion`, score in
`updateCell` and in the `score < epsilon` repair, the counter in `createCell`/`remove`) re-runs the event on that cell.
With `disc_grid_invariants` (each cell in exactly one queue under this key, tops best) this closes the scoring loop.
The freshness part needs no validity assumption (`drun_fresh`). -/
theorem disc_importance_fresh (P : Params α) (bf : α) (ops : List (DOp α)) (hv : validFrom P [] ops) :
    let d := drun P bf ops
    ∀ c ∈ d.grid.cells, ∃ cd, lookup d.cdata c.coord = some cd ∧
      ∃ s, s ≤ cd.selections ∧ c.data = P.enc (importance { cd with selections := s } c.nbrs) := by
  intro d c hc
  have hi := drun_inv P bf ops hv
  have hk : c.coord ∈ keys d.cdata := by rw [← hi.sync]; exact List.mem_map.2 ⟨c, hc, rfl⟩
  cases hl : lookup d.cdata c.coord with
  | none => exact absurd hk (lookup_none_iff.1 hl)
  | some cd => exact ⟨cd, rfl, drun_fresh P bf ops c hc cd hl⟩

/-! non-vacuity: the clause is falsifiable (a cell whose key matches no admissible selection count violates it), and
the grid of a valid history that stores a motion is not empty. -/
example (P : Params α) (tbl : List (Coord × CellData α)) (c : Cell) (cd : CellData α) (hl : lookup tbl c.coord = some cd)
    (h : ∀ s, s ≤ cd.selections → c.data ≠ P.enc (importance { cd with selections := s } c.nbrs)) : ¬ IQ P tbl c := by
  intro hq
  obtain ⟨s, hs, hd⟩ := hq cd hl
  exact h s hs hd
example (P : Params α) (bf : α) (ops : List (DOp α)) (hv : validFrom P [] ops) (p : Nat × Coord)
    (hp : p ∈ specRun [] ops) : (drun P bf ops).grid.cells ≠ [] := by
  have hi := drun_inv P bf ops hv
  have := hi.cov p hp
  rw [← hi.sync] at this
  intro h0; rw [h0] at this; cases this

end Discretization

section DiscretizationReal
open OmplModel.Disc
attribute [-instance] OmplModel.Num.instOfNat

/-- [EX] `computeImportance` over ℝ: a cell with positive score and coverage and at least one selection has a
positive importance, at most `score / coverage`; and the score a new cell starts with is positive
(`iteration_ ≥ 1`, `dist ≥ 0`).  Unverified: IEEE rounding (the quotient can underflow to 0 in `double`). -/
theorem disc_importance_pos (cd : CellData ℝ) (nbrs : Nat) (hs : 0 < cd.score) (hc : 0 < cd.coverage)
    (hsel : 1 ≤ cd.selections) (iteration : Nat) (dist : ℝ) (hi : 1 ≤ iteration) (hd : 0 ≤ dist) :
    (0 < importance cd nbrs ∧ importance cd nbrs ≤ cd.score / cd.coverage) ∧
    0 < ((Num.ofNat 1 : ℝ) + HasLog.log (Num.ofNat iteration : ℝ)) / ((Num.ofNat 1 : ℝ) + dist) :=
  ⟨importance_pos cd nbrs hs hc hsel, initial_score_pos iteration dist hi hd⟩

example : (0 : ℝ) < importance ({ motions := [0], coverage := 2, selections := 3, score := 1, iteration := 1 } : CellData ℝ) 4 :=
  (importance_pos _ 4 (by norm_num) (by norm_num) (by norm_num)).1

end DiscretizationReal

/-! ## KPIECE1 (geometric) on top of the Discretization model

Model `OmplModel.KPIECE1` (Model/KPIECE1.lean), generic over the state type, `Num α`, and every oracle (`bounds`,
`valid`, projection coordinate, goal distance, three-argument `checkMotion` with `lastValid`).  "Every script" = every
list of per-iteration draws (the two draws of `selectMotion`, the goal-bias draw, the sampled states); its length is the
interruption point.  `hcoord`: the projection has `dim` coordinates. -/
section Kpiece
open OmplModel.Disc OmplModel.KPIECE1 OmplModel.PlannerReport
variable {S α : Type} [Num α] [HasLog α]

theorem kinv_of_solve (cfg : KPIECE1.Cfg S α) (hcoord : ∀ s, (cfg.coord s).length = cfg.P.dim) (starts : Array S)
    (script : List (Draw S α)) :
    KPIECE1.TreeInv cfg starts (solve cfg starts script).tree ∧
      DInv cfg.P (solve cfg starts script).disc (liveFrom cfg 0 (solve cfg starts script).tree.toList) := by
  have hinit := initState_inv cfg hcoord starts
  unfold solve
  simp only
  split
  · exact hinit
  · have := loop_inv cfg hcoord starts script ⟨(initState cfg starts).1.1, (initState cfg starts).1.2, none, none, cfg.inf⟩
      ⟨hinit.1, hinit.2, fun j h => by simp at h, fun i h => by simp at h⟩
    split <;> exact ⟨this.tree, this.disc⟩

/-- **Tree invariant**, for every configuration, start set and script (hence every interruption point): every root is
a problem-definition start that satisfies the bounds and is valid; every other motion's parent was created earlier and
the edge is justified by `Link`: the validator was asked about the motion from the parent to a sampled state, and the
child is the state the validator left in `xstate` -- after a `true` answer (the whole motion is vouched for), or after a
`false` answer whose `lastValid.second` exceeds `minValidPathFraction_`, in which case the child is `lastValid.first`
and the validator vouches for the motion only up to that state. -/
theorem kpiece_tree_inv (cfg : KPIECE1.Cfg S α) (hcoord : ∀ s, (cfg.coord s).length = cfg.P.dim) (starts : Array S)
    (script : List (Draw S α)) : KPIECE1.TreeInv cfg starts (solve cfg starts script).tree :=
  (kinv_of_solve cfg hcoord starts script).1

/-- **KPIECE1 obeys the Discretization protocol**: after every script the discretization invariant holds for "motion
`i` is stored under the projection coordinate of its state"; in particular every motion of the tree sits in exactly the
cell of its coordinate, no cell is empty, and `size_` is the number of motions. -/
theorem kpiece_disc_inv (cfg : KPIECE1.Cfg S α) (hcoord : ∀ s, (cfg.coord s).length = cfg.P.dim) (starts : Array S)
    (script : List (Draw S α)) :
    let r := solve cfg starts script
    DInv cfg.P r.disc (liveFrom cfg 0 r.tree.toList) ∧
    (∀ i nd, r.tree[i]? = some nd → ∀ e ∈ r.disc.cdata, (i ∈ e.2.motions ↔ e.1 = cfg.coord nd.state)) ∧
    (∀ e ∈ r.disc.cdata, e.2.motions ≠ []) ∧ r.disc.size = r.tree.size := by
  intro r
  have h := (kinv_of_solve cfg hcoord starts script).2
  refine ⟨h, ?_, fun e he => (h.mot e he).2, ?_⟩
  · intro i nd hi e he
    have hm : (i, cfg.coord nd.state) ∈ liveFrom cfg 0 r.tree.toList :=
      (mem_liveFrom cfg 0 _ _ _).2 ⟨i, nd, by simpa using hi, by omega, rfl⟩
    exact mem_cell_iff h hm he
  · rw [h.size]
    have : ∀ (k : Nat) (l : List (KPIECE1.Node S)), (liveFrom cfg k l).length = l.length := by
      intro k l; induction l generalizing k with
      | nil => rfl
      | cons a r ih => simp [liveFrom, ih]
    rw [this, Array.length_toList]

/-- **`selectMotion` is only called on a non-empty discretization**, and it answers a motion of the tree: unless the
run ends with `INVALID_START` (before the loop), the state reached after every script holds at least one motion, and
the next iteration's `selectMotion` (any draws within `halfNormalInt`'s range contract) returns a motion index of the
tree together with the cell of its coordinate -- the two "unreachable" branches of `step` are dead code. -/
theorem kpiece_select_nonempty (cfg : KPIECE1.Cfg S α) (hcoord : ∀ s, (cfg.coord s).length = cfg.P.dim)
    (starts : Array S) (script : List (Draw S α)) (hst : (solve cfg starts script).status ≠ .invalidStart)
    (u : α) (pick : Nat → Nat) (hpick : ∀ n, 0 < n → pick n < n) :
    let r := solve cfg starts script
    0 < r.disc.size ∧
    ∃ m x nd, (select cfg.P (countIteration r.disc) u pick).2 = some (m, x) ∧ r.tree[m]? = some nd ∧
      x = cfg.coord nd.state := by
  intro r
  have h := (kinv_of_solve cfg hcoord starts script).2
  have hsz : 0 < r.tree.size := by
    show 0 < (solve cfg starts script).tree.size
    unfold solve at hst ⊢
    simp only at hst ⊢
    split
    · rename_i h0; rw [if_pos h0] at hst; exact absurd rfl hst
    · rename_i h0
      have := loop_size cfg script ⟨(initState cfg starts).1.1, (initState cfg starts).1.2, none, none, cfg.inf⟩
      split <;> exact Nat.lt_of_lt_of_le (Nat.pos_of_ne_zero h0) this
  have hne : liveFrom cfg 0 r.tree.toList ≠ [] := by
    cases hl : r.tree.toList with
    | nil => simp [← Array.length_toList, hl] at hsz
    | cons a t => simp [liveFrom]
  have hd1 : DInv cfg.P (countIteration r.disc) (liveFrom cfg 0 r.tree.toList) :=
    ⟨h.ginv, h.sync, h.mot, h.cov, h.size, h.lnd⟩
  obtain ⟨m, x, hs, hm⟩ := select_returns_live hd1 hne u pick hpick
  obtain ⟨i, nd, h1, h2, h3⟩ := (mem_liveFrom cfg 0 _ _ _).1 hm
  refine ⟨?_, m, x, nd, hs, ?_, h3⟩
  · rw [h.size]
    cases hl : liveFrom cfg 0 r.tree.toList with
    | nil => exact absurd hl hne
    | cons a t => simp
  · have : m = i := by omega
    subst this; simpa using h1

/-- what a truthful report looks like -/
structure KReal (cfg : KPIECE1.Cfg S α) (starts : Array S) (status : Status) (path : List S) (approx : Bool) (dif : α) :
    Prop where
  /-- non-empty, first state is a valid in-bounds start of the problem definition -/
  start : ∃ s0, path.head? = some s0 ∧ KPIECE1.ValidStart cfg starts s0
  /-- consecutive states are justified tree edges -/
  edges : KPIECE1.Chain (KPIECE1.Link cfg) path
  /-- the reported difference is the goal distance at the last state, and the approximate flag is set exactly when
  the goal is not satisfied there -/
  goal : ∃ last, path.getLast? = some last ∧ dif = cfg.goalDist last ∧
    (approx = false ↔ cfg.goalDist last < cfg.threshold)
  exact : status = .exactSolution ↔ approx = false
  approximate : status = .approximateSolution ↔ approx = true

/-- **KPIECE1 reports only real solutions**: for every configuration, start set and script (seed, interruption
point): a solution status means `addSolutionPath` was called with a path that is `KReal`; any other status (TIMEOUT,
INVALID_START) means it was not called. -/
theorem kpiece_solution_real (cfg : KPIECE1.Cfg S α) (hcoord : ∀ s, (cfg.coord s).length = cfg.P.dim)
    (starts : Array S) (script : List (Draw S α)) :
    ((solve cfg starts script).status.toBool = true →
        ∃ path approx dif, (solve cfg starts script).added = some (path, approx, dif) ∧
          KReal cfg starts (solve cfg starts script).status path approx dif) ∧
      ((solve cfg starts script).status.toBool = false → (solve cfg starts script).added = none) := by
  have hinit := initState_inv cfg hcoord starts
  unfold solve
  simp only
  split
  · exact ⟨fun h => by simp [Status.toBool] at h, fun _ => rfl⟩
  · have hinv := loop_inv cfg hcoord starts script ⟨(initState cfg starts).1.1, (initState cfg starts).1.2, none, none, cfg.inf⟩
      ⟨hinit.1, hinit.2, fun j h => by simp at h, fun i h => by simp at h⟩
    generalize (loop cfg ⟨(initState cfg starts).1.1, (initState cfg starts).1.2, none, none, cfg.inf⟩ script) = r at hinv
    split
    · next i hsol =>
      refine ⟨fun _ => ?_, fun h => by simp [Status.ofFlags, Status.toBool] at h⟩
      refine ⟨_, _, _, rfl, ?_⟩
      cases hs : r.1.solution with
      | some j =>
        simp only [hs, Option.some.injEq] at hsol
        subst hsol
        obtain ⟨nd, h1, h2, h3⟩ := hinv.sol j hs
        obtain ⟨l, e1, e2, e3, e4⟩ := KPIECE1.pathTo_spec cfg starts r.1.tree hinv.tree (j + 1) j nd [] h1 (by omega)
        simp only [List.append_nil] at e1
        rw [e1]
        exact ⟨e2, e3, ⟨nd.state, e4, h3, by simp [h2]⟩, by simp [Status.ofFlags], by simp [Status.ofFlags]⟩
      | none =>
        simp only [hs] at hsol
        obtain ⟨nd, h1, h2, h3⟩ := hinv.approx i hsol
        obtain ⟨l, e1, e2, e3, e4⟩ := KPIECE1.pathTo_spec cfg starts r.1.tree hinv.tree (i + 1) i nd [] h1 (by omega)
        simp only [List.append_nil] at e1
        rw [e1]
        exact ⟨e2, e3, ⟨nd.state, e4, h3 hs, by simp [h2]⟩, by simp [Status.ofFlags], by simp [Status.ofFlags]⟩
    · exact ⟨fun h => by simp [Status.ofFlags, Status.toBool] at h, fun _ => rfl⟩

/-! non-vacuity: both kinds of justified edge exist for any validator answer of that kind, and `hcoord` is satisfiable -/
example (cfg : KPIECE1.Cfg S α) (a x : S) (h : (cfg.checkMotion a x).1 = true) :
    KPIECE1.Link cfg a (cfg.checkMotion a x).2.1 := ⟨x, rfl, Or.inl h⟩
example (cfg : KPIECE1.Cfg S α) (a x : S) (h : cfg.minValidFrac < (cfg.checkMotion a x).2.2) :
    KPIECE1.Link cfg a (cfg.checkMotion a x).2.1 := ⟨x, rfl, Or.inr h⟩
example (cfg : KPIECE1.Cfg S α) (h : cfg.coord = fun _ => List.replicate cfg.P.dim 0) :
    ∀ s, (cfg.coord s).length = cfg.P.dim := by intro s; simp [h]
/-- with no start handed out the run is `INVALID_START` and nothing is reported -/
example (cfg : KPIECE1.Cfg S α) (script : List (Draw S α)) :
    (solve cfg #[] script).status = .invalidStart ∧ (solve cfg #[] script).added = none := by
  constructor <;> rfl

end Kpiece

/-! ## LBKPIECE1 (lazy bidirectional KPIECE; the user of `Discretization::removeMotion`)

Model `OmplModel.LBKPIECE1` (Model/LBKPIECE1.lean): both trees in one arena of motions (state, parent index, valid flag,
children, tree, ghost `alive`), generic over every oracle.  "Every script" = every list of per-iteration draws. -/
section Lbkpiece
open OmplModel.Disc OmplModel.LBKPIECE1 OmplModel.PlannerReport
variable {S α : Type} [Num α] [HasLog α]

/-- **The `valid` flag is sound**, for every configuration, start set and script (every interruption point, across
every lazy validation, subtree removal and re-add): a motion without parent is a root -- flagged valid, its state a
problem start (start tree) or a goal sample (goal tree) that passed the input filter; any other motion's parent was
created before it, and if its `valid` flag is set then the edge from the parent is justified (`Link`): `checkMotion(parent,
motion)` was answered `true` (that is the only place the flag is set, inside `isPathValid`), or the motion is the
re-added `lastValid.first` of a motion from that parent that failed with `lastValid.second > minValidPathFraction_`. -/
theorem lbkpiece_valid_flag_sound (cfg : LBKPIECE1.Cfg S α) (starts : Array S) (script : List (LBKPIECE1.Draw S α)) :
    LBKPIECE1.ArInv cfg starts (LBKPIECE1.solve cfg starts script).final.ar :=
  LBKPIECE1.solve_inv cfg starts script

/-- one successful `isPathValid` walk: the arena invariant is kept, nothing is removed or added, no flag is cleared,
and afterwards EVERY motion of the walked chain that has a parent is flagged valid -- lazy validation is complete for
the chain it answers `true` for (with `lbkpiece_valid_flag_sound`: every edge of that chain is justified). -/
theorem lbkpiece_isPathValid_complete (cfg : LBKPIECE1.Cfg S α) (starts : Array S) (t : Bool) (ids : List Nat)
    (st : LBKPIECE1.St S α) (h : LBKPIECE1.ArInv cfg starts st.ar) (ht : (validateFrom cfg t ids st).1 = true) :
    LBKPIECE1.ArInv cfg starts (validateFrom cfg t ids st).2.ar ∧
    LBKPIECE1.Frame st.ar (validateFrom cfg t ids st).2.ar ∧
    ∀ i ∈ ids, ∀ m, (validateFrom cfg t ids st).2.ar[i]? = some m → m.parent ≠ none → m.valid = true :=
  ⟨(validateFrom_inv t ids st h).1, ((validateFrom_inv t ids st h).2 ht).1, ((validateFrom_inv t ids st h).2 ht).2.2⟩

/-- **every arena LBKPIECE1 reaches is a forest as its `children` lists see it** (all motions ever created, freed ones
as ghosts): a listed child points back to the lister (`parent`) and is younger; no list has a repetition; a live motion
with a parent is listed by that parent, which is live; the children of a live motion are live.  For every configuration
(every oracle), start set and script. -/
theorem lbkpiece_forest (cfg : LBKPIECE1.Cfg S α) (hcoord : ∀ s, (cfg.coord s).length = cfg.P.dim) (starts : Array S)
    (script : List (LBKPIECE1.Draw S α)) : LBKPIECE1.Forest (LBKPIECE1.solve cfg starts script).final.ar :=
  solve_forest cfg hcoord starts script

/-- **`removeMotion` removes exactly the motion and its descendants, each once.**  In a forest arena, for a live motion
`i`: afterwards the arena is a forest again; the free list grew by a list `L` without repetition whose members are exactly
the motions reachable from `i` through `children` lists (`i` included), every one of them live before the call (nothing
is freed twice); a motion is live afterwards exactly when it was live before and is not such a descendant; and no state,
parent index, tree membership or `valid` flag of any motion changed (`FrameV`). -/
theorem lbkpiece_remove_subtree (cfg : LBKPIECE1.Cfg S α) (t : Bool) (st : LBKPIECE1.St S α)
    (hF : LBKPIECE1.Forest st.ar) {i : Nat} {m : LBKPIECE1.Motion S} (hm : st.ar[i]? = some m) (ha : m.alive = true) :
    (LBKPIECE1.Forest (removeSubtree cfg t (st.ar.size + 1) i true st).ar ∧
      ∃ L, (removeSubtree cfg t (st.ar.size + 1) i true st).freed = st.freed ++ L ∧ L.Nodup ∧
        (∀ k, k ∈ L ↔ LBKPIECE1.Desc st.ar i k) ∧
        (∀ k, k ∈ L → ∃ km, st.ar[k]? = some km ∧ km.alive = true) ∧
        ∀ (k : Nat) (km' : LBKPIECE1.Motion S), (removeSubtree cfg t (st.ar.size + 1) i true st).ar[k]? = some km' →
          (km'.alive = true ↔ (∃ km, st.ar[k]? = some km ∧ km.alive = true) ∧ ¬ LBKPIECE1.Desc st.ar i k)) ∧
    LBKPIECE1.FrameV st.ar (removeSubtree cfg t (st.ar.size + 1) i true st).ar :=
  ⟨removeSubtree_exact cfg t st hF hm ha, removeSubtree_frame cfg t _ i true st⟩

/-- the only call site of `removeMotion` (inside `isPathValid`) meets the precondition above -- the chain it walks
consists of live motions and the walk only sets `valid` flags before the removal --, keeps the forest, and a walk that
answers `true` removed and added nothing. -/
theorem lbkpiece_remove_call_site (cfg : LBKPIECE1.Cfg S α) (t : Bool) (i : Nat) (st : LBKPIECE1.St S α)
    (hF : LBKPIECE1.Forest st.ar) (hi : LBKPIECE1.AliveAt st.ar i) :
    LBKPIECE1.Forest (isPathValid cfg t i st).2.ar ∧
    ((isPathValid cfg t i st).1 = true →
      ∀ k : Nat, ((isPathValid cfg t i st).2.ar[k]?).map LBKPIECE1.proj = (st.ar[k]?).map LBKPIECE1.proj) :=
  isPathValid_forest cfg t i st hF hi

/-- **LBKPIECE1 reports only real solutions**, for every configuration (every oracle), start set and script: the
status is EXACT_SOLUTION exactly when `addSolutionPath` was called (INVALID_START / INVALID_GOAL / TIMEOUT add nothing),
and the path handed over is `SReal`: a start-tree part beginning at a problem start that passed the input filter, each
step a justified edge parent → child; a goal-tree part ending at a goal sample that passed the input filter, each step a
justified edge traversed child → parent; and the junction between them answered valid by `checkMotion`.  "Justified"
(`Link`) = answered `true` by `checkMotion` inside `isPathValid` during the run, or the re-added `lastValid.first` of a
failed motion with `lastValid.second > minValidPathFraction_`: lazy validation is complete for everything reported. -/
theorem lbkpiece_solution_real (cfg : LBKPIECE1.Cfg S α) (hcoord : ∀ s, (cfg.coord s).length = cfg.P.dim)
    (starts : Array S) (script : List (LBKPIECE1.Draw S α)) :
    ((LBKPIECE1.solve cfg starts script).status = .exactSolution ↔ (LBKPIECE1.solve cfg starts script).added.isSome = true) ∧
    (∀ path, (LBKPIECE1.solve cfg starts script).added = some path → LBKPIECE1.SReal cfg starts path) := by
  have hinit := initState_linv cfg hcoord starts
  have hsol := loop_sol hcoord script (initState cfg starts).1 hinit (by
    intro p hp
    have : (initState cfg starts).1.solved = none := by
      unfold initState; rw [addStarts_solved]
    rw [this] at hp; cases hp)
  unfold LBKPIECE1.solve
  simp only []
  split
  · exact ⟨by simp, by intro p hp; cases hp⟩
  · split
    · exact ⟨by simp, by intro p hp; cases hp⟩
    · split
      · rename_i path hp
        refine ⟨by simp, ?_⟩
        intro p' hp'
        simp only [Option.some.injEq] at hp'
        subst hp'
        exact hsol _ hp
      · refine ⟨?_, by intro p hp; cases hp⟩
        split <;> simp

/-- **LBKPIECE1 obeys the Discretization protocol on both trees**, for every script -- across lazy additions, failed
lazy validations with `removeMotion` of whole subtrees, and re-adds: the Discretization invariant of round 2 holds for
`dStart_` and for `dGoal_` with "the alive motions of that tree, each stored under the projection coordinate of its
state"; hence every motion still stored sits in exactly the cell of its coordinate, no cell is empty and the sizes match.
Also: every motion's parent and children belong to its own tree. -/
theorem lbkpiece_disc_inv (cfg : LBKPIECE1.Cfg S α) (hcoord : ∀ s, (cfg.coord s).length = cfg.P.dim)
    (starts : Array S) (script : List (LBKPIECE1.Draw S α)) :
    let st := (LBKPIECE1.solve cfg starts script).final
    DInv cfg.P st.dS (liveAr cfg true st.ar) ∧ DInv cfg.P st.dG (liveAr cfg false st.ar) ∧ Coh st.ar ∧
    (∀ t i x, (i, x) ∈ liveAr cfg t st.ar ↔ ∃ m, st.ar[i]? = some m ∧ m.alive = true ∧ m.inStart = t ∧ x = cfg.coord m.state) ∧
    st.dS.size = (liveAr cfg true st.ar).length ∧ st.dG.size = (liveAr cfg false st.ar).length := by
  intro st
  have h := solve_linv cfg hcoord starts script
  exact ⟨h.2.dS, h.2.dG, h.2.coh, fun t i x => mem_liveAr cfg t st.ar i x, h.2.dS.size, h.2.dG.size⟩

/-! non-vacuity of `lbkpiece_remove_subtree`: a root with a child is a forest with both motions live (so the hypotheses
hold with a non-trivial subtree), and on a concrete arena `0 → {1 → {3}, 2}` the recursion from `1` visits `[3, 1]`. -/
example (cfg : LBKPIECE1.Cfg S α) (s x : S) (st : LBKPIECE1.St S α) (h0 : st.ar = #[]) :
    let st1 := addMotion cfg st { state := s, parent := none, root := s, valid := true, children := [], inStart := true }
    let st2 := addMotion cfg st1 { state := x, parent := some 0, root := s, valid := false, children := [], inStart := true }
    LBKPIECE1.Forest st2.ar ∧ LBKPIECE1.AliveAt st2.ar 0 ∧ LBKPIECE1.AliveAt st2.ar st1.ar.size := by
  intro st1 st2
  have hF0 : LBKPIECE1.Forest st.ar := by
    rw [h0]; refine ⟨?_, ?_, ?_, ?_⟩ <;> intros <;> simp at *
  have hF1 : LBKPIECE1.Forest st1.ar := addMotion_forest cfg hF0 _ rfl rfl (fun p hp => by cases hp)
  have hsz : st.ar.size = 0 := by rw [h0]; rfl
  have ha0 : LBKPIECE1.AliveAt st1.ar 0 := by
    have := addMotion_new cfg st { state := s, parent := none, root := s, valid := true, children := [], inStart := true }
      (by intro h; cases h)
    rw [hsz] at this
    exact ⟨_, this, rfl⟩
  refine ⟨addMotion_forest cfg hF1 _ rfl rfl (fun p hp => by
      simp only [Option.some.injEq] at hp; subst hp; exact ha0), addMotion_aliveAt cfg st1 _ ha0,
    ⟨_, addMotion_new cfg st1 _ (parent_ne_size ha0), rfl⟩⟩

def arenaEx : Array (LBKPIECE1.Motion Nat) :=
  #[{ state := 0, parent := none, root := 0, valid := true, children := [1, 2], inStart := true },
    { state := 1, parent := some 0, root := 0, valid := false, children := [3], inStart := true },
    { state := 2, parent := some 0, root := 0, valid := false, children := [], inStart := true },
    { state := 3, parent := some 1, root := 0, valid := false, children := [], inStart := true }]
example : LBKPIECE1.subtree arenaEx 5 1 = [3, 1] ∧ LBKPIECE1.subtree arenaEx 5 0 = [3, 1, 2, 0] := by decide

/-! non-vacuity -/
example (cfg : LBKPIECE1.Cfg S α) (h : cfg.coord = fun _ => List.replicate cfg.P.dim 0) :
    ∀ s, (cfg.coord s).length = cfg.P.dim := by intro s; simp [h]
/-- the empty arena satisfies the invariants, and a two-state `SReal` path exists as soon as a valid start, a valid goal
sample and a valid motion between them do -/
example (cfg : LBKPIECE1.Cfg S α) (starts : Array S) (a b : S) (ha : LBKPIECE1.ValidStart cfg starts a)
    (hb : LBKPIECE1.ValidGoal cfg b) (hab : (cfg.checkMotion a b).1 = true) : LBKPIECE1.SReal cfg starts [a, b] :=
  ⟨[a], [b], rfl, trivial, trivial, ⟨a, rfl, ha⟩, ⟨b, rfl, hb⟩, ⟨a, b, rfl, rfl, Or.inl (Or.inl hab)⟩⟩
example (cfg : LBKPIECE1.Cfg S α) (a b : S) (h : (cfg.checkMotion a b).1 = true) : LBKPIECE1.Link cfg a b := Or.inl h
example (cfg : LBKPIECE1.Cfg S α) (script : List (LBKPIECE1.Draw S α)) :
    (LBKPIECE1.solve cfg #[] script).status = .invalidStart := rfl

end Lbkpiece

/-! ## plain GridN with the split protocol (createCell / add / remove-without-add / remove)

Model `OmplModel.GridN` (Model/GridN.lean).  `createCell` updates the counters of the adjacent cells of the grid at once;
the cell it returns is not yet in the grid ("pending"); `remove` on it -- without `add` -- is the documented way to undo
that.  Histories: `run cfg ops` over `create x d` (absent coordinate, no pending cell), `add`, `abandon`
(`remove(pending)` + `destroyCell`), `rm x` (present cell, no pending cell). -/
section PlainGridN
open OmplModel.GridN

/-- **The counters are exact after every history**, including histories that create a cell next to present cells and
give it back without ever adding it: every cell of the grid has
`neighbors = #cells of the grid one step away + #boundary dimensions + (1 if the created-not-yet-added cell is one step
away)` and `border ↔ neighbors < interiorCellNeighborsLimit_`; the pending cell itself carries
`#cells of the grid one step away + #boundary dimensions`.  So what the count counts is the created-and-not-removed cells
(of the grid, or pending) one step away, plus the bounds; whenever no cell is pending it is exactly the property's
"actual neighbours and the configured bounds".  For every dimension, bounds and limit. -/
theorem gridN_counts_exact (cfg : Cfg) (ops : List GridN.Op) (hv : ∀ op ∈ ops, op.valid cfg.dim) :
    let g := GridN.run cfg ops
    (∀ c ∈ g.cells,
      c.nbrs = (neighbors cfg.dim g.cells c.coord).length + boundaryDims cfg c.coord + pend cfg g c.coord ∧
      (c.border = true ↔ c.nbrs < cfg.limit)) ∧
    (g.pending = none → ∀ c ∈ g.cells,
      c.nbrs = (neighbors cfg.dim g.cells c.coord).length + boundaryDims cfg c.coord) ∧
    (∀ p, g.pending = some p → has g.cells p.coord = false ∧
      p.nbrs = (neighbors cfg.dim g.cells p.coord).length + boundaryDims cfg p.coord ∧
      (p.border = true ↔ p.nbrs < cfg.limit)) := by
  intro g
  have h := GridN.run_inv cfg ops hv
  refine ⟨?_, ?_, ?_⟩
  · intro c hc
    refine ⟨by rw [h.count c hc, cnt_eq_neighbors], ?_⟩
    rw [h.border c hc]; simp
  · intro hp c hc
    have := h.count c hc
    unfold pend at this
    rw [hp] at this
    simp only [Nat.add_zero] at this
    rw [this, cnt_eq_neighbors]
  · intro p hp
    obtain ⟨h1, _, h3, h4⟩ := h.pending p hp
    refine ⟨h1, by rw [h3, cnt_eq_neighbors], ?_⟩
    rw [h4]; simp

/-! non-vacuity: the seeded history (a plus without its west arm; the west arm created and abandoned twice) keeps the
centre at 3 neighbours, a border cell at the default limit 4 -/
def cfgN : Cfg := { dim := 2, limit := 4, ltE := fun _ _ => false, ltI := fun _ _ => false, ev := fun c => c.data }
def opsN : List GridN.Op :=
  [.create [0, 0] 1, .add, .create [0, 1] 2, .add, .create [0, -1] 3, .add, .create [1, 0] 4, .add,
   .create [-1, 0] 5, .abandon, .create [-1, 0] 6, .abandon]
example : ∀ op ∈ opsN, op.valid cfgN.dim := by simp [opsN, GridN.Op.valid, cfgN]
example : ((GridN.run cfgN opsN).cells.map (fun c => (c.coord, c.nbrs, c.border))) =
    [([0, 0], 3, true), ([0, 1], 1, true), ([0, -1], 1, true), ([1, 0], 1, true)] := by decide
/-- while the west arm is pending the centre counts it (4: interior) -/
example : ((GridN.run cfgN (opsN.take 9)).cells.map (fun c => (c.coord, c.nbrs, c.border))).head? =
    some ([0, 0], 4, false) := by decide

end PlainGridN

/-! ## GridB with the split protocol (createCell … add | remove-without-add), round 10

Model `OmplModel.GridS` (Model/GridSplit.lean): `createCell` runs the whole neighbour loop of `GridB::createCell` (counter,
border flip, update event, heap update or migration of every adjacent cell) and returns a cell that is in neither the hash
table nor a heap; `add` is `GridB::add`; `abandon` is `GridB::remove` AS CODED on the never-added cell (+ `destroyCell`).
Inside the window `update`/`updateAll` are allowed; `createCell` of a second cell, `remove` of a grid cell and `clear` are
not.  The fused steps `new`/`rm`/`clear` of the first section are part of the alphabet, so "every history" here contains
every history there. -/
section SplitGridB
open OmplModel.GridS

/-- **lookups find exactly the cells present, for every history**: the coordinates in `hash_` are -- in insertion order --
exactly those the abstract history `specRun` leaves (created and added, not removed since, not cleared), none twice; the
pending cell is the one created and neither added nor given back; `has` answers membership in that abstract set. -/
theorem gridB_split_cells_exact (cfg : Cfg) (ops : List GridS.Op) (hv : ∀ op ∈ ops, op.valid cfg.dim) :
    let s := GridS.run cfg ops
    s.g.cells.map (·.coord) = (specRun ops).1 ∧ s.pending.map (·.coord) = (specRun ops).2 ∧
    ((specRun ops).1).Nodup ∧ (∀ x, has s.g.cells x = true ↔ x ∈ (specRun ops).1) ∧
    (∀ y, (specRun ops).2 = some y → y ∉ (specRun ops).1) := by
  intro s
  obtain ⟨h1, h2⟩ := run_coords (cfg := cfg) ops hv
  have hi : InvS cfg s := run_invS ops hv
  have hb : Base cfg s.g ∧ ∀ p, s.pending = some p → has s.g.cells p.coord = false := by
    unfold InvS at hi
    split at hi
    · rename_i hp; exact ⟨hi.toBase, fun p h => by rw [hp] at h; cases h⟩
    · rename_i p hp; exact ⟨hi.toBase, fun q h => by rw [hp] at h; cases h; exact hi.pabs⟩
  refine ⟨h1, h2, by rw [← h1]; exact hb.1.nodup, fun x => by rw [← h1, has_eq_decide_mem]; simp only [decide_eq_true_eq]; exact Iff.rfl, ?_⟩
  intro y hy
  rw [← h2] at hy
  cases hp : s.pending with
  | none => rw [hp] at hy; cases hy
  | some p =>
    rw [hp] at hy
    have : p.coord = y := by simpa using hy
    have := this ▸ hb.2 p hp
    rw [← h1]
    rw [has_eq_decide_mem] at this
    simpa using this

/-- the counter contribution of the pending cell: 1 for the cells one step away from it -/
def pendS (cfg : Cfg) (s : GridS) (x : Coord) : Nat :=
  match s.pending with
  | some p => if p.coord ∈ neighborCoords cfg.dim x then 1 else 0
  | none => 0

/-- **GridNInv ∧ GridBInv after every split history**: distinct coordinates of the right length; each cell of the grid in
exactly one queue, external iff border, with its current key; each counter = present cells one step away + boundary
dimensions + (1 if the created-not-yet-added cell is one step away), border iff counter < limit; the pending cell is in
NEITHER queue (its id is no cell's id, and the queues hold exactly the cells' ids), absent from `hash_`, and carries
exactly the count and flag `add` will file it under.  With no cell pending this is the invariant of the fused protocol. -/
theorem gridB_split_inv (cfg : Cfg) (ops : List GridS.Op) (hv : ∀ op ∈ ops, op.valid cfg.dim) :
    let s := GridS.run cfg ops
    WF cfg.dim s.g.cells ∧
    (qids s.g.external ++ qids s.g.internal).Perm (s.g.cells.map (·.id)) ∧ (s.g.cells.map (·.id)).Nodup ∧
    (∀ c ∈ s.g.cells, (c.id ∈ qids s.g.external ↔ c.border = true) ∧ (c.id ∈ qids s.g.internal ↔ c.border = false)) ∧
    s.g.external.items.Perm (side (·.border) s.g.cells) ∧ s.g.internal.items.Perm (side (fun c => !c.border) s.g.cells) ∧
    (∀ c ∈ s.g.cells,
      c.nbrs = (neighbors cfg.dim s.g.cells c.coord).length + boundaryDims cfg c.coord + pendS cfg s c.coord ∧
      (c.border = true ↔ c.nbrs < cfg.limit)) ∧
    (∀ p, s.pending = some p → has s.g.cells p.coord = false ∧ p.coord.length = cfg.dim ∧
      p.id ∉ s.g.cells.map (·.id) ∧ p.id ∉ qids s.g.external ++ qids s.g.internal ∧
      p.nbrs = (neighbors cfg.dim s.g.cells p.coord).length + boundaryDims cfg p.coord ∧
      (p.border = true ↔ p.nbrs < cfg.limit)) := by
  intro s
  have hi : InvS cfg s := run_invS ops hv
  unfold InvS at hi
  split at hi
  · rename_i hp
    have hb := hi.toBase
    refine ⟨⟨hb.nodup, hb.len⟩, hb.queues_perm, hb.idnd, fun c hc => ⟨hb.ext_iff_border hc, hb.int_iff_interior hc⟩,
      hb.ext, hb.int, ?_, fun p h => by rw [hp] at h; cases h⟩
    intro c hc
    refine ⟨by simp only [pendS, hp, hi.count c hc, cnt_eq_neighbors, Nat.add_zero], ?_⟩
    rw [hb.border c hc]; simp
  · rename_i p hp
    have hb := hi.toBase
    refine ⟨⟨hb.nodup, hb.len⟩, hb.queues_perm, hb.idnd, fun c hc => ⟨hb.ext_iff_border hc, hb.int_iff_interior hc⟩,
      hb.ext, hb.int, ?_, ?_⟩
    · intro c hc
      refine ⟨by simp only [pendS, hp, hi.count c hc, cnt_eq_neighbors], ?_⟩
      rw [hb.border c hc]; simp
    · intro q hq
      rw [hp] at hq; cases hq
      have hid : p.id ∉ s.g.cells.map (·.id) := by
        intro hm
        obtain ⟨c, hc, he⟩ := List.mem_map.1 hm
        have := hb.idlt c hc
        rw [he, hi.pid] at this
        omega
      refine ⟨hi.pabs, hi.plen, hid, fun hm => hid (hb.queues_perm.mem_iff.1 hm), by rw [hi.pcount, cnt_eq_neighbors], ?_⟩
      rw [hi.pborder]; simp

/-- `GridB::remove` on the created-but-never-added cell answers `false` ("not in the grid") after having undone
`createCell`'s neighbour loop: the next state satisfies the no-pending invariant (previous theorem on `ops ++ [abandon]`)
with the same cells in `hash_`. -/
theorem gridB_split_abandon_false (cfg : Cfg) (ops : List GridS.Op) (hv : ∀ op ∈ ops, op.valid cfg.dim) (p : Cell)
    (hp : (GridS.run cfg ops).pending = some p) :
    (GridS.abandon cfg (GridS.run cfg ops).g p).2 = false ∧
    (GridS.abandon cfg (GridS.run cfg ops).g p).1.cells.map (·.coord) = (GridS.run cfg ops).g.cells.map (·.coord) ∧
    (GridS.run cfg (ops ++ [.abandon])).pending = none := by
  have hi : InvS cfg (GridS.run cfg ops) := run_invS ops hv
  unfold InvS at hi
  rw [hp] at hi
  have h := abandon_inv (show InvP cfg (GridS.run cfg ops).g p from hi)
  refine ⟨h.2.1, h.2.2, ?_⟩
  unfold GridS.run
  rw [List.foldl_append]
  show (GridS.step cfg (GridS.run cfg ops) .abandon).pending = none
  unfold GridS.step
  rw [hp]

/-- **create … remove-without-add is an exact undo** (the clause seeded change C13-s4 broke for plain GridN, here for
GridB): after `createCell(x)` followed by `remove` + `destroyCell` of that cell -- with `update`/`updateAll` calls in
between -- the grid holds the same coordinates and every cell has the counter and the border flag it had before. -/
theorem gridB_split_create_abandon_restores (cfg : Cfg) (ops : List GridS.Op) (hv : ∀ op ∈ ops, op.valid cfg.dim)
    (x : Coord) (d : Int) (hx : x.length = cfg.dim) (mid : List GridS.Op)
    (hmid : ∀ op ∈ mid, (∃ y e, op = .upd y e) ∨ (∃ chg, op = .updAll chg))
    (hnone : (GridS.run cfg ops).pending = none) :
    let s := GridS.run cfg ops
    let s' := GridS.run cfg (ops ++ [.create x d] ++ mid ++ [.abandon])
    s'.pending = none ∧ s'.g.cells.map (·.coord) = s.g.cells.map (·.coord) ∧
    ∀ c ∈ s.g.cells, ∀ c' ∈ s'.g.cells, c'.coord = c.coord → c'.nbrs = c.nbrs ∧ c'.border = c.border := by
  intro s s'
  have hv' : ∀ op ∈ ops ++ [GridS.Op.create x d] ++ mid ++ [.abandon], op.valid cfg.dim := by
    intro op ho
    simp only [List.mem_append, List.mem_cons, List.not_mem_nil, or_false] at ho
    rcases ho with ((ho | rfl) | ho) | rfl
    · exact hv op ho
    · exact hx
    · rcases hmid op ho with ⟨y, e, rfl⟩ | ⟨chg, rfl⟩ <;> trivial
    · trivial
  obtain ⟨a1, a2⟩ := run_coords (cfg := cfg) ops hv
  obtain ⟨b1, b2⟩ := run_coords (cfg := cfg) _ hv'
  -- the abstract history: `mid` changes nothing, `abandon` drops the pending coordinate
  have hspec : specRun (ops ++ [GridS.Op.create x d] ++ mid ++ [.abandon]) = ((specRun ops).1, none) := by
    have hmidspec : ∀ (mid : List GridS.Op) (sp : List Coord × Option Coord),
        (∀ op ∈ mid, (∃ y e, op = GridS.Op.upd y e) ∨ (∃ chg, op = GridS.Op.updAll chg)) → mid.foldl spec sp = sp := by
      intro mid
      induction mid with
      | nil => intro sp _; rfl
      | cons o mid ih =>
        intro sp h
        rw [List.foldl_cons]
        have : spec sp o = sp := by
          rcases h o List.mem_cons_self with ⟨y, e, rfl⟩ | ⟨chg, rfl⟩ <;> (obtain ⟨P, q⟩ := sp; cases q <;> rfl)
        rw [this]
        exact ih sp (fun o' ho' => h o' (List.mem_cons_of_mem _ ho'))
    unfold specRun
    rw [List.foldl_append, List.foldl_append, List.foldl_append, hmidspec mid _ hmid]
    have hq : (List.foldl spec ([], none) ops).2 = none := by
      have := a2; unfold specRun at this; rw [← this, hnone]; rfl
    generalize List.foldl spec ([], none) ops = sp at hq ⊢
    obtain ⟨P, q⟩ := sp
    simp only at hq
    subst hq
    show spec (spec (P, none) (.create x d)) .abandon = (P, none)
    show spec (if P.contains x then (P, none) else (P, some x)) .abandon = (P, none)
    split <;> rfl
  rw [hspec] at b1 b2
  have hpend : s'.pending = none := by
    cases h : s'.pending with
    | none => rfl
    | some q => rw [h] at b2; cases b2
  refine ⟨hpend, b1.trans a1.symm, ?_⟩
  have hi : InvS cfg s := run_invS ops hv
  have hi' : InvS cfg s' := run_invS _ hv'
  unfold InvS at hi hi'
  rw [hnone] at hi
  rw [hpend] at hi'
  intro c hc c' hc' hcc
  have e1 : c'.nbrs = c.nbrs := by
    rw [hi'.count c' hc', hi.count c hc, hcc]
    exact cnt_congr (b1.trans a1.symm) _
  exact ⟨e1, by rw [hi'.border c' hc', hi.border c hc, e1]⟩

/-- `components()` (the queue-based flood fill as coded, duplicate entries erased) on EVERY reachable state -- inside
the window too -- is the partition of the present cells by the neighbour relation: `components_partition` composed with
`gridB_split_inv`; an observer that remembered an earlier answer (seeded C13-s7) contradicts it. -/
theorem gridB_split_components (cfg : Cfg) (ops : List GridS.Op) (hv : ∀ op ∈ ops, op.valid cfg.dim) :
    let cells := (GridS.run cfg ops).g.cells
    (components cfg.dim cells).flatten.Perm cells ∧
    (∀ comp ∈ components cfg.dim cells, ∀ a ∈ comp, ∀ b ∈ cells, (b ∈ comp ↔ Reach cfg.dim cells a.coord b.coord)) ∧
    (∀ comp ∈ components cfg.dim cells, comp ≠ []) ∧
    (components cfg.dim cells).Pairwise (fun a b => a.length ≥ b.length) :=
  components_partition (gridB_split_inv cfg ops hv).1

/-- the tops are the best cells of the GRID after every split history, also inside the create…add window (the pending
cell is in no queue and cannot be returned) -/
theorem gridB_split_tops_best (cfg : Cfg) (ok : CmpOK cfg) (ops : List GridS.Op) (hv : ∀ op ∈ ops, op.valid cfg.dim) :
    TopsBest cfg (GridS.run cfg ops).g := by
  have hi : InvS cfg (GridS.run cfg ops) := run_invS ops hv
  have hb : Base cfg (GridS.run cfg ops).g := by
    unfold InvS at hi
    split at hi
    · exact hi.toBase
    · exact hi.toBase
  exact tops_best_of_base ok hb (run_orderedS ok ops)

/-- the fused protocol of the first section (and of `Discretization::addMotion`: createCell, data, add) is the split
protocol with every `new` replayed as `create` then `add`: same state, field by field (heap arrays included) -/
theorem gridB_split_refines (cfg : Cfg) (ops : List Grid.Op) :
    GridS.run cfg (ops.flatMap ofOp) = { g := Grid.run cfg ops, pending := none } :=
  run_ofOp cfg ops

/-! non-vacuity on `cfg0` (2-D, bounds [0,1]², limit 3): the corner cell [0,0] (2 boundary dimensions) is a border cell;
while [0,1] is pending it counts 3 and sits in the internal queue; giving [0,1] back moves it to the external queue
again; creating and adding it makes both interior. -/
def opsS : List GridS.Op :=
  [.new [0, 0] 5, .create [0, 1] 7, .upd [0, 0] 9, .abandon, .create [0, 1] 7, .updAll [([0, 0], 4)], .add]
example : ∀ op ∈ opsS, op.valid cfg0.dim := by simp [opsS, GridS.Op.valid, cfg0]
example : specRun opsS = ([[0, 0], [0, 1]], none) ∧ specRun (opsS.take 2) = ([[0, 0]], some [0, 1]) := by decide
example : ((GridS.run cfg0 (opsS.take 3)).g.cells.map (fun c => (c.coord, c.nbrs, c.border, c.data))) = [([0, 0], 3, false, 9)] ∧
    ((GridS.run cfg0 (opsS.take 3)).pending.map (fun c => (c.coord, c.nbrs, c.border))) = some ([0, 1], 3, false) := by decide
example : ((GridS.run cfg0 (opsS.take 4)).g.cells.map (fun c => (c.coord, c.nbrs, c.border))) = [([0, 0], 2, true)] ∧
    (GridS.run cfg0 (opsS.take 4)).pending.isNone = true := by decide
example : (GridS.abandon cfg0 (GridS.run cfg0 (opsS.take 3)).g ⟨1, [0, 1], 7, 3, false, 0⟩).2 = false := by decide
example : ((GridS.run cfg0 opsS).g.cells.map (fun c => (c.coord, c.nbrs, c.border))) =
    [([0, 0], 3, false), ([0, 1], 3, false)] := by decide

/-- **no stale key**: after every history -- split or fused, inside or outside the create…add window, every event,
functor, bounds and limit -- the data of every cell of the grid is the update event's output for that cell's CURRENT
neighbour counter and border flag (fed with some earlier data): `createCell`, `remove` (also of a never-added cell),
`add`, `update`, `updateAll` never move a counter or a flag without re-running `eventCellUpdate_` on that cell.  (That
the heaps then hold this data as the key, in heap order, is `gridB_split_inv` + `gridB_split_tops_best`.)  This is the
oracle clause "data = event(last written, current count)" as a theorem; mutant MB2 (event skipped when the removed cell
was never added) is its negation. -/
theorem gridB_keys_fresh (cfg : Cfg) (ops : List GridS.Op) :
    ∀ c ∈ (GridS.run cfg ops).g.cells, ∃ d0 h0, c.data = cfg.ev { c with data := d0, helem := h0 } :=
  run_fresh cfg ops

/-! non-vacuity: with an event that writes the counter into the data, the corner cell's data follows the counter through
create (3) and remove-without-add (2); a cell whose data disagrees with its counter is not `Fresh`. -/
def cfgE : Cfg := { cfg0 with ev := fun c => c.nbrs }
example : ((GridS.run cfgE (opsS.take 2)).g.cells.map (fun c => (c.coord, c.nbrs, c.data))) = [([0, 0], 3, 3)] := by decide
example : ((GridS.run cfgE (opsS.take 4)).g.cells.map (fun c => (c.coord, c.nbrs, c.data))) = [([0, 0], 2, 2)] := by decide
example : ¬ Fresh cfgE { id := 0, coord := [0, 0], data := 5, nbrs := 2 } := by
  rintro ⟨d0, h0, h⟩
  simp [cfgE] at h

end SplitGridB

end OmplModel.Props.C13
