import OmplModel.Model.Grid
/-! C13 property theorems (placeholder while the proofs are being written). -/
namespace OmplModel.Props.C13
open OmplModel.Grid

theorem clear_cells (g : GridB) : (clear g).cells = [] := rfl

end OmplModel.Props.C13
