import OmplModel.Proofs.VanaOwenAF
import OmplModel.Proofs.VanaOwenReal
/-!
# C14 — VanaOwenStateSpace (decoupled 3D Dubins with Owen's helix / initial turn): what is proved about `Model/VanaOwen.lean`

`VanaOwenStateSpace::getPath` runs boost root searches inside its radius search and is NOT modelled: the `PathType` the
real code returns is a recorded answer (`VOPath`: the horizontal word `pathXY_`, the profile word `pathSZ_` in the
(arc length, altitude) plane, the two radii, `phi_`, `numTurns_`, `startSZ_`).  The model recomputes
`interpolate(from, to, t, path, state)` (`voInterp`), `PathType::length()` (`VOPath.len`) and `PathType::category()`
(`VOPath.category`) from it.  The theorems are therefore about an ARBITRARY `VOPath`, plus end-point / length theorems
under explicit hypotheses about its two words.  Helper definitions and lemmas: `Proofs/VanaOwenAF.lean` (names for the
pieces of `interpolate`: `hpose`, `voFin`, `lengthSpiral`, `lengthPath`, `lengthTurn`, `voBranch`, `voStart`, `voEnd`),
`Proofs/VanaOwenReal.lean`.

Tags: **[AF]** arithmetic-free (generic over `[DNum α]`, no arithmetic law used: holds for the `Float` instance the
driver runs); **[EX]** exact arithmetic over ℝ (instance of `Proofs/DubinsReal.lean`).

What is proved
* [AF] `vo_interp_branches`: `to` for `1 ≤ t`; `from` when that test fails and `t ≤ 0`; otherwise the interior branch, and
  in EVERY category (low / high / medium / the unnamed fourth) altitude and pitch are those of the vertical profile
  `pathSZ_` interpolated at `t` from `startSZ_` with the vertical radius.
* [AF] `vo_isZero_iff`, `vo_category_cases`: `category()` is `L` iff `phi_` and `numTurns_` both compare equal to zero,
  `H` iff only `phi_` does, `M` iff only `numTurns_` does, `?` otherwise.  [AF] `vo_length_eq`: `length() = rv·(t + p + q)`
  of the profile word.
* [AF] the horizontal part per category, as equations about `voInterp` under the branch tests the code evaluates:
  `vo_interp_low` (the horizontal word at `t`, yaw wrapped once more), `vo_interp_high_spiral` (`turn(from, rh, dist/rh)`
  while `¬ lengthSpiral < dist`), `vo_interp_high_word` (the word at `(dist − lengthSpiral)/lengthPath`),
  `vo_interp_medium_turn` (`turn(from, rh, ±dist/rh)`, sign of `phi_`), `vo_interp_medium_word` (the word from the turned
  pose `turn(from, rh, phi_)` at `(dist − lengthTurn)/lengthPath`).
* [EX] `vo_turn_length`: `turn` is ONE unit-radius arc of the Dubins vehicle model of length `|angle|` (left for a positive
  angle, right otherwise), scaled by the radius — so the arc driven has length `r·|angle|`.  [EX] `vo_turn_on_circle`: it stays
  on the circle of radius `r` to the left (positive angle) / right of the start pose, and the chord it spans is `≤ r·|angle|`.
* [EX] `vo_high_spiral_is_circles`: for `rh > 0`, `numTurns_ = k ≥ 1`: at horizontal distance `2π·rh·j`, `j ≤ k`, the helix
  is back at `(x, y)` of `from` with heading `yaw + 2πj` (reported yaw: `wrap(yaw)`), and during the whole helix the
  position is exactly `rh` away from the centre `(x − rh·sin yaw, y + rh·cos yaw)`.
* [EX] `vo_medium_turn_arc`: during the initial turn of a medium-altitude path the angle driven has the sign of `phi_`, is
  at most `|phi_|` in magnitude, and its arc length `rh·|angle|` is exactly the horizontal distance `dist`.
* [EX] `vo_end_is_interior_limit`: for a horizontal word of positive length the interior branch evaluated at the limit
  parameter `t = 1` is `voEnd` (whole profile, whole horizontal word from `voStart`) in every category; `voInterp` itself
  returns `to` there.
* [EX] `vo_end_reaches_target`, `vo_end_reaches_target_exact`: if the horizontal word is a solver output for the normalised
  triple of `(voStart, (x, y, yaw) of to)` at radius `rh` and the profile word a solver output for the normalised triple of
  `(startSZ_, (S, z(to), pitch(to)))` at radius `rv` (hypotheses of `C14W.dubins_interpolate_reaches_target`, once per
  word; `S` arbitrary), then `voEnd` is the target in x, y, z, pitch and yaw (angles modulo 2π / wrapped into `[-π, π)`;
  the target itself when its angles are in range).
* [EX] `vo_length_ge_profile_line`: for a profile solver word for horizontal length `S` and altitude difference `Δz`,
  `√(S² + Δz²) ≤ length()` and `|Δz| ≤ length()`.  [EX] `vo_length_ge_straight_line`: if moreover the horizontal word is a
  solver output from `voStart`, `numTurns_ ≥ 0` and `S ≥ rh·(|pathXY_| + 2π·numTurns_ + |phi_|)` (the value the code uses
  in each category), then `√(Δx² + Δy² + Δz²) ≤ length()` in every category.

What is NOT proved
* anything about `getPath` / `decoupled`: the root searches (TOMS748, bracket_and_solve_root), the radius doubling and
  optimisation, the category decision, the number of turns; that a path is found (finding F145: no path);
* that the recorded path satisfies the word hypotheses of `vo_end_reaches_target` / `vo_length_ge_straight_line` (the
  `dubinsStates` glue gap documented in `Props/C14W.lean`; the oracle checks the end point on the implementation);
* that the horizontal and the vertical parametrisation agree in arc length for `0 < t < 1`: x, y advance by horizontal
  distance `t·length_h` while z, pitch follow the profile word at fraction `t` of ITS length — the construction of
  `VanaStateSpace` (cf. finding F128); only the limit `t = 1` is covered;
* the pitch limits along the profile; minimality of the path; floating-point rounding (for the [EX] theorems).
-/
namespace OmplModel.Props.C14VO
open OmplModel OmplModel.Dubins OmplModel.Owen OmplModel.Vana OmplModel.VanaOwen

/-! ## [AF] -/
section AF
variable {α : Type} [DNum α]

/-- [AF] **`interpolate(from, to, t, path, ·)`, the branches.**  `to` for `1 ≤ t`; `from` when that test fails and
`t ≤ 0`; otherwise the interior branch (`voBranch`: the code after the two shortcut returns), and whatever the category
of the path the altitude and the pitch are those of the vertical profile: `pathSZ_` interpolated at `t` from `startSZ_`
with the vertical radius (second coordinate = altitude, heading = pitch). -/
theorem vo_interp_branches (frm tgt : St5 α) (t : α) (p : VOPath α) :
    (1 ≤ t → voInterp frm tgt t p = tgt) ∧
    (¬ 1 ≤ t → t ≤ 0 → voInterp frm tgt t p = frm) ∧
    (¬ 1 ≤ t → ¬ t ≤ 0 →
      voInterp frm tgt t p = voBranch frm t p ∧
      (voInterp frm tgt t p).z = (interpPath p.rv p.startSZ p.sz t).y ∧
      (voInterp frm tgt t p).pitch = (interpPath p.rv p.startSZ p.sz t).th) := by
  refine ⟨fun h => ?_, fun h1 h0 => ?_, fun h1 h0 => ?_⟩
  · unfold voInterp; rw [if_pos h]
  · unfold voInterp; rw [if_neg h1, if_pos h0]
  · rw [voInterp_interior frm tgt t p h1 h0]
    refine ⟨rfl, ?_, ?_⟩
    · unfold voBranch
      split
      · split
        · rfl
        · split <;> rfl
      · split <;> rfl
    · unfold voBranch
      split
      · split
        · rfl
        · split <;> rfl
      · split <;> rfl

example (frm tgt : St5 α) (t : α) (p : VOPath α) (h : 1 ≤ t) : voInterp frm tgt t p = tgt :=
  (vo_interp_branches frm tgt t p).1 h
-- the state every interior case assembles
example (p : VOPath α) (t : α) (q : Pose α) :
    voFin p t q = ⟨q.x, q.y, (interpPath p.rv p.startSZ p.sz t).y, (interpPath p.rv p.startSZ p.sz t).th,
      so2Enforce q.th⟩ := rfl

/-- [AF] the zero test of `category()` / `interpolate` (`phi_ == 0`, `numTurns_ == 0` in the model's reading): neither `x < 0`
nor `0 < x`. -/
theorem vo_isZero_iff (x : α) : isZero x = true ↔ ¬ x < 0 ∧ ¬ 0 < x := isZero_iff x

example (x : α) (h1 : ¬ x < 0) (h2 : ¬ 0 < x) : isZero x = true := (vo_isZero_iff x).mpr ⟨h1, h2⟩

/-- [AF] **`PathType::category()`**: `L` (low altitude) iff `phi_` and `numTurns_` both pass the zero test, `H` (high) iff
`phi_` does and `numTurns_` does not, `M` (medium) iff `numTurns_` does and `phi_` does not, `?` iff neither does. -/
theorem vo_category_cases (p : VOPath α) :
    (p.category = "L" ↔ isZero p.phi = true ∧ isZero p.k = true) ∧
    (p.category = "H" ↔ isZero p.phi = true ∧ isZero p.k = false) ∧
    (p.category = "M" ↔ isZero p.phi = false ∧ isZero p.k = true) ∧
    (p.category = "?" ↔ isZero p.phi = false ∧ isZero p.k = false) := by
  cases ha : isZero p.phi <;> cases hb : isZero p.k <;>
    (rw [category_of p _ _ ha hb]; decide)

example (p : VOPath α) (h1 : isZero p.phi = true) (h2 : isZero p.k = false) : p.category = "H" :=
  (vo_category_cases p).2.1.mpr ⟨h1, h2⟩

/-- [AF] **`PathType::length()`** is the vertical radius times the three segment lengths of the profile word. -/
theorem vo_length_eq (p : VOPath α) : p.len = p.rv * (p.sz.t + p.sz.p + p.sz.q) := rfl

example (rh rv dz phi k t pp q : α) (xy : Path α) (st : Pose α) :
    (⟨xy, ⟨.LSL, t, pp, q, false⟩, rh, rv, dz, phi, k, st⟩ : VOPath α).len = rv * (t + pp + q) := vo_length_eq _

/-- [AF] **Low altitude** (`phi_` and `numTurns_` zero), `0 < t < 1`: x, y, yaw are those of the horizontal word `pathXY_`
interpolated at `t` from `(x, y, yaw)` of `from` with the horizontal radius, the yaw wrapped once more by `enforceBounds`. -/
theorem vo_interp_low (frm tgt : St5 α) (t : α) (p : VOPath α) (h1 : ¬ 1 ≤ t) (h0 : ¬ t ≤ 0)
    (hphi : isZero p.phi = true) (hk : isZero p.k = true) :
    voInterp frm tgt t p = voFin p t (interpPath p.rh (hpose frm) p.xy t) := by
  rw [voInterp_interior frm tgt t p h1 h0, voBranch_low frm t p hphi hk]

-- spelled out, and compared with `VanaStateSpace::interpolate(from, path, t, ·)` on the same fields
example (frm tgt : St5 α) (t : α) (p : VOPath α) (h1 : ¬ 1 ≤ t) (h0 : ¬ t ≤ 0)
    (hphi : isZero p.phi = true) (hk : isZero p.k = true) :
    voInterp frm tgt t p =
      ⟨(interpPathV frm ⟨p.rh, p.rv, p.xy, p.sz, p.startSZ⟩ t).x, (interpPathV frm ⟨p.rh, p.rv, p.xy, p.sz, p.startSZ⟩ t).y,
       (interpPathV frm ⟨p.rh, p.rv, p.xy, p.sz, p.startSZ⟩ t).z, (interpPathV frm ⟨p.rh, p.rv, p.xy, p.sz, p.startSZ⟩ t).pitch,
       so2Enforce (interpPathV frm ⟨p.rh, p.rv, p.xy, p.sz, p.startSZ⟩ t).yaw⟩ :=
  vo_interp_low frm tgt t p h1 h0 hphi hk

/-- [AF] **High altitude, on the helix** (`phi_` zero, `numTurns_` not; `dist = t·(lengthSpiral + lengthPath)` has not passed
`lengthSpiral = 2π·rh·numTurns_`): the horizontal pose is `turn(from, rh, dist / rh)`. -/
theorem vo_interp_high_spiral (frm tgt : St5 α) (t : α) (p : VOPath α) (h1 : ¬ 1 ≤ t) (h0 : ¬ t ≤ 0)
    (hphi : isZero p.phi = true) (hk : isZero p.k = false)
    (h : ¬ lengthSpiral p < t * (lengthSpiral p + lengthPath p)) :
    voInterp frm tgt t p = voFin p t (turn (hpose frm) p.rh (t * (lengthSpiral p + lengthPath p) / p.rh)) := by
  rw [voInterp_interior frm tgt t p h1 h0, voBranch_high_spiral frm t p hphi hk h]

example (p : VOPath α) : lengthSpiral p = twopi * p.rh * p.k ∧ lengthPath p = p.rh * (p.xy.t + p.xy.p + p.xy.q) ∧
    lengthTurn p = Num.abs p.phi * p.rh := ⟨rfl, rfl, rfl⟩

/-- [AF] **High altitude, after the helix** (`lengthSpiral < dist`): the horizontal word `pathXY_` from `from` at the fraction
`(dist − lengthSpiral) / lengthPath`. -/
theorem vo_interp_high_word (frm tgt : St5 α) (t : α) (p : VOPath α) (h1 : ¬ 1 ≤ t) (h0 : ¬ t ≤ 0)
    (hphi : isZero p.phi = true) (hk : isZero p.k = false)
    (h : lengthSpiral p < t * (lengthSpiral p + lengthPath p)) :
    voInterp frm tgt t p = voFin p t (interpPath p.rh (hpose frm) p.xy
      ((t * (lengthSpiral p + lengthPath p) - lengthSpiral p) / lengthPath p)) := by
  rw [voInterp_interior frm tgt t p h1 h0, voBranch_high_word frm t p hphi hk h]

/-- [AF] **Medium altitude, during the initial turn** (`phi_` not zero; `dist = t·(lengthTurn + lengthPath)` has not passed
`lengthTurn = |phi_|·rh`): the horizontal pose is `turn(from, rh, ±dist / rh)` with the sign of `phi_` (`-` iff `phi_ < 0`). -/
theorem vo_interp_medium_turn (frm tgt : St5 α) (t : α) (p : VOPath α) (h1 : ¬ 1 ≤ t) (h0 : ¬ t ≤ 0)
    (hphi : isZero p.phi = false) (h : ¬ lengthTurn p < t * (lengthTurn p + lengthPath p)) :
    voInterp frm tgt t p = voFin p t (turn (hpose frm) p.rh
      (if p.phi < 0 then -(t * (lengthTurn p + lengthPath p) / p.rh) else t * (lengthTurn p + lengthPath p) / p.rh)) := by
  rw [voInterp_interior frm tgt t p h1 h0, voBranch_medium_turn frm t p hphi h]

/-- [AF] **Medium altitude, after the initial turn** (`lengthTurn < dist`): the horizontal word `pathXY_` driven from the
turned pose `turn(from, rh, phi_)` at the fraction `(dist − lengthTurn) / lengthPath`.  (The value of `numTurns_` is not looked
at in the two medium cases: the unnamed fourth category is interpolated like `M`.) -/
theorem vo_interp_medium_word (frm tgt : St5 α) (t : α) (p : VOPath α) (h1 : ¬ 1 ≤ t) (h0 : ¬ t ≤ 0)
    (hphi : isZero p.phi = false) (h : lengthTurn p < t * (lengthTurn p + lengthPath p)) :
    voInterp frm tgt t p = voFin p t (interpPath p.rh (turn (hpose frm) p.rh p.phi) p.xy
      ((t * (lengthTurn p + lengthPath p) - lengthTurn p) / lengthPath p)) := by
  rw [voInterp_interior frm tgt t p h1 h0, voBranch_medium_word frm t p hphi h]

end AF

/- From here on everything is about ℝ; numerals must be Mathlib's (see Proofs/DubinsReal.lean). -/
attribute [-instance] Num.instOfNat
open DubinsR

/-! ## non-vacuity of the [AF] branch theorems: concrete paths over ℝ at concrete interior parameters -/

-- low altitude, `t = 1/2`
example (frm tgt : St5 ℝ) (xy sz : Path ℝ) (st : Pose ℝ) :
    voInterp frm tgt (1 / 2) ⟨xy, sz, 1, 1, 0, 0, 0, st⟩ =
      voFin ⟨xy, sz, 1, 1, 0, 0, 0, st⟩ (1 / 2) (interpPath 1 (hpose frm) xy (1 / 2)) :=
  vo_interp_low frm tgt _ _ (by rw [ofNat_one]; exact not_le.mpr (by norm_num))
    (by rw [ofNat_zero]; exact not_le.mpr (by norm_num)) ((isZero_real _).mpr rfl) ((isZero_real _).mpr rfl)
-- high altitude, one full circle of radius 1 then a unit straight line: `t = 1/2` is on the helix (`π + 1/2 ≤ 2π`)
example (frm tgt : St5 ℝ) (sz : Path ℝ) (st : Pose ℝ) :
    voInterp frm tgt (1 / 2) ⟨⟨.LSL, 0, 1, 0, false⟩, sz, 1, 1, 0, 0, 1, st⟩ =
      voFin ⟨⟨.LSL, 0, 1, 0, false⟩, sz, 1, 1, 0, 0, 1, st⟩ (1 / 2)
        (turn (hpose frm) 1 (1 / 2 * (2 * Real.pi * 1 * 1 + 1 * (0 + 1 + 0)) / 1)) := by
  have h := vo_interp_high_spiral frm tgt (1 / 2) ⟨⟨.LSL, 0, 1, 0, false⟩, sz, 1, 1, 0, 0, 1, st⟩
    (by rw [ofNat_one]; exact not_le.mpr (by norm_num)) (by rw [ofNat_zero]; exact not_le.mpr (by norm_num))
    ((isZero_real _).mpr rfl) ((isZero_real_false _).mpr one_ne_zero)
    (by
      rw [lengthSpiral_eq]
      show ¬ (2 * Real.pi * 1 * 1 < 1 / 2 * (2 * Real.pi * 1 * 1 + 1 * (0 + 1 + 0)))
      have := Real.two_le_pi
      exact not_lt.mpr (by linarith))
  rw [lengthSpiral_eq] at h
  exact h
-- the same path at `t = 9/10` is past the helix (`2π < 9/10·(2π + 1)`)
example (frm tgt : St5 ℝ) (sz : Path ℝ) (st : Pose ℝ) :
    voInterp frm tgt (9 / 10) ⟨⟨.LSL, 0, 1, 0, false⟩, sz, 1, 1, 0, 0, 1, st⟩ =
      voFin ⟨⟨.LSL, 0, 1, 0, false⟩, sz, 1, 1, 0, 0, 1, st⟩ (9 / 10)
        (interpPath 1 (hpose frm) ⟨.LSL, 0, 1, 0, false⟩
          ((9 / 10 * (2 * Real.pi * 1 * 1 + 1 * (0 + 1 + 0)) - 2 * Real.pi * 1 * 1) / (1 * (0 + 1 + 0)))) := by
  have h := vo_interp_high_word frm tgt (9 / 10) ⟨⟨.LSL, 0, 1, 0, false⟩, sz, 1, 1, 0, 0, 1, st⟩
    (by rw [ofNat_one]; exact not_le.mpr (by norm_num)) (by rw [ofNat_zero]; exact not_le.mpr (by norm_num))
    ((isZero_real _).mpr rfl) ((isZero_real_false _).mpr one_ne_zero)
    (by
      rw [lengthSpiral_eq]
      show 2 * Real.pi * 1 * 1 < 9 / 10 * (2 * Real.pi * 1 * 1 + 1 * (0 + 1 + 0))
      have := Real.pi_le_four
      linarith)
  rw [lengthSpiral_eq] at h
  exact h
-- medium altitude, initial turn of 1 rad at radius 1 then a unit straight line: `t = 1/4` is in the turn, `t = 3/4` past it
example (frm tgt : St5 ℝ) (sz : Path ℝ) (st : Pose ℝ) :
    voInterp frm tgt (1 / 4) ⟨⟨.LSL, 0, 1, 0, false⟩, sz, 1, 1, 0, 1, 0, st⟩ =
      voFin ⟨⟨.LSL, 0, 1, 0, false⟩, sz, 1, 1, 0, 1, 0, st⟩ (1 / 4)
        (turn (hpose frm) 1 (1 / 4 * (|1| * 1 + 1 * (0 + 1 + 0)) / 1)) := by
  have h := vo_interp_medium_turn frm tgt (1 / 4) ⟨⟨.LSL, 0, 1, 0, false⟩, sz, 1, 1, 0, 1, 0, st⟩
    (by rw [ofNat_one]; exact not_le.mpr (by norm_num)) (by rw [ofNat_zero]; exact not_le.mpr (by norm_num))
    ((isZero_real_false _).mpr one_ne_zero)
    (by
      show ¬ (|(1 : ℝ)| * 1 < 1 / 4 * (|(1 : ℝ)| * 1 + 1 * (0 + 1 + 0)))
      rw [abs_one]; norm_num)
  have h10 : ¬ @LT.lt ℝ instNumRealD.toLT (1 : ℝ) (@OfNat.ofNat ℝ 0 (Num.instOfNat 0)) := by
    rw [ofNat_zero]; exact not_lt.mpr zero_le_one
  rw [if_neg h10] at h
  exact h
example (frm tgt : St5 ℝ) (sz : Path ℝ) (st : Pose ℝ) :
    voInterp frm tgt (3 / 4) ⟨⟨.LSL, 0, 1, 0, false⟩, sz, 1, 1, 0, 1, 0, st⟩ =
      voFin ⟨⟨.LSL, 0, 1, 0, false⟩, sz, 1, 1, 0, 1, 0, st⟩ (3 / 4)
        (interpPath 1 (turn (hpose frm) 1 1) ⟨.LSL, 0, 1, 0, false⟩
          ((3 / 4 * (|1| * 1 + 1 * (0 + 1 + 0)) - |1| * 1) / (1 * (0 + 1 + 0)))) :=
  vo_interp_medium_word frm tgt (3 / 4) ⟨⟨.LSL, 0, 1, 0, false⟩, sz, 1, 1, 0, 1, 0, st⟩
    (by rw [ofNat_one]; exact not_le.mpr (by norm_num)) (by rw [ofNat_zero]; exact not_le.mpr (by norm_num))
    ((isZero_real_false _).mpr one_ne_zero)
    (by
      show |(1 : ℝ)| * 1 < 3 / 4 * (|(1 : ℝ)| * 1 + 1 * (0 + 1 + 0))
      rw [abs_one]; norm_num)
-- the four categories occur
example (xy sz : Path ℝ) (st : Pose ℝ) : (⟨xy, sz, 1, 1, 0, 0, 0, st⟩ : VOPath ℝ).category = "L" ∧
    (⟨xy, sz, 1, 1, 0, 0, 1, st⟩ : VOPath ℝ).category = "H" ∧ (⟨xy, sz, 1, 1, 0, 1, 0, st⟩ : VOPath ℝ).category = "M" ∧
    (⟨xy, sz, 1, 1, 0, 1, 1, st⟩ : VOPath ℝ).category = "?" :=
  ⟨(vo_category_cases _).1.mpr ⟨(isZero_real _).mpr rfl, (isZero_real _).mpr rfl⟩,
   (vo_category_cases _).2.1.mpr ⟨(isZero_real _).mpr rfl, (isZero_real_false _).mpr one_ne_zero⟩,
   (vo_category_cases _).2.2.1.mpr ⟨(isZero_real_false _).mpr one_ne_zero, (isZero_real _).mpr rfl⟩,
   (vo_category_cases _).2.2.2.mpr ⟨(isZero_real_false _).mpr one_ne_zero, (isZero_real_false _).mpr one_ne_zero⟩⟩

/-! ## [EX] Owen's `turn`, the helix, the initial turn -/

/-- [EX] **`turn` drives one arc of length `r·|angle|`**: `turn(from, r, angle)` is ONE unit-radius step of the Dubins vehicle
model from `(0, 0, θ)` — a left arc `stepFwd L |angle|` for a positive angle, a right arc `stepFwd R |angle|` otherwise — scaled
by the radius and translated, exactly what `DubinsStateSpace::interpolate` does with a segment of unit-radius length `|angle|`
(world length `r·|angle|`).  In particular for `r > 0`, `dist ≥ 0` the angles `± dist / r` the helix and the initial turn use
drive an arc of world length exactly `dist`. -/
theorem vo_turn_length (fp : Pose ℝ) (r a : ℝ) :
    turn fp r a =
      ⟨fp.x + r * (stepFwd (if 0 < a then Seg.L else Seg.R) |a| ⟨0, 0, fp.th⟩).x,
       fp.y + r * (stepFwd (if 0 < a then Seg.L else Seg.R) |a| ⟨0, 0, fp.th⟩).y,
       (stepFwd (if 0 < a then Seg.L else Seg.R) |a| ⟨0, 0, fp.th⟩).th⟩ ∧
    (∀ dist, 0 < r → 0 ≤ dist → r * |dist / r| = dist ∧ r * |-(dist / r)| = dist) := by
  refine ⟨turn_is_abs_arc fp r a, fun dist hr hd => ?_⟩
  have e : r * |dist / r| = dist := by
    rw [abs_of_nonneg (div_nonneg hd hr.le)]; field_simp
  exact ⟨e, by rw [abs_neg]; exact e⟩

example : turn (⟨0, 0, 0⟩ : Pose ℝ) 2 (Real.pi / 2) = ⟨2, 2, Real.pi / 2⟩ := by
  have hp : 0 < Real.pi / 2 := by positivity
  rw [(vo_turn_length _ _ _).1, if_pos hp, abs_of_pos hp, stepFwd_L]
  simp

/-- [EX] **`turn` stays on a circle of radius `r`**: for a positive angle on the circle to the LEFT of the start pose (centre
`(x − r·sin θ, y + r·cos θ)`), otherwise on the one to its RIGHT (centre `(x + r·sin θ, y − r·cos θ)`); the heading is
`θ + angle`; and for `r ≥ 0` the chord from the start to the turned position is at most the arc `r·|angle|`. -/
theorem vo_turn_on_circle (fp : Pose ℝ) (r a : ℝ) :
    (0 < a → ((turn fp r a).x - (fp.x - r * Real.sin fp.th)) ^ 2 +
      ((turn fp r a).y - (fp.y + r * Real.cos fp.th)) ^ 2 = r ^ 2) ∧
    (¬ 0 < a → ((turn fp r a).x - (fp.x + r * Real.sin fp.th)) ^ 2 +
      ((turn fp r a).y - (fp.y - r * Real.cos fp.th)) ^ 2 = r ^ 2) ∧
    (turn fp r a).th = fp.th + a ∧
    (0 ≤ r → Real.sqrt (((turn fp r a).x - fp.x) * ((turn fp r a).x - fp.x) +
      ((turn fp r a).y - fp.y) * ((turn fp r a).y - fp.y)) ≤ r * |a|) :=
  ⟨turn_on_left_circle fp r a, turn_on_right_circle fp r a, rfl, turn_chord_le fp r a⟩

-- a quarter turn to the left from the origin at radius 2: centre (0, 2), end (2, 2)
example : ((turn (⟨0, 0, 0⟩ : Pose ℝ) 2 (Real.pi / 2)).x - (0 - 2 * Real.sin 0)) ^ 2 +
    ((turn (⟨0, 0, 0⟩ : Pose ℝ) 2 (Real.pi / 2)).y - (0 + 2 * Real.cos 0)) ^ 2 = 2 ^ 2 :=
  (vo_turn_on_circle ⟨0, 0, 0⟩ 2 (Real.pi / 2)).1 (by positivity)

/-- [EX] **The helix of a high-altitude path drives whole circles of radius `rh`.**  `0 < t < 1`, `rh > 0`, `phi_ = 0`,
`numTurns_ = k ≥ 1`; `dist = t·(2π·rh·k + rh·|pathXY_|)` is the horizontal distance at `t`.
(1) When `dist = 2π·rh·j` for some `j ≤ k` the horizontal pose handed to the state is `(x, y, yaw + 2πj)` of `from`: position
back at the start, `j` whole turns in the heading (the reported yaw is `wrap(yaw)`).  In particular at `j = k` the helix ends
where the horizontal word starts.
(2) During the whole helix (`dist ≤ 2π·rh·k`; word lengths non-negative) the horizontal pose is `turn(from, rh, dist/rh)` with
a positive angle: the position is exactly `rh` away from the centre `(x − rh·sin yaw, y + rh·cos yaw)` — the circle to the left
of `from` — and the reported yaw is `wrap(yaw + dist/rh)`. -/
theorem vo_high_spiral_is_circles (frm tgt : St5 ℝ) (t : ℝ) (p : VOPath ℝ) (h0 : 0 < t) (h1 : t < 1)
    (hrh : 0 < p.rh) (hphi : p.phi = 0) (k : ℕ) (hk : p.k = k) (hk0 : k ≠ 0) :
    (∀ j : ℕ, j ≤ k → t * (2 * Real.pi * p.rh * k + p.rh * p.xy.len) = 2 * Real.pi * p.rh * j →
      voInterp frm tgt t p = voFin p t ⟨frm.x, frm.y, frm.yaw + (j : ℝ) * (2 * Real.pi)⟩ ∧
      (voInterp frm tgt t p).x = frm.x ∧ (voInterp frm tgt t p).y = frm.y ∧
      (voInterp frm tgt t p).yaw = so2Enforce frm.yaw) ∧
    (0 ≤ p.xy.len → t * (2 * Real.pi * p.rh * k + p.rh * p.xy.len) ≤ 2 * Real.pi * p.rh * k →
      voInterp frm tgt t p =
        voFin p t (turn (hpose frm) p.rh (t * (2 * Real.pi * p.rh * k + p.rh * p.xy.len) / p.rh)) ∧
      ((voInterp frm tgt t p).x - (frm.x - p.rh * Real.sin frm.yaw)) ^ 2 +
        ((voInterp frm tgt t p).y - (frm.y + p.rh * Real.cos frm.yaw)) ^ 2 = p.rh ^ 2 ∧
      (voInterp frm tgt t p).yaw =
        so2Enforce (frm.yaw + t * (2 * Real.pi * p.rh * k + p.rh * p.xy.len) / p.rh)) := by
  have hkne : p.k ≠ 0 := by rw [hk]; exact_mod_cast hk0
  have hkpos : (1 : ℝ) ≤ k := by exact_mod_cast Nat.one_le_iff_ne_zero.mpr hk0
  have h2pi : 0 < 2 * Real.pi * p.rh := mul_pos twopi_pos hrh
  constructor
  · intro j hj hd
    have hjk : (j : ℝ) ≤ k := by exact_mod_cast hj
    have hsp : t * (2 * Real.pi * p.rh * p.k + p.rh * p.xy.len) ≤ 2 * Real.pi * p.rh * p.k := by
      rw [hk, hd]; exact mul_le_mul_of_nonneg_left hjk h2pi.le
    have h := voInterp_high_spiral_real frm tgt t p h0 h1 hphi hkne hsp
    rw [hk, turn_whole_circles (hpose frm) p.rh hrh j _ hd] at h
    refine ⟨h, ?_, ?_, ?_⟩
    · rw [h]; rfl
    · rw [h]; rfl
    · rw [h]; exact so2Enforce_add_int frm.yaw j
  · intro hlen hsp
    have hsp' : t * (2 * Real.pi * p.rh * p.k + p.rh * p.xy.len) ≤ 2 * Real.pi * p.rh * p.k := by
      rw [hk]; exact hsp
    have h := voInterp_high_spiral_real frm tgt t p h0 h1 hphi hkne hsp'
    rw [hk] at h
    have hpos : 0 < t * (2 * Real.pi * p.rh * k + p.rh * p.xy.len) / p.rh := by
      have : 0 < 2 * Real.pi * p.rh * k := mul_pos h2pi (by linarith)
      have : 0 ≤ p.rh * p.xy.len := mul_nonneg hrh.le hlen
      exact div_pos (mul_pos h0 (by linarith)) hrh
    refine ⟨h, ?_, ?_⟩
    · rw [h]
      exact turn_on_left_circle (hpose frm) p.rh _ hpos
    · rw [h]; rfl

-- one circle of radius 1 followed by a straight line of length `2π`: at `t = 1/2` the circle is closed
example (frm tgt : St5 ℝ) (sz : Path ℝ) (st : Pose ℝ) :
    (voInterp frm tgt (1 / 2) ⟨⟨.LSL, 0, 2 * Real.pi, 0, false⟩, sz, 1, 1, 0, 0, 1, st⟩).x = frm.x := by
  refine ((vo_high_spiral_is_circles frm tgt (1 / 2) ⟨⟨.LSL, 0, 2 * Real.pi, 0, false⟩, sz, 1, 1, 0, 0, 1, st⟩
    (by norm_num) (by norm_num) one_pos rfl 1 (by simp) one_ne_zero).1 1 le_rfl ?_).2.1
  show 1 / 2 * (2 * Real.pi * 1 * ((1 : ℕ) : ℝ) + 1 * (0 + 2 * Real.pi + 0)) = 2 * Real.pi * 1 * ((1 : ℕ) : ℝ)
  push_cast; ring

/-- [EX] **The initial turn of a medium-altitude path.**  `0 < t < 1`, `rh > 0`, `phi_ ≠ 0`, word lengths non-negative, and
`dist = t·(|phi_|·rh + rh·|pathXY_|)` has not passed `lengthTurn = |phi_|·rh`.  Then the horizontal pose is `turn(from, rh, a)`
for an angle `a` with the sign of `phi_`, `|a| ≤ |phi_|` (a prefix of the full initial turn `turn(from, rh, phi_)` the
horizontal word later starts from), and arc length `rh·|a| = dist`. -/
theorem vo_medium_turn_arc (frm tgt : St5 ℝ) (t : ℝ) (p : VOPath ℝ) (h0 : 0 < t) (h1 : t < 1)
    (hrh : 0 < p.rh) (hphi : p.phi ≠ 0) (hlen : 0 ≤ p.xy.len)
    (hturn : t * (|p.phi| * p.rh + p.rh * p.xy.len) ≤ |p.phi| * p.rh) :
    ∃ a : ℝ, voInterp frm tgt t p = voFin p t (turn (hpose frm) p.rh a) ∧
      p.rh * |a| = t * (|p.phi| * p.rh + p.rh * p.xy.len) ∧ |a| ≤ |p.phi| ∧
      (0 < a ↔ 0 < p.phi) ∧ (a < 0 ↔ p.phi < 0) := by
  have h := voInterp_medium_turn_real frm tgt t p h0 h1 hphi hturn
  have hd : 0 < t * (|p.phi| * p.rh + p.rh * p.xy.len) := by
    have : 0 < |p.phi| * p.rh := mul_pos (abs_pos.mpr hphi) hrh
    have : 0 ≤ p.rh * p.xy.len := mul_nonneg hrh.le hlen
    exact mul_pos h0 (by linarith)
  have hq : 0 < t * (|p.phi| * p.rh + p.rh * p.xy.len) / p.rh := div_pos hd hrh
  have hle : t * (|p.phi| * p.rh + p.rh * p.xy.len) / p.rh ≤ |p.phi| := (div_le_iff₀ hrh).mpr hturn
  have hmul : p.rh * (t * (|p.phi| * p.rh + p.rh * p.xy.len) / p.rh) = t * (|p.phi| * p.rh + p.rh * p.xy.len) := by
    field_simp
  by_cases hneg : p.phi < 0
  · rw [if_pos hneg] at h
    refine ⟨_, h, ?_, ?_, ?_, ?_⟩
    · rw [abs_neg, abs_of_pos hq, hmul]
    · rw [abs_neg, abs_of_pos hq]; exact hle
    · constructor
      · intro ha; linarith
      · intro hp; linarith
    · exact ⟨fun _ => hneg, fun _ => by linarith⟩
  · rw [if_neg hneg] at h
    have hp : 0 < p.phi := lt_of_le_of_ne (not_lt.mp hneg) (Ne.symm hphi)
    refine ⟨_, h, ?_, ?_, ?_, ?_⟩
    · rw [abs_of_pos hq, hmul]
    · rw [abs_of_pos hq]; exact hle
    · exact ⟨fun _ => hp, fun _ => hq⟩
    · constructor
      · intro ha; linarith
      · intro hp'; exact absurd hp' hneg

-- initial turn of −1 rad at radius 1, then a unit straight line; `t = 1/4`: half a radian to the right has been driven
example (frm tgt : St5 ℝ) (sz : Path ℝ) (st : Pose ℝ) :
    ∃ a : ℝ, voInterp frm tgt (1 / 4) ⟨⟨.LSL, 0, 1, 0, false⟩, sz, 1, 1, 0, -1, 0, st⟩ =
      voFin ⟨⟨.LSL, 0, 1, 0, false⟩, sz, 1, 1, 0, -1, 0, st⟩ (1 / 4) (turn (hpose frm) 1 a) ∧ a < 0 := by
  obtain ⟨a, ha, _, _, _, hs⟩ := vo_medium_turn_arc frm tgt (1 / 4) ⟨⟨.LSL, 0, 1, 0, false⟩, sz, 1, 1, 0, -1, 0, st⟩
    (by norm_num) (by norm_num) one_pos (by norm_num) (by simp [Path.len])
    (by
      show 1 / 4 * (|(-1 : ℝ)| * 1 + 1 * (0 + 1 + 0)) ≤ |(-1 : ℝ)| * 1
      rw [abs_neg, abs_one]; norm_num)
  exact ⟨a, ha, hs.mpr (by norm_num)⟩

/-! ## [EX] the end of the path -/

/-- [EX] **`voEnd` is the interior branch at the limit parameter.**  For `0 < t < 1` `interpolate` is its interior branch
`voBranch`; for a horizontal word of positive length `rh·|pathXY_| > 0` that branch, evaluated at `t = 1`, is `voEnd`: the whole
profile word from `startSZ_`, and the whole horizontal word driven from `voStart` — `from` itself for a low- or high-altitude path
(`dist − lengthSpiral = lengthPath`: the helix is complete), `turn(from, rh, phi_)` for a medium-altitude one.  (`voInterp` itself
returns `to` at `t = 1`.) -/
theorem vo_end_is_interior_limit (frm tgt : St5 ℝ) (p : VOPath ℝ) (hlen : 0 < p.rh * p.xy.len) :
    (∀ t, 0 < t → t < 1 → voInterp frm tgt t p = voBranch frm t p) ∧
    voBranch frm 1 p = voEnd frm p ∧
    voEnd frm p = voFin p 1 (interpPath p.rh (voStart frm p) p.xy 1) ∧
    (p.phi = 0 → voStart frm p = hpose frm) ∧ (p.phi ≠ 0 → voStart frm p = turn (hpose frm) p.rh p.phi) ∧
    voInterp frm tgt 1 p = tgt :=
  ⟨fun t h0 h1 => voInterp_mid frm tgt t p h0 h1, voBranch_one frm p hlen, voEnd_eq frm p,
    fun h => voStart_of_zero frm p ((isZero_real _).mpr h), fun h => voStart_of_nonzero frm p ((isZero_real_false _).mpr h),
    (vo_interp_branches frm tgt 1 p).1 (by rw [ofNat_one])⟩

example (frm tgt : St5 ℝ) (sz : Path ℝ) (st : Pose ℝ) :
    voBranch frm 1 ⟨⟨.LSL, 0, 1, 0, false⟩, sz, 1, 1, 0, 1, 0, st⟩ =
      voEnd frm ⟨⟨.LSL, 0, 1, 0, false⟩, sz, 1, 1, 0, 1, 0, st⟩ :=
  (vo_end_is_interior_limit frm tgt _ (by simp [Path.len])).2.1

/-- [EX] **Following both words to the end reaches the target in x, y, z, pitch and yaw.**  `rh, rv > 0`.
(b) the horizontal word `pathXY_` is the path a word solver returns for the normalised triple of
`dubins(s, (x₂, y₂, yaw₂), rh)` where `s = voStart` is the pose the word is driven from (`from`, or `from` turned by `phi_`);
(a) the profile word `pathSZ_` is the path a word solver returns for the normalised triple of
`dubins(startSZ_, (S, z₂, pitch₂), rv)`, `S` the horizontal length the profile was solved for (any value)
— hypotheses of `C14W.dubins_interpolate_reaches_target`, once per word: exact non-negative angle normalisations, any
representatives of the angles modulo 2π, outside the clamp band for RSL/LSR.  Then `voEnd` — x, y, yaw from the horizontal
word, z and pitch from the profile word — is the target, the two angles being `enforceBounds` of a representative modulo 2π. -/
theorem vo_end_reaches_target (m2p m2p' : ℝ → ℝ) (hm : Exact m2p) (hnn : ∀ x, 0 ≤ m2p x)
    (hm' : Exact m2p') (hnn' : ∀ x, 0 ≤ m2p' x) (w w' : Word)
    (frm tgt : St5 ℝ) (p : VOPath ℝ) (hrh : 0 < p.rh) (hrv : 0 < p.rv) (s : Pose ℝ) (hs : voStart frm p = s)
    (S α β α' β' : ℝ)
    (hα : ∃ k₁ : ℤ, α = s.th - Complex.arg ⟨tgt.x - s.x, tgt.y - s.y⟩ + k₁ * (2 * Real.pi))
    (hβ : ∃ k₂ : ℤ, β = tgt.yaw - Complex.arg ⟨tgt.x - s.x, tgt.y - s.y⟩ + k₂ * (2 * Real.pi))
    (hb : NoClamp w (Real.sqrt ((tgt.x - s.x) * (tgt.x - s.x) + (tgt.y - s.y) * (tgt.y - s.y)) / p.rh) α β)
    (h : solve m2p w (Real.sqrt ((tgt.x - s.x) * (tgt.x - s.x) + (tgt.y - s.y) * (tgt.y - s.y)) / p.rh) α β
      = some p.xy)
    (hα' : ∃ k₁ : ℤ, α' = p.startSZ.th - Complex.arg ⟨S - p.startSZ.x, tgt.z - p.startSZ.y⟩ + k₁ * (2 * Real.pi))
    (hβ' : ∃ k₂ : ℤ, β' = tgt.pitch - Complex.arg ⟨S - p.startSZ.x, tgt.z - p.startSZ.y⟩ + k₂ * (2 * Real.pi))
    (hb' : NoClamp w' (Real.sqrt ((S - p.startSZ.x) * (S - p.startSZ.x) +
      (tgt.z - p.startSZ.y) * (tgt.z - p.startSZ.y)) / p.rv) α' β')
    (h' : solve m2p' w' (Real.sqrt ((S - p.startSZ.x) * (S - p.startSZ.x) +
      (tgt.z - p.startSZ.y) * (tgt.z - p.startSZ.y)) / p.rv) α' β' = some p.sz) :
    ∃ k k' : ℤ, voEnd frm p =
      ⟨tgt.x, tgt.y, tgt.z, so2Enforce (tgt.pitch + k * (2 * Real.pi)), so2Enforce (tgt.yaw + k' * (2 * Real.pi))⟩ := by
  refine ⟨0, 0, ?_⟩
  rw [voEnd_reaches m2p m2p' hm hnn hm' hnn' w w' frm tgt p hrh hrv s hs S α β α' β' hα hβ hb h hα' hβ' hb' h']
  simp

/-- [EX] the same with the angles in canonical form: `voEnd` is `(x₂, y₂, z₂, wrap(pitch₂), wrap(yaw₂))`, and it is the target
itself when its pitch and yaw satisfy the SO(2) bounds `[-π, π)`. -/
theorem vo_end_reaches_target_exact (m2p m2p' : ℝ → ℝ) (hm : Exact m2p) (hnn : ∀ x, 0 ≤ m2p x)
    (hm' : Exact m2p') (hnn' : ∀ x, 0 ≤ m2p' x) (w w' : Word)
    (frm tgt : St5 ℝ) (p : VOPath ℝ) (hrh : 0 < p.rh) (hrv : 0 < p.rv) (s : Pose ℝ) (hs : voStart frm p = s)
    (S α β α' β' : ℝ)
    (hα : ∃ k₁ : ℤ, α = s.th - Complex.arg ⟨tgt.x - s.x, tgt.y - s.y⟩ + k₁ * (2 * Real.pi))
    (hβ : ∃ k₂ : ℤ, β = tgt.yaw - Complex.arg ⟨tgt.x - s.x, tgt.y - s.y⟩ + k₂ * (2 * Real.pi))
    (hb : NoClamp w (Real.sqrt ((tgt.x - s.x) * (tgt.x - s.x) + (tgt.y - s.y) * (tgt.y - s.y)) / p.rh) α β)
    (h : solve m2p w (Real.sqrt ((tgt.x - s.x) * (tgt.x - s.x) + (tgt.y - s.y) * (tgt.y - s.y)) / p.rh) α β
      = some p.xy)
    (hα' : ∃ k₁ : ℤ, α' = p.startSZ.th - Complex.arg ⟨S - p.startSZ.x, tgt.z - p.startSZ.y⟩ + k₁ * (2 * Real.pi))
    (hβ' : ∃ k₂ : ℤ, β' = tgt.pitch - Complex.arg ⟨S - p.startSZ.x, tgt.z - p.startSZ.y⟩ + k₂ * (2 * Real.pi))
    (hb' : NoClamp w' (Real.sqrt ((S - p.startSZ.x) * (S - p.startSZ.x) +
      (tgt.z - p.startSZ.y) * (tgt.z - p.startSZ.y)) / p.rv) α' β')
    (h' : solve m2p' w' (Real.sqrt ((S - p.startSZ.x) * (S - p.startSZ.x) +
      (tgt.z - p.startSZ.y) * (tgt.z - p.startSZ.y)) / p.rv) α' β' = some p.sz) :
    voEnd frm p = ⟨tgt.x, tgt.y, tgt.z, so2Enforce tgt.pitch, so2Enforce tgt.yaw⟩ ∧
    (-Real.pi ≤ tgt.pitch → tgt.pitch < Real.pi → -Real.pi ≤ tgt.yaw → tgt.yaw < Real.pi → voEnd frm p = tgt) := by
  have hk := voEnd_reaches m2p m2p' hm hnn hm' hnn' w w' frm tgt p hrh hrv s hs S α β α' β' hα hβ hb h hα' hβ' hb' h'
  refine ⟨hk, fun a1 a2 b1 b2 => ?_⟩
  rw [hk, so2Enforce_of_mem _ a1 a2, so2Enforce_of_mem _ b1 b2]

-- jointly satisfiable for EVERY pair of states, radii, `phi_`, `numTurns_` and `S` (so in each category): `mod2piExact`, the word
-- LSL for both problems, `startSZ_ = (0, z₁, pitch₁)` as the code sets it
example (rh rv : ℝ) (hrh : 0 < rh) (hrv : 0 < rv) (frm tgt : St5 ℝ) (dz phi k S : ℝ)
    (a1 : -Real.pi ≤ tgt.pitch) (a2 : tgt.pitch < Real.pi) (b1 : -Real.pi ≤ tgt.yaw) (b2 : tgt.yaw < Real.pi) :
    ∃ xy sz : Path ℝ, voEnd frm ⟨xy, sz, rh, rv, dz, phi, k, ⟨0, frm.z, frm.pitch⟩⟩ = tgt := by
  obtain ⟨s, hs⟩ : ∃ s, s = (if isZero phi then hpose frm else turn (hpose frm) rh phi) := ⟨_, rfl⟩
  obtain ⟨xy, hxy⟩ := dubinsLSL_isSome mod2piExact
    (Real.sqrt ((tgt.x - s.x) * (tgt.x - s.x) + (tgt.y - s.y) * (tgt.y - s.y)) / rh)
    (s.th - Complex.arg ⟨tgt.x - s.x, tgt.y - s.y⟩) (tgt.yaw - Complex.arg ⟨tgt.x - s.x, tgt.y - s.y⟩)
  obtain ⟨sz, hsz⟩ := dubinsLSL_isSome mod2piExact
    (Real.sqrt ((S - 0) * (S - 0) + (tgt.z - frm.z) * (tgt.z - frm.z)) / rv)
    (frm.pitch - Complex.arg ⟨S - 0, tgt.z - frm.z⟩) (tgt.pitch - Complex.arg ⟨S - 0, tgt.z - frm.z⟩)
  exact ⟨xy, sz, (vo_end_reaches_target_exact mod2piExact mod2piExact mod2piExact_exact mod2piExact_nonneg
    mod2piExact_exact mod2piExact_nonneg .LSL .LSL frm tgt ⟨xy, sz, rh, rv, dz, phi, k, ⟨0, frm.z, frm.pitch⟩⟩ hrh hrv
    s hs.symm S _ _ _ _ ⟨0, by simp⟩ ⟨0, by simp⟩ trivial hxy ⟨0, by simp⟩ ⟨0, by simp⟩ trivial hsz).2 a1 a2 b1 b2⟩

/-! ## [EX] `length()` against the straight line -/

/-- [EX] **Reported length ≥ the straight line of the profile problem, and ≥ the altitude difference.**  `rv > 0`; the profile
word `pathSZ_` is a solver output for the profile problem of horizontal length `S` and altitude difference `Δz` at radius `rv`
(`d = √(S·S + Δz·Δz) / rv`, angles arbitrary here).  Then `√(S² + Δz²) ≤ length() = rv·(t + p + q)`, hence `|Δz| ≤ length()`
and `|S| ≤ length()`. -/
theorem vo_length_ge_profile_line (m2p' : ℝ → ℝ) (hm' : Exact m2p') (hnn' : ∀ x, 0 ≤ m2p' x) (w' : Word)
    (p : VOPath ℝ) (hrv : 0 < p.rv) (S dz α' β' : ℝ)
    (hb' : NoClamp w' (Real.sqrt (S * S + dz * dz) / p.rv) α' β')
    (h' : solve m2p' w' (Real.sqrt (S * S + dz * dz) / p.rv) α' β' = some p.sz) :
    Real.sqrt (S * S + dz * dz) ≤ p.len ∧ |dz| ≤ p.len ∧ |S| ≤ p.len := by
  have h1 := voLen_ge_profile m2p' hm' hnn' w' p hrv S dz α' β' hb' h'
  refine ⟨h1, abs_le_of_sqrt_le S dz p.len h1, abs_le_of_sqrt_le dz S p.len ?_⟩
  rw [add_comm]; exact h1

example (rv : ℝ) (hrv : 0 < rv) (S dz α' β' rh dz' phi k : ℝ) (xy : Path ℝ) (st : Pose ℝ) :
    ∃ sz : Path ℝ, |dz| ≤ (⟨xy, sz, rh, rv, dz', phi, k, st⟩ : VOPath ℝ).len := by
  obtain ⟨sz, hsz⟩ := dubinsLSL_isSome mod2piExact (Real.sqrt (S * S + dz * dz) / rv) α' β'
  exact ⟨sz, (vo_length_ge_profile_line mod2piExact mod2piExact_exact mod2piExact_nonneg .LSL
    ⟨xy, sz, rh, rv, dz', phi, k, st⟩ hrv S dz α' β' trivial hsz).2.1⟩

/-- [EX] **Reported length ≥ 3D straight-line distance, in every category.**  `rh, rv > 0`, `numTurns_ ≥ 0`; the horizontal word
is a solver output for the problem from `s = voStart` (`from`, or `from` turned by `phi_`) to the target at radius `rh`; the
profile word is a solver output for horizontal length `S` and altitude difference `z₂ − z₁` at radius `rv`; and `S` is at least
`rh·(|pathXY_| + 2π·numTurns_ + |phi_|)` — over ℝ the value `decoupled` uses in each category (`rh·|pathXY_|` low,
`(|pathXY_| + 2π·numTurns_)·rh` high, `(|pathXY_| + |phi_|)·rh` medium).  Then `√(Δx² + Δy² + Δz²) ≤ length()`.  (The chord of the
initial turn is at most its arc, the helix only adds length.) -/
theorem vo_length_ge_straight_line (m2p m2p' : ℝ → ℝ) (hm : Exact m2p) (hnn : ∀ x, 0 ≤ m2p x)
    (hm' : Exact m2p') (hnn' : ∀ x, 0 ≤ m2p' x) (w w' : Word)
    (frm tgt : St5 ℝ) (p : VOPath ℝ) (hrh : 0 < p.rh) (hrv : 0 < p.rv) (hk : 0 ≤ p.k)
    (s : Pose ℝ) (hs : voStart frm p = s) (S α β α' β' : ℝ)
    (hb : NoClamp w (Real.sqrt ((tgt.x - s.x) * (tgt.x - s.x) + (tgt.y - s.y) * (tgt.y - s.y)) / p.rh) α β)
    (h : solve m2p w (Real.sqrt ((tgt.x - s.x) * (tgt.x - s.x) + (tgt.y - s.y) * (tgt.y - s.y)) / p.rh) α β
      = some p.xy)
    (hS : p.rh * (p.xy.len + 2 * Real.pi * p.k + |p.phi|) ≤ S)
    (hb' : NoClamp w' (Real.sqrt (S * S + (tgt.z - frm.z) * (tgt.z - frm.z)) / p.rv) α' β')
    (h' : solve m2p' w' (Real.sqrt (S * S + (tgt.z - frm.z) * (tgt.z - frm.z)) / p.rv) α' β' = some p.sz) :
    Real.sqrt ((tgt.x - frm.x) ^ 2 + (tgt.y - frm.y) ^ 2 + (tgt.z - frm.z) ^ 2) ≤ p.len :=
  three_d_le _ _ _ S _
    (le_trans (voHoriz_le m2p hm hnn w frm tgt p hrh hk s hs α β hb h) hS)
    (voLen_ge_profile m2p' hm' hnn' w' p hrv S _ α' β' hb' h')

-- satisfiable in each category (any `phi_`, any `numTurns_ ≥ 0`), with `S` exactly the coded value
example (rh rv : ℝ) (hrh : 0 < rh) (hrv : 0 < rv) (frm tgt : St5 ℝ) (dz phi k α β α' β' : ℝ) (hk : 0 ≤ k) (st : Pose ℝ) :
    ∃ xy sz : Path ℝ, Real.sqrt ((tgt.x - frm.x) ^ 2 + (tgt.y - frm.y) ^ 2 + (tgt.z - frm.z) ^ 2) ≤
      (⟨xy, sz, rh, rv, dz, phi, k, st⟩ : VOPath ℝ).len := by
  obtain ⟨s, hs⟩ : ∃ s, s = (if isZero phi then hpose frm else turn (hpose frm) rh phi) := ⟨_, rfl⟩
  obtain ⟨xy, hxy⟩ := dubinsLSL_isSome mod2piExact
    (Real.sqrt ((tgt.x - s.x) * (tgt.x - s.x) + (tgt.y - s.y) * (tgt.y - s.y)) / rh) α β
  obtain ⟨sz, hsz⟩ := dubinsLSL_isSome mod2piExact
    (Real.sqrt ((rh * (xy.len + 2 * Real.pi * k + |phi|)) * (rh * (xy.len + 2 * Real.pi * k + |phi|)) +
      (tgt.z - frm.z) * (tgt.z - frm.z)) / rv) α' β'
  exact ⟨xy, sz, vo_length_ge_straight_line mod2piExact mod2piExact mod2piExact_exact mod2piExact_nonneg
    mod2piExact_exact mod2piExact_nonneg .LSL .LSL frm tgt ⟨xy, sz, rh, rv, dz, phi, k, st⟩ hrh hrv hk s hs.symm
    _ α β α' β' trivial hxy le_rfl trivial hsz⟩

end OmplModel.Props.C14VO
