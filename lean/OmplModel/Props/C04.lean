import OmplModel.Model.Soln
/-! C04 property theorems (stub while the check is brought up). -/
namespace OmplModel.Props.C04
open OmplModel.Soln

theorem isSatisfied_iff {α} (A : CostAlg α) (thr c : α) : A.isSatisfied thr c = A.better c thr := rfl

end OmplModel.Props.C04
