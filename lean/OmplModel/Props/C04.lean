import OmplModel.Proofs.Soln
import OmplModel.Proofs.RRTstar
import OmplModel.Proofs.RRTstarInv
import OmplModel.Proofs.RRTstarBest
import Mathlib.Data.ENat.Basic
import Mathlib.Tactic.Ring
import Mathlib.Tactic.NormNum
import Mathlib.Algebra.Order.Field.Basic
/-!
C04 — reported solution costs are truthful, admissible-bounded and only improve: the parts of the
property that are statements about the problem definition's data structure (A) and about the cost
algebra (B).  Part (C) (what each planner stores) is a per-run oracle in checks/c04.py.

`IsSWO r` = `r` is a strict weak order (asymmetric + negatively transitive).  The comparisons on
`double` (`<`) and `isCostBetterThan` are parameters assumed to be strict weak orders; every linear
order provides them (`isSWO_of_linearOrder`, `isSWO_flip`), NaN-free `double` being the intended one.
`Homog h l` = every record of `l` has `hasOpt = h` (all carry the objective, or none does).
-/
namespace OmplModel.Props.C04
open OmplModel.Soln

variable {α : Type}

/-- the comparisons of a minimizing / maximizing objective over a linear order. -/
def cmpMin [LinearOrder α] : Cmp α := ⟨fun a b => decide (a < b), fun a b => decide (a < b)⟩
def cmpMax [LinearOrder α] : Cmp α := ⟨fun a b => decide (a < b), fun a b => decide (b < a)⟩

/-- [order only] `operator<` is a strict weak order on homogeneous sets: asymmetric, negatively
transitive (hence irreflexive, transitive, with transitive incomparability). -/
theorem lt_strictWeakOrder {o : Cmp α} (hl : IsSWO o.lt) (hb : IsSWO o.better) (h : Bool) :
    (∀ a b : Soln α, a.hasOpt = h → b.hasOpt = h → Soln.lt o a b = true → Soln.lt o b a = false) ∧
    (∀ a b c : Soln α, a.hasOpt = h → b.hasOpt = h → c.hasOpt = h →
      Soln.lt o a c = true → Soln.lt o a b = true ∨ Soln.lt o b c = true) ∧
    (∀ a : Soln α, Soln.lt o a a = false) ∧
    (∀ a b c : Soln α, a.hasOpt = h → b.hasOpt = h → c.hasOpt = h →
      Soln.lt o a b = true → Soln.lt o b c = true → Soln.lt o a c = true) := by
  refine ⟨fun a b ha hb' hab => lt_asymm hl hb a b (ha.trans hb'.symm) hab,
    fun a b c ha hb' _ hac => lt_negtrans hl hb a b c (ha.trans hb'.symm) hac,
    fun a => lt_irrefl hl hb a, ?_⟩
  intro a b c ha hb' hc hab hbc
  rcases lt_negtrans hl hb a c b (ha.trans hc.symm) hab with h1 | h1
  · exact h1
  · have := lt_asymm hl hb b c (hb'.trans hc.symm) hbc
    simp_all

/-- over any linear order (minimizing or maximizing objective). -/
theorem lt_strictWeakOrder_linear [LinearOrder α] (h : Bool) :
    (∀ a b : Soln α, a.hasOpt = h → b.hasOpt = h → Soln.lt cmpMin a b = true → Soln.lt cmpMin b a = false) ∧
    (∀ a b : Soln α, a.hasOpt = h → b.hasOpt = h → Soln.lt cmpMax a b = true → Soln.lt cmpMax b a = false) :=
  ⟨(lt_strictWeakOrder (o := cmpMin) isSWO_of_linearOrder isSWO_of_linearOrder h).1,
   (lt_strictWeakOrder (o := cmpMax) isSWO_of_linearOrder (isSWO_flip isSWO_of_linearOrder) h).1⟩

example : Soln.lt (cmpMin (α := Int)) ⟨0, false, 0, false, true, 1, 1⟩ ⟨1, false, 0, false, true, 2, 2⟩ = true := by decide

/-- F11: on *mixed* sets `operator<` is not asymmetric (only `this->opt_` is consulted):
`a` carries a minimizing objective with cost 1 (length 2), `b` has no objective, `cost_` 2, length 1. -/
theorem lt_not_swo_mixed :
    ¬ (∀ a b : Soln Int, Soln.lt cmpMin a b = true → Soln.lt cmpMin b a = false) := by
  intro h
  have := h ⟨0, false, 0, false, true, 1, 2⟩ ⟨1, false, 0, false, false, 2, 1⟩ (by decide)
  revert this
  decide

/-- F11 with the `cost_ = 0` a solution without objective has by default, under a maximizing
objective (MaximizeMinClearance): `a < b` and `b < a`. -/
theorem lt_not_swo_mixed_default_cost :
    ¬ (∀ a b : Soln Int, Soln.lt cmpMax a b = true → Soln.lt cmpMax b a = false) := by
  intro h
  have := h ⟨0, false, 0, false, true, 1, 2⟩ ⟨1, false, 0, false, false, 0, 1⟩ (by decide)
  revert this
  decide

/-- F11, consequence: adding these two leaves an inversion in the list. -/
theorem add_mixed_inversion :
    firstInversion (cmpMax (α := Int))
      (SolnSet.addAll cmpMax [] [⟨-1, false, 0, false, true, 1, 2⟩, ⟨-1, false, 0, false, false, 0, 1⟩]) ≠ none := by
  decide

/-- after any sequence of `add`s (from the empty set) the list is a permutation of the inputs
stamped with their insertion index, and on homogeneous inputs it has no inversion w.r.t. `lt`. -/
theorem add_sorted_perm {o : Cmp α} (hl : IsSWO o.lt) (hb : IsSWO o.better) (h : Bool)
    (xs : List (Soln α)) (hx : Homog h xs) :
    (SolnSet.addAll o [] xs).Perm (stamp 0 xs) ∧ Sorted o (SolnSet.addAll o [] xs) := by
  refine ⟨by simpa using addAll_perm o [] xs, ?_⟩
  exact addAll_sorted hl hb [] xs (fun _ hz => by simp at hz) (by simp [Sorted]) hx

/-- the permutation part needs no assumption at all (it holds for `Float`, NaN included, and for
mixed sets): nothing is lost, duplicated or re-indexed. -/
theorem add_perm_any (o : Cmp α) (s : SolnSet α) (xs : List (Soln α)) :
    (SolnSet.addAll o s xs).Perm (s ++ stamp s.length xs) := addAll_perm o s xs

example : (SolnSet.addAll (cmpMin (α := Int)) [] [⟨-1, true, 5, false, true, 1, 1⟩, ⟨-1, false, 0, false, true, 3, 3⟩]).map (·.idx) = [1, 0] := by
  decide

/-- the top solution is best: nothing in the set ranks before it; spelled out: an exact solution
beats every approximate one; among approximate ones the goal difference is minimal; among exact
ones an objective-satisfying one comes first; within the same class the cost (or, without an
objective, the length) is not beaten. -/
theorem top_best {o : Cmp α} (hl : IsSWO o.lt) (hb : IsSWO o.better) (h : Bool)
    (xs : List (Soln α)) (hx : Homog h xs) (t : Soln α)
    (ht : SolnSet.top (SolnSet.addAll o [] xs) = some t) :
    ∀ x ∈ SolnSet.addAll o [] xs,
      Soln.lt o x t = false ∧
      (x.approx = false → t.approx = false) ∧
      (t.approx = true → o.lt x.diff t.diff = false) ∧
      (t.approx = false → x.approx = false → x.optimized = true → t.optimized = true) ∧
      (t.approx = false → x.approx = false → x.optimized = t.optimized →
        (if x.hasOpt then o.better x.cost t.cost else o.lt x.length t.length) = false) := by
  have hs := (add_sorted_perm hl hb h xs hx).2
  cases hset : SolnSet.addAll o [] xs with
  | nil => simp [hset, SolnSet.top] at ht
  | cons t' l =>
    rw [hset] at hs ht
    simp only [SolnSet.top, List.head?_cons, Option.some.injEq] at ht
    subst ht
    intro x hxm
    have hlt := head_best hl hb hs x hxm
    refine ⟨hlt, ?_, ?_, ?_, ?_⟩ <;>
    · unfold Soln.lt at hlt
      rcases x with ⟨xi, xa, xd, xo, xh, xc, xl⟩
      rcases t' with ⟨ti, ta, td, topt, th, tc, tl⟩
      cases xa <;> cases ta <;> cases xo <;> cases topt <;> cases xh <;> simp_all

/-- the accessors report the top solution (`getDifference` is `-1` on the empty set,
`hasExactSolution = hasSolution && !hasApproximateSolution`). -/
theorem accessors_mirror_top (minusOne : α) (s : SolnSet α) :
    (SolnSet.top s = none →
      SolnSet.isApproximate s = false ∧ SolnSet.isOptimized s = false ∧
      SolnSet.getDifference minusOne s = minusOne ∧ SolnSet.hasExactSolution s = false) ∧
    (∀ t, SolnSet.top s = some t →
      SolnSet.isApproximate s = t.approx ∧ SolnSet.isOptimized s = t.optimized ∧
      SolnSet.getDifference minusOne s = t.diff ∧ SolnSet.hasExactSolution s = !t.approx) := by
  cases s with
  | nil => simp [SolnSet.top, SolnSet.isApproximate, SolnSet.isOptimized, SolnSet.getDifference,
      SolnSet.hasExactSolution, SolnSet.hasSolution]
  | cons a l =>
    simp [SolnSet.top, SolnSet.isApproximate, SolnSet.isOptimized, SolnSet.getDifference,
      SolnSet.hasExactSolution, SolnSet.hasSolution]

example : SolnSet.getDifference (-1 : Int) [] = -1 := rfl

/-- adding a solution never makes the top worse: the old top does not rank before the new top
(so across continued solves, which only add, the best solution handed out only improves). -/
theorem add_min_monotone {o : Cmp α} (hl : IsSWO o.lt) (hb : IsSWO o.better) (h : Bool)
    (s : SolnSet α) (hs : Homog h s) (x : Soln α) (hx : x.hasOpt = h) (t t' : Soln α)
    (ht : SolnSet.top s = some t) (ht' : SolnSet.top (SolnSet.add o s x) = some t') :
    Soln.lt o t t' = false := by
  have hsorted := add_sorted hl hb s x hs hx
  have hperm := add_perm o s x
  have htm : t ∈ SolnSet.add o s x := by
    refine hperm.mem_iff.mpr (List.mem_append.mpr (Or.inl ?_))
    cases s with
    | nil => simp [SolnSet.top] at ht
    | cons a l => simp only [SolnSet.top, List.head?_cons, Option.some.injEq] at ht; simp [ht]
  cases hset : SolnSet.add o s x with
  | nil => rw [hset] at htm; simp at htm
  | cons a l =>
    rw [hset] at hsorted ht' htm
    simp only [SolnSet.top, List.head?_cons, Option.some.injEq] at ht'
    subst ht'
    exact head_best hl hb hsorted t htm

/-- … and in particular the best stored cost among exact, equally-flagged solutions never gets worse. -/
theorem add_best_cost_monotone {o : Cmp α} (hl : IsSWO o.lt) (hb : IsSWO o.better)
    (s : SolnSet α) (hs : Homog true s) (x : Soln α) (hx : x.hasOpt = true) (t t' : Soln α)
    (ht : SolnSet.top s = some t) (ht' : SolnSet.top (SolnSet.add o s x) = some t')
    (hex : t.approx = false) (hex' : t'.approx = false) (hopt : t.optimized = t'.optimized) :
    o.better t.cost t'.cost = false := by
  have hlt := add_min_monotone hl hb true s hs x hx t t' ht ht'
  have hth : t.hasOpt = true := by
    cases s with
    | nil => simp [SolnSet.top] at ht
    | cons a l =>
      simp only [SolnSet.top, List.head?_cons, Option.some.injEq] at ht
      exact ht ▸ hs a (by simp)
  unfold Soln.lt at hlt
  rcases t with ⟨ti, ta, td, topt, th, tc, tl⟩
  rcases t' with ⟨ui, ua, ud, uo, uh, uc, ul⟩
  cases topt <;> cases uo <;> simp_all

/-- `PathGeometric::cost` is the fold of `motionCost` with `combineCosts` over consecutive states,
started at `initialCost(front)` and closed with `terminalCost(back)`; identity for the empty path. -/
theorem pathCost_fold {σ : Type} (A : CostAlg α) (mc : σ → σ → α) (ini ter : σ → α) :
    pathCost A mc ini ter [] = A.identity ∧
    ∀ (s : σ) (rest : List σ),
      pathCost A mc ini ter (s :: rest) =
        A.combine (((s :: rest).zip rest).foldl (fun c p => A.combine c (mc p.1 p.2)) (ini s))
          (ter ((s :: rest).getLast (by simp))) := by
  refine ⟨rfl, fun s rest => ?_⟩
  simp [pathCost, costLoop_eq_foldl]

/-- no motion is skipped: extending a path by one state combines exactly that motion's cost. -/
theorem pathCost_last_motion {σ : Type} (A : CostAlg α) (mc : σ → σ → α) (c : α) (l : List σ) (a b : σ) :
    costLoop A mc c (l ++ [a, b]) = A.combine (costLoop A mc c (l ++ [a])) (mc a b) :=
  costLoop_snoc A mc c l a b

example : pathCost (σ := Int) ⟨0, (· + ·), fun a b => decide (a < b)⟩ (fun a b => (b - a).natAbs) (fun _ => 0) (fun _ => 0)
    [0, 3, 1] = (5 : Int) := by decide

/-- [ordered monoid] a path is never shorter than the straight line between its end points, for
every distance obeying the triangle inequality (`d a a ≤ 0` is the degenerate one-state case). -/
theorem pathLength_ge_straightLine {σ : Type} [AddCommMonoid α] [PartialOrder α] [IsOrderedAddMonoid α]
    (d : σ → σ → α) (hself : ∀ a, d a a ≤ 0) (tri : ∀ a b c, d a c ≤ d a b + d b c)
    (s : σ) (rest : List σ) :
    d s ((s :: rest).getLast (by simp)) ≤ pathLength 0 (· + ·) d (s :: rest) := by
  have := lengthLoop_ge d hself tri 0 s rest
  simpa [pathLength] using this

/-- … and so is the path-length *cost* (`PathLengthOptimizationObjective`: additive algebra,
`motionCost = distance`, identity initial and terminal cost). -/
theorem pathLengthCost_ge_straightLine {σ : Type} [AddCommMonoid α] [PartialOrder α] [IsOrderedAddMonoid α]
    (better : α → α → Bool) (d : σ → σ → α) (hself : ∀ a, d a a ≤ 0) (tri : ∀ a b c, d a c ≤ d a b + d b c)
    (s : σ) (rest : List σ) :
    d s ((s :: rest).getLast (by simp)) ≤
      pathCost (mkAdditive 0 (· + ·) better) d (fun _ => 0) (fun _ => 0) (s :: rest) := by
  have h := lengthLoop_ge d hself tri 0 s rest
  rw [lengthLoop_eq_costLoop 0 (· + ·) better] at h
  simpa [pathCost, mkAdditive] using h

example : pathLength (σ := Int) (0 : Int) (· + ·) (fun a b => ((b - a).natAbs : Int)) [0, 3, 1] = 5 := by decide

/-- `isSatisfied(c)` is `isCostBetterThan(c, threshold)`: a solution must be flagged as meeting the
objective exactly when its stored cost is better than the threshold. -/
theorem isSatisfied_iff (A : CostAlg α) (thr c : α) :
    A.isSatisfied thr c = true ↔ A.better c thr = true := Iff.rfl

example : (mkAdditive (0 : Int) (· + ·) (fun a b => decide (a < b))).isSatisfied 5 3 = true := by decide

/-- [ordered monoid] for the additive algebra, appending the same further cost to two partial
costs never reverses "not better". -/
theorem combine_monotone_additive [AddCommMonoid α] [LinearOrder α] [IsOrderedAddMonoid α] (a b c : α)
    (h : (mkAdditive (0 : α) (· + ·) (fun a b => decide (a < b))).better a b = false) :
    (mkAdditive (0 : α) (· + ·) (fun a b => decide (a < b))).better
      ((mkAdditive (0 : α) (· + ·) (fun a b => decide (a < b))).combine a c)
      ((mkAdditive (0 : α) (· + ·) (fun a b => decide (a < b))).combine b c) = false := by
  simp only [mkAdditive, decide_eq_false_iff_not, not_lt] at h ⊢
  exact add_le_add h (le_refl c)

/-- [strict weak order] same for the minimax algebras (Minimax, MaximizeMinClearance). -/
theorem combine_monotone_minimax {better : α → α → Bool} (hb : IsSWO better) (ident a b c : α)
    (h : better a b = false) :
    better ((mkMinimax ident better).combine a c) ((mkMinimax ident better).combine b c) = false := by
  simp only [mkMinimax]
  cases h1 : better a c <;> cases h2 : better b c <;> simp
  · exact h
  · exact h1
  · cases h3 : better c b with
    | false => rfl
    | true =>
      have := hb.trans h1 h3
      simp_all
  · exact hb.irrefl c

/-! ## Round 5: the reported best is a maximum; laws of the shipped objectives -/

/-- (a) what `getSolutionPath` / `getSolution` / `hasApproximateSolution` / `hasOptimizedSolution` /
`getSolutionDifference` hand out after ANY sequence of `addSolutionPath` on a homogeneous multiset: a maximum of the
coded strict weak order (nothing added ranks strictly before it), and the accessors are that solution's fields. -/
theorem reported_best_is_maximum {o : Cmp α} (hl : IsSWO o.lt) (hb : IsSWO o.better) (h : Bool) (minusOne : α)
    (xs : List (Soln α)) (hx : Homog h xs) (t : Soln α) (ht : SolnSet.top (SolnSet.addAll o [] xs) = some t) :
    (∀ x ∈ SolnSet.addAll o [] xs, Soln.lt o x t = false) ∧
    (∃ x ∈ stamp 0 xs, x = t) ∧
    SolnSet.isApproximate (SolnSet.addAll o [] xs) = t.approx ∧
    SolnSet.isOptimized (SolnSet.addAll o [] xs) = t.optimized ∧
    SolnSet.getDifference minusOne (SolnSet.addAll o [] xs) = t.diff := by
  have hacc := (accessors_mirror_top minusOne (SolnSet.addAll o [] xs)).2 t ht
  refine ⟨fun x hx' => (top_best hl hb h xs hx t ht x hx').1, ?_, hacc.1, hacc.2.1, hacc.2.2.1⟩
  have hperm := (add_sorted_perm hl hb h xs hx).1
  have hmem : t ∈ SolnSet.addAll o [] xs := by
    cases hs : SolnSet.addAll o [] xs with
    | nil => rw [hs] at ht; simp [SolnSet.top] at ht
    | cons a l => rw [hs] at ht; simp [SolnSet.top] at ht; simp [ht]
  exact ⟨t, hperm.mem_iff.mp hmem, rfl⟩

example : (SolnSet.top (SolnSet.addAll (cmpMin (α := Int)) [] [⟨-1, true, 5, false, true, 1, 1⟩, ⟨-1, false, 0, false, true, 3, 3⟩])).map
    (·.idx) = some 1 := by decide

section ObjectiveLaws

/-- (b) the default algebra (`identityCost = 0`, `combineCosts = +`): a commutative monoid, as the planners assume when
they accumulate costs along a path in any association order. -/
theorem additive_monoid_laws [AddCommMonoid α] (better : α → α → Bool) (a b c : α) :
    (mkAdditive (0 : α) (· + ·) better).combine (mkAdditive (0 : α) (· + ·) better).identity a = a ∧
    (mkAdditive (0 : α) (· + ·) better).combine a (mkAdditive (0 : α) (· + ·) better).identity = a ∧
    (mkAdditive (0 : α) (· + ·) better).combine ((mkAdditive (0 : α) (· + ·) better).combine a b) c =
      (mkAdditive (0 : α) (· + ·) better).combine a ((mkAdditive (0 : α) (· + ·) better).combine b c) ∧
    (mkAdditive (0 : α) (· + ·) better).combine a b = (mkAdditive (0 : α) (· + ·) better).combine b a := by
  simp only [mkAdditive]
  exact ⟨zero_add a, add_zero a, add_assoc a b c, add_comm a b⟩

/-- `MinimaxObjective::combineCosts` with `isCostBetterThan = <` is `max` (associative, commutative, idempotent;
`identity` is neutral when it is the least cost). -/
theorem minimax_combine_eq_max [LinearOrder α] (ident a b c : α) :
    (mkMinimax ident (fun x y => decide (x < y))).combine a b = max a b ∧
    (mkMinimax ident (fun x y => decide (x < y))).combine ((mkMinimax ident (fun x y => decide (x < y))).combine a b) c =
      (mkMinimax ident (fun x y => decide (x < y))).combine a ((mkMinimax ident (fun x y => decide (x < y))).combine b c) ∧
    ((∀ x, ident ≤ x) → (mkMinimax ident (fun x y => decide (x < y))).combine ident a = a ∧
      (mkMinimax ident (fun x y => decide (x < y))).combine a ident = a) := by
  have key : ∀ x y : α, (mkMinimax ident (fun x y => decide (x < y))).combine x y = max x y := by
    intro x y
    simp only [mkMinimax, decide_eq_true_eq]
    split
    · rename_i h; exact (max_eq_right (le_of_lt h)).symm
    · rename_i h; exact (max_eq_left (not_lt.mp h)).symm
  refine ⟨key a b, by rw [key, key, key, key, max_assoc], fun hid => ?_⟩
  rw [key, key]
  exact ⟨max_eq_right (hid a), max_eq_left (hid a)⟩

/-- `MaximizeMinClearanceObjective` (`isCostBetterThan = >`, Minimax's `combineCosts`): `min`. -/
theorem clearance_combine_eq_min [LinearOrder α] (ident a b : α) :
    (mkMinimax ident (fun x y => decide (y < x))).combine a b = min a b := by
  simp only [mkMinimax, decide_eq_true_eq]
  split
  · rename_i h; exact (min_eq_right (le_of_lt h)).symm
  · rename_i h; exact (min_eq_left (not_lt.mp h)).symm

/-- the objectives' arithmetic over an ordered field (`sqrt`, `ceil`, `±inf` are not used by the theorems below). -/
@[reducible] def fieldNum (α : Type) [Field α] [LinearOrder α] : Num α :=
  { zero := 0, one := 1, half := 1 / 2, inf := 0, negInf := 0, lt := fun a b => decide (a < b), sqrt := id,
    ofNat := fun n => (n : α), ceilNat := fun _ => 0 }

/-- `StateCostIntegralObjective::trapezoid` is `dist * (c1 + c2) / 2` and non-negative for non-negative state costs and
distance (`integral_cost_nonneg`, left undone since round 1). -/
theorem integral_cost_nonneg [Field α] [LinearOrder α] [IsStrictOrderedRing α] (c1 c2 d : α)
    (h1 : 0 ≤ c1) (h2 : 0 ≤ c2) (hd : 0 ≤ d) :
    @trapezoid α (fieldNum α) c1 c2 d = d * (c1 + c2) / 2 ∧ 0 ≤ @trapezoid α (fieldNum α) c1 c2 d := by
  constructor
  · show (1 / 2 : α) * d * (c1 + c2) = d * (c1 + c2) / 2
    ring
  · show 0 ≤ (1 / 2 : α) * d * (c1 + c2)
    exact mul_nonneg (mul_nonneg (by norm_num) hd) (add_nonneg h1 h2)

/-- `MechanicalWorkOptimizationObjective::motionCost` is `max(c(s2) - c(s1), 0) + w * distance`, non-negative when
`w * distance` is. -/
theorem mechanicalWork_eq [Field α] [LinearOrder α] [IsStrictOrderedRing α] (w : α) (sc : Pt α → α) (a b : Pt α) :
    @mcWork α (fieldNum α) w sc a b = max (sc b - sc a) 0 + w * @rvDist α (fieldNum α) a b ∧
    (0 ≤ w * @rvDist α (fieldNum α) a b → 0 ≤ @mcWork α (fieldNum α) w sc a b) := by
  have e : @mcWork α (fieldNum α) w sc a b =
      (if decide (sc b - sc a < 0) = true then 0 else sc b - sc a) + w * @rvDist α (fieldNum α) a b := rfl
  have hmax : (if decide (sc b - sc a < 0) = true then (0 : α) else sc b - sc a) = max (sc b - sc a) 0 := by
    simp only [decide_eq_true_eq]
    split
    · rename_i h; exact (max_eq_right (le_of_lt h)).symm
    · rename_i h; exact (max_eq_left (not_lt.mp h)).symm
  rw [e, hmax]
  exact ⟨rfl, fun h => add_nonneg (le_max_right _ _) h⟩

/-- `MultiOptimizationObjective::motionCost` is the weighted sum of the components' motion costs. -/
theorem multiObjective_weighted_sum [Field α] [LinearOrder α] (comps : List (α × (Pt α → Pt α → α))) (a b : Pt α) :
    @mcMulti α (fieldNum α) comps a b = (comps.map (fun p => p.1 * p.2 a b)).sum := by
  have gen : ∀ (l : List (α × (Pt α → Pt α → α))) (acc : α),
      l.foldl (fun c p => c + p.1 * p.2 a b) acc = acc + (l.map (fun p => p.1 * p.2 a b)).sum := by
    intro l
    induction l with
    | nil => intro acc; simp
    | cons p rest ih => intro acc; simp only [List.foldl_cons, List.map_cons, List.sum_cons]; rw [ih]; ring
  have e : @mcMulti α (fieldNum α) comps a b = comps.foldl (fun c p => c + p.1 * p.2 a b) 0 := rfl
  rw [e, gen, zero_add]

example : @trapezoid ℚ (fieldNum ℚ) 1 3 2 = 4 := by
  show (1 / 2 : ℚ) * 2 * (1 + 3) = 4
  norm_num

end ObjectiveLaws

/-! ## Round 3: `geometric::RRTstar` (default settings) inside the model

`run o sp (St.init o sp) ops` is the planner after ANY history `ops` of added start states, oracle answers,
(re-)entered `solve()` calls and loop passes — every script, every interruption point, every continued
solve.  Round 10: `sp.delayCC` selects the choose-parent loop (`true`, the default: candidates sorted by cost and
collision-checked lazily; `false`: the classic loop over the neighbourhood).  The incumbent theorems
(`rrtstar_best_cost_monotone`, `rrtstar_no_goal_infinite`, `rrtstar_optimized_flag`) hold for both loops as they stand.
The tree / cost / truthfulness theorems take `Clean o sp (St.init o sp) ops`; with the code as it is now (fix e1b5ec649,
`Space.classicOld = false`) EVERY history of EITHER loop is clean (`rrtstar_clean_of_current`), so
`rrtstar_cost_inv_current`, `rrtstar_stored_cost_truthful_current`, `rrtstar_flag_exact_current` are unconditional.
`Space.classicOld = true` is the classic loop as coded before the fix (kept so that a tree without the fix is compared
with the loop it has): there `Clean` says that the loop never cached the new motion's `incCost` for `nmotion` AFTER a
better parent had replaced it (ghost `staleInc`), and without it the theorems are FALSE
(`rrtstar_classic_stale_inc_fails`, finding F340). -/
section RRTstar
open OmplModel.RRTstar
variable {σ δ : Type}

/-- `bestCost_` never gets worse: over loop passes, across interruption and across continued solves. -/
theorem rrtstar_best_cost_monotone {o : Obj σ α} (L : Laws o) (sp : Space σ δ) (ops₁ ops₂ : List (Op σ δ)) :
    o.better (run o sp (St.init o sp) ops₁).bestCost (run o sp (St.init o sp) (ops₁ ++ ops₂)).bestCost = false := by
  have h1 := run_mono L sp (St.init o sp) ops₁ (init_bestInv o sp)
  have h2 := run_mono L sp (run o sp (St.init o sp) ops₁) ops₂ h1.2
  have : run o sp (St.init o sp) (ops₁ ++ ops₂) = run o sp (run o sp (St.init o sp) ops₁) ops₂ := by
    simp [run, List.foldl_append]
  rw [this]
  exact h2.1

/-- … and as long as there is no goal motion it is still `infiniteCost()` (so an approximate solution
is flagged `isSatisfied(infiniteCost())`, see below). -/
theorem rrtstar_no_goal_infinite {o : Obj σ α} (L : Laws o) (sp : Space σ δ) (ops : List (Op σ δ)) :
    (run o sp (St.init o sp) ops).bestGoal = none → (run o sp (St.init o sp) ops).bestCost = o.infinite :=
  (run_mono L sp (St.init o sp) ops (init_bestInv o sp)).2

/-- what `solve()` registers, as coded: `optimized_ = isSatisfied(bestCost_)`; the solution is
approximate exactly when there is no goal motion; the stored cost is the cost field of the reported
motion (`bestGoalMotion_`, else `approxGoalMotion`), NOT `bestCost_`.  For an approximate solution the flag
is therefore `isSatisfied(infiniteCost())` whatever the stored cost. -/
theorem rrtstar_optimized_flag {o : Obj σ α} (L : Laws o) (sp : Space σ δ) (ops : List (Op σ δ)) (r : Report σ α δ)
    (h : report o (run o sp (St.init o sp) ops) = some r) :
    r.optimized = o.isSatisfied (run o sp (St.init o sp) ops).bestCost ∧
    r.approximate = (run o sp (St.init o sp) ops).bestGoal.isNone ∧
    (r.approximate = true → r.optimized = o.isSatisfied o.infinite) ∧
    (∃ n nm, (match (run o sp (St.init o sp) ops).bestGoal with
        | some g => some g
        | none => (run o sp (St.init o sp) ops).approxGoal) = some n ∧
      (run o sp (St.init o sp) ops).motions[n]? = some nm ∧ r.storedCost = nm.cost) := by
  obtain ⟨h1, h2, n, nm, h3, h4, h5, _⟩ := report_spec h
  refine ⟨h1, h2, ?_, n, nm, h3, h4, h5⟩
  intro ha
  rw [h1, rrtstar_no_goal_infinite L sp ops]
  rw [h2] at ha
  cases hb : (run o sp (St.init o sp) ops).bestGoal with
  | none => rfl
  | some g => rw [hb] at ha; simp at ha

/-- the incumbent bookkeeping is in sync in EVERY reachable state: `bestCost_` is the current cost of
`bestGoalMotion_` (the infinite cost when there is none), and `bestGoalMotion_` is one of `goalMotions_`.
(`Laws2`: additionally, extending two costs by the same cost never reverses "not better" — so costs only improve
under rewiring, `applyRewire_notWorse` — and costs that do not beat each other are equal.) -/
theorem rrtstar_best_cost_sync {o : Obj σ α} (L : Laws2 o) (sp : Space σ δ) (ops : List (Op σ δ))
    (hc : Clean o sp (St.init o sp) ops) :
    Sync o (run o sp (St.init o sp) ops) ∧
    ∀ g : Nat, (run o sp (St.init o sp) ops).bestGoal = some g → g ∈ (run o sp (St.init o sp) ops).goalMotions :=
  run_binv L sp _ ops (init_inv o sp) (init_binv o sp) hc

/-- FULL (was `rrtstar_optimized_flag_partial`): for every history, an EXACT solution registered by `solve()` is
marked as meeting the objective exactly when its stored cost satisfies the threshold; an approximate one is flagged
`isSatisfied(infiniteCost())`. -/
theorem rrtstar_optimized_flag_exact {o : Obj σ α} (L : Laws2 o) (sp : Space σ δ) (ops : List (Op σ δ)) (r : Report σ α δ)
    (hc : Clean o sp (St.init o sp) ops) (h : report o (run o sp (St.init o sp) ops) = some r) :
    (r.approximate = false → r.optimized = o.isSatisfied r.storedCost) ∧
    (r.approximate = true → r.optimized = o.isSatisfied o.infinite) := by
  refine ⟨?_, (rrtstar_optimized_flag L.base sp ops r h).2.2.1⟩
  intro hexact
  obtain ⟨hs, _⟩ := rrtstar_best_cost_sync L sp ops hc
  obtain ⟨h1, h2, n, nm, h3, h4, h5, _⟩ := report_spec h
  rw [h2] at hexact
  unfold Sync at hs
  cases hb : (run o sp (St.init o sp) ops).bestGoal with
  | none => rw [hb] at hexact; simp at hexact
  | some g =>
    rw [hb] at h3 hs
    simp only [Option.some.injEq] at h3
    subst h3
    obtain ⟨gm, hgm, hc⟩ := hs
    rw [h4] at hgm; cases hgm
    rw [h1, h5, hc]

/-- the cost invariant holds in EVERY reachable state (every script, interruption point, continued solve):
a start has the identity cost; every other motion's `incCost` is `motionCost(parent.state, state)` (for an
objective that says `isSymmetric()` the rewiring stores the cached reverse cost, which is the same by the
symmetry law; otherwise it recomputes) and its `cost` is `combine(parent.cost, incCost)` — so
`updateChildCosts` really restores the whole subtree after every rewiring, and its fuel never runs out. -/
theorem rrtstar_cost_inv {o : Obj σ α} (L : Laws o) (sp : Space σ δ) (ops : List (Op σ δ))
    (hc : Clean o sp (St.init o sp) ops) :
    (∀ j : Nat, CostOK o (run o sp (St.init o sp) ops).motions j) ∧ (run o sp (St.init o sp) ops).fuelOut = false :=
  ⟨(run_inv L sp _ ops (init_inv o sp) hc).1.costOK, (run_inv L sp _ ops (init_inv o sp) hc).2⟩

/-- the tree invariant holds in EVERY reachable state: children lists are exactly the inverse of the parent
pointers (no duplicates), and every parent chain reaches a start within `n = #motions` steps (no cycles: the
strict rewiring test never re-parents an ancestor of the new motion, `ancestor_not_beaten`). -/
theorem rrtstar_tree_inv {o : Obj σ α} (L : Laws o) (sp : Space σ δ) (ops : List (Op σ δ))
    (hc : Clean o sp (St.init o sp) ops) :
    (∀ (p : Nat) (pm : Motion σ α) (c : Nat), (run o sp (St.init o sp) ops).motions[p]? = some pm →
      (c ∈ pm.children ↔ ∃ cm : Motion σ α, (run o sp (St.init o sp) ops).motions[c]? = some cm ∧ cm.parent = some p) ∧
      pm.children.Nodup) ∧
    (∀ i : Nat, i < (run o sp (St.init o sp) ops).motions.size →
      Complete (run o sp (St.init o sp) ops).motions (run o sp (St.init o sp) ops).motions.size i) :=
  ⟨(run_inv L sp _ ops (init_inv o sp) hc).1.children, (run_inv L sp _ ops (init_inv o sp) hc).1.complete⟩

/-- C04's "equals it for planners that do not defer cost propagation", for EVERY history: the cost stored with the
solution `solve()` registers IS the cost of the reported path under the objective (`PathGeometric::cost`: the fold of
`motionCost` with `combine`, identity initial and terminal cost) — for exact and approximate solutions alike. -/
theorem rrtstar_stored_cost_truthful {o : Obj σ α} (L : Laws o) (sp : Space σ δ) (ops : List (Op σ δ)) (r : Report σ α δ)
    (hc : Clean o sp (St.init o sp) ops) (h : report o (run o sp (St.init o sp) ops) = some r) :
    r.storedCost = pathCost (algOf o) o.motionCost (fun _ => o.identity) (fun _ => o.identity)
      (statesOf (run o sp (St.init o sp) ops).motions r.pathIdx) := by
  have hinv := run_inv L sp _ ops (init_inv o sp) hc
  obtain ⟨_, _, n, nm, _, h4, h5, h6⟩ := report_spec h
  obtain ⟨l, hl, hc⟩ := chain_cost o _ hinv.1.costOK _ n nm h4 (hinv.1.complete n (lt_of_get h4))
  rw [h5, h6, hl, hc]
  cases hl' : l ++ [nm.state] with
  | nil => simp at hl'
  | cons a rest =>
    simp only [pathCost, algOf]
    exact (L.id_right _).symm

/-- the algebraic heart of acyclicity, on its own: a motion whose cost is an ancestor cost `a` extended by motion
costs can never offer that ancestor a strictly better cost.  (With `<=` instead of `<` this fails on a tie: see
`rrtstar_le_rewire_cycles`.) -/
theorem rrtstar_rewire_never_beats_ancestor {o : Obj σ α} (L : Laws o) {a c : α} (h : Desc o a c) (x y : σ) :
    o.better (o.combine c (o.motionCost x y)) a = false :=
  ancestor_not_beaten L h x y

/-- a concrete instance of the laws: additive costs over ℕ with `<`. -/
def natObj : Obj Nat Nat :=
  { identity := 0, infinite := 1000000, combine := (· + ·), better := fun a b => decide (a < b),
    motionCost := fun a b => (a - b) + (b - a), symmetric := true, threshold := 0 }

/-- an additive objective over an ordered monoid with a top element. -/
def addObj {σ : Type} [AddCommMonoid α] [LinearOrder α] (mc : σ → σ → α) (sym : Bool) (thr inf : α) : Obj σ α :=
  { identity := 0, infinite := inf, combine := (· + ·), better := fun a b => decide (a < b), motionCost := mc,
    symmetric := sym, threshold := thr }

/-- every additive objective with non-negative motion costs (path length, state-cost integral, mechanical work,
weighted sums of these) over a linearly ordered additive monoid with a greatest element obeys all the laws the RRT*
theorems assume — they are not vacuous. -/
theorem laws_additive {σ : Type} [AddCommMonoid α] [LinearOrder α] [IsOrderedAddMonoid α] (mc : σ → σ → α) (sym : Bool)
    (thr inf : α) (hmc : ∀ x y, 0 ≤ mc x y) (hinf : ∀ a, a ≤ inf) (hsym : sym = true → ∀ x y, mc x y = mc y x) :
    Laws2 (addObj mc sym thr inf) where
  base :=
    { swo := isSWO_of_linearOrder
      id_right := fun a => add_zero a
      nonneg := fun a x y => by
        simp only [addObj, decide_eq_false_iff_not, not_lt]
        exact le_add_of_nonneg_right (hmc x y)
      inf_worst := fun a => by
        simp only [addObj, decide_eq_false_iff_not, not_lt]
        exact hinf a
      sym := hsym }
  mono := fun a a' c h => by
    simp only [addObj, decide_eq_false_iff_not, not_lt] at h ⊢
    exact add_le_add h (le_refl c)
  total := fun a b h1 h2 => by
    simp only [addObj, decide_eq_false_iff_not, not_lt] at h1 h2
    exact le_antisymm h2 h1

/-- non-vacuity: path length on the line ℕ with costs in `ℕ∞`. -/
example : Laws2 (addObj (fun a b : Nat => (((a - b) + (b - a) : Nat) : ℕ∞)) true 0 ⊤) :=
  laws_additive _ _ _ _ (fun _ _ => zero_le) (fun _ => le_top) (fun _ x y => by rw [Nat.add_comm])

example : CostOK natObj #[⟨0, none, 0, 0, [1], false⟩, ⟨3, some 0, 3, 3, [], false⟩] 1 := by
  intro m hm
  simp at hm
  subst hm
  exact ⟨⟨0, none, 0, 0, [1], false⟩, by simp, by simp [natObj], by simp [natObj]⟩

def natSt : St Nat Nat Nat :=
  { motions := #[⟨0, none, 0, 0, [1], false⟩, ⟨3, some 0, 3, 3, [], true⟩], goalMotions := [1],
    bestGoal := some 1, bestCost := 3, approxDist := 0 }

example : (report natObj natSt).map (·.storedCost) = some 3 := by decide

/-- with the default settings (`delayCC_ = true`) every history is clean: the theorems above are unconditional there. -/
theorem rrtstar_clean_of_delayCC (o : Obj σ α) (sp : Space σ δ) (ops : List (Op σ δ)) (h : sp.delayCC = true) :
    Clean o sp (St.init o sp) ops :=
  clean_of_delayCC o sp _ ops h

/-- with the code as it is now (fix e1b5ec649: the classic loop caches `nmotion`'s own edge) EVERY history of EITHER
choose-parent loop is clean. -/
theorem rrtstar_clean_of_current (o : Obj σ α) (sp : Space σ δ) (ops : List (Op σ δ)) (h : sp.classicOld = false) :
    Clean o sp (St.init o sp) ops :=
  clean_of_current o sp _ ops h

/-- THE POINT OF THE FIX: with the current code the cost invariant holds in EVERY reachable state of EITHER loop
(`delayCC_` true or false) — no cleanliness hypothesis. -/
theorem rrtstar_cost_inv_current {o : Obj σ α} (L : Laws o) (sp : Space σ δ) (ops : List (Op σ δ)) (hcur : sp.classicOld = false) :
    (∀ j : Nat, CostOK o (run o sp (St.init o sp) ops).motions j) ∧ (run o sp (St.init o sp) ops).fuelOut = false :=
  rrtstar_cost_inv L sp ops (rrtstar_clean_of_current o sp ops hcur)

/-- … and so the stored cost of whatever `solve()` registers IS the cost of the reported path, for every history of either
loop. -/
theorem rrtstar_stored_cost_truthful_current {o : Obj σ α} (L : Laws o) (sp : Space σ δ) (ops : List (Op σ δ)) (r : Report σ α δ)
    (hcur : sp.classicOld = false) (h : report o (run o sp (St.init o sp) ops) = some r) :
    r.storedCost = pathCost (algOf o) o.motionCost (fun _ => o.identity) (fun _ => o.identity)
      (statesOf (run o sp (St.init o sp) ops).motions r.pathIdx) :=
  rrtstar_stored_cost_truthful L sp ops r (rrtstar_clean_of_current o sp ops hcur) h

/-- … and the tree invariant, the incumbent synchronisation and the exact optimized flag likewise. -/
theorem rrtstar_flag_exact_current {o : Obj σ α} (L : Laws2 o) (sp : Space σ δ) (ops : List (Op σ δ)) (r : Report σ α δ)
    (hcur : sp.classicOld = false) (h : report o (run o sp (St.init o sp) ops) = some r) :
    (r.approximate = false → r.optimized = o.isSatisfied r.storedCost) ∧
    (r.approximate = true → r.optimized = o.isSatisfied o.infinite) :=
  rrtstar_optimized_flag_exact L sp ops r (rrtstar_clean_of_current o sp ops hcur) h


/-- a 1-D world for the classic loop (`delayCC = false`): states are naturals, distance `|a − b|`, range 10, the goal is
the point 10, no goal sampling; `steer` is a parameter. -/
def classicSp (steer : Nat → Nat → Nat → Nat) (old : Bool := true) : Space Nat Nat :=
  { dist := fun a b => (a - b) + (b - a), dlt := fun a b => decide (a < b), steer := steer, maxDistance := 10,
    goalDist := fun s => (s - 10) + (10 - s), goalThr := 0, goalState := 10, maxGoalSamples := 0, goalBias := 0,
    kNearest := fun _ => 5, dinf := 1000000, delayCC := false, classicOld := old }

/-- start at 0; samples 10 (becomes the goal motion 1 under the start) and 100 (steered from motion 1). -/
def classicOps : List (Op Nat Nat) :=
  [.start 0, .feed [] [10, 100] [true, true, true, true], .beginSolve, .iter, .iter]

/-- non-vacuity of `Clean` with the classic loop switched on: with a steering function that moves along the line
(10 → 20) the history is clean and non-trivial (three motions, an exact solution of cost 10 = its path cost). -/
example : Clean natObj (classicSp (fun a _ _ => a + 10)) (St.init natObj (classicSp (fun a _ _ => a + 10))) classicOps ∧
    (run natObj (classicSp (fun a _ _ => a + 10)) (St.init natObj (classicSp (fun a _ _ => a + 10))) classicOps).motions.size = 3 ∧
    (report natObj (run natObj (classicSp (fun a _ _ => a + 10)) (St.init natObj (classicSp (fun a _ _ => a + 10))) classicOps)).map
      (·.storedCost) = some 10 := by
  refine ⟨fun _ _ k => ?_, by decide, by decide⟩
  rcases k with _ | _ | _ | _ | _ | k
  · decide
  · decide
  · decide
  · decide
  · decide
  · rw [List.take_of_length_le (by simp [classicOps])]
    decide

/-- THE CLASSIC LOOP AS CODED BEFORE FIX e1b5ec649 (`classicOld`, finding F340) IS NOT TRUTHFUL WITHOUT CLEANLINESS
(negation of `rrtstar_cost_inv` / `rrtstar_stored_cost_truthful` for that loop, concrete witness).  The `else` branch of the loop
(`nbh[i] == nmotion`) caches `incCosts[i] = motion->incCost`, the new motion's CURRENT edge cost; when an earlier
neighbour has already replaced `nmotion` as the parent, that is the cost of the edge from the NEW parent.  Here the new
state 4 (steered from motion 1 = state 10 towards the sample, landing nearer to the start 0 — an `interpolate` that does
not stay on the geodesic, or in C++ an exact distance tie that `nearestK` orders the other way) has the neighbourhood
`[0, 1]`: the start becomes the parent (edge 4), then `incCosts[1] = 4` is cached for motion 1 although
`motionCost(4, 10) = 6`; the rewiring loop (symmetric objective: cached reverse cost) re-parents the goal motion 1 under
the new motion with `incCost 4`, `cost 8`.  `solve()` then stores cost 8 for the path `0 → 4 → 10` whose cost is 10:
the stored cost is BETTER than the true cost.  All other clauses of the invariant still hold. -/
theorem rrtstar_classic_stale_inc_fails :
    (classicSp (fun _ _ _ => 4)).delayCC = false ∧ (classicSp (fun _ _ _ => 4)).classicOld = true ∧
    (run natObj (classicSp (fun _ _ _ => 4)) (St.init natObj (classicSp (fun _ _ _ => 4))) classicOps).staleInc = true ∧
    ((run natObj (classicSp (fun _ _ _ => 4)) (St.init natObj (classicSp (fun _ _ _ => 4))) classicOps).motions[1]?.map
      (fun m => (m.state, m.parent, m.incCost, m.cost))) = some (10, some 2, 4, 8) ∧
    natObj.motionCost 4 10 = 6 ∧
    ∃ r, report natObj (run natObj (classicSp (fun _ _ _ => 4)) (St.init natObj (classicSp (fun _ _ _ => 4))) classicOps) = some r ∧
      r.approximate = false ∧ r.path = [0, 4, 10] ∧ r.storedCost = 8 ∧
      pathCost (algOf natObj) natObj.motionCost (fun _ => natObj.identity) (fun _ => natObj.identity) r.path = 10 ∧
      natObj.better r.storedCost
        (pathCost (algOf natObj) natObj.motionCost (fun _ => natObj.identity) (fun _ => natObj.identity) r.path) = true := by
  refine ⟨rfl, rfl, by decide, by decide, by decide, ?_⟩
  refine ⟨_, rfl, ?_⟩
  decide


/-- the same history on the CURRENT code (same world, same off-geodesic steering, `classicOld = false`): the goal motion
is re-parented with `incCost 6 = motionCost(4, 10)`, cost 10; the stored cost 10 is the cost of the path `0 → 4 → 10`. -/
example :
    ((run natObj (classicSp (fun _ _ _ => 4) false) (St.init natObj (classicSp (fun _ _ _ => 4) false)) classicOps).motions[1]?.map
      (fun m => (m.parent, m.incCost, m.cost))) = some (some 0, 10, 10) ∨
    ((run natObj (classicSp (fun _ _ _ => 4) false) (St.init natObj (classicSp (fun _ _ _ => 4) false)) classicOps).motions[1]?.map
      (fun m => (m.parent, m.incCost, m.cost))) = some (some 2, 6, 10) := by
  decide

example : (report natObj (run natObj (classicSp (fun _ _ _ => 4) false) (St.init natObj (classicSp (fun _ _ _ => 4) false))
    classicOps)).map (fun r => (r.storedCost, pathCost (algOf natObj) natObj.motionCost (fun _ => natObj.identity)
      (fun _ => natObj.identity) r.path)) = some (10, 10) := by
  decide

/-- a state obeying the invariant with a zero-length chain `1 → 2 → 3` (three motions at the same place):
motion 3 (just inserted under 2) offers its ancestor 1 exactly the cost it already has. -/
def tieSt : St Nat Nat Nat :=
  { motions := #[⟨0, none, 0, 0, [1], false⟩, ⟨5, some 0, 5, 5, [2], false⟩, ⟨5, some 1, 5, 0, [3], false⟩,
                 ⟨5, some 2, 5, 0, [], false⟩],
    bestCost := 1000000, approxDist := 0 }

/-- WITNESS for the `<=` variant of the rewiring test.  In `tieSt`, the candidate "re-parent motion 1 under the
new motion 3" has new cost `5 + 0 = 5`, exactly motion 1's cost.  The coded strict test refuses it
(`isCostBetterThan(5, 5)` is false); a `<=` test (`!isCostBetterThan(old, new)`) accepts it; and performing the
rewiring (`applyRewire`, unchanged) re-parents an ANCESTOR of 3: the parent pointers now cycle `1 → 3 → 2 → 1`, the
chain from 1 never reaches a start, and `updateChildCosts` exhausts any fuel (in C++: unbounded recursion). -/
theorem rrtstar_le_rewire_cycles :
    natObj.better (natObj.combine 5 (natObj.motionCost 5 5)) 5 = false ∧
    (!natObj.better 5 (natObj.combine 5 (natObj.motionCost 5 5))) = true ∧
    (applyRewire natObj tieSt 3 1 0 5).fuelOut = true ∧
    chainUp (applyRewire natObj tieSt 3 1 0 5).motions 4 1 = [1, 3, 2, 1] := by
  decide

end RRTstar

end OmplModel.Props.C04
