import OmplModel.Proofs.RSOrbit
import OmplModel.Props.C14RS
/-!
# C14 (round 10, third lap) — the 64-image symmetry closure of the eight Reeds-Shepp base formulas

`Model/RSOrbit.lean` defines the closure: every base formula (8.1, 8.2, 8.3, 8.7, 8.8, 8.9, 8.10, 8.11) under timeflip, reflect and
"backwards" — 8 x 8 = 64 images.  `ReedsSheppStateSpace.cpp` enumerates 44 (`coded` = `allCands`); it omits the backwards images of 8.1,
8.2, 8.7, 8.8 and 8.11 (`missing`, 20 images).

Proved here: the closure has exactly this shape (`rs_closure_shape`); EVERY one of the 64 images, the 20 omitted ones included, is a
real curve that reaches the goal (`rs_closure_reaches` — so a shorter omitted image would be a genuine counterexample to the minimality of
the reported distance); the returned path is no longer than any image of the closure that belongs to a formula whose eight images are all
coded (8.3, 8.9, 8.10: 24 images) or is a forwards image of the others (20 images) — `rs_dominates_closure_partial`.

FULL statement (not proved):  `reedsShepp x y phi = some P → ∀ L Q, some (L, Q) ∈ closure64 x y phi → P.len ≤ Q.len`.
Missing: for each of the 20 omitted images a coded image of the same length.  The identity behind it is that the solver input at
`(xb, yb)` is the mirror image, in the line of direction `phi/2`, of the input at `(x, y)` (`rs_back_mirrors_input`, proved: same
straight-segment length `u`), so that `S(xb, yb, phi) = (v, u, t)` iff `S(x, y, phi) = (t, u, v)`; turning this into equality of the
normalised angles (`atan2` / `rmod2pi` representatives, the `±pi` boundary) is what is left.  The check compares instead (differential,
op `rsclos`): the shortest omitted image never undercuts `reedsShepp` (both at the tolerant `ZERO`).
-/
namespace OmplModel.Props.C14R
open OmplModel OmplModel.Dubins OmplModel.RS

section AF
variable {α : Type} [RSNum α]

/-- [AF] **shape of the closure**: 44 coded images (the code's five families, in its order) followed by the 20 omitted backwards images. -/
theorem rs_closure_shape (x y phi : α) :
    closure64 x y phi = coded x y phi ++ missing x y phi ∧
    (coded x y phi).length = 44 ∧ (missing x y phi).length = 20 ∧ (closure64 x y phi).length = 64 := by
  refine ⟨rfl, ?_, ?_, ?_⟩ <;>
    simp [closure64, coded, missing, candsCSC, candsCCC, candsCCCC, candsCCSC, candsCCSCC, four]

example (x y phi : α) : (closure64 x y phi).length = 64 := (rs_closure_shape x y phi).2.2.2

end AF

attribute [-instance] Num.instOfNat

/-- [EX] **every image of the 64-image closure reaches the goal** (the stored word, driven from the origin by the model's signed
integration, ends at `(x, y)` with heading `phi + 2πk`), the 20 images the C++ omits included. -/
theorem rs_closure_reaches (x y phi L : ℝ) (Q : RSPath ℝ) (h : some (L, Q) ∈ closure64 x y phi) : Reaches Q x y phi := by
  rcases List.mem_append.mp h with h | h
  · exact coded_reach x y phi L Q h
  · exact missing_reach x y phi L Q h

example (x y phi L : ℝ) (Q : RSPath ℝ) (h : some (L, Q) ∈ missing x y phi) : Reaches Q x y phi :=
  rs_closure_reaches x y phi L Q (List.mem_append_right _ h)

/-- [EX] the mirror identity behind the omitted images: the vector the CSC / CCC solvers take the polar form of, evaluated at the
backwards goal `(xb, yb)`, is the mirror image (in the line of direction `phi/2`) of the one at `(x, y)` — same length. -/
theorem rs_back_mirrors_input (x y phi : ℝ) :
    let X := x - Real.sin phi
    let Y := y - 1 + Real.cos phi
    let X' := backX x y phi - Real.sin phi
    let Y' := backY x y phi - 1 + Real.cos phi
    X' = X * Real.cos phi + Y * Real.sin phi ∧ Y' = X * Real.sin phi - Y * Real.cos phi ∧ X' ^ 2 + Y' ^ 2 = X ^ 2 + Y ^ 2 := by
  simp only [backX_eq, backY_eq]
  have h := Real.sin_sq_add_cos_sq phi
  refine ⟨by ring, by linear_combination h, ?_⟩
  linear_combination ((x - Real.sin phi) ^ 2 + (y - 1 + Real.cos phi) ^ 2 +
    2 * ((x - Real.sin phi) * Real.sin phi - (y - 1 + Real.cos phi) * Real.cos phi) +
    (Real.sin phi ^ 2 + Real.cos phi ^ 2 - 1)) * h

example : backX (1 : ℝ) 0 0 = 1 ∧ backY (1 : ℝ) 0 0 = 0 := by
  simp [backX_eq, backY_eq]

/-- [EX] **partial dominance**: the returned path is no longer than any coded image of the closure — all eight images of formulas
8.3, 8.9, 8.10 and the four forwards images of 8.1, 8.2, 8.7, 8.8, 8.11 (44 of the 64).  Full statement and what is missing: see the header. -/
theorem rs_dominates_closure_partial (x y phi : ℝ) (P : RSPath ℝ) (hP : reedsShepp x y phi = some P)
    (L : ℝ) (Q : RSPath ℝ) (h : some (L, Q) ∈ closure64 x y phi) (hc : some (L, Q) ∉ missing x y phi) :
    P.len ≤ Q.len := by
  rcases List.mem_append.mp h with h | h
  · rw [coded_eq_allCands] at h
    exact ((C14RS.rs_candidates_min x y phi).1 P hP).2 L Q h
  · exact absurd h hc

end OmplModel.Props.C14R
