import OmplModel.Proofs.DubinsAF
import OmplModel.Proofs.DubinsReal
import OmplModel.Proofs.DubinsInteg
import OmplModel.Proofs.DubinsWords
import OmplModel.Proofs.DubinsReach
import OmplModel.Proofs.RSBack
import OmplModel.Proofs.RSFive
import OmplModel.Proofs.RSFiveAll
import OmplModel.Props.C14RS
import OmplModel.Props.C14D
import OmplModel.Props.C14O
import OmplModel.Props.C14W
import OmplModel.Props.C14V
import OmplModel.Props.C14VO
import OmplModel.Props.C14A
import OmplModel.Props.C14E
import OmplModel.Props.C14R
/-!
# C14 — Dubins curves: the reported path is a shortest candidate, reaches the goal, and `interpolate` drives it

Property theorems about the model `OmplModel.Dubins` (Model/Dubins.lean) of
`ompl::base::DubinsStateSpace` (DubinsStateSpace.cpp).  Helper lemmas live in `Proofs/Dubins*.lean`.

Tags:
* **[AF]** arithmetic-free: generic over `[DNum α]`, no algebraic law of `α` is used, so the theorem
  holds for the `Float` instantiation the driver runs (under the stated order hypotheses, if any).
* **[EX]** exact arithmetic: proved for the instantiation at ℝ (`Proofs/DubinsReal.lean`); what is
  left unverified is exactly the IEEE rounding of the `double`/`float` run.

What is proved
* [AF] `dubinsExhaustive` returns one of the six words' solutions and none of the six is strictly
  shorter (`exhaustive_is_min`, `exhaustive_is_min_real`, `dubinsExhaustive_is_min`).
* [AF] the interpolation loop drives the truncated word (`integ_eq_integFull_truncate`,
  `interpPath_eq`); [EX] the truncated word is letter-for-letter a prefix, exactly `t·length`
  long, and truncations nest (`truncate_total`, `truncate_bounded`, `truncate_truncate`,
  `prefix_of_path`).
* [EX] each segment step is the unit-speed, curvature-`±1/0` vehicle model, forwards and reversed
  (`integrate_segment_fwd`, `integrate_segment_rev`, `segment_concat`).
* [EX] chord ≤ arc, hence a word that reaches `(d,0)` is at least `d` long
  (`segment_chord_le_arc`, `length_ge_chord`, `distance_ge_straight_line_of_reaches`).
* [EX] the fudge-free normalisation is exact with range `[0, 2π)`; the code's `mod2pi` is non-negative
  and within `ε/2` of an exact representative (`mod2piExact_spec`, `mod2pi_nonneg`, `mod2pi_fudge_bound`).
* [EX] **each of the six solvers reaches the goal**: for every `m2p` that is exact modulo 2π, the
  returned `(t,p,q)`, driven by the model's own integration from `(0,0,α)`, ends at `(d,0)` with heading
  `β + 2πk` — the exact form of the `assert`s in `dubinsLSL … dubinsLRL` (`word_LSL_reaches`,
  `word_RSR_reaches`, `word_RSL_reaches`, `word_LSR_reaches`, `word_RLR_reaches`, `word_LRL_reaches`,
  uniformly `solve_reaches`, for the search `exhaustive_reaches`, for `interpolate` `interp_at_one_reaches`).
* [EX] the `reverse_` branch of `interpolate` (reversed word, `stepRev`) retraces the forward curve back to
  its start (`reverse_retraces`); over ℝ the exhaustive search always returns a path (`exhaustive_isSome`).
* [EX] segment lengths are non-negative and the reported length is at least the straight-line distance
  (`word_lengths_nonneg`, `reported_length_ge_straight_line`, `exhaustive_length_ge_straight_line`).

What is NOT proved
* optimality of the six-word set (Dubins' theorem): `exhaustive_is_min` is minimality among the six
  candidates the code computes, not among all curvature-bounded curves;
* that the float32 classification table (`dubinsClassification`, the `s_ij` switching functions)
  selects the minimum — that is only compared against `dubinsExhaustive` by the differential check;
* anything about Reeds–Shepp;
* the behaviour inside the two `mod2pi` fudges (`DUBINS_ZERO` band, `0.5·DUBINS_EPS` snap to 0) and
  the `DUBINS_ZERO` clamp band `tmp ∈ [-1e-7, 0)` of the CSC solvers: the reach theorems quantify
  over normalisations that change their argument by an exact multiple of 2π (`Exact m2p`) and assume
  `0 ≤ tmp` where the code clamps.
-/
namespace OmplModel.Props.C14
open OmplModel OmplModel.Dubins

/-! ## Group 1 [AF] -/
section AF
variable {α : Type} [DNum α]

/-- [AF] **The exhaustive search returns a shortest of the six candidates.**  If `<` on lengths is a
strict weak order (asymmetric, negatively transitive — nothing arithmetic), then for every angle
normalisation `m2p` and every input, no word's solution is strictly shorter than the returned one
(`none` = the default path of length `DBL_MAX` = +∞), and the returned one is one of the six. -/
theorem exhaustive_is_min (h : StrictWeak α) (m2p : α → α) (d a b : α) :
    (∀ w : Word, ltLen (olen (solve m2p w d a b)) (olen (exhaustiveCore m2p d a b)) = false) ∧
      ∃ w, exhaustiveCore m2p d a b = solve m2p w d a b :=
  ⟨exhaustiveCore_min h m2p d a b, exhaustiveCore_mem m2p d a b⟩

/-- [AF] `dubinsExhaustive` itself: in the degenerate case (`d < ε ∧ |α-β| < ε`) it returns the
zero-turn straight path `(0, d, 0)`, otherwise a shortest of the six candidates. -/
theorem dubinsExhaustive_is_min (h : StrictWeak α) (m2p : α → α) (d a b : α) :
    (degenerate d a b = true → dubinsExhaustive m2p d a b = some (zeroPath d)) ∧
    (degenerate d a b = false →
      (∀ w : Word, ltLen (olen (solve m2p w d a b)) (olen (dubinsExhaustive m2p d a b)) = false) ∧
        ∃ w, dubinsExhaustive m2p d a b = solve m2p w d a b) := by
  refine ⟨dubinsExhaustive_of_degenerate m2p d a b, fun hd => ?_⟩
  rw [dubinsExhaustive_of_not_degenerate m2p d a b hd]
  exact exhaustive_is_min h m2p d a b

/-- [AF] **The interpolation loop drives the truncated word**: `integ` (running length budget
`seg`, early exit) equals driving every segment of `truncate segs seg` fully, for every step
function. -/
theorem integ_eq_integFull_truncate (step : Seg → α → Pose α → Pose α) (segs : List (Seg × α))
    (seg : α) (P : Pose α) :
    integ step segs seg P = integFull step (truncate segs seg) P :=
  Dubins.integ_eq_integFull_truncate step segs seg P

/-- [AF] `prefix_of_path`, part 1: the state `interpolate` reports at `t` is the end of the truncated
word driven from `(0,0,yaw)`, scaled by `rho`, translated, yaw wrapped. -/
theorem interpPath_eq (rho : α) (frm : Pose α) (P : Path α) (t : α) :
    interpPath rho frm P t =
      ⟨(integFull (if P.rev then stepRev else stepFwd) (truncate P.segList (t * P.len)) ⟨0, 0, frm.th⟩).x * rho + frm.x,
       (integFull (if P.rev then stepRev else stepFwd) (truncate P.segList (t * P.len)) ⟨0, 0, frm.th⟩).y * rho + frm.y,
       so2Enforce (integFull (if P.rev then stepRev else stepFwd) (truncate P.segList (t * P.len)) ⟨0, 0, frm.th⟩).th⟩ :=
  Dubins.interpPath_eq rho frm P t

/-- [AF] the truncated word spells a prefix of the original word -/
theorem truncate_letters_prefix (segs : List (Seg × α)) (seg : α) :
    (truncate segs seg).map Prod.fst <+: segs.map Prod.fst :=
  Dubins.truncate_letters_prefix segs seg

end AF

/- From here on everything is about ℝ; numerals must be Mathlib's (see Proofs/DubinsReal.lean). -/
attribute [-instance] Num.instOfNat

/-- the order hypotheses of `exhaustive_is_min` hold over ℝ -/
theorem strictWeak_real : StrictWeak ℝ :=
  ⟨fun _ _ h => lt_asymm h, fun _ _ _ h1 h2 => not_lt.mpr (le_trans (not_lt.mp h2) (not_lt.mp h1))⟩

/-- [EX] `exhaustive_is_min` over ℝ, order hypotheses discharged. -/
theorem exhaustive_is_min_real (m2p : ℝ → ℝ) (d a b : ℝ) :
    (∀ w : Word, ltLen (olen (solve m2p w d a b)) (olen (exhaustiveCore m2p d a b)) = false) ∧
      ∃ w, exhaustiveCore m2p d a b = solve m2p w d a b :=
  exhaustive_is_min strictWeak_real m2p d a b

-- non-vacuity: `ltLen … = false` has content (it is `true` for a shorter candidate) …
example : ltLen (some (1 : ℝ)) (some 2) = true := by
  simp only [ltLen, decide_eq_true_eq]; exact one_lt_two
example : ltLen (some (1 : ℝ)) none = true := rfl
-- … and the fold really picks the shorter one
example (P Q : Path ℝ) (h : Q.len < P.len) : better (some P) (some Q) = some Q := by
  have : ltLen (olen (some Q)) (olen (some P)) = true := by
    simp only [olen, Option.map, ltLen, decide_eq_true_eq]; exact h
  unfold better; rw [this]; rfl

/-! ## Group 2 [EX]: truncation -/

/-- [EX] **The truncated word is exactly `seg` long**, for a word with non-negative lengths and
`0 ≤ seg ≤ total length`. -/
theorem truncate_total (segs : List (Seg × ℝ)) (seg : ℝ) (hnn : ∀ x ∈ segs, 0 ≤ x.2)
    (h0 : 0 ≤ seg) (h1 : seg ≤ (segs.map Prod.snd).sum) :
    ((truncate segs seg).map Prod.snd).sum = seg :=
  Dubins.truncate_total segs seg hnn h0 h1

example : ((truncate [(Seg.L, (1 : ℝ)), (Seg.S, 2), (Seg.R, 3)] 2).map Prod.snd).sum = 2 :=
  truncate_total _ _ (by simp) (by norm_num) (by norm_num)

/-- [EX] letter for letter the truncated word is a prefix of the original; every kept length is
non-negative and at most the original one. -/
theorem truncate_bounded (segs : List (Seg × ℝ)) (seg : ℝ) (hnn : ∀ x ∈ segs, 0 ≤ x.2) :
    List.Forall₂ (fun a b : Seg × ℝ => a.1 = b.1 ∧ 0 ≤ a.2 ∧ a.2 ≤ b.2)
      (truncate segs seg) (segs.take (truncate segs seg).length) :=
  Dubins.truncate_bounded segs seg hnn

/-- [EX] **Truncations nest**: for `seg' ≤ seg`, truncating the `seg`-truncated word to `seg'` is
truncating the original to `seg'` — the curve up to an earlier point is a prefix of the curve up to a
later point. -/
theorem truncate_truncate (segs : List (Seg × ℝ)) (seg seg' : ℝ) (h : seg' ≤ seg) :
    truncate (truncate segs seg) seg' = truncate segs seg' :=
  Dubins.truncate_truncate segs seg seg' h

example : truncate [(Seg.L, (1 : ℝ)), (Seg.S, 2)] 2 = [(Seg.L, 1), (Seg.S, 1)] := by
  rw [truncate_cons_pos _ _ _ _ (by norm_num), truncate_cons_pos _ _ _ _ (by norm_num),
    truncate_of_nonpos _ _ (by norm_num)]
  norm_num

/-- [EX] **`prefix_of_path`**: for `0 ≤ t ≤ 1` and a path with non-negative segment lengths, the state
`interpolate` reports at `t` is obtained by driving a word `W` that (1) spells a prefix of the path's
word, with each length between 0 and the original one, (2) is exactly `t · length` long, and (3) is
itself a prefix of the whole curve: interpolating along `W` reproduces every earlier point `t' ≤ t`
of the original path. -/
theorem prefix_of_path (rho : ℝ) (frm : Pose ℝ) (P : Path ℝ) (t : ℝ) (ht0 : 0 ≤ t) (ht1 : t ≤ 1)
    (h1 : 0 ≤ P.t) (h2 : 0 ≤ P.p) (h3 : 0 ≤ P.q) :
    ∃ W : List (Seg × ℝ),
      W.map Prod.fst <+: P.segList.map Prod.fst ∧
      List.Forall₂ (fun a b : Seg × ℝ => a.1 = b.1 ∧ 0 ≤ a.2 ∧ a.2 ≤ b.2) W (P.segList.take W.length) ∧
      (W.map Prod.snd).sum = t * P.len ∧
      (∀ t' : ℝ, t' ≤ t → ∀ step Q, integ step W (t' * P.len) Q = integ step P.segList (t' * P.len) Q) ∧
      interpPath rho frm P t =
        ⟨(integFull (if P.rev then stepRev else stepFwd) W ⟨0, 0, frm.th⟩).x * rho + frm.x,
         (integFull (if P.rev then stepRev else stepFwd) W ⟨0, 0, frm.th⟩).y * rho + frm.y,
         so2Enforce (integFull (if P.rev then stepRev else stepFwd) W ⟨0, 0, frm.th⟩).th⟩ := by
  have hnn := segList_nonneg P h1 h2 h3
  have hlen : 0 ≤ P.len := by unfold Path.len; exact add_nonneg (add_nonneg h1 h2) h3
  refine ⟨truncate P.segList (t * P.len), Dubins.truncate_letters_prefix _ _,
    Dubins.truncate_bounded _ _ hnn, ?_, ?_, ?_⟩
  · apply Dubins.truncate_total _ _ hnn (mul_nonneg ht0 hlen)
    rw [segList_sum]
    calc t * P.len ≤ 1 * P.len := mul_le_mul_of_nonneg_right ht1 hlen
      _ = P.len := one_mul _
  · intro t' ht' step Q
    rw [Dubins.integ_eq_integFull_truncate, Dubins.integ_eq_integFull_truncate,
      Dubins.truncate_truncate _ _ _ (mul_le_mul_of_nonneg_right ht' hlen)]
  · rw [Dubins.interpPath_eq]
    simp only [DubinsR.ofNat_zero]

-- the hypotheses are satisfiable by a genuine three-segment path and an interior `t`
example : ∃ P : Path ℝ, 0 ≤ P.t ∧ 0 ≤ P.p ∧ 0 ≤ P.q ∧ 0 < P.len ∧ (0 : ℝ) ≤ 1 / 2 ∧ (1 / 2 : ℝ) ≤ 1 :=
  ⟨⟨.LSR, 1, 2, 3, false⟩, by norm_num, by norm_num, by norm_num, by norm_num [Path.len], by norm_num,
    by norm_num⟩

/-! ## Group 2 [EX]: the vehicle model -/

/-- [EX] **Forward segments integrate the vehicle model**: the curve `v ↦ stepFwd s v P` starts at `P`,
moves at unit speed along its heading (`x' = cos θ`, `y' = sin θ`) and turns at the constant rate
`κ = +1` (L), `-1` (R), `0` (S) — curvature `1/ρ` after the scaling by `ρ` in `interpolate`. -/
theorem integrate_segment_fwd (s : Seg) (P : Pose ℝ) (v : ℝ) :
    stepFwd s 0 P = P ∧
    HasDerivAt (fun v => (stepFwd s v P).x) (Real.cos (stepFwd s v P).th) v ∧
    HasDerivAt (fun v => (stepFwd s v P).y) (Real.sin (stepFwd s v P).th) v ∧
    HasDerivAt (fun v => (stepFwd s v P).th) (kappa s) v :=
  ⟨stepFwd_zero s P, integrate_segment_fwd_x s P v, integrate_segment_fwd_y s P v,
    integrate_segment_fwd_th s P v⟩

/-- [EX] **Reversed segments** (the `reverse_` branch of `interpolate`, driving the word backwards):
velocity `(-cos θ, -sin θ)`, turning rate `-κ`. -/
theorem integrate_segment_rev (s : Seg) (P : Pose ℝ) (v : ℝ) :
    stepRev s 0 P = P ∧
    HasDerivAt (fun v => (stepRev s v P).x) (-Real.cos (stepRev s v P).th) v ∧
    HasDerivAt (fun v => (stepRev s v P).y) (-Real.sin (stepRev s v P).th) v ∧
    HasDerivAt (fun v => (stepRev s v P).th) (-kappa s) v :=
  ⟨stepRev_zero s P, integrate_segment_rev_x s P v, integrate_segment_rev_y s P v,
    integrate_segment_rev_th s P v⟩

example : kappa .L = 1 ∧ kappa .R = -1 ∧ kappa .S = 0 := ⟨rfl, rfl, rfl⟩

/-- [EX] concatenation: driving `u` then `v` along the same letter is driving `u + v` (so position
and heading are continuous where `interpolate` cuts a segment). -/
theorem segment_concat (s : Seg) (u v : ℝ) (P : Pose ℝ) :
    stepFwd s (u + v) P = stepFwd s v (stepFwd s u P) := stepFwd_add s u v P

/-! ## Group 2 [EX]: chord ≤ arc -/

/-- [EX] one segment, forwards or reversed, moves the position by at most the driven length. -/
theorem segment_chord_le_arc (s : Seg) (v : ℝ) (P : Pose ℝ) :
    ((stepFwd s v P).x - P.x) ^ 2 + ((stepFwd s v P).y - P.y) ^ 2 ≤ v ^ 2 ∧
    ((stepRev s v P).x - P.x) ^ 2 + ((stepRev s v P).y - P.y) ^ 2 ≤ v ^ 2 :=
  ⟨stepFwd_chord_sq s v P, stepRev_chord_sq s v P⟩

-- the bound is attained by a straight segment (so it is not slack by construction)
example (v : ℝ) : ((stepFwd .S v ⟨0, 0, 0⟩).x - 0) ^ 2 + ((stepFwd .S v ⟨0, 0, 0⟩).y - 0) ^ 2 = v ^ 2 := by
  show (0 + v * Real.cos 0 - 0) ^ 2 + (0 + v * Real.sin 0 - 0) ^ 2 = v ^ 2
  simp

/-- [EX] **A driven word ends no farther from its start than it is long** (any letters, any
non-negative lengths, forwards or reversed). -/
theorem length_ge_chord (segs : List (Seg × ℝ)) (hnn : ∀ x ∈ segs, 0 ≤ x.2) (P : Pose ℝ) :
    Real.sqrt (((integFull stepFwd segs P).x - P.x) ^ 2 + ((integFull stepFwd segs P).y - P.y) ^ 2) ≤
      (segs.map Prod.snd).sum ∧
    Real.sqrt (((integFull stepRev segs P).x - P.x) ^ 2 + ((integFull stepRev segs P).y - P.y) ^ 2) ≤
      (segs.map Prod.snd).sum :=
  ⟨length_ge_chord_fwd segs hnn P, length_ge_chord_rev segs hnn P⟩

/-- [EX] **Reported distance ≥ straight-line distance, when the word reaches the target**: in the
normalised frame (start `(0,0,α)`, goal at `(d,0)`, `0 ≤ d`, radius 1) a path with non-negative segment
lengths whose word ends at the goal position has `d ≤ length`; after scaling by the turning radius
`rho > 0`, `rho·d ≤ rho·length` = the value `distance` reports. -/
theorem distance_ge_straight_line_of_reaches (P : Path ℝ) (ht : 0 ≤ P.t) (hp : 0 ≤ P.p) (hq : 0 ≤ P.q)
    (d α rho : ℝ) (hd : 0 ≤ d) (hrho : 0 < rho)
    (hx : (integFull stepFwd P.segList ⟨0, 0, α⟩).x = d) (hy : (integFull stepFwd P.segList ⟨0, 0, α⟩).y = 0) :
    d ≤ P.len ∧ rho * d ≤ rho * P.len := by
  have h := reaches_len_ge P ht hp hq d α hd stepFwd chordBounded_fwd hx hy
  exact ⟨h, mul_le_mul_of_nonneg_left h hrho.le⟩

-- satisfiable: the straight path of length 3 reaches (3,0) from heading 0
example : (integFull stepFwd (Path.segList (⟨.LSL, 0, 3, 0, false⟩ : Path ℝ)) ⟨0, 0, 0⟩).x = 3 ∧
    (integFull stepFwd (Path.segList (⟨.LSL, 0, 3, 0, false⟩ : Path ℝ)) ⟨0, 0, 0⟩).y = 0 := by
  simp [Path.segList, Word.segs, integFull, stepFwd]

/-! ## Group 3 [EX]: angle normalisation -/

/-- [EX] the fudge-free normalisation changes its argument by an exact multiple of 2π and lands in
`[0, 2π)`. -/
theorem mod2piExact_spec : Exact mod2piExact ∧ ∀ x : ℝ, 0 ≤ mod2piExact x ∧ mod2piExact x < 2 * Real.pi :=
  ⟨mod2piExact_exact, fun x => ⟨mod2piExact_nonneg x, mod2piExact_lt x⟩⟩

example : mod2piExact (0 : ℝ) = 0 := by rw [mod2piExact_eq]; simp

/-- [EX] the code's `mod2pi` (fudges included) never returns a negative angle. -/
theorem mod2pi_nonneg (x : ℝ) : 0 ≤ mod2pi x := Dubins.mod2pi_nonneg x

/-- [EX] what the two fudges of the code's `mod2pi` change: the result is within `DUBINS_EPS / 2` of an
exact representative of `x` modulo 2π (so `mod2pi` is *not* `Exact`, which is why the reach theorems
quantify over exact normalisations). -/
theorem mod2pi_fudge_bound (x : ℝ) :
    ∃ k : ℤ, |mod2pi x - (x + k * (2 * Real.pi))| ≤ (eps : ℝ) / 2 := Dubins.mod2pi_fudge_bound x

-- the first fudge really fires: a tiny negative angle is sent to 0, not to just under 2π
example : mod2pi (-(1 / 10 ^ 8) : ℝ) = 0 := by
  rw [mod2pi_eq, if_pos (by constructor <;> norm_num)]

/-! ## Group 3 [EX]: every solver reaches the goal -/

/-- [EX] **LSL reaches the goal.**  For every normalisation that is exact modulo 2π: the returned path is
the word L·S·L and, driven from `(0,0,α)`, ends at `x = d`, `y = 0`, heading `β + 2πk`
(the three `assert`s of `dubinsLSL`, exactly). -/
theorem word_LSL_reaches (m2p : ℝ → ℝ) (hm : Exact m2p) (d α β : ℝ) (P : Path ℝ)
    (h : dubinsLSL m2p d α β = some P) :
    P.w = .LSL ∧ P.rev = false ∧
    (integFull stepFwd P.segList ⟨0, 0, α⟩).x = d ∧
    (integFull stepFwd P.segList ⟨0, 0, α⟩).y = 0 ∧
    ∃ k : ℤ, (integFull stepFwd P.segList ⟨0, 0, α⟩).th = β + k * (2 * Real.pi) :=
  Dubins.word_LSL_reaches m2p hm d α β P h

-- LSL always has a solution over ℝ (its `tmp` is a sum of two squares), so the premise is satisfiable
example (m2p : ℝ → ℝ) : ∃ P, dubinsLSL m2p 4 0 0 = some P := by
  unfold dubinsLSL
  simp only [DubinsR.cos_eq, DubinsR.sin_eq, DubinsR.ofNat_two, DubinsR.dzero_eq, Real.cos_zero, Real.sin_zero]
  rw [if_pos (by norm_num)]
  exact ⟨_, rfl⟩

/-- [EX] **RSR reaches the goal** (the three `assert`s of `dubinsRSR`, exactly). -/
theorem word_RSR_reaches (m2p : ℝ → ℝ) (hm : Exact m2p) (d α β : ℝ) (P : Path ℝ)
    (h : dubinsRSR m2p d α β = some P) :
    P.w = .RSR ∧ P.rev = false ∧
    (integFull stepFwd P.segList ⟨0, 0, α⟩).x = d ∧
    (integFull stepFwd P.segList ⟨0, 0, α⟩).y = 0 ∧
    ∃ k : ℤ, (integFull stepFwd P.segList ⟨0, 0, α⟩).th = β + k * (2 * Real.pi) :=
  Dubins.word_RSR_reaches m2p hm d α β P h

example (m2p : ℝ → ℝ) : ∃ P, dubinsRSR m2p 4 0 0 = some P := by
  unfold dubinsRSR
  simp only [DubinsR.cos_eq, DubinsR.sin_eq, DubinsR.ofNat_two, DubinsR.dzero_eq, Real.cos_zero, Real.sin_zero]
  rw [if_pos (by norm_num)]
  exact ⟨_, rfl⟩

/-- [EX] **RSL reaches the goal** when the code's `tmp` is non-negative.  (For
`tmp ∈ [DUBINS_ZERO, 0)` the code clamps `p = sqrt(max(tmp,0))` to 0 and the identities hold only
approximately; that band is excluded here.) -/
theorem word_RSL_reaches (m2p : ℝ → ℝ) (hm : Exact m2p) (d α β : ℝ) (P : Path ℝ)
    (hnn : 0 ≤ d * d - 2 + 2 * (Real.cos α * Real.cos β + Real.sin α * Real.sin β - d * (Real.sin α + Real.sin β)))
    (h : dubinsRSL m2p d α β = some P) :
    P.w = .RSL ∧ P.rev = false ∧
    (integFull stepFwd P.segList ⟨0, 0, α⟩).x = d ∧
    (integFull stepFwd P.segList ⟨0, 0, α⟩).y = 0 ∧
    ∃ k : ℤ, (integFull stepFwd P.segList ⟨0, 0, α⟩).th = β + k * (2 * Real.pi) :=
  Dubins.word_RSL_reaches m2p hm d α β P hnn h

example (m2p : ℝ → ℝ) : (∃ P, dubinsRSL m2p 4 0 0 = some P) ∧
    (0 : ℝ) ≤ 4 * 4 - 2 + 2 * (Real.cos 0 * Real.cos 0 + Real.sin 0 * Real.sin 0 - 4 * (Real.sin 0 + Real.sin 0)) := by
  constructor
  · unfold dubinsRSL
    simp only [DubinsR.cos_eq, DubinsR.sin_eq, DubinsR.ofNat_two, DubinsR.dzero_eq, Real.cos_zero, Real.sin_zero]
    rw [if_pos (by norm_num)]
    exact ⟨_, rfl⟩
  · simp only [Real.cos_zero, Real.sin_zero]; norm_num

/-- [EX] **LSR reaches the goal** when the code's `tmp` is non-negative (same exclusion as RSL). -/
theorem word_LSR_reaches (m2p : ℝ → ℝ) (hm : Exact m2p) (d α β : ℝ) (P : Path ℝ)
    (hnn : 0 ≤ -2 + d * d + 2 * (Real.cos α * Real.cos β + Real.sin α * Real.sin β + d * (Real.sin α + Real.sin β)))
    (h : dubinsLSR m2p d α β = some P) :
    P.w = .LSR ∧ P.rev = false ∧
    (integFull stepFwd P.segList ⟨0, 0, α⟩).x = d ∧
    (integFull stepFwd P.segList ⟨0, 0, α⟩).y = 0 ∧
    ∃ k : ℤ, (integFull stepFwd P.segList ⟨0, 0, α⟩).th = β + k * (2 * Real.pi) :=
  Dubins.word_LSR_reaches m2p hm d α β P hnn h

example (m2p : ℝ → ℝ) : (∃ P, dubinsLSR m2p 4 0 0 = some P) ∧
    (0 : ℝ) ≤ -2 + 4 * 4 + 2 * (Real.cos 0 * Real.cos 0 + Real.sin 0 * Real.sin 0 + 4 * (Real.sin 0 + Real.sin 0)) := by
  constructor
  · unfold dubinsLSR
    simp only [DubinsR.cos_eq, DubinsR.sin_eq, DubinsR.ofNat_two, DubinsR.dzero_eq, Real.cos_zero, Real.sin_zero]
    rw [if_pos (by norm_num)]
    exact ⟨_, rfl⟩
  · simp only [Real.cos_zero, Real.sin_zero]; norm_num

/-- [EX] **RLR reaches the goal** (whenever the solver returns a path, i.e. `|tmp| < 1`). -/
theorem word_RLR_reaches (m2p : ℝ → ℝ) (hm : Exact m2p) (d α β : ℝ) (P : Path ℝ)
    (h : dubinsRLR m2p d α β = some P) :
    P.w = .RLR ∧ P.rev = false ∧
    (integFull stepFwd P.segList ⟨0, 0, α⟩).x = d ∧
    (integFull stepFwd P.segList ⟨0, 0, α⟩).y = 0 ∧
    ∃ k : ℤ, (integFull stepFwd P.segList ⟨0, 0, α⟩).th = β + k * (2 * Real.pi) :=
  Dubins.word_RLR_reaches m2p hm d α β P h

-- d = 1, α = β = 0: tmp = 7/8, the CCC solvers do return a path
example (m2p : ℝ → ℝ) : ∃ P, dubinsRLR m2p 1 0 0 = some P := by
  unfold dubinsRLR
  simp only [DubinsR.cos_eq, DubinsR.sin_eq, DubinsR.abs_eq, DubinsR.ofNat_two, DubinsR.ofNat_six,
    DubinsR.ofNat_one, DubinsR.ofDec_125_3, Real.cos_zero, Real.sin_zero]
  rw [if_pos (by rw [abs_lt]; constructor <;> norm_num)]
  exact ⟨_, rfl⟩

/-- [EX] **LRL reaches the goal** (whenever the solver returns a path). -/
theorem word_LRL_reaches (m2p : ℝ → ℝ) (hm : Exact m2p) (d α β : ℝ) (P : Path ℝ)
    (h : dubinsLRL m2p d α β = some P) :
    P.w = .LRL ∧ P.rev = false ∧
    (integFull stepFwd P.segList ⟨0, 0, α⟩).x = d ∧
    (integFull stepFwd P.segList ⟨0, 0, α⟩).y = 0 ∧
    ∃ k : ℤ, (integFull stepFwd P.segList ⟨0, 0, α⟩).th = β + k * (2 * Real.pi) :=
  Dubins.word_LRL_reaches m2p hm d α β P h

example (m2p : ℝ → ℝ) : ∃ P, dubinsLRL m2p 1 0 0 = some P := by
  unfold dubinsLRL
  simp only [DubinsR.cos_eq, DubinsR.sin_eq, DubinsR.abs_eq, DubinsR.ofNat_two, DubinsR.ofNat_six,
    DubinsR.ofNat_one, DubinsR.ofDec_125_3, Real.cos_zero, Real.sin_zero]
  rw [if_pos (by rw [abs_lt]; constructor <;> norm_num)]
  exact ⟨_, rfl⟩

/-- [EX] the six reach theorems as one statement about `solve`; `NoClamp w d α β` is `True` except for
RSL/LSR, where it says the code's `tmp` is not in the clamp band `[DUBINS_ZERO, 0)`. -/
theorem solve_reaches (m2p : ℝ → ℝ) (hm : Exact m2p) (w : Word) (d α β : ℝ) (P : Path ℝ)
    (hb : NoClamp w d α β) (h : solve m2p w d α β = some P) :
    P.w = w ∧ P.rev = false ∧
    (integFull stepFwd P.segList ⟨0, 0, α⟩).x = d ∧
    (integFull stepFwd P.segList ⟨0, 0, α⟩).y = 0 ∧
    ∃ k : ℤ, (integFull stepFwd P.segList ⟨0, 0, α⟩).th = β + k * (2 * Real.pi) :=
  Dubins.solve_reaches m2p hm w d α β P hb h

example (d α β : ℝ) : NoClamp .LSL d α β ∧ NoClamp .RLR d α β := ⟨trivial, trivial⟩
-- the clamp band is a genuine restriction (it is inhabited) and is only 1e-7 wide
example : ClampBand (-(1 / 10 ^ 8)) ∧ ¬ ClampBand 0 ∧ ¬ ClampBand (-(1 / 10 ^ 6)) := by
  refine ⟨⟨by norm_num, by norm_num⟩, fun h => ?_, fun h => ?_⟩
  · exact lt_irrefl _ h.2
  · have := h.1; norm_num at this

/-- [EX] **Whatever the exhaustive search returns reaches the goal**, outside the two clamp bands. -/
theorem exhaustive_reaches (m2p : ℝ → ℝ) (hm : Exact m2p) (d α β : ℝ) (P : Path ℝ)
    (hb1 : ¬ ClampBand (tmpRSL d α β)) (hb2 : ¬ ClampBand (tmpLSR d α β))
    (h : exhaustiveCore m2p d α β = some P) :
    P.rev = false ∧
    (integFull stepFwd P.segList ⟨0, 0, α⟩).x = d ∧
    (integFull stepFwd P.segList ⟨0, 0, α⟩).y = 0 ∧
    ∃ k : ℤ, (integFull stepFwd P.segList ⟨0, 0, α⟩).th = β + k * (2 * Real.pi) := by
  obtain ⟨w, hw⟩ := exhaustiveCore_mem m2p d α β
  rw [hw] at h
  have hb : NoClamp w d α β := by cases w <;> first | exact hb1 | exact hb2 | trivial
  exact (Dubins.solve_reaches m2p hm w d α β P hb h).2

/-- [EX] **Segment lengths are non-negative**: if the normalisation returns non-negative angles (both
`mod2pi` and `mod2piExact` do), every solver's `t`, `p`, `q` are `≥ 0` (`p` is a square root, or
`2π - arccos ≥ π` for the CCC words). -/
theorem word_lengths_nonneg (m2p : ℝ → ℝ) (hm : ∀ x, 0 ≤ m2p x) (w : Word) (d α β : ℝ) (P : Path ℝ)
    (h : solve m2p w d α β = some P) : 0 ≤ P.t ∧ 0 ≤ P.p ∧ 0 ≤ P.q :=
  Dubins.word_lengths_nonneg m2p hm w d α β P h

example : (∀ x : ℝ, 0 ≤ mod2pi x) ∧ (∀ x : ℝ, 0 ≤ mod2piExact x) :=
  ⟨Dubins.mod2pi_nonneg, mod2piExact_nonneg⟩

/-- [EX] **Reported length ≥ straight-line distance**, per word: a path returned by any of the six
solvers (exact, non-negative normalisation; outside the clamp band for RSL/LSR) has
`d ≤ t + p + q`, and after scaling by the turning radius `rho·d ≤ rho·length`. -/
theorem reported_length_ge_straight_line (m2p : ℝ → ℝ) (hm : Exact m2p) (hnn : ∀ x, 0 ≤ m2p x)
    (w : Word) (d α β rho : ℝ) (P : Path ℝ) (hb : NoClamp w d α β) (hd : 0 ≤ d) (hrho : 0 < rho)
    (h : solve m2p w d α β = some P) : d ≤ P.len ∧ rho * d ≤ rho * P.len := by
  have h1 := solve_len_ge m2p hm hnn w d α β P hb hd h
  exact ⟨h1, mul_le_mul_of_nonneg_left h1 hrho.le⟩

/-- [EX] the same for the path the exhaustive search returns, with the fudge-free normalisation. -/
theorem exhaustive_length_ge_straight_line (d α β : ℝ) (P : Path ℝ) (hd : 0 ≤ d)
    (hb1 : ¬ ClampBand (tmpRSL d α β)) (hb2 : ¬ ClampBand (tmpLSR d α β))
    (h : exhaustiveCore mod2piExact d α β = some P) : d ≤ P.len := by
  obtain ⟨w, hw⟩ := exhaustiveCore_mem (mod2piExact : ℝ → ℝ) d α β
  rw [hw] at h
  have hb : NoClamp w d α β := by cases w <;> first | exact hb1 | exact hb2 | trivial
  exact solve_len_ge mod2piExact mod2piExact_exact mod2piExact_nonneg w d α β P hb hd h

-- the exhaustive search always returns a path over ℝ (LSL always has one, and `better` never drops it)
example : tmpRSL 4 0 0 = 16 ∧ tmpLSR 4 0 0 = 16 := by
  unfold tmpRSL tmpLSR; simp only [Real.cos_zero, Real.sin_zero]; constructor <;> norm_num

/-- [EX] **`interpolate` ends at the goal**: with the whole length as budget (`t = 1`) the interpolation
loop drives the whole word, so in the normalised frame (start `(x₀,y₀,α)`, radius `rho`) it ends at
`(x₀ + rho·d, y₀)` with yaw `β` modulo 2π (then wrapped by `enforceBounds`). -/
theorem interp_at_one_reaches (m2p : ℝ → ℝ) (hm : Exact m2p) (hnn : ∀ x, 0 ≤ m2p x) (w : Word)
    (d α β rho x0 y0 : ℝ) (P : Path ℝ) (hb : NoClamp w d α β) (h : solve m2p w d α β = some P) :
    ∃ k : ℤ, interpPath rho ⟨x0, y0, α⟩ P 1 = ⟨d * rho + x0, 0 * rho + y0, so2Enforce (β + k * (2 * Real.pi))⟩ := by
  obtain ⟨_, hrev, hx, hy, k, hth⟩ := Dubins.solve_reaches m2p hm w d α β P hb h
  obtain ⟨h1, h2, h3⟩ := Dubins.word_lengths_nonneg m2p hnn w d α β P h
  refine ⟨k, ?_⟩
  unfold interpPath
  simp only [hrev, Bool.false_eq_true, if_false, DubinsR.ofNat_zero]
  rw [one_mul, ← segList_sum, integ_total stepFwd stepFwd_zero _ (segList_nonneg P h1 h2 h3), hx, hy, hth]

/-- [EX] **The reversed branch retraces the forward curve.**  `interpolate` drives a path marked
`reverse_` through the reversed segment list with `stepRev`; started at the end pose of the forward
curve this returns exactly to the forward curve's start (so a path computed from `to` to `from` and
driven reversed from `from` ends at `to`). -/
theorem reverse_retraces (P : Path ℝ) (hrev : P.rev = false) (Q : Pose ℝ) :
    integFull stepRev (Path.segList { P with rev := true }) (integFull stepFwd P.segList Q) = Q := by
  rw [segList_rev P hrev]; exact integFull_rev_retraces _ Q

example : Path.segList ({ (⟨.LSR, 1, 2, 3, false⟩ : Path ℝ) with rev := true }) = [(.R, 3), (.S, 2), (.L, 1)] := by
  simp [Path.segList, Word.segs]

/-- [EX] over ℝ the exhaustive search never returns the default (`DBL_MAX`) path: LSL always has a
solution (its `tmp` is a sum of two squares) and `better` only replaces it by a shorter one. -/
theorem exhaustive_isSome (m2p : ℝ → ℝ) (d α β : ℝ) : ∃ P, exhaustiveCore m2p d α β = some P := by
  obtain ⟨P0, h0⟩ := dubinsLSL_isSome m2p d α β
  have h := (exhaustive_is_min_real m2p d α β).1 .LSL
  rw [solve_LSL, h0] at h
  cases hr : exhaustiveCore m2p d α β with
  | some P => exact ⟨P, rfl⟩
  | none => rw [hr] at h; cases h

/-! ## Reeds–Shepp: the "backwards" transform (round 2; the other Reeds–Shepp theorems are in `Props/C14RS.lean`) -/

open OmplModel.RS in
/-- [EX] **Integration commutes with rigid motions of the start pose** (driving a word is right-multiplication
in SE(2)): moving the start pose by `(a, b, g)` moves the whole driven curve by `(a, b, g)`. -/
theorem rs_integration_equivariant (W : List (RSeg × ℝ)) (a b g : ℝ) (P : Pose ℝ) :
    rsIntegFull W (move a b g P) = move a b g (rsIntegFull W P) := rsIntegFull_move W a b g P

open OmplModel.RS in
/-- [EX] **The reversed word with negated lengths undoes the word** (from any start pose). -/
theorem rs_reverse_negated_retraces (W : List (RSeg × ℝ)) (P : Pose ℝ) :
    rsIntegFull (negAll W.reverse) (rsIntegFull W P) = P := rs_retrace W P

open OmplModel.RS in
/-- [EX] **The reversed word** (same signed lengths, opposite order), driven from the origin, ends at
`(xb cos φ + yb sin φ, xb sin φ − yb cos φ, φ)` when the word itself ends at `(xb, yb, φ)`. -/
theorem rs_reverse_reaches (W : List (RSeg × ℝ)) (xb yb ph : ℝ)
    (h : rsIntegFull W origin = ⟨xb, yb, ph⟩) :
    rsIntegFull W.reverse origin =
      ⟨xb * Real.cos ph + yb * Real.sin ph, xb * Real.sin ph - yb * Real.cos ph, ph⟩ :=
  OmplModel.RS.rs_reverse_reaches W xb yb ph h

open OmplModel.RS in
/-- [EX] **The code's backwards transform is sound**: `CCC` and `CCSC` solve for
`(xb, yb) = (x cos φ + y sin φ, x sin φ − y cos φ)` and store the word in reversed order; if the solved word
reaches `(xb, yb)` with heading `φ` (mod 2π), the stored reversed word reaches `(x, y)` with that heading. -/
theorem rs_backwards (W : List (RSeg × ℝ)) (x y ph ph' : ℝ) (k : ℤ) (hk : ph' = ph + k * (2 * Real.pi))
    (h : rsIntegFull W origin = ⟨x * Real.cos ph + y * Real.sin ph, x * Real.sin ph - y * Real.cos ph, ph'⟩) :
    rsIntegFull W.reverse origin = ⟨x, y, ph'⟩ :=
  OmplModel.RS.rs_backwards W x y ph ph' k hk h

-- non-vacuity: a reversing straight segment followed by a left arc; its reverse is a different word
open OmplModel.RS in
example : ([(RSeg.S, (-1 : ℝ)), (RSeg.L, 2)] : List (RSeg × ℝ)).reverse = [(RSeg.L, 2), (RSeg.S, -1)] := rfl
open OmplModel.RS in
example : rsIntegFull [(RSeg.S, (-1 : ℝ))] origin = ⟨-1, 0, 0⟩ := by
  show (⟨0 + -1 * Real.cos 0, 0 + -1 * Real.sin 0, 0⟩ : Pose ℝ) = _
  simp

open OmplModel.RS in
/-- [EX] **The five-segment family reaches the goal** (formula 8.11, `LpRmSLmRp`, the C|C S C|C words with two
quarter turns that win for sideways shifts): the word `L_t R_{-π/2} S_u L_{-π/2} R_v` (type 16) the solver
returns, driven from the origin by the model's own signed integration, ends at `(x, y)` with heading
`φ + 2πk` — the three `assert`s of `LpRmSLmRp`, exactly. -/
theorem rs_LpRmSLmRp_reaches (x y phi t u v : ℝ) (h : LpRmSLmRp x y phi = some (t, u, v)) :
    (rsIntegFull (bCCSCC 16 false t u v).segList origin).x = x ∧
    (rsIntegFull (bCCSCC 16 false t u v).segList origin).y = y ∧
    ∃ k : ℤ, (rsIntegFull (bCCSCC 16 false t u v).segList origin).th = phi + k * (2 * Real.pi) :=
  OmplModel.RS.rs_LpRmSLmRp_reaches x y phi t u v h

-- the premise is satisfiable: two reversing quarter turns reach (-2, -2) with unchanged heading
open OmplModel.RS in
example : LpRmSLmRp (-2 : ℝ) (-2) 0 = some (0, 0, 0) := LpRmSLmRp_example

open OmplModel.RS in
/-- [EX] **Every candidate of the five-segment family reaches the goal**: all of `candsCCSCC x y φ` — the
base word of formula 8.11, its timeflip (solver on `(-x, y, -φ)`, all five lengths negated, quarter turns
`+π/2`), its reflection (type 17) and both — driven from the origin, end at `(x, y)` with heading `φ`
modulo 2π.  (A wrong quarter-turn sign under timeflip, mutant A of the notes, would falsify this.) -/
theorem rs_CCSCC_candidates_reach (x y phi L : ℝ) (Q : RSPath ℝ) (h : some (L, Q) ∈ candsCCSCC x y phi) :
    Reaches Q x y phi := CCSCC_candidates_reach x y phi L Q h

-- the candidate list is non-empty for the concrete goal above
open OmplModel.RS in
example : ∃ L Q, some (L, Q) ∈ candsCCSCC (-2 : ℝ) (-2) 0 := by
  refine ⟨key3 0 0 0, bCCSCC 16 false 0 0 0, ?_⟩
  unfold candsCCSCC four
  rw [LpRmSLmRp_example]
  exact List.mem_cons_self

end OmplModel.Props.C14
