import OmplModel.Proofs.Constrained
import OmplModel.Proofs.ConstrainedField
import OmplModel.Proofs.ConstrainedAtlas
import OmplModel.Proofs.AtlasChart
import OmplModel.Model.ConstrainedSI
/-!
# C16 — constrained spaces keep sampled, interpolated and path states on the manifold

Property theorems about the model `OmplModel.Constrained` (Model/Constrained.lean) of
`Constraint::project`, `ProjectedStateSpace::discreteGeodesic`, `ConstrainedStateSpace::interpolate`
/ `geodesicInterpolate`, `ConstrainedMotionValidator::checkMotion` (both forms) and the
`ProjectedStateSampler`.

Quantifiers.  The arithmetic-free theorems ([AF]) hold for **every** state type `S`, distance type
`D` with arbitrary operations `Arith D` (no law assumed — so also IEEE doubles with NaN), every
ambient space `Ambient S D`, every residual type, and **every stateful oracle** `Oracle σ S R` for
`Constraint::function`, the Newton step and `isValid` (`σ` arbitrary: any answer stream, answers
may depend on the whole call history), every `delta`, `lambda`, tolerance, `maxIterations`, every
pair of states and every amount of loop fuel — by induction over the traversal, no bound.
The layer shared by the three spaces takes `discreteGeodesic` itself as an arbitrary oracle `geo`,
so those theorems cover `AtlasStateSpace` / `TangentBundleStateSpace` as well.
Two theorems need arithmetic ([EX]) and are proved for every linearly ordered field.

What "on the manifold" means here: `ResidualPassed x` — the test `‖f(x)‖² < tol²` was evaluated on
a residual that the `function` oracle returned *for `x`*, and passed.  That the real Newton
iteration gets there is an oracle answer (DESIGN 2.16 (ii)); it is sampled by checks/c16.py.
-/
namespace OmplModel.Props.C16
open OmplModel.Constrained

variable {σ S D R : Type}

/-! ## `Constraint::project` -/

/-- [AF] `project` returns `true` only if the residual test passed on the state it returns. -/
theorem project_true_satisfied (A : Arith D) (Rs : Resid R D) (O : Oracle σ S R) (tolSq : D)
    (maxIter : Nat) (s : σ) (x x' : S) (s' : σ)
    (h : project A Rs O tolSq maxIter s x = (true, x', s')) : ResidualPassed A Rs O tolSq x' :=
  project_true A Rs O tolSq maxIter s x x' s' h

/-- [AF] … and `false` only if it failed on the state it leaves behind (which is what the
sampler hands out, see `sampler_ignores_projection`). -/
theorem project_false_unsatisfied (A : Arith D) (Rs : Resid R D) (O : Oracle σ S R) (tolSq : D)
    (maxIter : Nat) (s : σ) (x x' : S) (s' : σ)
    (h : project A Rs O tolSq maxIter s x = (false, x', s')) :
    ∃ f, Evaluated O x' f ∧ A.lt (Rs.nsq f) tolSq = false :=
  projectLoop_false A Rs O tolSq maxIter _ x _ x' s' ⟨s, rfl⟩ h

/-- [AF] for a pure `function` oracle whose order satisfies `a < b → a ≤ b`, a successful
projection makes `isSatisfied` true (given the residual is finite). -/
theorem project_true_isSatisfied (A : Arith D) (Rs : Resid R D) (O : Oracle σ S R) (F : S → R)
    (hpure : ∀ s x, (O.fn s x).1 = F x) (hle : ∀ a b, A.lt a b = true → A.le a b = true)
    (tolSq : D) (maxIter : Nat) (s : σ) (x x' : S) (s' : σ)
    (h : project A Rs O tolSq maxIter s x = (true, x', s')) (hfin : Rs.finite (F x') = true)
    (s₂ : σ) : (isSatisfied A Rs O tolSq s₂ x').1 = true := by
  obtain ⟨f, ⟨s₁, hf⟩, hlt⟩ := project_true A Rs O tolSq maxIter s x x' s' h
  rw [hpure] at hf
  subst hf
  simp [isSatisfied, hpure, hfin, hle _ _ hlt]

/-! ## `ProjectedStateSpace::discreteGeodesic` -/

section geodesic
variable (A : Arith D) (Am : Ambient S D) (Rs : Resid R D) (O : Oracle σ S R) (P : GeoParams D)
  (fuel : Nat) (s : σ) (frm tgt : S) (interp : Bool)

/-- [AF] the first stored state is `from`. -/
theorem geodesic_head : (discreteGeodesic A Am Rs O P fuel s frm tgt interp).states.head? = some frm := by
  unfold discreteGeodesic
  simp only
  split <;> rfl

theorem geodesic_trace_aux :
    Trace A Am Rs O P interp tgt frm (Am.dist frm tgt)
      (discreteGeodesic A Am Rs O P fuel s frm tgt interp).states.tail := by
  unfold discreteGeodesic
  simp only
  split
  · exact .nil _ _
  · exact geoLoop_trace A Am Rs O P interp tgt _ fuel s frm _ _

/-- [AF] every state stored after the first is the output of a **successful** `project` — hence
passed the residual test — and, when `interpolate = false`, was answered valid. -/
theorem geodesic_states_projected :
    ∀ x ∈ (discreteGeodesic A Am Rs O P fuel s frm tgt interp).states.tail,
      Projected A Rs O P.tolSq P.maxIter x ∧ ResidualPassed A Rs O P.tolSq x ∧
        (interp = false → AnsweredValid O x) := by
  intro x hx
  have h := Trace.mem A Am Rs O P interp tgt (geodesic_trace_aux A Am Rs O P fuel s frm tgt interp) x hx
  exact ⟨h.1, h.1.passed, h.2⟩

theorem states_eq_cons :
    (discreteGeodesic A Am Rs O P fuel s frm tgt interp).states =
      frm :: (discreteGeodesic A Am Rs O P fuel s frm tgt interp).states.tail := by
  unfold discreteGeodesic
  simp only
  split <;> rfl

/-- [AF] consecutive stored states: the test `distance(a, b) > lambda * delta` was false. -/
theorem geodesic_step_bound (i : Nat)
    (h : i + 1 < (discreteGeodesic A Am Rs O P fuel s frm tgt interp).states.length) :
    A.lt (A.mul P.lambda P.delta)
      (Am.dist ((discreteGeodesic A Am Rs O P fuel s frm tgt interp).states[i]'(by omega))
               ((discreteGeodesic A Am Rs O P fuel s frm tgt interp).states[i + 1]'h)) = false := by
  have hc := Trace.step A Am Rs O P interp tgt (geodesic_trace_aux A Am Rs O P fuel s frm tgt interp)
  rw [← states_eq_cons] at hc
  exact hc.getElem i h

/-- [AF] over a total order (`¬ b < a → a ≤ b`) that is `distance(a, b) ≤ lambda * delta`. -/
theorem geodesic_step_bound_le (htot : ∀ a b, A.lt b a = false → A.le a b = true) (i : Nat)
    (h : i + 1 < (discreteGeodesic A Am Rs O P fuel s frm tgt interp).states.length) :
    A.le (Am.dist ((discreteGeodesic A Am Rs O P fuel s frm tgt interp).states[i]'(by omega))
               ((discreteGeodesic A Am Rs O P fuel s frm tgt interp).states[i + 1]'h))
      (A.mul P.lambda P.delta) = true :=
  htot _ _ (geodesic_step_bound A Am Rs O P fuel s frm tgt interp i h)

/-- [AF] the distance tgt the target strictly decreases along the list: the test
`distance(b, tgt) >= distance(a, tgt)` was false for consecutive `a`, `b`. -/
theorem geodesic_monotone (i : Nat)
    (h : i + 1 < (discreteGeodesic A Am Rs O P fuel s frm tgt interp).states.length) :
    A.le (Am.dist ((discreteGeodesic A Am Rs O P fuel s frm tgt interp).states[i]'(by omega)) tgt)
         (Am.dist ((discreteGeodesic A Am Rs O P fuel s frm tgt interp).states[i + 1]'h) tgt) = false := by
  have hc := Trace.progress A Am Rs O P interp tgt (geodesic_trace_aux A Am Rs O P fuel s frm tgt interp) rfl
  rw [← states_eq_cons] at hc
  exact hc.getElem i h

theorem states_ne_nil : (discreteGeodesic A Am Rs O P fuel s frm tgt interp).states ≠ [] := by
  rw [states_eq_cons]; simp

/-- [AF] a geodesic that reports success ends within `delta` of the target: the returned flag
**is** the test `distance(last, tgt) <= delta` (and the model did not run out of fuel). -/
theorem geodesic_success_close
    (h : (discreteGeodesic A Am Rs O P fuel s frm tgt interp).ok = true) :
    A.le (Am.dist ((discreteGeodesic A Am Rs O P fuel s frm tgt interp).states.getLast
      (states_ne_nil A Am Rs O P fuel s frm tgt interp)) tgt) P.delta = true := by
  have key : ∀ (r : GeoOut σ S D) (hne : r.states ≠ []),
      r = discreteGeodesic A Am Rs O P fuel s frm tgt interp → r.ok = true →
      A.le (Am.dist (r.states.getLast hne) tgt) P.delta = true := by
    intro r hne hr hok
    unfold discreteGeodesic at hr
    simp only at hr
    split at hr
    · rename_i hd
      subst hr
      simpa using hd
    · subst hr
      have := geoLoop_ok A Am Rs O P interp tgt (A.mul (Am.dist frm tgt) P.lambda) fuel s frm _ A.zero rfl
      simp only at hok
      rw [this] at hok
      simp only [Bool.and_eq_true] at hok
      exact hok.2
  exact key _ _ rfl h

/-- [AF] conversely a traversal that stopped without success (and not for lack of model fuel) is
**not** within `delta`: the test `distance(last, tgt) <= delta` was false. -/
theorem geodesic_failure_far
    (h : (discreteGeodesic A Am Rs O P fuel s frm tgt interp).ok = false)
    (hf : (discreteGeodesic A Am Rs O P fuel s frm tgt interp).exit ≠ .fuel) :
    A.le (Am.dist ((discreteGeodesic A Am Rs O P fuel s frm tgt interp).states.getLast
      (states_ne_nil A Am Rs O P fuel s frm tgt interp)) tgt) P.delta = false := by
  have key : ∀ (r : GeoOut σ S D) (hne : r.states ≠ []),
      r = discreteGeodesic A Am Rs O P fuel s frm tgt interp → r.ok = false → r.exit ≠ .fuel →
      A.le (Am.dist (r.states.getLast hne) tgt) P.delta = false := by
    intro r hne hr hok hex
    unfold discreteGeodesic at hr
    simp only at hr
    split at hr
    · subst hr
      simp at hok
    · subst hr
      have := geoLoop_ok A Am Rs O P interp tgt (A.mul (Am.dist frm tgt) P.lambda) fuel s frm _ A.zero rfl
      simp only at hok hex
      rw [this] at hok
      simpa [hex] using hok
  exact key _ _ rfl h hf

end geodesic

/-! ## `geodesicInterpolate`, `interpolate` (all three spaces; the geodesic is an oracle) -/

/-- [AF] the result of `geodesicInterpolate` is an element of the list it was given. -/
theorem geodesicInterpolate_member (A : Arith D) (Am : Ambient S D) (g : List S) (t : D) (x : S)
    (h : geodesicInterpolate A Am g t = some x) : x ∈ g :=
  geodesicInterpolate_mem A Am g t x h

/-- [EX] index safety: over every linearly ordered field, for every ambient distance whatsoever,
every non-empty list and every `t ≥ 0` (in particular every `t ∈ [0,1]`), no read of `d[…]` or
`geodesic[…]` is out of range (the checked-indexing model never answers `none`). -/
theorem geodesicInterpolate_index_safe {K : Type} [Field K] [LinearOrder K] [IsStrictOrderedRing K]
    (eps : K) (heps : 0 < eps) (Am : Ambient S K) (g : List S) (hg : g ≠ []) (t : K) (ht : 0 ≤ t) :
    ∃ i, geodesicInterpolateIdx (fieldArith eps) Am g t = some i ∧ i < g.length ∧
      ∃ x, geodesicInterpolate (fieldArith eps) Am g t = some x :=
  index_safe eps heps Am g hg t ht

/-- [AF] `interpolate` returns `from` or a state stored by a geodesic that reported success. -/
theorem interpolate_returns_stored (A : Arith D) (Am : Ambient S D) (geo : Geo σ S) (s : σ)
    (frm tgt : S) (t : D) (x : S) (h : (interpolate A Am geo s frm tgt t).1 = some x) :
    x = frm ∨ ((geo s frm tgt true).1 = true ∧ x ∈ (geo s frm tgt true).2.1) :=
  interpolate_mem A Am geo s frm tgt t x h

/-- [AF] in the projected space `interpolate` returns `from` or the output of a successful
projection (which passed the residual test). -/
theorem interpolate_on_manifold (A : Arith D) (Am : Ambient S D) (Rs : Resid R D)
    (O : Oracle σ S R) (P : GeoParams D) (fuel : Nat) (s : σ) (frm tgt : S) (t : D) (x : S)
    (h : (interpolate A Am (projectedGeo A Am Rs O P fuel) s frm tgt t).1 = some x) :
    x = frm ∨ (Projected A Rs O P.tolSq P.maxIter x ∧ ResidualPassed A Rs O P.tolSq x) := by
  rcases interpolate_mem A Am _ s frm tgt t x h with h | ⟨_, hm⟩
  · exact Or.inl h
  · simp only [projectedGeo] at hm
    rw [states_eq_cons] at hm
    rcases List.mem_cons.mp hm with h | hm
    · exact Or.inl h
    · have := geodesic_states_projected A Am Rs O P fuel s frm tgt true x hm
      exact Or.inr ⟨this.1, this.2.1⟩

/-- [AF] TangentBundle's `geodesicInterpolate`: the result is the output of a successful
re-projection or the first state of the list. -/
theorem tbGeodesicInterpolate_spec (A : Arith D) (Am : Ambient S D)
    (tbProject : σ → S → Bool × S × σ) (s : σ) (g : List S) (t : D) (x : S)
    (h : (tbGeodesicInterpolate A Am tbProject s g t).1 = some x) :
    (∃ y ∈ g, ∃ s₁, (tbProject s₁ y).1 = true ∧ (tbProject s₁ y).2.1 = x) ∨ g.head? = some x := by
  unfold tbGeodesicInterpolate at h
  cases hg : geodesicInterpolate A Am g t with
  | none => simp [hg] at h
  | some y =>
    simp only [hg] at h
    by_cases hp : (tbProject s y).1 = true
    · simp only [hp, ↓reduceIte, Option.some.injEq] at h
      exact Or.inl ⟨y, geodesicInterpolate_mem A Am g t y hg, s, hp, h⟩
    · simp only [hp] at h
      exact Or.inr (by simpa using h)

/-! ## `ConstrainedMotionValidator::checkMotion` (all three spaces) -/

/-- [AF] two-argument form (code after a7ee00eca): `true` iff `isValid(s2)`, then `isSatisfied(s2)`,
then the geodesic (asked with `interpolate = false`) reached the target — in that order, each only
asked when the previous one said yes. -/
theorem checkMotion_iff (isValid isSat : σ → S → Bool × σ) (geo : Geo σ S) (s : σ) (s1 s2 : S) :
    (checkMotion1 isValid isSat geo s s1 s2).1 = true ↔
      (isValid s s2).1 = true ∧ (isSat (isValid s s2).2 s2).1 = true ∧
        (geo (isSat (isValid s s2).2 s2).2 s1 s2 false).1 = true := by
  unfold checkMotion1
  by_cases hv : (isValid s s2).1 = true
  · by_cases h : (isSat (isValid s s2).2 s2).1 = true
    · simp [hv, h]
    · simp [hv, h]
  · simp [hv]

theorem endStateOk_iff (isSat isValid : σ → S → Bool × σ) (reached : Bool) (s : σ) (s2 : S) :
    (endStateOk isSat isValid reached s s2).1 = true ↔
      reached = true ∧ (isSat s s2).1 = true ∧ (isValid (isSat s s2).2 s2).1 = true := by
  unfold endStateOk
  cases reached
  · simp
  · by_cases h : (isSat s s2).1 = true
    · simp [h]
    · simp [h]

/-- [AF] three-argument form (after a7ee00eca): `true` iff the geodesic reached, stored at least one
state, and then `isSatisfied(s2)` and `isValid(s2)` (asked afterwards, in that order). -/
theorem checkMotion_lastValid_iff (A : Arith D) (Am : Ambient S D) (isSat isValid : σ → S → Bool × σ)
    (geo : Geo σ S) (hf : Bool) (s : σ) (s1 s2 : S) :
    (checkMotion2 A Am isSat isValid geo hf s s1 s2).verdict = true ↔
      (geo s s1 s2 false).1 = true ∧ (geo s s1 s2 false).2.1 ≠ [] ∧
        (isSat (geo s s1 s2 false).2.2 s2).1 = true ∧
        (isValid (isSat (geo s s1 s2 false).2.2 s2).2 s2).1 = true := by
  unfold checkMotion2
  simp only
  cases hl : (geo s s1 s2 false).2.1 with
  | nil => simp
  | cons g0 rest =>
    simp only
    by_cases he : (endStateOk isSat isValid (geo s s1 s2 false).1 (geo s s1 s2 false).2.2 s2).1 = true
    · have := (endStateOk_iff isSat isValid _ _ s2).mp he
      rw [if_neg (by simp [he])]
      simp [this]
    · have hf' : (endStateOk isSat isValid (geo s s1 s2 false).1 (geo s s1 s2 false).2.2 s2).1 = false := by
        simpa using he
      have hn := (endStateOk_iff isSat isValid (geo s s1 s2 false).1 (geo s s1 s2 false).2.2 s2).not.mp he
      simp only [hf', ↓reduceIte, Bool.false_eq_true, false_iff]
      intro h
      exact hn ⟨h.1, h.2.2.1, h.2.2.2⟩

/-- [AF] `lastValid` after a7ee00eca: untouched by a valid motion; on **every** failure
`lastValid.second` is written (also when `lastValid.first` is null); `lastValid.first`, when
written, is `s1` or the last stored geodesic state. -/
theorem checkMotion_lastValid_state (A : Arith D) (Am : Ambient S D) (isSat isValid : σ → S → Bool × σ)
    (geo : Geo σ S) (hf : Bool) (s : σ) (s1 s2 : S) :
    ((checkMotion2 A Am isSat isValid geo hf s s1 s2).verdict = true →
      (checkMotion2 A Am isSat isValid geo hf s s1 s2).first = none ∧
      (checkMotion2 A Am isSat isValid geo hf s s1 s2).second = none) ∧
    ((checkMotion2 A Am isSat isValid geo hf s s1 s2).verdict = false →
      (checkMotion2 A Am isSat isValid geo hf s s1 s2).second.isSome = true ∧
      ((checkMotion2 A Am isSat isValid geo hf s s1 s2).first.isSome = hf)) ∧
    (∀ x, (checkMotion2 A Am isSat isValid geo hf s s1 s2).first = some x →
      x = s1 ∨ x ∈ (geo s s1 s2 false).2.1) := by
  unfold checkMotion2
  simp only
  cases hl : (geo s s1 s2 false).2.1 with
  | nil =>
    refine ⟨by simp, ?_, ?_⟩
    · intro _; cases hf <;> simp
    · intro x hx
      cases hf <;> simp at hx
      exact Or.inl hx.symm
  | cons g0 rest =>
    simp only
    by_cases he : (endStateOk isSat isValid (geo s s1 s2 false).1 (geo s s1 s2 false).2.2 s2).1 = false
    · simp only [he, ↓reduceIte]
      refine ⟨by simp, ?_, ?_⟩
      · intro _; cases hf <;> simp
      · intro x hx
        cases hf <;> simp at hx
        exact Or.inr (hx ▸ List.getLast_mem _)
    · simp only [he]
      simp

/-- [EX] the reported fraction lies in `[0, 1]`: over every linearly ordered field, for every
non-negative ambient distance and every geodesic oracle (the `total > 0 ? … : 0` guard included). -/
theorem lastValid_fraction_range {K : Type} [Field K] [LinearOrder K] [IsStrictOrderedRing K]
    (eps : K) (Am : Ambient S K) (hnn : ∀ a b, 0 ≤ Am.dist a b) (isSat isValid : σ → S → Bool × σ)
    (geo : Geo σ S) (hf : Bool) (s : σ) (s1 s2 : S) (f : K)
    (h : (checkMotion2 (fieldArith eps) Am isSat isValid geo hf s s1 s2).second = some f) :
    0 ≤ f ∧ f ≤ 1 :=
  fraction_range eps Am hnn isSat isValid geo hf s s1 s2 f h

/-- kernel-checked witness about the code **before** a7ee00eca: the end state satisfies the
constraint, the traversal succeeds, `isValid(s2)` says no — the old two-argument form accepted the
motion (it never asked), the code as it is now rejects it. -/
theorem checkMotion_old_accepts_invalid_end :
    (checkMotion1Old (fun (_ : Unit) (_ : Nat) => (true, ())) (fun _ _ _ _ => (true, [], ())) () 0 1).1 = true ∧
    (checkMotion1 (fun (_ : Unit) (_ : Nat) => (false, ())) (fun _ _ => (true, ())) (fun _ _ _ _ => (true, [], ())) () 0 1).1
      = false := by
  constructor <;> rfl

/-! ## `ProjectedStateSampler` (F10) -/

/-- [AF] what the sampler hands back never depends on `project`'s verdict. -/
theorem sampler_discards_verdict (A : Arith D) (Am : Ambient S D) (Rs : Resid R D)
    (O : Oracle σ S R) (tolSq : D) (maxIter : Nat) (s : σ) (raw : S) :
    (sampleProjected A Am Rs O tolSq maxIter s raw).1 =
      Am.clamp (project A Rs O tolSq maxIter s raw).2.1 := rfl

/-- [AF] `sampler_on_manifold`, the part that is true: if `project` returned `true` **and**
`enforceBounds` was a no-op, the sample passed the residual test.
(The full statement "every sampled state passed the residual test" is refuted by the two
witnesses below.) -/
theorem sampler_on_manifold_partial (A : Arith D) (Am : Ambient S D) (Rs : Resid R D)
    (O : Oracle σ S R) (tolSq : D) (maxIter : Nat) (s : σ) (raw : S)
    (hok : (sampleProjected A Am Rs O tolSq maxIter s raw).2.1 = true)
    (hnoop : Am.clamp (project A Rs O tolSq maxIter s raw).2.1 = (project A Rs O tolSq maxIter s raw).2.1) :
    ResidualPassed A Rs O tolSq (sampleProjected A Am Rs O tolSq maxIter s raw).1 := by
  simp only [sampleProjected] at hok ⊢
  rw [hnoop]
  exact project_true A Rs O tolSq maxIter s raw _ (project A Rs O tolSq maxIter s raw).2.2
    (Prod.ext hok rfl)

def natArith : Arith Nat :=
  ⟨0, 1, 0, (· + ·), (· - ·), (· * ·), (· / ·), id, fun a b => decide (a < b), fun a b => decide (a ≤ b)⟩
def natResid : Resid Nat Nat := ⟨id, fun _ => true⟩
/-- residual 5 everywhere except at state 7; the Newton step goes nowhere -/
def stuckOracle : Oracle Unit Nat Nat :=
  ⟨fun _ x => (if x = 7 then 0 else 5, ()), fun _ x _ => (x, ()), fun _ _ => (true, ())⟩

/-- **F10, first half** (kernel-checked witness): an oracle whose projection fails makes the
sampler return the unprojected draw, which does not satisfy the constraint. -/
theorem sampler_ignores_projection :
    (sampleProjected natArith ⟨fun _ _ => 0, fun a _ _ => a, id⟩ natResid stuckOracle 1 50 () 3)
      = (3, false, ()) ∧
    (isSatisfied natArith natResid stuckOracle 1 () 3).1 = false := by
  constructor
  · simp [sampleProjected, project, projectLoop, stuckOracle, natArith, natResid]
  · simp [isSatisfied, stuckOracle, natArith, natResid]

/-- **F10, second half** (kernel-checked witness): the projection succeeds (state 7 satisfies
the constraint) but `enforceBounds` (here: clamp tgt `≤ 4`) runs afterwards and moves the sample
off the manifold. -/
theorem sampler_bounds_after_projection :
    (sampleProjected natArith ⟨fun _ _ => 0, fun a _ _ => a, fun x => min x 4⟩ natResid stuckOracle 1 50 () 7)
      = (4, true, ()) ∧
    (isSatisfied natArith natResid stuckOracle 1 () 7).1 = true ∧
    (isSatisfied natArith natResid stuckOracle 1 () 4).1 = false := by
  refine ⟨?_, ?_, ?_⟩
  · simp [sampleProjected, project, projectLoop, stuckOracle, natArith, natResid]
  · simp [isSatisfied, stuckOracle, natArith, natResid]
  · simp [isSatisfied, stuckOracle, natArith, natResid]

/-! ## Atlas-based spaces (Model/ConstrainedAtlas.lean)

`AtlasStateSpace::discreteGeodesic`, `TangentBundleStateSpace::discreteGeodesic / project /
geodesicInterpolate` and `AtlasStateSampler`, as coded, with **every** chart / atlas operation
(`psi`, `phi`, `psiInverse`, `inPolytope`, `getChart` (hence `owningChart`/`newChart`),
`sampleChart`, `borderCheck`), `isSatisfied`, `isValid`, the random draws and the Eigen arithmetic
in chart coordinates as arbitrary stateful oracles.  "On the manifold" is `PsiOut x`: `x` is what a
`psi` call that returned `true` left behind (`psi` returns `true` only after its own residual test;
that Newton iteration is an oracle here and is sampled by checks/c16.py).  All [AF]. -/

section atlas
variable {U C : Type} (A : Arith D) (Am : Ambient S D) (O : AtlasOracle σ S U C D) (P : AtlasParams D)
  (fuel : Nat) (s : σ) (frm tgt : S) (interp : Bool)

/-- the list, when touched, is `from` followed by what the loop pushed (and the traversal only
starts from a state that was answered `isSatisfied`) -/
theorem atlas_geodesic_shape (l : List S)
    (h : (atlasGeodesic A Am O P fuel s frm tgt interp).states = some l) :
    (O.isSat s frm).1 = true ∧ ∃ xs, l = frm :: xs ∧ ATrace A Am O P interp tgt frm xs := by
  unfold atlasGeodesic at h
  simp only at h
  split at h
  · cases h
  · rename_i hsat
    split at h
    · cases h
    · split at h
      · cases h
      · split at h
        · simp only [Option.some.injEq] at h
          exact ⟨by simpa using hsat, [], h.symm, .nil _⟩
        · simp only [Option.some.injEq] at h
          exact ⟨by simpa using hsat, _, h.symm, atlasLoop_trace A Am O P interp frm tgt _ _ _ _ _ _ _ _ _ _⟩

/-- every state stored by the atlas geodesic after the first is the output of a **successful**
`psi` and, when `interpolate = false`, was answered valid. -/
theorem atlas_geodesic_states_on_manifold (l : List S)
    (h : (atlasGeodesic A Am O P fuel s frm tgt interp).states = some l) :
    l.head? = some frm ∧ ∀ x ∈ l.tail, PsiOut O x ∧ (interp = false → AValid O x) := by
  obtain ⟨_, xs, rfl, htr⟩ := atlas_geodesic_shape A Am O P fuel s frm tgt interp l h
  exact ⟨rfl, ATrace.mem A Am O P interp tgt htr⟩

/-- consecutive stored states: the test `step >= lambda * delta` was false (the bound is strict
in the atlas space). -/
theorem atlas_geodesic_step_bound (l : List S)
    (h : (atlasGeodesic A Am O P fuel s frm tgt interp).states = some l) (i : Nat) (hi : i + 1 < l.length) :
    A.le (A.mul P.lambda P.delta) (Am.dist (l[i]'(by omega)) (l[i + 1]'hi)) = false := by
  obtain ⟨_, xs, rfl, htr⟩ := atlas_geodesic_shape A Am O P fuel s frm tgt interp l h
  exact (ATrace.step A Am O P interp tgt htr).getElem i hi

/-- a successful atlas geodesic ends within `delta` of the target: both closeness tests
(`distance(scratch, to) <= delta` and `distance(to, scratch) <= delta`) passed on the last stored
state. -/
theorem atlas_geodesic_success_close
    (h : (atlasGeodesic A Am O P fuel s frm tgt interp).ok = true) :
    ∃ l y, (atlasGeodesic A Am O P fuel s frm tgt interp).states = some l ∧ l.getLast? = some y ∧
      A.le (Am.dist y tgt) P.delta = true ∧ (y = frm ∨ A.le (Am.dist tgt y) P.delta = true) := by
  unfold atlasGeodesic at h ⊢
  simp only at h ⊢
  split
  · rename_i h1; simp [h1] at h
  · rename_i h1
    simp only [h1] at h
    split
    · rename_i h2; simp [h2] at h
    · rename_i h2
      simp only [h2] at h
      split
      · rename_i h3; simp [h3] at h
      · rename_i c h3
        simp only [h3] at h
        split
        · rename_i h4
          exact ⟨[frm], frm, rfl, rfl, by simpa using h4, Or.inl rfl⟩
        · rename_i h4
          simp only [h4] at h
          have hne : ∀ (xs : List S), ∃ y, (frm :: xs).getLast? = some y := fun xs =>
            ⟨(frm :: xs).getLast (by simp), List.getLast?_eq_some_getLast _⟩
          obtain ⟨y, hy⟩ := hne (atlasLoop A Am O P interp frm tgt (A.mul P.lambda (Am.dist frm tgt)) fuel
            (O.psiInv (O.psiInv (O.getChart (validOrSkip O interp (O.isSat s frm).2 frm).2 frm false).2 c frm).2 c tgt).2
            c (O.psiInv (O.getChart (validOrSkip O interp (O.isSat s frm).2 frm).2 frm false).2 c frm).1
            (O.psiInv (O.psiInv (O.getChart (validOrSkip O interp (O.isSat s frm).2 frm).2 frm false).2 c frm).2 c tgt).1
            frm A.zero A.one 0).states
          have := atlasLoop_ok A Am O P interp frm tgt _ fuel _ c _ _ frm A.zero A.one 0 h y hy
          exact ⟨_, y, rfl, hy, this.2, Or.inr this.1⟩

end atlas

section tb
variable {U C : Type} (A : Arith D) (Am : Ambient S D) (O : AtlasOracle σ S U C D) (P : AtlasParams D)
  (isFin : D → Bool) (fuel : Nat)

/-- TangentBundle's `interpolate` (code after the fix 8af6fc6c7): the state handed back is `from`
itself — the geodesic failed, or the pick is `geodesic[0]` (returned untouched), or the fix-up
projection of another pick failed — or the output of a **successful** fix-up `psi` that was also
answered valid.  Never one of the lazily stored unprojected states, never the leftovers of a failed
projection.
What remains assumed about `from` is exactly that it satisfies the constraint — which
`discreteGeodesic` tests itself before it stores `geodesic[0]`: see `tb_interpolate_from_checked`. -/
theorem tb_interpolate_on_manifold (s : σ) (frm tgt : S) (t : D) (x : S) (s' : σ)
    (h : tbInterpolate A Am O P isFin fuel s frm tgt t = some (x, s')) :
    x = frm ∨ (PsiOut O x ∧ AValid O x) := by
  unfold tbInterpolate tbInterpolateG at h
  simp only at h
  split at h
  · rename_i hok
    simp only [tbGeo] at hok h
    obtain ⟨l, hl⟩ := tbGeodesic_ok_some A Am O P isFin fuel s frm tgt true hok
    have hhead := tbGeodesic_head A Am O P isFin fuel s frm tgt true l hl
    rw [hl] at h
    simp only [Option.getD_some] at h
    unfold tbPick at h
    split at h
    · cases h
    · rename_i i _
      split at h
      · cases h
      · rename_i y hy
        split at h
        · rename_i hi0
          subst hi0
          simp only [Option.some.injEq, Prod.mk.injEq] at h
          cases l with
          | nil => simp at hy
          | cons z zs =>
            simp only [List.getElem?_cons_zero, Option.some.injEq] at hy
            simp only [List.head?_cons, Option.some.injEq] at hhead
            exact Or.inl (by rw [← h.1, ← hy, hhead])
        · split at h
          · cases h
          · rename_i r hr
            split at h
            · rename_i hr1
              simp only [Option.some.injEq, Prod.mk.injEq] at h
              obtain ⟨hx, _⟩ := h
              subst hx
              exact Or.inr (tbProject_true O _ _ r hr hr1)
            · rw [hhead] at h
              simp only [Option.map_some, Option.some.injEq, Prod.mk.injEq] at h
              exact Or.inl h.1.symm
  · simp only [Option.some.injEq, Prod.mk.injEq] at h
    exact Or.inl h.1.symm

/-- whenever the TangentBundle geodesic reports success — the only case in which `interpolate`
looks at the list — `from` was answered `isSatisfied` by the traversal itself. -/
theorem tb_interpolate_from_checked (s : σ) (frm tgt : S) (i : Bool)
    (h : (tbGeodesic A Am O P isFin fuel s frm tgt i).ok = true) : (O.isSat s frm).1 = true := by
  unfold tbGeodesic at h
  simp only at h
  split at h
  · simp at h
  · rename_i hs
    simpa using hs

/-- the same statement for the code **before** the fix is only true with a third case: when the
pick is `geodesic[0]` and its (in-place) fix-up projection fails, the caller got whatever that
failed projection left in `geodesic[0]` (F74; refuted in full by `tb_interpolate_old_alias_fails`). -/
theorem tb_interpolate_old_partial (s : σ) (frm tgt : S) (t : D) (x : S) (s' : σ)
    (h : tbInterpolateOld A Am O P isFin fuel s frm tgt t = some (x, s')) :
    x = frm ∨ (PsiOut O x ∧ AValid O x) ∨
      (∃ s₁ r, tbProject O s₁ frm = some r ∧ r.1 = false ∧ x = r.2.1) := by
  unfold tbInterpolateOld at h
  simp only at h
  split at h
  · rename_i hok
    simp only [tbGeo] at hok h
    obtain ⟨l, hl⟩ := tbGeodesic_ok_some A Am O P isFin fuel s frm tgt true hok
    have hhead := tbGeodesic_head A Am O P isFin fuel s frm tgt true l hl
    rw [hl] at h
    simp only [Option.getD_some] at h
    unfold tbPickOld at h
    split at h
    · cases h
    · rename_i i _
      split at h
      · cases h
      · rename_i y hy
        split at h
        · cases h
        · rename_i r hr
          split at h
          · rename_i hr1
            simp only [Option.some.injEq, Prod.mk.injEq] at h
            obtain ⟨hx, _⟩ := h
            subst hx
            exact Or.inr (Or.inl (tbProject_true O _ _ r hr hr1))
          · rename_i hr1
            split at h
            · rename_i hi0
              subst hi0
              simp only [Option.some.injEq, Prod.mk.injEq] at h
              have hy' : y = frm := by
                cases l with
                | nil => simp at hy
                | cons z zs =>
                  simp only [List.getElem?_cons_zero, Option.some.injEq] at hy
                  simp only [List.head?_cons, Option.some.injEq] at hhead
                  rw [← hy, hhead]
              subst hy'
              exact Or.inr (Or.inr ⟨_, r, hr, by simpa using hr1, h.1.symm⟩)
            · rw [hhead] at h
              simp only [Option.map_some, Option.some.injEq, Prod.mk.injEq] at h
              exact Or.inl h.1.symm
  · simp only [Option.some.injEq, Prod.mk.injEq] at h
    exact Or.inl h.1.symm

/-- [AF] **the repaired TangentBundle traversal validates what it stores**: with
`interpolate = false` every state stored after the first was answered valid by `isValid` — handed
over right before it is stored, whichever way the loop ends afterwards (early `break`s included);
`from` itself is validated once, before the loop, whenever the traversal has to move. -/
theorem tb_geodesic_states_valid (s : σ) (frm tgt : S) (l : List S)
    (h : (tbGeodesic A Am O P isFin fuel s frm tgt false).states = some l) :
    l.head? = some frm ∧ ∀ x ∈ l.tail, AValid O x := by
  refine ⟨tbGeodesic_head A Am O P isFin fuel s frm tgt false l h, ?_⟩
  unfold tbGeodesic at h
  simp only at h
  split at h
  · cases h
  · split at h
    · cases h
    · split at h
      · simp only [Option.some.injEq] at h; subst h; simp
      · split at h
        · simp only [Option.some.injEq] at h; subst h; simp
        · simp only [Option.some.injEq] at h
          subst h
          intro x hx
          exact tbLoop_valid A Am O P isFin false frm tgt _ fuel _ _ _ _ _ _ _ x (by simpa using hx) rfl

end tb

section sampler
variable {U C : Type} (Am : Ambient S D) (O : AtlasOracle σ S U C D)

/-- `sampleUniform`: the coordinates before `enforceBounds` are the output of a successful `psi`
or the origin of a chart. -/
theorem atlas_sampler_uniform_spec (T fuel : Nat) (s : σ) (buf : S) (r : SampleOut σ S)
    (h : atlasSampleUniform Am O T fuel s buf = some r) :
    r.state = Am.clamp r.raw ∧
      ((r.via = .psi ∧ PsiOut O r.raw) ∨ (r.via = .fallback ∧ ∃ c, r.raw = O.origin c)) := by
  unfold atlasSampleUniform at h
  split at h
  · cases h
  · rename_i x via c ru n s' hu
    simp only [Option.some.injEq] at h
    subst h
    refine ⟨rfl, ?_⟩
    rcases uniOuter_spec O fuel fuel _ _ _ _ _ _ hu with h | h
    · exact Or.inl h
    · exact Or.inr ⟨h.1, c, h.2⟩

/-- `sampleUniformNear` / `sampleGaussian` (a chart was found for `near`): the coordinates before
`enforceBounds` are the output of a successful `psi`, or `near` itself. -/
theorem atlas_sampler_near_spec (T fuel : Nat) (s : σ) (buf near : S) (d : D) (c : C)
    (hc : (O.getChart s near true).1.1 = some c) (r : SampleOut σ S)
    (h : atlasSampleNear Am O T fuel s buf near d = some r) :
    r.state = Am.clamp r.raw ∧ ((r.via = .psi ∧ PsiOut O r.raw) ∨ (r.via = .fallback ∧ r.raw = near)) := by
  unfold atlasSampleNear at h
  simp only [hc] at h
  split at h
  · cases h
  · rename_i q hq
    simp only [Option.some.injEq] at h
    subst h
    obtain ⟨hraw, hvia, hstate⟩ := nearFinish_raw Am O c near q
    refine ⟨hstate, ?_⟩
    rw [hraw, hvia]
    rcases nearLoop_spec O c _ d fuel _ _ _ _ _ q hq with ⟨h1, h2, h3⟩ | h0
    · have : q.2.2.1 ≠ 0 := by omega
      simp only [this, ↓reduceIte]
      exact Or.inl ⟨h1, h2⟩
    · simp [h0]

/-- **the fallback, for the code as it is** (pre-decrement `--tries > 0`): when every `psi` fails,
the sampler returns `near` / `mean` (clamped), not the garbage the failed projections left in the
buffer. -/
theorem atlas_sampler_fallback (T fuel : Nat) (hT : 0 < T) (hT' : T < 4294967296) (hfuel : T ≤ fuel)
    (hfail : ∀ s c u, (O.psi s c u).1.1 = false) (s : σ) (buf near : S) (d : D) (c : C)
    (hc : (O.getChart s near true).1.1 = some c) :
    ∃ r, atlasSampleNear Am O T fuel s buf near d = some r ∧ r.via = .fallback ∧ r.raw = near ∧
      r.state = Am.clamp near := by
  unfold atlasSampleNear
  simp only [hc]
  obtain ⟨q, hq, h0⟩ := nearLoop_all_fail O c (O.psiInv (O.getChart s near true).2 c near).1 d hfail fuel
    (O.psiInv (O.getChart s near true).2 c near).2 T buf .garbage 0 hT hT' hfuel
  rw [hq]
  obtain ⟨hraw, hvia, hstate⟩ := nearFinish_raw Am O c near q
  refine ⟨_, rfl, ?_, ?_, ?_⟩
  · rw [hvia]; simp [h0]
  · rw [hraw]; simp [h0]
  · rw [hstate, hraw]; simp [h0]

/-- on the manifold whenever a `psi` succeeded and `enforceBounds` was a no-op (F71 is the
exception: it is not a no-op when the projection leaves the box). -/
theorem atlas_sampler_on_manifold_partial (T fuel : Nat) (s : σ) (buf near : S) (d : D) (c : C)
    (hc : (O.getChart s near true).1.1 = some c) (r : SampleOut σ S)
    (h : atlasSampleNear Am O T fuel s buf near d = some r) (hvia : r.via = .psi)
    (hnoop : Am.clamp r.raw = r.raw) : PsiOut O r.state := by
  obtain ⟨hst, hcase⟩ := atlas_sampler_near_spec Am O T fuel s buf near d c hc r h
  rw [hst, hnoop]
  rcases hcase with h | h
  · exact h.2
  · rw [hvia] at h; cases h.1

/-- every `psi` fails and leaves 99 in the buffer -/
def failingAtlas : AtlasOracle Unit Nat Nat Unit Nat where
  isSat _ _ := (true, ())
  valid _ _ := (true, ())
  getChart _ _ _ := ((some (), false), ())
  psiInv _ _ x := (x, ())
  psi _ _ _ := ((false, 99), ())
  phi _ _ u := (u, ())
  inPoly _ _ _ := (true, ())
  conDist _ _ := (0, ())
  advance _ u _ _ := (u, ())
  uClose _ _ _ := (true, ())
  sampleChart _ := ((), ())
  drawBall _ := (0, ())
  drawNear _ u _ := (u, ())
  owning _ _ := (some (), ())
  border _ _ _ := ()
  origin _ := 0

/-- **kernel-checked witness**: with a post-decrement (`tries-- > 0 && !psi`) the counter wraps to
2³²−1 after the last failure, `tries == 0` is false, the fallback is skipped and the sampler hands
back the failed projection's leftovers (99); the code as it is returns `near` (7). -/
theorem atlas_sampler_postdec_skips_fallback :
    (atlasSampleNearPostDec (⟨fun _ _ => 0, fun a _ _ => a, id⟩ : Ambient Nat Nat) failingAtlas 2 10 () 0 7 1).map
        (fun r => (r.state, r.via)) = some (99, .garbage) ∧
    (atlasSampleNear (⟨fun _ _ => 0, fun a _ _ => a, id⟩ : Ambient Nat Nat) failingAtlas 2 10 () 0 7 1).map
        (fun r => (r.state, r.via)) = some (7, .fallback) := by
  constructor
  · simp [atlasSampleNearPostDec, nearLoopPostDec, nearFinish, failingAtlas, dec32]
  · simp [atlasSampleNear, nearLoop, nearFinish, failingAtlas, dec32]

end sampler

/-! ## `AtlasChart`: the polytope bookkeeping (Model/AtlasChart.lean), as coded

[AF] = for every `ChartArith` / `VecOps` (also the `Float` run); [EX] = for every linearly ordered
field `K`, chart coordinates `Fin k → K` with `dot v u = ∑ i, v i * u i`, any function for `sqrt`.
The projection maps are oracles: `w = owner->psiInverse(neighbor origin)`, `v' = psiInverse(psi(v))`
are given inputs. -/

section chart
variable {α V : Type}

/-- [AF] `inPolytope(u)` is `true` iff the radius test `u.norm() > radius_` is false **and** every
halfspace of the polytope contains `u`. -/
theorem inPolytope_iff_all (A : ChartArith α) (Vo : VecOps α V) (r : α) (hs : List (Halfspace α V)) (u : V) :
    inPolytopeL A Vo r hs u = true ↔
      A.lt r (A.sqrt (Vo.dot u u)) = false ∧ ∀ h ∈ hs, h.contains A Vo u = true :=
  inPolytopeL_iff A Vo r hs u

/-- [AF] adding boundaries can only shrink the polytope: a point that is in the polytope after
halfspaces were appended was in it before (equivalently: once excluded, excluded for good). -/
theorem inPolytope_antitone (A : ChartArith α) (Vo : VecOps α V) (r : α) (hs extra : List (Halfspace α V)) (u : V)
    (h : inPolytopeL A Vo r (hs ++ extra) u = true) : inPolytopeL A Vo r hs u = true :=
  inPolytopeL_append A Vo r hs extra u h

/-- [AF] `generateHalfspace(c1, c2)` creates the complementary pair: two new table entries owned by
`c1` and `c2`, each the other's complement, built from the two `psiInverse` answers by the
constructor; nothing else in the table of halfspaces changes. -/
theorem generateHalfspace_pair (A : ChartArith α) (Vo : VecOps α V) (M : AtlasM α V) (c1 c2 : Nat) (w12 w21 : V) :
    let M' := M.generateHalfspace A Vo c1 c2 w12 w21
    M'.hs.size = M.hs.size + 2 ∧
    M'.hs[M.hs.size]? = some (Halfspace.create A Vo c1 w12 (M.hs.size + 1)) ∧
    M'.hs[M.hs.size + 1]? = some (Halfspace.create A Vo c2 w21 M.hs.size) ∧
    ∀ i, i < M.hs.size → M'.hs[i]? = M.hs[i]? := by
  simp only [AtlasM.generateHalfspace, AtlasM.addBoundary]
  refine ⟨by simp, ?_, ?_, ?_⟩
  · simp [Array.getElem?_push]
  · rw [Array.getElem?_push]
    simp
  · intro i hi
    rw [Array.getElem?_push, Array.getElem?_push]
    simp only [Array.size_push]
    rw [if_neg (by omega), if_neg (by omega)]

/-- [AF] **the monotonicity the atlas relies on when charts are added**: `generateHalfspace` (the
only place where a polytope grows) only appends halfspaces and leaves radii alone, so for *every*
chart of the table a point that is in its polytope afterwards was in it before. -/
theorem generateHalfspace_antitone (A : ChartArith α) (Vo : VecOps α V) (M : AtlasM α V) (c1 c2 : Nat)
    (w12 w21 : V) (c : Nat) (u : V) (ch : ChartM α) (hs : List (Halfspace α V))
    (hch : M.chart? c = some ch) (hp : M.polytope? c = some hs)
    (h : (M.generateHalfspace A Vo c1 c2 w12 w21).inPolytope A Vo c u = some true) :
    M.inPolytope A Vo c u = some true := by
  obtain ⟨ch', extra, h1, h2, h3⟩ := polytope?_generateHalfspace A Vo M c1 c2 w12 w21 c ch hs hch hp
  simp only [AtlasM.inPolytope, h1, h3, hch, hp, h2, Option.some.injEq] at h ⊢
  exact inPolytopeL_append A Vo ch.radius hs extra u h

/-- [AF] `borderCheck(v)`, one halfspace at a time: the complement of a halfspace that passes the
`checkNear` test `distanceToPoint(v) < 1/20` is replaced by its `expandToInclude(v')`; a halfspace
that fails the test changes nothing. -/
theorem borderCheck_spec (A : ChartArith α) (Vo : VecOps α V) (v : V) (hs : Array (Halfspace α V)) (i : Nat)
    (is : List Nat) (v' : V) (vs : List V) (h c : Halfspace α V) (hi : hs[i]? = some h)
    (hc : hs[h.compl]? = some c) :
    borderLoop A Vo v hs (i :: is) (v' :: vs) =
      borderLoop A Vo v
        (if h.near A Vo v then hs.setIfInBounds h.compl (c.expandToInclude A Vo v') else hs) is vs := by
  simp only [borderLoop, hi, hc]
  split <;> rfl

/-- [AF] `borderCheck` never adds or removes a halfspace. -/
theorem borderCheck_size (A : ChartArith α) (Vo : VecOps α V) (M : AtlasM α V) (c : Nat) (v : V) (vps : List V) :
    (M.borderCheck A Vo c v vps).hs.size = M.hs.size ∧ (M.borderCheck A Vo c v vps).charts = M.charts := by
  unfold AtlasM.borderCheck
  split
  · exact ⟨borderLoop_size A Vo v _ _ _, rfl⟩
  · exact ⟨rfl, rfl⟩

/-- [AF] `owningChart`'s selection: the chart it returns was answered `inPolytope` and lies within
`epsilon_`. -/
theorem owningChart_sound (A : Arith α) (eps : α) (cands : List (Nat × Bool × α)) (id : Nat)
    (h : owningChartSelect A eps cands = some id) : ∃ far, (id, true, far) ∈ cands ∧ A.lt far eps = true := by
  rcases owningLoop_sound A eps cands eps none id h with h' | h'
  · cases h'
  · exact h'

/-- [AF] an owner, once found, is never given up: with `c = some _` the loop ends with some chart. -/
theorem owningLoop_some_stays (A : Arith α) (eps : α) :
    ∀ (cands : List (Nat × Bool × α)) (best : α) (c : Nat), (owningLoop A eps cands best (some c)).isSome = true
  | [], _, _ => by simp [owningLoop]
  | (i, inP, far) :: rest, best, c => by
    simp only [owningLoop]
    split
    · exact owningLoop_some_stays A eps rest far i
    · exact owningLoop_some_stays A eps rest best c

/-- [AF, no law of the arithmetic used] **completeness of `owningChart`'s selection**: if *any* chart among the candidates
contains the point in its validity region (answered `inPolytope`, and `distance(state, phi(psiInverse(state))) < epsilon_`),
then `owningChart` returns a chart — and by `owningChart_sound` that chart contains the point in its validity region.
(The candidates are what `chartNN_.nearestR(state, rho_)` returned: a chart farther than `rho_` is never looked at.) -/
theorem owningChart_complete (A : Arith α) (eps : α) (cands : List (Nat × Bool × α)) (id : Nat) (far : α)
    (hm : (id, true, far) ∈ cands) (hf : A.lt far eps = true) :
    ∃ id', owningChartSelect A eps cands = some id' ∧ ∃ far', (id', true, far') ∈ cands ∧ A.lt far' eps = true := by
  have key : ∀ (cands : List (Nat × Bool × α)), (id, true, far) ∈ cands →
      (owningLoop A eps cands eps none).isSome = true := by
    intro cands
    induction cands with
    | nil => intro h; simp at h
    | cons hd tl ih =>
      intro h
      obtain ⟨i, inP, f⟩ := hd
      simp only [owningLoop]
      split
      · exact owningLoop_some_stays A eps tl f i
      · rename_i hc
        rcases List.mem_cons.mp h with h | h
        · simp only [Prod.mk.injEq] at h
          obtain ⟨_, h2, h3⟩ := h
          subst h2; subst h3
          simp [hf] at hc
        · exact ih h
  have hs := key cands hm
  unfold owningChartSelect
  cases ho : owningLoop A eps cands eps none with
  | none => rw [ho] at hs; simp at hs
  | some id' => exact ⟨id', rfl, owningChart_sound A eps cands id' (by unfold owningChartSelect; exact ho)⟩

/-- [AF] `getChart`: a chart is created (and `*created` written) only when the state carries no chart or `force` is set
**and** `owningChart` found none; otherwise the owner (resp. the cached chart) is returned and nothing is created. -/
theorem getChartSelect_spec (cached : Option Nat) (force : Bool) (own fresh : Option Nat) :
    ((getChartSelect cached force own fresh).2 = true ↔ ((cached = none ∨ force = true) ∧ own = none)) ∧
    ((cached = none ∨ force = true) → own.isSome = true → (getChartSelect cached force own fresh).1 = own) ∧
    (cached.isSome = true → force = false → (getChartSelect cached force own fresh).1 = cached) := by
  unfold getChartSelect
  cases cached <;> cases force <;> cases own <;> simp

/-- non-vacuity: three candidates, the first outside its polytope, the second and third valid — the closer one (third) wins;
no valid candidate — none. -/
example :
    owningChartSelect natArith 10 [(4, false, 1), (5, true, 7), (6, true, 3)] = some 6 ∧
    owningChartSelect natArith 10 [(4, false, 1), (5, true, 12)] = none := by
  constructor <;> simp [owningChartSelect, owningLoop, natArith]

end chart

section chartField
variable {K : Type} [Field K] [LinearOrder K] [IsStrictOrderedRing K] {k : Nat}

/-- [EX] **the halfspace bisects**: the halfspace built for (owner, neighbour) from
`w = owner->psiInverse(neighbour origin)` contains exactly the points `v` of the owner's chart plane
that are at least as close to the owner's origin (`0` in chart coordinates) as to `u = 1.05 · w`,
the neighbour's origin as seen from the owner, pushed out by 5 %. -/
theorem halfspace_bisects (eps : K) (sq : K → K) (owner compl : Nat) (w v : Fin k → K) :
    (Halfspace.create (fieldChartArith eps sq) (finVecOps K k) owner w compl).contains
        (fieldChartArith eps sq) (finVecOps K k) v = true ↔
      ∑ i, v i * v i ≤ ∑ i, (v i - 21 / 20 * w i) * (v i - 21 / 20 * w i) := by
  rw [contains_iff]
  obtain ⟨hu, _, hrhs⟩ := create_fields eps sq owner compl w
  rw [hu, hrhs]
  have hexp := sq_dist_expand v ((finVecOps K k).smul (21 / 20) w)
  have h1 : (∑ i, (v i - 21 / 20 * w i) * (v i - 21 / 20 * w i)) =
      ∑ i, (v i - (finVecOps K k).smul (21 / 20) w i) * (v i - (finVecOps K k).smul (21 / 20) w i) := rfl
  rw [h1, hexp, dot_smul_smul]
  have h2 : (∑ i, v i * v i) = (finVecOps K k).dot v v := rfl
  rw [h2]
  constructor <;> intro h <;> linarith

/-- [EX] **no crack between a complementary pair — as far as it holds without properties of psi**.
Hypotheses on the oracle maps (what a flat, isometric change of chart gives): the two origins see
each other at the same distance (`w21·w21 = w12·w12`) and the image `v'` of `v` in the other chart
satisfies `v'·w21 = w12·w12 − v·w12`.  Then `v` and `v'` are not both excluded: the point is inside
`c1`'s halfspace towards `c2` or inside `c2`'s halfspace towards `c1` (thanks to the 5 % overlap; on
a curved manifold the hypotheses hold only approximately, which is what `borderCheck` is for). -/
theorem halfspace_pair_complementary_partial (eps : K) (sq : K → K) (c1 c2 i1 i2 : Nat)
    (w12 w21 v v' : Fin k → K)
    (hN : (finVecOps K k).dot w21 w21 = (finVecOps K k).dot w12 w12)
    (hT : (finVecOps K k).dot v' w21 = (finVecOps K k).dot w12 w12 - (finVecOps K k).dot v w12) :
    ¬ ((Halfspace.create (fieldChartArith eps sq) (finVecOps K k) c1 w12 i2).contains
          (fieldChartArith eps sq) (finVecOps K k) v = false ∧
       (Halfspace.create (fieldChartArith eps sq) (finVecOps K k) c2 w21 i1).contains
          (fieldChartArith eps sq) (finVecOps K k) v' = false) := by
  rintro ⟨h1, h2⟩
  have e1 : ¬ ((Halfspace.create (fieldChartArith eps sq) (finVecOps K k) c1 w12 i2).contains
      (fieldChartArith eps sq) (finVecOps K k) v = true) := by simp [h1]
  have e2 : ¬ ((Halfspace.create (fieldChartArith eps sq) (finVecOps K k) c2 w21 i1).contains
      (fieldChartArith eps sq) (finVecOps K k) v' = true) := by simp [h2]
  rw [contains_iff] at e1 e2
  obtain ⟨hu1, _, hr1⟩ := create_fields eps sq c1 i2 w12
  obtain ⟨hu2, _, hr2⟩ := create_fields eps sq c2 i1 w21
  rw [hu1, hr1, dot_smul_right] at e1
  rw [hu2, hr2, dot_smul_right, hN, hT] at e2
  have hn := dot_self_nonneg w12
  rw [not_le] at e1 e2
  nlinarith

/-- [EX] what `expandToInclude` achieves **as coded**: when it fires (`t > 0`, `u ≠ 0`) the new
halfspace contains the point it was expanded for **iff `‖u‖² ≥ 1`** — because `distanceToPoint`
computes `(0.5 − v·u) / ‖u‖²` instead of `0.5 − v·u / ‖u‖²`. -/
theorem expandToInclude_contains_iff (eps : K) (sq : K → K) (h : Halfspace K (Fin k → K)) (v' : Fin k → K)
    (husq : h.usq = (finVecOps K k).dot h.u h.u) (hpos : 0 < h.usq)
    (ht : 0 < -(h.distanceToPoint (fieldChartArith eps sq) (finVecOps K k) v')) :
    (h.expandToInclude (fieldChartArith eps sq) (finVecOps K k) v').contains
        (fieldChartArith eps sq) (finVecOps K k) v' = true ↔ 1 ≤ h.usq := by
  have hfire : (fieldChartArith eps sq).lt (fieldChartArith eps sq).zero
      ((fieldChartArith eps sq).neg (h.distanceToPoint (fieldChartArith eps sq) (finVecOps K k) v')) = true := by
    simpa [fieldChartArith, fieldArith] using ht
  rw [contains_iff]
  simp only [Halfspace.expandToInclude, hfire, ↓reduceIte, Halfspace.setU]
  rw [dot_smul_right, dot_smul_smul]
  simp only [fieldChartArith, fieldArith, Halfspace.distanceToPoint] at ht ⊢
  rw [← husq]
  set a := (finVecOps K k).dot v' h.u
  set N := h.usq
  have hN : N ≠ 0 := ne_of_gt hpos
  have key : (1 + 2 * -((1 / 2 - a) / N)) = (N + 2 * a - 1) / N := by field_simp; ring
  rw [key]
  have hfac : 0 < (N + 2 * a - 1) / N := by
    have : 0 < -((1 / 2 - a) / N) := ht
    rw [neg_pos, div_neg_iff] at this
    rcases this with ⟨h1, h2⟩ | ⟨h1, h2⟩
    · exact absurd hpos (not_lt.mpr h2.le)
    · exact div_pos (by linarith) hpos
  have hq : 0 < N + 2 * a - 1 := by
    rcases (div_pos_iff.mp hfac) with ⟨h1, _⟩ | ⟨_, h2⟩
    · exact h1
    · exact absurd hpos (not_lt.mpr h2.le)
  constructor
  · intro hle
    have h1 : (N + 2 * a - 1) / N * a ≤ (N + 2 * a - 1) / N * ((N + 2 * a - 1) / N * N / 2) := by
      calc (N + 2 * a - 1) / N * a ≤ (N + 2 * a - 1) / N * ((N + 2 * a - 1) / N) * N / 2 := hle
        _ = (N + 2 * a - 1) / N * ((N + 2 * a - 1) / N * N / 2) := by ring
    have h2 := le_of_mul_le_mul_left h1 hfac
    have h3 : (N + 2 * a - 1) / N * N / 2 = (N + 2 * a - 1) / 2 := by field_simp
    rw [h3] at h2
    linarith
  · intro h1
    have h3 : (N + 2 * a - 1) / N * ((N + 2 * a - 1) / N) * N / 2 =
        (N + 2 * a - 1) / N * ((N + 2 * a - 1) / 2) := by field_simp
    rw [h3]
    exact mul_le_mul_of_nonneg_left (by linarith) hfac.le

/-- [EX] with the *intended* distance `0.5 − v·u/‖u‖²` (not the code) the expansion, when it fires,
puts the point exactly on the new boundary — for every `u ≠ 0`. -/
theorem expandToIncludeIntended_boundary (eps : K) (sq : K → K) (h : Halfspace K (Fin k → K)) (v' : Fin k → K)
    (husq : h.usq = (finVecOps K k).dot h.u h.u) (hpos : 0 < h.usq)
    (ht : 0 < -(1 / 2 - (finVecOps K k).dot v' h.u / h.usq)) :
    (finVecOps K k).dot v' (h.expandToIncludeIntended (fieldChartArith eps sq) (finVecOps K k) v').u =
      (h.expandToIncludeIntended (fieldChartArith eps sq) (finVecOps K k) v').rhs := by
  have hfire : (fieldChartArith eps sq).lt (fieldChartArith eps sq).zero
      ((fieldChartArith eps sq).neg ((fieldChartArith eps sq).sub (fieldChartArith eps sq).half
        ((fieldChartArith eps sq).div ((finVecOps K k).dot v' h.u) h.usq))) = true := by
    simpa [fieldChartArith, fieldArith] using ht
  simp only [Halfspace.expandToIncludeIntended, hfire, ↓reduceIte, Halfspace.setU]
  rw [dot_smul_right, dot_smul_smul]
  simp only [fieldChartArith, fieldArith]
  rw [← husq]
  have hN : h.usq ≠ 0 := ne_of_gt hpos
  field_simp
  ring

end chartField

/-- **kernel-checked witness** of the above over ℚ, one chart coordinate: `u = 1/2` (`‖u‖² = 1/4 < 1`),
the point `v' = 3` lies beyond the boundary, `expandToInclude(v')` fires (`u` becomes `9/2`) — and the
expanded halfspace still does not contain `v'`; with the *intended* distance `0.5 − v·u/‖u‖²` it
lands exactly on the boundary. -/
theorem expandToInclude_misses :
    let A := fieldChartArith (1 / 1000 : Rat) id
    let Vo := finVecOps Rat 1
    let h : Halfspace Rat (Fin 1 → Rat) := Halfspace.setU A Vo ⟨0, fun _ => 0, 0, 0, 1⟩ (fun _ => 1 / 2)
    (h.expandToInclude A Vo (fun _ => 3)).u 0 = 9 / 2 ∧
    (h.expandToInclude A Vo (fun _ => 3)).contains A Vo (fun _ => 3) = false ∧
    (h.expandToIncludeIntended A Vo (fun _ => 3)).contains A Vo (fun _ => 3) = true ∧
    Vo.dot (fun _ => 3) (h.expandToIncludeIntended A Vo (fun _ => 3)).u =
      (h.expandToIncludeIntended A Vo (fun _ => 3)).rhs := by
  simp only [Halfspace.expandToInclude, Halfspace.expandToIncludeIntended, Halfspace.setU, Halfspace.contains,
    Halfspace.distanceToPoint, fieldChartArith, fieldArith, finVecOps, Finset.univ_unique, Finset.sum_singleton]
  norm_num

/-! ### `psi` uses the tolerance of the call, not of the chart's creation -/

section psi
variable {σ' S' U' B' D' : Type}

/-- [AF] **a successful `psi` is within the tolerance passed at THAT call**: `psiChart` returns `true`
only if the test `‖b‖² < tolSq` — with the `tolSq` handed to this very call, i.e. the constraint's
current `getTolerance()²` — passed on a residual the oracle returned for the state it hands back. -/
theorem psi_success_within_current_tolerance (A : Arith D') (nsq : B' → D') (O : PsiOracle σ' S' U' B')
    (tolSq : D') (maxIter : Nat) (s : σ') (u : U') (x : S') (s' : σ')
    (h : psiChart A nsq O tolSq maxIter s u = (true, x, s')) :
    ∃ b, (∃ s₀, (O.resid s₀ x).1 = b) ∧ A.lt (nsq b) tolSq = true :=
  psiLoop_true A nsq O tolSq maxIter _ _ _ x s' ⟨_, rfl⟩ h

/-- [AF] … hence the constraint part `f(x)` of that residual is within the current tolerance too,
whenever dropping the tangential components cannot increase a squared norm past a bound it was below
(`hhead`; true of sums of squares in any ordered field and of IEEE doubles). -/
theorem psi_success_constraint_within_current_tolerance (A : Arith D') (nsq headNsq : B' → D')
    (O : PsiOracle σ' S' U' B') (hhead : ∀ b t, A.lt (nsq b) t = true → A.lt (headNsq b) t = true)
    (tolSq : D') (maxIter : Nat) (s : σ') (u : U') (x : S') (s' : σ')
    (h : psiChart A nsq O tolSq maxIter s u = (true, x, s')) :
    ∃ b, (∃ s₀, (O.resid s₀ x).1 = b) ∧ A.lt (headNsq b) tolSq = true := by
  obtain ⟨b, hb, hlt⟩ := psi_success_within_current_tolerance A nsq O tolSq maxIter s u x s' h
  exact ⟨b, hb, hhead b tolSq hlt⟩

/-- kernel-checked witness about a chart that *caches* the tolerance at construction (seeded change
C16-s4, not the code): created under tolerance² = 100, called after the tolerance was tightened to
tolerance² = 1, on a point whose residual² is 50 — the cached chart reports success although the
residual is above the tolerance in force; the code as it is reports failure. -/
theorem psi_cached_tolerance_is_stale :
    let O : PsiOracle Unit Nat Nat Nat := ⟨fun _ u => (u, ()), fun _ _ => (50, ()), fun _ x _ => (x, ())⟩
    (psiChartCached natArith id O 100 50 1 50 () 0).1 = true ∧ (psiChart natArith id O 1 50 () 0).1 = false := by
  constructor
  · simp [psiChartCached, psiChart, psiLoop, natArith]
  · simp [psiChart, psiLoop, natArith]

end psi

/-! ## Non-vacuity: a traversal that stores three further states and succeeds (it keeps going at
`dist = delta`: the loop condition is `dist >= tolerance`) -/

/-- states are naturals, distance `|a - b|`, interpolation moves one unit towards the target,
every projection succeeds at once (residual 0) -/
def lineAmb : Ambient Nat Nat :=
  ⟨fun a b => if a ≤ b then b - a else a - b, fun a b _ => if a < b then a + 1 else a - 1, id⟩
def zeroOracle : Oracle Unit Nat Nat := ⟨fun _ _ => (0, ()), fun _ x _ => (x, ()), fun _ _ => (true, ())⟩

theorem nonvacuous_geodesic :
    (discreteGeodesic natArith lineAmb natResid zeroOracle ⟨1, 2, 1, 50⟩ 10 () 0 3 false).states = [0, 1, 2, 3] ∧
    (discreteGeodesic natArith lineAmb natResid zeroOracle ⟨1, 2, 1, 50⟩ 10 () 0 3 false).ok = true := by
  constructor <;>
    simp [discreteGeodesic, geoLoop, geoStep, project, projectLoop, natArith, lineAmb, natResid, zeroOracle]

example : ∃ x, x ∈ (discreteGeodesic natArith lineAmb natResid zeroOracle ⟨1, 2, 1, 50⟩ 10 () 0 3 false).states.tail :=
  ⟨1, by rw [nonvacuous_geodesic.1]; simp⟩

/-- a one-chart "atlas" on the number line: `psi`/`phi`/`psiInverse` are the identity, each advance
moves one unit -/
def lineAtlas : AtlasOracle Unit Nat Nat Unit Nat :=
  { failingAtlas with psi := fun _ _ u => ((true, u), ()), advance := fun _ uj ub _ => (if uj < ub then uj + 1 else uj - 1, ()) }

/-- non-vacuity of the atlas theorems: a traversal that stores two further states and succeeds -/
theorem nonvacuous_atlas_geodesic :
    (atlasGeodesic natArith lineAmb lineAtlas ⟨1, 3, 5, 0, 1, 200⟩ 10 () 0 3 false).states = some [0, 1, 2] ∧
    (atlasGeodesic natArith lineAmb lineAtlas ⟨1, 3, 5, 0, 1, 200⟩ 10 () 0 3 false).ok = true := by
  constructor <;>
    simp [atlasGeodesic, atlasLoop, atlasStep, validOrSkip, leavesChart, lineAtlas, failingAtlas, natArith, lineAmb]

/-- **F74 (fixed by 8af6fc6c7), kernel-checked witness about the old code**: `from = to` (the
geodesic answers `[from]` at once), every `psi` fails leaving 99 in the state it was given: the old
`interpolate(7, 7, t)` handed back 99, neither `from` nor the output of a successful projection;
the code as it is now returns `from`. -/
theorem tb_interpolate_old_alias_fails :
    (tbInterpolateOld natArith lineAmb failingAtlas ⟨1, 3, 5, 0, 1, 200⟩ (fun _ => true) 10 () 7 7 0).map
      (fun r => r.1) = some 99 ∧
    (tbInterpolate natArith lineAmb failingAtlas ⟨1, 3, 5, 0, 1, 200⟩ (fun _ => true) 10 () 7 7 0).map
      (fun r => r.1) = some 7 := by
  constructor
  · simp [tbInterpolateOld, tbGeo, tbGeodesic, tbPickOld, tbProject, geodesicInterpolateIdx, sumsOf, failingAtlas,
      natArith, lineAmb]
  · simp [tbInterpolate, tbInterpolateG, tbGeo, tbGeodesic, tbPick, geodesicInterpolateIdx, sumsOf, failingAtlas,
      natArith, lineAmb]

/-- a one-chart tangent bundle on the number line where state 2 is invalid -/
def lineTB : AtlasOracle Unit Nat Nat Unit Nat :=
  { lineAtlas with
    valid := fun _ x => (x != 2, ()),
    uClose := fun _ ub uj => ((if uj ≤ ub then ub - uj else uj - ub) ≤ 1, ()) }

/-- **F175 (repaired), kernel-checked witness about the old traversal**: it validated the *previous*
state in every iteration, never the one it was about to store — `0 → 3` stored `[0, 1, 2]` and
reported success with `interpolate = false` although `isValid(2)` is false; the repaired traversal
hands 2 to `isValid` before storing it, stops at `[0, 1]` and reports failure. -/
theorem tb_geodesic_old_last_state_unvalidated :
    (tbGeodesicOld natArith lineAmb lineTB ⟨1, 3, 5, 0, 1, 200⟩ (fun _ => true) 10 () 0 3 false).states = some [0, 1, 2] ∧
    (tbGeodesicOld natArith lineAmb lineTB ⟨1, 3, 5, 0, 1, 200⟩ (fun _ => true) 10 () 0 3 false).ok = true ∧
    (lineTB.valid () 2).1 = false ∧
    (tbGeodesic natArith lineAmb lineTB ⟨1, 3, 5, 0, 1, 200⟩ (fun _ => true) 10 () 0 3 false).states = some [0, 1] ∧
    (tbGeodesic natArith lineAmb lineTB ⟨1, 3, 5, 0, 1, 200⟩ (fun _ => true) 10 () 0 3 false).ok = false := by
  refine ⟨?_, ?_, rfl, ?_, ?_⟩
  · simp [tbGeodesicOld, tbLoopOld, tbStepOld, validOrSkip, tbNeedsProjection, lineTB, lineAtlas, failingAtlas, natArith, lineAmb]
  · simp [tbGeodesicOld, tbLoopOld, tbStepOld, validOrSkip, tbNeedsProjection, lineTB, lineAtlas, failingAtlas, natArith, lineAmb]
  · simp [tbGeodesic, tbLoop, tbStep, validOrSkip, tbNeedsProjection, psiIfNeeded, lineTB, lineAtlas, failingAtlas, natArith, lineAmb]
  · simp [tbGeodesic, tbLoop, tbStep, validOrSkip, tbNeedsProjection, psiIfNeeded, lineTB, lineAtlas, failingAtlas, natArith, lineAmb]

/-- the picks that the comment in the source describes as "the closer of the two adjacent states"
are in fact the first stored state *past* `t` (F15): on `[0, 1, 2]`, `t = 0` picks index 1, not
`from`; exercised, not a manifold matter. -/
theorem geodesicInterpolate_overshoot_witness :
    geodesicInterpolateIdx (fieldArith (1 / 1000 : Rat)) (⟨fun a b => |a - b|, fun a _ _ => a, id⟩ : Ambient Rat Rat)
      [0, 1, 2] 0 = some 1 ∧
    geodesicInterpolateIdx (fieldArith (1 / 1000 : Rat)) (⟨fun a b => |a - b|, fun a _ _ => a, id⟩ : Ambient Rat Rat)
      [0, 1, 2] (1 / 2) = some 2 :=
  overshoot_witness

/-! ## Residuals that are not numbers (constraints that are not finite everywhere) -/

/-- [AF] a residual that compares false **both** ways with the squared tolerance — what an IEEE NaN does, e.g.
`z - sqrt(1 - x² - y²)` outside the unit cylinder — ends `Constraint::project` at once: no Newton step, the state is left
untouched, and the verdict is **false** (the `norm < squaredTolerance` of the final `return`, not "the loop ended"). -/
theorem project_unordered_residual_false (A : Arith D) (Rs : Resid R D) (O : Oracle σ S R) (tolSq : D) (maxIter : Nat)
    (s : σ) (x : S) (h1 : A.lt tolSq (Rs.nsq (O.fn s x).1) = false) (h2 : A.lt (Rs.nsq (O.fn s x).1) tolSq = false) :
    project A Rs O tolSq maxIter s x = (false, x, (O.fn s x).2) := by
  unfold project
  cases maxIter <;> simp [projectLoop, h1, h2]

/-- [AF] … and the same at any later iterate: whenever `project` answers `true`, the residual of the state it returns
compared `<` with the squared tolerance — so it is not such an unordered value (restates `project_true_satisfied` in the
form the NaN case needs). -/
theorem project_true_residual_ordered (A : Arith D) (Rs : Resid R D) (O : Oracle σ S R) (tolSq : D) (maxIter : Nat)
    (s : σ) (x x' : S) (s' : σ) (h : project A Rs O tolSq maxIter s x = (true, x', s')) :
    ∃ f, Evaluated O x' f ∧ A.lt (Rs.nsq f) tolSq = true :=
  project_true_satisfied A Rs O tolSq maxIter s x x' s' h

/-- non-vacuity with a partial order standing in for IEEE comparison (`none` = NaN: every comparison false): the
constraint is undefined at 7 — `project` refuses 7 untouched without consulting the Newton step; at 3 (residual 0 < 1)
it accepts. -/
example :
    let A : Arith (Option Nat) :=
      { zero := some 0, one := some 1, eps := some 0, add := fun a b => a.bind (fun x => b.map (x + ·)),
        sub := fun a _ => a, mul := fun a _ => a, div := fun a _ => a, abs := id,
        lt := fun a b => match a, b with | some x, some y => decide (x < y) | _, _ => false,
        le := fun a b => match a, b with | some x, some y => decide (x ≤ y) | _, _ => false }
    let Rs : Resid (Option Nat) (Option Nat) := ⟨id, Option.isSome⟩
    let O : Oracle Unit Nat (Option Nat) :=
      ⟨fun _ x => (if x = 7 then none else some 0, ()), fun _ _ _ => (99, ()), fun _ _ => (true, ())⟩
    project A Rs O (some 1) 50 () 7 = (false, 7, ()) ∧ project A Rs O (some 1) 50 () 3 = (true, 3, ()) := by
  constructor <;> simp [project, projectLoop]

/-- [AF] the same for `AtlasChart::psi` (Atlas / TangentBundle): an initial stacked residual that compares false both
ways with the squared tolerance in force makes `psi` answer **false** at once, leaving `phi(u)` in the output. -/
theorem psi_unordered_residual_false {U B : Type} (A : Arith D) (nsq : B → D) (O : PsiOracle σ S U B) (tolSq : D)
    (maxIter : Nat) (s : σ) (u : U)
    (h1 : A.lt tolSq (nsq (O.resid (O.phi s u).2 (O.phi s u).1).1) = false)
    (h2 : A.lt (nsq (O.resid (O.phi s u).2 (O.phi s u).1).1) tolSq = false) :
    (psiChart A nsq O tolSq maxIter s u).1 = false ∧ (psiChart A nsq O tolSq maxIter s u).2.1 = (O.phi s u).1 := by
  unfold psiChart
  cases maxIter <;> simp [psiLoop, h1, h2]

/-! ## The glue planners go through: `ConstrainedSpaceInformation.h` (Model/ConstrainedSI.lean)

`getMotionStates` (both classes), `TangentBundleSpaceInformation::checkMotion(…, lastValid)` and
`ConstrainedValidStateSampler`.  All [AF]: every geodesic oracle, every projection oracle (any answer stream, the state it
leaves behind on failure is arbitrary), every validity / constraint oracle, every `attempts_`. -/

/-- [AF] `ConstrainedSpaceInformation::getMotionStates`: every returned state is a state of the traversal, or the copy
of `s1` pushed because the traversal failed without storing anything, or the copy of `s2` appended after a *successful*
traversal — the latter two only when `endpoints` was asked for. -/
theorem getMotionStates_mem (geo : Geo σ S) (s : σ) (s1 s2 : S) (e : Bool) (x : S)
    (hx : x ∈ (getMotionStates geo s s1 s2 e).1) :
    x ∈ (geo s s1 s2 true).2.1 ∨
    (x = s1 ∧ e = true ∧ (geo s s1 s2 true).1 = false ∧ (geo s s1 s2 true).2.1 = []) ∨
    (x = s2 ∧ e = true ∧ (geo s s1 s2 true).1 = true) := by
  unfold getMotionStates at hx
  cases e with
  | false => simp at hx; exact Or.inl hx
  | true =>
    simp only [↓reduceIte] at hx
    cases hok : (geo s s1 s2 true).1 with
    | true =>
      simp [hok] at hx
      rcases hx with hx | hx
      · exact Or.inl hx
      · exact Or.inr (Or.inr ⟨hx, rfl, rfl⟩)
    | false =>
      cases hl : (geo s s1 s2 true).2.1 with
      | nil =>
        simp [hok, hl] at hx
        exact Or.inr (Or.inl ⟨hx, rfl, rfl, rfl⟩)
      | cons g0 rest =>
        simp [hok, hl] at hx
        exact Or.inl (by simpa using hx)

/-- [AF] the same on the Projected space, down to the constraint: every state handed to the caller is `s1`, the
caller's own `s2` (only after a successful traversal, which ended within `delta` of it), or the output of a successful
`Constraint::project` whose residual test passed. -/
theorem getMotionStates_projected_on_manifold (A : Arith D) (Am : Ambient S D) (Rs : Resid R D) (O : Oracle σ S R)
    (P : GeoParams D) (fuel : Nat) (s : σ) (s1 s2 : S) (e : Bool) (x : S)
    (hx : x ∈ (getMotionStates (projectedGeo A Am Rs O P fuel) s s1 s2 e).1) :
    x = s1 ∨ (x = s2 ∧ e = true ∧ (discreteGeodesic A Am Rs O P fuel s s1 s2 true).ok = true) ∨
      (Projected A Rs O P.tolSq P.maxIter x ∧ ResidualPassed A Rs O P.tolSq x) := by
  rcases getMotionStates_mem _ s s1 s2 e x hx with h | h | h
  · have h' : x ∈ (discreteGeodesic A Am Rs O P fuel s s1 s2 true).states := h
    rw [states_eq_cons] at h'
    rcases List.mem_cons.mp h' with h1 | h1
    · exact Or.inl h1
    · have := geodesic_states_projected A Am Rs O P fuel s s1 s2 true x h1
      exact Or.inr (Or.inr ⟨this.1, this.2.1⟩)
  · exact Or.inl h.1
  · exact Or.inr (Or.inl ⟨h.1, h.2.1, h.2.2⟩)

/-- [AF] the projected-prefix loop: it returns at most as many states as it was given, and every one of them is what a
`project` call that **returned true** left behind for a state of the input list. -/
theorem projectPrefix_spec (proj : σ → S → Option (Bool × S × σ)) :
    ∀ (l : List S) (s : σ) (out : List S) (s' : σ), projectPrefix proj s l = some (out, s') →
      out.length ≤ l.length ∧ ∀ x ∈ out, ∃ y ∈ l, ∃ s₁ r, proj s₁ y = some r ∧ r.1 = true ∧ r.2.1 = x := by
  intro l
  induction l with
  | nil =>
    intro s out s' h
    simp [projectPrefix] at h
    simp [h.1]
  | cons y ys ih =>
    intro s out s' h
    unfold projectPrefix at h
    cases hp : proj s y with
    | none => simp [hp] at h
    | some p =>
      simp only [hp] at h
      by_cases hp1 : p.1 = true
      · simp only [hp1, ↓reduceIte] at h
        cases hq : projectPrefix proj p.2.2 ys with
        | none => simp [hq] at h
        | some q =>
          simp only [hq, Option.some.injEq, Prod.mk.injEq] at h
          have ihq := ih p.2.2 q.1 q.2 (by rw [hq])
          rw [← h.1]
          refine ⟨by simp; exact ihq.1, ?_⟩
          intro x hx
          rcases List.mem_cons.mp hx with hx | hx
          · exact ⟨y, by simp, s, p, hp, hp1, hx.symm⟩
          · obtain ⟨y', hy', rest⟩ := ihq.2 x hx
            exact ⟨y', by simp [hy'], rest⟩
      · simp only [hp1, Bool.false_eq_true, ↓reduceIte, Option.some.injEq, Prod.mk.injEq] at h
        rw [← h.1]
        simp

/-- [AF] `TangentBundleSpaceInformation::getMotionStates`: every state handed to the caller is the output of a
successful `TangentBundleStateSpace::project` (chart `psi` succeeded **and** `isValid` answered true) of a state of the
lazy traversal (or of `s1`) — the lazy, possibly off-manifold traversal states themselves never get out. -/
theorem tbGetMotionStates_projected {U C : Type} (O : AtlasOracle σ S U C D) (geo : Geo σ S) (s : σ) (s1 s2 : S)
    (out : List S) (s' : σ) (h : tbGetMotionStates geo (tbProject O) s s1 s2 = some (out, s')) :
    ∀ x ∈ out, PsiOut O x ∧ AValid O x := by
  intro x hx
  unfold tbGetMotionStates at h
  obtain ⟨y, _, s₁, r, hr, hr1, hrx⟩ := (projectPrefix_spec (tbProject O) _ _ _ _ h).2 x hx
  have := tbProject_true O s₁ y r hr hr1
  rw [hrx] at this
  exact this

/-- [AF] `TangentBundleSpaceInformation::checkMotion(s1, s2, lastValid)` never changes the validator's verdict or the
fraction (the assignment `valid = false` in the source is dead: it is only reached when `valid` is already false). -/
theorem tbSiCheckMotion_verdict (proj : σ → S → Option (Bool × S × σ)) (cur : Option S) (cm r : CM2 σ S D)
    (h : tbSiCheckMotion proj cur cm = some r) : r.verdict = cm.verdict ∧ r.second = cm.second := by
  unfold tbSiCheckMotion at h
  by_cases hv : cm.verdict = false
  · simp only [hv, ↓reduceIte] at h
    split at h
    · simp at h; rw [← h]; exact ⟨hv.symm ▸ rfl, rfl⟩
    · split at h
      · simp at h
      · simp at h; rw [← h]; exact ⟨hv.symm ▸ rfl, rfl⟩
  · simp only [hv] at h
    simp at h; rw [← h]; exact ⟨rfl, rfl⟩

/-- [AF] … and what it leaves in `*lastValid.first` after an invalid motion is whatever the projection left there —
**whether or not that projection succeeded**.  `tbSiCheckMotion_on_manifold` is therefore only a `_partial` theorem:
full statement wanted: "after an invalid motion `*lastValid.first` is the output of a successful projection"; what is
missing is the case `project = false`, refuted by `tbSiCheckMotion_failed_projection_leaks` (F460). -/
theorem tbSiCheckMotion_on_manifold_partial (proj : σ → S → Option (Bool × S × σ)) (cur : Option S)
    (cm r : CM2 σ S D) (h : tbSiCheckMotion proj cur cm = some r) (hv : cm.verdict = false) (x : S)
    (hx : r.first = some x) :
    ∃ y s₁ p, proj s₁ y = some p ∧ p.2.1 = x ∧ (cm.first = some y ∨ (cm.first = none ∧ cur = some y)) := by
  unfold tbSiCheckMotion at h
  simp only [hv, ↓reduceIte] at h
  cases hf : cm.first with
  | some y =>
    simp only [hf] at h
    cases hp : proj cm.st y with
    | none => simp [hp] at h
    | some p =>
      simp only [hp, Option.some.injEq] at h
      rw [← h] at hx
      simp at hx
      exact ⟨y, cm.st, p, hp, hx, Or.inl rfl⟩
  | none =>
    simp only [hf] at h
    cases hc : cur with
    | none =>
      simp only [hc, Option.some.injEq] at h
      rw [← h, hf] at hx
      simp at hx
    | some y =>
      simp only [hc] at h
      cases hp : proj cm.st y with
      | none => simp [hp] at h
      | some p =>
        simp only [hp, Option.some.injEq] at h
        rw [← h] at hx
        simp at hx
        exact ⟨y, cm.st, p, hp, hx, Or.inr ⟨rfl, rfl⟩⟩

/-- **F460, kernel-checked witness (code as it is)**: the validator reports an invalid motion with last valid state 5 at
fraction 1/2 (`second = some 1`, any positive value); the projection of 5 fails and leaves its last iterate 99 in the
state: the caller of `TangentBundleSpaceInformation::checkMotion` gets 99 as "last valid state", fraction unchanged.  The
repaired function (notes/C16-fix-F460.diff) hands back `s1 = 0` with fraction 0. -/
theorem tbSiCheckMotion_failed_projection_leaks :
    (tbSiCheckMotion (fun (_ : Unit) (_ : Nat) => some (false, 99, ())) (some 7)
        (⟨false, some 5, some 1, ()⟩ : CM2 Unit Nat Nat)).map (fun r => (r.verdict, r.first, r.second))
      = some (false, some 99, some 1) ∧
    (tbSiCheckMotionFixed (fun (_ : Unit) (_ : Nat) => some (false, 99, ())) 0 (some 7) 0
        (⟨false, some 5, some 1, ()⟩ : CM2 Unit Nat Nat)).map (fun r => (r.verdict, r.first, r.second))
      = some (false, some 0, some 0) := by
  constructor <;> simp [tbSiCheckMotion, tbSiCheckMotionFixed]

/-- [AF] the repaired function (notes/C16-fix-F460.diff), full statement: after an invalid motion `*lastValid.first` is
the output of a **successful** projection, or it is `s1` and the fraction is 0. -/
theorem tbSiCheckMotionFixed_on_manifold (proj : σ → S → Option (Bool × S × σ)) (zero : D) (cur : Option S) (s1 : S)
    (cm r : CM2 σ S D) (h : tbSiCheckMotionFixed proj zero cur s1 cm = some r) (hv : cm.verdict = false) (x : S)
    (hx : r.first = some x) :
    (∃ y s₁ p, proj s₁ y = some p ∧ p.1 = true ∧ p.2.1 = x) ∨ (x = s1 ∧ r.second = some zero) := by
  unfold tbSiCheckMotionFixed at h
  rw [if_pos hv] at h
  have key : ∀ y, (match proj cm.st y with
      | none => none
      | some p => if p.1 then some { cm with first := some p.2.1, st := p.2.2 }
                  else some { cm with first := some s1, second := some zero, st := p.2.2 }) = some r →
      (∃ y s₁ p, proj s₁ y = some p ∧ p.1 = true ∧ p.2.1 = x) ∨ (x = s1 ∧ r.second = some zero) := by
    intro y hy
    cases hp : proj cm.st y with
    | none => simp [hp] at hy
    | some p =>
      simp only [hp] at hy
      by_cases hp1 : p.1 = true
      · simp only [hp1, ↓reduceIte, Option.some.injEq] at hy
        rw [← hy] at hx
        simp at hx
        exact Or.inl ⟨y, cm.st, p, hp, hp1, hx⟩
      · simp only [hp1, Bool.false_eq_true, ↓reduceIte, Option.some.injEq] at hy
        rw [← hy] at hx
        simp at hx
        exact Or.inr ⟨hx.symm, by rw [← hy]⟩
  cases hf : cm.first with
  | some y => simp only [hf] at h; exact key y h
  | none =>
    simp only [hf] at h
    cases hc : cur with
    | none =>
      simp only [hc, Option.some.injEq] at h
      rw [← h, hf] at hx
      simp at hx
    | some y => simp only [hc] at h; exact key y h

/-- [AF] `ConstrainedValidStateSampler::sample / sampleNear`: `true` is returned only for a state that `isValid` **and**
`isSatisfied` (asked in this order, the second only after a yes) both answered true for — whatever the wrapped sampler
drew (so F10 / F71 samples never get past it) — and the loop draws at most `max 1 attempts_` times. -/
theorem validSampleLoop_spec (draw : σ → S × σ) (isValid isSat : σ → S → Bool × σ) :
    ∀ (k : Nat) (s : σ),
      ((validSampleLoop draw isValid isSat k s).1 = true →
        (∃ s₁, (isValid s₁ (validSampleLoop draw isValid isSat k s).2.1).1 = true) ∧
        (∃ s₂, (isSat s₂ (validSampleLoop draw isValid isSat k s).2.1).1 = true)) ∧
      1 ≤ (validSampleLoop draw isValid isSat k s).2.2.1 ∧ (validSampleLoop draw isValid isSat k s).2.2.1 ≤ k + 1 := by
  have att : ∀ s, (validAttempt draw isValid isSat s).1 = true →
      (∃ s₁, (isValid s₁ (validAttempt draw isValid isSat s).2.1).1 = true) ∧
      (∃ s₂, (isSat s₂ (validAttempt draw isValid isSat s).2.1).1 = true) := by
    intro s h
    unfold validAttempt at h ⊢
    by_cases hv : (isValid (draw s).2 (draw s).1).1 = true
    · simp only [hv, ↓reduceIte] at h ⊢
      exact ⟨⟨_, hv⟩, ⟨_, h⟩⟩
    · simp [hv] at h
  intro k
  induction k with
  | zero =>
    intro s
    simp only [validSampleLoop]
    exact ⟨att s, by omega, by omega⟩
  | succ k ih =>
    intro s
    unfold validSampleLoop
    by_cases ha : (validAttempt draw isValid isSat s).1 = true
    · simp only [ha, ↓reduceIte]
      exact ⟨fun _ => att s ha, by omega, by omega⟩
    · simp only [ha, Bool.false_eq_true, ↓reduceIte]
      have := ih (validAttempt draw isValid isSat s).2.2
      exact ⟨this.1, by omega, by omega⟩

theorem validSample_true_checked (draw : σ → S × σ) (isValid isSat : σ → S → Bool × σ) (attempts : Nat) (s : σ)
    (h : (validSample draw isValid isSat attempts s).1 = true) :
    (∃ s₁, (isValid s₁ (validSample draw isValid isSat attempts s).2.1).1 = true) ∧
    (∃ s₂, (isSat s₂ (validSample draw isValid isSat attempts s).2.1).1 = true) ∧
    (validSample draw isValid isSat attempts s).2.2.1 ≤ max 1 attempts := by
  unfold validSample at h ⊢
  have := validSampleLoop_spec draw isValid isSat (attempts - 1) s
  refine ⟨(this.1 h).1, (this.1 h).2, ?_⟩
  have := this.2.2
  omega

/-- non-vacuity: the first two draws are rejected (7 is invalid, 8 violates the constraint), the third (9) is accepted
within `attempts_ = 5`; with `attempts_ = 2` the same stream gives up after two draws and leaves 8 in the state. -/
example :
    validSample (fun (s : Nat) => (7 + s, s + 1)) (fun s x => (x != 7, s)) (fun s x => (x != 8, s)) 5 0 = (true, 9, 3, 3) ∧
    validSample (fun (s : Nat) => (7 + s, s + 1)) (fun s x => (x != 7, s)) (fun s x => (x != 8, s)) 2 0 = (false, 8, 2, 2) := by
  constructor <;> simp [validSample, validSampleLoop, validAttempt]

/-- non-vacuity of the `getMotionStates` theorems: a successful traversal `[0, 1, 2]` towards 3 with endpoints gives
`[0, 1, 2, 3]`; a failed empty one gives `[s1]`; without endpoints nothing is added. -/
example :
    (getMotionStates (fun (_ : Unit) (_ _ : Nat) _ => (true, [0, 1, 2], ())) () 0 3 true).1 = [0, 1, 2, 3] ∧
    (getMotionStates (fun (_ : Unit) (_ _ : Nat) _ => (false, [], ())) () 0 3 true).1 = [0] ∧
    (getMotionStates (fun (_ : Unit) (_ _ : Nat) _ => (false, [], ())) () 0 3 false).1 = [] := by
  simp [getMotionStates]

/-- non-vacuity of `projectPrefix_spec`: the projection of the third state fails — two projected states come back -/
example :
    projectPrefix (fun (_ : Unit) (x : Nat) => some (x != 12, x + 100, ())) () [10, 11, 12, 13] = some ([110, 111], ()) := by
  simp [projectPrefix]

end OmplModel.Props.C16
