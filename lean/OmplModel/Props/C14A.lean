import OmplModel.Proofs.CarAlias
import OmplModel.Proofs.DubinsReal
/-!
# C14 (round 10) — `interpolate` with the output state aliasing `from` or `to`

`Model/CarAlias.lean` re-states every `interpolate` overload of the car-like spaces as a program over a store of state
OBJECTS, the `state` argument being a pointer that may designate the caller's `from` or `to` object
(`StateSpace::interpolate` allows it; `sanityChecks`, BiTRRT and PathSimplifier do it).  The theorems say, for EVERY aliasing
mode and every input, that the object the caller reads afterwards holds exactly the value of the pure function the other
C14 theorems are about (`interpPath`, `rsInterpPath`, `interpCached`, `rsInterpCached`, `Owen.interpWith`,
`Vana.interpPathV`, `VanaOwen.voInterp`) — so "the curve traced by interpolating … follows the vehicle model, ends at the
target, has arc length = distance, prefix law" carry over to in-place interpolation.  All of them are arithmetic-free
([AF]: generic over `[DNum α]` / `[RSNum α]`, hence true of the `Float` run the driver performs); the only [EX] statement is
the concrete counterexample for the in-place variants.

What makes them non-trivial: the C++ reads `from->getX()`, `from->getY()` AFTER it has begun to write `state`
(`writeBack`), writes the vertical profile into `state` before the horizontal word reads `from` (Vana / VanaOwen, guarded by
`(from == state) ? allocState() : state`), and turns `from` into `state` and then interpolates FROM `state` INTO `state`
(Owen / VanaOwen medium altitude, guarded by `(state == to) ? allocState() : state`).  `dubins_inplace_breaks_alias`,
`vana_noscratch_breaks_alias` and `turn_yawfirst_breaks_alias` show that the statements discriminate: the variants without
the scratch object (the shape of the seeded changes C07-s7 / C14-s6) or with a reordered write satisfy them for a separate
output state and violate them for `state == from`.
-/
set_option linter.unusedSimpArgs false

namespace OmplModel.Props.C14A
open OmplModel OmplModel.Dubins OmplModel.CarAlias

section AF
variable {α : Type} [DNum α]

/-- [AF] **Dubins path overload, any aliasing**: whatever objects `from` and `state` designate (the same one included),
after `interpolate(from, path, t, state, radius)` the `state` object holds `interpPath radius from path t`. -/
theorem dubins_path_overload_alias (radius : α) (P : Path α) (t : α) (src state : Ptr) (m : Mem (Pose α)) :
    (dubinsPathOverload poseView radius P t (.ptr src) state m).get state = interpPath radius (m.get src) P t := by
  cases src <;> cases state <;> simp [dubinsPathOverload, writeBack, Src.read, poseView, Mem.get, Mem.set, interpPath]

example (P : Path α) (t : α) (s1 s2 o : Pose α) :
    (dubinsPathOverload poseView 1 P t (.ptr .frm) .frm (callMem s1 s2 o)).get .frm = interpPath 1 s1 P t :=
  dubins_path_overload_alias 1 P t .frm .frm _

/-- [AF] **frame condition**: the path overload writes the `state` object only. -/
theorem dubins_path_overload_frame (radius : α) (P : Path α) (t : α) (src state q : Ptr) (m : Mem (Pose α)) (h : q ≠ state) :
    (dubinsPathOverload poseView radius P t (.ptr src) state m).get q = m.get q := by
  cases src <;> cases state <;> cases q <;> simp_all [dubinsPathOverload, writeBack, Src.read, poseView, Mem.get, Mem.set]

example (P : Path α) (t : α) (s1 s2 o : Pose α) :
    (dubinsPathOverload poseView 1 P t (.ptr .frm) .frm (callMem s1 s2 o)).get .to = s2 :=
  dubins_path_overload_frame 1 P t .frm .frm .to _ (by decide)

/-- [AF] the in-place variant (no scratch object) is right when the output is a separate object … -/
theorem dubins_inplace_sep_ok (radius : α) (P : Path α) (t : α) (m : Mem (Pose α)) :
    (dubinsPathOverloadInPlace radius P t .out m).get .out = interpPath radius m.frm P t := by
  simp [dubinsPathOverloadInPlace, Mem.get, Mem.set, interpPath]

example (P : Path α) (t : α) (s1 s2 o : Pose α) :
    (dubinsPathOverloadInPlace 2 P t .out (callMem s1 s2 o)).get .out = interpPath 2 s1 P t :=
  dubins_inplace_sep_ok 2 P t _

/-- [AF] **`turn`, any aliasing** (the SE(2) part of the written object is `Owen.turn` of the SE(2) part of the source). -/
theorem turn_into_alias (radius angle : α) (src state : Ptr) (m : Mem (Pose α)) :
    (turnInto poseView src radius angle state m).get state = Owen.turn (m.get src) radius angle := by
  cases src <;> cases state <;> simp [turnInto, poseView, Mem.get, Mem.set, Owen.turn]

example (radius angle : α) (s1 s2 o : Pose α) :
    (turnInto poseView .frm radius angle .frm (callMem s1 s2 o)).get .frm = Owen.turn s1 radius angle :=
  turn_into_alias radius angle .frm .frm _

/-- [AF] **Dubins caching overload, call sequences, any aliasing**: a sequence of calls of
`interpolate(from, to, t, firstTime, path, state)` on one `firstTime` / `path` pair returns, call by call, the states of the
pure `interpCached` — whether the output is a separate object, `from` or `to`, from any cache state and any output content. -/
theorem dubins_cached_seq_alias (rho : α) (sym : Bool) (s1 s2 : Pose α) (al : Alias) (cache : Option (Path α)) (o : Pose α)
    (ts : List α) :
    dubinsCachedSeq rho sym s1 s2 al cache o ts = interpCached rho sym s1 s2 cache ts := by
  induction ts generalizing cache o with
  | nil => cases cache <;> simp [dubinsCachedSeq, interpCached]
  | cons t ts ih =>
    cases cache with
    | some P =>
      simp only [dubinsCachedSeq, dubinsCachedOverload, interpCached, ih]
      congr 2
      cases al <;> exact dubins_path_overload_alias rho P t .frm _ _
    | none =>
      simp only [dubinsCachedSeq, dubinsCachedOverload, interpCached]
      by_cases h1 : 1 ≤ t
      · simp only [h1, if_true, ih]
        cases al <;> simp [copyUnlessSame, Alias.ptr, Mem.get, Mem.set]
      · by_cases h0 : t ≤ 0
        · simp only [h1, h0, if_true, if_false, ih]
          cases al <;> simp [copyUnlessSame, Alias.ptr, Mem.get, Mem.set]
        · simp only [h1, h0, if_false]
          cases hc : choosePath rho sym s1 s2 with
          | path P =>
            simp only [ih]
            congr 2
            cases al <;> exact dubins_path_overload_alias rho P t .frm _ _
          | nopath => rfl
          | unclassified => rfl

example (rho : α) (s1 s2 o : Pose α) (t : α) (h : 1 ≤ t) :
    dubinsCachedSeq rho false s1 s2 .to none o [t] = [some s2] := by
  rw [dubins_cached_seq_alias]; simp [interpCached, h]

end AF

section RS
variable {α : Type} [RS.RSNum α]

/-- [AF] **Reeds-Shepp path overload, any aliasing**. -/
theorem rs_path_overload_alias (rho : α) (p : RS.RSPath α) (t : α) (src state : Ptr) (m : Mem (Pose α)) :
    (rsPathOverload rho p t (.ptr src) state m).get state = RS.rsInterpPath rho (m.get src) p t := by
  cases src <;> cases state <;> simp [rsPathOverload, writeBack, Src.read, poseView, Mem.get, Mem.set, RS.rsInterpPath]

example (p : RS.RSPath α) (t : α) (s1 s2 o : Pose α) :
    (rsPathOverload 1 p t (.ptr .frm) .frm (callMem s1 s2 o)).get .frm = RS.rsInterpPath 1 s1 p t :=
  rs_path_overload_alias 1 p t .frm .frm _

/-- [AF] **Reeds-Shepp caching overload, call sequences, any aliasing**. -/
theorem rs_cached_seq_alias (rho : α) (s1 s2 : Pose α) (al : Alias) (cache : Option (RS.RSPath α)) (o : Pose α) (ts : List α) :
    rsCachedSeq rho s1 s2 al cache o ts = RS.rsInterpCached rho s1 s2 cache ts := by
  induction ts generalizing cache o with
  | nil => cases cache <;> simp [rsCachedSeq, RS.rsInterpCached]
  | cons t ts ih =>
    cases cache with
    | some P =>
      simp only [rsCachedSeq, rsCachedOverload, RS.rsInterpCached, ih]
      congr 2
      cases al <;> exact rs_path_overload_alias rho P t .frm _ _
    | none =>
      simp only [rsCachedSeq, rsCachedOverload, RS.rsInterpCached]
      by_cases h1 : 1 ≤ t
      · simp only [h1, if_true, ih]
        cases al <;> simp [copyUnlessSame, Alias.ptr, Mem.get, Mem.set]
      · by_cases h0 : t ≤ 0
        · simp only [h1, h0, if_true, if_false, ih]
          cases al <;> simp [copyUnlessSame, Alias.ptr, Mem.get, Mem.set]
        · simp only [h1, h0, if_false]
          cases hc : RS.reedsSheppStates rho s1 s2 with
          | some P =>
            simp only [ih]
            congr 2
            cases al <;> exact rs_path_overload_alias rho P t .frm _ _
          | none => rfl

example (rho : α) (s1 s2 o : Pose α) (t : α) (h1 : ¬ 1 ≤ t) (h0 : t ≤ 0) :
    rsCachedSeq rho s1 s2 .frm none o [t] = [some s1] := by
  rw [rs_cached_seq_alias]; simp [RS.rsInterpCached, h1, h0]

end RS

section AF3
variable {α : Type} [DNum α]

/-- [AF] **Owen `interpolate(from, to, t, path, state)`, any aliasing**: low / high / medium altitude, the initial turn written
into `state` and then interpolated from (`(state == to) ? allocState() : state`), `state == from` included. -/
theorem owen_interp_overload_alias (t : α) (p : Owen.OPath α) (al : Alias) (s1 s2 o : Owen.St4 α) :
    (owenInterpOverload t p al.ptr (callMem s1 s2 o)).get al.ptr = Owen.interpWith s1 s2 t p := by
  unfold owenInterpOverload Owen.interpWith
  by_cases h1 : 1 ≤ t
  · cases al <;> simp [h1, copyUnlessSame, Alias.ptr, callMem, Mem.get, Mem.set]
  by_cases h0 : t ≤ 0
  · cases al <;> simp [h1, h0, copyUnlessSame, Alias.ptr, callMem, Mem.get, Mem.set]
  simp only [h1, h0, if_false]
  cases al <;> simp only [Alias.ptr, callMem, reduceCtorEq, ↓reduceIte]
  all_goals
    (repeat' split) <;>
    (simp only [get_set_same, get_set_other, path4_get, turn4_get, turn4_frame, ne_eq, reduceCtorEq, not_false_eq_true, if_false]
     simp [put4, Mem.get, Owen.St4.pose])

example (t : α) (p : Owen.OPath α) (s1 s2 o : Owen.St4 α) :
    (owenInterpOverload t p .frm (callMem s1 s2 o)).frm = Owen.interpWith s1 s2 t p :=
  owen_interp_overload_alias t p .frm s1 s2 o

/-- [AF] **Vana path overload, any aliasing** (`(from == state) ? allocState() : state`). -/
theorem vana_path_overload_alias (p : Vana.VPath α) (t : α) (al : Alias) (s1 s2 o : Vana.St5 α) :
    (vanaPathOverload p t al.ptr (callMem s1 s2 o)).get al.ptr = Vana.interpPathV s1 p t := by
  cases al <;>
    simp [vanaPathOverload, Alias.ptr, callMem, dubinsPathOverload, writeBack, Src.read, st5View, Mem.get, Mem.set, interpPath,
      Vana.interpPathV]

example (p : Vana.VPath α) (t : α) (s1 s2 o : Vana.St5 α) :
    (vanaPathOverload p t .frm (callMem s1 s2 o)).frm = Vana.interpPathV s1 p t :=
  vana_path_overload_alias p t .frm s1 s2 o

/-- [AF] **Vana `interpolate(from, to, t, path, state)`, any aliasing**. -/
theorem vana_interp_overload_alias (p : Vana.VPath α) (t : α) (al : Alias) (s1 s2 o : Vana.St5 α) :
    (vanaInterpOverload t p al.ptr (callMem s1 s2 o)).get al.ptr =
      (if 1 ≤ t then s2 else if t ≤ 0 then s1 else Vana.interpPathV s1 p t) := by
  unfold vanaInterpOverload
  by_cases h1 : 1 ≤ t
  · cases al <;> simp [h1, copyUnlessSame, Alias.ptr, callMem, Mem.get, Mem.set]
  by_cases h0 : t ≤ 0
  · cases al <;> simp [h1, h0, copyUnlessSame, Alias.ptr, callMem, Mem.get, Mem.set]
  simp only [h1, h0, if_false]
  exact vana_path_overload_alias p t al s1 s2 o

example (p : Vana.VPath α) (t : α) (s1 s2 o : Vana.St5 α) (h : 1 ≤ t) :
    (vanaInterpOverload t p .to (callMem s1 s2 o)).to = s2 := by
  have := vana_interp_overload_alias p t .to s1 s2 o
  simpa [h, Alias.ptr, Mem.get] using this

/-- [AF] **VanaOwen `interpolate(from, to, t, path, state)`, any aliasing**. -/
theorem vo_interp_overload_alias (t : α) (p : VanaOwen.VOPath α) (al : Alias) (s1 s2 o : Vana.St5 α) :
    (voInterpOverload t p al.ptr (callMem s1 s2 o)).get al.ptr = VanaOwen.voInterp s1 s2 t p := by
  unfold voInterpOverload VanaOwen.voInterp
  by_cases h1 : 1 ≤ t
  · cases al <;> simp [h1, copyUnlessSame, Alias.ptr, callMem, Mem.get, Mem.set]
  by_cases h0 : t ≤ 0
  · cases al <;> simp [h1, h0, copyUnlessSame, Alias.ptr, callMem, Mem.get, Mem.set]
  simp only [h1, h0, if_false]
  cases al <;> simp only [Alias.ptr, callMem, reduceCtorEq, ↓reduceIte]
  all_goals
    (repeat' split) <;>
    (simp only [get_set_same, get_set_other, path5_get, path5_ext_get, path5_frame, turn5_get, turn5_frame, ne_eq, reduceCtorEq,
       not_false_eq_true, if_false, if_true]
     simp [put5, Mem.get])

example (t : α) (p : VanaOwen.VOPath α) (s1 s2 o : Vana.St5 α) :
    (voInterpOverload t p .frm (callMem s1 s2 o)).frm = VanaOwen.voInterp s1 s2 t p :=
  vo_interp_overload_alias t p .frm s1 s2 o

end AF3

/-! ## the `DUBINS_ZERO` band of the four CSC solvers (the tolerance a seeded change removed) -/
section CSC
variable {α : Type} [DNum α]

/-- the radicand `tmp` (squared length of the straight segment) of the four CSC solvers, as coded -/
def cscTmp (w : Word) (d alpha beta : α) : α :=
  let ca := Num.cos alpha; let sa := Num.sin alpha; let cb := Num.cos beta; let sb := Num.sin beta
  match w with
  | .LSL => 2 + d * d - 2 * (ca * cb + sa * sb - d * (sa - sb))
  | .RSR => 2 + d * d - 2 * (ca * cb + sa * sb - d * (sb - sa))
  | .RSL => d * d - 2 + 2 * (ca * cb + sa * sb - d * (sa + sb))
  | .LSR => -2 + d * d + 2 * (ca * cb + sa * sb + d * (sa + sb))
  | _ => 0

def isCSC : Word → Bool
  | .LSL | .RSR | .RSL | .LSR => true
  | _ => false

/-- [AF] **a CSC word is accepted exactly when `tmp >= DUBINS_ZERO`** (`-1e-7`, not `0`): the statement holds of the `Float` run, so a
radicand of `-1e-16` (a zero-length straight segment after rounding: pure turns, two tangent arcs) is accepted.  With the test
`tmp >= 0` (seeded change C14-s7) the left side is false there; the lock step on `dword` / `path` shows the difference and the
six-word oracle turns it into a `not-minimal` input. -/
theorem csc_accept_iff (m2p : α → α) (w : Word) (hw : isCSC w = true) (d alpha beta : α) :
    (solve m2p w d alpha beta).isSome = true ↔ dzero ≤ cscTmp w d alpha beta := by
  cases w <;> simp [isCSC] at hw <;>
    simp only [solve, dubinsLSL, dubinsRSR, dubinsRSL, dubinsLSR, cscTmp] <;> split <;> simp_all

example (m2p : α → α) (d a b : α) (h : dzero ≤ cscTmp .RSL d a b) : (solve m2p .RSL d a b).isSome = true :=
  (csc_accept_iff m2p .RSL rfl d a b).2 h

/-- [AF] **the straight segment of an accepted CSC word is `sqrt(max(tmp, 0))`** (the clamp), the word is the one asked for and
is not marked reversed. -/
theorem csc_straight_eq (m2p : α → α) (w : Word) (hw : isCSC w = true) (d alpha beta : α) (P : Path α)
    (h : solve m2p w d alpha beta = some P) :
    P.w = w ∧ P.p = Num.sqrt (Num.max (cscTmp w d alpha beta) 0) ∧ P.rev = false := by
  cases w <;> simp [isCSC] at hw <;>
    simp only [solve, dubinsLSL, dubinsRSR, dubinsRSL, dubinsLSR, cscTmp] at h ⊢ <;> split at h <;> simp_all <;>
    (subst h; simp)

example (m2p : α → α) (d a b : α) (P : Path α) (h : solve m2p .LSL d a b = some P) : P.w = .LSL :=
  (csc_straight_eq m2p .LSL rfl d a b P h).1

/-- [AF] **outside its two fudge bands the code's `mod2pi` IS the exact normalisation** (`x - 2π·floor(x / 2π)`).  The reach theorems of
`Props/C14.lean` / `C14W.lean` assume an angle normalisation that is exact modulo 2π at every argument (`Exact m2p`), which the code's
`mod2pi` is not: it sends `(DUBINS_ZERO, 0)` and the top `DUBINS_EPS/2` of `[0, 2π)` to 0.  This is the pointwise link: at every argument
where neither test fires the two agree (and `mod2pi_fudge_bound` bounds the deviation by `DUBINS_EPS/2` where one does). -/
theorem mod2pi_eq_exact_off_fudge (x : α) (h1 : ¬ (x < 0 ∧ dzero < x)) (h2 : ¬ (twopi - mod2piExact x < half * eps)) :
    mod2pi x = mod2piExact x := by
  unfold mod2pi mod2piExact at *
  simp only [h1, if_false]
  simp only [h2, if_false]

example (x : α) (h1 : ¬ (x < 0 ∧ dzero < x)) (h2 : twopi - mod2piExact x < half * eps) : mod2pi x = 0 := by
  unfold mod2pi mod2piExact at *
  simp only [h1, if_false]
  simp only [h2, if_true]

end CSC

/-! ## [EX] the statements discriminate: variants without the scratch object / with a reordered write break exactly when `state == from` -/
section EX
attribute [-instance] Num.instOfNat
open DubinsR

/-- [EX] **the in-place path overload (seeded changes C07-s7 / C14-s6) violates `dubins_path_overload_alias` for `state == from`**:
start at `(1, 0, 0)`, `t = 0`: the object is zeroed before the final translation reads `from->getX()`, the result has `x = 0`
where the curve starts at `x = 1`.  (For a separate output object the variant is right: `dubins_inplace_sep_ok`.) -/
theorem dubins_inplace_breaks_alias :
    ∃ (P : Path ℝ) (s1 s2 o : Pose ℝ),
      (dubinsPathOverloadInPlace 1 P 0 .frm (callMem s1 s2 o)).get .frm ≠ interpPath 1 s1 P 0 := by
  refine ⟨⟨.LSL, 0, 0, 0, false⟩, ⟨1, 0, 0⟩, ⟨0, 0, 0⟩, ⟨0, 0, 0⟩, fun h => ?_⟩
  have hx := congrArg Pose.x h
  simp [dubinsPathOverloadInPlace, callMem, Mem.get, Mem.set, interpPath, Path.len, Path.segList, Word.segs, integ] at hx

example (P : Path ℝ) (s1 s2 o : Pose ℝ) : (dubinsPathOverloadInPlace 1 P 0 .out (callMem s1 s2 o)).get .out = interpPath 1 s1 P 0 :=
  dubins_inplace_sep_ok 1 P 0 _

/-- [EX] **Vana without `(from == state) ? allocState() : state`** (mutant): the vertical profile is written into `from` before the
horizontal word reads it. -/
theorem vana_noscratch_breaks_alias :
    ∃ (p : Vana.VPath ℝ) (s1 s2 o : Vana.St5 ℝ),
      (vanaPathOverloadNoScratch p 0 .frm (callMem s1 s2 o)).get .frm ≠ Vana.interpPathV s1 p 0 := by
  refine ⟨⟨1, 1, ⟨.LSL, 0, 0, 0, false⟩, ⟨.LSL, 0, 0, 0, false⟩, ⟨0, 0, 0⟩⟩, ⟨1, 0, 0, 0, 0⟩, ⟨0, 0, 0, 0, 0⟩, ⟨0, 0, 0, 0, 0⟩, fun h => ?_⟩
  have hx := congrArg Vana.St5.x h
  simp [vanaPathOverloadNoScratch, dubinsPathOverload, writeBack, Src.read, st5View, callMem, Mem.get, Mem.set, Vana.interpPathV,
    interpPath, Path.len, Path.segList, Word.segs, integ] at hx

example (p : Vana.VPath ℝ) (t : ℝ) (s1 s2 o : Vana.St5 ℝ) :
    (vanaPathOverloadNoScratch p t .out (callMem s1 s2 o)).get .out = Vana.interpPathV s1 p t := by
  simp [vanaPathOverloadNoScratch, callMem, dubinsPathOverload, writeBack, Src.read, st5View, Mem.get, Mem.set, interpPath,
    Vana.interpPathV]

/-- [EX] **`turn` writing the yaw before the position** (mutant): with `state == from` the position is computed from the new yaw, a
quarter turn of radius 1 from the origin stays at `x = 0` instead of reaching `x = 1`. -/
theorem turn_yawfirst_breaks_alias :
    ∃ (s1 s2 o : Pose ℝ),
      (turnIntoYawFirst poseView .frm 1 (Real.pi / 2) .frm (callMem s1 s2 o)).get .frm ≠ Owen.turn s1 1 (Real.pi / 2) := by
  refine ⟨⟨0, 0, 0⟩, ⟨0, 0, 0⟩, ⟨0, 0, 0⟩, fun h => ?_⟩
  have hx := congrArg Pose.x h
  have hp : (0 : ℝ) < Real.pi / 2 := by positivity
  simp [turnIntoYawFirst, poseView, callMem, Mem.get, Mem.set, Owen.turn, hp] at hx

example (r a : ℝ) (s1 s2 o : Pose ℝ) : (turnIntoYawFirst poseView .frm r a .out (callMem s1 s2 o)).get .out = Owen.turn s1 r a := by
  simp [turnIntoYawFirst, poseView, callMem, Mem.get, Mem.set, Owen.turn]

/-- [EX] **inside the band `DUBINS_ZERO <= tmp <= 0` the word is returned with a straight segment of length exactly 0** — the
degenerate optimal words (single arc, two tangent arcs) exist in the model whichever way the rounding of `tmp` falls. -/
theorem csc_band_zero_straight (m2p : ℝ → ℝ) (w : Word) (hw : isCSC w = true) (d a b : ℝ)
    (hlo : -(1 / 10 ^ 7 : ℝ) ≤ cscTmp w d a b) (hhi : cscTmp w d a b ≤ 0) :
    ∃ P, solve m2p w d a b = some P ∧ P.p = 0 := by
  have hacc : (solve m2p w d a b).isSome = true := (csc_accept_iff m2p w hw d a b).2 (by simpa using hlo)
  obtain ⟨P, hP⟩ := Option.isSome_iff_exists.1 hacc
  refine ⟨P, hP, ?_⟩
  rw [(csc_straight_eq m2p w hw d a b P hP).2.1]
  simp [max_eq_right hhi]

-- non-vacuous: same position, same heading has `tmp = 0` exactly for LSL
example (m2p : ℝ → ℝ) (a : ℝ) : ∃ P, solve m2p .LSL 0 a a = some P ∧ P.p = 0 := by
  have h0 : cscTmp .LSL (0 : ℝ) a a = 0 := by
    simp only [cscTmp, cos_eq, sin_eq, ofNat_two]
    nlinarith [Real.sin_sq_add_cos_sq a]
  exact csc_band_zero_straight m2p .LSL rfl 0 a a (by rw [h0]; norm_num) (by rw [h0])

end EX

end OmplModel.Props.C14A
