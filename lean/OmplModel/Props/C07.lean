import OmplModel.Proofs.SpaceInterpExamples
import OmplModel.Proofs.SpaceInterpExamplesGeo
import OmplModel.Generated.RwSets
import OmplModel.Proofs.SpaceInterpWeights
import OmplModel.Proofs.SpaceInterpAlias
import OmplModel.Proofs.SpaceInterpFix61
import OmplModel.Proofs.SpaceInterpTree
import OmplModel.Props.C07Car
/-!
C07 — property theorems for `StateSpace::interpolate` (model: `Model/SpaceInterp.lean`).

* [AF] theorems are generic over `[Num α]` (they hold for the `Float` instantiation the driver runs).
* [EX] theorems are over `ℝ` (instance `RealNum.instNumReal`, Proofs/SpaceInterpReal.lean); what they
  leave unverified is exactly IEEE rounding.  `t s u ∈ [0,1]`; states well-typed and in bounds *as
  coded* (`inBounds`, with the ±eps slack of RealVector/Time bounds).

Helper lemmas live in `Proofs/SpaceInterp*.lean` (the concrete spaces/states of the examples and
their side conditions in `Proofs/SpaceInterpExamples.lean`).  Every theorem is followed by
non-vacuity example(s).

Coverage.  Shape: all spaces.  End points / bounds: all spaces; SO(3) components need exactly-unit
quaternions (`unitQuats`; `t = 1` gives `±to`, i.e. `equalStates`), Klein components need `u` in
the exact range `[0, π]` (`kleinRange`; the coded bounds predicate has a ±eps slack and a state with
`u ∈ [-eps, 0)` crosses the seam at t = 0), Klein `t = 1` on the seam branch needs `0 < to.u < π`.
Re-parameterisation: rv, so2, time, torus, sphere, compounds, wrapper (`interp_reparam`); SO(3)
leaves too when both legs used are above the clamp threshold of `arcLength` (`interp_reparam_so3`,
section 8); Mobius everywhere incl. across the seam (`mobius_interp_reparam`, `interp_reparam_mobius`);
Klein only away from the seam (cylinder branch, section 9); NOT discrete.
Proportional distance: the `geodesic false` spaces (rv, so2, time, torus, weighted compounds,
wrapper); with SO(3) leaves (`geodesic true`) only outside the clamp band of the coded distance
(`interp_dist_prop_so3_partial`; inside the band it FAILS as coded: `so3_interp_dist_prop_fails`).
Klein re-parameterisation across the seam: compared against the implementation only.
-/
open scoped OmplModel.SpaceInterp.RealNum
attribute [-instance] OmplModel.Num.instOfNat

namespace OmplModel.Props.C07
open OmplModel OmplModel.Space OmplModel.SpaceInterp OmplModel.SpaceInterp.Ex Real

/-! ## 0. shape ([AF]: any `Num`, any SO(2) leaf `f`, any Klein wrap `wr`) -/

/-- [AF] interpolation returns a state of the space's shape — all spaces -/
theorem interp_wellTyped {α : Type} [Num α] (f : α → α → α → α) (wr : α → α) (sp : Space α) (a b : St α) (t : α)
    (ha : wellTyped sp a = true) (hb : wellTyped sp b = true) :
    wellTyped sp (interpolateW f wr sp a b t) = true :=
  interpolateW_wellTyped f wr sp a b t ha hb

example (t : ℝ) : wellTyped se2 (interpolate se2 se2A se2B t) = true :=
  interp_wellTyped _ _ _ _ _ _ se2A_wt se2B_wt
example (t : ℝ) : wellTyped nested (interpolateOld nested nestedA nestedB t) = true :=
  interp_wellTyped _ _ _ _ _ _ nestedA_wt nestedB_wt

/-- [AF] Torus does not override interpolate: it is its compound [so2, so2] -/
theorem interp_torus_expand {α : Type} [Num α] (f : α → α → α → α) (wr : α → α) (R r : α) (a b : St α) (t : α)
    (ha : wellTyped (.torus R r) a = true) (hb : wellTyped (.torus R r) b = true) :
    interpolateW f wr (.torus R r) a b t = interpolateW f wr (expand (.torus R r)) a b t :=
  interpolateW_torus_expand f wr R r a b t ha hb

example (t : ℝ) :
    interpolate (.torus 2 1) (.ccons (.so2 0) (.ccons (.so2 1) .cnil))
        (.ccons (.so2 1) (.ccons (.so2 0) .cnil)) t
      = interpolate (expand (.torus 2 1)) (.ccons (.so2 0) (.ccons (.so2 1) .cnil))
        (.ccons (.so2 1) (.ccons (.so2 0) .cnil)) t :=
  interp_torus_expand _ _ _ _ _ _ _ (by simp [wellTyped]) (by simp [wellTyped])

/-- [AF] Sphere does not override interpolate: it is its compound [so2, rv1] -/
theorem interp_sphere_expand {α : Type} [Num α] (f : α → α → α → α) (wr : α → α) (r : α) (a b : St α) (t : α)
    (ha : wellTyped (.sphere r) a = true) (hb : wellTyped (.sphere r) b = true) :
    interpolateW f wr (.sphere r) a b t = interpolateW f wr (expand (.sphere r)) a b t :=
  interpolateW_sphere_expand f wr r a b t ha hb

example (t : ℝ) :
    interpolate (.sphere 1) (.ccons (.so2 0) (.ccons (.rv [1]) .cnil))
        (.ccons (.so2 1) (.ccons (.rv [2]) .cnil)) t
      = interpolate (expand (.sphere 1)) (.ccons (.so2 0) (.ccons (.rv [1]) .cnil))
        (.ccons (.so2 1) (.ccons (.rv [2]) .cnil)) t :=
  interp_sphere_expand _ _ _ _ _ _ (by simp [wellTyped]) (by simp [wellTyped])

/-! ## 1. F4: the SO(2) code before the fix leaves the bounds -/

/-- [EX] `so2InterpOld` (wrap test `v > pi`) maps two in-bounds angles to the excluded end point `pi` -/
theorem so2_interp_old_fails :
    ∃ a b : ℝ, so2InB a = true ∧ so2InB b = true ∧ so2InB (so2InterpOld a b 1) = false := by
  refine ⟨π / 2, -π, ?_, ?_, ?_⟩
  · rw [so2InB_iff]; constructor <;> linarith [pi_pos]
  · rw [so2InB_iff]; constructor <;> linarith [pi_pos]
  · rw [so2InterpOld_witness, Bool.eq_false_iff, Ne, so2InB_iff]
    intro h; exact lt_irrefl _ h.2

/-- [EX] the fixed code at the same witness returns `to` -/
theorem so2_interp_fixed_at_witness : so2Interp (π / 2) (-π) 1 = -π := so2Interp_witness

example : so2InB (so2Interp (π / 2) (-π) 1) = true := by
  rw [so2_interp_fixed_at_witness, so2InB_iff]; constructor <;> linarith [pi_pos]

/-! ## 2. SO(2) leaf -/

/-- [EX] SO(2): t = 0 gives `from` exactly -/
theorem so2_interp_zero (a b : ℝ) (ha : so2InB a = true) : so2Interp a b 0 = a := by
  rw [so2InB_iff] at ha; exact so2Interp_zero ha.1 ha.2

/-- [EX] SO(2): t = 1 gives `to` exactly (both branches) -/
theorem so2_interp_one (a b : ℝ) (hb : so2InB b = true) : so2Interp a b 1 = b := by
  rw [so2InB_iff] at hb; exact so2Interp_one hb.1 hb.2

/-- [EX] SO(2): the result satisfies the bounds `[-pi, pi)` -/
theorem so2_interp_inbounds (a b t : ℝ) (ha : so2InB a = true) (hb : so2InB b = true)
    (ht0 : 0 ≤ t) (ht1 : t ≤ 1) : so2InB (so2Interp a b t) = true := by
  rw [so2InB_iff] at *; exact so2Interp_inB ha.1 ha.2 hb.1 hb.2 ht0 ht1

/-- [EX] SO(2): re-parameterisation, exact -/
theorem so2_interp_reparam (a b s u : ℝ) (ha : so2InB a = true) (hb : so2InB b = true)
    (hs0 : 0 ≤ s) (hs1 : s ≤ 1) (hu0 : 0 ≤ u) (hu1 : u ≤ 1) :
    so2Interp (so2Interp a b s) b u = so2Interp a b (s + (1 - s) * u) := by
  rw [so2InB_iff] at *; exact so2Interp_reparam ha.1 ha.2 hb.1 hb.2 hs0 hs1 hu0 hu1

/-- [EX] SO(2): the point at parameter t is at distance `t * d(from, to)` from `from` -/
theorem so2_interp_dist_prop (a b t : ℝ) (ha : so2InB a = true) (hb : so2InB b = true)
    (ht0 : 0 ≤ t) (ht1 : t ≤ 1) : so2Dist a (so2Interp a b t) = t * so2Dist a b := by
  rw [so2InB_iff] at *; exact so2Interp_dist_prop ha.1 ha.2 hb.1 hb.2 ht0 ht1

-- non-vacuity: the long-way pair 3, -3 (|diff| = 6 > pi), `Ex.three_inB`
example : so2Interp (3 : ℝ) (-3) 0 = 3 := so2_interp_zero _ _ three_inB.1
example : so2Interp (3 : ℝ) (-3) 1 = -3 := so2_interp_one _ _ three_inB.2
example : so2InB (so2Interp (3 : ℝ) (-3) (1 / 2)) = true :=
  so2_interp_inbounds _ _ _ three_inB.1 three_inB.2 (by norm_num) (by norm_num)
example : so2Interp (so2Interp (3 : ℝ) (-3) (1 / 2)) (-3) (1 / 2)
    = so2Interp 3 (-3) (1 / 2 + (1 - 1 / 2) * (1 / 2)) :=
  so2_interp_reparam _ _ _ _ three_inB.1 three_inB.2 (by norm_num) (by norm_num) (by norm_num) (by norm_num)
example : so2Dist (3 : ℝ) (so2Interp 3 (-3) (1 / 3)) = 1 / 3 * so2Dist 3 (-3) :=
  so2_interp_dist_prop _ _ _ three_inB.1 three_inB.2 (by norm_num) (by norm_num)

/-! ## 3. R^n / time leaf -/

/-- [EX] `from + (to - from) * 0 = from` -/
theorem lerp_zero (a b : ℝ) : lerp a b 0 = a := SpaceInterp.lerp_zero a b
/-- [EX] `from + (to - from) * 1 = to` -/
theorem lerp_one (a b : ℝ) : lerp a b 1 = b := SpaceInterp.lerp_one a b
/-- [EX] re-parameterisation of one coordinate -/
theorem lerp_reparam (a b s u : ℝ) : lerp (lerp a b s) b u = lerp a b (s + (1 - s) * u) :=
  SpaceInterp.lerp_reparam a b s u

example : lerp (1 : ℝ) 3 0 = 1 := lerp_zero _ _
example : lerp (1 : ℝ) 3 1 = 3 := lerp_one _ _
example : lerp (lerp (1 : ℝ) 3 (1 / 2)) 3 (1 / 2) = lerp 1 3 (1 / 2 + (1 - 1 / 2) * (1 / 2)) :=
  lerp_reparam _ _ _ _

/-- [AF] a coordinate that is equal in `from` and `to` stays exactly there, for ANY number type in which
`a - a = z`, `z * t = z`, `a + z = a` hold for these operands — in IEEE double: `z = +0` for finite `a`,
`0 * t = 0` for finite `t ≥ 0`, `a + 0 = a` — so it holds of the `Float` instantiation the driver runs (the
three IEEE facts are executed by the correspondence and demanded of the implementation by the
`fixed-coordinate` clause of the oracle; Lean's kernel cannot evaluate `Float`).  A reformulation such as
`(1-t)*from + t*to` does not have this property: it moves a coordinate sitting on a wall of the box. -/
theorem lerp_fixed_of_ieee_laws {α : Type} [Num α] (a t z : α)
    (hsub : a - a = z) (hmul : z * t = z) (hadd : a + z = a) : lerp a a t = a := by
  simp only [lerp, hsub, hmul, hadd]

example (t : ℝ) : lerp (5 : ℝ) 5 t = 5 :=
  lerp_fixed_of_ieee_laws 5 t 0 (by norm_num) (by norm_num) (by norm_num)

/-- [EX] R^n: `from[i] = to[i]` ⇒ `interpolate(from,to,t)[i] = from[i]` for every `t` (motions along a
wall of the box, coincident states) -/
theorem rv_interpolate_fixed_coordinate (xs ys : List ℝ) (t : ℝ) (i : Nat)
    (hlen : xs.length = ys.length) (h : xs[i]? = ys[i]?) : (rvInterp xs ys t)[i]? = xs[i]? := by
  induction xs generalizing ys i with
  | nil => cases ys <;> simp [rvInterp]
  | cons x xs ih =>
    cases ys with
    | nil => simp at hlen
    | cons y ys =>
      cases i with
      | zero =>
        simp only [List.getElem?_cons_zero, Option.some.injEq] at h
        simp only [rvInterp, List.getElem?_cons_zero, Option.some.injEq, h, SpaceInterp.lerp_eq]
        ring
      | succ i =>
        simp only [List.getElem?_cons_succ] at h
        simp only [rvInterp, List.getElem?_cons_succ]
        exact ih ys i (by simpa using hlen) h

example (t : ℝ) : (rvInterp [5, -3] [5, 4] t)[0]? = some (5 : ℝ) :=
  rv_interpolate_fixed_coordinate [5, -3] [5, 4] t 0 rfl rfl

/-- [EX] R^n: the as-coded bounds predicate (±eps slack) is convex, for any bounds vectors -/
theorem rv_inbounds_convex (xs ys lo hi : List ℝ) (t : ℝ) (hx : rvInB xs lo hi = true)
    (hy : rvInB ys lo hi = true) (ht0 : 0 ≤ t) (ht1 : t ≤ 1) :
    rvInB (rvInterp xs ys t) lo hi = true := rvInB_interp hx hy ht0 ht1

example : rvInB (rvInterp [0, 1] [1, 0] (1 / 3)) [0, 0] [1, (1 : ℝ)] = true :=
  rv_inbounds_convex _ _ _ _ _ (by simp [rvInB]; norm_num) (by simp [rvInB]; norm_num)
    (by norm_num) (by norm_num)

/-- [EX] R^n: Euclidean distance from `from` is proportional to t (t ≥ 0) -/
theorem rv_dist_prop (xs ys : List ℝ) (t : ℝ) (ht0 : 0 ≤ t) :
    Real.sqrt (sqSum xs (rvInterp xs ys t)) = t * Real.sqrt (sqSum xs ys) :=
  sqrt_sqSum_interp xs ys ht0

example : Real.sqrt (sqSum [0, 1] (rvInterp [0, 1] [1, 0] (1 / 3)))
    = 1 / 3 * Real.sqrt (sqSum [0, 1] [1, (0 : ℝ)]) := rv_dist_prop _ _ _ (by norm_num)

/-! ## 4. all spaces (arbitrarily nested compounds), by induction over `Space ℝ`

Side conditions (Bool predicates on the space, `Proofs/SpaceInterpCompound*.lean`):
`noKlein` — no Klein bottle anywhere inside; `noSO3Klein` — no SO(3) and no Klein bottle;
`reparamOk` — additionally no discrete and no Mobius; `geodesic false` (model) — R^n, SO(2), time,
torus and compounds/wrappers of these.  `unitQuats sp a` (a Prop): every SO(3) component of `a` is an
exactly-unit quaternion (section 6). -/

/-- [EX] t = 0 returns `from` exactly.  Covers rv, so2, so3 (any quaternions), time, disc, compound
(nested), torus, sphere, mobius, wrap; excludes klein only. -/
theorem interp_zero (sp : Space ℝ) (a b : St ℝ) (hsp : noKlein sp = true)
    (hwa : wellTyped sp a = true) (hwb : wellTyped sp b = true) (hba : inBounds sp a = true) :
    interpolate sp a b 0 = a := interpolate_zero_so3 sp a b hsp hwa hwb hba

example : interpolate se2 se2A se2B 0 = se2A := interp_zero _ _ _ se2_noKlein se2A_wt se2B_wt se2A_inB
example : interpolate nested nestedA nestedB 0 = nestedA :=
  interp_zero _ _ _ nested_noKlein nestedA_wt nestedB_wt nestedA_inB
example : interpolate mix mixA mixB 0 = mixA := interp_zero _ _ _ mix_noKlein mixA_wt mixB_wt mixA_inB
example : interpolate se3 se3A se3B 0 = se3A := interp_zero _ _ _ se3_noKlein se3A_wt se3B_wt se3A_inB

/-- [EX] t = 1 returns `to` exactly.  Covers rv, so2 (both branches), time, disc, compound (nested),
torus, sphere, mobius, wrap; excludes so3 (only ±to) and klein. -/
theorem interp_one (sp : Space ℝ) (a b : St ℝ) (hsp : noSO3Klein sp = true)
    (hwa : wellTyped sp a = true) (hwb : wellTyped sp b = true) (hbb : inBounds sp b = true) :
    interpolate sp a b 1 = b := interpolate_one sp a b hsp hwa hwb hbb

example : interpolate se2 se2A se2B 1 = se2B := interp_one _ _ _ se2_ok.1 se2A_wt se2B_wt se2B_inB
example : interpolate nested nestedA nestedB 1 = nestedB :=
  interp_one _ _ _ nested_ok.1 nestedA_wt nestedB_wt nestedB_inB
example : interpolate mix mixA mixB 1 = mixB := interp_one _ _ _ mix_ok mixA_wt mixB_wt mixB_inB

/-- [EX] the result satisfies the bounds as coded.  Covers rv, so2, time (bounded and unbounded), disc,
compound (nested), torus, sphere, mobius, wrap; excludes so3 and klein. -/
theorem interp_inbounds (sp : Space ℝ) (a b : St ℝ) (t : ℝ) (hsp : noSO3Klein sp = true)
    (hwa : wellTyped sp a = true) (hwb : wellTyped sp b = true)
    (hba : inBounds sp a = true) (hbb : inBounds sp b = true) (ht0 : 0 ≤ t) (ht1 : t ≤ 1) :
    inBounds sp (interpolate sp a b t) = true :=
  interpolate_inBounds sp a b t hsp hwa hwb hba hbb ht0 ht1

example : inBounds se2 (interpolate se2 se2A se2B (1 / 3)) = true :=
  interp_inbounds _ _ _ _ se2_ok.1 se2A_wt se2B_wt se2A_inB se2B_inB (by norm_num) (by norm_num)
example : inBounds nested (interpolate nested nestedA nestedB (1 / 3)) = true :=
  interp_inbounds _ _ _ _ nested_ok.1 nestedA_wt nestedB_wt nestedA_inB nestedB_inB
    (by norm_num) (by norm_num)
example : inBounds mix (interpolate mix mixA mixB (1 / 3)) = true :=
  interp_inbounds _ _ _ _ mix_ok mixA_wt mixB_wt mixA_inB mixB_inB (by norm_num) (by norm_num)

/-- [EX] re-parameterisation, exact: going on from the point at `s` by the fraction `u` of the rest is
the point at `s + (1 - s) u`.  Covers rv, so2, time, torus, sphere, compounds (nested), wrap;
excludes disc, so3, mobius, klein. -/
theorem interp_reparam (sp : Space ℝ) (a b : St ℝ) (s u : ℝ) (hsp : reparamOk sp = true)
    (hwa : wellTyped sp a = true) (hwb : wellTyped sp b = true)
    (hba : inBounds sp a = true) (hbb : inBounds sp b = true)
    (hs0 : 0 ≤ s) (hs1 : s ≤ 1) (hu0 : 0 ≤ u) (hu1 : u ≤ 1) :
    interpolate sp (interpolate sp a b s) b u = interpolate sp a b (s + (1 - s) * u) :=
  interpolate_reparam sp a b s u hsp hwa hwb hba hbb hs0 hs1 hu0 hu1

example : interpolate se2 (interpolate se2 se2A se2B (1 / 2)) se2B (1 / 3)
    = interpolate se2 se2A se2B (1 / 2 + (1 - 1 / 2) * (1 / 3)) :=
  interp_reparam _ _ _ _ _ se2_ok.2.1 se2A_wt se2B_wt se2A_inB se2B_inB
    (by norm_num) (by norm_num) (by norm_num) (by norm_num)
example : interpolate nested (interpolate nested nestedA nestedB (1 / 2)) nestedB (1 / 3)
    = interpolate nested nestedA nestedB (1 / 2 + (1 - 1 / 2) * (1 / 3)) :=
  interp_reparam _ _ _ _ _ nested_ok.2.1 nestedA_wt nestedB_wt nestedA_inB nestedB_inB
    (by norm_num) (by norm_num) (by norm_num) (by norm_num)

/-- [EX] proportional distance: the point at `t` is at distance `t * d(from, to)` from `from`
(`dist` = the model's real-arithmetic-shaped distance; no sign condition on compound weights).
Covers rv, so2, time, torus, weighted compounds (nested), wrap; excludes so3 and the non-geodesic
spaces (disc, mobius, klein, sphere). -/
theorem interp_dist_prop (sp : Space ℝ) (a b : St ℝ) (t : ℝ) (hsp : geodesic false sp = true)
    (hwa : wellTyped sp a = true) (hwb : wellTyped sp b = true)
    (hba : inBounds sp a = true) (hbb : inBounds sp b = true) (ht0 : 0 ≤ t) (ht1 : t ≤ 1) :
    dist sp a (interpolate sp a b t) = t * dist sp a b :=
  interpolate_dist_prop sp a b t hsp hwa hwb hba hbb ht0 ht1

example : dist se2 se2A (interpolate se2 se2A se2B (1 / 3)) = 1 / 3 * dist se2 se2A se2B :=
  interp_dist_prop _ _ _ _ se2_ok.2.2 se2A_wt se2B_wt se2A_inB se2B_inB (by norm_num) (by norm_num)
example : dist nested nestedA (interpolate nested nestedA nestedB (1 / 3))
    = 1 / 3 * dist nested nestedA nestedB :=
  interp_dist_prop _ _ _ _ nested_ok.2.2 nestedA_wt nestedB_wt nestedA_inB nestedB_inB
    (by norm_num) (by norm_num)

/-! ## 6. SO(3) (slerp as coded), exactly-unit quaternions

The bounds predicate `so3InB` tolerates a norm error of 1e-9; the theorems below assume norm² = 1
exactly (`unitQuats`), which is what real-arithmetic slerp preserves.  Proportional distance does
not hold for SO(3) *as coded* (`arcLength` clamps to 0 above `1 - 1e-9`), so `interp_dist_prop`
excludes it; see section 8 for the distance outside the clamp band, the failing witness, and
re-parameterisation. -/

/-- [EX] SO(3): t = 0 returns `from` exactly (both branches; any quaternions) -/
theorem so3_interp_zero (x1 y1 z1 w1 x2 y2 z2 w2 : ℝ) :
    so3Interp x1 y1 z1 w1 x2 y2 z2 w2 0 = .so3 x1 y1 z1 w1 :=
  so3Interp_zero x1 y1 z1 w1 x2 y2 z2 w2

example : so3Interp (0 : ℝ) 0 0 1 1 0 0 0 0 = .so3 0 0 0 1 := so3_interp_zero _ _ _ _ _ _ _ _

/-- [EX] SO(3): the result of interpolating two unit quaternions is a unit quaternion (any t) -/
theorem so3_interp_unit (x1 y1 z1 w1 x2 y2 z2 w2 t : ℝ)
    (h1 : x1 * x1 + y1 * y1 + z1 * z1 + w1 * w1 = 1)
    (h2 : x2 * x2 + y2 * y2 + z2 * z2 + w2 * w2 = 1) :
    ∃ x y z w, so3Interp x1 y1 z1 w1 x2 y2 z2 w2 t = .so3 x y z w ∧
      x * x + y * y + z * z + w * w = 1 := so3Interp_unit t h1 h2

-- the pair is orthogonal: theta = pi/2, the slerp branch (`Ex.se3_slerp_branch`)
example : ∃ x y z w, so3Interp (0 : ℝ) 0 0 1 1 0 0 0 (1 / 3) = .so3 x y z w ∧
    x * x + y * y + z * z + w * w = 1 := so3_interp_unit _ _ _ _ _ _ _ _ _ (by norm_num) (by norm_num)
example : dblEps < arcLength (0 : ℝ) 0 0 1 1 0 0 0 := se3_slerp_branch

/-- [EX] SO(3): the result satisfies the bounds as coded, for unit inputs -/
theorem so3_interp_inbounds (x1 y1 z1 w1 x2 y2 z2 w2 t : ℝ)
    (h1 : x1 * x1 + y1 * y1 + z1 * z1 + w1 * w1 = 1)
    (h2 : x2 * x2 + y2 * y2 + z2 * z2 + w2 * w2 = 1) :
    inBounds .so3 (so3Interp x1 y1 z1 w1 x2 y2 z2 w2 t) = true := so3Interp_inB t h1 h2

example : inBounds .so3 (so3Interp (0 : ℝ) 0 0 1 1 0 0 0 (1 / 3)) = true :=
  so3_interp_inbounds _ _ _ _ _ _ _ _ _ (by norm_num) (by norm_num)

/-- [EX] SO(3): t = 1 returns `to` or `-to` (the same rotation) or, in the copy branch, a state at
coded distance 0: `equalStates` holds, for unit `to` -/
theorem so3_interp_one (x1 y1 z1 w1 x2 y2 z2 w2 : ℝ)
    (h2 : x2 * x2 + y2 * y2 + z2 * z2 + w2 * w2 = 1) :
    eqStates .so3 (so3Interp x1 y1 z1 w1 x2 y2 z2 w2 1) (.so3 x2 y2 z2 w2) = true := so3Interp_one h2

example : eqStates .so3 (so3Interp (0 : ℝ) 0 0 1 1 0 0 0 1) (.so3 1 0 0 0) = true :=
  so3_interp_one _ _ _ _ _ _ _ _ (by norm_num)

/-- [EX] bounds, all spaces including SO(3) components with exactly-unit quaternions; excludes klein only -/
theorem interp_inbounds_unit (sp : Space ℝ) (a b : St ℝ) (t : ℝ) (hsp : noKlein sp = true)
    (hwa : wellTyped sp a = true) (hwb : wellTyped sp b = true)
    (hba : inBounds sp a = true) (hbb : inBounds sp b = true)
    (hua : unitQuats sp a) (hub : unitQuats sp b) (ht0 : 0 ≤ t) (ht1 : t ≤ 1) :
    inBounds sp (interpolate sp a b t) = true :=
  interpolate_inBounds_so3 sp a b t hsp hwa hwb hba hbb hua hub ht0 ht1

example : inBounds se3 (interpolate se3 se3A se3B (1 / 3)) = true :=
  interp_inbounds_unit _ _ _ _ se3_noKlein se3A_wt se3B_wt se3A_inB se3B_inB se3A_unit se3B_unit
    (by norm_num) (by norm_num)

/-- [EX] t = 1 gives a state equal to `to` as coded (`equalStates`), all spaces including SO(3)
components (where the result is `±to`) with exactly-unit `to` quaternions; excludes klein only -/
theorem interp_one_eq (sp : Space ℝ) (a b : St ℝ) (hsp : noKlein sp = true)
    (hwa : wellTyped sp a = true) (hwb : wellTyped sp b = true) (hbb : inBounds sp b = true)
    (hub : unitQuats sp b) : eqStates sp (interpolate sp a b 1) b = true :=
  interpolate_one_eq sp a b hsp hwa hwb hbb hub

example : eqStates se3 (interpolate se3 se3A se3B 1) se3B = true :=
  interp_one_eq _ _ _ se3_noKlein se3A_wt se3B_wt se3B_inB se3B_unit

/-! ## 7. Klein bottle (fixed wrap), `u` in the exact range `[0, π]` -/

/-- [EX] Klein: the result has `u ∈ [0, π]` and `v ∈ [-π, π)` (so it satisfies the coded bounds and
again has `u` in the exact range), both branches -/
theorem klein_interp_inrange (u1 v1 u2 v2 t : ℝ) (hu1 : 0 ≤ u1 ∧ u1 ≤ π) (hu2 : 0 ≤ u2 ∧ u2 ≤ π)
    (hv1 : so2InB v1 = true) (hv2 : so2InB v2 = true) (ht0 : 0 ≤ t) (ht1 : t ≤ 1) :
    (0 ≤ (kleinInterp so2Interp so2Wrap u1 v1 u2 v2 t).1 ∧
      (kleinInterp so2Interp so2Wrap u1 v1 u2 v2 t).1 ≤ π) ∧
    so2InB (kleinInterp so2Interp so2Wrap u1 v1 u2 v2 t).2 = true := by
  rw [so2InB_iff] at *
  exact kleinInterp_inB hu1.1 hu1.2 hu2.1 hu2.2 hv1.1 hv1.2 hv2.1 hv2.2 ht0 ht1

example : (0 ≤ (kleinInterp so2Interp so2Wrap 0 3 3 (-3) (1 / 3 : ℝ)).1 ∧
      (kleinInterp so2Interp so2Wrap 0 3 3 (-3) (1 / 3 : ℝ)).1 ≤ π) ∧
    so2InB (kleinInterp so2Interp so2Wrap 0 3 3 (-3) (1 / 3 : ℝ)).2 = true :=
  klein_interp_inrange _ _ _ _ _ ⟨le_refl _, pi_pos.le⟩ ⟨by norm_num, pi_gt_three.le⟩
    three_inB.1 three_inB.2 (by norm_num) (by norm_num)

/-- [EX] Klein: t = 0 returns `from` exactly -/
theorem klein_interp_zero (u1 v1 u2 v2 : ℝ) (hu1 : 0 ≤ u1 ∧ u1 ≤ π) (hv1 : so2InB v1 = true) :
    kleinInterp so2Interp so2Wrap u1 v1 u2 v2 0 = (u1, v1) := by
  rw [so2InB_iff] at hv1; exact kleinInterp_zero hu1.1 hu1.2 hv1.1 hv1.2

example : kleinInterp so2Interp so2Wrap 0 3 3 (-3) (0 : ℝ) = (0, 3) :=
  klein_interp_zero _ _ _ _ ⟨le_refl _, pi_pos.le⟩ three_inB.1

/-- [EX] Klein: t = 1 returns `to` exactly when `0 < to.u < π` (for `to.u ∈ {0, π}` the seam branch
returns the other representative `(π - u, mirrored v)` of the same point) -/
theorem klein_interp_one (u1 v1 u2 v2 : ℝ) (hu2 : 0 < u2 ∧ u2 < π) (hv2 : so2InB v2 = true) :
    kleinInterp so2Interp so2Wrap u1 v1 u2 v2 1 = (u2, v2) := by
  rw [so2InB_iff] at hv2; exact kleinInterp_one hu2.1 hu2.2 hv2.1 hv2.2

example : kleinInterp so2Interp so2Wrap 0 3 3 (-3) (1 : ℝ) = (3, -3) :=
  klein_interp_one _ _ _ _ ⟨by norm_num, pi_gt_three⟩ three_inB.2

/-- [EX] bounds for EVERY space of the fixed tree (arbitrarily nested): SO(3) components exactly unit,
Klein components with `u ∈ [0, π]` -/
theorem interp_inbounds_all (sp : Space ℝ) (a b : St ℝ) (t : ℝ)
    (hwa : wellTyped sp a = true) (hwb : wellTyped sp b = true)
    (hba : inBounds sp a = true) (hbb : inBounds sp b = true)
    (hua : unitQuats sp a) (hub : unitQuats sp b) (hka : kleinRange sp a) (hkb : kleinRange sp b)
    (ht0 : 0 ≤ t) (ht1 : t ≤ 1) :
    inBounds sp (interpolate sp a b t) = true :=
  interpolate_inBounds_all sp a b t hwa hwb hba hbb hua hub hka hkb ht0 ht1

example : inBounds allSp (interpolate allSp allA allB (1 / 3)) = true :=
  interp_inbounds_all _ _ _ _ allA_wt allB_wt allA_inB allB_inB allA_unit allB_unit
    allA_klein allB_klein (by norm_num) (by norm_num)

/-! ## 8. SO(3): geodesic facts of the slerp branch (exactly-unit quaternions)

`dq := quatDot from to`, `e := 1e-9` (`maxQuatErr`), `θ := arccos |dq|`.  The slerp branch is taken iff
`|dq| ≤ 1 - e`; otherwise `arcLength = 0` and the code copies `from`. -/

/-- [EX] SO(3), slerp branch: `⟨from, result⟩ = cos(t θ)`, hence the UNCLAMPED arc length
`arccos |⟨from, result⟩|` is exactly `t θ`.  (Only `from` needs to be unit.) -/
theorem so3_interp_dist_prop_unclamped (x1 y1 z1 w1 x2 y2 z2 w2 t : ℝ)
    (h1 : x1 * x1 + y1 * y1 + z1 * z1 + w1 * w1 = 1)
    (hd : |quatDot x1 y1 z1 w1 x2 y2 z2 w2| ≤ 1 - 1 / 10 ^ 9) (ht0 : 0 ≤ t) (ht1 : t ≤ 1) :
    ∃ x y z w, so3Interp x1 y1 z1 w1 x2 y2 z2 w2 t = .so3 x y z w ∧
      quatDot x1 y1 z1 w1 x y z w = Real.cos (t * Real.arccos |quatDot x1 y1 z1 w1 x2 y2 z2 w2|) ∧
      Real.arccos |quatDot x1 y1 z1 w1 x y z w|
        = t * Real.arccos |quatDot x1 y1 z1 w1 x2 y2 z2 w2| := by
  have h := arcLength_big_of_le hd
  obtain ⟨x, y, z, w, e, ha⟩ := so3Interp_arc_unclamped h1 h ht0 ht1
  obtain ⟨x', y', z', w', e', hq⟩ := quatDot_from_slerp t h1 h
  rw [e] at e'; cases e'
  exact ⟨x, y, z, w, e, by rw [hq, (arcLength_big h).2], ha⟩

example : ∃ x y z w, so3Interp (0 : ℝ) 0 0 1 1 0 0 0 (2 / 3) = .so3 x y z w ∧
    quatDot 0 0 0 1 x y z w = Real.cos (2 / 3 * Real.arccos |quatDot (0 : ℝ) 0 0 1 1 0 0 0|) ∧
    Real.arccos |quatDot 0 0 0 1 x y z w| = 2 / 3 * Real.arccos |quatDot (0 : ℝ) 0 0 1 1 0 0 0| :=
  so3_interp_dist_prop_unclamped _ _ _ _ _ _ _ _ _ (by norm_num) orth_dot_le (by norm_num) (by norm_num)

/-- [EX] SO(3), CODED distance (`arcLength`, clamped to 0 above `1 - e`): proportional to t outside
the clamp band.  `_partial`: the full clause "dist(from, interpolate t) = t dist(from, to) for all
t ∈ [0,1]" is FALSE as coded (see `so3_interp_dist_prop_fails`); the excluded set is exactly
`hband` failing, i.e. slerp branch and `cos(t θ) > 1 - e`.  The copy branch (`|dq| > 1 - e`) is
covered (both sides 0). -/
theorem so3_interp_dist_prop_partial (x1 y1 z1 w1 x2 y2 z2 w2 t : ℝ)
    (h1 : x1 * x1 + y1 * y1 + z1 * z1 + w1 * w1 = 1) (ht0 : 0 ≤ t) (ht1 : t ≤ 1)
    (hband : |quatDot x1 y1 z1 w1 x2 y2 z2 w2| ≤ 1 - 1 / 10 ^ 9 →
      Real.cos (t * Real.arccos |quatDot x1 y1 z1 w1 x2 y2 z2 w2|) ≤ 1 - 1 / 10 ^ 9) :
    dist .so3 (.so3 x1 y1 z1 w1) (interpolate .so3 (.so3 x1 y1 z1 w1) (.so3 x2 y2 z2 w2) t)
      = t * dist .so3 (.so3 x1 y1 z1 w1) (.so3 x2 y2 z2 w2) :=
  so3Interp_dist_band h1 ht0 ht1 (band_hyp_of (fun θ => t * θ) hband)

example : dist .so3 (.so3 0 0 0 1) (interpolate .so3 (.so3 (0 : ℝ) 0 0 1) (.so3 1 0 0 0) (2 / 3))
    = 2 / 3 * dist .so3 (.so3 (0 : ℝ) 0 0 1) (.so3 1 0 0 0) :=
  so3_interp_dist_prop_partial _ _ _ _ _ _ _ _ _ (by norm_num) (by norm_num) (by norm_num)
    (fun _ => orth_band)

/-- [EX] F5: inside the clamp band proportional distance FAILS as coded.  Witness: from = (0,0,0,1),
to = (1,0,0,0) (dq = 0, θ = π/2), t = 1e-6: `cos(t π/2) > 1 - 1e-9`, so the coded distance of the
result is 0, but `t * dist = t π/2 > 0`. -/
theorem so3_interp_dist_prop_fails :
    ∃ x1 y1 z1 w1 x2 y2 z2 w2 t : ℝ,
      x1 * x1 + y1 * y1 + z1 * z1 + w1 * w1 = 1 ∧ x2 * x2 + y2 * y2 + z2 * z2 + w2 * w2 = 1 ∧
      0 ≤ t ∧ t ≤ 1 ∧
      dist .so3 (.so3 x1 y1 z1 w1) (interpolate .so3 (.so3 x1 y1 z1 w1) (.so3 x2 y2 z2 w2) t)
        ≠ t * dist .so3 (.so3 x1 y1 z1 w1) (.so3 x2 y2 z2 w2) := by
  refine ⟨0, 0, 0, 1, 1, 0, 0, 0, 1 / 1000000, by norm_num, by norm_num, by norm_num, by norm_num, ?_⟩
  obtain ⟨h0, hθ⟩ := so3Interp_dist_witness
  show dist .so3 (.so3 0 0 0 1) (so3Interp (0 : ℝ) 0 0 1 1 0 0 0 (1 / 1000000))
    ≠ 1 / 1000000 * arcLength (0 : ℝ) 0 0 1 1 0 0 0
  rw [h0, hθ]
  have := pi_pos
  intro h; linarith

-- non-vacuity of the witness is the theorem itself; the fixed-distance value at the witness:
example : dist .so3 (.so3 0 0 0 1) (so3Interp (0 : ℝ) 0 0 1 1 0 0 0 (1 / 1000000)) = 0 :=
  so3Interp_dist_witness.1

/-- [EX] SO(3) re-parameterisation, EXACT equality (no sign ambiguity), unit `to`: if the leg
`from → to` is in the slerp branch then the remaining leg `(1-s)θ` must be above the clamp threshold
too (`hleg`); if `from → to` is in the copy branch both sides are `from`.  (`from` need not be unit.) -/
theorem so3_interp_reparam (x1 y1 z1 w1 x2 y2 z2 w2 s u : ℝ)
    (h2 : x2 * x2 + y2 * y2 + z2 * z2 + w2 * w2 = 1) (hs0 : 0 ≤ s) (hs1 : s ≤ 1)
    (hleg : |quatDot x1 y1 z1 w1 x2 y2 z2 w2| ≤ 1 - 1 / 10 ^ 9 →
      Real.cos ((1 - s) * Real.arccos |quatDot x1 y1 z1 w1 x2 y2 z2 w2|) ≤ 1 - 1 / 10 ^ 9) :
    interpolate .so3 (interpolate .so3 (.so3 x1 y1 z1 w1) (.so3 x2 y2 z2 w2) s) (.so3 x2 y2 z2 w2) u
      = interpolate .so3 (.so3 x1 y1 z1 w1) (.so3 x2 y2 z2 w2) (s + (1 - s) * u) :=
  so3_reparam_leaf s u h2 hs0 hs1 (band_hyp_of (fun θ => (1 - s) * θ) hleg)

example : interpolate .so3 (interpolate .so3 (.so3 (0 : ℝ) 0 0 1) (.so3 1 0 0 0) (1 / 3)) (.so3 1 0 0 0) (1 / 2)
    = interpolate .so3 (.so3 (0 : ℝ) 0 0 1) (.so3 1 0 0 0) (1 / 3 + (1 - 1 / 3) * (1 / 2)) :=
  so3_interp_reparam _ _ _ _ _ _ _ _ _ _ (by norm_num) (by norm_num) (by norm_num) (fun _ => orth_leg)

/-- [EX] re-parameterisation for compounds with SO(3) leaves (`reparamOk3`: rv, so2, so3, time, torus,
sphere, compounds, wrapper; excludes disc, mobius, klein): `to` quaternions exactly unit, every SO(3)
leaf satisfies the leg condition of `so3_interp_reparam` (`so3ReparamOk`) -/
theorem interp_reparam_so3 (sp : Space ℝ) (a b : St ℝ) (s u : ℝ) (hsp : reparamOk3 sp = true)
    (hwa : wellTyped sp a = true) (hwb : wellTyped sp b = true)
    (hba : inBounds sp a = true) (hbb : inBounds sp b = true)
    (hub : unitQuats sp b) (hok : so3ReparamOk sp a b s)
    (hs0 : 0 ≤ s) (hs1 : s ≤ 1) (hu0 : 0 ≤ u) (hu1 : u ≤ 1) :
    interpolate sp (interpolate sp a b s) b u = interpolate sp a b (s + (1 - s) * u) :=
  interpolate_reparam_so3 sp a b s u hsp hwa hwb hba hbb hub hok hs0 hs1 hu0 hu1

example : interpolate se3 (interpolate se3 se3A se3B (1 / 3)) se3B (1 / 2)
    = interpolate se3 se3A se3B (1 / 3 + (1 - 1 / 3) * (1 / 2)) :=
  interp_reparam_so3 _ _ _ _ _ se3_geo.2 se3A_wt se3B_wt se3A_inB se3B_inB se3B_unit se3_reparamOk
    (by norm_num) (by norm_num) (by norm_num) (by norm_num)
example : interpolate nested3 (interpolate nested3 nested3A nested3B (1 / 3)) nested3B (1 / 2)
    = interpolate nested3 nested3A nested3B (1 / 3 + (1 - 1 / 3) * (1 / 2)) :=
  interp_reparam_so3 _ _ _ _ _ nested3_geo.2 nested3A_wt nested3B_wt nested3A_inB nested3B_inB
    nested3B_unit nested3_reparamOk (by norm_num) (by norm_num) (by norm_num) (by norm_num)

/-- [EX] proportional CODED distance for the `geodesic true` spaces (rv, so2, so3, time, torus, weighted
compounds, wrapper): `from` quaternions exactly unit, every SO(3) leaf outside the clamp band at `t`
(`so3OutsideBand`).  `_partial`: inside the band the clause fails as coded (`so3_interp_dist_prop_fails`). -/
theorem interp_dist_prop_so3_partial (sp : Space ℝ) (a b : St ℝ) (t : ℝ)
    (hsp : geodesic true sp = true)
    (hwa : wellTyped sp a = true) (hwb : wellTyped sp b = true)
    (hba : inBounds sp a = true) (hbb : inBounds sp b = true)
    (hua : unitQuats sp a) (hband : so3OutsideBand sp a b t) (ht0 : 0 ≤ t) (ht1 : t ≤ 1) :
    dist sp a (interpolate sp a b t) = t * dist sp a b :=
  interpolate_dist_prop_so3 sp a b t hsp hwa hwb hba hbb hua hband ht0 ht1

example : dist se3 se3A (interpolate se3 se3A se3B (2 / 3)) = 2 / 3 * dist se3 se3A se3B :=
  interp_dist_prop_so3_partial _ _ _ _ se3_geo.1 se3A_wt se3B_wt se3A_inB se3B_inB se3A_unit
    se3_outsideBand (by norm_num) (by norm_num)
example : dist nested3 nested3A (interpolate nested3 nested3A nested3B (2 / 3))
    = 2 / 3 * dist nested3 nested3A nested3B :=
  interp_dist_prop_so3_partial _ _ _ _ nested3_geo.1 nested3A_wt nested3B_wt nested3A_inB nested3B_inB
    nested3A_unit nested3_outsideBand (by norm_num) (by norm_num)

/-! ## 9. Mobius re-parameterisation (cylinder branch, across the seam, compounds); Klein away from the seam -/

/-- [EX] Mobius, `|Δu| ≤ π`: exact re-parameterisation (the second leg stays in the cylinder branch) -/
theorem mobius_interp_reparam_cylinder (imax rad u1 v1 u2 v2 s u : ℝ)
    (hu1 : so2InB u1 = true) (hu2 : so2InB u2 = true) (hcyl : |u2 - u1| ≤ π)
    (hs0 : 0 ≤ s) (hs1 : s ≤ 1) (hu0 : 0 ≤ u) (hu1' : u ≤ 1) :
    interpolate (.mobius imax rad)
        (interpolate (.mobius imax rad) (.ccons (.so2 u1) (.ccons (.rv [v1]) .cnil))
          (.ccons (.so2 u2) (.ccons (.rv [v2]) .cnil)) s)
        (.ccons (.so2 u2) (.ccons (.rv [v2]) .cnil)) u
      = interpolate (.mobius imax rad) (.ccons (.so2 u1) (.ccons (.rv [v1]) .cnil))
          (.ccons (.so2 u2) (.ccons (.rv [v2]) .cnil)) (s + (1 - s) * u) := by
  rw [so2InB_iff] at hu1 hu2
  simp only [interpolateW,
    mobiusInterp_reparam_cyl (v1 := v1) (v2 := v2) hu1.1 hu1.2 hu2.1 hu2.2 hcyl hs0 hs1 hu0 hu1']

example : interpolate (.mobius 1 2)
      (interpolate (.mobius 1 2) (.ccons (.so2 0) (.ccons (.rv [1]) .cnil))
        (.ccons (.so2 (1 : ℝ)) (.ccons (.rv [-1]) .cnil)) (1 / 3))
      (.ccons (.so2 1) (.ccons (.rv [-1]) .cnil)) (1 / 2)
    = interpolate (.mobius 1 2) (.ccons (.so2 0) (.ccons (.rv [1]) .cnil))
        (.ccons (.so2 1) (.ccons (.rv [-1]) .cnil)) (1 / 3 + (1 - 1 / 3) * (1 / 2)) :=
  mobius_interp_reparam_cylinder _ _ _ _ _ _ _ _ zero_inB one_inB
    (by rw [sub_zero, abs_one]; linarith [pi_gt_three])
    (by norm_num) (by norm_num) (by norm_num) (by norm_num)

/-- [EX] Mobius ACROSS the seam, `|Δu| > π`: exact re-parameterisation (v arbitrary reals).  If the
point at `s` has not crossed, the second leg is the seam branch again with literally the same mirror
test; if it has crossed, the second leg is the cylinder branch and the direct evaluation is crossed too. -/
theorem mobius_interp_reparam_seam (imax rad u1 v1 u2 v2 s u : ℝ)
    (hu1 : so2InB u1 = true) (hu2 : so2InB u2 = true) (hseam : ¬ |u2 - u1| ≤ π)
    (hs0 : 0 ≤ s) (hs1 : s ≤ 1) (hu0 : 0 ≤ u) (hu1' : u ≤ 1) :
    interpolate (.mobius imax rad)
        (interpolate (.mobius imax rad) (.ccons (.so2 u1) (.ccons (.rv [v1]) .cnil))
          (.ccons (.so2 u2) (.ccons (.rv [v2]) .cnil)) s)
        (.ccons (.so2 u2) (.ccons (.rv [v2]) .cnil)) u
      = interpolate (.mobius imax rad) (.ccons (.so2 u1) (.ccons (.rv [v1]) .cnil))
          (.ccons (.so2 u2) (.ccons (.rv [v2]) .cnil)) (s + (1 - s) * u) := by
  rw [so2InB_iff] at hu1 hu2
  simp only [interpolateW,
    mobiusInterp_reparam_seam (v1 := v1) (v2 := v2) hu1.1 hu1.2 hu2.1 hu2.2 hseam hs0 hs1 hu0 hu1']

example : interpolate (.mobius 1 2)
      (interpolate (.mobius 1 2) (.ccons (.so2 3) (.ccons (.rv [1]) .cnil))
        (.ccons (.so2 (-3 : ℝ)) (.ccons (.rv [-1]) .cnil)) (1 / 3))
      (.ccons (.so2 (-3)) (.ccons (.rv [-1]) .cnil)) (1 / 2)
    = interpolate (.mobius 1 2) (.ccons (.so2 3) (.ccons (.rv [1]) .cnil))
        (.ccons (.so2 (-3)) (.ccons (.rv [-1]) .cnil)) (1 / 3 + (1 - 1 / 3) * (1 / 2)) :=
  mobius_interp_reparam_seam _ _ _ _ _ _ _ _ three_inB.1 three_inB.2 three_seam
    (by norm_num) (by norm_num) (by norm_num) (by norm_num)

/-- [EX] Mobius: exact re-parameterisation for every pair of in-bounds states (no branch hypothesis) -/
theorem mobius_interp_reparam (imax rad u1 v1 u2 v2 s u : ℝ)
    (hu1 : so2InB u1 = true) (hu2 : so2InB u2 = true)
    (hs0 : 0 ≤ s) (hs1 : s ≤ 1) (hu0 : 0 ≤ u) (hu1' : u ≤ 1) :
    interpolate (.mobius imax rad)
        (interpolate (.mobius imax rad) (.ccons (.so2 u1) (.ccons (.rv [v1]) .cnil))
          (.ccons (.so2 u2) (.ccons (.rv [v2]) .cnil)) s)
        (.ccons (.so2 u2) (.ccons (.rv [v2]) .cnil)) u
      = interpolate (.mobius imax rad) (.ccons (.so2 u1) (.ccons (.rv [v1]) .cnil))
          (.ccons (.so2 u2) (.ccons (.rv [v2]) .cnil)) (s + (1 - s) * u) := by
  rw [so2InB_iff] at hu1 hu2
  simp only [interpolateW,
    mobiusInterp_reparam (v1 := v1) (v2 := v2) hu1.1 hu1.2 hu2.1 hu2.2 hs0 hs1 hu0 hu1']

example : interpolate (.mobius 1 2)
      (interpolate (.mobius 1 2) (.ccons (.so2 3) (.ccons (.rv [1]) .cnil))
        (.ccons (.so2 (-3 : ℝ)) (.ccons (.rv [-1]) .cnil)) (1 / 3))
      (.ccons (.so2 (-3)) (.ccons (.rv [-1]) .cnil)) (1 / 2)
    = interpolate (.mobius 1 2) (.ccons (.so2 3) (.ccons (.rv [1]) .cnil))
        (.ccons (.so2 (-3)) (.ccons (.rv [-1]) .cnil)) (1 / 3 + (1 - 1 / 3) * (1 / 2)) :=
  mobius_interp_reparam _ _ _ _ _ _ _ _ three_inB.1 three_inB.2
    (by norm_num) (by norm_num) (by norm_num) (by norm_num)

/-- [EX] re-parameterisation for compounds with Mobius and SO(3) leaves (`reparamOk4`: everything except
discrete and Klein): hypotheses as `interp_reparam_so3` -/
theorem interp_reparam_mobius (sp : Space ℝ) (a b : St ℝ) (s u : ℝ) (hsp : reparamOk4 sp = true)
    (hwa : wellTyped sp a = true) (hwb : wellTyped sp b = true)
    (hba : inBounds sp a = true) (hbb : inBounds sp b = true)
    (hub : unitQuats sp b) (hok : so3ReparamOk sp a b s)
    (hs0 : 0 ≤ s) (hs1 : s ≤ 1) (hu0 : 0 ≤ u) (hu1 : u ≤ 1) :
    interpolate sp (interpolate sp a b s) b u = interpolate sp a b (s + (1 - s) * u) :=
  interpolate_reparam_mobius sp a b s u hsp hwa hwb hba hbb hub hok hs0 hs1 hu0 hu1

-- [Mobius (states across its seam), SE(3)]
example : interpolate mobSp (interpolate mobSp mobA mobB (1 / 3)) mobB (1 / 2)
    = interpolate mobSp mobA mobB (1 / 3 + (1 - 1 / 3) * (1 / 2)) :=
  interp_reparam_mobius _ _ _ _ _ mobSp_ok mobA_wt mobB_wt mobA_inB mobB_inB mobB_unit mob_reparamOk
    (by norm_num) (by norm_num) (by norm_num) (by norm_num)

/-- [EX] Klein, `|Δu| ≤ π/2`: exact re-parameterisation (the second leg stays in the cylinder branch) -/
theorem klein_interp_reparam_cylinder (u1 v1 u2 v2 s u : ℝ)
    (hv1 : so2InB v1 = true) (hv2 : so2InB v2 = true) (hcyl : |u2 - u1| ≤ 1 / 2 * π)
    (hs0 : 0 ≤ s) (hs1 : s ≤ 1) (hu0 : 0 ≤ u) (hu1 : u ≤ 1) :
    interpolate .klein
        (interpolate .klein (.ccons (.rv [u1]) (.ccons (.so2 v1) .cnil))
          (.ccons (.rv [u2]) (.ccons (.so2 v2) .cnil)) s)
        (.ccons (.rv [u2]) (.ccons (.so2 v2) .cnil)) u
      = interpolate .klein (.ccons (.rv [u1]) (.ccons (.so2 v1) .cnil))
          (.ccons (.rv [u2]) (.ccons (.so2 v2) .cnil)) (s + (1 - s) * u) := by
  rw [so2InB_iff] at hv1 hv2
  simp only [interpolateW,
    kleinInterp_reparam_cyl (u1 := u1) (u2 := u2) hv1.1 hv1.2 hv2.1 hv2.2 hcyl hs0 hs1 hu0 hu1]

example : interpolate .klein
      (interpolate .klein (.ccons (.rv [0]) (.ccons (.so2 3) .cnil))
        (.ccons (.rv [(1 : ℝ)]) (.ccons (.so2 (-3)) .cnil)) (1 / 3))
      (.ccons (.rv [1]) (.ccons (.so2 (-3)) .cnil)) (1 / 2)
    = interpolate .klein (.ccons (.rv [0]) (.ccons (.so2 3) .cnil))
        (.ccons (.rv [1]) (.ccons (.so2 (-3)) .cnil)) (1 / 3 + (1 - 1 / 3) * (1 / 2)) :=
  klein_interp_reparam_cylinder _ _ _ _ _ _ three_inB.1 three_inB.2
    (by rw [sub_zero, abs_one]; linarith [pi_gt_three])
    (by norm_num) (by norm_num) (by norm_num) (by norm_num)

/-! ## 10. the proposed F61 repair (`so2InterpFix`, `interpolateFix61`); discrete exact difference

`so2InterpFix` sends BOTH branches of the SO(2) clause through `so2Wrap` (the fixed code wraps only the
long branch, so a short-branch result that IEEE rounding carries onto +π stays out of range: F61). -/

/-- [EX] SO(2): over ℝ the repaired code equals the fixed code on in-bounds inputs -/
theorem so2InterpFix_eq (a b t : ℝ) (ha : so2InB a = true) (hb : so2InB b = true)
    (ht0 : 0 ≤ t) (ht1 : t ≤ 1) : so2InterpFix a b t = so2Interp a b t := by
  rw [so2InB_iff] at ha hb; exact SpaceInterp.so2InterpFix_eq ha.1 ha.2 hb.1 hb.2 ht0 ht1

example : so2InterpFix (3 : ℝ) (-3) (1 / 3) = so2Interp 3 (-3) (1 / 3) :=
  so2InterpFix_eq _ _ _ three_inB.1 three_inB.2 (by norm_num) (by norm_num)
example : so2InterpFix (0 : ℝ) 1 (1 / 3) = so2Interp 0 1 (1 / 3) :=
  so2InterpFix_eq _ _ _ zero_inB one_inB (by norm_num) (by norm_num)

/-- [EX] EVERY space (arbitrarily nested; Mobius and Klein included): over ℝ the repaired tree equals the
fixed tree on well-typed in-bounds states.  Consequence: every [EX] theorem of this file about
`interpolate` transfers verbatim to `interpolateFix61` (rewrite with this equation); the repair only
changes what IEEE rounding does at +π.  (The compound clauses feed the SO(2) leaf only in-bounds values:
so2 leaf, torus, sphere, Mobius `so2 u1 u2 t` in both branches, Klein `so2 v1 v2 t` in the cylinder branch.) -/
theorem interp_fix61_eq (sp : Space ℝ) (a b : St ℝ) (t : ℝ)
    (hwa : wellTyped sp a = true) (hwb : wellTyped sp b = true)
    (hba : inBounds sp a = true) (hbb : inBounds sp b = true) (ht0 : 0 ≤ t) (ht1 : t ≤ 1) :
    interpolateFix61 sp a b t = interpolate sp a b t :=
  interpolateFix61_eq sp a b t hwa hwb hba hbb ht0 ht1

-- [Klein, SE(3), Mobius] and the nested compound
example : interpolateFix61 allSp allA allB (1 / 3) = interpolate allSp allA allB (1 / 3) :=
  interp_fix61_eq _ _ _ _ allA_wt allB_wt allA_inB allB_inB (by norm_num) (by norm_num)
example : interpolateFix61 nested nestedA nestedB (1 / 3) = interpolate nested nestedA nestedB (1 / 3) :=
  interp_fix61_eq _ _ _ _ nestedA_wt nestedB_wt nestedA_inB nestedB_inB (by norm_num) (by norm_num)
-- a transferred theorem: t = 1 of the repaired tree
example : interpolateFix61 nested nestedA nestedB 1 = nestedB := by
  rw [interp_fix61_eq _ _ _ _ nestedA_wt nestedB_wt nestedA_inB nestedB_inB (by norm_num) (by norm_num)]
  exact interp_one _ _ _ nested_ok.1 nestedA_wt nestedB_wt nestedB_inB

/-- [EX] one wrap suffices: `so2Wrap` maps ANY value of `[-3π, 3π)` into the bounds `[-π, π)` -/
theorem so2_wrap_inrange_any (v : ℝ) (h1 : -3 * π ≤ v) (h2 : v < 3 * π) :
    so2InB (so2Wrap v) = true := by
  rw [so2InB_iff]; exact so2Wrap_inB h1 h2

example : so2InB (so2Wrap (7 : ℝ)) = true :=
  so2_wrap_inrange_any _ (by linarith [pi_pos]) (by linarith [pi_gt_three])

/-- [EX] what the repair buys: the repaired SO(2) result is in bounds by `so2_wrap_inrange_any` and crude
bounds on the pre-wrap value (`|a + diff t| ≤ 2π`) alone — no exactness of the short branch is used, so
the argument survives a rounding error of the pre-wrap value (anything short of π) -/
theorem so2_interp_fix_inrange_any (a b t : ℝ) (ha : so2InB a = true) (hb : so2InB b = true)
    (ht0 : 0 ≤ t) (ht1 : t ≤ 1) : so2InB (so2InterpFix a b t) = true := by
  rw [so2InB_iff] at *; exact so2InterpFix_inB ha.1 ha.2 hb.1 hb.2 ht0 ht1

example : so2InB (so2InterpFix (3 : ℝ) (-3) (1 / 3)) = true :=
  so2_interp_fix_inrange_any _ _ _ three_inB.1 three_inB.2 (by norm_num) (by norm_num)

/-- [EX] discrete: the model rounds `from + (to - from) * t` with the EXACT integer difference
(`to - from` in ℤ, as notes/C07-fix-F155.diff makes the code do; the unrepaired code overflows `int`
when `|to - from| > INT_MAX`, F155) -/
theorem disc_interp_exact_difference (a b : Int) (t : ℝ) :
    discInterp a b t = ⌊(a : ℝ) + ((b - a : Int) : ℝ) * t + 1 / 2⌋ := discInterp_eq a b t

/-- [EX] discrete: the result lies between the end points, for any integers (no overflow in the model) -/
theorem disc_interp_between (a b : Int) (t : ℝ) (ht0 : 0 ≤ t) (ht1 : t ≤ 1) :
    min a b ≤ discInterp a b t ∧ discInterp a b t ≤ max a b := discInterp_between a b ht0 ht1

-- |to - from| = 4e9 > INT_MAX
example : discInterp (-2000000000) 2000000000 (1 / 2 : ℝ) = 0 := by
  rw [disc_interp_exact_difference, Int.floor_eq_iff]; constructor <;> norm_num
example : min (-2000000000) 2000000000 ≤ discInterp (-2000000000) 2000000000 (1 / 4 : ℝ) ∧
    discInterp (-2000000000) 2000000000 (1 / 4 : ℝ) ≤ max (-2000000000) 2000000000 :=
  disc_interp_between _ _ _ (by norm_num) (by norm_num)

/-! ## 11. the tree with the F61 and F159 repairs (`interpolateTree = postMobius ∘ interpolateFix61`)

`postMobius` (notes/C07-fix-F159.diff) negates the Mobius v coordinate after the cylinder branch when
`π < |to.u - new u|` — a situation only IEEE rounding can produce. -/

/-- [EX] Mobius cylinder branch (`|Δu| ≤ π`): the new u stays within π of `to.u`, so the mirror test
`π < |to.u - u|` of `postMobius` is false over the reals -/
theorem mobius_post_identity (u1 u2 t : ℝ) (hu1 : so2InB u1 = true) (hu2 : so2InB u2 = true)
    (hcyl : |u2 - u1| ≤ π) (ht0 : 0 ≤ t) (ht1 : t ≤ 1) :
    |u2 - so2InterpFix u1 u2 t| ≤ π ∧ ¬ π < |u2 - so2InterpFix u1 u2 t| := by
  rw [so2InB_iff] at hu1 hu2
  have h := mobius_post_fix hu1.1 hu1.2 hu2.1 hu2.2 hcyl ht0 ht1
  exact ⟨h, not_lt.mpr h⟩

example : |(1 : ℝ) - so2InterpFix 0 1 (1 / 3)| ≤ π ∧ ¬ π < |(1 : ℝ) - so2InterpFix 0 1 (1 / 3)| :=
  mobius_post_identity _ _ _ zero_inB one_inB (by rw [sub_zero, abs_one]; linarith [pi_gt_three])
    (by norm_num) (by norm_num)

/-- [EX] EVERY space (arbitrarily nested): over ℝ the tree with both repairs equals `interpolate` on
well-typed in-bounds states.  Consequence: every [EX] theorem of this file about `interpolate` transfers
verbatim to `interpolateTree` (rewrite with this equation); the F61 and F159 repairs only change what
IEEE rounding does at the seam. -/
theorem interp_tree_eq (sp : Space ℝ) (a b : St ℝ) (t : ℝ)
    (hwa : wellTyped sp a = true) (hwb : wellTyped sp b = true)
    (hba : inBounds sp a = true) (hbb : inBounds sp b = true) (ht0 : 0 ≤ t) (ht1 : t ≤ 1) :
    interpolateTree sp a b t = interpolate sp a b t :=
  interpolateTree_eq sp a b t hwa hwb hba hbb ht0 ht1

-- [Klein, SE(3), Mobius across its seam]; [Mobius across its seam, SE(3)]; a Mobius cylinder-branch pair
example : interpolateTree allSp allA allB (1 / 3) = interpolate allSp allA allB (1 / 3) :=
  interp_tree_eq _ _ _ _ allA_wt allB_wt allA_inB allB_inB (by norm_num) (by norm_num)
example : interpolateTree mobSp mobA mobB (1 / 3) = interpolate mobSp mobA mobB (1 / 3) :=
  interp_tree_eq _ _ _ _ mobA_wt mobB_wt mobA_inB mobB_inB (by norm_num) (by norm_num)
example : interpolateTree (.mobius 1 2) (.ccons (.so2 0) (.ccons (.rv [1]) .cnil))
      (.ccons (.so2 (1 : ℝ)) (.ccons (.rv [-1]) .cnil)) (1 / 3)
    = interpolate (.mobius 1 2) (.ccons (.so2 0) (.ccons (.rv [1]) .cnil))
      (.ccons (.so2 1) (.ccons (.rv [-1]) .cnil)) (1 / 3) :=
  interp_tree_eq _ _ _ _ (by simp [wellTyped]) (by simp [wellTyped])
    (by simp only [inBounds, rvInB, zero_inB, RealNum.dblEps_eq]; norm_num)
    (by simp only [inBounds, rvInB, one_inB, RealNum.dblEps_eq]; norm_num) (by norm_num) (by norm_num)
-- a transferred theorem: the repaired tree ends exactly on `to`
example : interpolateTree mix mixA mixB 1 = mixB := by
  rw [interp_tree_eq _ _ _ _ mixA_wt mixB_wt mixA_inB mixB_inB (by norm_num) (by norm_num)]
  exact interp_one _ _ _ mix_ok mixA_wt mixB_wt mixB_inB

/-- [AF] `postMobius` preserves the shape — any `Num` -/
theorem postMobius_wellTyped {α : Type} [Num α] (sp : Space α) (a b r : St α)
    (ha : wellTyped sp a = true) (hb : wellTyped sp b = true) (hr : wellTyped sp r = true) :
    wellTyped sp (postMobius sp a b r) = true := SpaceInterp.postMobius_wellTyped sp a b r ha hb hr

example : wellTyped mobSp (postMobius mobSp mobA mobB mobA) = true :=
  postMobius_wellTyped _ _ _ _ mobA_wt mobB_wt mobA_wt

/-- [AF] hence `interp_wellTyped` extends to the repaired tree — any `Num` -/
theorem interp_tree_wellTyped {α : Type} [Num α] (sp : Space α) (a b : St α) (t : α)
    (ha : wellTyped sp a = true) (hb : wellTyped sp b = true) :
    wellTyped sp (interpolateTree sp a b t) = true := interpolateTree_wellTyped sp a b t ha hb

example (t : ℝ) : wellTyped mobSp (interpolateTree mobSp mobA mobB t) = true :=
  interp_tree_wellTyped _ _ _ _ mobA_wt mobB_wt

/-! ## compound weights are irrelevant (zero-weight subspaces included)

`interp_zero`, `interp_one`, `interp_inbounds`, `interp_reparam` (and the SO(3)/Klein variants) above
quantify over EVERY `Space`, hence over every weight in every `ccons` at every nesting level — 0, a
weight below DBL_EPSILON, negative, anything: the weights do not occur in `interpolateW`, `inBounds`,
`eqStates` or `wellTyped` at all (only in `dist`, where a zero-weight component contributes 0 to
`interp_dist_prop`).  The corollary below makes that explicit: rewriting all weights by any function
(e.g. to 0) changes neither the interpolated state nor its bounds / equality / shape predicates.  An
implementation that skips components of small weight does not refine this model: the correspondence run
(zero and denormal weights at every level, sentinel-filled output) and the per-component oracle see it. -/

/-- [AF] the interpolated state, `satisfiesBounds`, `equalStates` and the shape do not depend on any
compound weight, at any nesting level — any `Num`, any SO(2) leaf `f`, any Klein wrap `wr` -/
theorem interp_compound_weight_irrelevant {α : Type} [Num α] (f : α → α → α → α) (wr : α → α)
    (g : α → α) (sp : Space α) (a b : St α) (t : α) :
    interpolateW f wr (mapWeights g sp) a b t = interpolateW f wr sp a b t
      ∧ inBounds (mapWeights g sp) a = inBounds sp a
      ∧ eqStates (mapWeights g sp) a b = eqStates sp a b
      ∧ wellTyped (mapWeights g sp) a = wellTyped sp a :=
  ⟨interpolateW_mapWeights f wr g sp a b t, inBounds_mapWeights g sp a, eqStates_mapWeights g sp a b,
    wellTyped_mapWeights g sp a⟩

/-- non-vacuity: the nested compound with ALL weights set to 0 still ends exactly on `to` … -/
example : interpolate (mapWeights (fun _ => 0) nested) nestedA nestedB 1 = nestedB := by
  show interpolateW so2Interp so2Wrap (mapWeights (fun _ => 0) nested) nestedA nestedB 1 = nestedB
  rw [(interp_compound_weight_irrelevant so2Interp so2Wrap (fun _ => 0) nested nestedA nestedB 1).1]
  exact interp_one _ _ _ nested_ok.1 nestedA_wt nestedB_wt nestedB_inB
/-- … and `mapWeights` really rewrites the weights (the head weight 2 of `nested` becomes 0) -/
example : ∃ h tl, mapWeights (fun _ => (0 : ℝ)) nested = .ccons 0 h tl := ⟨_, _, rfl⟩
/-- the general theorems applied directly to a space written with zero weights: SE(2) with weights 0, 0 -/
example : interpolate (.ccons 0 (.rv [0, 0] [1, 1]) (.ccons 0 .so2 .cnil)) se2A se2B 1 = se2B :=
  interp_one _ _ _ (by simp [noSO3Klein]) (by simp [se2A, wellTyped]) (by simp [se2B, wellTyped])
    (by simp only [se2B, inBounds, rvInB, three_inB.2, RealNum.dblEps_eq]; norm_num)
example : interpolate (.ccons 0 (.rv [0, 0] [1, 1]) (.ccons 0 .so2 .cnil)) se2A se2B 0 = se2A :=
  interp_zero _ _ _ (by simp [noKlein]) (by simp [se2A, wellTyped]) (by simp [se2B, wellTyped])
    (by simp only [se2A, inBounds, rvInB, three_inB.1, RealNum.dblEps_eq]; norm_num)

/-! ## aliasing (implementation-level clause; generated input)

`Generated/RwSets.lean` is regenerated on every run by `extract/rwsets.py` from the `interpolate` bodies
of the current tree: one ordered list of input-field reads / output-field writes per control-flow path.
The obligation below is closed by kernel evaluation over that table: on every path no input field is
read after the same-named output field was written (`safe`), and the 3-cell memory micro-model
(`Alias.exec`: output distinct / == from / == to) writes the same values in all three modes
(`modesAgree`).  A body that writes a field and later re-reads it from an input breaks this theorem.
(The harness additionally runs every interpolate in the three modes and compares bits.) -/

/-- [AF, generated] every extracted `interpolate` path is alias-safe and its three alias modes agree -/
theorem interp_alias_safe :
    OmplModel.Generated.RwSets.bodies.all (fun b => Alias.safe b && Alias.modesAgree b) = true := by
  decide

/-- non-vacuity: the table is not empty and the predicate does reject a write-before-read body
(`out.value = diff*t; out.value += from.value`, the shape of mutant M5) -/
example : OmplModel.Generated.RwSets.bodies.length ≥ 7 := by decide
example : Alias.safe [.rd .to 1, .rd .from 1, .wr 1, .rd .out 1, .rd .from 1, .wr 1] = false := by decide
example : Alias.modesAgree [.rd .to 1, .rd .from 1, .wr 1, .rd .out 1, .rd .from 1, .wr 1] = false := by decide

/-- [AF, generated] car-like spaces (round 10): the worker behind every Dubins / Reeds-Shepp / Owen / Vana / VanaOwen interpolation,
`interpolate(from, path, t, state[, radius])`, extracted in textual order with its scratch state dropped
(`extract/rwsets.py`, `CAR_BODIES`): it never reads the output state before writing it and reads no field of `from`
after writing the same field of the output — so (by `alias_safe_sound`) it writes the same values whether `state` is a
distinct object, `from`, or `to`.  The seeded change C07-s7 (integrate in `state` instead of the scratch state) extracts as
`W(X) W(Y) r(from.Yaw) … r(from.X) …` and refutes this theorem (the build fails = broken obligation), besides the
concrete failing inputs the oracle's alias clause finds. -/
theorem car_path_overload_alias_safe :
    (OmplModel.Generated.RwSets.dubinsPathOverload ++ OmplModel.Generated.RwSets.reedsSheppPathOverload).all
      (fun b => Alias.safe b && Alias.modesAgree b) = true := by
  decide

/-- non-vacuity: both bodies were extracted and do write the pose; the head of what C07-s7 extracts as is rejected -/
example : OmplModel.Generated.RwSets.dubinsPathOverload.length = 1 ∧ OmplModel.Generated.RwSets.reedsSheppPathOverload.length = 1 := by decide
example : Alias.safe [.wr 9, .wr 10, .rd .from 11, .wr 11, .rd .out 9, .rd .from 9, .rd .out 10, .rd .from 10, .wr 9, .wr 10] = false := by decide

/-- [AF] soundness of the syntactic check, for EVERY body (not only the generated table): a `safe`
access sequence writes the same values whether the output is a distinct object, `from`, or `to`.
(Proof: simulation invariant between the un-aliased and the aliased run — equal `seen`, equal written
output cells, unwritten aliased cells still hold the input's value — `Proofs/SpaceInterpAlias.lean`.)
So `interp_alias_safe` only needs its `safe` half; the `modesAgree` half is implied. -/
theorem alias_safe_sound (body : List Alias.Acc) (h : Alias.safe body = true) :
    Alias.modesAgree body = true := Alias.safe_modesAgree body h

/-- non-vacuity: the long SO(2) path (write, read back, write again) is safe, hence its modes agree;
and every generated body gets `modesAgree` from `safe` alone -/
example : Alias.modesAgree
    [.rd .to 1, .rd .from 1, .rd .from 1, .wr 1, .rd .out 1, .rd .out 1, .rd .out 1, .wr 1] = true :=
  alias_safe_sound _ (by decide)
example : ∀ b ∈ OmplModel.Generated.RwSets.sO2StateSpace, Alias.modesAgree b = true := by
  intro b hb
  apply alias_safe_sound
  revert b; decide

/-! ## the property stated about the AS-RUN function (`interpolateTree`, what `drv_spaceinterp` executes against libompl)

Round 10, item D: sections 1–9 are stated about `interpolate` (the clause before the F61 / F159 repairs) and reach the function the
driver runs only through `interp_tree_eq`, whose in-bounds hypotheses were ASSUMED for the intermediate state of a continued
interpolation.  Here they are ESTABLISHED (`interp_wellTyped`, `interp_inbounds` give well-typedness and bounds of the point at s), so
end points, bounds and re-parameterisation are theorems of `interpolateTree` itself. -/

theorem reparamOk_noSO3Klein (sp : Space ℝ) (h : reparamOk sp = true) : noSO3Klein sp = true := by
  induction sp with
  | ccons w hd tl ih1 ih2 =>
    simp only [reparamOk, Bool.and_eq_true] at h
    simp [noSO3Klein, ih1 h.1, ih2 h.2]
  | wrap s ih => simp only [reparamOk] at h; simp [noSO3Klein, ih h]
  | so3 => simp [reparamOk] at h
  | klein => simp [reparamOk] at h
  | _ => simp [noSO3Klein]

theorem tree_interp_endpoints_inbounds (sp : Space ℝ) (a b : St ℝ) (t : ℝ) (hsp : noSO3Klein sp = true)
    (hwa : wellTyped sp a = true) (hwb : wellTyped sp b = true)
    (hba : inBounds sp a = true) (hbb : inBounds sp b = true) (ht0 : 0 ≤ t) (ht1 : t ≤ 1) :
    interpolateTree sp a b 0 = a ∧ interpolateTree sp a b 1 = b ∧ inBounds sp (interpolateTree sp a b t) = true := by
  refine ⟨?_, ?_, ?_⟩
  · rw [interp_tree_eq sp a b 0 hwa hwb hba hbb (le_refl 0) zero_le_one]
    exact interpolate_zero sp a b hsp hwa hwb hba
  · rw [interp_tree_eq sp a b 1 hwa hwb hba hbb zero_le_one (le_refl 1)]
    exact interp_one sp a b hsp hwa hwb hbb
  · rw [interp_tree_eq sp a b t hwa hwb hba hbb ht0 ht1]
    exact interp_inbounds sp a b t hsp hwa hwb hba hbb ht0 ht1

theorem tree_interp_reparam (sp : Space ℝ) (a b : St ℝ) (s u : ℝ) (hsp : reparamOk sp = true)
    (hwa : wellTyped sp a = true) (hwb : wellTyped sp b = true)
    (hba : inBounds sp a = true) (hbb : inBounds sp b = true)
    (hs0 : 0 ≤ s) (hs1 : s ≤ 1) (hu0 : 0 ≤ u) (hu1 : u ≤ 1) :
    interpolateTree sp (interpolateTree sp a b s) b u = interpolateTree sp a b (s + (1 - s) * u) := by
  have hk := reparamOk_noSO3Klein sp hsp
  have h0 : 0 ≤ s + (1 - s) * u := by nlinarith
  have h1 : s + (1 - s) * u ≤ 1 := by nlinarith
  rw [interp_tree_eq sp a b s hwa hwb hba hbb hs0 hs1,
    interp_tree_eq sp a b _ hwa hwb hba hbb h0 h1]
  have hwm : wellTyped sp (interpolate sp a b s) = true := interp_wellTyped _ _ sp a b s hwa hwb
  have hbm : inBounds sp (interpolate sp a b s) = true := interp_inbounds sp a b s hk hwa hwb hba hbb hs0 hs1
  rw [interp_tree_eq sp _ b u hwm hwb hbm hbb hu0 hu1]
  exact interp_reparam sp a b s u hsp hwa hwb hba hbb hs0 hs1 hu0 hu1

example : interpolateTree se2 (interpolateTree se2 se2A se2B (1 / 3)) se2B (1 / 2) = interpolateTree se2 se2A se2B (1 / 3 + (1 - 1 / 3) * (1 / 2)) :=
  tree_interp_reparam _ _ _ _ _ se2_ok.2.1 se2A_wt se2B_wt se2A_inB se2B_inB (by norm_num) (by norm_num) (by norm_num) (by norm_num)

end OmplModel.Props.C07
