import OmplModel.Proofs.SpaceInterpShape
import OmplModel.Proofs.SpaceInterpSO2
/-!
C07 — property theorems for `StateSpace::interpolate` (model: `Model/SpaceInterp.lean`).

* [AF] theorems are generic over `[Num α]` (they hold for the `Float` instantiation the driver runs).
* [EX] theorems are over `ℝ` (instance `RealNum.instNumReal`, Proofs/SpaceInterpReal.lean); what they
  leave unverified is exactly IEEE rounding.  `t s u ∈ [0,1]`; states well-typed and in bounds *as
  coded* (`inBounds`, with the ±eps slack of RealVector/Time bounds).

Helper lemmas live in `Proofs/SpaceInterp*.lean`.  Every theorem is followed by a non-vacuity example.
-/
open scoped OmplModel.SpaceInterp.RealNum
attribute [-instance] OmplModel.Num.instOfNat

namespace OmplModel.Props.C07
open OmplModel OmplModel.Space OmplModel.SpaceInterp Real

/-! ## 0. shape ([AF]: any `Num`, any SO(2) leaf `f`, any Klein wrap `wr`) -/

/-- [AF] interpolation returns a state of the space's shape — all spaces -/
theorem interp_wellTyped {α : Type} [Num α] (f : α → α → α → α) (wr : α → α) (sp : Space α) (a b : St α) (t : α)
    (ha : wellTyped sp a = true) (hb : wellTyped sp b = true) :
    wellTyped sp (interpolateW f wr sp a b t) = true :=
  interpolateW_wellTyped f wr sp a b t ha hb

/-- SE(2) = R^2 x SO(2), weights 1 and 1/2 -/
noncomputable def se2 : Space ℝ := .ccons 1 (.rv [0, 0] [1, 1]) (.ccons (1 / 2) .so2 .cnil)
/-- a nested compound: [SE(2), time, SO(2)] -/
noncomputable def nested : Space ℝ :=
  .ccons 2 se2 (.ccons 1 (.time true 0 1) (.ccons 3 (.wrap .so2) .cnil))

example (t : ℝ) : wellTyped se2
    (interpolate se2 (.ccons (.rv [0, 1]) (.ccons (.so2 3) .cnil))
      (.ccons (.rv [1, 0]) (.ccons (.so2 (-3)) .cnil)) t) = true :=
  interp_wellTyped _ _ _ _ _ _ (by simp [se2, wellTyped]) (by simp [se2, wellTyped])

/-- [AF] Torus does not override interpolate: it is its compound [so2, so2] -/
theorem interp_torus_expand {α : Type} [Num α] (f : α → α → α → α) (wr : α → α) (R r : α) (a b : St α) (t : α)
    (ha : wellTyped (.torus R r) a = true) (hb : wellTyped (.torus R r) b = true) :
    interpolateW f wr (.torus R r) a b t = interpolateW f wr (expand (.torus R r)) a b t :=
  interpolateW_torus_expand f wr R r a b t ha hb

example (t : ℝ) :
    interpolate (.torus 2 1) (.ccons (.so2 0) (.ccons (.so2 1) .cnil))
        (.ccons (.so2 1) (.ccons (.so2 0) .cnil)) t
      = interpolate (expand (.torus 2 1)) (.ccons (.so2 0) (.ccons (.so2 1) .cnil))
        (.ccons (.so2 1) (.ccons (.so2 0) .cnil)) t :=
  interp_torus_expand _ _ _ _ _ _ _ (by simp [wellTyped]) (by simp [wellTyped])

/-- [AF] Sphere does not override interpolate: it is its compound [so2, rv1] -/
theorem interp_sphere_expand {α : Type} [Num α] (f : α → α → α → α) (wr : α → α) (r : α) (a b : St α) (t : α)
    (ha : wellTyped (.sphere r) a = true) (hb : wellTyped (.sphere r) b = true) :
    interpolateW f wr (.sphere r) a b t = interpolateW f wr (expand (.sphere r)) a b t :=
  interpolateW_sphere_expand f wr r a b t ha hb

example (t : ℝ) :
    interpolate (.sphere 1) (.ccons (.so2 0) (.ccons (.rv [1]) .cnil))
        (.ccons (.so2 1) (.ccons (.rv [2]) .cnil)) t
      = interpolate (expand (.sphere 1)) (.ccons (.so2 0) (.ccons (.rv [1]) .cnil))
        (.ccons (.so2 1) (.ccons (.rv [2]) .cnil)) t :=
  interp_sphere_expand _ _ _ _ _ _ (by simp [wellTyped]) (by simp [wellTyped])

/-! ## 1. F4: the SO(2) code before the fix leaves the bounds -/

/-- [EX] `so2InterpOld` (wrap test `v > pi`) maps two in-bounds angles to the excluded end point `pi` -/
theorem so2_interp_old_fails :
    ∃ a b : ℝ, so2InB a = true ∧ so2InB b = true ∧ so2InB (so2InterpOld a b 1) = false := by
  refine ⟨π / 2, -π, ?_, ?_, ?_⟩
  · rw [so2InB_iff]; constructor <;> linarith [pi_pos]
  · rw [so2InB_iff]; constructor <;> linarith [pi_pos]
  · rw [so2InterpOld_witness, Bool.eq_false_iff, Ne, so2InB_iff]
    intro h; exact lt_irrefl _ h.2

/-- [EX] the fixed code at the same witness returns `to` -/
theorem so2_interp_fixed_at_witness : so2Interp (π / 2) (-π) 1 = -π := so2Interp_witness

example : so2InB (so2Interp (π / 2) (-π) 1) = true := by
  rw [so2_interp_fixed_at_witness, so2InB_iff]; constructor <;> linarith [pi_pos]

/-! ## 2. SO(2) leaf -/

/-- [EX] SO(2): t = 0 gives `from` exactly -/
theorem so2_interp_zero (a b : ℝ) (ha : so2InB a = true) : so2Interp a b 0 = a := by
  rw [so2InB_iff] at ha; exact so2Interp_zero ha.1 ha.2

/-- [EX] SO(2): t = 1 gives `to` exactly (both branches) -/
theorem so2_interp_one (a b : ℝ) (hb : so2InB b = true) : so2Interp a b 1 = b := by
  rw [so2InB_iff] at hb; exact so2Interp_one hb.1 hb.2

/-- [EX] SO(2): the result satisfies the bounds `[-pi, pi)` -/
theorem so2_interp_inbounds (a b t : ℝ) (ha : so2InB a = true) (hb : so2InB b = true)
    (ht0 : 0 ≤ t) (ht1 : t ≤ 1) : so2InB (so2Interp a b t) = true := by
  rw [so2InB_iff] at *; exact so2Interp_inB ha.1 ha.2 hb.1 hb.2 ht0 ht1

/-- [EX] SO(2): re-parameterisation, exact -/
theorem so2_interp_reparam (a b s u : ℝ) (ha : so2InB a = true) (hb : so2InB b = true)
    (hs0 : 0 ≤ s) (hs1 : s ≤ 1) (hu0 : 0 ≤ u) (hu1 : u ≤ 1) :
    so2Interp (so2Interp a b s) b u = so2Interp a b (s + (1 - s) * u) := by
  rw [so2InB_iff] at *; exact so2Interp_reparam ha.1 ha.2 hb.1 hb.2 hs0 hs1 hu0 hu1

/-- [EX] SO(2): the point at parameter t is at distance `t * d(from, to)` from `from` -/
theorem so2_interp_dist_prop (a b t : ℝ) (ha : so2InB a = true) (hb : so2InB b = true)
    (ht0 : 0 ≤ t) (ht1 : t ≤ 1) : so2Dist a (so2Interp a b t) = t * so2Dist a b := by
  rw [so2InB_iff] at *; exact so2Interp_dist_prop ha.1 ha.2 hb.1 hb.2 ht0 ht1

/-- the long-way pair 3, -3 (|diff| = 6 > pi) is in bounds -/
theorem three_inB : so2InB (3 : ℝ) = true ∧ so2InB (-3 : ℝ) = true := by
  constructor <;> rw [so2InB_iff] <;> constructor <;> linarith [Real.pi_gt_three]

example : so2Interp (3 : ℝ) (-3) 0 = 3 := so2_interp_zero _ _ three_inB.1
example : so2Interp (3 : ℝ) (-3) 1 = -3 := so2_interp_one _ _ three_inB.2
example : so2InB (so2Interp (3 : ℝ) (-3) (1 / 2)) = true :=
  so2_interp_inbounds _ _ _ three_inB.1 three_inB.2 (by norm_num) (by norm_num)
example : so2Interp (so2Interp (3 : ℝ) (-3) (1 / 2)) (-3) (1 / 2)
    = so2Interp 3 (-3) (1 / 2 + (1 - 1 / 2) * (1 / 2)) :=
  so2_interp_reparam _ _ _ _ three_inB.1 three_inB.2 (by norm_num) (by norm_num) (by norm_num) (by norm_num)
example : so2Dist (3 : ℝ) (so2Interp 3 (-3) (1 / 3)) = 1 / 3 * so2Dist 3 (-3) :=
  so2_interp_dist_prop _ _ _ three_inB.1 three_inB.2 (by norm_num) (by norm_num)

end OmplModel.Props.C07
