import OmplModel.Proofs.SpaceDistLaws
import OmplModel.Proofs.SpaceDistDom
import OmplModel.Proofs.SpaceDistSO3Code
import OmplModel.Proofs.SpaceDistSphereLaws
import OmplModel.Proofs.SpaceDistXLaws
import OmplModel.Proofs.SpaceDistWeights
import OmplModel.Generated.Claims
/-!
# C06 — state-space distances obey the metric laws each space claims

All theorems are about the executable model `OmplModel.SpaceDist.{dist, maxExtent, equalStates}`
(lean/OmplModel/Model/SpaceDist.lean, tied to the C++ by the bit-exact correspondence run of checks/c06.py)
instantiated at `ℝ` ([EX]: exact arithmetic; IEEE rounding is executed and compared, not verified).
"In-bounds well-typed" is `inDom sp a` (Proofs/SpaceDistLaws.lean): the state has the shape of a state of
`sp`, box values inside `[lo, hi]`, angles in `[-π, π)`, quaternions of norm 1, time inside its bounds.
`Laws sp` = non-negative ∧ zero to itself ∧ positive between states that are not `equalStates` ∧ symmetric ∧
triangle inequality; `ExtentLaw sp` = never larger than `maxExtent sp`.

Findings on the unchanged code are stated as negations with kernel-checked witnesses (`…_fails`), next to the
part that does hold (`…_partial` / `…_other_laws`).
-/
namespace OmplModel.C06
open OmplModel OmplModel.SpaceDist OmplModel.Generated
attribute [-instance] OmplModel.Num.instOfNat

/-! ## leaves whose six laws hold -/

/-- Rⁿ (Euclidean distance, any dimension, any box): all six laws. -/
theorem rn_metric (lo hi : List ℝ) : Laws (.rv lo hi) ∧ ExtentLaw (.rv lo hi) :=
  ⟨rv_laws lo hi, rv_extent lo hi⟩
example : inDom (.rv [0, 0] [1, 2]) (.rv [1, 1]) := by simp [inDom, rvIn]

/-- SO(2) (circle metric on [-π, π)): all six laws. -/
theorem so2_metric : Laws (.so2 : Space ℝ) ∧ ExtentLaw (.so2 : Space ℝ) := ⟨so2_laws, so2_extent⟩
example : inDom (.so2 : Space ℝ) (.so2 0) := by
  simp only [inDom]; rw [so2InBounds_real]; constructor <;> linarith [Real.pi_pos]

/-- time: the five laws, bounded or not; the extent law when bounded. -/
theorem time_metric (b : Bool) (lo hi : ℝ) : Laws (.time b lo hi) ∧ ExtentLaw (.time true lo hi) :=
  ⟨time_laws b lo hi, time_extent lo hi⟩
example : inDom (.time true 0 1) (.time (1 / 2 : ℝ)) := by simp [inDom]; norm_num

/-- an unbounded TimeStateSpace reports extent 1 while its distances are unbounded (finding F24). -/
theorem time_unbounded_extent_fails : ¬ ExtentLaw (.time false 0 0 : Space ℝ) := by
  intro h
  have := h (.time 0) (.time 5) (by show _ → _; simp) (by show _ → _; simp)
  simp only [SpaceDist.dist, maxExtent, timeDist_real, timeExtent_false_real] at this
  norm_num at this

/-- discrete: all six laws. -/
theorem discrete_metric (lo hi : Int) : Laws (.disc lo hi : Space ℝ) ∧ ExtentLaw (.disc lo hi : Space ℝ) :=
  ⟨disc_laws lo hi, disc_extent lo hi⟩
example : inDom (.disc 0 5 : Space ℝ) (.disc 3) := by simp [inDom]

/-- torus (L² product of two circle metrics): all six laws. -/
theorem torus_metric (R r : ℝ) : Laws (.torus R r) ∧ ExtentLaw (.torus R r) := ⟨torus_laws R r, torus_extent R r⟩
example : inDom (.torus 1 (1 / 2) : Space ℝ) (.ccons (.so2 0) (.ccons (.so2 0) .cnil)) := by
  simp only [inDom]; rw [so2InBounds_real]; refine ⟨⟨?_, ?_⟩, ?_, ?_⟩ <;> linarith [Real.pi_pos]

/-! ## SO(3) -/

/-- the UNCLAMPED `arccos |⟨p,q⟩|` on unit quaternions is a metric on SO(3) (up to `q ~ -q`), bounded by π/2. -/
theorem so3_unclamped_metric :
    (∀ x1 y1 z1 w1 x2 y2 z2 w2 : ℝ, 0 ≤ so3DistUnclamped x1 y1 z1 w1 x2 y2 z2 w2) ∧
    (∀ x y z w : ℝ, unitQ x y z w → so3DistUnclamped x y z w x y z w = 0) ∧
    (∀ x1 y1 z1 w1 x2 y2 z2 w2 : ℝ, unitQ x1 y1 z1 w1 → unitQ x2 y2 z2 w2 →
      (so3DistUnclamped x1 y1 z1 w1 x2 y2 z2 w2 = 0 ↔
        (x2 = x1 ∧ y2 = y1 ∧ z2 = z1 ∧ w2 = w1) ∨ (x2 = -x1 ∧ y2 = -y1 ∧ z2 = -z1 ∧ w2 = -w1))) ∧
    (∀ x1 y1 z1 w1 x2 y2 z2 w2 : ℝ,
      so3DistUnclamped x1 y1 z1 w1 x2 y2 z2 w2 = so3DistUnclamped x2 y2 z2 w2 x1 y1 z1 w1) ∧
    (∀ x1 y1 z1 w1 x2 y2 z2 w2 : ℝ, so3DistUnclamped x1 y1 z1 w1 x2 y2 z2 w2 ≤ Real.pi / 2) ∧
    (∀ x1 y1 z1 w1 x2 y2 z2 w2 x3 y3 z3 w3 : ℝ, unitQ x1 y1 z1 w1 → unitQ x2 y2 z2 w2 → unitQ x3 y3 z3 w3 →
      so3DistUnclamped x1 y1 z1 w1 x3 y3 z3 w3 ≤
        so3DistUnclamped x1 y1 z1 w1 x2 y2 z2 w2 + so3DistUnclamped x2 y2 z2 w2 x3 y3 z3 w3) :=
  ⟨so3U_nonneg, fun _ _ _ _ h => so3U_self h, fun _ _ _ _ _ _ _ _ h1 h2 => so3U_eq_zero_iff h1 h2, so3U_symm,
    so3U_le_half_pi, fun _ _ _ _ _ _ _ _ _ _ _ _ h1 h2 h3 => so3U_triangle h1 h2 h3⟩
example : unitQ 0 0 0 1 := by simp [unitQ]

/-- F5: the code's clamped `arcLength` violates the triangle inequality on unit quaternions
(rational witness: three rotations about one axis, 4e-5 rad apart). -/
theorem so3_triangle_fails : ¬ (∀ a b c : St ℝ, inDom (.so3 : Space ℝ) a → inDom .so3 b → inDom .so3 c →
    dist (.so3 : Space ℝ) a c ≤ dist .so3 a b + dist .so3 b c) := by
  intro h
  apply SpaceDist.so3_triangle_fails
  intro x1 y1 z1 w1 x2 y2 z2 w2 x3 y3 z3 w3 h1 h2 h3
  exact h (.so3 x1 y1 z1 w1) (.so3 x2 y2 z2 w2) (.so3 x3 y3 z3 w3) h1 h2 h3

/-- … but never by more than `2·arccos(1 - 10⁻⁹)` (≈ 8.9e-5): the bound the check uses to recognise F5. -/
theorem so3_triangle_partial (a b c : St ℝ) (ha : inDom (.so3 : Space ℝ) a) (hb : inDom (.so3 : Space ℝ) b)
    (hc : inDom (.so3 : Space ℝ) c) :
    dist (.so3 : Space ℝ) a c ≤ dist .so3 a b + dist .so3 b c + 2 * Real.arccos (1 - 1 / 10 ^ 9) := by
  obtain ⟨x1, y1, z1, w1, rfl, h1⟩ := so3_inDom_shape ha
  obtain ⟨x2, y2, z2, w2, rfl, h2⟩ := so3_inDom_shape hb
  obtain ⟨x3, y3, z3, w3, rfl, h3⟩ := so3_inDom_shape hc
  exact SpaceDist.so3_triangle_partial h1 h2 h3
example : inDom (.so3 : Space ℝ) (.so3 1 0 0 0) := by simp [inDom, unitQ]

/-- the other five laws hold for the clamped function. -/
theorem so3_other_laws :
    (∀ a b, inDom (.so3 : Space ℝ) a → inDom .so3 b → 0 ≤ dist (.so3 : Space ℝ) a b) ∧
    (∀ a, inDom (.so3 : Space ℝ) a → dist (.so3 : Space ℝ) a a = 0) ∧
    (∀ a b, inDom (.so3 : Space ℝ) a → inDom .so3 b → equalStates (.so3 : Space ℝ) a b = false →
      0 < dist (.so3 : Space ℝ) a b) ∧
    (∀ a b, inDom (.so3 : Space ℝ) a → inDom .so3 b → dist (.so3 : Space ℝ) a b = dist .so3 b a) ∧
    ExtentLaw (.so3 : Space ℝ) := by
  refine ⟨?_, ?_, ?_, ?_, ?_⟩
  · intro a b ha hb
    obtain ⟨x1, y1, z1, w1, rfl, _⟩ := so3_inDom_shape ha
    obtain ⟨x2, y2, z2, w2, rfl, _⟩ := so3_inDom_shape hb
    exact so3Dist_nonneg _ _ _ _ _ _ _ _
  · intro a ha
    obtain ⟨x1, y1, z1, w1, rfl, h1⟩ := so3_inDom_shape ha
    exact so3Dist_self h1
  · intro a b ha hb hne
    obtain ⟨x1, y1, z1, w1, rfl, _⟩ := so3_inDom_shape ha
    obtain ⟨x2, y2, z2, w2, rfl, _⟩ := so3_inDom_shape hb
    exact so3Dist_pos hne
  · intro a b ha hb
    obtain ⟨x1, y1, z1, w1, rfl, _⟩ := so3_inDom_shape ha
    obtain ⟨x2, y2, z2, w2, rfl, _⟩ := so3_inDom_shape hb
    exact so3Dist_symm _ _ _ _ _ _ _ _
  · intro a b ha hb
    obtain ⟨x1, y1, z1, w1, rfl, _⟩ := so3_inDom_shape ha
    obtain ⟨x2, y2, z2, w2, rfl, _⟩ := so3_inDom_shape hb
    exact so3Dist_le_extent _ _ _ _ _ _ _ _
example : inDom (.so3 : Space ℝ) (.so3 0 0 0 1) := by simp [inDom, unitQ]

/-! ### SO(3) under the code's own in-bounds predicate (norm within 1e-9 of 1, not exactly 1) -/

/-- for every pair of states the CODE accepts (slightly non-unit quaternions included): the distance is
non-negative, symmetric, within the extent, positive between states that are not `equalStates`, and `acos` is only
ever evaluated on `[0, 1 - 10⁻⁹]` (the clamp doubles as the domain guard: no NaN, whatever the norms).
`_partial`: zero distance to itself and the triangle inequality are missing — see `so3_code_inbounds_self_fails`,
`so3_triangle_fails`. -/
theorem so3_code_inbounds_laws_partial (a b : St ℝ) (ha : satisfiesBounds (.so3 : Space ℝ) a = true)
    (hb : satisfiesBounds (.so3 : Space ℝ) b = true) :
    0 ≤ SpaceDist.dist (.so3 : Space ℝ) a b ∧
    SpaceDist.dist (.so3 : Space ℝ) a b = SpaceDist.dist .so3 b a ∧
    SpaceDist.dist (.so3 : Space ℝ) a b ≤ maxExtent (.so3 : Space ℝ) ∧
    (equalStates (.so3 : Space ℝ) a b = false → 0 < SpaceDist.dist (.so3 : Space ℝ) a b) ∧
    (SpaceDist.dist (.so3 : Space ℝ) a b = 0 ∨
      ∃ t : ℝ, 0 ≤ t ∧ t ≤ 1 - 1 / 10 ^ 9 ∧ SpaceDist.dist (.so3 : Space ℝ) a b = Real.arccos t) := by
  obtain ⟨x1, y1, z1, w1, rfl, _⟩ := so3_code_shape ha
  obtain ⟨x2, y2, z2, w2, rfl, _⟩ := so3_code_shape hb
  refine ⟨so3Dist_nonneg _ _ _ _ _ _ _ _, so3Dist_symm _ _ _ _ _ _ _ _, so3Dist_le_extent _ _ _ _ _ _ _ _,
    fun hne => so3Dist_pos hne, ?_⟩
  rcases so3Dist_acos_arg x1 y1 z1 w1 x2 y2 z2 w2 with ⟨_, h0⟩ | ⟨h1, h2, h3⟩
  · exact Or.inl h0
  · exact Or.inr ⟨_, h1, h2, h3⟩
example : satisfiesBounds (.so3 : Space ℝ) (.so3 0 0 0 wq) = true := wq_inBounds

/-- F76: the quaternion `(0,0,0,1-7.5·10⁻¹⁰)` satisfies the code's bounds (norm within 1e-9 of 1) but its squared
norm `1-1.5·10⁻⁹` is below the clamp threshold `1-10⁻⁹`: its distance to ITSELF is `acos(n²) ≈ 5.5e-5 ≥ ε`, and it is
not `equalStates` to itself. -/
theorem so3_code_inbounds_self_fails :
    ¬ (∀ a : St ℝ, satisfiesBounds (.so3 : Space ℝ) a = true →
        SpaceDist.dist (.so3 : Space ℝ) a a = 0 ∧ equalStates (.so3 : Space ℝ) a a = true) := by
  intro h
  have := (h (.so3 0 0 0 wq) wq_inBounds).2
  simp only [equalStates] at this
  rw [wq_not_equal_self] at this
  exact absurd this (by simp)

/-! ## Möbius strip, Klein bottle, sphere (F6, F12) -/

/-- F6 (fixed by 02d37426b: the space no longer claims `isMetricSpace()`; this is why): the Möbius distance
(intervalMax = 1, the default) is not a metric:
`d((-1.6,1),(1.6,1)) = 2π-1.2 > 1.6 + 1.6` via `(0,1)`. -/
theorem mobius_triangle_fails : ¬ (∀ a b c : St ℝ, inDom (.mobius 1 1 : Space ℝ) a → inDom (.mobius 1 1 : Space ℝ) b →
    inDom (.mobius 1 1 : Space ℝ) c →
    dist (.mobius 1 1 : Space ℝ) a c ≤ dist (.mobius 1 1 : Space ℝ) a b + dist (.mobius 1 1 : Space ℝ) b c) := by
  intro h
  apply Seam.mobius_triangle_fails
  intro u1 v1 u2 v2 u3 v3 h1 h2 h3 k1 k2 k3
  exact h (.ccons (.so2 u1) (.ccons (.rv [v1]) .cnil)) (.ccons (.so2 u2) (.ccons (.rv [v2]) .cnil))
    (.ccons (.so2 u3) (.ccons (.rv [v3]) .cnil)) ⟨h1, k1⟩ ⟨h2, k2⟩ ⟨h3, k3⟩

/-- F6 (fixed by 02d37426b, as above): the Klein-bottle distance is not a metric: `d((0.7,0.1),(2.4,0.1)) = 2π-1.9 > 0.85+0.85` via `(1.55,0.1)`. -/
theorem klein_triangle_fails : ¬ (∀ a b c : St ℝ, inDom (.klein : Space ℝ) a → inDom (.klein : Space ℝ) b →
    inDom (.klein : Space ℝ) c →
    dist (.klein : Space ℝ) a c ≤ dist (.klein : Space ℝ) a b + dist (.klein : Space ℝ) b c) := by
  intro h
  apply Seam.klein_triangle_fails
  intro u1 v1 u2 v2 u3 v3 h1 h2 h3 k1 k2 k3
  exact h (.ccons (.rv [u1]) (.ccons (.so2 v1) .cnil)) (.ccons (.rv [u2]) (.ccons (.so2 v2) .cnil))
    (.ccons (.rv [u3]) (.ccons (.so2 v3) .cnil)) ⟨h1, k1⟩ ⟨h2, k2⟩ ⟨h3, k3⟩

/-- what does hold of the Möbius distance as coded: non-negative, zero to itself, symmetric, within the extent. -/
theorem mobius_other_laws (imax : ℝ) (h0 : 0 ≤ imax) (u1 v1 u2 v2 : ℝ)
    (hu1 : so2InBounds u1 = true) (hu2 : so2InBounds u2 = true) (hv1 : |v1| ≤ imax) (hv2 : |v2| ≤ imax) :
    0 ≤ mobiusDist u1 v1 u2 v2 ∧ mobiusDist u1 v1 u1 v1 = 0 ∧ mobiusDist u1 v1 u2 v2 = mobiusDist u2 v2 u1 v1 ∧
    mobiusDist u1 v1 u2 v2 ≤ maxExtent (.mobius imax 1 : Space ℝ) :=
  ⟨Seam.mobiusDist_nonneg _ _ _ _ hu1 hu2, Seam.mobiusDist_self _ _, Seam.mobiusDist_symm _ _ _ _,
    by rw [Seam.maxExtent_mobius]; exact Seam.mobiusDist_le_extent _ _ _ _ _ hv1 hv2 h0⟩
example : so2InBounds (0:ℝ) = true ∧ |(1/2:ℝ)| ≤ 1 := by
  refine ⟨?_, by norm_num [abs_le]⟩
  rw [so2InBounds_real]; constructor <;> linarith [Real.pi_pos]

/-- what does hold of the Klein-bottle distance as coded. -/
theorem klein_other_laws (u1 v1 u2 v2 : ℝ) (hu1 : 0 ≤ u1 ∧ u1 ≤ Real.pi) (hu2 : 0 ≤ u2 ∧ u2 ≤ Real.pi)
    (hv1 : so2InBounds v1 = true) (hv2 : so2InBounds v2 = true) :
    0 ≤ kleinDist u1 v1 u2 v2 ∧ kleinDist u1 v1 u1 v1 = 0 ∧ kleinDist u1 v1 u2 v2 = kleinDist u2 v2 u1 v1 ∧
    kleinDist u1 v1 u2 v2 ≤ maxExtent (.klein : Space ℝ) :=
  ⟨Seam.kleinDist_nonneg _ _ _ _ hu1 hu2 hv1 hv2, Seam.kleinDist_self _ _, Seam.kleinDist_symm _ _ _ _ hv1 hv2,
    by rw [Seam.maxExtent_klein]; exact Seam.kleinDist_le_extent _ _ _ _⟩
example : (0:ℝ) ≤ 1 ∧ (1:ℝ) ≤ Real.pi := ⟨by norm_num, by linarith [Real.pi_gt_three]⟩

/-- F26: the two in-bounds states `(u=0, v=0)` and `(u=π, v=-π)` are the same point of the Klein bottle (glued
boundary): their distance is 0, yet `equalStates` (componentwise) says they differ — positivity fails. -/
theorem klein_glued_points_distance_zero :
    SpaceDist.dist (.klein : Space ℝ) (.ccons (.rv [0]) (.ccons (.so2 0) .cnil))
      (.ccons (.rv [Real.pi]) (.ccons (.so2 (-Real.pi)) .cnil)) = 0 ∧
    equalStates (.klein : Space ℝ) (.ccons (.rv [0]) (.ccons (.so2 0) .cnil))
      (.ccons (.rv [Real.pi]) (.ccons (.so2 (-Real.pi)) .cnil)) = false := by
  have hpi := Real.pi_pos
  constructor
  · simp only [SpaceDist.dist]
    rw [Seam.kleinDist_r]
    have h1 : ¬ (|Real.pi - 0| ≤ Real.pi / 2) := by
      rw [sub_zero, abs_of_pos hpi]; linarith
    rw [if_neg h1, if_neg (by linarith : ¬ (0 < -Real.pi))]
    rw [Seam.so2Dist_r]
    simp [abs_of_pos hpi, hpi.le]
  · simp only [equalStates, Bool.and_eq_false_iff]
    left
    rw [rvEqual_cons]
    have : (eps : ℝ) * 2 < |(0:ℝ) - Real.pi| := by
      rw [zero_sub, abs_neg, abs_of_pos hpi, eps_real]
      linarith [Real.pi_gt_three]
    rw [if_pos this]

/-- the coded haversine expression (over ℝ) IS the great-circle distance: `r` times the angle between the unit
vectors `u(θ,φ) = (sin φ cos θ, sin φ sin θ, cos φ)` of the two states. -/
theorem sphere_haversine_is_angle (r : ℝ) (a b : St ℝ) (ha : inDom (.sphere r) a) (hb : inDom (.sphere r) b) :
    SpaceDist.dist (.sphere r) a b = r * InnerProductGeometry.angle (sphereVec a) (sphereVec b) :=
  sphere_is_angle r a b ha hb
example : inDom (.sphere 1 : Space ℝ) (.ccons (.so2 0) (.ccons (.rv [0]) .cnil)) := by
  refine ⟨?_, le_refl _, Real.pi_pos.le⟩
  rw [so2InBounds_real]; constructor <;> linarith [Real.pi_pos]

/-- hence the REAL formula is a metric on the points of the sphere, bounded by `π·r`: non-negative, zero to itself,
symmetric, triangle inequality, zero exactly between states with the same unit vector, and positive w.r.t. the code's
own `equalStates` whenever one of the states is off the poles.
`_partial` w.r.t. the property: (i) at the poles many (θ, φ) share one point, so distinct-by-`equalStates` states are at
distance 0 (`sphere_pole_distance_zero`, F12 first half); (ii) [fixed by 3ad69d0eb: the reported extent is now `π·r`, `sphere_extent_law`]; (iii) the code evaluates the formula in float32 — rounding is a finding, not a theorem. -/
theorem sphere_real_metric_partial (r : ℝ) (hr : 0 < r) :
    (∀ a b, inDom (.sphere r) a → inDom (.sphere r) b → 0 ≤ SpaceDist.dist (.sphere r) a b) ∧
    (∀ a, inDom (.sphere r) a → SpaceDist.dist (.sphere r) a a = 0) ∧
    (∀ a b, inDom (.sphere r) a → inDom (.sphere r) b → SpaceDist.dist (.sphere r) a b = SpaceDist.dist (.sphere r) b a) ∧
    (∀ a b c, inDom (.sphere r) a → inDom (.sphere r) b → inDom (.sphere r) c →
      SpaceDist.dist (.sphere r) a c ≤ SpaceDist.dist (.sphere r) a b + SpaceDist.dist (.sphere r) b c) ∧
    (∀ a b, inDom (.sphere r) a → inDom (.sphere r) b → SpaceDist.dist (.sphere r) a b ≤ Real.pi * r) ∧
    (∀ a b, inDom (.sphere r) a → inDom (.sphere r) b →
      (SpaceDist.dist (.sphere r) a b = 0 ↔ sphereVec a = sphereVec b)) ∧
    (∀ a b, inDom (.sphere r) a → inDom (.sphere r) b → sphereOffPole a → equalStates (.sphere r) a b = false →
      0 < SpaceDist.dist (.sphere r) a b) :=
  ⟨fun a b ha hb => sphere_nonneg' hr.le a b ha hb, fun a ha => sphere_self' r a ha,
    fun a b ha hb => sphere_symm' r a b ha hb, fun a b c ha hb hc => sphere_triangle' hr.le a b c ha hb hc,
    fun a b ha hb => sphere_le_pi_r' hr.le a b ha hb, fun a b ha hb => sphere_zero_iff' hr a b ha hb,
    fun a b ha hb hoff hne => sphere_pos_off_pole hr a b ha hb hoff hne⟩
example : inDom (.sphere 3 : Space ℝ) (.ccons (.so2 0) (.ccons (.rv [1]) .cnil)) ∧
    sphereOffPole (.ccons (.so2 0) (.ccons (.rv [(1:ℝ)]) .cnil)) := by
  refine ⟨⟨?_, by norm_num, by linarith [Real.pi_gt_three]⟩, by norm_num, by linarith [Real.pi_gt_three]⟩
  rw [so2InBounds_real]; constructor <;> linarith [Real.pi_pos]

/-- F12: on the sphere (real haversine formula) all states with φ = 0 are at distance 0 from each other although
`equalStates` distinguishes them … -/
theorem sphere_pole_distance_zero (r t1 t2 : ℝ) :
    dist (.sphere r : Space ℝ) (.ccons (.so2 t1) (.ccons (.rv [0]) .cnil)) (.ccons (.so2 t2) (.ccons (.rv [0]) .cnil)) = 0 := by
  simp only [SpaceDist.dist]
  exact Seam.sphere_pole_distance_zero r t1 t2

/-- since the fix 3ad69d0eb (F12's extent half) the reported extent is `π·r`, the diameter of the sphere under its own
(real) distance: the extent law holds. -/
theorem sphere_extent_law (r : ℝ) (hr : 0 ≤ r) : ExtentLaw (.sphere r : Space ℝ) := by
  intro a b ha hb
  rw [Seam.maxExtent_sphere]
  exact sphere_le_pi_r' hr a b ha hb
example : (0:ℝ) ≤ 3 := by norm_num

/-- why the old extent was wrong: the inherited compound extent `π + π` (what `getMaximumExtent()` returned before
3ad69d0eb) is exceeded by the pole-to-pole distance `π·r` as soon as `r > 2`. -/
theorem sphere_old_extent_exceeded (r : ℝ) (hr : 2 < r) :
    cmp2 Real.pi (rvExtent [0] [Real.pi]) <
      SpaceDist.dist (.sphere r : Space ℝ) (.ccons (.so2 0) (.ccons (.rv [0]) .cnil))
        (.ccons (.so2 0) (.ccons (.rv [Real.pi]) .cnil)) := by
  simp only [SpaceDist.dist]
  exact Seam.sphere_extent_exceeded r hr
example : (2:ℝ) < 3 := by norm_num

/-! ## compounds and wrappers -/

/-- the distance of a compound is the weighted sum of its components' distances (head + rest). -/
theorem compound_dist_is_weighted_sum (w : ℝ) (h t : Space ℝ) (ht : isCList t = true) (a1 a2 b1 b2 : St ℝ) :
    dist (.ccons w h t) (.ccons a1 a2) (.ccons b1 b2) = w * dist h a1 b1 + dist t a2 b2 ∧
    dist (.cnil : Space ℝ) .cnil .cnil = 0 :=
  ⟨dist_ccons w h t ht a1 a2 b1 b2, by simp [SpaceDist.dist]⟩
example : isCList (.ccons (1 / 2) .so2 .cnil : Space ℝ) = true := rfl

/-- the weighted-sum clause in closed form, for EVERY weight vector (no hypothesis on the weights: in particular every
non-negative one, however small — `CompoundStateSpace::distance` has no lower cut-off, unlike `getMaximumExtent`):
the distance of the compound `[(w₀,s₀), …, (wₙ₋₁,sₙ₋₁)]` between the states `(a₀,…)`, `(b₀,…)` is `Σ wᵢ·dist sᵢ aᵢ bᵢ`. -/
theorem compound_dist_weighted_sum_all (cs : List (ℝ × Space ℝ)) (as bs : List (St ℝ)) :
    dist (compoundOf cs) (stateOf as) (stateOf bs) = weightedSum cs as bs := dist_compoundOf cs as bs
example : weightedSum [(1, .rv [0] [1]), (1 / 2 ^ 53, .time true 0 (2 ^ 60))] [.rv [0], .time 0] [.rv [0], .time (2 ^ 60)]
    = 128 := by
  simp only [weightedSum, SpaceDist.dist, rvDist_self, timeDist_real]; norm_num

/-- (item D) for compounds as `addSubspace` builds them the shape hypothesis `isCList` of the theorems below is established,
not assumed: components that satisfy the laws, under ANY positive weights (no lower cut-off), give a compound that satisfies them;
with non-negative weights the extent law carries over as well. -/
theorem compound_of_list_metric (cs : List (ℝ × Space ℝ)) :
    ((∀ c ∈ cs, 0 < c.1 ∧ Laws c.2) → Laws (compoundOf cs)) ∧
    ((∀ c ∈ cs, 0 ≤ c.1 ∧ ExtentLaw c.2) → ExtentLaw (compoundOf cs)) :=
  ⟨laws_compoundOf cs, extent_compoundOf cs⟩
example : ∀ c ∈ [((1:ℝ), (.rv [0] [1] : Space ℝ)), (1 / 2 ^ 60, .so2)], 0 < c.1 ∧ Laws c.2 := by
  intro c hc
  simp only [List.mem_cons, List.mem_nil_iff, or_false] at hc
  rcases hc with rfl | rfl
  · exact ⟨by norm_num, rv_laws _ _⟩
  · exact ⟨by norm_num, so2_laws⟩

/-- the reported extent of a compound is the weighted sum of its components' extents, for every positive weight (since
bb83952a6 no lower cut-off; a zero weight drops the component, which over ℝ is the same sum). -/
theorem compound_extent_is_weighted_sum (w : ℝ) (h t : Space ℝ) (ht : isCList t = true) (hw : 0 ≤ w) :
    maxExtent (.ccons w h t) = w * maxExtent h + maxExtent t := by
  rcases hw.lt_or_eq with hp | rfl
  · exact maxExtent_ccons w h t ht hp
  · rw [maxExtent_ccons_zero h t ht]; simp
example : (0 : ℝ) ≤ 1 / 2 ^ 60 := by norm_num

/-- **compound_metric**: for ARBITRARILY NESTED weighted compounds (and wrappers anywhere in the tree): if every
leaf satisfies the five laws and all weights are > 0, so does the whole space.  By structural induction on `Space`. -/
theorem compound_metric (sp : Space ℝ) (h : AllLeaves (fun w => 0 < w) Laws sp) : Laws sp :=
  compound_metric_aux sp h
example : AllLeaves (fun w => 0 < w) Laws (.ccons 2 (.rv [0] [1]) (.ccons 1 .so2 .cnil) : Space ℝ) :=
  ⟨by norm_num, rv_laws _ _, ⟨by norm_num, so2_laws, trivial, rfl⟩, rfl⟩

/-- the same for the extent law, for EVERY non-negative weight vector (the code as it stands: guard `weights_[i] > 0`,
bb83952a6), under any nesting: no lower cut-off is left. -/
theorem compound_extent (sp : Space ℝ) (h : AllLeaves (fun w => 0 ≤ w) ExtentLaw sp) : ExtentLaw sp :=
  compound_extent_aux sp h
example : AllLeaves (fun w => 0 ≤ w) ExtentLaw
    (.ccons 1 (.rv [0] [1]) (.ccons (1 / 2 ^ 60) .so2 (.ccons 0 (.time true 0 1) .cnil)) : Space ℝ) := by
  refine ⟨by norm_num, rv_extent _ _, ⟨by norm_num, so2_extent, ⟨le_refl _, time_extent _ _, trivial, rfl⟩, rfl⟩, rfl⟩

/-- F360 (fixed by bb83952a6; this is why): with the FORMER guard `weights_[i] >= epsilon` (`maxExtentOld`) a component with
a legal weight `0 < w < 2⁻⁵²` was counted by `distance` but dropped from `getMaximumExtent`: in
`[(1, time [0,1]), (2⁻⁵³, time [0, 2⁶⁰])]` the in-bounds states `(0, 0)` and `(0, 2⁶⁰)` are at distance `128`, the old extent was `1`. -/
theorem compound_extent_subeps_weight_fails :
    ((0 : ℝ) < 1 / 2 ^ 53 ∧ (1 / 2 ^ 53 : ℝ) < eps) ∧ maxExtentOld subEpsSpace = 1 ∧
    ¬ (∀ a b, inDom subEpsSpace a → inDom subEpsSpace b → SpaceDist.dist subEpsSpace a b ≤ maxExtentOld subEpsSpace) :=
  ⟨subEps_weight_legal, subEps_extent_old, subEps_extent_old_fails⟩

/-- the repair closes the witness: the extent of the same space is now `1 + 128` and the law holds. -/
theorem compound_extent_repaired : maxExtent subEpsSpace = 129 ∧ ExtentLaw subEpsSpace :=
  ⟨subEps_extent, compound_extent subEpsSpace
    ⟨by norm_num, time_extent _ _, ⟨by norm_num, time_extent _ _, trivial, rfl⟩, rfl⟩⟩

/-- every space built from Rⁿ, SO(2), time, discrete and torus leaves by weighted compounds (weights > 0) and
wrappers, nested to any depth, satisfies the five laws — e.g. SE(2) = [(1, R²), (½, SO(2))]. -/
theorem shipped_metric (sp : Space ℝ) (h : AllLeaves (fun w => 0 < w) ProvedLeaf sp) : Laws sp :=
  compound_metric sp (AllLeaves.mono provedLeaf_laws sp h)
example : AllLeaves (fun w => 0 < w) ProvedLeaf
    (.ccons 1 (.rv [0, 0] [1, 1]) (.ccons (1 / 2) .so2 .cnil) : Space ℝ) := by
  simp [AllLeaves, ProvedLeaf, isCList]
example : AllLeaves (fun w => 0 < w) ProvedLeaf
    (.ccons 2 (.wrap (.ccons 1000 (.torus 1 (1 / 2)) (.ccons (1 / 1000) (.disc 0 3) .cnil))) (.ccons 1 (.time true 0 1) .cnil) : Space ℝ) := by
  simp [AllLeaves, ProvedLeaf, isCList]

/-- a wrapper space has exactly its inner space's laws. -/
theorem wrapper_laws (s : Space ℝ) : (Laws (.wrap s) ↔ Laws s) ∧ (ExtentLaw (.wrap s) ↔ ExtentLaw s) :=
  ⟨wrap_laws_iff s, wrap_extent_iff s⟩
example : Laws (.wrap (.so2) : Space ℝ) := (wrap_laws_iff _).2 so2_laws

/-- a zero weight makes the compound a pseudo-metric by the user's choice: the component is simply ignored. -/
theorem zero_weight_ignored (h t : Space ℝ) (ht : isCList t = true) (a1 a2 b1 b2 : St ℝ) :
    dist (.ccons 0 h t) (.ccons a1 a2) (.ccons b1 b2) = dist t a2 b2 := by
  rw [dist_ccons 0 h t ht]; simp
example : isCList (.ccons 1 (.rv [0] [1]) .cnil : Space ℝ) = true := rfl

/-- the exact domain of the theorems above lies inside what the code's `satisfiesBounds` accepts (which adds
ε = 2⁻⁵² around boxes and time bounds, 1e-9 around the unit quaternions): every modelled leaf (Rⁿ, SO(2), SO(3), time,
discrete, torus, Möbius, Klein bottle, sphere) under any nesting of compounds and wrappers. -/
theorem domain_inside_code_bounds (sp : Space ℝ) (h : AllLeaves (fun _ => True) CodeLeaf sp) (a : St ℝ)
    (ha : inDom sp a) : satisfiesBounds sp a = true := inDom_satisfiesBounds sp h a ha
example : AllLeaves (fun _ => True) CodeLeaf (.ccons 1 (.rv [0] [1]) (.ccons 1 .so3 .cnil) : Space ℝ) := by
  simp [AllLeaves, CodeLeaf, isCList]
example : AllLeaves (fun _ => True) CodeLeaf
    (.ccons 2 (.mobius 1 1) (.ccons 1 .klein (.ccons 1 (.wrap (.sphere 3)) .cnil)) : Space ℝ) := by
  simp [AllLeaves, CodeLeaf, isCList]

/-- F135: a compound with a ZERO weight still claims `isMetricSpace()` (all its components do), but states that differ
only in the zero-weight component are at distance 0 without being `equalStates`: a pseudo-metric.  (Triangle, symmetry
and non-negativity survive, which is all the nearest-neighbour structures need.) -/
theorem zero_weight_positivity_fails :
    claimsMetric (.ccons 0 .so2 (.ccons 1 (.rv [0] [1]) .cnil) : Space ℝ) = true ∧
    ¬ (∀ a b, inDom (.ccons 0 .so2 (.ccons 1 (.rv [0] [1]) .cnil) : Space ℝ) a →
        inDom (.ccons 0 .so2 (.ccons 1 (.rv [0] [1]) .cnil) : Space ℝ) b →
        equalStates (.ccons 0 .so2 (.ccons 1 (.rv [0] [1]) .cnil) : Space ℝ) a b = false →
        0 < SpaceDist.dist (.ccons 0 .so2 (.ccons 1 (.rv [0] [1]) .cnil) : Space ℝ) a b) := by
  refine ⟨rfl, fun h => ?_⟩
  have hpi := Real.pi_gt_three
  have in0 : so2InBounds (0:ℝ) = true := by rw [so2InBounds_real]; constructor <;> linarith
  have in1 : so2InBounds (1:ℝ) = true := by rw [so2InBounds_real]; constructor <;> linarith
  have hrv : rvIn [(0:ℝ)] [0] [1] := by simp [rvIn]
  have hne : so2Equal (0:ℝ) 1 = false := by
    rw [so2Equal_false_real, eps_real]; norm_num
  have := h (.ccons (.so2 0) (.ccons (.rv [0]) .cnil)) (.ccons (.so2 1) (.ccons (.rv [0]) .cnil))
    ⟨in0, hrv, trivial⟩ ⟨in1, hrv, trivial⟩ (by simp [equalStates, hne])
  rw [zero_weight_ignored _ _ rfl, dist_ccons _ _ _ rfl] at this
  simp [SpaceDist.dist, rvDist_self] at this

/-! ## the shipped spaces outside the shared `Space` type (Model/SpaceDistX.lean; `none` = +∞) -/

/-- EmptyStateSpace: every distance is 0, all (well-typed) states are `equalStates`, extent 0 — all six laws trivially. -/
theorem empty_metric (a b : St ℝ) (ha : inDom (SpaceX.empty : SpaceX ℝ).layout a)
    (hb : inDom (SpaceX.empty : SpaceX ℝ).layout b) :
    distX (.empty : SpaceX ℝ) a b = some 0 ∧ equalX (.empty : SpaceX ℝ) a b = true ∧
    extentX (.empty : SpaceX ℝ) = some 0 ∧ claimsMetricX (.empty : SpaceX ℝ) = true :=
  ⟨empty_dist a b, empty_equal a b ha hb, by simp [extentX], rfl⟩
example : inDom (SpaceX.empty : SpaceX ℝ).layout (.rv []) := by simp [SpaceX.layout, inDom, rvIn]

/-- SpaceTimeStateSpace (claims a symmetric distance, NOT a metric), with its CURRENT weights `w0`, `w1` (set by the
constructor, changeable by `setSubspaceWeight`): zero to itself, symmetric (the reachability test is symmetric too), and
whenever finite: non-negative, positive between states that are not `equalStates` for ANY two positive weights (no lower
cut-off); its extent is `+∞`, so the extent law is vacuous. -/
theorem spacetime_claimed_laws (vmax w0 w1 : ℝ) (bd : Bool) (lo hi : ℝ) (inner : Space ℝ) (h0 : 0 < w0)
    (h1 : 0 < w1) (L : Laws inner) :
    (∀ a, inDom (SpaceX.spacetime vmax w0 w1 bd lo hi inner).layout a →
      distX (.spacetime vmax w0 w1 bd lo hi inner) a a = some 0) ∧
    (∀ a b, inDom (SpaceX.spacetime vmax w0 w1 bd lo hi inner).layout a →
      inDom (SpaceX.spacetime vmax w0 w1 bd lo hi inner).layout b →
      distX (.spacetime vmax w0 w1 bd lo hi inner) a b = distX (.spacetime vmax w0 w1 bd lo hi inner) b a) ∧
    (∀ a b d, inDom (SpaceX.spacetime vmax w0 w1 bd lo hi inner).layout a →
      inDom (SpaceX.spacetime vmax w0 w1 bd lo hi inner).layout b →
      distX (.spacetime vmax w0 w1 bd lo hi inner) a b = some d →
      0 ≤ d ∧ (equalX (.spacetime vmax w0 w1 bd lo hi inner) a b = false → 0 < d)) ∧
    extentX (.spacetime vmax w0 w1 bd lo hi inner) = none ∧ claimsMetricX (.spacetime vmax w0 w1 bd lo hi inner) = false :=
  let ⟨a, b, c⟩ := spacetime_laws vmax w0 w1 bd lo hi inner h0 h1 L
  ⟨a, b, c, rfl, rfl⟩
example : Laws (.rv [0, 0] [1, 1] : Space ℝ) ∧ (0:ℝ) < 1 / 2 ^ 60 := ⟨rv_laws _ _, by norm_num⟩

/-- SpaceTimeStateSpace: the constructor refuses a time weight outside `[0, 1]` and otherwise installs the weights
`1 - timeWeight`, `timeWeight`; whenever the distance is finite it IS the weighted sum of the two components' distances
with the current weights, whatever they are (no cut-off). -/
theorem spacetime_dist_is_weighted_sum (vmax w0 w1 tw : ℝ) (bd : Bool) (lo hi : ℝ) (inner : Space ℝ) (a1 b1 : St ℝ)
    (t1 t2 d : ℝ) :
    (SpaceX.mkSpacetime? vmax tw bd lo hi inner =
      if tw < 0 ∨ 1 < tw then none else some (.spacetime vmax (1 - tw) tw bd lo hi inner)) ∧
    (distX (.spacetime vmax w0 w1 bd lo hi inner) (.ccons a1 (.ccons (.time t1) .cnil)) (.ccons b1 (.ccons (.time t2) .cnil))
        = some d →
      d = w0 * SpaceDist.dist inner a1 b1 + w1 * SpaceDist.dist (.time bd lo hi) (.time t1) (.time t2)) := by
  refine ⟨mkSpacetime_real vmax tw bd lo hi inner, fun h => ?_⟩
  rw [spacetime_dist_real] at h
  split_ifs at h
  simp only [SpaceDist.dist, timeDist_real]
  exact (Option.some.inj h).symm
example : distX (.spacetime 1 (1 / 2) (1 / 2) false 0 0 .so2 : SpaceX ℝ) (.ccons (.so2 0) (.ccons (.time 0) .cnil))
    (.ccons (.so2 0) (.ccons (.time 1) .cnil)) = some (1 / 2) := by
  rw [spacetime_dist_real]
  simp only [SpaceDist.dist, so2Dist_self]
  rw [if_neg (by rw [fltEps_real]; norm_num)]
  norm_num

/-- F361: Torus / Möbius / Klein-bottle spaces are compounds whose weights `setSubspaceWeight` may change; their `distance`
overrides apply the weights only partly (with the default weights `(1, 1)` the weighted model is the unweighted one), the
inherited `getMaximumExtent` applies them fully: on the Möbius strip with weights `(1, 1/10)` the in-bounds states `(-1.6, 1)`,
`(1.6, 1)` are farther apart (`2π − 1.2`) than the reported extent (`π + 0.2`). -/
theorem special_weights_extent_fails :
    (∀ u1 v1 u2 v2 : ℝ, mobiusDistW 1 1 u1 v1 u2 v2 = mobiusDist u1 v1 u2 v2) ∧
    inDom (.mobius 1 1 : Space ℝ) (.ccons (.so2 (-1.6)) (.ccons (.rv [1]) .cnil)) ∧
    inDom (.mobius 1 1 : Space ℝ) (.ccons (.so2 1.6) (.ccons (.rv [1]) .cnil)) ∧
    ∃ e d : ℝ, extentX (.weighted (.mobius 1 1) 1 (1 / 10) : SpaceX ℝ) = some e ∧
      distX (.weighted (.mobius 1 1) 1 (1 / 10) : SpaceX ℝ) (.ccons (.so2 (-1.6)) (.ccons (.rv [1]) .cnil))
        (.ccons (.so2 1.6) (.ccons (.rv [1]) .cnil)) = some d ∧ e < d := by
  obtain ⟨h1, h2, h3⟩ := mobius_weighted_extent_exceeded
  refine ⟨mobiusDistW_default, ⟨Seam.so2InBounds_of _ (by norm_num) (by norm_num), by norm_num⟩,
    ⟨Seam.so2InBounds_of _ (by norm_num) (by norm_num), by norm_num⟩, _, _, h1, h2, h3⟩

/-- Projected / Atlas / TangentBundle state spaces: distance, equalStates, satisfiesBounds and extent ARE the ambient
space's (so they have exactly the ambient space's laws), and `isMetricSpace()` is withdrawn. -/
theorem constrained_is_ambient (amb : Space ℝ) (a b : St ℝ) :
    distX (.constrained amb) a b = some (SpaceDist.dist amb a b) ∧ equalX (.constrained amb) a b = equalStates amb a b ∧
    inBoundsX (.constrained amb) a = satisfiesBounds amb a ∧ extentX (.constrained amb) = some (maxExtent amb) ∧
    claimsMetricX (.constrained amb) = false := constrained_forwards amb a b

/-- CForestStateSpaceWrapper forwards everything, the claims included. -/
theorem cforest_is_inner (s : SpaceX ℝ) (a b : St ℝ) :
    distX (.cforest s) a b = distX s a b ∧ equalX (.cforest s) a b = equalX s a b ∧
    inBoundsX (.cforest s) a = inBoundsX s a ∧ extentX (.cforest s) = extentX s ∧
    claimsMetricX (.cforest s) = claimsMetricX s := cforest_forwards s a b

/-! ## what the code claims (generated by running it) is covered -/

/-- spaces whose claimed metric laws (incl. symmetry) are proved above (`shipped_metric` and the leaf theorems) -/
def provedMetric : List String :=
  ["rv", "so2", "se2", "timeUnbounded", "timeBounded", "disc", "torus", "wrapRv", "wrapDisc", "compoundRvSo2",
   "compoundRvDisc", "empty", "cforestSe2"]
/-- spaces that claim to be metric spaces but are not: kernel-checked witnesses above; KNOWN_FINDINGS F5, F12, F135 (zero weight: pseudo-metric) -/
def knownNonMetric : List String := ["so3", "se3", "wrapSo3", "sphere", "cforestSo3", "compoundZeroWeight"]
/-- spaces that claim a symmetric distance only, with the symmetry proved above (`mobius_other_laws`,
`klein_other_laws`, `spacetime_claimed_laws`, `constrained_is_ambient` + `rn_metric`).  Since the fix 02d37426b Möbius and Klein bottle no longer claim `isMetricSpace()`;
`mobius_triangle_fails` / `klein_triangle_fails` say why.  They are deliberately NOT in the two lists above:
if one of them claims to be a metric space again, `claims_covered` fails. -/
def provedSymmetricOnly : List String :=
  ["mobius", "klein", "spaceTime", "projected", "atlas", "tangentBundle"]
/-- claims whose proof belongs to C14 (Reeds-Shepp, symmetrised Dubins): checked here by the oracle on the implementation -/
def delegated : List String := ["reedsShepp", "dubinsSym"]

/-- every shipped space that claims to be a metric space is in the proved list, the known-non-metric list or the
delegated list, and every space that claims a symmetric distance is in one of those or in the symmetric-only list —
a space that starts claiming a law nobody proved breaks the build. -/
theorem claims_covered :
    ∀ c ∈ claims,
      (c.metric = true → c.name ∈ provedMetric ∨ c.name ∈ knownNonMetric ∨ c.name ∈ delegated) ∧
      (c.symDist = true →
        c.name ∈ provedMetric ∨ c.name ∈ knownNonMetric ∨ c.name ∈ provedSymmetricOnly ∨ c.name ∈ delegated) := by
  decide
example : ∃ c ∈ claims, c.metric = true := by decide

end OmplModel.C06
