import OmplModel.Generated.Claims
namespace OmplModel.C06
open OmplModel.Generated

/-- spaces whose claimed metric laws are proved (Props below) -/
def provedMetric : List String :=
  ["rv", "so2", "se2", "timeUnbounded", "timeBounded", "disc", "torus", "wrapRv", "wrapDisc", "compoundRvSo2", "compoundRvDisc"]
/-- spaces that claim to be metric spaces but are not (kernel-checked witnesses below; KNOWN_FINDINGS F5, F6, F12) -/
def knownNonMetric : List String := ["so3", "se3", "wrapSo3", "mobius", "klein", "sphere"]
/-- claims whose proof belongs to another property (C14: Reeds-Shepp / symmetrised Dubins distances) — oracle-checked here -/
def delegated : List String := ["reedsShepp", "dubinsSym"]

theorem claims_covered :
    ∀ c ∈ claims, (c.metric = true ∨ c.symDist = true) →
      c.name ∈ provedMetric ∨ c.name ∈ knownNonMetric ∨ c.name ∈ delegated := by decide
end OmplModel.C06
