import OmplModel.Proofs.DubinsPointwise
import OmplModel.Props.C14A
/-!
# C14 (round 10, third lap) — the Dubins reach theorems for the AS-CODED `mod2pi`

The reach theorems of `Props/C14.lean` (`word_*_reaches`, `solve_reaches`) assume `Exact m2p`: the angle normalisation is exact modulo 2π
at EVERY argument.  The code's `mod2pi` is not (it sends `(DUBINS_ZERO, 0)` and the top `DUBINS_EPS/2` of `[0, 2π)` to 0), so no theorem
applied to the function the code calls.  Here the hypothesis is needed only at the two arguments the solver really evaluates
(`solverArgs`: the code's own `mod2pi(…)` arguments, the second one of RLR / LRL containing the result of the first), and it is
discharged for the as-coded `mod2pi` wherever neither fudge test fires at those two arguments (`NoFudge`):
**`solve_reaches_as_coded`** — whatever `solve mod2pi w d α β` returns reaches `(d, 0, β + 2πk)`.
-/
set_option linter.unusedSimpArgs false

namespace OmplModel.Props.C14E
open OmplModel OmplModel.Dubins

section AF
variable {α : Type} [DNum α]

/-- [AF] **`solve` reads the normalisation at exactly two arguments**: two normalisations that agree at `solverArgs` give the same result
(all six words; the `Float` run included). -/
theorem solve_depends_on_two_args (m m' : α → α) (w : Word) (d alpha beta : α)
    (h1 : m' (solverArgs m w d alpha beta).1 = m (solverArgs m w d alpha beta).1)
    (h2 : m' (solverArgs m w d alpha beta).2 = m (solverArgs m w d alpha beta).2) :
    solve m' w d alpha beta = solve m w d alpha beta :=
  solve_congr_args m m' w d alpha beta h1 h2

example (m : α → α) (w : Word) (d a b : α) : solve (fun x => m x) w d a b = solve m w d a b :=
  solve_depends_on_two_args m _ w d a b rfl rfl

/-- neither fudge test of the code's `mod2pi` fires at `x` -/
def NoFudge (x : α) : Prop := ¬ (x < 0 ∧ dzero < x) ∧ ¬ (twopi - mod2piExact x < half * eps)

end AF

attribute [-instance] Num.instOfNat
open DubinsR

/-- [EX] **the six reach theorems with exactness assumed only at the two evaluated arguments** (any normalisation). -/
theorem solve_reaches_pointwise (m2p : ℝ → ℝ) (w : Word) (d α β : ℝ) (P : Path ℝ)
    (h1 : ExactAt m2p (solverArgs m2p w d α β).1) (h2 : ExactAt m2p (solverArgs m2p w d α β).2)
    (hb : NoClamp w d α β) (h : solve m2p w d α β = some P) :
    P.w = w ∧ P.rev = false ∧
    (integFull stepFwd P.segList ⟨0, 0, α⟩).x = d ∧
    (integFull stepFwd P.segList ⟨0, 0, α⟩).y = 0 ∧
    ∃ k : ℤ, (integFull stepFwd P.segList ⟨0, 0, α⟩).th = β + k * (2 * Real.pi) :=
  solve_reaches_at m2p w d α β P h1 h2 hb h

-- the hypotheses are met by every exact normalisation, so this subsumes `solve_reaches`
example (m2p : ℝ → ℝ) (hm : Exact m2p) (w : Word) (d α β : ℝ) : ExactAt m2p (solverArgs m2p w d α β).1 := hm _

/-- [EX] off its fudge bands the as-coded `mod2pi` is exact at the argument -/
theorem mod2pi_exactAt_off_fudge (x : ℝ) (h : NoFudge x) : ExactAt mod2pi x := by
  unfold ExactAt
  rw [C14A.mod2pi_eq_exact_off_fudge x h.1 h.2]
  exact mod2piExact_exact x

-- non-vacuous: at x = 1 neither test fires (1 ≥ 0; 2π − 1 is not below 5e-7)
example : NoFudge (1 : ℝ) := by
  have hpi := Real.two_le_pi
  refine ⟨fun h => ?_, fun h => ?_⟩
  · have h0 := h.1
    simp only [ofNat_zero] at h0
    exact absurd (show (1 : ℝ) < 0 from h0) (by norm_num)
  · have h1 : mod2piExact (1 : ℝ) = 1 := by
      rw [mod2piExact_eq]
      have hf : ⌊(1 : ℝ) / (2 * Real.pi)⌋ = 0 := by
        rw [Int.floor_eq_zero_iff]
        constructor
        · positivity
        · rw [div_lt_one (by positivity)]; linarith
      rw [hf]; simp
    rw [h1] at h
    simp only [twopi_eq, half_eq, eps_eq] at h
    have : (1 : ℝ) / 2 * (1 / 10 ^ 6) < 1 := by norm_num
    linarith

/-- [EX] **the as-coded solvers reach the goal**: for the code's own `mod2pi` (fudges included), whatever `solve mod2pi w d α β` returns,
driven from `(0, 0, α)`, ends at `(d, 0, β + 2πk)` — provided neither fudge test fires at the two angles the solver normalises and (RSL / LSR)
`tmp` is outside the clamp band.  No idealised normalisation is left in the statement. -/
theorem solve_reaches_as_coded (w : Word) (d α β : ℝ) (P : Path ℝ)
    (h1 : NoFudge (solverArgs mod2pi w d α β).1) (h2 : NoFudge (solverArgs mod2pi w d α β).2)
    (hb : NoClamp w d α β) (h : solve mod2pi w d α β = some P) :
    P.w = w ∧ P.rev = false ∧
    (integFull stepFwd P.segList ⟨0, 0, α⟩).x = d ∧
    (integFull stepFwd P.segList ⟨0, 0, α⟩).y = 0 ∧
    ∃ k : ℤ, (integFull stepFwd P.segList ⟨0, 0, α⟩).th = β + k * (2 * Real.pi) :=
  solve_reaches_at mod2pi w d α β P (mod2pi_exactAt_off_fudge _ h1) (mod2pi_exactAt_off_fudge _ h2) hb h

-- the first argument of LSL for d = 4, α = β = 1 is −1 + atan2(0, 4) = −1: not in (−1e-7, 0), so the first fudge does not fire there
example : ¬ ((solverArgs (mod2pi : ℝ → ℝ) .LSL 4 1 1).1 < 0 ∧ (dzero : ℝ) < (solverArgs (mod2pi : ℝ → ℝ) .LSL 4 1 1).1) := by
  have e : (solverArgs (mod2pi : ℝ → ℝ) .LSL 4 1 1).1 = -1 := by
    simp only [solverArgs, cos_eq, sin_eq, atan2_eq]
    have : Complex.arg ⟨4 + Real.sin 1 - Real.sin 1, Real.cos 1 - Real.cos 1⟩ = 0 := by
      have h4 : (⟨4 + Real.sin 1 - Real.sin 1, Real.cos 1 - Real.cos 1⟩ : ℂ) = ((4 : ℝ) : ℂ) := by
        apply Complex.ext <;> simp
      rw [h4, Complex.arg_ofReal_of_nonneg (by norm_num)]
    rw [this]; ring
  rw [e]
  intro h
  have h2 := h.2
  rw [dzero_eq] at h2
  norm_num at h2

end OmplModel.Props.C14E
