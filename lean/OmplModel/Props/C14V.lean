import OmplModel.Proofs.VanaAF
import OmplModel.Proofs.VanaReal
/-!
# C14 — VanaStateSpace (3D Dubins by decoupling): what is proved about `Model/Vana.lean`

The model decouples a 3D Dubins problem into a horizontal Dubins problem (radius `rh`) and a Dubins problem for the
vertical profile in the (arc length, altitude) plane (radius `rv`, `1/rho² = 1/rh² + 1/rv²`).  `la : Bool` is the
model's `lastArc` flag: `false` = the validity test of `decoupled` before the fix of finding F129 (first arc only),
`true` = with the symmetric test on the last arc.  Helper lemmas: `Proofs/VanaAF.lean`, `Proofs/VanaReal.lean`.

Tags: **[AF]** arithmetic-free (generic over `[DNum α]`, no arithmetic law used: holds for the `Float` instance the
driver runs); **[EX]** exact arithmetic over ℝ (instance of `Proofs/DubinsReal.lean`).

What is proved
* [AF] `vana_decoupled_spec`: what a successful `decoupled` call returns — the two radii, `isfinite(rv)`, the start of
  the profile problem, the two `dubins(s1, s2, radius)` calls that produced `pathXY_` / `pathSZ_`, the validity facts of
  the pitch test (first arc; last arc too when `la`), and that the profile word is one of LSL, RSR, RSL, LSR.
* [AF] `vana_getPath_is_decoupled`: whatever `getPath` returns is the result of a `decoupled` call for some radius
  `rho · mult`; [EX] `vana_getPath_radius_ge`: over ℝ that multiplier is `≥ 1`.
* [AF] `vana_length_eq`: `length() = rv · (t + p + q)` of the profile word.
* [AF] `vana_optimise_not_longer` (using only irreflexivity and transitivity of `<`, which IEEE `<` has), [EX]
  `vana_optimise_not_longer_real`: the local optimisation never returns a longer path than the one it starts from.
* [EX] `vana_curvature_budget`, `vana_decoupled_curvature_budget`: for `0 < rho < radius` the vertical radius is
  positive and `1/rh² + 1/rv² = 1/rho²`.
* [EX] `vana_pitch_in_range` (`la = true`): with both end pitches in `[minP, maxP]`, every pitch on the first arc of the
  profile and every pitch on its last arc is in `[minP, maxP]` (the straight middle segment keeps the pitch of the end of
  the first arc) — what the fix of F129 buys; `vana_pitch_first_arc_only` (`la = false`): only the first-arc half.
* [EX] `vana_words_reach_target`, `vana_words_reach_target_exact`: for a horizontal solver word and a profile solver
  word (hypotheses of `C14W.dubins_interpolate_reaches_target`, twice), `interpolate(from, path, 1, ·)` is the target in
  x, y, z, pitch, yaw (angles modulo 2π / wrapped into `[-π, π)`).
* [EX] `vana_length_ge_straight_line`: under those hypotheses the reported length is at least the 3D Euclidean distance.
* [AF] `vana_interpolate_branches`: the branches of `interpolate(from, to, t, ·)` — note `from` for every `t` when no path
  is found; [EX] `vana_interpolate_curve_start`: `interpolate(from, p, 0, ·)` of a `decoupled` result is the start state.

What is NOT proved
* that `getPath`'s search (doubling, then ±step) finds the best radius, or that a feasible radius exists;
* that `dubinsStates` (the code's fudged `mod2pi`, the float32 classification table, the clamp band) returns a solver
  output for an `Exact` normalisation — the glue gap documented in `Props/C14W.lean`; the reach / length theorems here
  are therefore about a pair of solver words, not about the fields of a `decoupled` result;
* that `interpolate` traces the decoupled 3D path for `0 < t < 1`.  It does not (finding F128): x, y advance uniformly
  in `t` along the horizontal word while z follows the profile word's own arc length; only `t = 1` is covered here;
* floating-point rounding (for the [EX] theorems).
-/
namespace OmplModel.Props.C14V
open OmplModel OmplModel.Dubins OmplModel.Vana

/-! ## [AF] -/
section AF
variable {α : Type} [DNum α]

/-- [AF] **What a successful `decoupled(state1, state2, radius, ·)` returns.**  Horizontal radius `radius`; vertical
radius `1 / sqrt(1/rho² − 1/radius²)`, which passed `std::isfinite`; the profile problem starts at `(0, z₁, pitch₁)`;
`pathXY_` is `dubins((x₁,y₁,yaw₁), (x₂,y₂,yaw₂), radius)` and `pathSZ_` is
`dubins((0,z₁,pitch₁), (radius·|pathXY_|, z₂, pitch₂), rv)`; the profile word has the letters `a S c`, and the tests
that would have rejected it all failed: for `a = R` not `pitch₁ − t < minPitch`, for `a = L` not
`maxPitch < pitch₁ + t`, and with the last-arc test (`la`) for `c = R` not `maxPitch < pitch₂ + q`, for `c = L` not
`pitch₂ − q < minPitch`.  A word with middle letter `S` is one of the four CSC words. -/
theorem vana_decoupled_spec (la : Bool) (rho minP maxP : α) (s1 s2 : St5 α) (radius : α) (p : VPath α)
    (h : decoupled la rho minP maxP s1 s2 radius = some p) :
    p.rh = radius ∧
    p.rv = 1 / Num.sqrt (1 / (rho * rho) - 1 / (radius * radius)) ∧
    isFinite p.rv = true ∧
    p.startSZ = ⟨0, s1.z, s1.pitch⟩ ∧
    dubinsStates radius ⟨s1.x, s1.y, s1.yaw⟩ ⟨s2.x, s2.y, s2.yaw⟩ = .path p.xy ∧
    dubinsStates p.rv ⟨0, s1.z, s1.pitch⟩ ⟨radius * p.xy.len, s2.z, s2.pitch⟩ = .path p.sz ∧
    (∃ a c, p.sz.w.segs = [a, .S, c] ∧
      (a = .R → ¬ (s1.pitch - p.sz.t < minP)) ∧
      (a = .L → ¬ (maxP < s1.pitch + p.sz.t)) ∧
      (la = true → (c = .R → ¬ (maxP < s2.pitch + p.sz.q)) ∧ (c = .L → ¬ (s2.pitch - p.sz.q < minP)))) ∧
    (p.sz.w = .LSL ∨ p.sz.w = .RSR ∨ p.sz.w = .RSL ∨ p.sz.w = .LSR) := by
  obtain ⟨h1, h2, h3, h4, h5, h6, hv⟩ := decoupled_spec la rho minP maxP s1 s2 radius p h
  refine ⟨h1, h2, h3, h4, h5, h6, hv, ?_⟩
  obtain ⟨a, c, hs, _⟩ := hv
  exact word_of_middle_S _ a c hs

-- a CCC profile word is never accepted
example (la : Bool) (rho minP maxP : α) (s1 s2 : St5 α) (radius : α) (p : VPath α)
    (h : decoupled la rho minP maxP s1 s2 radius = some p) : p.sz.w ≠ .RLR := by
  have hw := (vana_decoupled_spec la rho minP maxP s1 s2 radius p h).2.2.2.2.2.2.2
  intro hc
  rw [hc] at hw
  simp at hw

/-- [AF] **`getPath` returns the result of a `decoupled` call**: the doubling loop and the optimisation loop only ever
hand back a path computed by `decoupled(state1, state2, rho · mult, ·)` for some multiplier `mult` they tried. -/
theorem vana_getPath_is_decoupled (la : Bool) (rho minP maxP tol : α) (s1 s2 : St5 α) (p : VPath α)
    (h : getPath la rho minP maxP tol s1 s2 = some p) :
    (∃ mult, decoupled la rho minP maxP s1 s2 (rho * mult) = some p) ∧
    (∃ radius, decoupled la rho minP maxP s1 s2 radius = some p) := by
  obtain ⟨m, hm⟩ := getPath_decoupled la rho minP maxP tol s1 s2 p h
  exact ⟨⟨m, hm⟩, ⟨_, hm⟩⟩

-- so every fact of `vana_decoupled_spec` holds for `getPath`'s result, e.g. the word is CSC
example (la : Bool) (rho minP maxP tol : α) (s1 s2 : St5 α) (p : VPath α)
    (h : getPath la rho minP maxP tol s1 s2 = some p) :
    p.sz.w = .LSL ∨ p.sz.w = .RSR ∨ p.sz.w = .RSL ∨ p.sz.w = .LSR := by
  obtain ⟨r, hr⟩ := (vana_getPath_is_decoupled la rho minP maxP tol s1 s2 p h).2
  exact (vana_decoupled_spec la rho minP maxP s1 s2 r p hr).2.2.2.2.2.2.2

/-- [AF] **`PathType::length()`** is the vertical radius times the three segment lengths of the profile word. -/
theorem vana_length_eq (p : VPath α) : p.len = p.rv * (p.sz.t + p.sz.p + p.sz.q) := rfl

example (rv t pp q : α) (xy : Path α) (st : Pose α) :
    (⟨rv, rv, xy, ⟨.LSL, t, pp, q, false⟩, st⟩ : VPath α).len = rv * (t + pp + q) := vana_length_eq _

/-- [AF] **The local optimisation never makes the path longer.**  The only facts about `<` on lengths used are
irreflexivity and transitivity (both hold for the IEEE comparison of doubles, NaN included): the path `optimise`
returns is not longer than the path it was started with. -/
theorem vana_optimise_not_longer (hirr : ∀ a : α, ¬ a < a) (htr : ∀ a b c : α, a < b → b < c → a < c)
    (la : Bool) (rho minP maxP tol : α) (s1 s2 : St5 α) (fuel : Nat) (step mult : α) (p : VPath α) :
    ¬ (p.len < (optimise la rho minP maxP tol s1 s2 fuel step mult p).len) :=
  optimise_not_longer hirr htr la rho minP maxP tol s1 s2 fuel step mult p

-- with no fuel, or a step already below the tolerance, the loop returns its input
example (la : Bool) (rho minP maxP tol : α) (s1 s2 : St5 α) (step mult : α) (p : VPath α) :
    optimise la rho minP maxP tol s1 s2 0 step mult p = p := rfl

/-- [AF] **`interpolate(from, to, t, ·)`, the branches.**  If `getPath` finds no path the result is `from` for EVERY
`t` (also for `t ≥ 1`); otherwise `to` for `1 ≤ t`, `from` when that test fails and `t ≤ 0`, and the state of the path
at `t` in between. -/
theorem vana_interpolate_branches (la : Bool) (rho minP maxP tol : α) (frm tgt : St5 α) (t : α) :
    (getPath la rho minP maxP tol frm tgt = none → interpolateV la rho minP maxP tol frm tgt t = frm) ∧
    (∀ p, getPath la rho minP maxP tol frm tgt = some p →
      (1 ≤ t → interpolateV la rho minP maxP tol frm tgt t = tgt) ∧
      (¬ 1 ≤ t → t ≤ 0 → interpolateV la rho minP maxP tol frm tgt t = frm) ∧
      (¬ 1 ≤ t → ¬ t ≤ 0 → interpolateV la rho minP maxP tol frm tgt t = interpPathV frm p t)) := by
  unfold interpolateV
  refine ⟨fun h => by rw [h], fun p h => ?_⟩
  rw [h]
  refine ⟨fun h1 => ?_, fun h1 h0 => ?_, fun h1 h0 => ?_⟩
  · simp only [if_pos h1]
  · simp only [if_neg h1, if_pos h0]
  · simp only [if_neg h1, if_neg h0]

example (la : Bool) (rho minP maxP tol : α) (frm tgt : St5 α) (t : α)
    (h : getPath la rho minP maxP tol frm tgt = none) : interpolateV la rho minP maxP tol frm tgt t = frm :=
  (vana_interpolate_branches la rho minP maxP tol frm tgt t).1 h

end AF

/- From here on everything is about ℝ; numerals must be Mathlib's (see Proofs/DubinsReal.lean). -/
attribute [-instance] Num.instOfNat
open DubinsR

/-! ## non-vacuity of the [AF] theorems: a successful call over ℝ -/

-- coincident states with the pitch inside the limits: `decoupled` succeeds (two zero paths) for every radius
example (la : Bool) : ∃ p, decoupled la (1 : ℝ) (-1) 1 ⟨0, 0, 0, 0, 0⟩ ⟨0, 0, 0, 0, 0⟩ 2 = some p :=
  ⟨_, decoupled_self la 1 (-1) 1 ⟨0, 0, 0, 0, 0⟩ 2 (by norm_num) (by norm_num)⟩
-- and so does `getPath`
example (la : Bool) : ∃ p, getPath la (1 : ℝ) (-1) 1 (1 / 1000) ⟨0, 0, 0, 0, 0⟩ ⟨0, 0, 0, 0, 0⟩ = some p :=
  getPath_self la 1 (-1) 1 (1 / 1000) ⟨0, 0, 0, 0, 0⟩ (by norm_num) (by norm_num)
-- the order hypotheses of `vana_optimise_not_longer` hold over ℝ
example (a : ℝ) : ¬ a < a := lt_irrefl a

/-! ## [EX] the search loops over ℝ -/

/-- [EX] `vana_optimise_not_longer` over ℝ: `length(result) ≤ length(input)`. -/
theorem vana_optimise_not_longer_real (la : Bool) (rho minP maxP tol : ℝ) (s1 s2 : St5 ℝ) (fuel : Nat)
    (step mult : ℝ) (p : VPath ℝ) :
    (optimise la rho minP maxP tol s1 s2 fuel step mult p).len ≤ p.len :=
  optimise_len_le la rho minP maxP tol s1 s2 fuel step mult p

example (la : Bool) (rho minP maxP tol : ℝ) (s1 s2 : St5 ℝ) (p : VPath ℝ) :
    (optimise la rho minP maxP tol s1 s2 optFuel (1 / 10) 2 p).len ≤ p.len :=
  vana_optimise_not_longer_real la rho minP maxP tol s1 s2 _ _ _ p

/-- [EX] **The horizontal radius `getPath` settles on is `rho · mult` with `mult ≥ 1`** (the doubling loop starts at 2,
the optimisation clamps with `std::max(1., mult + step)`), so for `rho > 0` it is at least `rho`. -/
theorem vana_getPath_radius_ge (la : Bool) (rho minP maxP tol : ℝ) (s1 s2 : St5 ℝ) (p : VPath ℝ)
    (h : getPath la rho minP maxP tol s1 s2 = some p) :
    (∃ mult, 1 ≤ mult ∧ decoupled la rho minP maxP s1 s2 (rho * mult) = some p) ∧ (0 < rho → rho ≤ p.rh) := by
  obtain ⟨m, hm, hd⟩ := getPath_decoupled_ge la rho minP maxP tol s1 s2 p h
  refine ⟨⟨m, hm, hd⟩, fun hrho => ?_⟩
  rw [(decoupled_spec la rho minP maxP s1 s2 _ p hd).1]
  have : rho * 1 ≤ rho * m := mul_le_mul_of_nonneg_left hm hrho.le
  linarith

example (la : Bool) : ∃ p, getPath la (1 : ℝ) (-1) 1 (1 / 1000) ⟨0, 0, 0, 0, 0⟩ ⟨0, 0, 0, 0, 0⟩ = some p ∧ 1 ≤ p.rh := by
  obtain ⟨p, hp⟩ := getPath_self la 1 (-1) 1 (1 / 1000) ⟨0, 0, 0, 0, 0⟩ (by norm_num) (by norm_num)
  exact ⟨p, hp, (vana_getPath_radius_ge la 1 (-1) 1 _ _ _ p hp).2 one_pos⟩

/-! ## [EX] the curvature budget -/

/-- [EX] **Curvature budget.**  For `0 < rho < radius` the vertical radius `rv = 1 / √(1/rho² − 1/radius²)` the code
computes is positive and `1/radius² + 1/rv² = 1/rho²`: the squared curvatures of the horizontal and the vertical
turn add up to exactly `1/rho²`, the curvature bound of the 3D vehicle. -/
theorem vana_curvature_budget (rho radius : ℝ) (hrho : 0 < rho) (hr : rho < radius) :
    0 < 1 / Real.sqrt (1 / (rho * rho) - 1 / (radius * radius)) ∧
    1 / radius ^ 2 + 1 / (1 / Real.sqrt (1 / (rho * rho) - 1 / (radius * radius))) ^ 2 = 1 / rho ^ 2 :=
  curvature_budget rho radius hrho hr

example : 1 / (2 : ℝ) ^ 2 + 1 / (1 / Real.sqrt (1 / (1 * 1) - 1 / (2 * 2))) ^ 2 = 1 / 1 ^ 2 :=
  (vana_curvature_budget 1 2 one_pos (by norm_num)).2

/-- [EX] the same for the radii stored in a `decoupled` result with `0 < rho < radius`. -/
theorem vana_decoupled_curvature_budget (la : Bool) (rho minP maxP : ℝ) (s1 s2 : St5 ℝ) (radius : ℝ) (p : VPath ℝ)
    (h : decoupled la rho minP maxP s1 s2 radius = some p) (hrho : 0 < rho) (hr : rho < radius) :
    0 < p.rh ∧ 0 < p.rv ∧ 1 / p.rh ^ 2 + 1 / p.rv ^ 2 = 1 / rho ^ 2 := by
  obtain ⟨h1, h2, _⟩ := decoupled_spec la rho minP maxP s1 s2 radius p h
  rw [rv_eq] at h2
  rw [h1, h2]
  exact ⟨hrho.trans hr, curvature_budget rho radius hrho hr⟩

example (la : Bool) : ∃ p, decoupled la (1 : ℝ) (-1) 1 ⟨0, 0, 0, 0, 0⟩ ⟨0, 0, 0, 0, 0⟩ 2 = some p ∧
    1 / p.rh ^ 2 + 1 / p.rv ^ 2 = 1 / 1 ^ 2 := by
  have h := decoupled_self la 1 (-1) 1 ⟨0, 0, 0, 0, 0⟩ 2 (by norm_num) (by norm_num)
  exact ⟨_, h, (vana_decoupled_curvature_budget la 1 (-1) 1 _ _ 2 _ h one_pos (by norm_num)).2.2⟩

/-! ## [EX] the pitch stays within its limits on the arcs of the profile -/

/-- [EX] **Pitch range along the vertical profile (with the last-arc test, `la = true`).**  Let `decoupled` succeed for
end states whose pitches lie in `[minP, maxP]`, and let `a S c` be the letters of the profile word.  Then every pitch
met on the first arc — the heading of the model's own integration step `stepFwd a v` from pitch₁, `0 ≤ v ≤ t`, i.e.
`pitch₁ + v` for `L`, `pitch₁ − v` for `R` — is in `[minP, maxP]`, and every pitch met on the last arc — walking it back
from pitch₂ with `stepRev c v`, `0 ≤ v ≤ q`, i.e. `pitch₂ − v` for `L`, `pitch₂ + v` for `R` — is in `[minP, maxP]`.  The
pitch is monotone along an arc and constant on the straight segment, so the whole profile respects the limits. -/
theorem vana_pitch_in_range (rho minP maxP : ℝ) (s1 s2 : St5 ℝ) (radius : ℝ) (p : VPath ℝ)
    (h : decoupled true rho minP maxP s1 s2 radius = some p)
    (h1 : minP ≤ s1.pitch) (h1' : s1.pitch ≤ maxP) (h2 : minP ≤ s2.pitch) (h2' : s2.pitch ≤ maxP) :
    ∃ a c, p.sz.w.segs = [a, .S, c] ∧ (a = .L ∨ a = .R) ∧ (c = .L ∨ c = .R) ∧
      (∀ v, 0 ≤ v → v ≤ p.sz.t → ∀ x y,
        minP ≤ (stepFwd a v ⟨x, y, s1.pitch⟩).th ∧ (stepFwd a v ⟨x, y, s1.pitch⟩).th ≤ maxP) ∧
      (∀ v, 0 ≤ v → v ≤ p.sz.q → ∀ x y,
        minP ≤ (stepRev c v ⟨x, y, s2.pitch⟩).th ∧ (stepRev c v ⟨x, y, s2.pitch⟩).th ≤ maxP) := by
  have hv := (decoupled_spec true rho minP maxP s1 s2 radius p h).2.2.2.2.2.2
  obtain ⟨a, c, hs, _⟩ := id hv
  obtain ⟨ha, hc⟩ := csc_letters _ a c hs
  exact ⟨a, c, hs, ha, hc,
    fun v hv0 hvt x y => valid_first_arc true minP maxP s1 s2 p.sz hv h1 h1' a c hs v hv0 hvt x y,
    fun v hv0 hvq x y => valid_last_arc minP maxP s1 s2 p.sz hv h2 h2' a c hs v hv0 hvq x y⟩

-- the headings the statement talks about, explicitly
example (v x y th : ℝ) : (stepFwd .L v ⟨x, y, th⟩).th = th + v ∧ (stepFwd .R v ⟨x, y, th⟩).th = th - v ∧
    (stepRev .L v ⟨x, y, th⟩).th = th - v ∧ (stepRev .R v ⟨x, y, th⟩).th = th + v := ⟨rfl, rfl, rfl, rfl⟩
-- in particular at the end of the first arc and at the start of the last arc (`v = t`, `v = q`), e.g. for an `R` first arc
example (rho minP maxP : ℝ) (s1 s2 : St5 ℝ) (radius : ℝ) (p : VPath ℝ)
    (h : decoupled true rho minP maxP s1 s2 radius = some p)
    (h1 : minP ≤ s1.pitch) (h1' : s1.pitch ≤ maxP) (h2 : minP ≤ s2.pitch) (h2' : s2.pitch ≤ maxP)
    (ht : 0 ≤ p.sz.t) (c : Seg) (hw : p.sz.w.segs = [.R, .S, c]) :
    minP ≤ s1.pitch - p.sz.t ∧ s1.pitch - p.sz.t ≤ maxP := by
  obtain ⟨a, c', hs, _, _, hfirst, _⟩ := vana_pitch_in_range rho minP maxP s1 s2 radius p h h1 h1' h2 h2'
  rw [hw] at hs
  simp only [List.cons.injEq, true_and, and_true] at hs
  obtain ⟨rfl, rfl⟩ := hs
  exact hfirst p.sz.t ht le_rfl 0 0
-- the premises are satisfiable
example : ∃ p, decoupled true (1 : ℝ) (-1) 1 ⟨0, 0, 0, 0, 0⟩ ⟨0, 0, 0, 0, 0⟩ 2 = some p :=
  ⟨_, decoupled_self true 1 (-1) 1 ⟨0, 0, 0, 0, 0⟩ 2 (by norm_num) (by norm_num)⟩

/-- [EX] **Without the last-arc test (`la = false`, the code before the fix of finding F129) only the first arc is
covered**: same hypotheses on the start pitch, the conclusion for the first arc only. -/
theorem vana_pitch_first_arc_only (la : Bool) (rho minP maxP : ℝ) (s1 s2 : St5 ℝ) (radius : ℝ) (p : VPath ℝ)
    (h : decoupled la rho minP maxP s1 s2 radius = some p)
    (h1 : minP ≤ s1.pitch) (h1' : s1.pitch ≤ maxP) :
    ∃ a c, p.sz.w.segs = [a, .S, c] ∧ (a = .L ∨ a = .R) ∧ (c = .L ∨ c = .R) ∧
      (∀ v, 0 ≤ v → v ≤ p.sz.t → ∀ x y,
        minP ≤ (stepFwd a v ⟨x, y, s1.pitch⟩).th ∧ (stepFwd a v ⟨x, y, s1.pitch⟩).th ≤ maxP) := by
  have hv := (decoupled_spec la rho minP maxP s1 s2 radius p h).2.2.2.2.2.2
  obtain ⟨a, c, hs, _⟩ := id hv
  obtain ⟨ha, hc⟩ := csc_letters _ a c hs
  exact ⟨a, c, hs, ha, hc,
    fun v hv0 hvt x y => valid_first_arc la minP maxP s1 s2 p.sz hv h1 h1' a c hs v hv0 hvt x y⟩

example : ∃ p, decoupled false (1 : ℝ) (-1) 1 ⟨0, 0, 0, 0, 0⟩ ⟨0, 0, 0, 0, 0⟩ 2 = some p :=
  ⟨_, decoupled_self false 1 (-1) 1 ⟨0, 0, 0, 0, 0⟩ 2 (by norm_num) (by norm_num)⟩

/-! ## [EX] following both words to the end reaches the target -/

/-- [EX] **`interpolate(from, path, 1, ·)` reaches the target in x, y, z, pitch and yaw.**  `rh, rv > 0`.  `xy` is the
path a word solver returns for the horizontal problem — the normalised triple of
`dubins((x₁,y₁,yaw₁), (x₂,y₂,yaw₂), rh)` — and `sz` the path a word solver returns for the profile problem — the
normalised triple of `dubins((0,z₁,pitch₁), (rh·|xy|, z₂, pitch₂), rv)` (hypotheses of
`C14W.dubins_interpolate_reaches_target`, once per problem: exact non-negative angle normalisations, any representatives
of the angles modulo 2π, outside the clamp band for RSL/LSR).  Then the state `interpolate` computes at `t = 1` — x, y,
yaw from the horizontal word, z and pitch from the profile word — is the target, the two angles wrapped by SO(2)
`enforceBounds` of a representative modulo 2π. -/
theorem vana_words_reach_target (m2p m2p' : ℝ → ℝ) (hm : Exact m2p) (hnn : ∀ x, 0 ≤ m2p x)
    (hm' : Exact m2p') (hnn' : ∀ x, 0 ≤ m2p' x) (w w' : Word)
    (rh rv : ℝ) (hrh : 0 < rh) (hrv : 0 < rv) (s1 s2 : St5 ℝ) (α β α' β' : ℝ) (xy sz : Path ℝ)
    (hα : ∃ k₁ : ℤ, α = s1.yaw - Complex.arg ⟨s2.x - s1.x, s2.y - s1.y⟩ + k₁ * (2 * Real.pi))
    (hβ : ∃ k₂ : ℤ, β = s2.yaw - Complex.arg ⟨s2.x - s1.x, s2.y - s1.y⟩ + k₂ * (2 * Real.pi))
    (hb : NoClamp w (Real.sqrt ((s2.x - s1.x) * (s2.x - s1.x) + (s2.y - s1.y) * (s2.y - s1.y)) / rh) α β)
    (h : solve m2p w (Real.sqrt ((s2.x - s1.x) * (s2.x - s1.x) + (s2.y - s1.y) * (s2.y - s1.y)) / rh) α β
      = some xy)
    (hα' : ∃ k₁ : ℤ, α' = s1.pitch - Complex.arg ⟨rh * xy.len, s2.z - s1.z⟩ + k₁ * (2 * Real.pi))
    (hβ' : ∃ k₂ : ℤ, β' = s2.pitch - Complex.arg ⟨rh * xy.len, s2.z - s1.z⟩ + k₂ * (2 * Real.pi))
    (hb' : NoClamp w' (Real.sqrt ((rh * xy.len) * (rh * xy.len) + (s2.z - s1.z) * (s2.z - s1.z)) / rv) α' β')
    (h' : solve m2p' w' (Real.sqrt ((rh * xy.len) * (rh * xy.len) + (s2.z - s1.z) * (s2.z - s1.z)) / rv) α' β'
      = some sz) :
    ∃ k k' : ℤ, interpPathV s1 ⟨rh, rv, xy, sz, ⟨0, s1.z, s1.pitch⟩⟩ 1 =
      ⟨s2.x, s2.y, s2.z, so2Enforce (s2.pitch + k * (2 * Real.pi)), so2Enforce (s2.yaw + k' * (2 * Real.pi))⟩ :=
  interpPathV_one m2p m2p' hm hnn hm' hnn' w w' rh rv hrh hrv s1 s2 α β α' β' xy sz hα hβ hb h hα' hβ' hb' h'

-- jointly satisfiable for EVERY pair of states and radii: `mod2piExact`, the word LSL for both problems
example (rh rv : ℝ) (hrh : 0 < rh) (hrv : 0 < rv) (s1 s2 : St5 ℝ) :
    ∃ xy sz : Path ℝ, ∃ k k' : ℤ, interpPathV s1 ⟨rh, rv, xy, sz, ⟨0, s1.z, s1.pitch⟩⟩ 1 =
      ⟨s2.x, s2.y, s2.z, so2Enforce (s2.pitch + k * (2 * Real.pi)), so2Enforce (s2.yaw + k' * (2 * Real.pi))⟩ := by
  obtain ⟨xy, hxy⟩ := dubinsLSL_isSome mod2piExact
    (Real.sqrt ((s2.x - s1.x) * (s2.x - s1.x) + (s2.y - s1.y) * (s2.y - s1.y)) / rh)
    (s1.yaw - Complex.arg ⟨s2.x - s1.x, s2.y - s1.y⟩) (s2.yaw - Complex.arg ⟨s2.x - s1.x, s2.y - s1.y⟩)
  obtain ⟨sz, hsz⟩ := dubinsLSL_isSome mod2piExact
    (Real.sqrt ((rh * xy.len) * (rh * xy.len) + (s2.z - s1.z) * (s2.z - s1.z)) / rv)
    (s1.pitch - Complex.arg ⟨rh * xy.len, s2.z - s1.z⟩) (s2.pitch - Complex.arg ⟨rh * xy.len, s2.z - s1.z⟩)
  obtain ⟨k, k', hk⟩ := vana_words_reach_target mod2piExact mod2piExact mod2piExact_exact mod2piExact_nonneg
    mod2piExact_exact mod2piExact_nonneg .LSL .LSL rh rv hrh hrv s1 s2 _ _ _ _ xy sz ⟨0, by simp⟩ ⟨0, by simp⟩
    trivial hxy ⟨0, by simp⟩ ⟨0, by simp⟩ trivial hsz
  exact ⟨xy, sz, k, k', hk⟩

/-- [EX] the same with the angles in canonical form: the end state is
`(x₂, y₂, z₂, wrap(pitch₂), wrap(yaw₂))`, and it is the target itself when its pitch and yaw satisfy the SO(2) bounds
`[-π, π)`. -/
theorem vana_words_reach_target_exact (m2p m2p' : ℝ → ℝ) (hm : Exact m2p) (hnn : ∀ x, 0 ≤ m2p x)
    (hm' : Exact m2p') (hnn' : ∀ x, 0 ≤ m2p' x) (w w' : Word)
    (rh rv : ℝ) (hrh : 0 < rh) (hrv : 0 < rv) (s1 s2 : St5 ℝ) (α β α' β' : ℝ) (xy sz : Path ℝ)
    (hα : ∃ k₁ : ℤ, α = s1.yaw - Complex.arg ⟨s2.x - s1.x, s2.y - s1.y⟩ + k₁ * (2 * Real.pi))
    (hβ : ∃ k₂ : ℤ, β = s2.yaw - Complex.arg ⟨s2.x - s1.x, s2.y - s1.y⟩ + k₂ * (2 * Real.pi))
    (hb : NoClamp w (Real.sqrt ((s2.x - s1.x) * (s2.x - s1.x) + (s2.y - s1.y) * (s2.y - s1.y)) / rh) α β)
    (h : solve m2p w (Real.sqrt ((s2.x - s1.x) * (s2.x - s1.x) + (s2.y - s1.y) * (s2.y - s1.y)) / rh) α β
      = some xy)
    (hα' : ∃ k₁ : ℤ, α' = s1.pitch - Complex.arg ⟨rh * xy.len, s2.z - s1.z⟩ + k₁ * (2 * Real.pi))
    (hβ' : ∃ k₂ : ℤ, β' = s2.pitch - Complex.arg ⟨rh * xy.len, s2.z - s1.z⟩ + k₂ * (2 * Real.pi))
    (hb' : NoClamp w' (Real.sqrt ((rh * xy.len) * (rh * xy.len) + (s2.z - s1.z) * (s2.z - s1.z)) / rv) α' β')
    (h' : solve m2p' w' (Real.sqrt ((rh * xy.len) * (rh * xy.len) + (s2.z - s1.z) * (s2.z - s1.z)) / rv) α' β'
      = some sz) :
    interpPathV s1 ⟨rh, rv, xy, sz, ⟨0, s1.z, s1.pitch⟩⟩ 1 =
      ⟨s2.x, s2.y, s2.z, so2Enforce s2.pitch, so2Enforce s2.yaw⟩ ∧
    (-Real.pi ≤ s2.pitch → s2.pitch < Real.pi → -Real.pi ≤ s2.yaw → s2.yaw < Real.pi →
      interpPathV s1 ⟨rh, rv, xy, sz, ⟨0, s1.z, s1.pitch⟩⟩ 1 = s2) := by
  obtain ⟨k, k', hk⟩ := interpPathV_one m2p m2p' hm hnn hm' hnn' w w' rh rv hrh hrv s1 s2 α β α' β' xy sz
    hα hβ hb h hα' hβ' hb' h'
  rw [so2Enforce_add_int, so2Enforce_add_int] at hk
  refine ⟨hk, fun a1 a2 b1 b2 => ?_⟩
  rw [hk, so2Enforce_of_mem _ a1 a2, so2Enforce_of_mem _ b1 b2]

example (rh rv : ℝ) (hrh : 0 < rh) (hrv : 0 < rv) (s1 s2 : St5 ℝ)
    (a1 : -Real.pi ≤ s2.pitch) (a2 : s2.pitch < Real.pi) (b1 : -Real.pi ≤ s2.yaw) (b2 : s2.yaw < Real.pi) :
    ∃ xy sz : Path ℝ, interpPathV s1 ⟨rh, rv, xy, sz, ⟨0, s1.z, s1.pitch⟩⟩ 1 = s2 := by
  obtain ⟨xy, hxy⟩ := dubinsLSL_isSome mod2piExact
    (Real.sqrt ((s2.x - s1.x) * (s2.x - s1.x) + (s2.y - s1.y) * (s2.y - s1.y)) / rh)
    (s1.yaw - Complex.arg ⟨s2.x - s1.x, s2.y - s1.y⟩) (s2.yaw - Complex.arg ⟨s2.x - s1.x, s2.y - s1.y⟩)
  obtain ⟨sz, hsz⟩ := dubinsLSL_isSome mod2piExact
    (Real.sqrt ((rh * xy.len) * (rh * xy.len) + (s2.z - s1.z) * (s2.z - s1.z)) / rv)
    (s1.pitch - Complex.arg ⟨rh * xy.len, s2.z - s1.z⟩) (s2.pitch - Complex.arg ⟨rh * xy.len, s2.z - s1.z⟩)
  exact ⟨xy, sz, (vana_words_reach_target_exact mod2piExact mod2piExact mod2piExact_exact mod2piExact_nonneg
    mod2piExact_exact mod2piExact_nonneg .LSL .LSL rh rv hrh hrv s1 s2 _ _ _ _ xy sz ⟨0, by simp⟩ ⟨0, by simp⟩
    trivial hxy ⟨0, by simp⟩ ⟨0, by simp⟩ trivial hsz).2 a1 a2 b1 b2⟩

/-- [EX] **The interpolated curve starts at the start state**: for a `decoupled` result `p`, `interpolate(from, p, 0, ·)`
is `(x₁, y₁, z₁, wrap(pitch₁), wrap(yaw₁))` — `from` itself when its pitch and yaw are inside `[-π, π)`. -/
theorem vana_interpolate_curve_start (la : Bool) (rho minP maxP : ℝ) (s1 s2 : St5 ℝ) (radius : ℝ) (p : VPath ℝ)
    (h : decoupled la rho minP maxP s1 s2 radius = some p) :
    interpPathV s1 p 0 = ⟨s1.x, s1.y, s1.z, so2Enforce s1.pitch, so2Enforce s1.yaw⟩ := by
  have hst := (decoupled_spec la rho minP maxP s1 s2 radius p h).2.2.2.1
  unfold interpPathV
  simp only [interpPath_zero, hst]

example (la : Bool) : ∃ p, decoupled la (1 : ℝ) (-1) 1 ⟨0, 0, 0, 0, 0⟩ ⟨0, 0, 0, 0, 0⟩ 2 = some p ∧
    interpPathV ⟨0, 0, 0, 0, 0⟩ p 0 = ⟨0, 0, 0, so2Enforce 0, so2Enforce 0⟩ := by
  have h := decoupled_self la 1 (-1) 1 ⟨0, 0, 0, 0, 0⟩ 2 (by norm_num) (by norm_num)
  exact ⟨_, h, vana_interpolate_curve_start la 1 (-1) 1 _ _ 2 _ h⟩

/-- [EX] **Reported length ≥ 3D straight-line distance**: for a horizontal and a profile solver word as above (the
angles may be arbitrary here), `√(Δx² + Δy² + Δz²) ≤ rv · (t + p + q)` of the profile word, which is what
`PathType::length()` reports (`vana_length_eq`). -/
theorem vana_length_ge_straight_line (m2p m2p' : ℝ → ℝ) (hm : Exact m2p) (hnn : ∀ x, 0 ≤ m2p x)
    (hm' : Exact m2p') (hnn' : ∀ x, 0 ≤ m2p' x) (w w' : Word)
    (rh rv : ℝ) (hrh : 0 < rh) (hrv : 0 < rv) (s1 s2 : St5 ℝ) (α β α' β' : ℝ) (xy sz : Path ℝ)
    (hb : NoClamp w (Real.sqrt ((s2.x - s1.x) * (s2.x - s1.x) + (s2.y - s1.y) * (s2.y - s1.y)) / rh) α β)
    (h : solve m2p w (Real.sqrt ((s2.x - s1.x) * (s2.x - s1.x) + (s2.y - s1.y) * (s2.y - s1.y)) / rh) α β
      = some xy)
    (hb' : NoClamp w' (Real.sqrt ((rh * xy.len) * (rh * xy.len) + (s2.z - s1.z) * (s2.z - s1.z)) / rv) α' β')
    (h' : solve m2p' w' (Real.sqrt ((rh * xy.len) * (rh * xy.len) + (s2.z - s1.z) * (s2.z - s1.z)) / rv) α' β'
      = some sz) :
    Real.sqrt ((s2.x - s1.x) ^ 2 + (s2.y - s1.y) ^ 2 + (s2.z - s1.z) ^ 2) ≤
      (⟨rh, rv, xy, sz, ⟨0, s1.z, s1.pitch⟩⟩ : VPath ℝ).len :=
  vana_len_ge m2p m2p' hm hnn hm' hnn' w w' rh rv hrh hrv s1 s2 α β α' β' xy sz hb h hb' h'

example (rh rv : ℝ) (hrh : 0 < rh) (hrv : 0 < rv) (s1 s2 : St5 ℝ) (α β α' β' : ℝ) :
    ∃ xy sz : Path ℝ, Real.sqrt ((s2.x - s1.x) ^ 2 + (s2.y - s1.y) ^ 2 + (s2.z - s1.z) ^ 2) ≤
      (⟨rh, rv, xy, sz, ⟨0, s1.z, s1.pitch⟩⟩ : VPath ℝ).len := by
  obtain ⟨xy, hxy⟩ := dubinsLSL_isSome mod2piExact
    (Real.sqrt ((s2.x - s1.x) * (s2.x - s1.x) + (s2.y - s1.y) * (s2.y - s1.y)) / rh) α β
  obtain ⟨sz, hsz⟩ := dubinsLSL_isSome mod2piExact
    (Real.sqrt ((rh * xy.len) * (rh * xy.len) + (s2.z - s1.z) * (s2.z - s1.z)) / rv) α' β'
  exact ⟨xy, sz, vana_length_ge_straight_line mod2piExact mod2piExact mod2piExact_exact mod2piExact_nonneg
    mod2piExact_exact mod2piExact_nonneg .LSL .LSL rh rv hrh hrv s1 s2 α β α' β' xy sz trivial hxy trivial hsz⟩

end OmplModel.Props.C14V
