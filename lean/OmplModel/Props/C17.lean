import OmplModel.Proofs.PathOpsRemove
import OmplModel.Proofs.PathOpsRope
import OmplModel.Proofs.PathOpsRopeLen
import OmplModel.Proofs.PathOpsDensify
import OmplModel.Proofs.PathOpsSpliceLen
import OmplModel.Proofs.PathOpsRepair
import OmplModel.Proofs.PathHybrid
import OmplModel.Proofs.PathOpsSplice2
import OmplModel.Proofs.PathOpsBSpline
import OmplModel.Proofs.PathOpsSchedule
import OmplModel.Proofs.PathOpsBetterGoal
import OmplModel.Proofs.PathOpsScheduleBridge
import OmplModel.Proofs.PathOpsPerturb
import OmplModel.Proofs.PathOpsShortcutOrd
import OmplModel.Proofs.PathOpsRound6
import OmplModel.Proofs.PathOpsGeom
import OmplModel.Proofs.PathOpsRopeF173
import OmplModel.Proofs.PathOpsShortcutObj
import OmplModel.Proofs.PathOpsRopeCost
import OmplModel.Proofs.PathOpsDensifyLen
/-!
# C17 — path post-processing preserves endpoints, validity and never worsens cost

Property theorems about the model `OmplModel.PathOps` (Model/PathOps.lean) of the deterministic path
post-processing code: `PathSimplifier::reduceVertices` (as a function of its random index draws),
`collapseCloseVertices`, `ropeShortcutPath`, the splice of `partialShortcutPath`, the return value of
`simplify`, and `PathGeometric::subdivide` / `interpolate()` / `interpolate(count)`.  The model follows the
tree after the fixes for F9 / F55 / F56; the code before them is kept as `…Old` with witness theorems.

Quantifiers: every state type `σ`, every `checkMotion` oracle `cm`, every distance / interpolation /
objective / rounding function, every draw stream, every step bound and every input path (any length,
repeated states included) — nothing is assumed about them unless a theorem says so.  All theorems
except the `never_longer`/`length_eq` ones are arithmetic-free, so they hold of the `Float`
instantiation that the driver runs in lock-step with the real code.  `never_longer` is stated over an
ordered additive commutative monoid with the triangle inequality as its only hypothesis on `dist`.

A result `none` of a model function means "the C++ code indexes a vector out of range / erases an
ill-formed range" (checked indexing); `indices_in_range` theorems say this never happens.

Not here (trace conformance only, see checks/c17.py): smoothBSpline, perturbPath, findBetterGoal,
simplify, PathHybridization, and the sampling logic of partialShortcutPath.
Helper lemmas: Proofs/PathOpsRemove.lean, PathOpsRope.lean, PathOpsRopeLen.lean, PathOpsDensify.lean.
-/
namespace OmplModel.Props.C17
open OmplModel.PathOps

variable {σ : Type}

/-! ## reduceVertices — for every scripted choice sequence -/

/-- checked indexing never fails: `states[p1]`, `states[p2]` and the erase range are always in range -/
theorem reduce_indices_in_range (cm : σ → σ → Bool) (rangeOf draw : Nat → Nat) (ms me : Nat) (path : List σ) :
    (reduceVertices cm rangeOf draw ms me path).isSome = true :=
  reduceVertices_isSome cm rangeOf draw ms me path

theorem reduce_keeps_first {cm : σ → σ → Bool} {rangeOf draw : Nat → Nat} {ms me : Nat} {path out : List σ} {r : Bool}
    (h : reduceVertices cm rangeOf draw ms me path = some (out, r)) : out.head? = path.head? :=
  (reduceVertices_shortcuts h).head?

theorem reduce_keeps_last {cm : σ → σ → Bool} {rangeOf draw : Nat → Nat} {ms me : Nat} {path out : List σ} {r : Bool}
    (h : reduceVertices cm rangeOf draw ms me path = some (out, r)) : out.getLast? = path.getLast? :=
  (reduceVertices_shortcuts h).getLast?

/-- the result is a subsequence of the input (vertices are only removed, never moved or duplicated) -/
theorem reduce_subsequence {cm : σ → σ → Bool} {rangeOf draw : Nat → Nat} {ms me : Nat} {path out : List σ} {r : Bool}
    (h : reduceVertices cm rangeOf draw ms me path = some (out, r)) : out.Sublist path :=
  (reduceVertices_shortcuts h).sublist

/-- every motion of the result is a motion of the input or a pair `checkMotion` answered true for -/
theorem reduce_only_validated_motions {cm : σ → σ → Bool} {rangeOf draw : Nat → Nat} {ms me : Nat}
    {path out : List σ} {r : Bool} (h : reduceVertices cm rangeOf draw ms me path = some (out, r)) :
    ∀ p ∈ adj out, p ∈ adj path ∨ cm p.1 p.2 = true :=
  (reduceVertices_shortcuts h).adj

/-- never longer, given only the triangle inequality -/
theorem reduce_never_longer {α : Type} [AddCommMonoid α] [PartialOrder α] [IsOrderedAddMonoid α]
    (dist : σ → σ → α) (tri : ∀ a b c, dist a c ≤ dist a b + dist b c)
    {cm : σ → σ → Bool} {rangeOf draw : Nat → Nat} {ms me : Nat} {path out : List σ} {r : Bool}
    (h : reduceVertices cm rangeOf draw ms me path = some (out, r)) : pathLen dist out ≤ pathLen dist path :=
  (reduceVertices_shortcuts h).pathLen_le dist tri

theorem reduce_false_unchanged {cm : σ → σ → Bool} {rangeOf draw : Nat → Nat} {ms me : Nat} {path out : List σ}
    (h : reduceVertices cm rangeOf draw ms me path = some (out, false)) : out = path :=
  reduceVertices_false_unchanged h

/-- non-vacuity: draws (1, 3) on a five-state path whose only invalid chord is 0–4 remove states 2 -/
example : reduceVertices (fun a b : Nat => !(a == 0 && b == 4)) (fun _ => 3) (fun k => if k == 0 then 1 else 3) 1 0
    [0, 1, 2, 3, 4] = some ([0, 1, 3, 4], true) := by decide

/-! ## collapseCloseVertices -/

theorem collapse_indices_in_range {α : Type} [BEq σ] (cm : σ → σ → Bool) (dist : σ → σ → α) (lt : α → α → Bool)
    (inf : α) (ms me : Nat) (path : List σ) : (collapseCloseVertices cm dist lt inf ms me path).isSome = true :=
  collapse_isSome cm dist lt inf ms me path

theorem collapse_keeps_first {α : Type} [BEq σ] {cm : σ → σ → Bool} {dist : σ → σ → α} {lt : α → α → Bool} {inf : α}
    {ms me : Nat} {path out : List σ} {r : Bool}
    (h : collapseCloseVertices cm dist lt inf ms me path = some (out, r)) : out.head? = path.head? :=
  (collapse_shortcuts h).head?

theorem collapse_keeps_last {α : Type} [BEq σ] {cm : σ → σ → Bool} {dist : σ → σ → α} {lt : α → α → Bool} {inf : α}
    {ms me : Nat} {path out : List σ} {r : Bool}
    (h : collapseCloseVertices cm dist lt inf ms me path = some (out, r)) : out.getLast? = path.getLast? :=
  (collapse_shortcuts h).getLast?

theorem collapse_subsequence {α : Type} [BEq σ] {cm : σ → σ → Bool} {dist : σ → σ → α} {lt : α → α → Bool} {inf : α}
    {ms me : Nat} {path out : List σ} {r : Bool}
    (h : collapseCloseVertices cm dist lt inf ms me path = some (out, r)) : out.Sublist path :=
  (collapse_shortcuts h).sublist

theorem collapse_only_validated_motions {α : Type} [BEq σ] {cm : σ → σ → Bool} {dist : σ → σ → α} {lt : α → α → Bool}
    {inf : α} {ms me : Nat} {path out : List σ} {r : Bool}
    (h : collapseCloseVertices cm dist lt inf ms me path = some (out, r)) :
    ∀ p ∈ adj out, p ∈ adj path ∨ cm p.1 p.2 = true :=
  (collapse_shortcuts h).adj

/-- never longer under ANY length function obeying the triangle inequality (`len` need not be the
`dist` the routine uses to pick pairs) -/
theorem collapse_never_longer {α β : Type} [AddCommMonoid β] [PartialOrder β] [IsOrderedAddMonoid β] [BEq σ]
    (len : σ → σ → β) (tri : ∀ a b c, len a c ≤ len a b + len b c)
    {cm : σ → σ → Bool} {dist : σ → σ → α} {lt : α → α → Bool} {inf : α} {ms me : Nat} {path out : List σ} {r : Bool}
    (h : collapseCloseVertices cm dist lt inf ms me path = some (out, r)) : pathLen len out ≤ pathLen len path :=
  (collapse_shortcuts h).pathLen_le len tri

theorem collapse_false_unchanged {α : Type} [BEq σ] {cm : σ → σ → Bool} {dist : σ → σ → α} {lt : α → α → Bool}
    {inf : α} {ms me : Nat} {path out : List σ}
    (h : collapseCloseVertices cm dist lt inf ms me path = some (out, false)) : out = path :=
  OmplModel.PathOps.collapse_false_unchanged h

/-- non-vacuity: states on a line, the closest non-adjacent pair (3, 4) … collapses first -/
example : collapseCloseVertices (fun _ _ : Nat => true) (fun a b : Nat => (a - b) + (b - a)) (fun a b => decide (a < b))
    1000 1 0 [0, 10, 3, 20, 4] = some ([0, 10, 3, 4], true) := by decide

/-! ## ropeShortcutPath (the tree after fix 695c3e72c; `ropeShortcutPathOld` is the code before it) -/

/-- **checked indexing never fails**: every index of the routine (both loops, the cumulative cost
table, the erase range, the re-insertion, the distance read after the erase) is in range — the
model never returns `none` and never flags a read past `end()` -/
theorem rope_indices_in_range {γ : Type} (E : RopeEnv σ γ) (fuel : Nat) (path : List σ) :
    ∃ out r fo, ropeShortcutPath E fuel path = some (out, r, false, fo) := by
  obtain ⟨out, r, o, fo, h, _, _, h4⟩ := rope_spec E true fuel path
  rw [h4 rfl] at h
  exact ⟨out, r, fo, h⟩

theorem rope_keeps_first {γ : Type} {E : RopeEnv σ γ} {fuel : Nat} {path out : List σ} {r oob fo : Bool}
    (h : ropeShortcutPath E fuel path = some (out, r, oob, fo)) : out.head? = path.head? :=
  OmplModel.PathOps.rope_keeps_first h

theorem rope_keeps_last {γ : Type} {E : RopeEnv σ γ} {fuel : Nat} {path out : List σ} {r oob fo : Bool}
    (h : ropeShortcutPath E fuel path = some (out, r, oob, fo)) : out.getLast? = path.getLast? :=
  OmplModel.PathOps.rope_keeps_last h

/-- every motion of the result is a piece (a motion of the chain `a, interp…, b`) of an input motion
or of a motion `checkMotion` answered true for -/
theorem rope_only_validated_motions {γ : Type} {E : RopeEnv σ γ} {fuel : Nat} {path out : List σ}
    {r oob fo : Bool} (h : ropeShortcutPath E fuel path = some (out, r, oob, fo)) :
    ∀ p ∈ adj out, Derived E path p := rope_only_validated h

/-- never longer in a metric-like setting: `dist` obeys the triangle inequality and the interpolated
chain between two states is a geodesic (its length is the distance of its ends) -/
theorem rope_never_longer {γ α : Type} [AddCommMonoid α] [PartialOrder α] [IsOrderedAddMonoid α]
    (dist : σ → σ → α) (tri : ∀ a b c, dist a c ≤ dist a b + dist b c)
    (E : RopeEnv σ γ) (geo : ∀ a b n, pathLen dist (a :: (inters E a b n ++ [b])) = dist a b)
    {fuel : Nat} {path out : List σ} {r oob fo : Bool}
    (h : ropeShortcutPath E fuel path = some (out, r, oob, fo)) : pathLen dist out ≤ pathLen dist path :=
  OmplModel.PathOps.rope_never_longer dist tri E geo h

theorem rope_false_only_densified {γ : Type} {E : RopeEnv σ γ} {fuel : Nat} {path out : List σ}
    {oob fo : Bool} (h : ropeShortcutPath E fuel path = some (out, false, oob, fo)) :
    out = path ∨ out = ropeDensify E path := rope_false_unchanged h

/-- the original vertices survive the densification pass in order -/
theorem rope_densify_subsequence {γ : Type} (E : RopeEnv σ γ) (l : List σ) : l.Sublist (ropeDensify E l) :=
  ropeDensify_sublist E l

/-- non-vacuity: the routine on the former F9 input -/
example : ropeShortcutPath f9Env 10 [0, 1, 2] = some ([0, 2], true, false, false) := rope_oob_fixed

/-- F173 (fixed as cfb403c2a): with the FORMER pricing of the shortcut (`motionCost` of its end points) and an objective
that is not additive along interpolated states, the routine took the same shortcut for ever — 40 outer iterations do not
suffice and the vector is the same after each; with the tree's pricing (`RopeEnv.chord` = by the densified pieces) it returns -/
theorem rope_old_endpoint_pricing_never_returns :
    (∃ out r oob, ropeShortcutPath (f173Env false) 40 [0, 2, 4, 5] = some (out, r, oob, true)) ∧
    ropeShortcutPath (f173Env true) 40 [0, 2, 4, 5] = some ([0, 2, 4, 5], false, false, false) :=
  rope_endpoint_pricing_never_returns

/-! ### the code before the fix (F9), kept as `ropeShortcutPathOld` -/

/-- F9: checked indexing FAILED before the fix — after `states.erase(i+1 .. j)` the routine read
`states[j]`, here on a three-state path whose shortcut 0→2 is valid and better: index 2 of a
two-element vector (`oob = true`) -/
theorem rope_old_indices_in_range_fails :
    ∃ out r fo, ropeShortcutPathOld f9Env 10 [0, 1, 2] = some (out, r, true, fo) := rope_oob

/-- … and when the stale index was still in range it named a later state, so the number of
re-inserted intermediate states came from the wrong distance (old and current code differ) -/
theorem rope_old_stale_index_wrong_state :
    ropeShortcutPathOld f9Env2 10 [0, 4, 2, 6, 10, 14] = some ([0, 1, 2, 6, 10, 14], true, false, false) ∧
    ropeShortcutPath f9Env2 10 [0, 4, 2, 6, 10, 14] = some ([0, 2, 6, 10, 14], true, false, false) :=
  rope_stale_wrong_state

/-- what was true of the old code: every other index was in range, and the property's clauses
(first, last, validated motions) held in spite of the stale index -/
theorem rope_old_indices_in_range_partial {γ : Type} (E : RopeEnv σ γ) (fuel : Nat) (path : List σ) :
    (ropeShortcutPathOld E fuel path).isSome = true := rope_indices_partial E false fuel path

theorem rope_old_clauses {γ : Type} {E : RopeEnv σ γ} {fuel : Nat} {path out : List σ} {r oob fo : Bool}
    (h : ropeShortcutPathOld E fuel path = some (out, r, oob, fo)) :
    out.head? = path.head? ∧ out.getLast? = path.getLast? ∧ ∀ p ∈ adj out, Derived E path p :=
  ⟨OmplModel.PathOps.rope_keeps_first h, OmplModel.PathOps.rope_keeps_last h, rope_only_validated h⟩

/-! ## the splice of partialShortcutPath (index / erase / insert bookkeeping of the four cases) -/

theorem pshort_splice_both_interior (st : List σ) (pos0 pos1 : Nat) (s0 s1 : σ) (h01 : pos0 < pos1)
    (h1 : pos1 < st.length) :
    psSplice st pos0 false s0 pos1 false s1 = some (st.take (pos0 + 1) ++ [s0, s1] ++ st.drop (pos1 + 1)) :=
  psSplice_ff st pos0 pos1 s0 s1 h01 h1

theorem pshort_splice_both_vertices (st : List σ) (pos0 pos1 : Nat) (s0 s1 : σ) (h01 : pos0 + 1 ≤ pos1)
    (h1 : pos1 ≤ st.length) :
    psSplice st pos0 true s0 pos1 true s1 = some (st.take (pos0 + 1) ++ st.drop pos1) :=
  psSplice_tt st pos0 pos1 s0 s1 h01 h1

theorem pshort_splice_interior_vertex (st : List σ) (pos0 pos1 : Nat) (s0 s1 : σ) (h01 : pos0 + 2 ≤ pos1)
    (h1 : pos1 ≤ st.length) :
    psSplice st pos0 false s0 pos1 true s1 = some (st.take (pos0 + 1) ++ [s0] ++ st.drop pos1) :=
  psSplice_ft st pos0 pos1 s0 s1 h01 h1

theorem pshort_splice_vertex_interior (st : List σ) (pos0 pos1 : Nat) (s0 s1 : σ) (h01 : pos0 + 1 ≤ pos1)
    (h1 : pos1 < st.length) :
    psSplice st pos0 true s0 pos1 false s1 = some (st.take (pos0 + 1) ++ [s1] ++ st.drop (pos1 + 1)) :=
  psSplice_tf st pos0 pos1 s0 s1 h01 h1

/-- whenever the `continue` filter lets a pair of sampled points through (`psSkip = false`), the splice
succeeds (no index error), keeps the first and the last state, and every motion of the result is an
input motion, the validated pair, the prefix `(states[pos0], s0)` of an input motion cut at `s0`, or the
suffix `(s1, states[pos1+1])` of an input motion cut at `s1` -/
theorem pshort_splice_spec (st : List σ) (pos0 pos1 : Nat) (idx0 idx1 : Bool) (s0 s1 : σ)
    (h01 : pos0 < pos1) (h1 : pos1 + 1 < st.length) (hs : psSkip pos0 idx0 pos1 idx1 = false) :
    ∃ out, psSplice st pos0 idx0 s0 pos1 idx1 s1 = some out ∧ out.head? = st.head? ∧
      out.getLast? = st.getLast? ∧
      ∀ p ∈ adj out, p ∈ adj st ∨
        p = (if idx0 then st[pos0]'(by omega) else s0, if idx1 then st[pos1]'(by omega) else s1) ∨
        (idx0 = false ∧ p = (st[pos0]'(by omega), s0)) ∨
        (idx1 = false ∧ p = (s1, st[pos1 + 1]'h1)) :=
  psSplice_spec st pos0 pos1 idx0 idx1 s0 s1 h01 h1 hs

example : psSplice [0, 10, 20, 30, 40] 0 false 5 2 false 25 = some [0, 5, 25, 30, 40] := by decide
example : psSkip 0 false 2 false = false := by decide

/-! ### partialShortcutPath never lengthens the path (over the splice model)

Metric-like setting: an unsnapped sample lies on its segment, i.e. the cut is additive
(`dist p s + dist s n = dist p n`: geodesic interpolation).  The sampling loop itself runs at `Float`
(no order laws), so the claim is about every sequence of splices (`PsSteps`), which is what the loop
performs (lock-step correspondence). -/

/-- one splice, by the triangle inequality: the validated chord is no longer than the sub-path it replaces -/
theorem pshort_splice_never_longer {α : Type} [AddCommMonoid α] [PartialOrder α] [IsOrderedAddMonoid α]
    (dist : σ → σ → α) (tri : ∀ a b c, dist a c ≤ dist a b + dist b c)
    (st : List σ) (pos0 pos1 : Nat) (idx0 idx1 : Bool) (s0 s1 : σ)
    (h01 : pos0 < pos1) (h1 : pos1 + 1 < st.length) (hs : psSkip pos0 idx0 pos1 idx1 = false)
    (hc0 : idx0 = false → dist (st[pos0]'(by omega)) s0 + dist s0 (st[pos0 + 1]'(by omega)) =
      dist (st[pos0]'(by omega)) (st[pos0 + 1]'(by omega)))
    (hc1 : idx1 = false → dist (st[pos1]'(by omega)) s1 + dist s1 (st[pos1 + 1]'h1) =
      dist (st[pos1]'(by omega)) (st[pos1 + 1]'h1))
    {out : List σ} (h : psSplice st pos0 idx0 s0 pos1 idx1 s1 = some out) :
    pathLen dist out ≤ pathLen dist st :=
  psSplice_pathLen_le dist tri st pos0 pos1 idx0 idx1 s0 s1 h01 h1 hs hc0 hc1 h

/-- one splice, by the routine's OWN explicit cost comparison instead of the triangle inequality:
`psAlongList` is exactly the list whose length the C++ accumulates in `alongPath` (it omits the motion
`states[pos0] → states[pos0+1]` when the first sample was snapped — a conservative quirk: some
genuine shortcuts are rejected, none lengthens the path; this is where `0 ≤ dist` is needed) -/
theorem pshort_splice_never_longer_of_own_cost_test {α : Type} [AddCommMonoid α] [PartialOrder α] [IsOrderedAddMonoid α]
    (dist : σ → σ → α) (hnn : ∀ a b, 0 ≤ dist a b)
    (st : List σ) (pos0 pos1 : Nat) (idx0 idx1 : Bool) (s0 s1 : σ)
    (h01 : pos0 < pos1) (h1 : pos1 + 1 < st.length) (hs : psSkip pos0 idx0 pos1 idx1 = false)
    (hc0 : idx0 = false → dist (st[pos0]'(by omega)) s0 + dist s0 (st[pos0 + 1]'(by omega)) =
      dist (st[pos0]'(by omega)) (st[pos0 + 1]'(by omega)))
    (hc1 : idx1 = false → dist (st[pos1]'(by omega)) s1 + dist s1 (st[pos1 + 1]'h1) =
      dist (st[pos1]'(by omega)) (st[pos1 + 1]'h1))
    (hcost : dist (if idx0 then st[pos0]'(by omega) else s0) (if idx1 then st[pos1]'(by omega) else s1) ≤
      pathLen dist (psAlongList st pos0 idx0 s0 pos1 idx1 s1))
    {out : List σ} (h : psSplice st pos0 idx0 s0 pos1 idx1 s1 = some out) :
    pathLen dist out ≤ pathLen dist st :=
  psSplice_pathLen_le_of_along dist hnn st pos0 pos1 idx0 idx1 s0 s1 h01 h1 hs hc0 hc1 hcost h

/-- every sequence of splices: never longer, first and last state kept -/
theorem pshort_never_longer {α : Type} [AddCommMonoid α] [PartialOrder α] [IsOrderedAddMonoid α]
    {dist : σ → σ → α} (tri : ∀ a b c, dist a c ≤ dist a b + dist b c) {st out : List σ}
    (h : PsSteps dist st out) :
    pathLen dist out ≤ pathLen dist st ∧ out.head? = st.head? ∧ out.getLast? = st.getLast? :=
  ⟨h.pathLen_le tri, h.head?, h.getLast?⟩

/-- non-vacuity: points on a line, both samples interior (5 in segment 0–10, 25 in segment 20–30) -/
example : PsSteps (fun a b : Nat => (a - b) + (b - a)) [0, 10, 20, 30, 40] [0, 5, 25, 30, 40] :=
  .step (.refl _) (.mk [0, 10, 20, 30, 40] 0 2 false false 5 25 [0, 5, 25, 30, 40] (by decide) (by decide) (by decide)
    (by decide) (by decide) (by decide))

/-! ## the splices of findBetterGoal and perturbPath (Model/PathOpsSplice2.lean)

Index selection, cost test and `checkMotion` are inputs; the side conditions are the ones the C++
establishes before the splice (where from: header of Proofs/PathOpsSplice2.lean). -/

/-- findBetterGoal: the splice succeeds (no index error), keeps the first state, ends in the sampled
goal state, and every motion of the result is an input motion, the prefix `(states[startIndex], state)`
of an input motion cut at `state`, or the validated pair `(state, goal)`.  `hcase`: the sampled point
was snapped to the vertex `startIndex` (then `state` IS that vertex) or lies inside segment
`(startIndex, startIndex+1)`; `hs` (not the last vertex) comes from the routine's cost test. -/
theorem bg_splice_spec (st : List σ) (s e : Nat) (state goal : σ) (hs : s + 1 < st.length)
    (hcase : (e = s ∧ st[s]'(by omega) = state) ∨ e = s + 1) :
    ∃ out, bgSplice st s e state goal = some out ∧ out.head? = st.head? ∧
      out.getLast? = some goal ∧ out.length = e + 2 ∧
      ∀ p ∈ adj out, p ∈ adj st ∨ (e = s + 1 ∧ p = (st[s]'(by omega), state)) ∨ p = (state, goal) :=
  bgSplice_spec st s e state goal hs hcase

/-- latent dependency (not reachable with the shipped objectives): snapped to the LAST vertex the
block would write `states[size]`; only the cost test `isCostBetterThan(combine(costs.back(), x),
costs.back())` being false keeps the code away from it -/
theorem bg_splice_snap_to_last_vertex_out_of_range : bgSplice [0, 1, 2] 2 2 2 9 = none := bgSplice_snap_last_none

/-- perturbPath, all nine cases in one canonical form -/
theorem pp_splice_canonical (st : List σ) (posB posA : Nat) (idxB idxA : Bool) (before new after : σ)
    (hBA : posB ≤ posA) (hA : posA + (if idxA then 0 else 1) < st.length)
    (hlt : idxA = true → posB < posA) :
    ppSplice st posB idxB posA idxA before new after =
      some (st.take (posB + 1) ++
        ((if idxB then [] else [before]) ++ [new] ++ (if idxA then [] else [after])) ++
        st.drop (posA + (if idxA then 0 else 1))) :=
  ppSplice_canon st posB posA idxB idxA before new after hBA hA hlt

/-- perturbPath: the splice succeeds, keeps first and last state, and every motion of the result is an
input motion, one of the two validated pairs `(before', new)`, `(new, after')`, the prefix
`(states[posB], before)` of an input motion cut at `before`, or the suffix `(after, states[posA+1])` -/
theorem pp_splice_spec (st : List σ) (posB posA : Nat) (idxB idxA : Bool) (before new after : σ)
    (hBA : posB ≤ posA) (hA : posA + (if idxA then 0 else 1) < st.length)
    (hlt : idxA = true → posB < posA) :
    ∃ out, ppSplice st posB idxB posA idxA before new after = some out ∧
      out.head? = st.head? ∧ out.getLast? = st.getLast? ∧
      out.length + (posA + (if idxA then 0 else 1)) =
        st.length + (posB + 1) + ((if idxB then 0 else 1) + 1 + (if idxA then 0 else 1)) ∧
      ∀ p ∈ adj out, p ∈ adj st ∨
        p = (if idxB then st[posB]'(by split at hA <;> omega) else before, new) ∨
        p = (new, if idxA then st[posA]'(by split at hA <;> omega) else after) ∨
        (idxB = false ∧ p = (st[posB]'(by split at hA <;> omega), before)) ∨
        (idxA = false ∧ ∃ h : posA + 1 < st.length, p = (after, st[posA + 1]'h)) :=
  ppSplice_spec st posB posA idxB idxA before new after hBA hA hlt

/-- why `hlt` is needed: with `after` snapped to vertex `pos_before` the `else` branch (l. 661) would
keep the unvalidated motion `(new, states[1])`; unreachable because `selectAlongPath` is monotone -/
theorem pp_splice_needs_posB_lt_posA :
    ppSplice [0, 1, 2] 0 false 0 true 10 11 0 = some [0, 10, 11, 1, 2] := ppSplice_ft_needs_lt

example : bgSplice [0, 10, 20, 30] 1 2 15 99 = some [0, 10, 15, 99] := by decide
example : ppSplice [0, 10, 20, 30] 0 false 2 false 5 17 25 = some [0, 5, 17, 25, 30] := by decide

/-! ## smoothBSpline as a whole routine (Model/PathOpsWhole.lean; lock-step with the real routine) -/

theorem bspline_keeps_first (E : BsEnv σ) (maxSteps : Nat) (path : List σ) :
    (smoothBSpline E maxSteps path).head? = path.head? := smoothBSpline_head? E maxSteps path

theorem bspline_keeps_last (E : BsEnv σ) (maxSteps : Nat) (path : List σ) :
    (smoothBSpline E maxSteps path).getLast? = path.getLast? := smoothBSpline_getLast? E maxSteps path

/-- every motion of the result is an input motion, a pair `checkMotion` answered true for, or a half
(cut at the interpolated midpoint, recursively) of one of those -/
theorem bspline_only_validated_motions (E : BsEnv σ) (maxSteps : Nat) (path : List σ) :
    ∀ p ∈ adj (smoothBSpline E maxSteps path), BsDerived E path p := smoothBSpline_only_validated E maxSteps path

/-- termination with the step bound: `k ≤ maxSteps` subdivisions were executed (the result has
`2^k (n-1) + 1` states); `k = 0` only for `maxSteps = 0` -/
theorem bspline_terminates (E : BsEnv σ) (maxSteps : Nat) (path : List σ) (h : 3 ≤ path.length) :
    ∃ k, k ≤ maxSteps ∧ (k = 0 → maxSteps = 0) ∧
      (smoothBSpline E maxSteps path).length = 2 ^ k * (path.length - 1) + 1 := smoothBSpline_length E maxSteps path h

theorem bspline_short_unchanged (E : BsEnv σ) (maxSteps : Nat) (path : List σ) (h : path.length < 3) :
    smoothBSpline E maxSteps path = path := smoothBSpline_short E maxSteps path h

example : smoothBSpline ⟨fun _ => true, fun _ _ => true, fun a b : Nat => (a + b) / 2, fun a b => a != b⟩ 1 [0, 40, 0] =
    [0, 20, 30, 20, 0] := by decide

/-! ## findBetterGoal as a whole routine (Model/PathOpsWhole.lean; lock-step with the real routine)

For every objective, every number operations (`NumOps`, no arithmetic law), every draw and goal stream.
The only law used, where stated, is `hlaw : lt a b = true → le b a = false` (true of IEEE doubles,
NaN included); without it an adversarial `<=` lets the walk-down leave the segment. -/

theorem bettergoal_keeps_first {α γ : Type} {E : BgEnv σ α γ} {path out : List σ} {r : Bool}
    (h : findBetterGoal E path = some (out, r)) : out.head? = path.head? := findBetterGoal_keeps_first h

/-- the last state of a successful result is a sampled goal state compatible with the start -/
theorem bettergoal_last_is_goal {α γ : Type} {E : BgEnv σ α γ} {path out : List σ}
    (h : findBetterGoal E path = some (out, true)) :
    ∃ g, out.getLast? = some (E.goalAt g) ∧
      ∃ first, out.head? = some first ∧ E.pairValid first (E.goalAt g) = true := findBetterGoal_last_is_goal h

theorem bettergoal_false_unchanged {α γ : Type} {E : BgEnv σ α γ} {path out : List σ}
    (h : findBetterGoal E path = some (out, false)) : out = path := findBetterGoal_false_unchanged h

/-- **never worse under its own objective, for every script**: the routine compares COMPLETE candidate
paths — if it returns true, the cost of the new path (the left fold of `combineCosts` over its motion
costs, the very fold `path.cost(obj)` and the routine's `costs` table use) is better than the cost of the
path it was given, by the objective's own `isCostBetterThan`.  (This is the theorem behind the seeded
change "prefix cost taken proportionally": that candidate is no longer the cost of the spliced path.) -/
theorem bettergoal_never_worse_own_objective {α γ : Type} {E : BgEnv σ α γ} {path out : List σ}
    (hlaw : ∀ a b, E.N.lt a b = true → E.N.le b a = false)
    (h : findBetterGoal E path = some (out, true)) :
    E.O.better (E.O.pathCost out) (E.O.pathCost path) = true := findBetterGoal_never_worse hlaw h

/-- every motion of the result is an input motion, the prefix of an input motion cut at an interpolated
state, or a pair `checkMotion` answered true for -/
theorem bettergoal_only_validated_motions {α γ : Type} {E : BgEnv σ α γ} {path out : List σ}
    (hlaw : ∀ a b, E.N.lt a b = true → E.N.le b a = false)
    (h : findBetterGoal E path = some (out, true)) :
    ∀ p ∈ adj out, p ∈ adj path ∨ (∃ a b t, (a, b) ∈ adj path ∧ p = (a, E.interp a b t)) ∨
      E.cm p.1 p.2 = true := findBetterGoal_only_validated hlaw h

/-- checked indexing: the ONLY ways the routine can index out of range are (i) a draw `t` that is
`<`-above every cumulative distance (`uniformReal(lo, back)` rounding above `back`; then `*end` is read at
`dists.end()`), (ii) an objective for which appending a motion makes a path BETTER (then a sample snapped
to the last vertex writes `states[size]`).  Full statement ("never `none`") needs laws that are not
assumed; `bettergoal_indices_in_range_monotone_objective` removes (ii). -/
theorem bettergoal_indices_in_range_partial {α γ : Type} {E : BgEnv σ α γ} {path : List σ}
    (h : findBetterGoal E path = none) :
    ∃ g, (∃ first, path.head? = some first ∧ E.pairValid first (E.goalAt g) = true) ∧
      ((∃ t, ∀ d ∈ cumDistsG E.N E.dist path, E.N.lt d t = true) ∨
       (∃ last, path.getLast? = some last ∧
          E.O.better (E.O.combine (E.O.pathCost path) (E.O.motion last (E.goalAt g)))
            (E.O.pathCost path) = true ∧
          E.cm last (E.goalAt g) = true)) := findBetterGoal_indices_partial h

theorem bettergoal_indices_in_range_monotone_objective {α γ : Type} {E : BgEnv σ α γ} {path : List σ}
    (hmono : ∀ c x, E.O.better (E.O.combine c x) c = false) (h : findBetterGoal E path = none) :
    ∃ t, ∀ d ∈ cumDistsG E.N E.dist path, E.N.lt d t = true := findBetterGoal_none_monotone hmono h

/-! ## perturbPath as a whole routine (Model/PathOpsWhole.lean; lock-step with the real routine)

For every objective, every `NumOps`, every script (`hn`, `samp`), step bounds and path.  Law-free:
`perturb_false_unchanged`, `perturb_steps` (the run is a sequence of accepted iterations, each with both
`checkMotion`s true and the routine's own acceptance test passed), `perturb_never_worse_own_objective`,
`perturb_indices_in_range_partial`.  first / last / validated motions need the two ORDER facts
`posB ≤ posA` and `idxA → posB < posA` about the three `selectAlongPath` results (`PpMonotone`); they fail
for an arbitrary comparison (e.g. a non-transitive `<`), so those theorems are `_partial` under `PpMonotone`
and full under explicit order laws (`perturb_spec_of_order_laws`). -/

theorem perturb_false_unchanged {α γ : Type} {E : PpEnv σ α γ} {ms me : Nat} {path out : List σ}
    (h : perturbPath E ms me path = some (out, false)) : out = path := perturbPath_false_unchanged h

theorem perturb_steps {α γ : Type} {E : PpEnv σ α γ} {ms me : Nat} {path out : List σ} {r : Bool}
    (h : perturbPath E ms me path = some (out, r)) : PpAcceptedStar E path out := perturbPath_steps h

/-- **from the routine's own acceptance test, for the objective's own comparison as coded**: every accepted
iteration spliced `[before, new, after]` in for a stretch whose cost `along` the routine computed, and
`isCostBetterThan(newCost, along)` holds (`along` not better and not equivalent) -/
theorem perturb_never_worse_own_objective {α γ : Type} (E : PpEnv σ α γ) (st : List σ) (hnk : α) (smp : σ)
    (st' : List σ) (h : ppBody E st hnk smp = some (.changed st')) :
    ∃ posB idxB before posA idxA after new along,
      ppSplice st posB idxB posA idxA before new after = some st' ∧
      ppAlongCost E st posB idxB before posA idxA after = some along ∧
      E.O.better along (ppNewCost E before new after) = false ∧
      E.O.equiv along (ppNewCost E before new after) = false ∧
      E.O.better (ppNewCost E before new after) along = true :=
  OmplModel.PathOps.perturb_never_worse_own_objective E st hnk smp st' h

/-- path level: over an ordered additive monoid (identity 0, combine +, `better a b → a ≤ b`) with
additive cuts, the cost of the result is at most the cost of the input.  Full statement without
`PpMonotone` / `PpCutsAdditive`: not true of end-point objectives (a cut changes the discretisation). -/
theorem perturb_never_worse_path_cost_partial {α γ : Type} [AddCommMonoid γ] [PartialOrder γ] [IsOrderedAddMonoid γ]
    {E : PpEnv σ α γ} (hm : PpMonotone E) (hc : PpCutsAdditive E)
    (hid : E.O.identity = 0) (hcomb : ∀ a b, E.O.combine a b = a + b)
    (hlink : ∀ a b, E.O.better a b = true → a ≤ b) {ms me : Nat} {path out : List σ} {r : Bool}
    (h : perturbPath E ms me path = some (out, r)) : E.O.pathCost out ≤ E.O.pathCost path :=
  perturbPath_never_worse_partial hm hc hid hcomb hlink h

theorem perturb_keeps_first_partial {α γ : Type} {E : PpEnv σ α γ} (hm : PpMonotone E) {ms me : Nat}
    {path out : List σ} {r : Bool} (h : perturbPath E ms me path = some (out, r)) :
    out.head? = path.head? := perturbPath_keeps_first_partial hm h

theorem perturb_keeps_last_partial {α γ : Type} {E : PpEnv σ α γ} (hm : PpMonotone E) {ms me : Nat}
    {path out : List σ} {r : Bool} (h : perturbPath E ms me path = some (out, r)) :
    out.getLast? = path.getLast? := perturbPath_keeps_last_partial hm h

/-- every motion of the result is an input motion, a pair `checkMotion` answered true for, or the part of
such a motion in front of / behind an interpolated point of it -/
theorem perturb_only_validated_motions_partial {α γ : Type} {E : PpEnv σ α γ} (hm : PpMonotone E) {ms me : Nat}
    {path out : List σ} {r : Bool} (h : perturbPath E ms me path = some (out, r)) :
    ∀ p ∈ adj out, PpDerived E path p := perturbPath_only_validated_partial hm h

/-- the three clauses in full, from explicit order laws on the number operations (total preorder `le`,
`lt a b ↔ ¬ le b a`, `sub` monotone, `x - step/2 ≤ x + step/2`, path length ≥ 0) instead of `PpMonotone` -/
theorem perturb_spec_of_order_laws {α γ : Type} (E : PpEnv σ α γ) (L : NumOrderLaws E.N)
    (hhalf : ∀ x, E.N.le (E.N.sub x (E.N.div E.stepSize E.N.two))
      (E.N.add x (E.N.div E.stepSize E.N.two)) = true)
    (hnn : ∀ (st : List σ) (back : α),
      (cumDistsG E.N E.dist st).toArray[(cumDistsG E.N E.dist st).toArray.size - 1]? = some back →
      E.N.le E.N.zero back = true)
    {ms me : Nat} {path out : List σ} {r : Bool} (h : perturbPath E ms me path = some (out, r)) :
    out.head? = path.head? ∧ out.getLast? = path.getLast? ∧ ∀ p ∈ adj out, PpDerived E path p :=
  perturbPath_spec_of_laws E L hhalf hnn h

/-- checked indexing: the only sources of an out-of-range access — a path of at most one state, the cost
walk `ppPickSeg` running off the table, a `selectAlongPath` stopping unsnapped at the last vertex (needs a
NaN or a negative threshold), or `ppSplice` outside its side conditions (excluded by `PpMonotone`).  Full
statement ("never out of range"): needs rounding facts that are not assumed. -/
theorem perturb_indices_in_range_partial {α γ : Type} {E : PpEnv σ α γ} {ms me : Nat} {path : List σ}
    (h : perturbPath E ms me path = none) :
    ∃ st, PpAcceptedStar E path st ∧
      (st.length ≤ 1 ∨
      (∃ cb, ppPickSeg E.N (distCostIndices E st).toArray ((distCostIndices E st).toArray.size + 1) cb 0 = none) ∨
      (∃ d thr, selectAlong E.N E.interp (cumDistsG E.N E.dist st).toArray st.toArray d thr = none) ∨
      (∃ posB idxB before posA idxA after new, PpCalls E st posB idxB before posA idxA after ∧
        ¬ (idxB = true ∧ idxA = true ∧ posB = posA) ∧
        ppSplice st posB idxB posA idxA before new after = none)) := perturbPath_indices_partial h

/-! ### perturbPath's splice, branch by branch (`index_before`, `index_after` snapped or not), as `Preserves`
(first / last kept, every motion an input motion, a validated pair, or a prefix / suffix cut) -/

/-- neither snapped (all four sub-branches: same segment / adjacent / two apart / far) -/
theorem perturb_splice_preserves_ff {cm : σ → σ → Bool} {cut : σ → σ → σ → Prop} (isGoal : σ → Prop) (st : List σ)
    (posB posA : Nat) (before new after : σ) (hBA : posB ≤ posA) (h : posA + 1 < st.length)
    (hvB : cm before new = true) (hvA : cm new after = true)
    (hcB : cut (st[posB]'(by omega)) (st[posB + 1]'(by omega)) before)
    (hcA : cut (st[posA]'(by omega)) (st[posA + 1]'h) after) :
    ∃ out, ppSplice st posB false posA false before new after = some out ∧
      out = st.take (posB + 1) ++ [before, new, after] ++ st.drop (posA + 1) ∧
      Preserves cm cut isGoal st out :=
  OmplModel.PathOps.perturb_splice_preserves_ff isGoal st posB posA before new after hBA h hvB hvA hcB hcA

/-- the FAR sub-branch (`pos_before + 3 ≤ pos_after`: three vertices overwritten, `erase(pos_before+4 ..
pos_after+1)` — the branch seeded change C17-s4 broke): exact result, exact length, never more states -/
theorem perturb_splice_ff_far {cm : σ → σ → Bool} {cut : σ → σ → σ → Prop} (isGoal : σ → Prop) (st : List σ)
    (posB posA : Nat) (before new after : σ) (hBA : posB + 3 ≤ posA) (h : posA + 1 < st.length)
    (hvB : cm before new = true) (hvA : cm new after = true)
    (hcB : cut (st[posB]'(by omega)) (st[posB + 1]'(by omega)) before)
    (hcA : cut (st[posA]'(by omega)) (st[posA + 1]'h) after) :
    ∃ out, ppSplice st posB false posA false before new after = some out ∧
      out = st.take (posB + 1) ++ [before, new, after] ++ st.drop (posA + 1) ∧
      out.length = st.length - (posA - posB) + 3 ∧ out.length ≤ st.length ∧
      Preserves cm cut isGoal st out :=
  OmplModel.PathOps.perturb_splice_ff_far isGoal st posB posA before new after hBA h hvB hvA hcB hcA

/-- both snapped -/
theorem perturb_splice_preserves_tt {cm : σ → σ → Bool} {cut : σ → σ → σ → Prop} (isGoal : σ → Prop) (st : List σ)
    (posB posA : Nat) (before new after : σ) (hBA : posB < posA) (h : posA < st.length)
    (hvB : cm (st[posB]'(by omega)) new = true) (hvA : cm new (st[posA]'h) = true) :
    ∃ out, ppSplice st posB true posA true before new after = some out ∧
      out = st.take (posB + 1) ++ [new] ++ st.drop posA ∧
      Preserves cm cut isGoal st out :=
  OmplModel.PathOps.perturb_splice_preserves_tt isGoal st posB posA before new after hBA h hvB hvA

/-- `before` inside a segment, `after` snapped -/
theorem perturb_splice_preserves_ft {cm : σ → σ → Bool} {cut : σ → σ → σ → Prop} (isGoal : σ → Prop) (st : List σ)
    (posB posA : Nat) (before new after : σ) (hBA : posB < posA) (h : posA < st.length)
    (hvB : cm before new = true) (hvA : cm new (st[posA]'h) = true)
    (hcB : cut (st[posB]'(by omega)) (st[posB + 1]'(by omega)) before) :
    ∃ out, ppSplice st posB false posA true before new after = some out ∧
      out = st.take (posB + 1) ++ [before, new] ++ st.drop posA ∧
      Preserves cm cut isGoal st out :=
  OmplModel.PathOps.perturb_splice_preserves_ft isGoal st posB posA before new after hBA h hvB hvA hcB

/-- `before` snapped, `after` inside a segment -/
theorem perturb_splice_preserves_tf {cm : σ → σ → Bool} {cut : σ → σ → σ → Prop} (isGoal : σ → Prop) (st : List σ)
    (posB posA : Nat) (before new after : σ) (hBA : posB ≤ posA) (h : posA + 1 < st.length)
    (hvB : cm (st[posB]'(by omega)) new = true) (hvA : cm new after = true)
    (hcA : cut (st[posA]'(by omega)) (st[posA + 1]'h) after) :
    ∃ out, ppSplice st posB true posA false before new after = some out ∧
      out = st.take (posB + 1) ++ [new, after] ++ st.drop (posA + 1) ∧
      Preserves cm cut isGoal st out :=
  OmplModel.PathOps.perturb_splice_preserves_tf isGoal st posB posA before new after hBA h hvB hvA hcA

/-! ## PathGeometric::getClosestIndex / keepAfter / keepBefore (Model/PathOpsGeom.lean; lock-step) and the size guard of perturbPath -/

/-- `getClosestIndex` answers -1 exactly for the empty path and a valid index otherwise (any `dist`, any `<`) -/
theorem closestIndex_in_range {α : Type} (lt : α → α → Bool) (dist : σ → σ → α) (q : σ) (l : List σ) :
    (closestIndex lt dist q l = none ↔ l = []) ∧ ∀ i, closestIndex lt dist q l = some i → i < l.length :=
  ⟨closestIndex_none lt dist q l, fun i h => closestIndex_lt lt dist q l i h⟩

/-- `keepAfter` keeps a non-empty suffix of a non-empty path: the last state survives -/
theorem keepAfter_keeps_suffix {α : Type} (lt : α → α → Bool) (dist : σ → σ → α) (q : σ) (l : List σ) :
    (∃ k, keepAfter lt dist q l = l.drop k ∧ (l ≠ [] → k < l.length)) ∧
    (keepAfter lt dist q l).getLast? = l.getLast? :=
  ⟨keepAfter_suffix lt dist q l, keepAfter_getLast? lt dist q l⟩

/-- `keepBefore` keeps a non-empty prefix of a non-empty path: the first state survives -/
theorem keepBefore_keeps_prefix {α : Type} (lt : α → α → Bool) (dist : σ → σ → α) (q : σ) (l : List σ) :
    (∃ k, keepBefore lt dist q l = l.take (k + 1) ∨ (l = [] ∧ keepBefore lt dist q l = [])) ∧
    (keepBefore lt dist q l).head? = l.head? :=
  ⟨keepBefore_prefix lt dist q l, keepBefore_head? lt dist q l⟩

example : keepAfter (fun a b : Nat => decide (a < b)) (fun a b => (a - b) + (b - a)) 26 [0, 10, 20, 30, 40] = [30, 40] := by decide
example : keepBefore (fun a b : Nat => decide (a < b)) (fun a b => (a - b) + (b - a)) 24 [0, 10, 20, 30, 40] = [0, 10, 20] := by decide

/-- the FORMER code (before fix c9720002d, F172): no size guard — `perturbPath` indexed out of range on a one-state
path (and on an empty one as soon as a step was taken) -/
theorem perturb_short_path_indices_fails :
    perturbPath ppToy 1 1 [5] = none ∧ perturbPath ppToy 0 0 ([] : List Nat) = some ([], false) ∧
    perturbPath ppToy 1 1 ([] : List Nat) = none := perturbPath_short_fails

/-- the tree's routine (`perturbPathGuarded`): a path of fewer than two states is returned unchanged, `false` … -/
theorem perturb_guarded_short_unchanged {α γ : Type} (E : PpEnv σ α γ) (ms me : Nat) (path : List σ) (h : path.length < 2) :
    perturbPathGuarded E ms me path = some (path, false) := perturbPathGuarded_short E ms me path h

/-- … and otherwise it IS the routine all `perturb_*` theorems above are about (they transfer through this case split;
in `perturb_indices_in_range_partial` the source "a path of at most one state" is thereby gone for the input path) -/
theorem perturb_guarded_cases {α γ : Type} {E : PpEnv σ α γ} {ms me : Nat} {path out : List σ} {r : Bool}
    (h : perturbPathGuarded E ms me path = some (out, r)) :
    (path.length < 2 ∧ out = path ∧ r = false) ∨ (2 ≤ path.length ∧ perturbPath E ms me path = some (out, r)) :=
  perturbPathGuarded_cases h

/-- e.g. the accepted-steps refinement for the tree's routine -/
theorem perturb_guarded_steps {α γ : Type} {E : PpEnv σ α γ} {ms me : Nat} {path out : List σ} {r : Bool}
    (h : perturbPathGuarded E ms me path = some (out, r)) : PpAcceptedStar E path out := by
  rcases perturbPathGuarded_cases h with ⟨_, rfl, _⟩ | ⟨_, h'⟩
  · exact .refl _
  · exact perturbPath_steps h'

/-! ## checkAndRepair with a scripted valid-sampler (Model/PathOpsRepair.lean) -/

theorem repair_indices_in_range (E : RepairEnv σ) (path : List σ) : (checkAndRepair E path).isSome = true :=
  checkAndRepair_isSome E path

/-- same number of states, first and last state kept -/
theorem repair_shape {E : RepairEnv σ} {path out : List σ} {orig res : Bool}
    (h : checkAndRepair E path = some (out, orig, res)) :
    out.length = path.length ∧ out.head? = path.head? ∧ out.getLast? = path.getLast? := checkAndRepair_shape h

/-- every state of the result is the input state at that index or a raw sample -/
theorem repair_only_samples {E : RepairEnv σ} {path out : List σ} {orig res : Bool}
    (h : checkAndRepair E path = some (out, orig, res)) :
    ∀ i (hi : i < out.length), out[i]? = path[i]? ∨ ∃ k, out[i] = E.samp k := checkAndRepair_states h

/-- **success means validated**: every motion of the result was answered true by `checkMotion` … -/
theorem repair_true_only_validated_motions {E : RepairEnv σ} {path out : List σ} {orig : Bool}
    (h : checkAndRepair E path = some (out, orig, true)) : (adj out).all (fun p => E.cm p.1 p.2) = true :=
  checkAndRepair_true_motions h

/-- … and every state it introduced was answered valid by `isValid` -/
theorem repair_true_only_valid_states {E : RepairEnv σ} {path out : List σ} {orig : Bool}
    (h : checkAndRepair E path = some (out, orig, true)) :
    ∀ i (hi : i < out.length), out[i]? = path[i]? ∨ E.valid out[i] = true := checkAndRepair_true_states_valid h

/-- success ⇒ `check()` passes — for every path that does not have exactly two states, and for two
states when the first one is valid (full statement without that premise: false, next theorem) -/
theorem repair_true_implies_check_partial {E : RepairEnv σ} {path out : List σ} {orig : Bool}
    (h : checkAndRepair E path = some (out, orig, true))
    (h2 : path.length = 2 → ∀ f, path.head? = some f → E.valid f = true) :
    checkPath E.valid E.cm out = true := checkAndRepair_true_implies_check_partial h h2

/-- on a TWO-state path `checkAndRepair` returns `(checkMotion, checkMotion)` and never asks
`isValid(states_[0])`, which `check()` does ask (and `checkMotion` assumes): (true, true) with `check()`
false.  Outside C17's quantifier (valid inputs have a valid first state); recorded as an observation. -/
theorem repair_true_implies_check_fails :
    ∃ (E : RepairEnv Nat) (path out : List Nat) (orig : Bool),
      checkAndRepair E path = some (out, orig, true) ∧ checkPath E.valid E.cm out = false :=
  checkAndRepair_two_states_first_unchecked

theorem repair_original_valid_unchanged {E : RepairEnv σ} {path out : List σ} {res : Bool}
    (h : checkAndRepair E path = some (out, true, res)) : out = path := checkAndRepair_original_unchanged h

/-- after a FAILED repair the path can hold a state answered invalid that was not in the input
(`sampleNear` writes every raw sample into `states_[i]`); callers must honour the `false` -/
theorem repair_failed_can_leave_invalid_sample :
    ∃ (E : RepairEnv Nat) (path out : List Nat) (orig : Bool),
      checkAndRepair E path = some (out, orig, false) ∧ ∃ x ∈ out, x ∉ path ∧ E.valid x = false :=
  checkAndRepair_failed_leaves_invalid_sample

/-- non-vacuity: the middle state is replaced by the first valid raw sample that connects -/
example : checkAndRepair ⟨fun x => decide (x < 100), fun a b => decide (a ≤ b ∧ b ≤ a + 30), fun _ => 25, 2⟩
    [0, 50, 40] = some ([0, 25, 40], false, true) := by decide

/-! ## PathHybridization (Model/PathHybrid.lean): graph of `recordPath` + arbitrary extra edges,
shortest root→goal walk as the specification of `computeHybridPath` (boost's Dijkstra = oracle) -/

/-- every recorded path is a root→goal walk of the final graph whose cost is the path's own cost,
whatever was recorded or connected afterwards (edges are only ever added) -/
theorem hybrid_recorded_path_is_walk {κ : Type} [AddMonoid κ] (ops : List (OmplModel.PathHybrid.Op κ)) :
    ∀ p ∈ (OmplModel.PathHybrid.run ops).paths,
      p.verts.length = p.costs.length + 1 ∧
      OmplModel.PathHybrid.IsWalk (OmplModel.PathHybrid.run ops).g.edges OmplModel.PathHybrid.root
        (OmplModel.PathHybrid.recWalk p) OmplModel.PathHybrid.goal ∧
      OmplModel.PathHybrid.walkVerts OmplModel.PathHybrid.root (OmplModel.PathHybrid.recWalk p) =
        OmplModel.PathHybrid.root :: p.verts ++ [OmplModel.PathHybrid.goal] ∧
      OmplModel.PathHybrid.walkCost (OmplModel.PathHybrid.recWalk p) = OmplModel.PathHybrid.pathCost p.costs :=
  OmplModel.PathHybrid.recorded_path_is_walk ops

/-- **a hybridized path is never worse than any recorded input path** (additive costs, any number of
paths, any extra edges) -/
theorem hybrid_le_each_input {κ : Type} [AddMonoid κ] [LinearOrder κ] (ops : List (OmplModel.PathHybrid.Op κ))
    (w : List (Nat × κ)) (hw : OmplModel.PathHybrid.IsShortest (OmplModel.PathHybrid.run ops).g.edges w) :
    ∀ p ∈ (OmplModel.PathHybrid.run ops).paths,
      OmplModel.PathHybrid.walkCost w ≤ OmplModel.PathHybrid.pathCost p.costs :=
  OmplModel.PathHybrid.hybrid_le_each_input ops w hw

theorem hybrid_le_best_input {κ : Type} [AddMonoid κ] [LinearOrder κ] (ops : List (OmplModel.PathHybrid.Op κ))
    (w : List (Nat × κ)) (hw : OmplModel.PathHybrid.IsShortest (OmplModel.PathHybrid.run ops).g.edges w) (m : κ)
    (hm : ((OmplModel.PathHybrid.run ops).paths.map fun p => OmplModel.PathHybrid.pathCost p.costs).min? = some m) :
    OmplModel.PathHybrid.walkCost w ≤ m :=
  OmplModel.PathHybrid.hybrid_le_best_input ops w hw m hm

/-- **`computeHybridPath` is specified on the CURRENT graph**: whatever was computed earlier, a shortest
walk of the graph after further `recordPath` calls is no worse than every path recorded before AND
after that earlier computation (no cross-connection needed: each recorded path carries its own
root→goal chain) -/
theorem hybrid_current_graph {κ : Type} [AddMonoid κ] [LinearOrder κ] (ops more : List (OmplModel.PathHybrid.Op κ))
    (w : List (Nat × κ)) (hw : OmplModel.PathHybrid.IsShortest (OmplModel.PathHybrid.run (ops ++ more)).g.edges w)
    (ws : List κ) (h : OmplModel.PathHybrid.Op.record ws ∈ ops ∨ OmplModel.PathHybrid.Op.record ws ∈ more) :
    OmplModel.PathHybrid.walkCost w ≤ OmplModel.PathHybrid.pathCost ws :=
  OmplModel.PathHybrid.hybrid_le_each_recorded (ops ++ more) w hw ws (List.mem_append.mpr h)

/-- … and an answer computed for an EARLIER graph is not an answer for the current one: record a path
of cost 10, compute (the walk along it is shortest), record a disjoint better path of cost 1 — the
old walk is still a walk of the new graph but no longer a shortest one.  (An implementation that
skips the shortest-path computation "because no cross edge was added" returns exactly this walk.) -/
theorem hybrid_stale_answer_fails :
    ∃ (ops more : List (OmplModel.PathHybrid.Op Nat)) (w : List (Nat × Nat)),
      OmplModel.PathHybrid.IsShortest (OmplModel.PathHybrid.run ops).g.edges w ∧
      OmplModel.PathHybrid.IsWalk (OmplModel.PathHybrid.run (ops ++ more)).g.edges OmplModel.PathHybrid.root w
        OmplModel.PathHybrid.goal ∧
      ¬ OmplModel.PathHybrid.IsShortest (OmplModel.PathHybrid.run (ops ++ more)).g.edges w :=
  ⟨[.record [10]], [.record [1]], [(2, 0), (3, 10), (1, 0)],
    OmplModel.PathHybrid.isShortest_of_potential (fun v => [0, 10, 0, 10].getD v 0) (by decide) (by decide) (by decide)
      (by decide),
    by decide,
    fun h => (h.2 [(4, 0), (5, 1), (1, 0)] (by decide)) (by decide)⟩

/-! ## the return value of simplify (fix 3ab8608d2: `return path.check()`) -/

/-- `simplify` returning true implies that the resulting path passes `check()`: for inputs of fewer
than three states the routine returns true at once without touching the path (so the claim rests on
the input being valid — the property's own premise), otherwise the answer is `check()` itself -/
theorem simplify_true_implies_check (check : List σ → Bool) (inp out : List σ)
    (hvalid : check inp = true) (hsmall : inp.length < 3 → out = inp)
    (h : simplifyReturn check inp out = true) : check out = true := by
  unfold simplifyReturn at h
  split at h
  · next hs => rw [hsmall hs]; exact hvalid
  · exact h

/-- F56: before the fix (`return valid || path.check()` with `valid` still true because the
termination condition fired before the next `checkAndRepair`) true could be returned for a path
that fails `check()` -/
theorem simplify_old_true_without_check :
    ∃ (check : List Nat → Bool) (inp out : List Nat),
      check inp = true ∧ simplifyReturnOld true check inp out = true ∧ check out = false :=
  ⟨fun l => l.length == 3, [0, 1, 2], [0, 1, 2, 3], by decide, by decide, by decide⟩

example : simplifyReturn (fun l : List Nat => l.length == 3) [0, 1, 2] [0, 1, 2, 3] = false := by decide

/-! ## the schedule of simplify / simplifyMax as coded (Model/PathOpsSchedule.lean), by composition

The six routines are ABSTRACT call-indexed functions (each call is "some run" of that routine); `ptc` is
the stream of the termination condition's answers to `simplify`'s own evaluations.  `Preserves cm cut
isGoal inp out`: first state kept, last state kept or a goal state, every motion of `out` derived from
`inp` (input motion | validated | prefix / suffix of a derived motion cut at a `cut` point).  The bridge
from the concrete routine models to `RoutinesPreserve` is in Proofs/PathOpsScheduleBridge.lean. -/

/-- **first / last-or-goal / validated motions are preserved by the whole schedule**, whenever no
`checkAndRepair` failed (`valid = true`; a failed repair leaves an unvalidated raw sample, see
`repair_failed_can_leave_invalid_sample`, and the routine then answers via `check()`) -/
theorem simplify_schedule_preserves {cm : σ → σ → Bool} {cut : σ → σ → σ → Prop} {isGoal : σ → Prop} {R : Routines σ}
    (hR : RoutinesPreserve cm cut isGoal R) (ptc : Nat → Bool) (atLeastOnce : Bool) (fuel : Nat) (inp : List σ)
    (hvalid : (simplify R ptc atLeastOnce fuel inp).valid = true) :
    Preserves cm cut isGoal inp (simplify R ptc atLeastOnce fuel inp).path :=
  OmplModel.PathOps.simplify_schedule_preserves hR ptc atLeastOnce fuel inp hvalid

theorem simplifyMax_schedule_preserves {cm : σ → σ → Bool} {cut : σ → σ → σ → Prop} {isGoal : σ → Prop} {R : Routines σ}
    (hR : RoutinesPreserve cm cut isGoal R) (fuel : Nat) (inp : List σ)
    (hvalid : (simplifyMax R fuel inp).valid = true) : Preserves cm cut isGoal inp (simplifyMax R fuel inp).path :=
  OmplModel.PathOps.simplifyMax_schedule_preserves hR fuel inp hvalid

/-- **the schedule over the CONCRETE models of the tree's code** (`RoutinesAreRunsOrd`: every call of every routine is
some run — any script, any parameters — of `partialShortcutPathOrd` (checkMotion in path order), `findBetterGoal`,
`smoothBSpline`, `checkAndRepair`, `reduceVertices`, `collapseCloseVertices` as modelled, with `checkMotion = cm`,
interpolated states as cut points and sampled goals as goals): first / last-or-goal / derived motions, for EVERY
`checkMotion`, symmetric or not -/
theorem simplify_schedule_preserves_concrete {α γ β : Type} [BEq σ] {cm : σ → σ → Bool}
    {cut : σ → σ → σ → Prop} {isGoal : σ → Prop} {R : Routines σ}
    (h : RoutinesAreRunsOrd α γ β cm cut isGoal R)
    (ptc : Nat → Bool) (atLeastOnce : Bool) (fuel : Nat) (inp : List σ)
    (hvalid : (simplify R ptc atLeastOnce fuel inp).valid = true) :
    Preserves cm cut isGoal inp (simplify R ptc atLeastOnce fuel inp).path :=
  simplify_schedule_preserves_concrete_ord h ptc atLeastOnce fuel inp hvalid

-- the same for the FORMER code (partialShortcutPath validating in sampling order, before fix F170): needs `hsym`
/-- **the same with the six routines being runs of the CONCRETE models** (`RoutinesAreRuns`: every call
of every routine is some run — any script, any parameters — of `partialShortcutPath`, `findBetterGoal`,
`smoothBSpline`, `checkAndRepair`, `reduceVertices`, `collapseCloseVertices` as modelled, with
`checkMotion = cm`, interpolated states as cut points and sampled goals as goals).  `hsym` (checkMotion
symmetric) is needed by `partialShortcutPath` only, which validates its two samples BEFORE ordering them. -/
theorem simplify_schedule_old_preserves_concrete_partial {α γ β : Type} [BEq σ] {cm : σ → σ → Bool}
    {cut : σ → σ → σ → Prop} {isGoal : σ → Prop} {R : Routines σ}
    (hsym : ∀ a b, cm a b = cm b a) (h : RoutinesAreRuns α γ β cm cut isGoal R)
    (ptc : Nat → Bool) (atLeastOnce : Bool) (fuel : Nat) (inp : List σ)
    (hvalid : (simplify R ptc atLeastOnce fuel inp).valid = true) :
    Preserves cm cut isGoal inp (simplify R ptc atLeastOnce fuel inp).path :=
  OmplModel.PathOps.simplify_schedule_preserves_concrete hsym h ptc atLeastOnce fuel inp hvalid

/-- the WHOLE `partialShortcutPath` as it is in the tree (`partialShortcutPathOrd`: the `Float` sampling loop with
`checkMotion` asked in path order, fix 7afd3abe1), for every script and EVERY `checkMotion` — symmetric or
not: first and last state kept, only derived motions, read direction-sensitively.  The loop refines into
validated splice steps whose spliced-in states are cut points; all index bounds come from the checked indexing,
no Float law. -/
theorem pshort_whole_preserves {E : PsEnv σ} {cut : σ → σ → σ → Prop} (isGoal : σ → Prop)
    (hcut : ∀ a b t, cut a b (E.interp a b t))
    {u : Nat → Float} {ms me : Nat} {rr snap : Float} {path out : List σ} {r : Bool}
    (h : partialShortcutPathOrd E u ms me rr snap path = some (out, r)) :
    Preserves E.cm cut isGoal path out := partialShortcutOrd_preserves isGoal hcut h

/-- the FORMER code (before fix 7afd3abe1, F170: `checkMotion(s0, s1)` in SAMPLING order, splice in PATH order):
what was true of it needs `checkMotion` symmetric … -/
theorem pshort_old_whole_preserves_partial {E : PsEnv σ} {cut : σ → σ → σ → Prop} (isGoal : σ → Prop)
    (hsym : ∀ a b, E.cm a b = E.cm b a) (hcut : ∀ a b t, cut a b (E.interp a b t))
    {u : Nat → Float} {ms me : Nat} {rr snap : Float} {path out : List σ} {r : Bool}
    (h : partialShortcutPath E u ms me rr snap path = some (out, r)) :
    Preserves E.cm cut isGoal path out := partialShortcut_preserves isGoal hsym hcut h

/-- … and read direction-sensitively ("validated (a, b)" = `checkMotion(a, b)`, not `(b, a)`) "only validated
motions" FAILED for it: a step of that kind whose spliced-in motion was validated only in reverse (F170) -/
theorem pshort_only_validated_motions_directed_fails :
    ∃ (cm : Nat → Nat → Bool) (st out : List Nat),
      PsCutStep cm (fun _ _ _ => False) st out ∧
      ∃ p ∈ adj out, p ∉ adj st ∧ cm p.1 p.2 = false ∧ cm p.2 p.1 = true :=
  pshort_sampling_order_validation_fails

/-- `valid = false` only if some `checkAndRepair` call answered `result = false` -/
theorem simplify_schedule_invalid_only_after_failed_repair (R : Routines σ) (ptc : Nat → Bool) (atLeastOnce : Bool)
    (fuel : Nat) (inp : List σ) (hv : (simplify R ptc atLeastOnce fuel inp).valid = false) :
    ∃ k l, (R.checkAndRepair k l).2.2 = false :=
  simplify_schedule_invalid_witness R ptc atLeastOnce fuel inp hv

/-- the first state is kept in any case if every routine keeps it (also after a failed repair) -/
theorem simplify_schedule_keeps_first {R : Routines σ} (hR : RoutinesKeep List.head? R) (ptc : Nat → Bool)
    (atLeastOnce : Bool) (fuel : Nat) (inp : List σ) : (simplify R ptc atLeastOnce fuel inp).path.head? = inp.head? :=
  simplify_schedule_head hR ptc atLeastOnce fuel inp

/-- the schedule's return value is `simplifyReturn` (so `simplify_true_implies_check` applies) -/
theorem simplify_schedule_returns (R : Routines σ) (ptc : Nat → Bool) (atLeastOnce : Bool) (fuel : Nat) (inp : List σ) :
    (simplify R ptc atLeastOnce fuel inp).ret = simplifyReturn R.check inp (simplify R ptc atLeastOnce fuel inp).path :=
  simplify_schedule_return R ptc atLeastOnce fuel inp

/-- a termination condition that is true from its K-th evaluation on ends the schedule (no fuel cut-off)
after at most 2K routine calls -/
theorem simplify_schedule_terminates (R : Routines σ) (ptc : Nat → Bool) (K : Nat) (hK : ∀ k, K ≤ k → ptc k = true)
    (fuel : Nat) (hf : K < fuel) (inp : List σ) :
    (simplify R ptc false fuel inp).outOfFuel = false ∧ (simplify R ptc false fuel inp).calls ≤ 2 * K :=
  ⟨simplify_schedule_terminates_ptc R ptc K hK false fuel hf inp, simplify_schedule_calls_le_ptc R ptc K hK fuel inp⟩

/-! ## densification: subdivide, interpolate(), interpolate(count) -/

theorem subdivide_subsequence (mid : σ → σ → σ) (l : List σ) : l.Sublist (subdivide mid l) := subdivide_sublist mid l

theorem subdivide_count (mid : σ → σ → σ) (l : List σ) (h : l ≠ []) : (subdivide mid l).length = 2 * l.length - 1 :=
  subdivide_length mid l h

theorem subdivide_keeps_ends (mid : σ → σ → σ) (l : List σ) :
    (subdivide mid l).head? = l.head? ∧ (subdivide mid l).getLast? = l.getLast? :=
  ⟨subdivide_head? mid l, subdivide_getLast? mid l⟩

/-- every motion of the subdivided path is the first or the second half of an input motion -/
theorem subdivide_motions (mid : σ → σ → σ) (l : List σ) :
    ∀ p ∈ adj (subdivide mid l), ∃ q ∈ adj l, p = (q.1, mid q.1 q.2) ∨ p = (mid q.1 q.2, q.2) := subdivide_adj mid l

/-- length unchanged when the midpoint lies on a shortest path between its neighbours -/
theorem subdivide_length_eq {α : Type} [AddCommMonoid α] (dist : σ → σ → α) (mid : σ → σ → σ)
    (hmid : ∀ a b, dist a (mid a b) + dist (mid a b) b = dist a b) (l : List σ) :
    pathLen dist (subdivide mid l) = pathLen dist l :=
  subdivide_pathLen dist mid hmid l

theorem interpolate_subsequence (vsc : σ → σ → Nat) (frac : σ → σ → Nat → Nat → σ) (l : List σ) :
    l.Sublist (interpolateAll vsc frac l) := interpolateAll_sublist vsc frac l

theorem interpolate_keeps_ends (vsc : σ → σ → Nat) (frac : σ → σ → Nat → Nat → σ) (l : List σ) :
    (interpolateAll vsc frac l).head? = l.head? ∧ (interpolateAll vsc frac l).getLast? = l.getLast? :=
  ⟨interpolateAll_head? vsc frac l, interpolateAll_getLast? vsc frac l⟩

/-- per segment exactly `validSegmentCount - 1` states are inserted — none for a count of 0 (a
zero-length segment), where the unsigned `n - 1` of the code wraps around twice -/
theorem interpolate_count (vsc : σ → σ → Nat) (frac : σ → σ → Nat → Nat → σ) (l : List σ)
    (hv : ∀ a b, vsc a b < 4294967296) :
    (interpolateAll vsc frac l).length = l.length + ((adj l).map fun p => vsc p.1 p.2 - 1).sum :=
  interpolateAll_length vsc frac l hv

theorem interpolateCount_subsequence {α : Type} (segLen : σ → σ → α) (sub : α → α → α) (approx : Int → α → α → Int)
    (frac : σ → σ → Nat → Nat → σ) (len : α) (n : Nat) (l : List σ) :
    l.Sublist (interpolateCount segLen sub approx frac len n l) :=
  interpolateCount_sublist segLen sub approx frac len n l

theorem interpolateCount_keeps_ends {α : Type} (segLen : σ → σ → α) (sub : α → α → α) (approx : Int → α → α → Int)
    (frac : σ → σ → Nat → Nat → σ) (len : α) (n : Nat) (l : List σ) :
    (interpolateCount segLen sub approx frac len n l).head? = l.head? ∧
    (interpolateCount segLen sub approx frac len n l).getLast? = l.getLast? :=
  ⟨interpolateCount_head? segLen sub approx frac len n l, interpolateCount_getLast? segLen sub approx frac len n l⟩

/-- **exactly the requested number of states** for `count ≥ size ≥ 2`, whatever the rounding step
`floor(0.5 + count * seg / remaining)`, the segment lengths and the remaining-length bookkeeping
return (NaN, negative, huge: all covered — no rounding hypothesis is needed) -/
theorem interpolateCount_exact {α : Type} (segLen : σ → σ → α) (sub : α → α → α) (approx : Int → α → α → Int)
    (frac : σ → σ → Nat → Nat → σ) (len : α) (n : Nat) (l : List σ)
    (h2 : 2 ≤ l.length) (hn : l.length ≤ n) (hint : n < 2147483648) :
    (interpolateCount segLen sub approx frac len n l).length = n :=
  OmplModel.PathOps.interpolateCount_exact segLen sub approx frac len n l h2 hn hint

/-- the early returns (`requestCount < size` or `size < 2`): path unchanged -/
theorem interpolateCount_early_return {α : Type} (segLen : σ → σ → α) (sub : α → α → α) (approx : Int → α → α → Int)
    (frac : σ → σ → Nat → Nat → σ) (len : α) (n : Nat) (l : List σ) (h : n < l.length ∨ l.length < 2) :
    interpolateCount segLen sub approx frac len n l = l :=
  interpolateCount_small segLen sub approx frac len n l h

/-- non-vacuity: 3 states, 7 requested, a rounding function that always answers 100 -/
example : (interpolateCount (fun _ _ : Nat => (0 : Nat)) (fun a _ => a) (fun _ _ _ => 100)
    (fun a _ j _ => a * 100 + j) 0 7 [1, 2, 3]).length = 7 := by decide
example : subdivide (fun a b : Nat => (a + b) / 2) [0, 10, 20] = [0, 5, 10, 15, 20] := by decide

/-! ## Round 10: partialShortcutPath as a whole routine under an ARBITRARY objective (Model/PathOpsShortcutObj.lean)

`partialShortcutPathObj E start` runs in lock-step with the real routine of a simplifier constructed with a non-default objective
(`pshorto`: len / work / lin / wreg / toll / step / checker).  `start = .afterPos0` is the tree; `.atPos0` is the variant whose
`alongPath` loop starts at the segment that CONTAINS the earlier sample. -/

/-- the whole routine, EVERY objective (no law about it), every `checkMotion`, every script, both `start` variants: first and
last state kept, only derived motions (input / validated in path order / cut of one of those).  The cost test only decides
WHETHER a validated splice happens, never what is spliced. -/
theorem pshort_obj_whole_preserves {γ : Type} {E : PsEnvO σ γ} {start : AlongStart} {cut : σ → σ → σ → Prop} (isGoal : σ → Prop)
    (hcut : ∀ a b t, cut a b (E.interp a b t))
    {u : Nat → Float} {ms me : Nat} {rr snap : Float} {path out : List σ} {r : Bool}
    (h : partialShortcutPathObj E start u ms me rr snap path = some (out, r)) :
    Preserves E.cm cut isGoal path out :=
  ((partialShortcutPathObj_steps hcut h).toD).preserves isGoal

/-- **own objective, law-free**: every run of the whole routine is a sequence of executed splices each of which passed
`checkMotion` in path order AND the routine's own cost test: `psAlongPath … = some along` (the cost the loop accumulated for the
piece between the two samples) and `isCostBetterThan(along, motionCost(s0, s1)) = false` (`PsCostStepD`). -/
theorem pshort_obj_never_worse_own_objective {γ : Type} {E : PsEnvO σ γ} {start : AlongStart} {cut : σ → σ → σ → Prop}
    (hcut : ∀ a b t, cut a b (E.interp a b t))
    {u : Nat → Float} {ms me : Nat} {rr snap : Float} {path out : List σ} {r : Bool}
    (h : partialShortcutPathObj E start u ms me rr snap path = some (out, r)) :
    PsCostStepsD E.O start E.cm cut path out :=
  partialShortcutPathObj_steps hcut h

/-- non-vacuity: a path of fewer than three states is returned unchanged, with zero steps -/
example : partialShortcutPathObj (σ := Nat) (γ := Nat)
    { cm := fun _ _ => true, dist := fun _ _ => 1.0, interp := fun a _ _ => a,
      O := { identity := 0, combine := fun a b => a + b, motion := fun _ _ => 1, better := fun a b => decide (a < b) } }
    .afterPos0 (fun _ => 0.5) 0 0 1.0 0.0 [1, 2] = some ([1, 2], false) := by
  simp [partialShortcutPathObj]

/-- **what the tree's `alongPath` is** (additive cost type: `combineCosts = +`, `identityCost = 0`): exactly the cost of
`psAlongList` — the sample (if not snapped), the vertices `pos0+1 … pos1`, the second sample (if not snapped).  So the quantity
the routine compares the chord with is the cost of the replaced piece, minus the motion `states[pos0] → states[pos0+1]` when the
first sample is snapped (the conservative quirk). -/
theorem pshort_obj_along_is_replaced_cost {κ : Type} [AddCommMonoid κ] [LinearOrder κ] [IsOrderedAddMonoid κ]
    (d : σ → σ → κ) (st : List σ) (pos0 pos1 : Nat) (idx0 idx1 : Bool) (s0 s1 : σ)
    (h01 : pos0 < pos1) (hp1 : pos1 < st.length) (along : κ)
    (h : psAlongPath (addObj d) .afterPos0 st pos0 idx0 s0 pos1 idx1 s1 = some along) :
    along = pathLen d (psAlongList st pos0 idx0 s0 pos1 idx1 s1) :=
  psAlongPath_eq_pathLen d st pos0 pos1 idx0 idx1 s0 s1 h01 hp1 along h

/-- non-vacuity: both samples interior (5 in segment 0–10, 25 in 20–30): along = |5–10| + |10–20| + |20–25| = 20 -/
example : psAlongPath (addObj fun a b : Nat => (a - b) + (b - a)) .afterPos0 [0, 10, 20, 30, 40] 0 false 5 2 false 25 = some 20 := by
  decide

/-- **never worse under its own objective, path level, the WHOLE routine** (the property's clause "the shortcutting and cost-aware
routines never return a path that is … worse under their own objective" for `partialShortcutPath`): for every additive objective
(`combineCosts = +`, `identityCost = 0`, `isCostBetterThan = <` on a linearly ordered additive monoid) with non-negative motion costs
and cost-additive interpolated states, every `checkMotion`, every draw stream, every step bound and every path,
`cost(out) ≤ cost(path)`.  Covers the splice that ends at the LAST vertex (which `pshort_splice_never_longer_of_own_cost_test` /
`pshort_never_longer` leave out: they assume `pos1 + 1 < size`).  False for the `.atPos0` variant
(`pshort_along_from_pos0_accepts_worse_fails`).  IEEE rounding is executed in lock-step, not covered here. -/
theorem pshort_obj_never_worse_path_cost {κ : Type} [AddCommMonoid κ] [LinearOrder κ] [IsOrderedAddMonoid κ]
    (cm : σ → σ → Bool) (dist : σ → σ → Float) (interp : σ → σ → Float → σ)
    (d : σ → σ → κ) (hnn : ∀ a b, 0 ≤ d a b)
    (hadd : ∀ a b t, d a (interp a b t) + d (interp a b t) b = d a b)
    {u : Nat → Float} {ms me : Nat} {rr snap : Float} {path out : List σ} {r : Bool}
    (h : partialShortcutPathObj { cm := cm, dist := dist, interp := interp, O := addObj d } .afterPos0 u ms me rr snap path =
      some (out, r)) :
    pathLen d out ≤ pathLen d path :=
  (partialShortcutPathObj_steps (E := { cm := cm, dist := dist, interp := interp, O := addObj d })
    (cut := fun a b s => d a s + d s b = d a b) hadd h).pathLen_le hnn

/-- non-vacuity of the step the theorem is about: a splice that ENDS AT THE LAST VERTEX (first sample 5 inside segment 0–10, second
sample snapped to the last vertex 30) passes the routine's own test (along = 25 = chord) and is a `PsCostStepD` -/
example : PsCostStepD (addObj fun a b : Nat => (a - b) + (b - a)) .afterPos0 (fun _ _ => true)
    (fun a b s => ((a - s) + (s - a)) + ((s - b) + (b - s)) = (a - b) + (b - a)) [0, 10, 20, 30] [0, 5, 30] :=
  .mk [0, 10, 20, 30] 0 3 false true 5 30 [0, 5, 30] 25 (by decide) (by decide)
    ⟨by decide, fun h => Bool.noConfusion h, fun _ => ⟨by decide, by decide⟩⟩
    ⟨by decide, fun _ => by decide, fun h => Bool.noConfusion h⟩ rfl (by decide) (by decide) (by decide)

/-- **never longer in a metric space, the WHOLE routine, whatever its objective** (drops the hypothesis `pos1 + 1 < size` of the
round-1 family `pshort_splice_never_longer` / `pshort_never_longer`, whose `PsStep` cannot describe a splice that ends at the
LAST vertex): `d` obeys the triangle inequality and interpolated states lie on geodesics (`d a s + d s b = d a b`) ⇒
`length(out) ≤ length(path)` for every run of `partialShortcutPathObj` — every objective (the cost test is not used), both `start`
variants, every `checkMotion`, every draw stream and bound. -/
theorem pshort_whole_never_longer {γ κ : Type} [AddCommMonoid κ] [PartialOrder κ] [IsOrderedAddMonoid κ]
    {E : PsEnvO σ γ} {start : AlongStart} (d : σ → σ → κ) (tri : ∀ a b c, d a c ≤ d a b + d b c)
    (hgeo : ∀ a b t, d a (E.interp a b t) + d (E.interp a b t) b = d a b)
    {u : Nat → Float} {ms me : Nat} {rr snap : Float} {path out : List σ} {r : Bool}
    (h : partialShortcutPathObj E start u ms me rr snap path = some (out, r)) :
    pathLen d out ≤ pathLen d path :=
  ((partialShortcutPathObj_steps (cut := fun a b s => d a s + d s b = d a b) hgeo h).toD).pathLen_le_tri tri

/-- the same for the default-objective model `partialShortcutPathOrd` (the one `pshort` runs in lock-step) -/
theorem pshort_whole_never_longer_default {κ : Type} [AddCommMonoid κ] [PartialOrder κ] [IsOrderedAddMonoid κ]
    {E : PsEnv σ} (d : σ → σ → κ) (tri : ∀ a b c, d a c ≤ d a b + d b c)
    (hgeo : ∀ a b t, d a (E.interp a b t) + d (E.interp a b t) b = d a b)
    {u : Nat → Float} {ms me : Nat} {rr snap : Float} {path out : List σ} {r : Bool}
    (h : partialShortcutPathOrd E u ms me rr snap path = some (out, r)) :
    pathLen d out ≤ pathLen d path :=
  (partialShortcutPathOrd_steps (cut := fun a b s => d a s + d s b = d a b) hgeo h).pathLen_le_tri tri

/-- non-vacuity: a directed step that ends at the LAST vertex (both samples snapped: vertices 0 and 3 of a zigzag) -/
example : PsCutStepD (fun _ _ : Nat => true) (fun _ _ _ => False) [0, 7, 3, 10] [0, 10] :=
  .mk [0, 7, 3, 10] 0 3 true true 0 10 [0, 10] (by decide) (by decide)
    ⟨by decide, fun _ => by decide, fun h => Bool.noConfusion h⟩
    ⟨by decide, fun _ => by decide, fun h => Bool.noConfusion h⟩ rfl (by decide)

/-- **ropeShortcutPath never returns a path worse under its own objective** (whole routine as coded in the tree, every `checkMotion`,
every fuel / path): additive objective on an ordered additive monoid — identity 0, combine `+`, `subtractCosts (x + y) x = y`,
`isCostBetterThan a b → a ≤ b` —, the states a motion is densified into are cost-additive (`geo`), and the shortcut is priced by the
pieces it is densified into (`hchord`: the tree since fix F173).  NO triangle inequality (compare `rope_never_longer`): a chord may
be costlier than the sub-path; the routine's own comparison `shortcutCost < costs[j] - costs[i]` carries the claim.  Runs in
lock-step under work / lin / wreg / toll / step (`ropeo`). -/
theorem rope_never_worse_own_objective {κ : Type} [AddCommMonoid κ] [PartialOrder κ] [IsOrderedAddMonoid κ]
    (E : RopeEnv σ κ) (hid : E.identity = 0) (hcomb : ∀ a b, E.combine a b = a + b)
    (hsub : ∀ x y, E.subtract (x + y) x = y) (hlink : ∀ a b, E.better a b = true → a ≤ b)
    (geo : ∀ a b n, pathLen E.motion (a :: (inters E a b n ++ [b])) = E.motion a b)
    (hchord : ∀ a b, E.chord a b = pathLen E.motion (a :: (inters E a b (E.nInter a b) ++ [b])))
    {fuel : Nat} {path out : List σ} {r oob fo : Bool}
    (h : ropeShortcutPath E fuel path = some (out, r, oob, fo)) :
    pathLen E.motion out ≤ pathLen E.motion path :=
  rope_never_worse_additive E hid hcomb hsub hlink geo hchord h

/-- non-vacuity: a non-metric additive cost on three states (going 0 → 2 directly costs 30, via 1 only 20): the chord is valid but
the routine's cost test rejects it, the path is returned unchanged -/
example : ropeShortcutPath (σ := Nat) (γ := Nat)
    { cm := fun _ _ => true, nInter := fun _ _ => 0, interpK := fun a _ _ _ => a, identity := 0, combine := fun a b => a + b,
      motion := fun a b => if (a, b) = (0, 2) then 30 else 10, subtract := fun a b => a - b,
      better := fun a b => decide (a < b), eqCost := 0 } 10 [0, 1, 2] = some ([0, 1, 2], false, false, false) := by
  decide

/-- the states of the witness below: vertices 0 1 2 3, cut points 4 (inside 0–1) and 5 (inside 2–3); every segment costs 10, the
cuts are at half cost, the chord 4 → 5 costs 25 (it crosses an expensive region), every other pair 100 -/
def dblCost (a b : Nat) : Nat :=
  if (a, b) = (0, 1) ∨ (a, b) = (1, 2) ∨ (a, b) = (2, 3) then 10
  else if (a, b) = (0, 4) ∨ (a, b) = (4, 1) ∨ (a, b) = (2, 5) ∨ (a, b) = (5, 3) then 5
  else if (a, b) = (4, 5) then 25 else 100

/-- **starting `alongPath` at `posTemp = pos0` accepts a shortcut that makes the path worse** (the "obvious repair" of the
conservative quirk): with the first sample INSIDE segment `pos0` its partial cost (5) and the whole segment (10) are both counted,
`alongPath = 30 ≥ 25`, the splice is executed, and the path cost goes from 30 to 35 although both cuts are cost-additive;
the tree's loop gives `alongPath = 20 < 25` on the same input and rejects. -/
theorem pshort_along_from_pos0_accepts_worse_fails :
    psAlongPath (addObj dblCost) .atPos0 [0, 1, 2, 3] 0 false 4 2 false 5 = some 30 ∧
    (addObj dblCost).better 30 (dblCost 4 5) = false ∧
    psSplice [0, 1, 2, 3] 0 false 4 2 false 5 = some [0, 4, 5, 3] ∧
    dblCost 0 4 + dblCost 4 1 = dblCost 0 1 ∧ dblCost 2 5 + dblCost 5 3 = dblCost 2 3 ∧
    pathLen dblCost [0, 1, 2, 3] < pathLen dblCost [0, 4, 5, 3] ∧
    psAlongPath (addObj dblCost) .afterPos0 [0, 1, 2, 3] 0 false 4 2 false 5 = some 20 ∧
    (addObj dblCost).better 20 (dblCost 4 5) = true := by
  decide

/-- **`interpolate()` leaves the length unchanged**: the states put on a motion are on a geodesic (`geo`) ⇒ same `pathLen`, for every
`validSegmentCount` oracle (the `n = 0` wrap-around included) and every path -/
theorem interpolate_length_eq {κ : Type} [AddCommMonoid κ] (d : σ → σ → κ) (vsc : σ → σ → Nat) (frac : σ → σ → Nat → Nat → σ)
    (geo : ∀ a b cnt, pathLen d (a :: (motionStates frac a b cnt ++ [b])) = d a b) (l : List σ) :
    pathLen d (interpolateAll vsc frac l) = pathLen d l :=
  interpolateAll_pathLen d vsc frac geo l

/-- **`interpolate(count)` leaves the length unchanged** (same hypothesis), whatever the rounding function `approx`, the segment lengths
and the remaining-length bookkeeping return, for every requested count and every path -/
theorem interpolateCount_length_eq {α κ : Type} [AddCommMonoid κ] (d : σ → σ → κ) (segLen : σ → σ → α) (sub : α → α → α)
    (approx : Int → α → α → Int) (frac : σ → σ → Nat → Nat → σ)
    (geo : ∀ a b cnt, pathLen d (a :: (motionStates frac a b cnt ++ [b])) = d a b) (len : α) (n : Nat) (l : List σ) :
    pathLen d (interpolateCount segLen sub approx frac len n l) = pathLen d l :=
  interpolateCount_pathLen d segLen sub approx frac geo len n l

/-- non-vacuity: points on a line with `frac a b j count = a + (b - a) * j / count`: 3 states, 7 requested, length 20 before and after -/
example : pathLen (fun a b : Nat => (a - b) + (b - a))
    (interpolateCount (fun a b : Nat => (a - b) + (b - a)) (fun a b => a - b) (fun c s r => (c * s / r : Int))
      (fun a b j c => a + (b - a) * j / c) 20 7 [0, 10, 20]) = 20 := by decide

end OmplModel.Props.C17
