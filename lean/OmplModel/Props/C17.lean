import OmplModel.Model.PathOps
namespace OmplModel.Props.C17
end OmplModel.Props.C17
