import OmplModel.Proofs.Interleave
import OmplModel.Proofs.InterleaveInst
import OmplModel.Proofs.InterleavePrrt
import OmplModel.Proofs.InterleaveSchedules
import OmplModel.Proofs.InterleaveRound2
import OmplModel.Proofs.InterleavePrrtRun
import OmplModel.Proofs.InterleaveConsole
import OmplModel.Proofs.InterleaveAps
/-!
# C19 — concurrent use through the documented thread-safe surface is race-free

Property theorems over the interleaving model `OmplModel.Interleave` (Model/Interleave.lean).
The quantifier "every interleaving" is `∀ is : List Nat` (every scheduler); a scheduler that runs all
threads to their end is `Complete`.  What the theorems assume is the *granularity*: an `atomic`
read-modify-write and a `mutexGuarded` region are one step, a `plain` read-modify-write is two.  Which
kind every real member has is extracted from the source on every run into
`Generated/SharedAccess.lean`, whose obligation `surface_no_plain` is what makes the `k ≠ .plain`
hypotheses below true of the code.  Absence of C++ data races under every real schedule is *not* a
theorem; it is observed (TSan + stress) by the check and labelled as such.

All theorems are arithmetic-free or use only `Nat` counting.
-/
namespace OmplModel.Props.C19
open OmplModel.Interleave

/-! ## the quantifier -/

/-- **`schedules ts` enumerates exactly the complete interleavings**: every enumerated scheduler runs all
threads to their end, and every complete scheduler (any list of thread choices, stutters included) executes
the step sequence of an enumerated one.  So "for every `is` with `Complete ts is`" below is "for every
interleaving of the thread family". -/
theorem schedules_exactly_complete {α : Type} (ts : List (List α)) :
    (∀ is ∈ schedules ts, Complete ts is) ∧
      (∀ is, Complete ts is → ∃ js ∈ schedules ts, trace ts js = trace ts is) :=
  ⟨fun is h => schedules_complete ts is h, fun is h => complete_mem_schedules ts is h⟩

/-- every thread family has an interleaving (the theorems below are not vacuous) -/
theorem schedules_nonempty {α : Type} (ts : List (List α)) : ∃ is, Complete ts is := exists_complete ts

-- tests (evaluations of the enumerator on tiny families, not theorems about all sizes):
example : (schedules (counterThreads .plain 2 1)).map (counterFinal .plain 2 1) = [2, 1, 1, 1, 1, 2] := by decide
example : (schedules (counterThreads .atomic 2 2)).map (counterFinal .atomic 2 2) = [4, 4, 4, 4, 4, 4] := by decide

/-! ## counters: `valid_++`, `invalid_++`, `offset_++` -/

/-- **For every schedule of `N·m` atomic (or guarded) increments the final value is `N·m`.** -/
theorem atomic_counter_exact (k : Kind) (hk : k ≠ .plain) (N m : Nat) (is : List Nat)
    (hc : Complete (counterThreads k N m) is) : counterFinal k N m is = N * m := by
  have h := allInc_count (counterThreads k N m) (counterThreads_allInc k hk N m) CStore.init is
  have h0 : totalLen (remain (counterThreads k N m) is) = 0 := complete_iff.mp hc
  have hl : totalLen (counterThreads k N m) = N * m :=
    totalLen_mkThreads _ m (fun t => counterThread_length k hk t m) 0 N
  simp only [counterFinal]
  rw [h0, hl] at h
  simpa [CStore.init] using h

example : Complete (counterThreads .atomic 2 2) [0, 1, 1, 0] := by decide
example : counterFinal .atomic 2 2 [0, 1, 1, 0] = 4 := by decide

/-- at every moment (incomplete schedulers included) an atomic counter equals the number of
increments executed so far: the calls made minus the calls still pending -/
theorem atomic_counter_exact_prefix (k : Kind) (hk : k ≠ .plain) (N m : Nat) (is : List Nat) :
    counterFinal k N m is + totalLen (remain (counterThreads k N m) is) = N * m := by
  have h := allInc_count (counterThreads k N m) (counterThreads_allInc k hk N m) CStore.init is
  have hl : totalLen (counterThreads k N m) = N * m :=
    totalLen_mkThreads _ m (fun t => counterThread_length k hk t m) 0 N
  simp only [counterFinal]
  rw [hl] at h
  simpa [CStore.init] using h

/-- **A plain counter loses updates**: for every `N ≥ 2`, `m ≥ 1` there is a complete schedule that
ends below `N·m` (threads 0 and 1 both read 0, then both write 1; the rest runs in any order). -/
theorem plain_counter_loses_update (N m : Nat) (hN : 2 ≤ N) (hm : 1 ≤ m) :
    ∃ is, Complete (counterThreads .plain N m) is ∧ counterFinal .plain N m is < N * m := by
  obtain ⟨n, rfl⟩ : ∃ n, N = n + 2 := ⟨N - 2, by omega⟩
  obtain ⟨k, rfl⟩ : ∃ k, m = k + 1 := ⟨m - 1, by omega⟩
  obtain ⟨js, hjs⟩ := exists_complete_extension (counterThreads .plain (n + 2) (k + 1)) [0, 1, 0, 1]
  refine ⟨[0, 1, 0, 1] ++ js, hjs, ?_⟩
  -- the state after the prefix has one update lost for good
  have hsl := storesLeft_plain (n + 2) (k + 1)
  have hpre : Deficit 1 ((n + 2) * (k + 1)) (remain (counterThreads .plain (n + 2) (k + 1)) [0, 1, 0, 1])
      (exec CStep.apply (counterThreads .plain (n + 2) (k + 1)) CStore.init [0, 1, 0, 1]) := by
    have hsl' : storesLeft (remain (counterThreads .plain (n + 2) (k + 1)) [0, 1, 0, 1]) + 2 =
        (n + 2) * (k + 1) := by
      rw [← hsl]
      simp [counterThreads, mkThreads, counterThread, List.replicate_succ, incr, remain, storesLeft_cons,
        CStep.isStore, List.filter_cons]
      omega
    have hstore : exec CStep.apply (counterThreads .plain (n + 2) (k + 1)) CStore.init [0, 1, 0, 1] =
        ⟨1, fun u => if u = 1 then 0 else if u = 0 then 0 else 0⟩ := by
      simp [counterThreads, mkThreads, counterThread, List.replicate_succ, incr, exec, trace, runSteps,
        CStep.apply, CStore.init]
    rw [hstore]
    refine ⟨by simp only; omega, fun t => ?_⟩
    simp only
    split <;> (try split) <;> omega
  have hfin := deficit_exec 1 _ _ _ js hpre
  rw [← remain_append, ← exec_append] at hfin
  have h0 := storesLeft_eq_zero_of_complete hjs
  have := hfin.1
  rw [h0] at this
  simp only [counterFinal]
  omega

example : Complete (counterThreads .plain 2 1) [0, 1, 0, 1] ∧ counterFinal .plain 2 1 [0, 1, 0, 1] = 1 := by decide

/-- a plain counter never over-counts: lost updates only -/
theorem plain_counter_le (N m : Nat) (is : List Nat) (hc : Complete (counterThreads .plain N m) is) :
    counterFinal .plain N m is ≤ N * m := by
  have h0 : Deficit 0 (N * m) (counterThreads .plain N m) CStore.init := by
    have := storesLeft_plain N m
    refine ⟨by simp [CStore.init]; omega, fun t => by simp [CStore.init]; omega⟩
  have hfin := deficit_exec 0 _ _ _ is h0
  have hz := storesLeft_eq_zero_of_complete hc
  have := hfin.1
  rw [hz] at this
  simp only [counterFinal]
  omega

/-- the two kinds are told apart by a schedule: exactness for every schedule holds iff not plain -/
theorem counter_exact_iff_not_plain (k : Kind) :
    (∀ N m is, Complete (counterThreads k N m) is → counterFinal k N m is = N * m) ↔ k ≠ .plain := by
  constructor
  · intro h hk
    subst hk
    obtain ⟨is, hc, hlt⟩ := plain_counter_loses_update 2 1 (by omega) (by omega)
    have := h 2 1 is hc
    omega
  · intro hk N m is hc
    exact atomic_counter_exact k hk N m is hc

/-! ## solution set: `PlannerSolutionSet::add` under `lock_` -/

/-- **Guarded adds are linearizable**: whatever the schedule, the resulting list equals the
sequential result of one total order `l` of all the adds that contains every thread's adds in that
thread's program order. -/
theorem guarded_linearizable (k : Kind) (hk : k ≠ .plain) (xss : List (List Sol)) (is : List Nat)
    (hc : Complete (addThreads k xss) is) :
    ∃ l : List Sol, l.Perm xss.flatten ∧ (∀ xs ∈ xss, xs.Sublist l) ∧
      (exec SStep.apply (addThreads k xss) SStore.init is).sols = addAll l [] := by
  rw [addThreads_guarded k hk] at hc ⊢
  have hsteps : ∀ a ∈ trace (xss.map (fun xs => xs.map SStep.add)) is, ∃ x, a = SStep.add x := by
    intro a ha
    obtain ⟨t, ht, hat⟩ := mem_trace _ _ a ha
    obtain ⟨xs, _, rfl⟩ := List.mem_map.mp ht
    obtain ⟨x, _, rfl⟩ := List.mem_map.mp hat
    exact ⟨x, rfl⟩
  obtain ⟨l, hl⟩ := exists_map_add _ hsteps
  refine ⟨l, ?_, ?_, ?_⟩
  · have hp := trace_perm_of_complete hc
    rw [hl, flatten_map_map] at hp
    exact perm_of_map_add hp
  · intro xs hxs
    have := trace_sublist_of_complete hc (xs.map SStep.add) (List.mem_map.mpr ⟨xs, hxs, rfl⟩)
    rw [hl] at this
    exact sublist_of_map_add this
  · simp only [exec]
    rw [hl, runSteps_adds]
    rfl

/-- hence the final list holds exactly the added solutions (multiset union) and is ordered -/
theorem guarded_result_sorted_perm (k : Kind) (hk : k ≠ .plain) (xss : List (List Sol)) (is : List Nat)
    (hc : Complete (addThreads k xss) is) :
    (exec SStep.apply (addThreads k xss) SStore.init is).sols.Perm xss.flatten ∧
      Sorted (exec SStep.apply (addThreads k xss) SStore.init is).sols := by
  obtain ⟨l, hp, _, he⟩ := guarded_linearizable k hk xss is hc
  rw [he]
  exact ⟨by simpa using (addAll_perm l []).trans (by simpa using hp), addAll_sorted l [] trivial⟩

example : (exec SStep.apply (addThreads .mutexGuarded [[⟨5, 0⟩, ⟨1, 1⟩], [⟨3, 2⟩]]) SStore.init [0, 1, 0]).sols
    = [⟨1, 1⟩, ⟨3, 2⟩, ⟨5, 0⟩] := by decide

/-- the `lock_guard` removed: two unguarded adds can lose a solution -/
theorem unguarded_add_loses (a b : Sol) :
    ∃ is, Complete (addThreads .plain [[a], [b]]) is ∧
      (exec SStep.apply (addThreads .plain [[a], [b]]) SStore.init is).sols = [b] :=
  ⟨[0, 1, 0, 1], by simp [Complete, addThreads, addThreadsFrom, addThread, addOp, remain],
    by simp [addThreads, addThreadsFrom, addThread, addOp, exec, trace, runSteps, SStep.apply, SStore.init,
      insertSorted]⟩

/-! ### … with `clearSolutionPaths()` -/

/-- **Guarded adds and clears are linearizable**: whatever the schedule, the resulting list is the sequential
result `seqRun l []` of one total order `l` of all the calls that contains every thread's calls in program order. -/
theorem guarded_add_clear_linearizable (k : Kind) (hk : k ≠ .plain) (opss : List (List QOp)) (is : List Nat)
    (hc : Complete (qThreads k opss) is) :
    ∃ l : List QOp, l.Perm opss.flatten ∧ (∀ ops ∈ opss, ops.Sublist l) ∧
      (exec QStep.apply (qThreads k opss) SStore.init is).sols = seqRun l [] := by
  rw [qThreads_guarded k hk] at hc ⊢
  have hsteps : ∀ a ∈ trace (opss.map (fun ops => ops.map QOp.toStep)) is, ∃ o : QOp, a = o.toStep := by
    intro a ha
    obtain ⟨t, ht, hat⟩ := mem_trace _ _ a ha
    obtain ⟨ops, _, rfl⟩ := List.mem_map.mp ht
    obtain ⟨o, _, rfl⟩ := List.mem_map.mp hat
    exact ⟨o, rfl⟩
  obtain ⟨l, hl⟩ := exists_map_toStep _ hsteps
  refine ⟨l, ?_, ?_, ?_⟩
  · have hp := (trace_perm_of_complete hc).filterMap QStep.toOp?
    rw [hl, flatten_map_map, filterMap_toOp_map, filterMap_toOp_map] at hp
    exact hp
  · intro ops hops
    have := (trace_sublist_of_complete hc (ops.map QOp.toStep) (List.mem_map.mpr ⟨ops, hops, rfl⟩)).filterMap QStep.toOp?
    rwa [hl, filterMap_toOp_map, filterMap_toOp_map] at this
  · simp only [exec]
    rw [hl, runSteps_qops]
    rfl

/-- what that sequential result is: exactly the solutions added behind the last clear of the linearization, in
order — a solution added before a clear is gone, one added after the last clear is there (the harness oracle of
`solmix` checks these two consequences against the real-time order of the calls) -/
theorem guarded_add_clear_result (k : Kind) (hk : k ≠ .plain) (opss : List (List QOp)) (is : List Nat)
    (hc : Complete (qThreads k opss) is) :
    ∃ l : List QOp, l.Perm opss.flatten ∧ (∀ ops ∈ opss, ops.Sublist l) ∧
      (exec QStep.apply (qThreads k opss) SStore.init is).sols.Perm (live l []) ∧
      Sorted (exec QStep.apply (qThreads k opss) SStore.init is).sols := by
  obtain ⟨l, hp, hs, he⟩ := guarded_add_clear_linearizable k hk opss is hc
  exact ⟨l, hp, hs, by rw [he]; exact seqRun_perm_live l [], by rw [he]; exact seqRun_sorted l [] trivial⟩

example : (exec QStep.apply (qThreads .mutexGuarded [[.add ⟨5, 0⟩, .add ⟨1, 1⟩], [.clear, .add ⟨3, 2⟩]]) SStore.init
    [0, 1, 0, 1]).sols = [⟨1, 1⟩, ⟨3, 2⟩] := by decide

/-- **The optimistic add is not linearizable.**  `add x` split over two critical sections (copy · publish the
copy if the size is unchanged) racing with `clear; add y` on a set holding `o`: the schedule copy · clear · add y ·
publish ends with `o` back in the set, which no sequential order of the three calls allows. -/
theorem optimistic_add_resurrects (o x y : Sol) (hox : o ≠ x) (hoy : o ≠ y) :
    ∃ is, Complete (qThreads .plain [[.add x], [.clear, .add y]]) is ∧
      o ∈ (exec QStep.apply (qThreads .plain [[.add x], [.clear, .add y]]) ⟨[o], fun _ => []⟩ is).sols ∧
      ∀ l ∈ [[QOp.add x, .clear, .add y], [.clear, .add x, .add y], [.clear, .add y, .add x]], o ∉ seqRun l [o] := by
  refine ⟨[0, 1, 1, 1, 0], by simp [Complete, qThreads, qThreadsFrom, qThread, qSteps, remain], ?_, ?_⟩
  · have : (exec QStep.apply (qThreads .plain [[.add x], [.clear, .add y]]) ⟨[o], fun _ => []⟩ [0, 1, 1, 1, 0]).sols =
        insertSorted x [o] := by
      simp [qThreads, qThreadsFrom, qThread, qSteps, exec, trace, runSteps, QStep.apply, insertSorted]
    rw [this, mem_insertSorted]
    exact Or.inr (List.mem_singleton.mpr rfl)
  · intro l hl
    simp only [List.mem_cons, List.not_mem_nil, or_false] at hl
    rcases hl with rfl | rfl | rfl
    · have : seqRun [QOp.add x, .clear, .add y] [o] = insertSorted y [] := rfl
      rw [this, mem_insertSorted]; simp [hoy]
    · have : seqRun [QOp.clear, .add x, .add y] [o] = insertSorted y (insertSorted x []) := rfl
      rw [this, mem_insertSorted, mem_insertSorted]; simp [hox, hoy]
    · have : seqRun [QOp.clear, .add y, .add x] [o] = insertSorted x (insertSorted y []) := rfl
      rw [this, mem_insertSorted, mem_insertSorted]; simp [hox, hoy]

/-! ## seed generator: `RNGSeedGenerator::nextSeed` under `rngMutex_` -/

/-- **Guarded `nextSeed` hands every caller a different stream position** — at every moment of every
schedule — and when all `N·m` constructors have run, exactly the positions `0 … N·m-1`. -/
theorem seedgen_distinct (k : Kind) (hk : k ≠ .plain) (N m : Nat) (is : List Nat) :
    let s := exec GStep.apply (seedThreads k N m) GStore.init is
    (s.handed.map Prod.snd).Nodup ∧
      (Complete (seedThreads k N m) is → s.handed.map Prod.snd = List.range (N * m)) := by
  have hsteps : ∀ a ∈ trace (seedThreads k N m) is, ∃ u, a = GStep.next u := by
    intro a ha
    obtain ⟨t, ht, hat⟩ := mem_trace _ _ a ha
    exact seedThreads_allNext k hk N m t ht a hat
  have h := runSteps_next (trace (seedThreads k N m) is) hsteps GStore.init (by simp [GStore.init])
  simp only [exec]
  refine ⟨by rw [h.1]; exact List.nodup_range, fun hc => ?_⟩
  rw [h.1, h.2, trace_length_of_complete hc, seedThreads_totalLen k hk]
  simp [GStore.init]

example : (exec GStep.apply (seedThreads .mutexGuarded 2 2) GStore.init [1, 0, 0, 1]).handed
    = [(1, 0), (0, 1), (0, 2), (1, 3)] := by decide

/-- `nextSeed` without the mutex: two callers can receive the same stream position -/
theorem unguarded_seedgen_duplicates :
    ∃ is, Complete (seedThreads .plain 2 1) is ∧
      (exec GStep.apply (seedThreads .plain 2 1) GStore.init is).handed = [(0, 0), (1, 0)] :=
  ⟨[0, 1, 0, 1], by decide, by decide⟩

/-! ## termination flag: `terminate()` from another thread -/

/-- **Every evaluation scheduled after `terminate()` returns true**, and the reader's answers are
monotone (some `false`s, then only `true`s), for every schedule of a writer and a reader that
evaluates the condition `n` times on an atomic flag. -/
theorem terminate_eventually_seen (k : Kind) (hk : k ≠ .plain) (n : Nat) (is : List Nat) :
    let s := exec FStep.apply (flagThreads k n) FStore.init is
    ∃ a, s.seen = List.replicate a false ++
      List.replicate (pollsAfterSet (trace (flagThreads k n) is)) true := by
  have hsteps : ∀ a ∈ trace (flagThreads k n) is, a = FStep.set ∨ a = FStep.poll := by
    intro a ha
    obtain ⟨t, ht, hat⟩ := mem_trace _ _ a ha
    exact flagThreads_steps k hk n t ht a hat
  obtain ⟨a, ha⟩ := runSteps_flag _ hsteps false []
  exact ⟨a, by simpa [exec, FStore.init] using ha⟩

/-- in particular: if the reader evaluates once more after the writer's `terminate()`, the last thing
it sees is `true` -/
theorem terminate_seen_by_last_poll (k : Kind) (hk : k ≠ .plain) (n : Nat) (is : List Nat) (pre : List FStep)
    (htr : trace (flagThreads k n) is = pre ++ [.poll]) (hset : FStep.set ∈ pre) :
    (exec FStep.apply (flagThreads k n) FStore.init is).seen.getLast? = some true := by
  obtain ⟨a, ha⟩ := terminate_eventually_seen k hk n is
  have hpos := pollsAfterSet_append_poll pre hset
  rw [← htr] at hpos
  rw [ha]
  obtain ⟨j, hj⟩ : ∃ j, pollsAfterSet (trace (flagThreads k n) is) = j + 1 := ⟨_, (Nat.succ_pred_eq_of_pos hpos).symm⟩
  rw [hj, List.replicate_succ', ← List.append_assoc]
  simp

example : (exec FStep.apply (flagThreads .atomic 3) FStore.init [1, 0, 1, 1]).seen = [false, true, true] := by decide

/-- a plain flag read in a loop may be hoisted (load once, test the register): then a reader that
started before `terminate()` never sees it, however often it evaluates -/
theorem plain_flag_may_never_be_seen (n : Nat) :
    ∃ is, Complete (flagThreads .plain n) is ∧
      trace (flagThreads .plain n) is = .load :: .set :: List.replicate n .test ∧
      ∀ b ∈ (exec FStep.apply (flagThreads .plain n) FStore.init is).seen, b = false := by
  have hrem : ∀ (j : Nat) (l : List FStep), remain [[], l] (List.replicate j 1) = [[], l.drop j] := by
    intro j
    induction j with
    | zero => intro l; rfl
    | succ j ih =>
      intro l
      cases l with
      | nil => simpa [List.replicate_succ, remain] using ih []
      | cons a l => simpa [List.replicate_succ, remain] using ih l
  have htr : ∀ (j : Nat), trace [[], List.replicate j FStep.test] (List.replicate j 1) = List.replicate j .test := by
    intro j
    induction j with
    | zero => rfl
    | succ j ih => simp [List.replicate_succ, trace, ih]
  have hrun : ∀ (j : Nat) (seen : List Bool), (∀ b ∈ seen, b = false) →
      ∀ b ∈ (runSteps FStep.apply (List.replicate j .test) ⟨true, false, seen⟩).seen, b = false := by
    intro j
    induction j with
    | zero => intro seen hs; exact hs
    | succ j ih =>
      intro seen hs
      simp only [List.replicate_succ, runSteps_cons, FStep.apply]
      exact ih _ (by intro b hb; rcases List.mem_append.mp hb with hb | hb; exact hs b hb; simpa using hb)
  refine ⟨1 :: 0 :: List.replicate n 1, ?_, ?_, ?_⟩
  · intro t ht
    simp only [flagThreads, remain, List.getElem?_cons_succ, List.getElem?_cons_zero, List.set_cons_succ,
      List.set_cons_zero] at ht
    rw [hrem n] at ht
    simp at ht
    rcases ht with rfl | rfl <;> rfl
  · simp [flagThreads, trace, htr]
  · simp only [exec, flagThreads, trace, List.getElem?_cons_succ, List.getElem?_cons_zero, List.set_cons_succ,
      List.set_cons_zero, htr, runSteps_cons, FStep.apply, FStore.init]
    exact hrun n [] (by simp)

/-! ### the periodic form -/

/-- **Periodic form, as in the code (`eval()` answers `terminate_ || cache`)**: every evaluation scheduled after
`terminate()` returns true and the answers are monotone, for every schedule of the evaluation thread (`m` rounds of
calling the predicate and then storing its answer), the terminating thread and a planner evaluating `n` times —
in particular when `terminate()` falls between the predicate call and the store. -/
theorem periodic_terminate_seen (m n : Nat) (is : List Nat) :
    let s := exec TStep.apply (periodicThreads false m n) TStore.init is
    ∃ a, s.seen = List.replicate a false ++
      List.replicate (evalsAfterSet (trace (periodicThreads false m n) is)) true := by
  have hsteps : ∀ a ∈ trace (periodicThreads false m n) is, TStep.fixedAlphabet a := by
    intro a ha
    obtain ⟨t, ht, hat⟩ := mem_trace _ _ a ha
    exact periodicThreads_fixed m n t ht a hat
  obtain ⟨a, ha⟩ := runSteps_T_false _ hsteps []
  exact ⟨a, by simpa [exec, TStore.init] using ha⟩

example : (exec TStep.apply (periodicThreads false 1 2) TStore.init [0, 1, 0, 2, 2]).seen = [true, true] := by decide

/-- **Cache-only variant** (`eval()` answers from the cache, `terminate()` also writes the cache): when
`terminate()` arrives between the predicate call and the store of its (false) answer, the request is overwritten
and no later evaluation ever sees it, however many there are. -/
theorem periodic_cache_only_loses_terminate (n : Nat) :
    ∃ is, Complete (periodicThreads true 1 n) is ∧
      trace (periodicThreads true 1 n) is = [.callFn, .setTC, .storeCache] ++ List.replicate n .evalCache ∧
      ∀ b ∈ (exec TStep.apply (periodicThreads true 1 n) TStore.init is).seen, b = false := by
  have hrem : ∀ (j : Nat) (l : List TStep), remain [[], [], l] (List.replicate j 2) = [[], [], l.drop j] := by
    intro j
    induction j with
    | zero => intro l; rfl
    | succ j ih =>
      intro l
      cases l with
      | nil => simpa [List.replicate_succ, remain] using ih []
      | cons a l => simpa [List.replicate_succ, remain] using ih l
  have htr : ∀ (j : Nat), trace [[], [], List.replicate j TStep.evalCache] (List.replicate j 2) =
      List.replicate j .evalCache := by
    intro j
    induction j with
    | zero => rfl
    | succ j ih => simp [List.replicate_succ, trace, ih]
  have hrun : ∀ (j : Nat) (seen : List Bool), (∀ b ∈ seen, b = false) →
      ∀ b ∈ (runSteps TStep.apply (List.replicate j .evalCache) ⟨true, false, false, seen⟩).seen, b = false := by
    intro j
    induction j with
    | zero => intro seen hs; exact hs
    | succ j ih =>
      intro seen hs
      simp only [List.replicate_succ, runSteps_cons, TStep.apply]
      exact ih _ (by intro b hb; rcases List.mem_append.mp hb with hb | hb; exact hs b hb; simpa using hb)
  refine ⟨0 :: 1 :: 0 :: List.replicate n 2, ?_, ?_, ?_⟩
  · intro t ht
    simp only [periodicThreads, if_true, List.replicate_succ, List.replicate_zero, List.flatten_cons, List.flatten_nil,
      List.append_nil, remain, List.getElem?_cons_succ, List.getElem?_cons_zero,
      List.set_cons_succ, List.set_cons_zero] at ht
    rw [hrem n] at ht
    simp at ht
    rcases ht with rfl | rfl <;> rfl
  · simp [periodicThreads, trace, htr]
  · simp only [exec, periodicThreads, if_true, List.replicate_succ, List.replicate_zero, List.flatten_cons, List.flatten_nil,
      List.append_nil, trace, List.getElem?_cons_succ, List.getElem?_cons_zero,
      List.set_cons_succ, List.set_cons_zero, htr, runSteps_cons, TStep.apply, TStore.init]
    exact hrun n [] (by simp)

/-! ## PRM's two-thread solve at lock granularity -/

/-- **The solution thread's reads are consistent under every schedule** (repaired code, F38): in every check the
component answer and the two states come from the same storage — same generation, same contents — whatever the
roadmap thread adds (and reallocates) in between, for every scheduler, complete or not. -/
theorem prm_solution_thread_reads_consistent {S : Type} (vs : List (S × Bool)) (n : Nat) (is : List Nat) :
    ∀ p ∈ (exec RStep.apply (prmThreads true vs n) RStore.init is).log, p.1 = p.2 := by
  have hsteps : ∀ a ∈ trace (prmThreads true vs n) is, RStep.repaired a := by
    intro a ha
    obtain ⟨t, ht, hat⟩ := mem_trace _ _ a ha
    exact prmThreads_repaired vs n t ht a hat
  exact runSteps_preserves_of RStep.apply (fun s => ∀ p ∈ s.log, p.1 = p.2) RStep.repaired
    (fun a s ha h => rstep_consistent a s ha h) _ hsteps _ (by intro p hp; simp [RStore.init] at hp)

/-- before the repair (states read after the lock was released): the roadmap thread can add a vertex and
reallocate between the two halves, and the states are read from another storage than the component answer -/
theorem prm_unlocked_state_read_stale {S : Type} (v : S) :
    ∃ is, Complete (prmThreads false [(v, true)] 1) is ∧
      (exec RStep.apply (prmThreads false [(v, true)] 1) RStore.init is).log = [((0, []), (1, [v]))] :=
  ⟨[1, 0, 1], by simp [Complete, prmThreads, remain],
    by simp [prmThreads, exec, trace, runSteps, RStep.apply, RStore.init]⟩

example : (exec RStep.apply (prmThreads true [((7 : Nat), true), (8, false)] 2) RStore.init [1, 0, 1, 0]).log =
    [((0, []), (0, [])), ((1, [7]), (1, [7]))] := by decide

/-! ## CForest's solution monitor (`CForest::newSolutionFound` under `newSolutionFoundMutex_`) -/

/-- **The best cost is monotone under every schedule of reports**: with the whole report one guarded step, after any
scheduler (complete or not) of any number of instances reporting any costs, the successive values of `bestCost_` are
strictly decreasing, `bestCost_` is the last of them and at most every cost reported so far, and `numPathsShared_` counts
exactly those strict improvements (`l` = the costs in the order the reports took the mutex). -/
theorem cforest_best_cost_monotone (css : List (List Nat)) (is : List Nat) :
    ∃ l : List Nat, trace (reportThreads true css) is = l.map MStep.report ∧
      MInv l (exec MStep.apply (reportThreads true css) MStore.init is) := by
  rw [reportThreads_monitor]
  have hsteps : ∀ a ∈ trace (css.map (fun cs => cs.map MStep.report)) is, ∃ c, a = MStep.report c := by
    intro a ha
    obtain ⟨t, ht, hat⟩ := mem_trace _ _ a ha
    obtain ⟨cs, _, rfl⟩ := List.mem_map.mp ht
    obtain ⟨c, _, rfl⟩ := List.mem_map.mp hat
    exact ⟨c, rfl⟩
  obtain ⟨l, hl⟩ := exists_map_report _ hsteps
  refine ⟨l, hl, ?_⟩
  simp only [exec]
  rw [hl]
  simpa using minv_run l [] MStore.init minv_init

/-- when all reports are in: `bestCost_` is the minimum of the reported costs (one of them, and at most each) -/
theorem cforest_best_is_min (css : List (List Nat)) (is : List Nat) (hc : Complete (reportThreads true css) is) :
    let s := exec MStep.apply (reportThreads true css) MStore.init is
    (∀ c ∈ css.flatten, ∃ b, s.best = some b ∧ b ≤ c) ∧ (∀ b, s.best = some b → b ∈ css.flatten) := by
  obtain ⟨l, hl, inv⟩ := cforest_best_cost_monotone css is
  have hp : l.Perm css.flatten := by
    have := trace_perm_of_complete hc
    rw [hl, reportThreads_monitor, flatten_map_map] at this
    have h2 := this.filterMap (fun a => match a with | MStep.report c => some c | _ => none)
    have key : ∀ m : List Nat, (m.map MStep.report).filterMap (fun a => match a with | MStep.report c => some c | _ => none) = m := by
      intro m
      induction m with
      | nil => rfl
      | cons x m ih => simp [ih]
    rwa [key, key] at h2
  refine ⟨fun c hcm => inv.seen_ge c ((hp.mem_iff).mpr hcm), fun b hb => ?_⟩
  have : b ∈ (exec MStep.apply (reportThreads true css) MStore.init is).hist := by
    have hlast := inv.best_last
    rw [hb] at hlast
    exact List.mem_of_getLast? hlast.symm
  exact (hp.mem_iff).mp (inv.hist_seen b this)

example : (exec MStep.apply (reportThreads true [[10, 7], [8]]) MStore.init [0, 1, 0]).hist = [10, 8, 7] := by decide

/-- **Check-then-act outside the lock is not linearizable** (the shape "compare without the mutex, update under it without
comparing again"): instance A reports 10, B reports 8; schedule cmp A · cmp B · act B · act A — both comparisons see the
infinite initial cost, B stores 8, A stores 10 on top: `bestCost_` goes UP and ends at 10, whereas under the monitor every
schedule of the same two reports ends at 8. -/
theorem cforest_check_then_act_not_linearizable :
    ∃ is, Complete (reportThreads false [[10], [8]]) is ∧
      (exec MStep.apply (reportThreads false [[10], [8]]) MStore.init is).best = some 10 ∧
      (exec MStep.apply (reportThreads false [[10], [8]]) MStore.init is).hist = [8, 10] ∧
      ∀ js, Complete (reportThreads true [[10], [8]]) js →
        (exec MStep.apply (reportThreads true [[10], [8]]) MStore.init js).best = some 8 := by
  refine ⟨[0, 1, 1, 0], by decide, by decide, by decide, ?_⟩
  intro js hjs
  obtain ⟨hmin, hmem⟩ := cforest_best_is_min [[10], [8]] js hjs
  obtain ⟨b, hb, hle⟩ := hmin 8 (by simp)
  have := hmem b hb
  simp at this
  rcases this with rfl | rfl
  · omega
  · exact hb

/-! ## pRRT's worker loop at lock granularity -/

/-- **Every interleaving of worker steps preserves "every tree edge was answered valid"** (with the
bookkeeping `PInv` that makes it inductive): for any thread family over the worker steps — in
particular `workers xss` — any nearest-neighbour selection that returns a tree node, any steering
function, any validity oracle, and every scheduler, complete or not. -/
theorem prrt_tree_inv_all_schedules {S D : Type} (e : PEnv S D) (hsel : ∀ l x, l ≠ [] → e.sel l x ∈ l)
    (ts : List (List (PStep S))) (is : List Nat) :
    PInv e (exec (PStep.apply e) ts (PStore.init e) is) :=
  exec_preserves (PStep.apply e) (PInv e) (pinv_step e hsel) ts is _ (pinv_init e)

/-- the tree of any pRRT run, at any moment: every edge is a motion the validity oracle accepts, and
its parent is a tree node -/
theorem prrt_edges_valid {S D : Type} (e : PEnv S D) (hsel : ∀ l x, l ≠ [] → e.sel l x ∈ l)
    (xss : List (List S)) (is : List Nat) (c p : S) (h : (c, some p) ∈ (prrtRun e xss is).tree) :
    e.valid p c = true ∧ p ∈ nodes (prrtRun e xss is).tree := by
  have inv := prrt_tree_inv_all_schedules e hsel (workers xss) is
  exact ⟨(inv.answers_true _ _ _ (inv.edge_valid c p h)).symm, inv.parent_in c p h⟩

/-- the reported solution (exact or approximate) is a tree node, the exact one satisfies the goal, and
**the path to it is real**: it is connected to a start state by a chain of edges the oracle accepts -/
theorem prrt_solution_path_real {S D : Type} (e : PEnv S D) (hsel : ∀ l x, l ≠ [] → e.sel l x ∈ l)
    (xss : List (List S)) (is : List Nat) :
    (∀ c, (prrtRun e xss is).sol = some c → e.goal c = true ∧ Chain e (prrtRun e xss is).tree c) ∧
    (∀ c, (prrtRun e xss is).approx = some c → Chain e (prrtRun e xss is).tree c) := by
  have inv : PInvChain e (prrtRun e xss is) :=
    exec_preserves (PStep.apply e) (PInvChain e) (pinvChain_step e hsel) (workers xss) is _ (pinvChain_init e)
  exact ⟨fun c hc => ⟨(inv.1.sol_in c hc).2, inv.2 c (inv.1.sol_in c hc).1⟩,
    fun c hc => inv.2 c (inv.1.approx_in c hc)⟩

/-- two workers solving at once: `(solution, approxdif)` are written in one guarded step, so the
reported difference is always the goal distance of a goal state; it cannot be overwritten by a
non-goal state's distance when the goal is a region (`goal` is downward closed in the distance) -/
theorem prrt_solution_consistent {S D : Type} (e : PEnv S D)
    (hgoal : ∀ a b, e.goal a = true → e.lt (e.dist b) (e.dist a) = true → e.goal b = true)
    (ts : List (List (PStep S))) (is : List Nat) :
    SolConsistent e (exec (PStep.apply e) ts (PStore.init e) is) :=
  exec_preserves (PStep.apply e) (SolConsistent e) (solConsistent_step e hgoal) ts is _
    (by intro c hc; simp [PStore.init] at hc)

/-- non-vacuity: a concrete run over `Nat` states (valid motions: steps of size ≤ 2; goal: ≥ 4) in
which two workers interleave, nodes are added and a solution is set -/
def demoEnv : PEnv Nat Nat where
  root := 0
  valid := fun a b => decide (b ≤ a + 2)
  sel := fun l _ => l.foldl max 0
  steer := fun n x => min x (n + 2)
  goal := fun c => decide (4 ≤ c)
  dist := fun c => 4 - c
  lt := fun a b => decide (a < b)

example : (prrtRun demoEnv [[9, 9], [9]] [0, 0, 1, 0, 1, 1, 1, 0, 0, 0, 0, 0]).tree =
    [(0, none), (2, some 0), (2, some 0), (4, some 2)] := by decide
example : (prrtRun demoEnv [[9, 9], [9]] [0, 0, 1, 0, 1, 1, 1, 0, 0, 0, 0, 0]).sol = some 4 := by decide

/-! ## pRRT: what `solve()` reports (round 10; `report` mirrors the epilogue of `pRRT::solve`, and `drv_conc` replays
recorded runs of the real planner on these very definitions) -/

/-- **The reported path is a real path**, for every scheduler (complete or not) of any thread family over the worker
steps: it starts at the start state, ends at the state `solve()` walked back from — the exact solution, which
satisfies the goal, or else the approximate one — and every consecutive pair of states is a motion the validity
oracle accepted.  (The parent walk is fuel-bounded in the model; part of the claim is that the fuel always suffices.) -/
theorem prrt_report_path_valid {S D : Type} [DecidableEq S] (e : PEnv S D) (hsel : ∀ l x, l ≠ [] → e.sel l x ∈ l)
    (ts : List (List (PStep S))) (is : List Nat) (r : Report S D)
    (hr : report (exec (PStep.apply e) ts (PStore.init e) is) = some r) :
    r.path.head? = some e.root ∧
    (∃ c, r.path.getLast? = some c ∧
      (if r.approximate then (exec (PStep.apply e) ts (PStore.init e) is).sol = none ∧
          (exec (PStep.apply e) ts (PStore.init e) is).approx = some c
        else (exec (PStep.apply e) ts (PStore.init e) is).sol = some c ∧ e.goal c = true)) ∧
    ∀ a b, [a, b] <:+: r.path → e.valid a b = true := by
  obtain ⟨inv, hg⟩ : PInv e (exec (PStep.apply e) ts (PStore.init e) is) ∧
      Grown e.root (exec (PStep.apply e) ts (PStore.init e) is).tree :=
    exec_preserves (PStep.apply e) (fun s => PInv e s ∧ Grown e.root s.tree) (grown_step e hsel) ts is _ (grown_init e)
  generalize exec (PStep.apply e) ts (PStore.init e) is = s at hr inv hg
  have key : ∀ c, c ∈ nodes s.tree → (solutionPath s.tree c).head? = some e.root ∧
      (solutionPath s.tree c).getLast? = some c ∧ ∀ a b, [a, b] <:+: solutionPath s.tree c → e.valid a b = true := by
    intro c hc
    obtain ⟨h1, h2, h3⟩ := solutionPath_spec hg c hc
    exact ⟨h1, h2, fun a b hab => (inv.answers_true _ _ _ (inv.edge_valid b a (h3 a b hab))).symm⟩
  simp only [report] at hr
  cases hs : s.sol with
  | some c =>
    rw [hs] at hr
    cases hr
    obtain ⟨hin, hgoal⟩ := inv.sol_in c hs
    obtain ⟨h1, h2, h3⟩ := key c hin
    exact ⟨h1, ⟨c, h2, by simp [hgoal]⟩, h3⟩
  | none =>
    rw [hs] at hr
    cases ha : s.approx with
    | none => rw [ha] at hr; cases hr
    | some c =>
      rw [ha] at hr
      cases hr
      obtain ⟨h1, h2, h3⟩ := key c (inv.approx_in c ha)
      exact ⟨h1, ⟨c, h2, by simp⟩, h3⟩

example : (report (prrtRun demoEnv [[9, 9], [9]] [0, 0, 1, 0, 1, 1, 1, 0, 0, 0, 0, 0])).map
    (fun r => (r.approximate, r.difference, r.path)) = some (false, none, [0, 2, 4]) := by decide
example : (report (prrtRun demoEnv [[9]] [0, 0, 0, 0])).map
    (fun r => (r.approximate, r.difference, r.path)) = some (true, some 2, [0, 2]) := by decide

/-- **The reported difference belongs to the reported path**: an approximate report carries the goal distance of the
very state its path ends at (the two `SolutionInfo` fields are written in one guarded step), an exact report records
none (`addSolutionPath` stores the difference only `if (approximate)`).  Every scheduler, any thread family. -/
theorem prrt_report_difference {S D : Type} [DecidableEq S] (e : PEnv S D) (hsel : ∀ l x, l ≠ [] → e.sel l x ∈ l)
    (ts : List (List (PStep S))) (is : List Nat) (r : Report S D)
    (hr : report (exec (PStep.apply e) ts (PStore.init e) is) = some r) :
    if r.approximate then ∃ c, r.path.getLast? = some c ∧ r.difference = some (e.dist c) else r.difference = none := by
  obtain ⟨c, hlast, hc⟩ := (prrt_report_path_valid e hsel ts is r hr).2.1
  have hai : ApproxInv e (exec (PStep.apply e) ts (PStore.init e) is) :=
    exec_preserves (PStep.apply e) (ApproxInv e) (approxInv_step e) ts is _ (by intro _; simp [PStore.init])
  generalize exec (PStep.apply e) ts (PStore.init e) is = s at hr hc hai
  simp only [report] at hr
  cases hs : s.sol with
  | some c' => rw [hs] at hr; cases hr; simp
  | none =>
    rw [hs] at hr
    cases ha : s.approx with
    | none => rw [ha] at hr; cases hr
    | some c' =>
      rw [ha] at hr
      cases hr
      simp only [↓reduceIte] at hc ⊢
      have := hai hs
      rw [ha] at this
      obtain ⟨_, hc2⟩ := hc
      rw [ha] at hc2
      cases hc2
      exact ⟨c, hlast, this⟩

/-- **The exact solution carries its own goal distance** (strengthens `prrt_solution_consistent`, which only said "of
some goal state"): whenever `solution` is set, `approxdif` is the distance of THAT state — a later non-goal update
cannot replace it when the goal is a region.  Every scheduler, any thread family. -/
theorem prrt_solution_carries_its_distance {S D : Type} (e : PEnv S D)
    (hgoal : ∀ a b, e.goal a = true → e.lt (e.dist b) (e.dist a) = true → e.goal b = true)
    (ts : List (List (PStep S))) (is : List Nat) (c : S)
    (hc : (exec (PStep.apply e) ts (PStore.init e) is).sol = some c) :
    e.goal c = true ∧ (exec (PStep.apply e) ts (PStore.init e) is).approxdif = some (e.dist c) :=
  exec_preserves (PStep.apply e) (SolOwnDiff e) (solOwnDiff_step e hgoal) ts is _
    (by intro c hc; simp [PStore.init] at hc) c hc

example : (prrtRun demoEnv [[9, 9], [9]] [0, 0, 1, 0, 1, 1, 1, 0, 0, 0, 0, 0]).approxdif = some 0 := by decide

/-- **The approximate solution is the closest state any worker brought to the update**: while no exact solution is
set, no state on which a worker executed its solution update is strictly closer to the goal than `approxdif` — under
every scheduler, complete or not (`lt` irreflexive and transitive, as `<` on doubles is).  `updatedCands` lists those
states along the executed step sequence; in the code every added state reaches the update in the same loop iteration
(the replay check `judge_trace` observes `A` followed by `G` on every worker). -/
theorem prrt_approx_is_closest {S D : Type} (e : PEnv S D) (hirr : ∀ a, e.lt a a = false)
    (htr : ∀ a b c, e.lt a b = true → e.lt b c = true → e.lt a c = true)
    (ts : List (List (PStep S))) (is : List Nat)
    (hs : (exec (PStep.apply e) ts (PStore.init e) is).sol = none) :
    ∀ c ∈ updatedCands e (trace ts is) (PStore.init e),
      ∃ d, (exec (PStep.apply e) ts (PStore.init e) is).approxdif = some d ∧ e.lt (e.dist c) d = false := by
  have h := closest_run e hirr htr (trace ts is) (PStore.init e) [] (by intro _ c hc; simp at hc)
  simpa [exec] using h hs

example : updatedCands demoEnv (trace (workers [[9], [1]]) [0, 0, 0, 0, 1, 1, 1, 1]) (PStore.init demoEnv) = [2, 1] ∧
    (prrtRun demoEnv [[9], [1]] [0, 0, 0, 0, 1, 1, 1, 1]).sol = none ∧
    (prrtRun demoEnv [[9], [1]] [0, 0, 0, 0, 1, 1, 1, 1]).approx = some 2 ∧
    (prrtRun demoEnv [[9], [1]] [0, 0, 0, 0, 1, 1, 1, 1]).approxdif = some 2 := by decide

/-- **An added state reaches the solution update** — proved part.  FULL STATEMENT (not proved):
`∀ xss is, Complete (workers xss) is →
   (nodes (prrtRun e xss is).tree).tail.Perm (updatedCands e (trace (workers xss) is) (PStore.init e))`
("the states brought to the update are exactly the states added to the tree", which would turn `prrt_approx_is_closest`
into "the approximate solution is the closest state of the TREE").
Proved here: the local step of that argument, for every store and whatever the other workers do in between — if worker
`t`'s motion check passed, then `add t`, any steps of OTHER workers, `upd t` put its candidate among the updated states
(and the candidate is in the tree by `PInv.added_in`).
Missing: the decomposition of the trace of a complete scheduler of `workers xss` into such blocks per worker (every
`add t` is followed by `upd t` with no step of worker `t` in between, and `nearest t` resets `added`), which needs an
invariant over (`remain`, store) pairs — the generic `exec_preserves` only sees the store.  Observed instead on every
recorded run (`judge_trace`: each `A` event of a worker is followed by its `G` event). -/
theorem prrt_added_state_reaches_update_partial {S D : Type} (e : PEnv S D) (t : Nat) (l : List (PStep S))
    (hl : ∀ a ∈ l, a.thread ≠ t) (s : PStore S D) (hok : (s.loc t).ok = true) :
    (s.loc t).cand ∈ updatedCands e ([PStep.add t] ++ l ++ [PStep.upd t]) s ∧
      (s.loc t).cand ∈ nodes (runSteps (PStep.apply e) ([PStep.add t] ++ l ++ [PStep.upd t]) s).tree := by
  refine ⟨added_then_updated e t l hl s hok, ?_⟩
  have h1 : (s.loc t).cand ∈ nodes (PStep.apply e (.add t) s).tree := by
    simp [PStep.apply, hok, nodes]
  have hmono : ∀ (l : List (PStep S)) (s : PStore S D) (c : S), c ∈ nodes s.tree →
      c ∈ nodes (runSteps (PStep.apply e) l s).tree := by
    intro l
    induction l with
    | nil => intro s c hc; exact hc
    | cons a l ih =>
      intro s c hc
      rw [runSteps_cons]
      refine ih _ c ?_
      cases a with
      | nearest u x => exact hc
      | check u => exact hc
      | add u =>
        simp only [PStep.apply]
        split
        · exact mem_nodes_append hc
        · exact hc
      | upd u =>
        simp only [PStep.apply]
        split
        · split
          · exact hc
          · split
            · exact hc
            · split <;> exact hc
        · exact hc
  have := hmono (l ++ [PStep.upd t]) _ _ h1
  simpa [runSteps_append, runSteps, List.append_assoc] using this

example : ((prrtRun demoEnv [[9], [1]] [0, 0]).loc 0).ok = true ∧
    updatedCands demoEnv ([PStep.add 0] ++ [PStep.nearest 1 1, .check 1] ++ [PStep.upd 0]) (prrtRun demoEnv [[9], [1]] [0, 0])
      = [2] := by decide

/-! ## logging: the console lock serialises the handlers (round 10b; the directed harness op is `logpark`) -/

/-- **Handlers are entered one at a time and a replaced handler is idle when the replacing call returns** — for every
scheduler (complete or not) of any thread family made of the console's entry points as they are (`log`,
`useOutputHandler`, `noOutputHandler`, `restorePreviousOutputHandler`, each one guarded step): between steps nobody is
inside a handler, no entry ever overlapped another, and no replacement returned over a running message. -/
theorem console_handlers_serialised (ts : List (List LStep)) (hts : ∀ t ∈ ts, ∀ a ∈ t, a.guarded) (h0 : Option Nat)
    (is : List Nat) :
    let s := exec LStep.apply ts (LStore.init h0) is
    s.inside = [] ∧ s.overlaps = 0 ∧ s.stale = 0 := by
  have hsteps : ∀ a ∈ trace ts is, a.guarded := by
    intro a ha
    obtain ⟨t, ht, hat⟩ := mem_trace _ _ a ha
    exact hts t ht a hat
  exact lquiet_run _ hsteps _ ⟨rfl, rfl, rfl⟩

example : (exec LStep.apply [[.logG 0, .logG 0], [.useH 2, .logG 1], [.noH, .restore]] (LStore.init (some 1))
    [0, 1, 2, 1, 2, 0]).delivered = [(1, 0), (2, 0)] := by decide   -- thread 1's message falls into `noOutputHandler`

/-- **No message is lost or duplicated while a handler is installed**: threads that log and replace the handler (never
remove it), every complete scheduler: the handlers together received exactly as many messages as were sent. -/
theorem console_delivers_every_message (ts : List (List LStep))
    (hts : ∀ t ∈ ts, ∀ a ∈ t, (∃ u, a = LStep.logG u) ∨ (∃ h, a = LStep.useH h)) (h0 : Nat) (is : List Nat)
    (hc : Complete ts is) :
    (exec LStep.apply ts (LStore.init (some h0)) is).delivered.length = logCount ts.flatten := by
  have hsteps : ∀ a ∈ trace ts is, (∃ u, a = LStep.logG u) ∨ (∃ h, a = LStep.useH h) := by
    intro a ha
    obtain ⟨t, ht, hat⟩ := mem_trace _ _ a ha
    exact hts t ht a hat
  have h := (delivered_run _ hsteps (LStore.init (some h0)) (by simp [LInstalled, LStore.init])).1
  have hp := trace_perm_of_complete hc
  simp only [exec]
  rw [h]
  simp only [LStore.init, List.length_nil, Nat.zero_add, logCount]
  exact (hp.filter _).length_eq

example : Complete [[LStep.logG 0, .logG 0], [.useH 2, .logG 1]] [0, 1, 1, 0] := by decide

/-- **Calling the handler after releasing the lock is not serialised** (the shape "copy the pointer under the lock, call
outside"): two threads log once each; schedule snap 0 · enter 0 · snap 1 · enter 1 — the second thread enters the handler
while the first is inside it. -/
theorem console_split_log_overlaps :
    ∃ is, Complete [splitLog 0, splitLog 1] is ∧
      (exec LStep.apply [splitLog 0, splitLog 1] (LStore.init (some 7)) is).overlaps = 1 :=
  ⟨[0, 0, 1, 1, 0, 1], by decide, by decide⟩

/-- … **and `useOutputHandler` returns over a running message**: thread 0 is inside handler 7 when thread 1 replaces it;
the call returns (one step) while the message is still being written by the replaced handler, which its owner may now
destroy.  Under the guarded console (`console_handlers_serialised`) `stale` stays 0 for the same two calls. -/
theorem console_split_log_stale_handler :
    ∃ is, Complete [splitLog 0, [.useH 8]] is ∧
      (exec LStep.apply [splitLog 0, [.useH 8]] (LStore.init (some 7)) is).stale = 1 ∧
      ∀ js, (exec LStep.apply [[.logG 0], [.useH 8]] (LStore.init (some 7)) js).stale = 0 := by
  refine ⟨[0, 0, 1, 0], by decide, by decide, fun js => ?_⟩
  exact (console_handlers_serialised [[.logG 0], [.useH 8]]
    (by intro t ht a ha; simp at ht; rcases ht with rfl | rfl <;> simp at ha <;> subst ha <;> simp [LStep.guarded]) (some 7) js).2.2

/-! ## AnytimePathShortening: `bestCost_` against the stored paths (round 10b; model only — tied to the code by the
extraction of `addPath`'s lock scope, no replay harness yet) -/

/-- **Once `bestCost_` has been initialised, it is the cost of the cheapest stored path under every interleaving**: any
family of threads (sub-planner threads and APS's own shortcut loop) calling `addPath`, every scheduler, complete or not,
started from the state right after `bestCost_ = infiniteCost()`: `bestCost_` is never NaN again, it is the cost of a
stored path and no stored path is cheaper. -/
theorem aps_best_cost_is_min_of_stored (ts : List (List AStep)) (hts : ∀ t ∈ ts, ∀ a ∈ t, a.isReport) (is : List Nat) :
    ABestIsMin (exec AStep.apply ts ⟨.inf, []⟩ is) := by
  have hsteps : ∀ a ∈ trace ts is, a.isReport := by
    intro a ha
    obtain ⟨t, ht, hat⟩ := mem_trace _ _ a ha
    exact hts t ht a hat
  exact runSteps_preserves_of AStep.apply ABestIsMin AStep.isReport abest_step _ hsteps _
    ⟨by simp, by intro c hc; simp at hc, by intro b hb; simp at hb⟩

example : (exec AStep.apply [[.report false 9, .report false 4], [.report true 6, .report true 3]] ⟨.inf, []⟩
    [0, 1, 0, 1]).stored = [9, 6, 4, 3] := by decide

/-- **As coded, the initialisation can come after a report** (`solve()` starts the sub-planner threads before it executes
`bestCost_ = opt->infiniteCost()`, and `clear()` left NaN): a sub-planner that reports 5 before the initialisation is
compared against NaN — stored, not counted; the next report 7 then becomes `bestCost_` although a path of cost 5 is
stored.  The returned solutions are unaffected (the problem definition orders its paths itself); what is off is
`getBestCost()` and the `isSatisfied(bestCost_)` test, until APS's own loop re-adds the best path.  With the
initialisation first (`aps_best_cost_is_min_of_stored`) this cannot happen. -/
theorem aps_report_before_initialisation_not_counted :
    ∃ is, Complete [[AStep.init], [.report false 5, .report false 7]] is ∧
      (exec AStep.apply [[AStep.init], [.report false 5, .report false 7]] AStore.cleared is).best = .val 7 ∧
      (exec AStep.apply [[AStep.init], [.report false 5, .report false 7]] AStore.cleared is).stored = [5, 7] :=
  ⟨[1, 0, 1], by decide, by decide, by decide⟩

/-- **The environment the replay driver runs meets the hypothesis of the pRRT theorems**: the brute-force nearest
neighbour (`nearestOf`, what `nn_->nearest` must answer; the real answer is accepted as a hint only when it is a tree
node at exactly the minimal distance) returns a tree node, for every validity table, hint, range, threshold and goal — so `prrt_tree_inv_all_schedules`, `prrt_solution_path_real` and `prrt_report_path_valid` apply to
`rvEnv` as instantiated by `drv_conc`, with no assumption left about the selection. -/
theorem prrt_rv_env_sel_mem (p : RvParams) (tab : ValidTable) (hint : Option Vec) :
    ∀ l x, l ≠ [] → (rvEnv p tab hint).sel l x ∈ l :=
  fun l x h => nearestHinted_mem hint l x h

example : (rvEnv ⟨0.0, 0.0, [], []⟩ []).sel [[7]] [9] = [7] := by simp [rvEnv, nearestHinted, nearestOf, nearestFrom]
end OmplModel.Props.C19
