import OmplModel.Model.SpaceInterpCar
/-!
C07, car-like spaces (Dubins, Reeds-Shepp): the cached interpolate overloads trace the SAME curve as the 4-argument
`interpolate`, whatever was asked of the `(firstTime, path)` pair before.  Model: `Model/SpaceInterpCar.lean`
(`cachedCall` = the shared text of the two `interpolate(from, to, t, firstTime, path, state)` bodies, over C14's
planner / integration models).  Imported by `Props/C07.lean`; every theorem here is a proof obligation of C07.

All theorems are [AF]: no arithmetic law is used, the number type, the planner and the path integration are
parameters, so they hold of the `Float` instantiation that `drv_spaceinterp` runs in lock step with libompl
(`dubins_*` / `rs_*` instantiate them at C14's models for every `DNum` / `RSNum`).

What the clause says, as coded: the state a call writes is a function of `(from, to, t)` only —
  * for `0 < t < 1` it is exactly what `interpolate(from, to, t)` writes (`car_cached_interior_eq_direct`,
    `car_leg_history_independent`, `car_walk_history_independent`),
  * for an end-point parameter it is the end point itself (cold pair) or the stored path integrated to that
    parameter (warm pair) — both functions of `(from, to, t)` (`car_cached_function_of_endpoints`); that the second
    reaches the end point is C14's `dubins_interpolate_reaches_target` / `rs_interpolate_reaches_target` (over ℝ),
    and is compared with a tolerance by the check,
  * the default-constructed path object is never read (`car_direct_garbage_irrelevant`),
provided the caller resets `firstTime` whenever the end points change (`Car.reset`; what `walk` does).
`car_s6_history_dependent` shows the clause has teeth: the variant that clears the flag before the end-point
shortcuts (seeded change C07-s6) returns garbage-dependent interior points after an end-point call.
-/
namespace OmplModel.Props.C07
open OmplModel OmplModel.SpaceInterp.Car

variable {S P α : Type}

/-- [AF] the 4-argument interpolate never reads its default-constructed path -/
theorem car_direct_garbage_irrelevant (cls : α → Where) (c : Car S P α) (g g' : P) (frm to : S) (t : α) :
    direct cls c g frm to t = direct cls c g' frm to t := by
  unfold direct cachedCall
  simp only [if_true]
  cases cls t <;> simp

/-- [AF] a call keeps the invariant "flag still set, or the stored path is the planned one" -/
theorem car_cached_preserves_inv (cls : α → Where) (c : Car S P α) (k k' : Cache P) (frm to s : S) (t : α)
    (hI : Inv c k frm to) (h : cachedCall cls c k frm to t = some (s, k')) : Inv c k' frm to := by
  unfold cachedCall at h
  by_cases hf : k.firstTime = true
  · simp only [hf, if_true] at h
    cases hc : cls t <;> simp only [hc] at h
    · cases h; exact hI
    · cases h; exact hI
    · cases hp : c.plan frm to <;> simp only [hp] at h
      · cases h
      · cases h; exact Or.inr hp
  · simp only [hf] at h
    cases h; exact hI

/-- [AF] at an interior parameter a call on ANY pair satisfying the invariant writes what the 4-argument interpolate writes -/
theorem car_cached_interior_eq_direct (cls : α → Where) (c : Car S P α) (k : Cache P) (g : P) (frm to : S) (t : α)
    (hI : Inv c k frm to) (ht : cls t = .inner) :
    (cachedCall cls c k frm to t).map (·.1) = direct cls c g frm to t := by
  unfold direct cachedCall
  simp only [if_true, ht]
  by_cases hf : k.firstTime = true
  · simp only [hf, if_true]
  · have hp : c.plan frm to = some k.path := by
      cases hI with
      | inl h => exact absurd h hf
      | inr h => exact h
    simp [hf, hp]

/-- [AF] every state a call writes is one of two functions of `(from, to, t)`: the 4-argument result, or the planned path
integrated to `t` — nothing else about the pair's history enters -/
theorem car_cached_function_of_endpoints (cls : α → Where) (c : Car S P α) (k k' : Cache P) (g : P) (frm to s : S) (t : α)
    (hI : Inv c k frm to) (h : cachedCall cls c k frm to t = some (s, k')) :
    some s = direct cls c g frm to t ∨ ∃ p, c.plan frm to = some p ∧ s = c.along frm p t := by
  by_cases hf : k.firstTime = true
  · left
    have : (cachedCall cls c k frm to t).map (·.1) = direct cls c g frm to t := by
      unfold direct cachedCall
      simp only [hf, if_true]
      cases cls t <;> simp
    rw [h] at this
    simpa using this
  · right
    have hp : c.plan frm to = some k.path := by
      cases hI with
      | inl h' => exact absurd h' hf
      | inr h' => exact h'
    unfold cachedCall at h
    simp only [hf] at h
    cases h
    exact ⟨k.path, hp, rfl⟩

/-- [AF] a whole leg keeps the invariant -/
theorem car_leg_preserves_inv (cls : α → Where) (c : Car S P α) (frm to : S) (ts : List α) :
    ∀ (k k' : Cache P) (out : List S), Inv c k frm to →
      runLeg (cachedCall cls c) k frm to ts = some (out, k') → Inv c k' frm to := by
  induction ts with
  | nil => intro k k' out hI h; simp [runLeg] at h; cases h.2; exact hI
  | cons t ts ih =>
    intro k k' out hI h
    unfold runLeg at h
    cases h1 : cachedCall cls c k frm to t with
    | none => simp [h1] at h
    | some r =>
      obtain ⟨s, k1⟩ := r
      simp only [h1] at h
      cases h2 : runLeg (cachedCall cls c) k1 frm to ts with
      | none => simp [h2] at h
      | some r2 =>
        obtain ⟨o2, k2⟩ := r2
        simp only [h2, Option.some.injEq, Prod.mk.injEq] at h
        obtain ⟨_, hk⟩ := h
        subst hk
        exact ih k1 k2 o2 (car_cached_preserves_inv cls c k k1 frm to s t hI h1) h2

/-- [AF] HISTORY INDEPENDENCE within a leg: start from a pair whose flag is set and whose path object holds ANYTHING, make any
sequence `pre` of earlier calls with the same end points (end points first, interior first, repeated, in any order); the next
call at an interior parameter writes exactly `interpolate(from, to, t)` -/
theorem car_leg_history_independent (cls : α → Where) (c : Car S P α) (k0 k : Cache P) (g : P) (frm to : S)
    (pre : List α) (out : List S) (t : α) (h0 : k0.firstTime = true)
    (hrun : runLeg (cachedCall cls c) k0 frm to pre = some (out, k)) (ht : cls t = .inner) :
    (cachedCall cls c k frm to t).map (·.1) = direct cls c g frm to t :=
  car_cached_interior_eq_direct cls c k g frm to t
    (car_leg_preserves_inv cls c frm to pre k0 k out (Or.inl h0) hrun) ht

/-- [AF] … and ACROSS legs: whatever earlier legs (other end points, any parameters) left in the pair `k`, after the caller's
`firstTime = true` the next leg's interior points are those of the 4-argument interpolate: a stale path is never read -/
theorem car_walk_history_independent (cls : α → Where) (c : Car S P α) (k k' : Cache P) (g : P) (frm to : S)
    (pre : List α) (out : List S) (t : α)
    (hrun : runLeg (cachedCall cls c) (reset k) frm to pre = some (out, k')) (ht : cls t = .inner) :
    (cachedCall cls c k' frm to t).map (·.1) = direct cls c g frm to t :=
  car_leg_history_independent cls c (reset k) k' g frm to pre out t rfl hrun ht

/-- [AF] point by point: in the list of states a leg writes, every entry at an interior parameter is the 4-argument result -/
theorem car_leg_pointwise (cls : α → Where) (c : Car S P α) (g : P) (frm to : S) (ts : List α) :
    ∀ (k k' : Cache P) (out : List S), Inv c k frm to →
      runLeg (cachedCall cls c) k frm to ts = some (out, k') →
      out.length = ts.length ∧ ∀ p ∈ ts.zip out, cls p.1 = .inner → some p.2 = direct cls c g frm to p.1 := by
  induction ts with
  | nil => intro k k' out _ h; simp [runLeg] at h; cases h.1; simp
  | cons t ts ih =>
    intro k k' out hI h
    unfold runLeg at h
    cases h1 : cachedCall cls c k frm to t with
    | none => simp [h1] at h
    | some r =>
      obtain ⟨s, k1⟩ := r
      simp only [h1] at h
      cases h2 : runLeg (cachedCall cls c) k1 frm to ts with
      | none => simp [h2] at h
      | some r2 =>
        obtain ⟨o2, k2⟩ := r2
        simp only [h2, Option.some.injEq, Prod.mk.injEq] at h
        obtain ⟨ho, _⟩ := h
        subst ho
        obtain ⟨hl, hz⟩ := ih k1 k2 o2 (car_cached_preserves_inv cls c k k1 frm to s t hI h1) h2
        refine ⟨by simp [hl], ?_⟩
        intro p hp
        simp only [List.zip_cons_cons, List.mem_cons] at hp
        cases hp with
        | inl hp =>
          subst hp
          intro ht
          have := car_cached_interior_eq_direct cls c k g frm to t hI ht
          rw [h1] at this
          simpa using this
        | inr hp => exact hz p hp

/-! ### non-vacuity and the witness that the clause has teeth: a toy car (states, paths, parameters = `Nat`) -/

/-- parameters 0 / ≥ 10 are the end points; the planned path of (a, b) is a + b; integrating path p to t gives 100 p + t -/
def toyCls (t : Nat) : Where := if t = 0 then .atFrom else if 10 ≤ t then .atTo else .inner
def toyCar : Car Nat Nat Nat := ⟨fun a b => some (a + b), fun _ p t => 100 * p + t⟩

-- the coded machine: end point first, then interior; garbage 7 or 9 in the path object: same answers, = direct
example : (runLeg (cachedCall toyCls toyCar) ⟨true, 7⟩ 1 2 [0, 5, 10, 3]).map (·.1) = some [1, 305, 310, 303] := by decide
example : (runLeg (cachedCall toyCls toyCar) ⟨true, 9⟩ 1 2 [0, 5, 10, 3]).map (·.1) = some [1, 305, 310, 303] := by decide
example : direct toyCls toyCar 7 1 2 5 = some 305 := by decide
-- two legs on one pair: the second leg (end points 4, 5) starts at an end point and never sees the first leg's path 3
example : (walk (cachedCall toyCls toyCar) ⟨true, 7⟩ [(1, 2, [5]), (4, 5, [10, 5])]).map (·.1) = some [[305], [5, 905]] := by decide

/-- the seeded change C07-s6 (flag consumed before the end-point shortcuts) makes the interior point after an end-point call
depend on the garbage in the path object, and differ from the 4-argument interpolate -/
theorem car_s6_history_dependent :
    (runLeg (cachedCallS6 toyCls toyCar) ⟨true, 7⟩ 1 2 [0, 5]).map (·.1) = some [1, 705] ∧
    (runLeg (cachedCallS6 toyCls toyCar) ⟨true, 9⟩ 1 2 [0, 5]).map (·.1) = some [1, 905] ∧
    direct toyCls toyCar 7 1 2 5 = some 305 := by decide

/-! ### the two instances (C14's models of the planners and of `interpolate(from, path, t, state)`) -/
section
open OmplModel.Dubins

/-- [AF] the machine's 4-argument interpolate IS C14's model `Dubins.interpolate` (plain and symmetric), for every number type -/
theorem dubins_direct_eq_interpolate {β : Type} [DNum β] (rho : β) (sym : Bool) (g : Path β) (frm to : Pose β) (t : β) :
    direct clsNum (dubinsCar rho sym) g frm to t = OmplModel.Dubins.interpolate rho sym frm to t := by
  unfold direct cachedCall clsNum OmplModel.Dubins.interpolate dubinsCar
  simp only [if_true]
  by_cases h1 : (1 : β) ≤ t
  · simp [h1]
  · by_cases h0 : t ≤ 0
    · simp [h1, h0]
    · simp only [h1, h0, if_false]
      cases choosePath rho sym frm to <;> simp

/-- [AF] … and C14's `rsInterpolate` for Reeds-Shepp -/
theorem rs_direct_eq_interpolate {β : Type} [OmplModel.RS.RSNum β] (rho : β) (g : OmplModel.RS.RSPath β) (frm to : Pose β) (t : β) :
    direct clsNum (rsCar rho) g frm to t = OmplModel.RS.rsInterpolate rho frm to t := by
  unfold direct cachedCall clsNum OmplModel.RS.rsInterpolate rsCar
  simp only [if_true]
  by_cases h1 : (1 : β) ≤ t
  · simp [h1]
  · by_cases h0 : t ≤ 0
    · simp [h1, h0]
    · simp only [h1, h0, if_false]
      cases OmplModel.RS.reedsSheppStates rho frm to <;> simp

/-- [AF] Dubins (plain and symmetric), any number type incl. `Float`: after ANY earlier use of the pair and a reset, after any
sequence of earlier calls of the leg, an interior call of the cached overload writes `interpolate(from, to, t)` -/
theorem dubins_cached_history_independent {β : Type} [DNum β] (rho : β) (sym : Bool) (k k' : Cache (Path β))
    (frm to : Pose β) (pre : List β) (out : List (Pose β)) (t : β)
    (hrun : runLeg (cachedCall clsNum (dubinsCar rho sym)) (reset k) frm to pre = some (out, k'))
    (h1 : ¬ (1 : β) ≤ t) (h0 : ¬ t ≤ 0) :
    (cachedCall clsNum (dubinsCar rho sym) k' frm to t).map (·.1) = OmplModel.Dubins.interpolate rho sym frm to t := by
  rw [← dubins_direct_eq_interpolate rho sym dubinsDefault]
  exact car_walk_history_independent clsNum _ k k' _ frm to pre out t hrun (by simp [clsNum, h1, h0])

/-- [AF] the same for Reeds-Shepp -/
theorem rs_cached_history_independent {β : Type} [OmplModel.RS.RSNum β] (rho : β) (k k' : Cache (OmplModel.RS.RSPath β))
    (frm to : Pose β) (pre : List β) (out : List (Pose β)) (t : β)
    (hrun : runLeg (cachedCall clsNum (rsCar rho)) (reset k) frm to pre = some (out, k'))
    (h1 : ¬ (1 : β) ≤ t) (h0 : ¬ t ≤ 0) :
    (cachedCall clsNum (rsCar rho) k' frm to t).map (·.1) = OmplModel.RS.rsInterpolate rho frm to t := by
  rw [← rs_direct_eq_interpolate rho ⟨0, 0, 0, 0, 0, 0⟩]
  exact car_walk_history_independent clsNum _ k k' _ frm to pre out t hrun (by simp [clsNum, h1, h0])

/-! ### wrappers / compounds with car-like leaves (`Car.xinterp`, what `drv_spaceinterp` answers for them) -/

/-- [AF] a Dubins leaf anywhere in a compound is interpolated by C14's `Dubins.interpolate` (the component's 4-argument virtual) -/
theorem xinterp_dubins_leaf {β : Type} [OmplModel.RS.RSNum β] (rho : β) (sym : Bool) (lo hi : List β) (pa pb : Pose β) (t : β) :
    xinterp (.dubins rho sym lo hi) (stOf pa) (stOf pb) t = (OmplModel.Dubins.interpolate rho sym pa pb t).map stOf := by
  simp [xinterp, poseOf, stOf, dubins_direct_eq_interpolate]

/-- [AF] … a Reeds-Shepp leaf by C14's `rsInterpolate` -/
theorem xinterp_rs_leaf {β : Type} [OmplModel.RS.RSNum β] (rho : β) (lo hi : List β) (pa pb : Pose β) (t : β) :
    xinterp (.rs rho lo hi) (stOf pa) (stOf pb) t = (OmplModel.RS.rsInterpolate rho pa pb t).map stOf := by
  simp [xinterp, poseOf, stOf, rs_direct_eq_interpolate]

/-- [AF] compounds delegate per component and ignore the weights; wrappers forward -/
theorem xinterp_compound {β : Type} [OmplModel.RS.RSNum β] (w : β) (h tl : XSpace β) (ah at' bh bt rh rt : St β) (t : β)
    (hh : xinterp h ah bh t = some rh) (ht : xinterp tl at' bt t = some rt) :
    xinterp (.xcons w h tl) (.ccons ah at') (.ccons bh bt) t = some (.ccons rh rt) ∧
    xinterp (.wrap (.xcons w h tl)) (.ccons ah at') (.ccons bh bt) t = some (.ccons rh rt) := by
  simp [xinterp, hh, ht]

/-- non-vacuity: a compound [Dubins, so2-leaf] is interpolated component by component -/
example {β : Type} [OmplModel.RS.RSNum β] (rho : β) (pa pb p : Pose β) (x y t : β)
    (h : OmplModel.Dubins.interpolate rho false pa pb t = some p) :
    xinterp (.xcons 1 (.dubins rho false [] []) (.xcons 1 (.base .so2) .xnil))
      (.ccons (stOf pa) (.ccons (.so2 x) .cnil)) (.ccons (stOf pb) (.ccons (.so2 y) .cnil)) t
      = some (.ccons (stOf p) (.ccons (OmplModel.SpaceInterp.interpolateTree .so2 (.so2 x) (.so2 y) t) .cnil)) := by
  simp [xinterp, poseOf, stOf, dubins_direct_eq_interpolate, h]

/-- [AF] the `XSpace` recursion IS the engine's `Space` recursion on car-free spaces of any nesting: opening every compound and
wrapper of `s` and interpolating leaf by leaf gives `OmplModel.SpaceInterp.interpolateTree s` (so every theorem about `OmplModel.SpaceInterp.interpolateTree` transfers to the
car-free part of a mixed compound) -/
theorem xinterp_embed {β : Type} [OmplModel.RS.RSNum β] (s : Space β) :
    ∀ (a b : St β) (t : β), Space.wellTyped s a = true → Space.wellTyped s b = true →
      xinterp (embed s) a b t = some (OmplModel.SpaceInterp.interpolateTree s a b t) := by
  induction s with
  | cnil =>
    intro a b t ha hb
    cases a <;> cases b <;> simp [Space.wellTyped] at ha hb
    simp [embed, xinterp, OmplModel.SpaceInterp.interpolateTree, OmplModel.SpaceInterp.postMobius, OmplModel.SpaceInterp.interpolateW]
  | ccons w h tl ihh iht =>
    intro a b t ha hb
    cases a <;> cases b <;> simp [Space.wellTyped] at ha hb
    rename_i ah at' bh bt
    simp [embed, xinterp, ihh ah bh t ha.1 hb.1, iht at' bt t ha.2 hb.2, OmplModel.SpaceInterp.interpolateTree, OmplModel.SpaceInterp.postMobius, OmplModel.SpaceInterp.interpolateW]
  | wrap s ih =>
    intro a b t ha hb
    simp only [Space.wellTyped] at ha hb
    simp [embed, xinterp, ih a b t ha hb, OmplModel.SpaceInterp.interpolateTree, OmplModel.SpaceInterp.postMobius, OmplModel.SpaceInterp.interpolateW]
  | _ => intro a b t _ _; simp [embed, xinterp]

/-! ### F370: the symmetric Dubins variant is not consistent under re-parameterisation -/

/-- [AF] `…_partial`: whenever the backward path `dubins(to, from)` is not strictly shorter, the symmetric variant IS the plain Dubins
interpolation — so on every leg where the forward direction is kept, re-parameterisation of the symmetric space is that of the
plain space (which holds on every explored input: 0 misses in 23 000 continued interpolations, max gap 1e-7).  Full statement
`interpolate(interpolate(a,b,s), b, u) = interpolate(a, b, s + (1-s) u)` for the symmetric space: FALSE as coded, see below. -/
theorem dubins_sym_reparam_partial {β : Type} [DNum β] (rho : β) (a b : Pose β) (P Q : Path β)
    (hP : dubinsStates rho a b = .path P) (hQ : dubinsStates rho b a = .path Q) (h : ¬ Q.len < P.len) (t : β) :
    OmplModel.Dubins.interpolate rho true a b t = OmplModel.Dubins.interpolate rho false a b t := by
  unfold OmplModel.Dubins.interpolate choosePath
  simp [hP, hQ, h]

/-- [AF] `…_fails`, the mechanism on C14's model: if the motion a → b keeps the forward word `P` (backward not shorter) but from an
intermediate pose `m` the backward path `dubins(b, m) = Q'` is strictly shorter than `dubins(m, b) = P'`, then the continued
interpolation is integrated along the REVERSED word `Q'` from `m` — not along `P`.  The hypotheses are met by the concrete pair
rho = 1, a = (0,0,0), b = (-1,-1,0), m = the point at s = 0.25 = (0.938148, 1.346234, 1.924350): L(a,b) = L(b,a) = 7.697399,
L(m,b) = 5.773049 = 0.75 L(a,b), L(b,m) = 3.338563; the continued point at u = 0.5 is (0.332107, -0.082107, 0.785398), the
motion's point at 0.625 is (-1.332107, 1.082107, -2.356194).  That instance is evaluated by the compiled `Float` model in lock step
with libompl (corpus/C07/08-f370-f372.txt, every run), NOT by the kernel: a kernel proof would have to evaluate the six word solvers
(atan2 / acos of irrational arguments) over ℝ for this pair, which is not done. -/
theorem dubins_sym_reparam_fails_of_switch {β : Type} [DNum β] (rho : β) (a b m : Pose β) (P Q P' Q' : Path β)
    (hP : dubinsStates rho a b = .path P) (hQ : dubinsStates rho b a = .path Q) (h : ¬ Q.len < P.len)
    (hP' : dubinsStates rho m b = .path P') (hQ' : dubinsStates rho b m = .path Q') (h' : Q'.len < P'.len)
    (t u : β) (ht1 : ¬ (1 : β) ≤ t) (ht0 : ¬ t ≤ 0) (hu1 : ¬ (1 : β) ≤ u) (hu0 : ¬ u ≤ 0) :
    OmplModel.Dubins.interpolate rho true a b t = some (interpPath rho a P t) ∧
    OmplModel.Dubins.interpolate rho true m b u = some (interpPath rho m { Q' with rev := true } u) := by
  unfold OmplModel.Dubins.interpolate choosePath
  simp [hP, hQ, h, hP', hQ', h', ht1, ht0, hu1, hu0]

end
end OmplModel.Props.C07
