import OmplModel.Proofs.ControlRRT
import OmplModel.Proofs.ControlSST
import OmplModel.Proofs.ControlEST
import OmplModel.Proofs.ControlKPIECE
import OmplModel.Proofs.ControlPDST
import OmplModel.Model.ControlExtra
import OmplModel.Proofs.ControlSamplerReal
import OmplModel.Proofs.ControlReconf
/-!
# C02 — control propagation: every reported control path replays

Property theorems about the models `OmplModel.Control` (`SpaceInformation::propagateWhileValid`,
`PathControl::check/interpolate`, `SimpleDirectedControlSampler::sampleTo`) and `OmplModel.CRRT`
(`control::RRT::solve`).  All theorems are arithmetic-free: `S`, `U`, `δ` are arbitrary types and
`step`, `valid`, `dist`, `lt`, `goal` arbitrary functions, so they hold for every system, every
validity checker, every script of draws and hence every interruption point.  Helper lemmas live in
`Proofs/Control.lean` and `Proofs/ControlRRT.lean`.
-/
namespace OmplModel.Props.C02
open OmplModel.Control OmplModel.CRRT

variable {S U : Type}

/-! the tiny concrete system of the non-vacuity examples: integrator on `Nat`, valid below 10 -/
def stepN : Nat → Nat → Nat := fun s u => s + u
def validN : Nat → Bool := fun s => decide (s < 10)

/-- **propagateWhileValid (single result)**: returns the number `r` of leading valid steps and
the state after exactly `r` steps; step `r+1` is the first invalid one unless `r = steps`. -/
theorem pwv_spec (step : S → U → S) (valid : S → Bool) (s : S) (u : U) (steps : Nat) :
    (pwv step valid s u steps).2 = propagate step s u (pwv step valid s u steps).1 ∧
    (∀ i, 1 ≤ i → i ≤ (pwv step valid s u steps).1 → valid (propagate step s u i) = true) ∧
    ((pwv step valid s u steps).1 < steps →
        valid (propagate step s u ((pwv step valid s u steps).1 + 1)) = false) ∧
    (pwv step valid s u steps).1 ≤ steps :=
  pwv_spec' step valid s u steps

example : pwv stepN validN 0 3 5 = (3, 9) := by decide
example : pwv stepN validN 0 3 2 = (2, 6) := by decide
example : pwv stepN validN 0 10 5 = (0, 0) := by decide

/-- **propagateWhileValid (vector, alloc)**: whatever the vector held before, it returns exactly
the `r` valid states `propagate s u 1 … propagate s u r`, with the same `r` as `pwv`. -/
theorem pwvVec_alloc_spec (step : S → U → S) (valid : S → Bool) (s : S) (u : U) (steps : Nat)
    (result : List (Option S)) :
    pwvVec step valid s u steps result true =
      ((pwv step valid s u steps).1,
        (List.range (pwv step valid s u steps).1).map (fun i => some (propagate step s u (i + 1)))) :=
  pwvVec_alloc step valid s u steps result

example : pwvVec stepN validN 0 3 5 [some 77, none] true = (3, [some 3, some 6, some 9]) := by decide

/-- **propagateWhileValid (vector, no alloc)**: at most `min steps result.size()` steps; the valid
states fill slots `0 … r-1`, the first invalid state (if any) stays in slot `r` — as coded —, the
length and every later slot are unchanged.  An empty vector returns at once. -/
theorem pwvVec_noalloc_spec (step : S → U → S) (valid : S → Bool) (s : S) (u : U) (steps : Nat)
    (result : List (Option S)) (hne : result ≠ []) :
    let m := min steps result.length
    let r := (pwv step valid s u m).1
    let out := pwvVec step valid s u steps result false
    out.1 = r ∧ out.2.length = result.length ∧
    (∀ i, i < r → out.2[i]? = some (some (propagate step s u (i + 1)))) ∧
    (r < m → out.2[r]? = some (some (propagate step s u (r + 1)))) ∧
    (∀ i, (r < i ∨ (i = r ∧ r = m)) → out.2[i]? = result[i]?) := by
  intro m r out
  have hemp : result.isEmpty = false := by
    cases result with
    | nil => exact absurd rfl hne
    | cons _ _ => rfl
  have h := pwvVecLoop_noalloc step valid s u m 0 result (by simp only [m]; omega)
  rw [show propagate step s u 0 = s from rfl, ← pwv_eq_loop] at h
  have hout : out = pwvVecLoop step valid u false m 0 s result := by
    simp only [out, pwvVec, hemp, m]; rfl
  rw [hout]
  obtain ⟨h1, h2, _, h4, h5, h6⟩ := h
  refine ⟨h1, h2, fun i hi => h4 i (Nat.zero_le _) hi, ?_, ?_⟩
  · intro hr; exact h5 (by omega)
  · intro i hi; exact h6 i (by omega)

theorem pwvVec_noalloc_empty (step : S → U → S) (valid : S → Bool) (s : S) (u : U) (steps : Nat) :
    pwvVec step valid s u steps [] false = (0, []) := rfl

example : pwvVec stepN validN 0 3 5 [] false = (0, []) := by decide

example : pwvVec stepN validN 0 3 5 [none, some 77, none, none, some 5, none] false =
    (3, [some 3, some 6, some 9, some 12, some 5, none]) := by decide
example : pwvVec stepN validN 0 3 5 [none, some 77] false = (2, [some 3, some 6]) := by decide

/-- **the two overloads agree**: same count, and the single-result state is the last vector
element (or the start state when nothing was valid). -/
theorem pwv_forms_agree (step : S → U → S) (valid : S → Bool) (s : S) (u : U) (steps : Nat) :
    (pwvVec step valid s u steps [] true).1 = (pwv step valid s u steps).1 ∧
    (pwv step valid s u steps).2 =
      ((someStates (pwvVec step valid s u steps [] true).2).getLast?).getD s := by
  rw [pwvVec_alloc]
  refine ⟨rfl, ?_⟩
  rw [(pwv_spec' step valid s u steps).1]
  simp only [someStates_map_some]
  cases (pwv step valid s u steps).1 with
  | zero => rfl
  | succ r => simp [List.range_succ]

example : (pwvVec stepN validN 0 3 5 [] true).1 = 3 ∧
    ((someStates (pwvVec stepN validN 0 3 5 [] true).2).getLast?).getD 0 = 9 := by decide

/-- **aliasing `result == state` (DESIGN F13)**: identical to the unaliased call unless the very
first step is invalid; then 0 is returned but the buffer keeps the *invalid* propagated state
(`pwv` returns the untouched start state). -/
theorem pwvAlias_spec (step : S → U → S) (valid : S → Bool) (s : S) (u : U) :
    (∀ steps, steps = 0 ∨ valid (step s u) = true →
        pwvAlias step valid s u steps = pwv step valid s u steps) ∧
    (∀ n, valid (step s u) = false →
        pwvAlias step valid s u (n + 1) = (0, step s u) ∧ pwv step valid s u (n + 1) = (0, s)) := by
  constructor
  · intro steps h
    cases steps with
    | zero => rfl
    | succ n =>
      have hv : valid (step s u) = true := by
        cases h with
        | inl h => exact absurd h (Nat.succ_ne_zero n)
        | inr h => exact h
      simp only [pwvAlias, pwv, hv, if_true]
  · intro n hv
    simp [pwvAlias, pwv, hv]

example : pwvAlias stepN validN 0 10 5 = (0, 10) ∧ pwv stepN validN 0 10 5 = (0, 0) := by decide
example : pwvAlias stepN validN 0 3 5 = (3, 9) := by decide

/-- **sampleTo**: the chosen (control, steps, state) is consistent — the state is the control
applied `r` times, all `r` steps are valid, and the control with at least that step count was one
of the scripted draws.  `none` only for an empty script. -/
theorem sampleTo_spec {δ : Type} (step : S → U → S) (valid : S → Bool) (dist : S → S → δ)
    (lt : δ → δ → Bool) (src dest : S) (draws : List (U × Nat)) :
    (∀ u r b, sampleTo step valid dist lt src dest draws = some (u, r, b) →
      b = propagate step src u r ∧
      (∀ i, 1 ≤ i → i ≤ r → valid (propagate step src u i) = true) ∧
      ∃ k, (u, k) ∈ draws ∧ r ≤ k) ∧
    (sampleTo step valid dist lt src dest draws = none ↔ draws = []) :=
  ⟨fun _ _ _ h => sampleTo_ok step valid dist lt src dest draws _ h,
   sampleTo_none_iff step valid dist lt src dest draws⟩

def distN : Nat → Nat → Nat := fun a b => if a ≤ b then b - a else a - b
def ltN : Nat → Nat → Bool := fun a b => decide (a < b)

example : sampleTo stepN validN distN ltN 0 8 [(1, 3), (4, 5), (2, 2)] = some (4, 2, 8) := by decide

/-! ## control::RRT::solve -/

/-- the concrete planning problem of the non-vacuity examples: integrator on `Nat`, valid below
10, goal `s = 6`, `minControlDuration = 1` -/
def probN (intermediate : Bool) : Problem Nat Nat Nat :=
  { step := stepN, valid := validN, dist := distN, lt := ltN, inf := 1000,
    goal := fun s => (decide (s = 6), distN s 6), goalSample := 6, nullControl := 0,
    minSteps := 1, intermediate := intermediate }

/-- two iterations: a uniform sample 3, then a goal-biased one; each draws control 1 for 3 steps -/
def scriptN : List (Draw Nat Nat) :=
  [{ useGoal := false, sample := 3, ctl := [(1, 3)] }, { useGoal := true, sample := 0, ctl := [(2, 1), (1, 3)] }]

/-- **Every reported control path replays** (main theorem of C02): whatever the propagator, the
validity checker, the distance, the goal, the start states and the script of random draws — and
hence wherever the planner is interrupted — a path reported by `control::RRT::solve` starts at a
valid start state, has matching lengths, and applying each control for its whole step count
reproduces the next state *exactly* with every intermediate propagation step valid.  Moreover
every control is one of the scripted draws and its step count is as coded (1 with intermediate
states; otherwise between `minControlDuration` and the drawn count). -/
theorem crrt_path_replays {δ : Type} (P : Problem S U δ) (starts : List S) (draws : List (Draw S U))
    (p : Path S U) (h : (solve P starts draws).path = some p) :
    ∃ s0 rest, p.states = s0 :: rest ∧ s0 ∈ starts ∧ P.valid s0 = true ∧
      rest.length = p.controls.length ∧ p.steps.length = p.controls.length ∧
      ReplayOK P.step P.valid s0 (segs rest p.controls p.steps) ∧
      ∀ u k s', (u, k, s') ∈ segs rest p.controls p.steps →
        ∃ d ∈ draws, ∃ k0, (u, k0) ∈ d.ctl ∧
          (if P.intermediate then k = 1 else (P.minSteps ≤ k ∧ k ≤ k0)) := by
  obtain ⟨s0, sl, rfl, h1, h2, h3, h4, _⟩ := solve_path P starts draws p h
  refine ⟨s0, sl.map (·.2.2), rfl, h1, h2, by simp [ofSegs], by simp [ofSegs], ?_, ?_⟩
  · simp only [ofSegs, segs_map]; exact h3
  · intro u k s' hm
    simp only [ofSegs, segs_map] at hm
    exact h4 _ hm

/-- **An exact solution ends in the goal**: status `exact` ⇒ the last path state satisfies the goal. -/
theorem crrt_exact_goal {δ : Type} (P : Problem S U δ) (starts : List S) (draws : List (Draw S U))
    (p : Path S U) (h : (solve P starts draws).path = some p)
    (hex : (solve P starts draws).status = .exact) :
    ∃ last, p.states.getLast? = some last ∧ (P.goal last).1 = true := by
  obtain ⟨s0, sl, rfl, _, _, _, _, h5⟩ := solve_path P starts draws p h
  exact ⟨endState s0 sl, getLast?_states s0 sl, h5 hex⟩

/-- **A path is reported exactly when the status is exact or approximate.** -/
theorem crrt_status_path {δ : Type} (P : Problem S U δ) (starts : List S) (draws : List (Draw S U)) :
    ((solve P starts draws).status = .exact ∨ (solve P starts draws).status = .approximate) ↔
      (solve P starts draws).path.isSome = true :=
  solve_status_path P starts draws

/-- non-vacuity: an exact path with two 3-step segments (no intermediate states) … -/
example :
    (solve (probN false) [0] scriptN).status = .exact ∧
    (solve (probN false) [0] scriptN).path.map (fun p => (p.states, p.controls, p.steps)) =
      some ([0, 3, 6], [1, 1], [3, 3]) := by decide

/-- … and with intermediate states six 1-step segments -/
example :
    (solve (probN true) [0] scriptN).status = .exact ∧
    (solve (probN true) [0] scriptN).path.map (fun p => (p.states, p.controls, p.steps)) =
      some ([0, 1, 2, 3, 4, 5, 6], [1, 1, 1, 1, 1, 1], [1, 1, 1, 1, 1, 1]) := by decide

/-- interrupted after one iteration: an approximate path -/
example : (solve (probN false) [0] (scriptN.take 1)).status = .approximate ∧
    (solve (probN false) [0] (scriptN.take 1)).path.map (fun p => (p.states, p.controls, p.steps)) =
      some ([0, 3], [1], [3]) := by decide
example : (solve (probN false) [11] scriptN).status = .invalidStart := by decide

/-- **nearest on a non-empty tree returns an index inside the tree** (so the `none` branches of
the model's `iter` for `nearest`/`tree[n]?` never fire once a root exists), for *every* `dist`/`lt`. -/
theorem nearest_lt_size {δ : Type} (P : Problem S U δ) (tree : Array (Motion S U)) (q : S)
    (hne : 0 < tree.size) : ∃ n, nearest P tree q = some n ∧ n < tree.size := by
  rcases nearest_spec P tree q False (fun h => h.elim) (fun h => h.elim) with h | ⟨n, m, h1, h2, _⟩
  · omega
  · exact ⟨n, h1, lt_size_of_getElem? h2⟩

example : nearest (probN false) (roots (probN false) [0, 4, 9]) 5 = some 1 := by decide

/-- **nearest returns a minimum** when `lt` is a strict order (irreflexive, transitive): no tree
state is strictly closer to the query than the one returned. -/
theorem nearest_is_min {δ : Type} (P : Problem S U δ) (tree : Array (Motion S U)) (q : S)
    (hirr : ∀ a, P.lt a a = false)
    (htr : ∀ a b c, P.lt a b = true → P.lt b c = true → P.lt a c = true)
    (n : Nat) (hn : nearest P tree q = some n) :
    ∃ m, tree[n]? = some m ∧
      ∀ m' ∈ tree.toList, P.lt (P.dist m'.state q) (P.dist m.state q) = false := by
  rcases nearest_spec P tree q True (fun _ => hirr) (fun _ => htr) with h | ⟨n', m, h1, h2, h3⟩
  · rw [h.2] at hn; cases hn
  · rw [h1] at hn
    cases Option.some.inj hn
    exact ⟨m, h2, h3 trivial⟩

example : (∀ a, ltN a a = false) ∧ (∀ a b c, ltN a b = true → ltN b c = true → ltN a c = true) := by
  simp only [ltN, decide_eq_true_eq, decide_eq_false_iff_not]
  exact ⟨fun a => Nat.lt_irrefl a, fun a b c h1 h2 => Nat.lt_trans h1 h2⟩

/-! ## PathControl::interpolate and PathControl::check -/

/-- **interpolate keeps a path replayable**: a well-formed replayable path becomes a well-formed
replayable path from the same first state, all of whose segments have at most one step, with the
same last state and the same total number of steps. -/
theorem interpolate_preserves_replay (step : S → U → S) (valid : S → Bool) (p : Path S U)
    (s0 : S) (rest : List S) (hs : p.states = s0 :: rest) (hl1 : rest.length = p.controls.length)
    (hl2 : p.steps.length = p.controls.length)
    (hr : ReplayOK step valid s0 (segs rest p.controls p.steps)) :
    ∃ rest', (p.interpolate step).states = s0 :: rest' ∧
      rest'.length = (p.interpolate step).controls.length ∧
      (p.interpolate step).steps.length = (p.interpolate step).controls.length ∧
      ReplayOK step valid s0 (segs rest' (p.interpolate step).controls (p.interpolate step).steps) ∧
      (∀ k ∈ (p.interpolate step).steps, k ≤ 1) ∧
      (p.interpolate step).states.getLast? = p.states.getLast? ∧
      (p.interpolate step).steps.sum = p.steps.sum := by
  obtain ⟨a, b, c⟩ := maps_segs rest p.controls p.steps hl1 hl2
  have hp : p = ofSegs s0 (segs rest p.controls p.steps) := by
    cases p
    simp only [ofSegs] at *
    simp only [a, b, c, hs]
  obtain ⟨sl', e1, e2, e3, e4, e5, _⟩ := interpolate_ofSegs step valid s0 _ hr
  rw [← hp] at e1
  rw [e1]
  refine ⟨sl'.map (·.2.2), rfl, by simp [ofSegs], by simp [ofSegs], ?_, ?_, ?_, ?_⟩
  · simp only [ofSegs, segs_map]; exact e2
  · intro k hk
    obtain ⟨x, hx, rfl⟩ := List.mem_map.mp hk
    exact e4 x hx
  · have : p.states.getLast? = some (endState s0 (segs rest p.controls p.steps)) := by
      have h := getLast?_states s0 (segs rest p.controls p.steps)
      rw [a] at h
      rw [hs]; exact h
    rw [this, ← e3]
    exact getLast?_states _ _
  · show (sl'.map (·.2.1)).sum = p.steps.sum
    rw [e5, c]

/-- on the replayable path `0 -[1,3]-> 3 -[2,0]-> 3 -[1,1]-> 4` (see the `ReplayOK` example below) -/
example :
    let q := ({ states := [0, 3, 3, 4], controls := [1, 2, 1], steps := [3, 0, 1] } : Path Nat Nat).interpolate stepN
    q.states = [0, 1, 2, 3, 3, 4] ∧ q.controls = [1, 1, 1, 2, 1] ∧ q.steps = [1, 1, 1, 0, 1] := by decide

/-- **check is sound**: with exact state comparison, a path that `PathControl::check` accepts starts in a valid state and
replays — including the single-state path without controls (what a planner reports when a start state already satisfies the
goal; until round 10 the statement excluded it by a hypothesis `p.controls ≠ []` that was not needed). -/
theorem check_sound [DecidableEq S] (step : S → U → S) (valid : S → Bool) (p : Path S U)
    (s0 : S) (rest : List S) (hs : p.states = s0 :: rest) (hl1 : rest.length = p.controls.length)
    (hl2 : p.steps.length = p.controls.length)
    (hc : p.check step valid (fun a b => decide (a = b)) = true) :
    valid s0 = true ∧ ReplayOK step valid s0 (segs rest p.controls p.steps) := by
  cases hcs : p.controls with
  | cons u us => exact hcs ▸ check_sound_ne step valid p s0 rest hs hl1 hl2 (by rw [hcs]; simp) hc
  | nil =>
    rw [hcs] at hl1
    have hr : rest = [] := List.length_eq_zero_iff.mp hl1
    subst hr
    unfold Path.check at hc
    rw [hcs, hs] at hc
    simp only [List.isEmpty_nil, if_true] at hc
    exact ⟨hc, by cases p.steps <;> exact True.intro⟩

/-- the premises of `interpolate_preserves_replay` / `check_complete` are satisfiable -/
example : ReplayOK stepN validN 0 (segs [3, 3, 4] [1, 2, 1] [3, 0, 1]) :=
  (check_sound stepN validN ⟨[0, 3, 3, 4], [1, 2, 1], [3, 0, 1]⟩ 0 [3, 3, 4] rfl rfl rfl (by decide)).2

/-- the single-state path: accepted iff its state is valid -/
example : ({ states := [3], controls := [], steps := [] } : Path Nat Nat).check stepN validN (fun a b => decide (a = b)) = true ∧
    ({ states := [12], controls := [], steps := [] } : Path Nat Nat).check stepN validN (fun a b => decide (a = b)) = false := by decide

/-- **check is complete**: a well-formed path that replays from a valid first state is accepted
(validity of the other states follows: a 0-step segment repeats its start state, a longer one
ends in a state the replay checked). -/
theorem check_complete [DecidableEq S] (step : S → U → S) (valid : S → Bool) (p : Path S U)
    (s0 : S) (rest : List S) (hs : p.states = s0 :: rest) (hl1 : rest.length = p.controls.length)
    (hl2 : p.steps.length = p.controls.length)
    (hr : ReplayOK step valid s0 (segs rest p.controls p.steps))
    (hv0 : valid s0 = true) :
    p.check step valid (fun a b => decide (a = b)) = true := by
  obtain ⟨a, b, c⟩ := maps_segs rest p.controls p.steps hl1 hl2
  have hv := replayOK_states_valid step valid _ s0 hr hv0
  unfold Path.check
  cases hcs : p.controls with
  | nil =>
    have : rest = [] := List.eq_nil_of_length_eq_zero (by rw [hl1, hcs]; rfl)
    subst this
    simp only [List.isEmpty_nil, if_true, hs]
    exact hv0
  | cons u us =>
    simp only [List.isEmpty_cons, Bool.false_eq_true, if_false]
    have := checkLoop_complete step valid (segs rest p.controls p.steps) s0 hr hv
    rw [a, b, c, hcs] at this
    rw [hs]; exact this

/-- hence, for a well-formed path (with or without controls), **`check` decides exactly
"first state valid and the path replays"** -/
theorem check_iff [DecidableEq S] (step : S → U → S) (valid : S → Bool) (p : Path S U)
    (s0 : S) (rest : List S) (hs : p.states = s0 :: rest) (hl1 : rest.length = p.controls.length)
    (hl2 : p.steps.length = p.controls.length) :
    p.check step valid (fun a b => decide (a = b)) = true ↔
      (valid s0 = true ∧ ReplayOK step valid s0 (segs rest p.controls p.steps)) :=
  ⟨check_sound step valid p s0 rest hs hl1 hl2,
   fun h => check_complete step valid p s0 rest hs hl1 hl2 h.2 h.1⟩

example : ({ states := [0, 3, 3, 4], controls := [1, 2, 1], steps := [3, 0, 1] } : Path Nat Nat).check
    stepN validN (fun a b => decide (a = b)) = true := by decide
example : ({ states := [0, 3, 3, 5], controls := [1, 2, 1], steps := [3, 0, 1] } : Path Nat Nat).check
    stepN validN (fun a b => decide (a = b)) = false := by decide
example : ({ states := [0, 12], controls := [4], steps := [3] } : Path Nat Nat).check
    stepN validN (fun a b => decide (a = b)) = false := by decide

/-- **the executable replay oracle is the specification**: with exact state comparison the
driver's `replayFirstBad` answers `none` exactly when `ReplayOK` holds, and a reported index is
the index of a segment of the path. -/
theorem replay_oracle_exact [DecidableEq S] (step : S → U → S) (valid : S → Bool) (s : S)
    (sl : List (U × Nat × S)) :
    (replayFirstBad step valid (fun a b => decide (a = b)) s sl 0 = none ↔ ReplayOK step valid s sl) ∧
    (∀ j, replayFirstBad step valid (fun a b => decide (a = b)) s sl 0 = some j → j < sl.length) := by
  refine ⟨replayFirstBad_none_iff step valid sl s 0, ?_⟩
  intro j h
  have := replayFirstBad_some_bound step valid _ sl s 0 j h
  omega

example : replayFirstBad stepN validN (fun a b => decide (a = b)) 0 (segs [3, 3, 4] [1, 2, 1] [3, 0, 1]) 0 = none ∧
    replayFirstBad stepN validN (fun a b => decide (a = b)) 0 (segs [3, 3, 12] [1, 2, 3] [3, 0, 3]) 0 = some 2 := by
  decide

/-! ## the planner's output against `check`, `interpolate` and the whole tree -/

/-- **every reported path passes `PathControl::check`, before and after `interpolate`** (exact
state comparison). -/
theorem crrt_path_checks [DecidableEq S] {δ : Type} (P : Problem S U δ) (starts : List S)
    (draws : List (Draw S U)) (p : Path S U) (h : (solve P starts draws).path = some p) :
    p.check P.step P.valid (fun a b => decide (a = b)) = true ∧
    (p.interpolate P.step).check P.step P.valid (fun a b => decide (a = b)) = true := by
  obtain ⟨s0, rest, h1, _, h3, h4, h5, h6, _⟩ := crrt_path_replays P starts draws p h
  refine ⟨check_complete P.step P.valid p s0 rest h1 h4 h5 h6 h3, ?_⟩
  obtain ⟨rest', e1, e2, e3, e4, _⟩ := interpolate_preserves_replay P.step P.valid p s0 rest h1 h4 h5 h6
  exact check_complete P.step P.valid _ s0 rest' e1 e2 e3 e4 h3

example : ((solve (probN false) [0] scriptN).path.map
    (fun p => (p.check stepN validN (fun a b => decide (a = b)),
      (p.interpolate stepN).states))) = some (true, [0, 1, 2, 3, 4, 5, 6]) := by decide

/-- **every motion of the final tree is sound**, not only those on the reported path: a root is
a valid start state; any other motion is the exact propagation of an *earlier* motion (so the
parent links are acyclic) under its stored control for its stored step count, every step valid,
and its own state is valid. -/
theorem crrt_tree_sound {δ : Type} (P : Problem S U δ) (starts : List S) (draws : List (Draw S U))
    (i : Nat) (m : Motion S U) (h : (solve P starts draws).tree[i]? = some m) :
    P.valid m.state = true ∧
    ((m.parent = none ∧ m.state ∈ starts) ∨
     (∃ p pm, m.parent = some p ∧ p < i ∧ (solve P starts draws).tree[p]? = some pm ∧
        m.state = propagate P.step pm.state m.control m.steps ∧
        (∀ j, 1 ≤ j → j ≤ m.steps → P.valid (propagate P.step pm.state m.control j) = true))) := by
  have hT := solve_tree_inv P starts draws
  refine ⟨treeInv_valid P starts draws _ hT (i + 1) i m (Nat.lt_succ_self i) h, ?_⟩
  cases hT i m h with
  | inl h => exact Or.inl ⟨h.1, h.2.1⟩
  | inr h =>
    obtain ⟨p, pm, h1, h2, h3, h4, h5, _⟩ := h
    exact Or.inr ⟨p, pm, h1, h2, h3, h4, h5⟩

example : (solve (probN true) [0, 12] scriptN).tree.toList.map (fun m => (m.state, m.parent)) =
    [(0, none), (1, some 0), (2, some 1), (3, some 2), (4, some 3), (5, some 4), (6, some 5)] := by
  decide

/-! ## control::SST::solve

Same oracle-machine setting as for RRT (`Model/CSST.lean`): every `CSST.Problem` (propagator,
validity, distance, cost algebra, goal, radii), every list of start states and every script of
draws, hence every interruption point.  The reported path is the snapshot `prevSolution_`. -/

/-- the concrete SST problem of the non-vacuity examples (integrator on `Nat`, valid below 10,
goal `s = 6`, path length as cost) -/
def sstN : CSST.Problem Nat Nat Nat :=
  { step := stepN, valid := validN, dist := distN, lt := ltN, le := fun a b => decide (a ≤ b),
    inf := 1000, zero := 0, add := (· + ·), motionCost := distN, costSatisfied := fun _ => false,
    goal := fun s => (decide (s = 6), distN s 6), goalSample := 6, nullControl := 0,
    selectionRadius := 2, pruningRadius := 1 }

def sstScript : List (CSST.Draw Nat Nat) :=
  [{ useGoal := false, sample := 3, control := 1, steps := 3 },
   { useGoal := true, sample := 0, control := 1, steps := 3 }]

/-- **Every path reported by SST replays**: it starts at a valid start state, has matching
lengths, each control applied for its whole step count reproduces the next state exactly with
every intermediate step valid, and every (control, step count) is exactly one scripted draw (SST
keeps a motion only when `propagateWhileValid` achieved the full sampled count). -/
theorem csst_path_replays {δ : Type} (P : CSST.Problem S U δ) (starts : List S)
    (draws : List (CSST.Draw S U)) (p : Path S U) (h : (CSST.solve P starts draws).path = some p) :
    ∃ s0 rest, p.states = s0 :: rest ∧ s0 ∈ starts ∧ P.valid s0 = true ∧
      rest.length = p.controls.length ∧ p.steps.length = p.controls.length ∧
      ReplayOK P.step P.valid s0 (segs rest p.controls p.steps) ∧
      ∀ u k s', (u, k, s') ∈ segs rest p.controls p.steps →
        ∃ d ∈ draws, d.control = u ∧ d.steps = k := by
  obtain ⟨_, ⟨s0, sl, rfl, h1, h2, h3, _, h5⟩, _⟩ := CSST.solve_path P starts draws p h
  refine ⟨s0, sl.map (·.2.2), rfl, h1, h2, by simp [ofSegs], by simp [ofSegs], ?_, ?_⟩
  · simp only [ofSegs, segs_map]; exact h3
  · intro u k s' hm
    simp only [ofSegs, segs_map] at hm
    exact h5 _ hm

/-- **An exact SST solution ends in the goal.** -/
theorem csst_exact_goal {δ : Type} (P : CSST.Problem S U δ) (starts : List S)
    (draws : List (CSST.Draw S U)) (p : Path S U) (h : (CSST.solve P starts draws).path = some p)
    (hex : (CSST.solve P starts draws).status = .exact) :
    ∃ last, p.states.getLast? = some last ∧ (P.goal last).1 = true := by
  obtain ⟨last, ⟨s0, sl, rfl, _, _, _, h4, _⟩, hg⟩ := CSST.solve_path P starts draws p h
  exact ⟨last, by rw [← h4]; exact getLast?_states s0 sl, hg hex⟩

/-- **SST reports a path exactly when the status is exact or approximate** (the snapshot exists
whenever `solution`/`approxsol` is set). -/
theorem csst_status_path {δ : Type} (P : CSST.Problem S U δ) (starts : List S)
    (draws : List (CSST.Draw S U)) :
    ((CSST.solve P starts draws).status = .exact ∨ (CSST.solve P starts draws).status = .approximate) ↔
      (CSST.solve P starts draws).path.isSome = true :=
  CSST.solve_status_path P starts draws

/-- non-vacuity: an exact SST path with two 3-step segments (proved by unfolding — `decide`
cannot evaluate the merge sort of `selectNode`) -/
example : (CSST.solve sstN [0] sstScript).status = .exact ∧
    (CSST.solve sstN [0] sstScript).path.map (fun p => (p.states, p.controls, p.steps)) =
      some ([0, 3, 6], [1, 1], [3, 3]) := by
  simp [CSST.solve, CSST.run, CSST.iter, CSST.init, CSST.addRoot, CSST.selectNode, CSST.withDist,
    CSST.sortByDist, CSST.findClosestWitness, CSST.nearestIdx, pwv, pwvLoop, reported, chain, pathOf,
    sstN, sstScript, stepN, validN, distN, ltN, List.mergeSort, List.MergeSort.Internal.splitInTwo]

/-- interrupted after one iteration: an approximate path -/
example : (CSST.solve sstN [0] (sstScript.take 1)).status = .approximate ∧
    (CSST.solve sstN [0] (sstScript.take 1)).path.map (fun p => (p.states, p.controls, p.steps)) =
      some ([0, 3], [1], [3]) := by
  simp [CSST.solve, CSST.run, CSST.iter, CSST.init, CSST.addRoot, CSST.selectNode, CSST.withDist,
    CSST.sortByDist, CSST.findClosestWitness, CSST.nearestIdx, pwv, pwvLoop, reported, chain, pathOf,
    sstN, sstScript, stepN, validN, distN, ltN]

/-- **every motion SST ever created is sound** (roots are valid start states; any other motion is
the exact, all-valid propagation of an earlier motion under exactly one scripted draw) -/
theorem csst_tree_sound {δ : Type} (P : CSST.Problem S U δ) (starts : List S)
    (draws : List (CSST.Draw S U)) (i : Nat) (m : Motion S U)
    (h : (CSST.solve P starts draws).final.tree[i]? = some m) :
    P.valid m.state = true ∧
    ((m.parent = none ∧ m.state ∈ starts) ∨
     (∃ p pm, m.parent = some p ∧ p < i ∧ (CSST.solve P starts draws).final.tree[p]? = some pm ∧
        m.state = propagate P.step pm.state m.control m.steps ∧
        (∀ j, 1 ≤ j → j ≤ m.steps → P.valid (propagate P.step pm.state m.control j) = true) ∧
        ∃ d ∈ draws, d.control = m.control ∧ d.steps = m.steps)) := by
  have hT := (CSST.solve_final_inv P starts draws).tree
  refine ⟨treeInvG_valid _ _ _ _ _ hT (i + 1) i m (Nat.lt_succ_self i) h, ?_⟩
  cases hT i m h with
  | inl h => exact Or.inl ⟨h.1, h.2.1⟩
  | inr h =>
    obtain ⟨p, pm, h1, h2, h3, h4, h5, h6⟩ := h
    exact Or.inr ⟨p, pm, h1, h2, h3, h4, h5, h6⟩

/-- **as coded, SST never prunes**: the guard of the pruning loop reads `inactive_` before anything
sets it, so for every run no motion is ever deactivated and `nn_` holds every motion ever created,
in creation order. -/
theorem csst_never_prunes {δ : Type} (P : CSST.Problem S U δ) (starts : List S)
    (draws : List (CSST.Draw S U)) :
    (CSST.solve P starts draws).final.inactive.size = (CSST.solve P starts draws).final.tree.size ∧
    (∀ i, i < (CSST.solve P starts draws).final.tree.size →
      (CSST.solve P starts draws).final.inactive[i]? = some false) ∧
    (CSST.solve P starts draws).final.nn = List.range (CSST.solve P starts draws).final.tree.size := by
  -- (round 10, lap 2: stated with `[i]? = some false` for every motion index and the size equation; the former statement
  -- `inactive.getD i false = false` would also have held of a flag array that is too short)
  have h := CSST.solve_final_inv P starts draws
  refine ⟨h.isz, fun i hi => ?_, h.nn⟩
  have hlt : i < (CSST.solve P starts draws).final.inactive.size := by rw [h.isz]; exact hi
  have hi2 := h.inact i
  rw [Array.getElem?_eq_getElem hlt] at hi2 ⊢
  simpa using hi2

/-- a run in which a representative *is* replaced (unit cost per motion, `pruningRadius = 0`: the
witness at state 2 first gets the motion reached via 0→1→2 at cost 2, then the direct motion 0→2 at
cost 1), the situation in which the C++ loop was meant to prune — and nothing is pruned -/
def sstUnit : CSST.Problem Nat Nat Nat :=
  { sstN with motionCost := fun _ _ => 1, pruningRadius := 0 }

def sstScript3 : List (CSST.Draw Nat Nat) :=
  [{ useGoal := false, sample := 1, control := 1, steps := 1 },
   { useGoal := false, sample := 3, control := 1, steps := 1 },
   { useGoal := false, sample := 0, control := 2, steps := 1 }]

example :
    (CSST.solve sstUnit [0] sstScript3).final.tree.toList.map (fun m => (m.state, m.parent)) =
      [(0, none), (1, some 0), (2, some 1), (2, some 0)] ∧
    (CSST.solve sstUnit [0] sstScript3).final.wits.toList.map (fun w => (w.state, w.rep)) =
      [(0, some 0), (1, some 1), (2, some 3)] ∧
    (CSST.solve sstUnit [0] sstScript3).final.nn = [0, 1, 2, 3] ∧
    (CSST.solve sstUnit [0] sstScript3).final.inactive.toList = [false, false, false, false] := by
  simp [CSST.solve, CSST.run, CSST.iter, CSST.init, CSST.addRoot, CSST.selectNode, CSST.withDist,
    CSST.sortByDist, CSST.findClosestWitness, CSST.nearestIdx, CSST.pruneLoop, pwv, pwvLoop, reported,
    chain, pathOf, sstUnit, sstN, sstScript3, stepN, validN, distN, ltN, List.mergeSort,
    List.MergeSort.Internal.splitInTwo]

/-- **every path SST reports passes `PathControl::check`, before and after `interpolate`**. -/
theorem csst_path_checks [DecidableEq S] {δ : Type} (P : CSST.Problem S U δ) (starts : List S)
    (draws : List (CSST.Draw S U)) (p : Path S U) (h : (CSST.solve P starts draws).path = some p) :
    p.check P.step P.valid (fun a b => decide (a = b)) = true ∧
    (p.interpolate P.step).check P.step P.valid (fun a b => decide (a = b)) = true := by
  obtain ⟨s0, rest, h1, _, h3, h4, h5, h6, _⟩ := csst_path_replays P starts draws p h
  refine ⟨check_complete P.step P.valid p s0 rest h1 h4 h5 h6 h3, ?_⟩
  obtain ⟨rest', e1, e2, e3, e4, _⟩ := interpolate_preserves_replay P.step P.valid p s0 rest h1 h4 h5 h6
  exact check_complete P.step P.valid _ s0 rest' e1 e2 e3 e4 h3

/-! ## PathControl::asGeometric -/

/-- **asGeometric yields a valid one-step chain**: for a well-formed replayable path from a valid
first state, the geometric path starts at the same state, consecutive states are exactly one
propagation step apart under one of the path's controls (or equal, for a 0-step segment), every
state is valid, the last state is the last state of the control path, and its length is one more
than the number of interpolated segments, i.e. `1 + Σ max 1 steps`. -/
theorem asGeometric_spec (step : S → U → S) (valid : S → Bool) (p : Path S U)
    (s0 : S) (rest : List S) (hs : p.states = s0 :: rest) (hl1 : rest.length = p.controls.length)
    (hl2 : p.steps.length = p.controls.length)
    (hr : ReplayOK step valid s0 (segs rest p.controls p.steps)) (hv0 : valid s0 = true) :
    ∃ rest', p.asGeometric step = s0 :: rest' ∧
      (∀ (i : Nat) (a b : S), (p.asGeometric step)[i]? = some a →
        (p.asGeometric step)[i + 1]? = some b → (∃ u ∈ p.controls, b = step a u) ∨ b = a) ∧
      (∀ s ∈ p.asGeometric step, valid s = true) ∧
      (p.asGeometric step).getLast? = p.states.getLast? ∧
      (p.asGeometric step).length = (p.interpolate step).controls.length + 1 ∧
      (p.asGeometric step).length = 1 + (p.steps.map (max 1 ·)).sum := by
  obtain ⟨a, b, c⟩ := maps_segs rest p.controls p.steps hl1 hl2
  have hp : p = ofSegs s0 (segs rest p.controls p.steps) := by
    cases p
    simp only [ofSegs] at *
    simp only [a, b, c, hs]
  obtain ⟨sl', e1, e2, e3, e4, _, e6, e7⟩ := interpolate_ofSegs step valid s0 _ hr
  rw [← hp] at e1
  unfold Path.asGeometric
  rw [e1]
  refine ⟨sl'.map (·.2.2), rfl, ?_, ?_, ?_, by simp [ofSegs], ?_⟩
  · intro i x y hx hy
    rcases adjacent_ofSegs step valid sl' s0 e2 e4 i x y hx hy with ⟨z, hz, hzy⟩ | h
    · exact Or.inl ⟨z.1, by rw [← b]; exact e6 z hz, hzy⟩
    · exact Or.inr h
  · exact replayOK_states_valid step valid sl' s0 e2 hv0
  · have : p.states.getLast? = some (endState s0 (segs rest p.controls p.steps)) := by
      have h := getLast?_states s0 (segs rest p.controls p.steps)
      rw [a] at h
      rw [hs]; exact h
    rw [this, ← e3]
    exact getLast?_states _ _
  · show (s0 :: sl'.map (·.2.2)).length = _
    have hc2 : (segs rest p.controls p.steps).map (fun x => max 1 x.2.1) = p.steps.map (max 1 ·) := by
      have := congrArg (List.map (max 1 ·)) c
      rw [List.map_map] at this
      exact this
    rw [List.length_cons, List.length_map, e7, hc2]; omega

example : ({ states := [0, 3, 3, 4], controls := [1, 2, 1], steps := [3, 0, 1] } : Path Nat Nat).asGeometric stepN
    = [0, 1, 2, 3, 3, 4] := by decide

/-! ## the control sampler at exact real arithmetic ([EX])

`ControlReal.uniformRealR / ctlSampleR / uniformIntR` are the model functions `uniformReal`,
`ctlSample`, `uniformInt` of `Model/ControlExtra.lean` instantiated at `ℝ`.  These theorems are about
*exact* arithmetic: the IEEE rounding of `(hi - lo) * r + lo` in the `Float` run is executed by the
lock-step driver, not verified here. -/

open OmplModel.ControlReal in
/-- **`RNG::uniformReal(lo, hi)` stays in `[lo, hi]`** (and below `hi` when the interval is proper)
for every raw draw `r ∈ [0, 1)`. -/
theorem uniformReal_mem (lo hi r : ℝ) (h : lo ≤ hi) (h0 : 0 ≤ r) (h1 : r < 1) :
    lo ≤ uniformRealR lo hi r ∧ uniformRealR lo hi r ≤ hi ∧ (lo < hi → uniformRealR lo hi r < hi) :=
  uniformReal_bounds lo hi r h h0 h1

open OmplModel.ControlReal in
example : uniformRealR 1 3 (1 / 2) = 2 := by rw [uniformReal_eq]; norm_num

open OmplModel.ControlReal in
/-- **the sampled control is inside the control bounds**: `RealVectorControlUniformSampler::sample`
writes one value per dimension and component `i` lies in `[low[i], high[i]]` (below `high[i]` when
`low[i] < high[i]`), for all raw draws in `[0, 1)`. -/
theorem ctlSampler_inbounds (lo hi rs : List ℝ) (h1 : hi.length = lo.length)
    (h2 : rs.length = lo.length)
    (hb : ∀ (i : Nat) (l h : ℝ), lo[i]? = some l → hi[i]? = some h → l ≤ h)
    (hr : ∀ r ∈ rs, 0 ≤ r ∧ r < 1) :
    (ctlSampleR lo hi rs).length = lo.length ∧
    ∀ (i : Nat) (l h x : ℝ), lo[i]? = some l → hi[i]? = some h → (ctlSampleR lo hi rs)[i]? = some x →
      l ≤ x ∧ x ≤ h ∧ (l < h → x < h) :=
  ctlSample_bounds lo hi rs h1 h2 hb hr

open OmplModel.ControlReal in
example : ctlSampleR [0, 1] [2, 1] [1 / 2, 0] = [1, 1] := by
  simp only [ctlSampleR, ctlSample]
  rw [show @uniformReal ℝ numReal 0 2 (1 / 2) = 1 by rw [← uniformRealR, uniformReal_eq]; norm_num,
    show @uniformReal ℝ numReal 1 1 0 = 1 by rw [← uniformRealR, uniformReal_eq]; norm_num]

open OmplModel.ControlReal in
/-- **`RNG::uniformInt(lo, hi)` (the sampled step count) stays in `[lo, hi]`**. -/
theorem uniformInt_range (lo hi : Int) (r : ℝ) (h : lo ≤ hi) (h0 : 0 ≤ r) (h1 : r < 1) :
    lo ≤ uniformIntR lo hi r ∧ uniformIntR lo hi r ≤ hi :=
  uniformInt_bounds lo hi r h h0 h1

example : (1 : Int) ≤ 20 ∧ (0 : ℝ) ≤ 1 / 2 ∧ (1 / 2 : ℝ) < 1 := by norm_num

/-! ## control::EST::solve

`Model/CEST.lean`: the planner's own random number generator is an abstract state machine
(`ρ`, `P.rng01`, `P.rngInt` arbitrary), the sampler outcomes and control draws are scripted; the
weight type `δ` is arbitrary (`WScale δ`), so all theorems here are arithmetic-free and hold for the
`Float` run.  The grid/PDF theorems reuse the C12 PDF invariants (`ShapeInv`, `IdxSync`). -/

section CEST
variable {δ κ ρ : Type} [DecidableEq κ] [Pdf.WScale δ]

/-- **Every path reported by control::EST replays**; every control is one of the scripted
`sampleTo` draws and its whole step count lies between `minControlDuration` and the drawn count. -/
theorem cest_path_replays (P : CEST.Problem S U δ κ ρ) (g : ρ) (starts : List S)
    (draws : List (CEST.Draw S U)) (p : Path S U) (h : (CEST.solve P g starts draws).path = some p) :
    ∃ s0 rest, p.states = s0 :: rest ∧ s0 ∈ starts ∧ P.valid s0 = true ∧
      rest.length = p.controls.length ∧ p.steps.length = p.controls.length ∧
      ReplayOK P.step P.valid s0 (segs rest p.controls p.steps) ∧
      ∀ u k s', (u, k, s') ∈ segs rest p.controls p.steps →
        ∃ d ∈ draws, ∃ k0, (u, k0) ∈ d.ctl ∧ P.minSteps ≤ k ∧ k ≤ k0 := by
  obtain ⟨s0, sl, rfl, h1, h2, h3, h4, _⟩ := CEST.solve_path P g starts draws p h
  refine ⟨s0, sl.map (·.2.2), rfl, h1, h2, by simp [ofSegs], by simp [ofSegs], ?_, ?_⟩
  · simp only [ofSegs, segs_map]; exact h3
  · intro u k s' hm
    simp only [ofSegs, segs_map] at hm
    exact h4 _ hm

/-- **An exact control::EST solution ends in the goal.** -/
theorem cest_exact_goal (P : CEST.Problem S U δ κ ρ) (g : ρ) (starts : List S)
    (draws : List (CEST.Draw S U)) (p : Path S U) (h : (CEST.solve P g starts draws).path = some p)
    (hex : (CEST.solve P g starts draws).status = .exact) :
    ∃ last, p.states.getLast? = some last ∧ (P.goal last).1 = true := by
  obtain ⟨s0, sl, rfl, _, _, _, _, h5⟩ := CEST.solve_path P g starts draws p h
  exact ⟨endState s0 sl, getLast?_states s0 sl, h5 hex⟩

/-- **control::EST reports a path exactly when the status is exact or approximate.** -/
theorem cest_status_path (P : CEST.Problem S U δ κ ρ) (g : ρ) (starts : List S)
    (draws : List (CEST.Draw S U)) :
    ((CEST.solve P g starts draws).status = .exact ∨ (CEST.solve P g starts draws).status = .approximate) ↔
      (CEST.solve P g starts draws).path.isSome = true :=
  CEST.solve_status_path P g starts draws

/-- **every motion of the final control::EST tree is sound** (as `crrt_tree_sound`). -/
theorem cest_tree_sound (P : CEST.Problem S U δ κ ρ) (g : ρ) (starts : List S)
    (draws : List (CEST.Draw S U)) (i : Nat) (m : Motion S U)
    (h : (CEST.solve P g starts draws).final.tree[i]? = some m) :
    P.valid m.state = true ∧
    ((m.parent = none ∧ m.state ∈ starts) ∨
     (∃ p pm, m.parent = some p ∧ p < i ∧ (CEST.solve P g starts draws).final.tree[p]? = some pm ∧
        m.state = propagate P.step pm.state m.control m.steps ∧
        (∀ j, 1 ≤ j → j ≤ m.steps → P.valid (propagate P.step pm.state m.control j) = true))) := by
  have hT := (CEST.solve_final_inv P g starts draws).tree
  refine ⟨treeInvG_valid _ _ _ _ _ hT (i + 1) i m (Nat.lt_succ_self i) h, ?_⟩
  cases hT i m h with
  | inl h => exact Or.inl ⟨h.1, h.2.1⟩
  | inr h =>
    obtain ⟨p, pm, h1, h2, h3, h4, h5, _⟩ := h
    exact Or.inr ⟨p, pm, h1, h2, h3, h4, h5⟩

/-- **one PDF element per grid cell, with the coded weight** [AF]: at every interruption point of
every run the PDF has exactly as many elements as there are cells (none was ever removed), its tree
shape and `index_` fields are intact, and cell number `ci` is non-empty, owns the live handle `ci`
and its element's weight is `1.0` if the cell holds one motion, `1.0 / size` otherwise — the formula
of `EST::addMotion` for the cell's CURRENT size.  (`hw`: `PDF::add` accepts the weight of a new cell.) -/
theorem cest_pdf_sync (P : CEST.Problem S U δ κ ρ)
    (hw : Pdf.WOps.lt P.wOne (Pdf.WOps.zero : δ) = false) (g : ρ) (starts : List S)
    (draws : List (CEST.Draw S U)) :
    let st := (CEST.solve P g starts draws).final
    st.pdf.next = st.cells.size ∧ st.pdf.data.size = st.cells.size ∧
    Pdf.ShapeInv st.pdf ∧ Pdf.IdxSync st.pdf ∧
    ∀ (ci : Nat) (cell : CEST.Cell κ), st.cells[ci]? = some cell →
      cell.elem = ci ∧ cell.motions ≠ [] ∧ st.pdf.idx ci ≠ none ∧
      st.pdf.getWeight ci =
        some (if cell.motions.length = 1 then P.wOne else P.wInv cell.motions.length) := by
  intro st
  have hC := (CEST.solve_final_inv P g starts draws).cells hw
  refine ⟨hC.pdf.next, hC.pdf.size, hC.pdf.shape, hC.pdf.idx, ?_⟩
  intro ci cell h
  obtain ⟨h1, h2, h3⟩ := hC.cellok ci cell h
  refine ⟨h1, h2, ?_, h3⟩
  intro hnone
  unfold Pdf.Pdf.getWeight at h3
  rw [hnone] at h3
  cases h3

/-- **the grid partitions the tree by projection cell** [AF]: cells have pairwise distinct
coordinates; every motion listed in a cell is a tree motion whose state projects to that cell's
coordinates; every tree motion is listed in a cell, in exactly one, exactly once; the cell sizes add
up to `tree_.size`. -/
theorem cest_grid_partition (P : CEST.Problem S U δ κ ρ)
    (hw : Pdf.WOps.lt P.wOne (Pdf.WOps.zero : δ) = false) (g : ρ) (starts : List S)
    (draws : List (CEST.Draw S U)) :
    let st := (CEST.solve P g starts draws).final
    (∀ (i j : Nat) (ci cj : CEST.Cell κ), st.cells[i]? = some ci → st.cells[j]? = some cj →
      ci.coord = cj.coord → i = j) ∧
    (∀ (ci : Nat) (cell : CEST.Cell κ), st.cells[ci]? = some cell → ∀ m ∈ cell.motions,
      ∃ mo, st.tree[m]? = some mo ∧ P.coordOf mo.state = cell.coord) ∧
    (∀ m, m < st.tree.size → ∃ (ci : Nat) (cell : CEST.Cell κ), st.cells[ci]? = some cell ∧ m ∈ cell.motions) ∧
    (∀ (m i j : Nat) (ci cj : CEST.Cell κ), st.cells[i]? = some ci → st.cells[j]? = some cj →
      m ∈ ci.motions → m ∈ cj.motions → i = j) ∧
    (∀ (ci : Nat) (cell : CEST.Cell κ), st.cells[ci]? = some cell → cell.motions.Nodup) ∧
    (st.cells.toList.map (·.motions.length)).sum = st.tree.size := by
  intro st
  have hC := (CEST.solve_final_inv P g starts draws).cells hw
  refine ⟨hC.distinct, fun ci cell h m hm => (hC.mem ci cell h m hm).2, hC.cover, ?_, hC.nodup, hC.count⟩
  intro m i j ci cj hi hj hmi hmj
  obtain ⟨_, mo, h1, h2⟩ := hC.mem i ci hi m hmi
  obtain ⟨_, mo', h3, h4⟩ := hC.mem j cj hj m hmj
  rw [h1] at h3
  cases Option.some.inj h3
  exact hC.distinct i j ci cj hi hj (by rw [← h2, ← h4])

/-- **the motion `selectMotion` picks is a tree motion** [AF]: at every interruption point of every
run, for every value `r` whatsoever, `pdf_.sample(r)` never reads out of range, on a non-empty grid
it never finds the PDF empty, an element it returns is a non-empty cell, and whatever `selectMotion`
returns (for every generator state) is the index of a motion of the tree — `existing` never dangles. -/
theorem cest_select_is_tree_motion (P : CEST.Problem S U δ κ ρ)
    (hw : Pdf.WOps.lt P.wOne (Pdf.WOps.zero : δ) = false) (g : ρ) (starts : List S)
    (draws : List (CEST.Draw S U)) (r : δ) :
    let st := (CEST.solve P g starts draws).final
    st.pdf.sample r ≠ .oob ∧ (0 < st.cells.size → st.pdf.sample r ≠ .errEmpty) ∧
    (∀ h, st.pdf.sample r = .ok h → ∃ cell, st.cells[h]? = some cell ∧ cell.motions ≠ []) ∧
    (∀ (g' : ρ) (ex : Nat), (CEST.selectMotion P { st with rng := g' }).1 = some ex → ex < st.tree.size) := by
  intro st
  have hI : CEST.EInv P starts draws st := CEST.solve_final_inv P g starts draws
  have hC : CEST.CInv P st st.tree.size := hI.cells hw
  refine ⟨?_, ?_, CEST.sample_ok_cell P st _ hC r, ?_⟩
  · unfold Pdf.Pdf.sample
    split
    · simp
    · rename_i hn
      split
      · simp
      · have hn' : 0 < st.pdf.data.size := by omega
        have ht := Pdf.total_isSome st.pdf.tree _ hn' hC.pdf.shape
        obtain ⟨tot, htot⟩ := Option.isSome_iff_exists.mp ht
        rw [htot]
        simp only
        have hlt := Pdf.walk_lt st.pdf.tree _ (Pdf.WScale.mul r tot) hn' hC.pdf.shape
        rw [Array.getElem?_eq_getElem hlt]
        simp
  · intro hpos
    have hne : st.pdf.data.size ≠ 0 := by rw [hC.pdf.size]; omega
    unfold Pdf.Pdf.sample
    rw [if_neg hne]
    split
    · simp
    · split
      · simp
      · split <;> simp
  · intro g' ex hex
    have hC' : CEST.CInv P { st with rng := g' } st.tree.size :=
      (CEST.einv_rng P starts draws st g' hI).cells hw
    exact CEST.selectMotion_lt P _ _ hC' ex hex

/-- **every path control::EST reports passes `PathControl::check`, before and after `interpolate`**. -/
theorem cest_path_checks [DecidableEq S] (P : CEST.Problem S U δ κ ρ) (g : ρ) (starts : List S)
    (draws : List (CEST.Draw S U)) (p : Path S U) (h : (CEST.solve P g starts draws).path = some p) :
    p.check P.step P.valid (fun a b => decide (a = b)) = true ∧
    (p.interpolate P.step).check P.step P.valid (fun a b => decide (a = b)) = true := by
  obtain ⟨s0, rest, h1, _, h3, h4, h5, h6, _⟩ := cest_path_replays P g starts draws p h
  refine ⟨check_complete P.step P.valid p s0 rest h1 h4 h5 h6 h3, ?_⟩
  obtain ⟨rest', e1, e2, e3, e4, _⟩ := interpolate_preserves_replay P.step P.valid p s0 rest h1 h4 h5 h6
  exact check_complete P.step P.valid _ s0 rest' e1 e2 e3 e4 h3

end CEST

/-- `Int` as a weight type for the kernel-evaluated control::EST example -/
@[reducible] def intScaleC : Pdf.WScale Int where
  add := (· + ·)
  sub := (· - ·)
  lt := fun a b => decide (a < b)
  zero := 0
  mul := (· * ·)
  one := 1

/-- integrator on `Nat` (valid below 10, goal 6), projection `s / 3`, cell weights `60`, `60 / size`,
a counter as random number generator -/
def estN : CEST.Problem Nat Nat Int Nat Nat :=
  { step := stepN, valid := validN, dist := fun a b => Int.ofNat (distN a b),
    lt := fun a b => decide (a < b), inf := 1000,
    goal := fun s => (decide (s = 6), Int.ofNat (distN s 6)), goalSample := 6,
    goalSampleable := false, canSample := false, goalBias := 0, nullControl := 0, minSteps := 1,
    coordOf := fun s => s / 3, wOne := 60, wInv := fun n => 60 / Int.ofNat n,
    rng01 := fun g => (Int.ofNat (g % 2), g + 1), rngInt := fun g hi => (g % (hi + 1), g + 1) }

def estScriptC : List (CEST.Draw Nat Nat) :=
  [{ near := some 2, ctl := [(1, 2)] }, { near := some 6, ctl := [(2, 2)] }]

def estRes : CEST.Result Nat Nat Int Nat Nat := @CEST.solve Nat Nat Int Nat Nat _ intScaleC estN 0 [0] estScriptC

/-- non-vacuity: an exact path with two segments, two cells (cell 0 holds two motions, weight
`60 / 2`; cell 2 holds one, weight `60`), PDF rows `[30, 60] / [90]` -/
example :
    estRes.status = .exact ∧
    estRes.path.map (fun p => (p.states, p.controls, p.steps)) = some ([0, 2, 6], [1, 2], [2, 2]) ∧
    estRes.final.cells.toList.map (fun c => (c.coord, c.motions, c.elem)) = [(0, [0, 1], 0), (2, [2], 1)] ∧
    estRes.final.pdf.tree = [#[30, 60], #[90]] := by
  simp [estRes, CEST.solve, CEST.run, CEST.iter, CEST.init, CEST.addMotion, CEST.enterCell, CEST.findCell,
    CEST.selectMotion, Pdf.Pdf.sample, Pdf.Pdf.add, Pdf.Pdf.update, Pdf.total?, Pdf.walk, Pdf.setIdx,
    Pdf.addRows, Pdf.bump, sampleTo, pwv, pwvLoop, reported, chain, pathOf, estN, estScriptC, stepN, validN,
    distN, Pdf.WOps.lt, Pdf.WOps.zero, Pdf.WOps.add, Pdf.WOps.sub, Pdf.WScale.mul, Pdf.WScale.one]

theorem estN_hw : @Pdf.WOps.lt Int intScaleC.toWOps estN.wOne (@Pdf.WOps.zero Int intScaleC.toWOps) = false := by
  decide

example := @cest_path_replays Nat Nat Int Nat Nat _ intScaleC estN 0 [0] estScriptC
example := @cest_path_checks Nat Nat Int Nat Nat _ intScaleC _ estN 0 [0] estScriptC
example := @cest_pdf_sync Nat Nat Int Nat Nat _ intScaleC estN estN_hw 0 [0] estScriptC
example := @cest_grid_partition Nat Nat Int Nat Nat _ intScaleC estN estN_hw 0 [0] estScriptC
example := @cest_select_is_tree_motion Nat Nat Int Nat Nat _ intScaleC estN estN_hw 0 [0] estScriptC 1

/-! ## control::KPIECE1::solve

`Model/CKPIECE.lean`, on top of the C13 grid model (`GridB`) and the shared `Discretization` pieces.
Generic over the state/control types, every `Num α` (so the theorems hold for the `Float` run), the
planner's RNG as an abstract state machine, and every script of (control, step count) draws.
`hcoord`: the projection has `dim` coordinates (as in C13). -/

section CKPIECE
open OmplModel.Disc OmplModel.Grid
variable {α ρ : Type} [Num α] [HasLog α]

/-- **Every path reported by control::KPIECE1 replays.**  A propagated motion is split at cell
boundaries, so a reported segment is a whole number `k ≥ 1` of steps of one scripted control, at
most the drawn count — NOT necessarily `≥ minControlDuration`: only the *sum* over the split
pieces of one propagation reaches it (`ckpiece_split_adds_up`). -/
theorem ckpiece_path_replays (Pb : CKPIECE.Problem S U α ρ) (g : ρ) (starts : List S)
    (draws : List (CKPIECE.Draw U)) (p : Path S U) (h : (CKPIECE.solve Pb g starts draws).path = some p) :
    ∃ s0 rest, p.states = s0 :: rest ∧ s0 ∈ starts ∧ Pb.valid s0 = true ∧
      rest.length = p.controls.length ∧ p.steps.length = p.controls.length ∧
      ReplayOK Pb.step Pb.valid s0 (segs rest p.controls p.steps) ∧
      ∀ u k s', (u, k, s') ∈ segs rest p.controls p.steps →
        1 ≤ k ∧ ∃ d ∈ draws, d.control = u ∧ k ≤ d.steps := by
  obtain ⟨s0, sl, rfl, h1, h2, h3, h4, _⟩ := CKPIECE.solve_path Pb g starts draws p h
  refine ⟨s0, sl.map (·.2.2), rfl, h1, h2, by simp [ofSegs], by simp [ofSegs], ?_, ?_⟩
  · simp only [ofSegs, segs_map]; exact h3
  · intro u k s' hm
    simp only [ofSegs, segs_map] at hm
    exact h4 _ hm

/-- **The split motions of one propagation share one control and their step counts add up**: the
`while (index < cd)` loop started at `existing = ex` appends motions `news` to the tree (and nothing
else changes in it); the first one's parent is `ex`, every later one's parent is the previous new
motion; all carry the control `u` and at least one step; their step counts sum to the propagated
count `cd` — or, when the loop stops at a goal hit, to at most `cd` (and at least one was added). -/
theorem ckpiece_split_adds_up (Pb : CKPIECE.Problem S U α ρ) (states : List S) (coords : List Coord) (u : U)
    (cd ex : Nat) (st : CKPIECE.St S U α ρ) (hlen : states.length = cd) :
    let out := CKPIECE.splitLoop Pb states coords u cd cd 0 ex st
    ∃ news : List (Motion S U),
      out.1.tree.toList = st.tree.toList ++ news ∧
      (∀ (i : Nat) (m : Motion S U), news[i]? = some m →
        m.parent = some (if i = 0 then ex else st.tree.size + i - 1)) ∧
      (∀ m ∈ news, m.control = u ∧ 1 ≤ m.steps) ∧
      (if out.2 = true then news ≠ [] ∧ (news.map (·.steps)).sum ≤ cd
        else (news.map (·.steps)).sum = cd) := by
  intro out
  obtain ⟨news, h1, h2, h3, h4⟩ :=
    CKPIECE.splitLoop_spec Pb states coords u cd hlen cd 0 ex st (Nat.zero_le _) (by omega)
  exact ⟨news, h1, CKPIECE.chainFrom_get news ex st.tree.size h2, h3, by simpa using h4⟩

/-- **An exact control::KPIECE1 solution ends in the goal.** -/
theorem ckpiece_exact_goal (Pb : CKPIECE.Problem S U α ρ) (g : ρ) (starts : List S)
    (draws : List (CKPIECE.Draw U)) (p : Path S U) (h : (CKPIECE.solve Pb g starts draws).path = some p)
    (hex : (CKPIECE.solve Pb g starts draws).status = .exact) :
    ∃ last, p.states.getLast? = some last ∧ (Pb.goal last).1 = true := by
  obtain ⟨s0, sl, rfl, _, _, _, _, h5⟩ := CKPIECE.solve_path Pb g starts draws p h
  exact ⟨endState s0 sl, getLast?_states s0 sl, h5 hex⟩

/-- **control::KPIECE1 reports a path exactly when the status is exact or approximate.** -/
theorem ckpiece_status_path (Pb : CKPIECE.Problem S U α ρ) (g : ρ) (starts : List S)
    (draws : List (CKPIECE.Draw U)) :
    ((CKPIECE.solve Pb g starts draws).status = .exact ∨
        (CKPIECE.solve Pb g starts draws).status = .approximate) ↔
      (CKPIECE.solve Pb g starts draws).path.isSome = true :=
  CKPIECE.solve_status_path Pb g starts draws

/-- **every motion of the final control::KPIECE1 tree is sound** (as `crrt_tree_sound`; the step
count of a non-root motion is ≥ 1 and at most the drawn count of a scripted draw with its control). -/
theorem ckpiece_tree_sound (Pb : CKPIECE.Problem S U α ρ) (g : ρ) (starts : List S)
    (draws : List (CKPIECE.Draw U)) (i : Nat) (m : Motion S U)
    (h : (CKPIECE.solve Pb g starts draws).final.tree[i]? = some m) :
    Pb.valid m.state = true ∧
    ((m.parent = none ∧ m.state ∈ starts) ∨
     (∃ p pm, m.parent = some p ∧ p < i ∧ (CKPIECE.solve Pb g starts draws).final.tree[p]? = some pm ∧
        m.state = propagate Pb.step pm.state m.control m.steps ∧
        (∀ j, 1 ≤ j → j ≤ m.steps → Pb.valid (propagate Pb.step pm.state m.control j) = true) ∧
        1 ≤ m.steps ∧ ∃ d ∈ draws, d.control = m.control ∧ m.steps ≤ d.steps)) := by
  have hT := (CKPIECE.solve_final_inv Pb g starts draws).tinv
  refine ⟨treeInvG_valid _ _ _ _ _ hT (i + 1) i m (Nat.lt_succ_self i) h, ?_⟩
  cases hT i m h with
  | inl h => exact Or.inl ⟨h.1, h.2.1⟩
  | inr h =>
    obtain ⟨p, pm, h1, h2, h3, h4, h5, h6⟩ := h
    exact Or.inr ⟨p, pm, h1, h2, h3, h4, h5, h6⟩

/-- **control::KPIECE1 obeys the GridB protocol C13 relies on** [AF].  The planner's `TreeData`
after every script is reached from the empty one by a history of `KStep`s — `addMotion` of a fresh
motion index under a coordinate of `dim` entries, `selectMotion`, a score change followed by
`grid.update(cell)`, `iteration++` — with "motion `i` is stored under the projection of its state"
as the abstract content; and every such step from a reachable state accesses the grid by at most one
operation of the C13 alphabet (`GridAccess`: a coordinate of `dim` entries, `createCell`+`add` only
for an absent coordinate, no `remove`) and keeps the C13 Discretization invariant `DInv`. -/
theorem ckpiece_grid_protocol (Pb : CKPIECE.Problem S U α ρ)
    (hcoord : ∀ s, (Pb.coordOf s).length = Pb.P.dim) (g : ρ) (starts : List S)
    (draws : List (CKPIECE.Draw U)) :
    CKPIECE.KReach Pb.P Pb.borderFraction (CKPIECE.solve Pb g starts draws).final.disc
      (CKPIECE.liveOf Pb (CKPIECE.solve Pb g starts draws).final.tree) ∧
    ∀ (d d' : Disc α) (live live' : Live), CKPIECE.KReach Pb.P Pb.borderFraction d live →
      CKPIECE.KStep Pb.P d live d' live' → GridAccess Pb.P d d' ∧ DInv Pb.P d' live' :=
  ⟨(CKPIECE.solve_final_inv Pb g starts draws).dreach hcoord,
   fun _ _ _ _ hr hs => ⟨CKPIECE.kstep_access hs, CKPIECE.kstep_inv (CKPIECE.kreach_inv hr) hs⟩⟩

/-- **the discretization follows the tree** [AF]: after every script the C13 invariant `DInv` holds
with "motion `i` under `coordOf` of its state"; every tree motion sits in exactly the cell of its
coordinate, no cell is empty, `size` is the number of motions; and the GridB invariants of C13 hold
(well-formed cell list: distinct coordinates of `dim` entries, neighbour counts and border flags, each cell in exactly one queue, external
iff border). -/
theorem ckpiece_disc_inv (Pb : CKPIECE.Problem S U α ρ)
    (hcoord : ∀ s, (Pb.coordOf s).length = Pb.P.dim) (g : ρ) (starts : List S)
    (draws : List (CKPIECE.Draw U)) :
    let r := (CKPIECE.solve Pb g starts draws).final
    DInv Pb.P r.disc (CKPIECE.liveOf Pb r.tree) ∧
    (∀ (i : Nat) (mo : Motion S U), r.tree[i]? = some mo →
      ∀ e ∈ r.disc.cdata, (i ∈ e.2.motions ↔ e.1 = Pb.coordOf mo.state)) ∧
    (∀ (i : Nat) (mo : Motion S U), r.tree[i]? = some mo → ∃ e ∈ r.disc.cdata, e.1 = Pb.coordOf mo.state) ∧
    (∀ e ∈ r.disc.cdata, e.2.motions ≠ []) ∧ r.disc.size = r.tree.size ∧
    (r.disc.grid.cells.map (·.coord)).Nodup ∧ (∀ c ∈ r.disc.grid.cells, c.coord.length = Pb.P.dim) ∧
    (∀ c ∈ r.disc.grid.cells, c.nbrs = (neighbors Pb.P.dim r.disc.grid.cells c.coord).length ∧
      (c.border = true ↔ c.nbrs < 2 * Pb.P.dim)) ∧
    (qids r.disc.grid.external ++ qids r.disc.grid.internal).Perm (r.disc.grid.cells.map (·.id)) ∧
    (r.disc.grid.cells.map (·.id)).Nodup ∧
    (∀ c ∈ r.disc.grid.cells, (c.id ∈ qids r.disc.grid.external ↔ c.border = true) ∧
      (c.id ∈ qids r.disc.grid.internal ↔ c.border = false)) := by
  intro r
  have h : DInv Pb.P r.disc (CKPIECE.liveOf Pb r.tree) :=
    CKPIECE.kreach_inv ((CKPIECE.solve_final_inv Pb g starts draws).dreach hcoord)
  have hi := h.ginv
  refine ⟨h, ?_, ?_, fun e he => (h.mot e he).2, ?_, hi.nodup, hi.len, ?_, hi.queues_perm, hi.idnd,
    fun c hc => ⟨hi.ext_iff_border hc, hi.int_iff_interior hc⟩⟩
  · intro i mo hmo e he
    exact mem_cell_iff h ((CKPIECE.mem_liveOf Pb r.tree i _).2 ⟨mo, hmo, rfl⟩) he
  · intro i mo hmo
    have := h.cov _ ((CKPIECE.mem_liveOf Pb r.tree i _).2 ⟨mo, hmo, rfl⟩)
    obtain ⟨e, he, hk⟩ := List.mem_map.mp this
    exact ⟨e, he, hk⟩
  · rw [h.size]; simp [CKPIECE.liveOf]
  · intro c hc
    refine ⟨?_, ?_⟩
    · have := hi.count c hc
      rw [cnt_eq_neighbors] at this
      exact this
    · have := hi.border c hc
      rw [this]; simp; rfl

/-- **`selectMotion` answers a motion of the tree; the `halt` branches are dead** [AF]: unless the
run ended with `INVALID_START`, on the state reached after every script the next iteration — for
every draw, whichever of `CloseSamples` / grid selection it uses, and every generator whose
`halfNormalInt(0, hi)` respects its range — selects an existing tree motion and does not stop with
`halt` (`assert(existing)` cannot fail, no selection from an empty structure). -/
theorem ckpiece_select_is_tree_motion (Pb : CKPIECE.Problem S U α ρ)
    (hcoord : ∀ s, (Pb.coordOf s).length = Pb.P.dim) (hrng : ∀ g hi, (Pb.rngHalf g hi).1 ≤ hi)
    (g : ρ) (starts : List S) (draws : List (CKPIECE.Draw U))
    (hst : (CKPIECE.solve Pb g starts draws).status ≠ .invalidStart) (dr : CKPIECE.Draw U) :
    let st := (CKPIECE.solve Pb g starts draws).final
    0 < st.tree.size ∧
    (∃ ex x, (CKPIECE.viaCloseF Pb st).2 = some (ex, x) ∧ ex < (CKPIECE.viaCloseF Pb st).1.tree.size) ∧
    CKPIECE.iter Pb st dr = CKPIECE.iterTail Pb dr (CKPIECE.viaCloseF Pb st) ∧
    (CKPIECE.iter Pb st dr).2 ≠ .halt := by
  intro st
  have hI := CKPIECE.solve_final_inv Pb g starts draws
  have hpos := CKPIECE.solve_tree_pos Pb g starts draws hcoord hst
  exact ⟨hpos, CKPIECE.viaCloseF_some Pb starts draws _ hcoord hrng st hI hpos, rfl,
    CKPIECE.iter_no_halt Pb starts draws _ hcoord hrng st hI hpos dr⟩

/-- **every path control::KPIECE1 reports passes `PathControl::check`, before and after `interpolate`**. -/
theorem ckpiece_path_checks [DecidableEq S] (Pb : CKPIECE.Problem S U α ρ) (g : ρ) (starts : List S)
    (draws : List (CKPIECE.Draw U)) (p : Path S U) (h : (CKPIECE.solve Pb g starts draws).path = some p) :
    p.check Pb.step Pb.valid (fun a b => decide (a = b)) = true ∧
    (p.interpolate Pb.step).check Pb.step Pb.valid (fun a b => decide (a = b)) = true := by
  obtain ⟨s0, rest, h1, _, h3, h4, h5, h6, _⟩ := ckpiece_path_replays Pb g starts draws p h
  refine ⟨check_complete Pb.step Pb.valid p s0 rest h1 h4 h5 h6 h3, ?_⟩
  obtain ⟨rest', e1, e2, e3, e4, _⟩ := interpolate_preserves_replay Pb.step Pb.valid p s0 rest h1 h4 h5 h6
  exact check_complete Pb.step Pb.valid _ s0 rest' e1 e2 e3 e4 h3

end CKPIECE

/-! non-vacuity for control::KPIECE1.  The theorems are arithmetic-free, so a toy integer instance of
`Num` (integer division, constant `log`; only `+ - * / <` and the numerals matter here) is enough to
let the kernel evaluate the model: one draw of control 1 for 6 steps from state 0 with cells of
width 3 is split into motions of 2, 3 and 1 steps (the last one shorter than `minSteps = 2`), the
third hits the goal. -/

/-- toy `Num Int` for kernel evaluation of the arithmetic-free control flow (not a model of `double`) -/
@[reducible] def numIntK : Num Int where
  add := (· + ·)
  sub := (· - ·)
  mul := (· * ·)
  div := (· / ·)
  neg := (- ·)
  lt := (· < ·)
  le := (· ≤ ·)
  ofNat n := Int.ofNat n
  ofDec m e := Int.ofNat (m / 10 ^ e)
  pi := 3
  abs x := Int.ofNat x.natAbs
  sqrt x := x
  sin _ := 0
  cos _ := 1
  acos _ := 0
  atan2 _ _ := 0
  floor x := x
  ceil x := x
  fmod x y := x.tmod y
  decLt a b := Int.decLt a b
  decLe a b := Int.decLe a b
  toInt x := x
  ofInt i := i

@[reducible] def logIntK : Disc.HasLog Int := ⟨fun _ => 0⟩

def kpN : @CKPIECE.Problem Nat Nat Int Nat :=
  { P := { dim := 1, enc := fun x => x, dec := fun x => x, eps := 0 },
    step := stepN, valid := validN, inf := 1000, goal := fun s => (decide (s = 6), Int.ofNat (distN s 6)),
    nullControl := 0, minSteps := 2, maxSteps := 8, coordOf := fun s => [Int.ofNat (s / 3)],
    goalBias := 0, borderFraction := 1, goodScoreFactor := 1, badScoreFactor := 1, nClose := 3,
    rng01 := fun g => (Int.ofNat (g % 2), g + 1), rngHalf := fun g hi => (g % (hi + 1), g + 1) }

def kpRes : CKPIECE.Result Nat Nat Int Nat :=
  @CKPIECE.solve Nat Nat Int Nat numIntK logIntK kpN 0 [0] [{ control := 1, steps := 6 }]

/-- evaluated by the kernel (`decide +kernel`: plain kernel reduction, no compiled code, nothing assumed —
the elaborator's `decide` cannot unfold the well-founded recursion of the heap model) -/
example : kpRes.status = .exact ∧
    kpRes.path.map (fun p => (p.states, p.controls, p.steps)) = some ([0, 2, 5, 6], [1, 1, 1], [2, 3, 1]) ∧
    kpRes.final.disc.cdata.map (fun e => (e.1, e.2.motions)) = [([0], [0, 1]), ([1], [2]), ([2], [3])] ∧
    kpRes.final.disc.size = 4 := by decide +kernel

example : ∀ s, (kpN.coordOf s).length = kpN.P.dim := fun _ => rfl
example : ∀ g hi, (kpN.rngHalf g hi).1 ≤ hi := fun _ hi => Nat.le_of_lt_succ (Nat.mod_lt _ (Nat.succ_pos hi))
example := @ckpiece_path_replays Nat Nat Int Nat numIntK logIntK kpN 0 [0] [{ control := 1, steps := 6 }]
example := @ckpiece_grid_protocol Nat Nat Int Nat numIntK logIntK kpN (fun _ => rfl) 0 [0] [{ control := 1, steps := 6 }]
example := @ckpiece_disc_inv Nat Nat Int Nat numIntK logIntK kpN (fun _ => rfl) 0 [0] [{ control := 1, steps := 6 }]

/-- `findNextMotion`: the last index of the run of equal coordinates starting at `index` -/
example : CKPIECE.findNext [[0], [0], [1], [1], [1], [2]] 0 6 = 1 ∧
    CKPIECE.findNext [[0], [0], [1], [1], [1], [2]] 2 6 = 4 ∧
    CKPIECE.findNext [[0], [0], [1], [1], [1], [2]] 5 6 = 5 := by decide

/-- `CloseSamples`: sorted insertion, an equal distance collides (std::set), the farthest is dropped
when full, `selectMotion` re-inserts the closest with an inflated distance -/
example : (@CKPIECE.closeInsert Int numIntK [⟨[0], 0, 3⟩, ⟨[1], 1, 7⟩] ⟨[2], 2, 5⟩).map (·.motion) = [0, 2, 1] ∧
    (@CKPIECE.closeInsert Int numIntK [⟨[0], 0, 3⟩, ⟨[1], 1, 7⟩] ⟨[2], 2, 7⟩).map (·.motion) = [0, 1] ∧
    (@CKPIECE.closeConsider Int numIntK 2 [⟨[0], 0, 3⟩, ⟨[1], 1, 7⟩] ⟨[2], 2, 5⟩).map (·.motion) = [0, 2] ∧
    (@CKPIECE.closeSelect Int numIntK 2 [⟨[0], 0, 3⟩, ⟨[1], 1, 7⟩]).map (fun r => (r.1, r.2.1, r.2.2.map (·.motion))) =
      some (0, [0], [0, 1]) := by decide

/-! ## the duration ↔ step-count conversion of `PathControl` ([EX])

`ControlReal.durToStepsR d h` is `durToSteps` of `Model/Control.lean` — `(int)floor(0.5 + d / h)` as
coded in `check`/`interpolate`/`print` — and `durOfStepsR k h` is `k * h` (the planners' `steps *
stepSize`), both at `ℝ`.  Exact arithmetic only.  The `Float` side — that `fl(fl(k*h)/h)` stays within
`1/2` of `k` (trivially: the error is about `1e-16 · k`) and that it can fall BELOW `k` (e.g. `k = 6`,
`h = 0.7`: `(6*0.7)/0.7 = 5.9999999999999991`) — is executed by the lock-step op `stepcount`, not
proved. -/

open OmplModel.ControlReal in
/-- **the coded rounding recovers the step count** from any duration whose quotient by the step size
is within `1/2` of `k` — which is what absorbs the few-ulp IEEE error of `fl(fl(k*h)/h)`. -/
theorem stepCount_roundtrip (k : ℕ) (h d : ℝ) (_hh : 0 < h) (hq : |d / h - k| < 1 / 2) :
    durToStepsR d h = k :=
  durToSteps_round k h d hq

open OmplModel.ControlReal in
/-- in exact arithmetic `steps * stepSize` converts back to `steps` -/
theorem stepCount_exact (k : ℕ) (h : ℝ) (hh : 0 < h) : durToStepsR (durOfStepsR k h) h = k :=
  durToSteps_exact k h hh

open OmplModel.ControlReal in
example : durToStepsR (durOfStepsR 6 (7 / 10)) (7 / 10) = 6 := by
  exact_mod_cast stepCount_exact 6 (7 / 10) (by norm_num)

open OmplModel.ControlReal in
/-- **truncation is NOT a round trip under the same hypothesis**: for `h = 7/10`, `k = 6` and the
duration `d = (6 - 2⁻⁵⁰) · 7/10` (the real counterpart of the `Float` value of `6 * 0.7`), the
quotient is within `1/2` of 6 and the coded rounding answers 6, but `static_cast<int>(d / h)` (for a
non-negative quotient: its floor) answers 5. -/
theorem stepCount_truncation_fails :
    |((6 - 1 / 2 ^ 50) * (7 / 10) : ℝ) / (7 / 10) - ((6 : ℕ) : ℝ)| < 1 / 2 ∧
    durToStepsR ((6 - 1 / 2 ^ 50) * (7 / 10)) (7 / 10) = 6 ∧
    ⌊((6 - 1 / 2 ^ 50) * (7 / 10) : ℝ) / (7 / 10)⌋ = 5 :=
  trunc_witness

/-! ## control::PDST::solve

`Model/CPDST.lean`: the tree is NOT append-only — `addMotion` cuts an existing motion at a cell
boundary (the head becomes a new motion that takes over the parent, the tail is rewritten in place),
and new motions start at a random point inside their parent's segment.  Arithmetic-free (any
`Num α`).  `hrng`: `rng_.uniformInt(1, hi)` answers within `[1, hi]` for `hi ≥ 1` (the model does not clamp). -/

section CPDST
variable {α ρ : Type} [Num α]

/-- **every PDST motion is a sound segment, at every interruption point, splits included.**  A
start motion is a valid start state (`dur = 0`, no control, no parent).  Any other motion carries a
control `u` and an identity `ctl`, its end state is `u` applied `dur` times to its start state with
every intermediate state valid (and the start state valid), and it hangs on an existing parent:
either as the *tail* after its split head (same `ctl`, same control, starts where the head stops),
or — with a different `ctl` — its start state lies on the parent's split chain
(`CPDST.OnChain`: on the parent's own segment, `propagate parent.start u_p j` with `j ≤ dur`, or on
the segment of a same-`ctl` ancestor, i.e. on a head cut off the parent by a later split; for a
start-motion parent it is that state).  (`1 ≤ dur` holds when `minControlDuration ≥ 1`.) -/
theorem pdst_segments_sound (P : CPDST.Problem S U α ρ)
    (hrng : ∀ g hi, 1 ≤ hi → 1 ≤ (P.rngInt1 g hi).1 ∧ (P.rngInt1 g hi).1 ≤ hi) (g : ρ) (starts : List S)
    (draws : List (CPDST.Draw S U)) (i : Nat) (m : CPDST.PMotion S U α)
    (h : (CPDST.solve P g starts draws).final.motions[i]? = some m) :
    (m.control = none ∧ m.ctl = none ∧ m.dur = 0 ∧ m.start = m.stop ∧ m.start ∈ starts ∧
      P.valid m.start = true ∧ m.parent = none) ∨
    (∃ u, m.control = some u ∧ (∃ c, m.ctl = some c) ∧ (1 ≤ P.minSteps → 1 ≤ m.dur) ∧
      m.stop = propagate P.step m.start u m.dur ∧
      (∀ j, 1 ≤ j → j ≤ m.dur → P.valid (propagate P.step m.start u j) = true) ∧ P.valid m.start = true ∧
      ∃ p pm, m.parent = some p ∧ (CPDST.solve P g starts draws).final.motions[p]? = some pm ∧
        ((m.ctl = pm.ctl ∧ m.start = pm.stop ∧ m.control = pm.control) ∨
         (m.ctl ≠ pm.ctl ∧ CPDST.OnChain P.step (CPDST.solve P g starts draws).final.motions p m.start))) :=
  (CPDST.solve_good P hrng g starts draws).1.seg i m h

/-- control identities are fresh: every `ctl` in the tree is below the counter, so a new motion
never shares its `ctl` with its parent (which is what lets `findDurationAndAncestor` recognise split
chains by `ctl` equality) -/
theorem pdst_ctl_fresh (P : CPDST.Problem S U α ρ)
    (hrng : ∀ g hi, 1 ≤ hi → 1 ≤ (P.rngInt1 g hi).1 ∧ (P.rngInt1 g hi).1 ≤ hi) (g : ρ) (starts : List S)
    (draws : List (CPDST.Draw S U)) (i : Nat) (m : CPDST.PMotion S U α) (c : Nat)
    (h : (CPDST.solve P g starts draws).final.motions[i]? = some m) (hc : m.ctl = some c) :
    c < (CPDST.solve P g starts draws).final.nextCtl :=
  (CPDST.solve_good P hrng g starts draws).1.fresh i m c h hc

/-- **an exact PDST solution is a goal motion** (the class of seeded change C02-s1): status `exact`
⇒ `lastGoalMotion_` exists in the tree and its end state satisfies the goal; status `approximate`
⇒ `isApproximate` is still set. -/
theorem pdst_exact_goal (P : CPDST.Problem S U α ρ)
    (hrng : ∀ g hi, 1 ≤ hi → 1 ≤ (P.rngInt1 g hi).1 ∧ (P.rngInt1 g hi).1 ≤ hi) (g : ρ) (starts : List S)
    (draws : List (CPDST.Draw S U)) :
    ((CPDST.solve P g starts draws).status = .exact →
      ∃ l m, (CPDST.solve P g starts draws).final.lastGoal = some l ∧
        (CPDST.solve P g starts draws).final.motions[l]? = some m ∧ (P.goal m.stop).1 = true) ∧
    ((CPDST.solve P g starts draws).status = .approximate →
      (CPDST.solve P g starts draws).final.isApprox = true) ∧
    (∀ l, (CPDST.solve P g starts draws).final.lastGoal = some l →
      ∃ m, (CPDST.solve P g starts draws).final.motions[l]? = some m) := by
  have hg := (CPDST.solve_good P hrng g starts draws).2
  have hs := CPDST.solve_status P g starts draws
  exact ⟨fun he => by
    obtain ⟨l, m, a, b, c, _⟩ := hg.2 (hs.2.1 he)
    exact ⟨l, m, a, b, c⟩, hs.2.2.1, hg.1⟩

/-- **status and `lastGoalMotion_`**: exact or approximate exactly when a goal motion was recorded;
a path is reported only then. -/
theorem pdst_status (P : CPDST.Problem S U α ρ) (g : ρ) (starts : List S) (draws : List (CPDST.Draw S U)) :
    (((CPDST.solve P g starts draws).status = .exact ∨ (CPDST.solve P g starts draws).status = .approximate) ↔
      (CPDST.solve P g starts draws).final.lastGoal.isSome = true) ∧
    ((CPDST.solve P g starts draws).path.isSome = true →
      (CPDST.solve P g starts draws).final.lastGoal.isSome = true) :=
  ⟨(CPDST.solve_status P g starts draws).1, (CPDST.solve_status P g starts draws).2.2.2⟩

/-- **every path PDST reports replays.**  Hypotheses, all about how the code *finds* states again
when it reconstructs the path (`findDurationAndAncestor` identifies states by
`distance < float epsilon`, `P.close`): `hclose` — that identification is exact (without it only an
"ε-close" replay can hold); `hrefl` — a state is close to itself (otherwise the search misses the
state it is looking for, walks on to the start motion and answers `(0, root)` unchecked); `hmin` —
`minControlDuration ≥ 1` (a zero-step non-start motion is treated like a start motion by the
search).  `hrefl`/`hmin` are additions to the statement as first requested: the conclusion is false
without them.  Then: the path starts at a valid start state, has matching lengths, and each control
applied for its whole step count reproduces the next state exactly with every intermediate state
valid — although the tree was rewritten by splits after the motions were created, and a reported
segment generally spans several motions of one split chain (its step count is the *sum* found by
`findDurationAndAncestor`).

The four hypotheses, by kind:
* `hclose : ∀ a b, P.close a b = true → a = b` and `hrefl : ∀ a, P.close a a = true` — facts about the code's
  **float-ε state lookup** (`si_->distance(a, b) < numeric_limits<float>::epsilon()`), which the model treats as
  *exact identification of states*.  This is an abstraction, named in the trusted base of checks/c02.py: two distinct
  states of the tree closer than 1.2e-7 would be confused by the code (and the reported durations could then be off);
  the lock-step and the replay oracle observe the real comparison on every explored run.
* `hmin : 1 ≤ P.minSteps` — enforced by the library (`control::SpaceInformation::setup` throws for
  `minControlDuration < 1`).
* `hrng : ∀ g hi, 1 ≤ hi → 1 ≤ (P.rngInt1 g hi).1 ∧ (P.rngInt1 g hi).1 ≤ hi` — the contract of
  `RNG::uniformInt(1, hi)` (true of the bit-exact RNG model the driver uses). -/
theorem pdst_solution_replays (P : CPDST.Problem S U α ρ)
    (hclose : ∀ a b, P.close a b = true → a = b) (hrefl : ∀ a, P.close a a = true)
    (hmin : 1 ≤ P.minSteps)
    (hrng : ∀ g hi, 1 ≤ hi → 1 ≤ (P.rngInt1 g hi).1 ∧ (P.rngInt1 g hi).1 ≤ hi) (g : ρ) (starts : List S)
    (draws : List (CPDST.Draw S U)) (p : Path S U) (h : (CPDST.solve P g starts draws).path = some p) :
    ∃ s0 rest, p.states = s0 :: rest ∧ s0 ∈ starts ∧ P.valid s0 = true ∧
      rest.length = p.controls.length ∧ p.steps.length = p.controls.length ∧
      ReplayOK P.step P.valid s0 (segs rest p.controls p.steps) := by
  obtain ⟨l, _, ha⟩ := CPDST.solve_path P g starts draws p h
  obtain ⟨s0, sl, _, rfl, h1, h2, h3, _, _⟩ := CPDST.assemble_spec P starts _ _
    (CPDST.solve_good P hrng g starts draws).1 hclose hrefl hmin l p ha
  refine ⟨s0, sl.map (·.2.2), rfl, h1, h2, by simp [ofSegs], by simp [ofSegs], ?_⟩
  simp only [ofSegs, segs_map]; exact h3

/-- **an exact PDST path ends in the goal**: the last reported state is the end state of
`lastGoalMotion_`, which satisfies the goal when the status is `exact`. -/
theorem pdst_exact_path_in_goal (P : CPDST.Problem S U α ρ)
    (hclose : ∀ a b, P.close a b = true → a = b) (hrefl : ∀ a, P.close a a = true)
    (hmin : 1 ≤ P.minSteps)
    (hrng : ∀ g hi, 1 ≤ hi → 1 ≤ (P.rngInt1 g hi).1 ∧ (P.rngInt1 g hi).1 ≤ hi) (g : ρ) (starts : List S)
    (draws : List (CPDST.Draw S U)) (p : Path S U) (h : (CPDST.solve P g starts draws).path = some p) :
    (∃ l m, (CPDST.solve P g starts draws).final.lastGoal = some l ∧
      (CPDST.solve P g starts draws).final.motions[l]? = some m ∧ p.states.getLast? = some m.stop) ∧
    ((CPDST.solve P g starts draws).status = .exact →
      ∃ last, p.states.getLast? = some last ∧ (P.goal last).1 = true) := by
  obtain ⟨l, hl, ha⟩ := CPDST.solve_path P g starts draws p h
  obtain ⟨hG, hg⟩ := CPDST.solve_good P hrng g starts draws
  obtain ⟨s0, sl, lm, rfl, _, _, _, h4, h5⟩ := CPDST.assemble_spec P starts _ _ hG hclose hrefl hmin l p ha
  have hlast : (ofSegs s0 sl).states.getLast? = some lm.stop := by rw [← h5]; exact getLast?_states s0 sl
  refine ⟨⟨l, lm, hl, h4, hlast⟩, ?_⟩
  intro hex
  obtain ⟨l', m', e1, e2, e3⟩ := hg.2 ((CPDST.solve_status P g starts draws).2.1 hex)
  rw [hl] at e1; cases Option.some.inj e1
  rw [h4] at e2; cases Option.some.inj e2
  exact ⟨lm.stop, hlast, e3.1⟩

/-- **every path PDST reports passes `PathControl::check`, before and after `interpolate`**
(same hypotheses as `pdst_solution_replays`). -/
theorem pdst_path_checks [DecidableEq S] (P : CPDST.Problem S U α ρ)
    (hclose : ∀ a b, P.close a b = true → a = b) (hrefl : ∀ a, P.close a a = true)
    (hmin : 1 ≤ P.minSteps)
    (hrng : ∀ g hi, 1 ≤ hi → 1 ≤ (P.rngInt1 g hi).1 ∧ (P.rngInt1 g hi).1 ≤ hi) (g : ρ) (starts : List S)
    (draws : List (CPDST.Draw S U)) (p : Path S U) (h : (CPDST.solve P g starts draws).path = some p) :
    p.check P.step P.valid (fun a b => decide (a = b)) = true ∧
    (p.interpolate P.step).check P.step P.valid (fun a b => decide (a = b)) = true := by
  obtain ⟨s0, rest, h1, _, h3, h4, h5, h6⟩ := pdst_solution_replays P hclose hrefl hmin hrng g starts draws p h
  refine ⟨check_complete P.step P.valid p s0 rest h1 h4 h5 h6 h3, ?_⟩
  obtain ⟨rest', e1, e2, e3, e4, _⟩ := interpolate_preserves_replay P.step P.valid p s0 rest h1 h4 h5 h6
  exact check_complete P.step P.valid _ s0 rest' e1 e2 e3 e4 h3

/-! ### later `solve()` calls on the same planner (`CPDST.resume`)

`CPDST.Reach P starts st`: `st` is the planner state after a first `solve` and any finite number of
later `solve()` calls (`resume`), `starts` the start states handed out so far.  Since fix fc68fdba5 the
closest-motion branch of the loop is guarded by `isApproximate`, so "`isApproximate = false` ⇒ the goal
holds at `lastGoalMotion_`" is preserved by every loop step outright and no assumption about the goal is
needed; `pdst_resume_exact_goal_fails` below is the witness about the code before that fix (F160). -/

/-- **every reachable PDST state is sound and a later `solve()` keeps it so**: after `resume` from a
reachable state every motion satisfies the conclusion of `pdst_segments_sound` (start set `starts ++
newStarts`), `lastGoalMotion_` points into the tree, and status `exact` means the goal holds at its end
state — in the early return (flag recomputed by `headFlags`) as well as after the fall-through, where
`isApproximate` is recomputed and not inherited. -/
theorem pdst_resume_sound (P : CPDST.Problem S U α ρ)
    (hrng : ∀ g hi, 1 ≤ hi → 1 ≤ (P.rngInt1 g hi).1 ∧ (P.rngInt1 g hi).1 ≤ hi)
    (starts : List S) (st : CPDST.St S U α ρ) (hreach : CPDST.Reach P starts st)
    (flag : Bool) (newStarts : List S) (draws2 : List (CPDST.Draw S U)) :
    let r := CPDST.resume P st flag newStarts draws2
    (∀ (i : Nat) (m : CPDST.PMotion S U α), r.final.motions[i]? = some m →
      (m.control = none ∧ m.ctl = none ∧ m.dur = 0 ∧ m.start = m.stop ∧ m.start ∈ starts ++ newStarts ∧
        P.valid m.start = true ∧ m.parent = none) ∨
      (∃ u, m.control = some u ∧ (∃ c, m.ctl = some c) ∧ (1 ≤ P.minSteps → 1 ≤ m.dur) ∧
        m.stop = propagate P.step m.start u m.dur ∧
        (∀ j, 1 ≤ j → j ≤ m.dur → P.valid (propagate P.step m.start u j) = true) ∧ P.valid m.start = true ∧
        ∃ p pm, m.parent = some p ∧ r.final.motions[p]? = some pm ∧
          ((m.ctl = pm.ctl ∧ m.start = pm.stop ∧ m.control = pm.control) ∨
           (m.ctl ≠ pm.ctl ∧ CPDST.OnChain P.step r.final.motions p m.start)))) ∧
    (∀ l, r.final.lastGoal = some l → ∃ m, r.final.motions[l]? = some m) ∧
    (r.status = .exact →
      ∃ l m, r.final.lastGoal = some l ∧ r.final.motions[l]? = some m ∧ (P.goal m.stop).1 = true) ∧
    CPDST.Reach P (starts ++ newStarts) r.final := by
  intro r
  obtain ⟨hG, hl⟩ := CPDST.reach_good P hrng starts st hreach
  obtain ⟨h1, h2, h3, _⟩ := CPDST.resume_good P starts hrng st hG hl flag newStarts draws2
  exact ⟨fun i m hm => h1.seg i m hm, h2, h3, .again flag newStarts draws2 hreach⟩

/-- **a path published by a later `solve()` replays and ends at `lastGoalMotion_`** (hypotheses of
`pdst_solution_replays`). -/
theorem pdst_resume_replays (P : CPDST.Problem S U α ρ)
    (hclose : ∀ a b, P.close a b = true → a = b) (hrefl : ∀ a, P.close a a = true)
    (hmin : 1 ≤ P.minSteps)
    (hrng : ∀ g hi, 1 ≤ hi → 1 ≤ (P.rngInt1 g hi).1 ∧ (P.rngInt1 g hi).1 ≤ hi)
    (starts : List S) (st : CPDST.St S U α ρ) (hreach : CPDST.Reach P starts st)
    (flag : Bool) (newStarts : List S) (draws2 : List (CPDST.Draw S U)) (p : Path S U)
    (h : (CPDST.resume P st flag newStarts draws2).path = some p) :
    (∃ s0 rest, p.states = s0 :: rest ∧ s0 ∈ starts ++ newStarts ∧ P.valid s0 = true ∧
      rest.length = p.controls.length ∧ p.steps.length = p.controls.length ∧
      ReplayOK P.step P.valid s0 (segs rest p.controls p.steps)) ∧
    (∃ l m, (CPDST.resume P st flag newStarts draws2).final.lastGoal = some l ∧
      (CPDST.resume P st flag newStarts draws2).final.motions[l]? = some m ∧
      p.states.getLast? = some m.stop) ∧
    ((CPDST.resume P st flag newStarts draws2).status = .exact →
      ∃ last, p.states.getLast? = some last ∧ (P.goal last).1 = true) := by
  obtain ⟨hG, hl⟩ := CPDST.reach_good P hrng starts st hreach
  obtain ⟨h1, _, h3, h4⟩ := CPDST.resume_good P starts hrng st hG hl flag newStarts draws2
  obtain ⟨l, hlg, ha⟩ := h4 p h
  obtain ⟨s0, sl, lm, rfl, a1, a2, a3, a4, a5⟩ := CPDST.assemble_spec P _ _ _ h1 hclose hrefl hmin l p ha
  have hlast : (ofSegs s0 sl).states.getLast? = some lm.stop := by rw [← a5]; exact getLast?_states s0 sl
  refine ⟨⟨s0, sl.map (·.2.2), rfl, a1, a2, by simp [ofSegs], by simp [ofSegs], ?_⟩, ⟨l, lm, hlg, a4, hlast⟩, ?_⟩
  · simp only [ofSegs, segs_map]; exact a3
  · intro hex
    obtain ⟨l', m', e1, e2, e3⟩ := h3 hex
    rw [hlg] at e1; cases Option.some.inj e1
    rw [a4] at e2; cases Option.some.inj e2
    exact ⟨lm.stop, hlast, e3⟩

/-- **the early return, and re-publication after the problem definition was cleared** (fix
2f8c24625): with an exact `lastGoalMotion_`, a later `solve()` returns `EXACT_SOLUTION` at once —
adding no path and leaving the planner untouched — only while the problem definition still holds an
exact solution; if it does not, the same call (no new starts, no iteration) publishes the path to
`lastGoalMotion_` again with status exact. -/
theorem pdst_resume_early_return (P : CPDST.Problem S U α ρ) (st : CPDST.St S U α ρ) (l : Nat)
    (m : CPDST.PMotion S U α) (hl : st.lastGoal = some l) (hm : st.motions[l]? = some m)
    (hg : (P.goal m.stop).1 = true) (newStarts : List S) (draws2 : List (CPDST.Draw S U)) :
    ((CPDST.resume P st true newStarts draws2).path = none ∧
      (CPDST.resume P st true newStarts draws2).status = .exact ∧
      (CPDST.resume P st true newStarts draws2).final = st) ∧
    ((CPDST.resume P st false [] []).path = CPDST.assemble P st.motions l ∧
      (CPDST.resume P st false [] []).status = .exact) :=
  CPDST.resume_early P st l m hl hm hg newStarts draws2

/-- **`init` and `addStart` agree on a fresh planner**: on the single-leaf BSP `stab` answers the
root cell, so entering the start motions through the leaf lookup (fix eb25d2355) is what the first
`solve` always did. -/
theorem pdst_init_is_addStart (P : CPDST.Problem S U α ρ) (g : ρ) (starts : List S) :
    CPDST.init P g starts = (starts.filter P.valid).foldl (CPDST.addStart P)
      { motions := #[], cells := #[{ volume := Num.ofNat 1, splitDim := 0, splitValue := Num.ofNat 0, kids := none, lo := P.lo, hi := P.hi, motions := [] }], heap := {}, rng := g, iteration := 1, nextCtl := 0, lastGoal := none, closest := P.inf, isApprox := true } :=
  CPDST.init_eq_addStart P g starts

/-- a fixed-point toy `Num Int` (scale 10, so that the `0.5` of `Cell::subdivide` exists) for kernel
evaluation of the arithmetic-free control flow — not a model of `double` -/
@[reducible] def numFix : Num Int where
  add := (· + ·)
  sub := (· - ·)
  mul a b := a * b / 10
  div a b := a * 10 / b
  neg := (- ·)
  lt := (· < ·)
  le := (· ≤ ·)
  ofNat n := 10 * Int.ofNat n
  ofDec m e := 10 * Int.ofNat m / Int.ofNat (10 ^ e)
  pi := 31
  abs x := Int.ofNat x.natAbs
  sqrt x := x
  sin _ := 0
  cos _ := 10
  acos _ := 0
  atan2 _ _ := 0
  floor x := x / 10 * 10
  ceil x := x
  fmod x y := x.tmod y
  decLt a b := Int.decLt a b
  decLe a b := Int.decLe a b
  toInt x := x / 10
  ofInt i := 10 * i

end CPDST

/-- integrator on `Nat`, valid below 16, goal 13, projection = identity, bounds `[0, 16]` -/
def pdN : @CPDST.Problem Nat Nat Int Nat :=
  { step := stepN, valid := fun s => decide (s < 16), dist := fun a b => 10 * Int.ofNat (distN a b),
    close := fun a b => decide (a = b), inf := 10000,
    goal := fun s => (decide (s = 13), 10 * Int.ofNat (distN s 13)), goalSample := 13,
    goalSampleable := false, canSample := false, goalBias := 0, minSteps := 1,
    project := fun s => #[10 * Int.ofNat s], ndim := 1, lo := #[0], hi := #[160],
    rng01 := fun g => (0, g + 1), rngInt1 := fun g hi => (g % hi + 1, g + 1) }

def pdScript : List (CPDST.Draw Nat Nat) :=
  [{ sample := 4, ctl := [(1, 4)] }, { sample := 12, ctl := [(2, 6)] }, { sample := 13, ctl := [(1, 3)] }]

def pdRes (n : Nat) : CPDST.Result Nat Nat Int Nat := @CPDST.solve Nat Nat Int Nat numFix pdN 0 [0] (pdScript.take n)

/-- non-vacuity (kernel evaluation): after two draws the motion `0 → 12` (control 2, 6 steps) has been
cut twice — tail `8 → 12` (index 2, parent 3), heads `4 → 8` (index 3, parent 4) and `0 → 4` (index 4,
parent the root), all with `ctl = 1`; the third draw starts at state 10, *inside* the tail, reaches the
goal 13, and the reported path is `0 -[2, 5 steps]-> 10 -[1, 3 steps]-> 13`. -/
example :
    (pdRes 2).final.motions.toList.map (fun m => (m.start, m.stop, m.dur)) =
      [(0, 0, 0), (0, 4, 4), (8, 12, 2), (4, 8, 2), (0, 4, 2)] ∧
    (pdRes 2).final.motions.toList.map (fun m => (m.parent, m.ctl, m.isSplit)) =
      [(none, none, false), (some 0, some 0, false), (some 3, some 1, false), (some 4, some 1, true),
       (some 0, some 1, true)] ∧
    (pdRes 3).status = .exact ∧
    (pdRes 3).path.map (fun p => (p.states, p.controls, p.steps)) = some ([0, 10, 13], [2, 1], [5, 3]) ∧
    (pdRes 3).final.lastGoal = some 5 := by decide +kernel

/-- `hrng` holds for the toy generator -/
theorem pdN_hrng : ∀ g hi, 1 ≤ hi → 1 ≤ (pdN.rngInt1 g hi).1 ∧ (pdN.rngInt1 g hi).1 ≤ hi := by
  intro g hi h
  show 1 ≤ g % hi + 1 ∧ g % hi + 1 ≤ hi
  have := Nat.mod_lt g h
  omega

example := @pdst_segments_sound Nat Nat Int Nat numFix pdN pdN_hrng 0 [0] pdScript
example := @pdst_exact_goal Nat Nat Int Nat numFix pdN pdN_hrng 0 [0] pdScript
example := @pdst_solution_replays Nat Nat Int Nat numFix pdN (fun a b h => by simpa [pdN] using h)
  (fun a => by simp [pdN]) (Nat.le_refl 1) pdN_hrng 0 [0] pdScript
example := @pdst_exact_path_in_goal Nat Nat Int Nat numFix pdN (fun a b h => by simpa [pdN] using h)
  (fun a => by simp [pdN]) (Nat.le_refl 1) pdN_hrng 0 [0] pdScript
example := @pdst_status Nat Nat Int Nat numFix pdN 0 [0] pdScript


/-- non-vacuity for the later `solve()` calls: on the exact final state of the toy run, the early
return publishes nothing; with the problem definition cleared the same path is published again; and a
resumed run with a new start state and one more draw keeps everything sound. -/
example :
    (@CPDST.resume Nat Nat Int Nat numFix pdN (pdRes 3).final true [] []).path.isNone = true ∧
    (@CPDST.resume Nat Nat Int Nat numFix pdN (pdRes 3).final true [] []).status = .exact ∧
    (@CPDST.resume Nat Nat Int Nat numFix pdN (pdRes 3).final false [] []).path.map
      (fun p => (p.states, p.controls, p.steps)) = some ([0, 10, 13], [2, 1], [5, 3]) ∧
    (@CPDST.resume Nat Nat Int Nat numFix pdN (pdRes 3).final false [2] [{ sample := 5, ctl := [(1, 2)] }]).final.motions.size = 9 := by
  decide +kernel

theorem pdN_hgoal : ∀ a b, (pdN.goal a).1 = true → (pdN.goal b).1 = false →
    ¬ (@LT.lt Int numFix.toLT (pdN.goal b).2 (pdN.goal a).2) := by
  intro a b ha hb
  have ha' : a = 13 := by simpa [pdN] using ha
  subst ha'
  show ¬ ((10 : Int) * Int.ofNat (distN b 13) < 10 * Int.ofNat (distN 13 13))
  have h0 : distN 13 13 = 0 := by decide
  rw [h0]
  have : (0 : Int) ≤ Int.ofNat (distN b 13) := Int.natCast_nonneg _
  simp only [Int.ofNat_eq_natCast] at this ⊢
  omega

example := @pdst_resume_sound Nat Nat Int Nat numFix pdN pdN_hrng [0] (pdRes 3).final
  (@CPDST.Reach.first Nat Nat Int Nat numFix pdN 0 [0] (pdScript.take 3)) false [2] [{ sample := 5, ctl := [(1, 2)] }]

example := @pdst_init_is_addStart Nat Nat Int Nat numFix pdN 0 [0, 20, 3]
example := @pdst_resume_early_return Nat Nat Int Nat numFix pdN

/-! ### F160: before fix fc68fdba5 a resumed PDST could flag a non-goal path as exact

`CPDST.resumeOld` / `runOld` / `iterOld` are the code before the fix (the closest-motion branch
unguarded).  `hgoalOld` is the assumption under which the former code was still correct. -/

/-- `pdN` with a goal that is satisfied only at state 13 while its reported distance is measured to
state 14: a non-satisfying state (14) is strictly closer than the satisfying one -/
def pdW : @CPDST.Problem Nat Nat Int Nat :=
  { pdN with goal := fun s => (decide (s = 13), 10 * Int.ofNat (distN s 14)) }

def pdW0 : CPDST.Result Nat Nat Int Nat := @CPDST.solve Nat Nat Int Nat numFix pdW 0 [0] pdScript

/-- the later `solve()` with the FORMER code … -/
def pdW1 : CPDST.Result Nat Nat Int Nat :=
  @CPDST.resumeOld Nat Nat Int Nat numFix pdW pdW0.final false [] [{ sample := 12, ctl := [(1, 2)] }]

/-- … and with the current code, same state, same script -/
def pdW2 : CPDST.Result Nat Nat Int Nat :=
  @CPDST.resume Nat Nat Int Nat numFix pdW pdW0.final false [] [{ sample := 12, ctl := [(1, 2)] }]

/-- this toy violates the goal-consistency assumption (a satisfying state is never strictly farther
than a non-satisfying one) under which the former code was correct -/
example : ¬ (∀ a b, (pdW.goal a).1 = true → (pdW.goal b).1 = false →
    ¬ (@LT.lt Int numFix.toLT (pdW.goal b).2 (pdW.goal a).2)) := by
  intro h
  exact h 13 14 (by decide) (by decide) (by decide)

/-- **F160 (witness about the code before fix fc68fdba5, kernel evaluation).**  The first `solve`
reaches the goal exactly (motion 5, end state 13).  The problem definition is then cleared
(`pdefHasExact = false`) and `solve()` is called again with one more iteration: its new motion
`12 → 14` does NOT satisfy the goal but is closer by the goal's own distance, so with the former code
it replaces `lastGoalMotion_` while `isApproximate` stays `false` — the run reports status `exact`,
`lastGoalMotion_` is a non-goal motion, and the published path `0 → 10 → 12 → 14` ends in a state that
does not satisfy the goal.  With the current code (`pdW2`) the same call keeps `lastGoalMotion_ = 5`
and publishes `0 → 10 → 13`, which ends in the goal — as `pdst_resume_sound` proves for every run. -/
theorem pdst_resume_exact_goal_fails :
    pdW0.status = .exact ∧ pdW0.final.lastGoal = some 5 ∧
    pdW1.status = .exact ∧ pdW1.final.isApprox = false ∧
    (∃ l m, pdW1.final.lastGoal = some l ∧ pdW1.final.motions[l]? = some m ∧ (pdW.goal m.stop).1 = false) ∧
    pdW1.path.map (fun p => (p.states, p.controls, p.steps)) = some ([0, 10, 12, 14], [2, 1, 1], [5, 2, 2]) ∧
    (pdW.goal 14).1 = false ∧
    -- the current code on the same state and script
    pdW2.status = .exact ∧ pdW2.final.lastGoal = some 5 ∧
    pdW2.path.map (fun p => (p.states, p.controls, p.steps)) = some ([0, 10, 13], [2, 1], [5, 3]) ∧
    (pdW.goal 13).1 = true := by
  have h6 : pdW1.final.lastGoal = some 6 := by decide +kernel
  have hm : (pdW1.final.motions[6]?).map (fun m => (m.start, m.stop)) = some (12, 14) := by decide +kernel
  refine ⟨by decide +kernel, by decide +kernel, by decide +kernel, by decide +kernel, ?_, by decide +kernel,
    by decide, by decide +kernel, by decide +kernel, by decide +kernel, by decide⟩
  cases hq : pdW1.final.motions[6]? with
  | none => rw [hq] at hm; cases hm
  | some m =>
    rw [hq] at hm
    have hs : m.stop = 14 := by
      have := Option.some.inj hm
      exact (Prod.mk.inj this).2
    exact ⟨6, m, h6, hq, by rw [hs]; decide⟩

/-- so the exact clause fails on the former code's run -/
example : ¬ (pdW1.status = .exact →
    ∃ l m, pdW1.final.lastGoal = some l ∧ pdW1.final.motions[l]? = some m ∧ (pdW.goal m.stop).1 = true) := by
  intro h
  obtain ⟨l, m, a, b, c⟩ := h pdst_resume_exact_goal_fails.2.2.1
  obtain ⟨l', m', a', b', c'⟩ := pdst_resume_exact_goal_fails.2.2.2.2.1
  rw [a] at a'; cases Option.some.inj a'
  rw [b] at b'; cases Option.some.inj b'
  rw [c] at c'; cases c'

/-- and `pdst_resume_sound` applies to the current code's run on the same toy (no goal assumption) -/
example := @pdst_resume_sound Nat Nat Int Nat numFix pdW pdN_hrng [0] pdW0.final
  (@CPDST.Reach.first Nat Nat Int Nat numFix pdW 0 [0] pdScript) false [] [{ sample := 12, ctl := [(1, 2)] }]

/-! ## control samplers under reconfiguration, re-entrancy of propagateWhileValid  (`Model/ControlReconf.lean`)

A sampler object (a planner's `controlSampler_`, the inner `cs_` of a `SimpleDirectedControlSampler`) outlives
`setBounds` / `setMinMaxControlDuration` / `setPropagationStepSize` calls on the objects it samples from.  The property
clause "every control lies within the control-space bounds" is about the bounds the space has when the planner runs and
reports, so it needs: **a draw depends on the configuration at draw time** — for every history. -/

section reconf
open OmplModel.ControlReconf

/-- **every draw of every history lies within the CURRENT configuration** (arithmetic-free).  `P.drawCtl` /
`P.drawSteps` are arbitrary functions meeting the contracts `DrawOK` (a draw lies within the bounds it is handed; a step
count within the range it is handed); the history is any list of setters (with arguments the library accepts),
re-allocations, `sample`, `sampleStepCount` and `sampleTo` calls on ONE sampler object.  The output of operation `i`
meets `OutOK` for `confAfter st.conf (ops.take i)` — the configuration produced by the setters before it, computed
independently of the machine: a sampled control is within the current bounds; a step count within the requested range;
`sampleTo` returns a control within the current bounds, at most the current `maxControlDuration` steps, the exact
all-valid propagation of the source under the current step size; `steerTo` (`SteeredControlSampler::sampleTo`) returns the
steering function's control, at most `toSteps duration (current step size)` steps (fewer only when the next step is
invalid), again the exact all-valid propagation under the current step size — its control is the USER's steering
function's, and its step count is not clamped to `[min, max]ControlDuration` (as coded; the planners test `≥ min`). -/
theorem reconf_draws_in_current_bounds {α ρ S δ : Type} (le : α → α → Prop) (P : Params α ρ S δ) (hd : DrawOK le P)
    (st : St α ρ) (ops : List (Op α ρ S)) (hc : ConfOK le st.conf) (ho : ∀ op ∈ ops, OpOK le op)
    (i : Nat) (op : Op α ρ S) (hi : ops[i]? = some op) :
    ∃ out, (run P false st ops)[i]? = some out ∧ OutOK le P (confAfter st.conf (ops.take i)) op out :=
  run_ok le P hd st ops hc ho i op hi

/-- toy instance for the examples: the generator is a counter, a draw returns the upper bound plus nothing random -/
def reconfP : Params Nat Nat Nat Nat :=
  { drawCtl := fun b g => (match b with | .real _ hi => .real hi | .disc _ hi => .disc hi, g + 1),
    drawSteps := fun _ b g => (b, g + 1),
    step := fun dt s u => match u with | .disc v => s + dt * v.toNat | .real _ => s,
    valid := fun s => decide (s < 100), dist := distN, lt := ltN, k := 2 }

def reconfSt : St Nat Nat := { conf := { cb := .disc 0 7, minSteps := 1, maxSteps := 3, dt := 1 }, gen := 0, cache := .disc 0 7 }

/-- the toy draw functions meet the contracts (the hypothesis `DrawOK` of the history theorem is satisfiable) -/
example : DrawOK (· ≤ ·) reconfP := by
  refine ⟨?_, ?_⟩
  · intro b g hb
    cases b with
    | real lo hi =>
      refine ⟨hb.1, ?_⟩
      intro i l h x hl hh hx
      have : h = x := by
        have : hi[i]? = some x := hx
        rw [hh] at this; exact Option.some.inj this
      subst this
      exact ⟨hb.2 i l h hl hh, Nat.le_refl _⟩
    | disc lo hi => exact ⟨hb, Int.le_refl _⟩
  · intro a b g h
    exact ⟨h, Nat.le_refl _⟩

def showOut : Out Nat Nat → Option (Int × Nat × Nat)
  | .ctl (.disc v) => some (v, 0, 0)
  | .steps k => some (0, k, 0)
  | .to (some (.disc v, n, s)) => some (v, n, s)
  | _ => none

/-- non-vacuity: narrow the discrete range, shorten the durations, double the step size between draws of one sampler -/
example : (run reconfP false reconfSt
    [.sample, .setBounds (.disc 0 3), .sample, .sampleTo 0 50, .setMinMax 1 2, .setStep 2, .sampleTo 0 50]).map showOut =
    [some (7, 0, 0), none, some (3, 0, 0), some (3, 3, 9), none, none, some (3, 2, 12)] := by decide

/-- non-vacuity of the `steerTo` clause (`SteeredControlSampler`): the steering function asks for a duration of 6; with step size
1 that is 6 steps, after `setPropagationStepSize(2)` the same sampler object takes 3 steps — the state reached is the same -/
example : (run { reconfP with steer := fun a b => if a < b then some (.disc 1, b - a) else none, toSteps := fun d dt => d / dt }
    false reconfSt [.steerTo 0 6, .setStep 2, .steerTo 0 6, .steerTo 6 6]).map showOut =
    [some (1, 6, 6), none, some (1, 3, 6), none] := by decide

/-- **the sampler that copies the bounds when it is allocated violates the clause** (`cached = true`; the as-coded machine
on the same history does not): allocated for the range `[0, 7]`, the space is narrowed to `[0, 3]`, the next draw is `7`. -/
theorem reconf_cached_sampler_fails :
    (run reconfP true reconfSt [.setBounds (.disc 0 3), .sample])[1]? = some (.ctl (.disc 7)) ∧
    ¬ InB (· ≤ ·) (confAfter reconfSt.conf (([.setBounds (.disc 0 3), .sample] : List (Op Nat Nat Nat)).take 1)).cb
        (.disc 7 : Ctl Nat) ∧
    (run reconfP false reconfSt [.setBounds (.disc 0 3), .sample])[1]? = some (.ctl (.disc 3)) ∧
    InB (· ≤ ·) (CBounds.disc 0 3 : CBounds Nat) (.disc 3 : Ctl Nat) := by
  refine ⟨by decide, ?_, by decide, ?_⟩
  · show ¬ ((0 : Int) ≤ 7 ∧ (7 : Int) ≤ 3)
    omega
  · show (0 : Int) ≤ 3 ∧ (3 : Int) ≤ 3
    omega

open OmplModel.ControlReal in
/-- **the library's two samplers meet the contracts at exact real arithmetic** [EX]: with raw generator outputs in
`[0, 1)`, `RealVectorControlUniformSampler::sample` / `DiscreteControlSampler::sample` (`sampleCtl`) and
`sampleStepCount` (`sampleSteps`) satisfy `DrawOK`; hence, by `reconf_draws_in_current_bounds`, every draw of every
reconfiguration history of a sampler, and every control a `SimpleDirectedControlSampler` returns, lies within the bounds
the control space has at that moment.  (IEEE rounding of `(hi - lo) * r + lo` is executed by the lock-step, not verified.) -/
theorem reconf_sampler_inbounds {ρ S δ : Type} (raw : ρ → ℝ × ρ) (hraw : ∀ g, 0 ≤ (raw g).1 ∧ (raw g).1 < 1)
    (step : ℝ → S → Ctl ℝ → S) (valid : S → Bool) (dist : S → S → δ) (lt : δ → δ → Bool) (k : Nat)
    (st : St ℝ ρ) (ops : List (Op ℝ ρ S)) (hc : ConfOK (· ≤ ·) st.conf) (ho : ∀ op ∈ ops, OpOK (· ≤ ·) op)
    (i : Nat) (op : Op ℝ ρ S) (hi : ops[i]? = some op) :
    let P : Params ℝ ρ S δ :=
      { drawCtl := @sampleCtl ℝ ρ numReal raw, drawSteps := @sampleSteps ℝ ρ numReal raw, step, valid, dist, lt, k }
    ∃ out, (run P false st ops)[i]? = some out ∧ OutOK (· ≤ ·) P (confAfter st.conf (ops.take i)) op out := by
  intro P
  exact run_ok (· ≤ ·) P ⟨fun b g hb => sampleCtl_inB raw hraw b g hb, fun a b g h => sampleSteps_range raw hraw a b g h⟩
    st ops hc ho i op hi

example : ∃ r : ℝ, 0 ≤ r ∧ r < 1 := ⟨0, le_refl _, by norm_num⟩

/-- **propagateWhileValid is re-entrant**: whatever the validity callback does in its own world `σ` between the steps —
e.g. run complete further propagations on the same `SpaceInformation` — the call returns what it returns alone, as
long as the callback's verdicts are those of `valid`. -/
theorem pwv_reentrant {σ : Type} (step : S → U → S) (valid : S → Bool) (cb : σ → S → Bool × σ)
    (hcb : ∀ w s, (cb w s).1 = valid s) (s : S) (u : U) (n : Nat) (w : σ) :
    (pwvM step cb s u n w).1 = pwv step valid s u n :=
  pwvM_pure step valid cb hcb s u n w

/-- **a nested complete call inside validity query `k`: both results are those of each call alone**, the callback was
queried exactly `min (r + 1) steps` times (`r` = the outer result), and the nested call ran iff the outer call made a
`k`-th query. -/
theorem pwv_nested_both_alone (step : S → U → S) (valid : S → Bool) (k : Nat) (s2 : S) (u2 : U) (n2 : Nat)
    (s : S) (u : U) (n : Nat) :
    pwvM step (nestCb step valid k s2 u2 n2) s u n (0, none) =
      (pwv step valid s u n,
       (min ((pwv step valid s u n).1 + 1) n,
        if k < min ((pwv step valid s u n).1 + 1) n then some (pwv step valid s2 u2 n2) else none)) :=
  pwvM_nestX step valid k (pwv step valid s2 u2 n2) s u n

example : pwvM stepN (nestCb stepN validN 1 0 3 5) 0 2 4 (0, none) = ((4, 8), (4, some (3, 9))) := by decide
example : pwvM stepN (nestCb stepN validN 3 0 3 5) 0 4 4 (0, none) = ((2, 8), (3, none)) := by decide

/-- **the variant with ONE scratch state kept in the shared object is not re-entrant**: the callback (a nested
propagation on the same object) overwrites the scratch that holds the outer call's last valid state; the outer call
then continues from, and returns, a state its control never led to.  World = the scratch; the callback always answers
`true` and leaves `100` in the scratch. -/
theorem pwvShared_fails :
    pwvShared stepN (fun (_ : Nat) (_ : Nat) => (true, 100)) (fun w => w) (fun _ x => x) 0 1 3 0 = ((3, 101), 100) ∧
    pwv stepN (fun _ => true) 0 1 3 = (3, 3) ∧
    (pwvM stepN (fun (_ : Nat) (_ : Nat) => (true, 100)) 0 1 3 0).1 = (3, 3) := by
  refine ⟨by decide, by decide, by decide⟩

end reconf

end OmplModel.Props.C02
