import OmplModel.Proofs.NNLinear
import OmplModel.Proofs.NNGnat
import OmplModel.Proofs.NNGnatExact
import OmplModel.Proofs.NNGnatOps
import OmplModel.Proofs.NNGnatRefine
import OmplModel.Proofs.NNKCenters
import Mathlib.Algebra.Order.Ring.Int
/-!
C10 — nearest-neighbour structures answer exactly like exhaustive search.

Property theorems only (helpers: `Proofs/NNLinear.lean`, `NNGnat.lean`, `NNGnatQuery.lean`, `NNGnatExact.lean`,
`NNGnatOps.lean`, `NNGnatSplit.lean`, `NNGnatRefine.lean`).  Everything is proved; nothing is `_partial`.

* Linear (`linear_exact`, `linear_nearestK_dists`, `linear_size_list_abs`, `linear_remove_result`),
  SqrtApprox (`sqrt_member`, `sqrt_size_list_abs`);
* GNAT queries: `nearestK_exact`, `nearestR_exact`, `nearest_exact` — `GnatInv` (the executable `Node.inv`
  evaluated on every dump of the real tree) implies that the model's query code returns exactly the
  brute-force answer, for every metric on a linearly ordered commutative ring and **every** child
  visiting order; the fuel of the model's loops always suffices (`gnat_child_orders_are_permutations`:
  the two variants' orders are admitted);
* GNAT operations (`Model/NNGnatOps.lean`, compared in lock-step with the real code on every run):
  `kcenters_relation` (greedy k-centers, every first centre), `split_establishes_inv`, `add_preserves_inv`,
  `remove_preserves_inv` (pivot test and rebuild included), `rebuild_abs`, the refinement
  `gnat_size_list_abs` (every operation history, every draw sequence) and its corollary
  `gnat_history_queries_exact` (after any history every query equals brute force over the abstract
  multiset), `gnat_variants_agree` (the two GNAT variants give the same sizes, contents and distance lists);
* `query_result_independent_of_previous_contents`: the public wrappers as coded (clear / assign, guards, fill) leave
  exactly the answer in the caller's reused result vector, whatever it held before;
* `default_nn_exact_only_if_metric`: `SelfConfig::getDefaultNearestNeighbors` hands out a GNAT variant only
  to spaces that claim to be metric, `NearestNeighborsSqrtApprox` (no metric law needed) otherwise.

Hypotheses of the operation theorems, all satisfied by the driver's instances (`sampleCtx_ok`):
`CtxOK` (`minDegree_, maxDegree_, degree_ >= 1` — established by the constructor for EVERY argument vector since /repo
77efe5ce5, `gnat_ctor_establishes_inv`; the constructor before that repair is `Gnat.initOld`, for which `minDegree_ = 0`
makes `split` call `kcenters` with `k = 0`: `min_degree_zero_fails`, F400 —, the first centre is a valid index,
`dist x x = 0 <= dist x y`, `0 < eps`),
and for `remove` a genuine metric (`MetricOK`: symmetry, triangle inequality, `dist a b = 0 ↔ a = b`).
-/
namespace OmplModel.NN

variable {α D : Type}

/-! ## Linear -/

/-- `NearestNeighborsLinear`: `nearestK`, `nearestR` and `nearest` answer exactly like exhaustive
search over the stored list: sorted, the `k` smallest as a sub-multiset / exactly the elements
within the radius / a first minimum that is a stored element. -/
theorem linear_exact [LinearOrder D] (dist : α → α → D) (q : α) (k : Nat) (rad : D) (data : List α) :
    IsKNearest (fun x => dist x q) k data (linNearestK dist q k data) ∧
    IsRNearest (fun x => dist x q) rad data (linNearestR dist q rad data) ∧
    ScanInv (fun x => dist x q) (linNearest dist q data) data :=
  ⟨bruteK_spec _ k data, bruteR_spec _ rad data, linNearest_spec dist q data⟩

example : (linNearestK (fun (a b : Int) => (a - b).natAbs) 5 2 [9, 4, 7, 6]).length = 2 :=
  (linear_exact (fun (a b : Int) => (a - b).natAbs) 5 2 0 [9, 4, 7, 6]).1.2.1
example : (linNearest (fun (a b : Int) => (a - b).natAbs) 5 [9, 4, 7, 6]).map (·.1) = some 4 := by decide

/-- the distance list of the answer is the sorted distance list of the contents cut at `k`
(this is literally what the Python oracle compares against). -/
theorem linear_nearestK_dists [LinearOrder D] (dist : α → α → D) (q : α) (k : Nat) (data : List α) :
    (linNearestK dist q k data).map (fun x => dist x q) =
      ((data.map (fun x => dist x q)).mergeSort (fun a b => decide (a ≤ b))).take k :=
  bruteK_dists _ k data

example : ((linNearestK (fun (a b : Int) => (a - b).natAbs) 5 3 [9, 4, 7, 6, 4]).map (fun x => (x - 5).natAbs)).length = 3 := by
  have h := linear_nearestK_dists (fun (a b : Int) => (a - b).natAbs) 5 3 [9, 4, 7, 6, 4]
  rw [h]; simp

/-- after any sequence of add / add(vector) / remove / clear, the stored list is a permutation of
the multiset it should hold, and `size()` is its cardinality. -/
theorem linear_size_list_abs [BEq α] [LawfulBEq α] (ops : List (Op α)) :
    (linRun ops).Perm (specRun ops) ∧ (linRun ops).length = (specRun ops).length :=
  have h := lin_foldl_perm ops [] [] (List.Perm.refl _)
  ⟨h, h.length_eq⟩

example : linRun [Op.add 3, .addv [1, 3], .remove 3, .remove 7] = [3, 1] := by decide

/-- `remove` reports `true` exactly when the element is currently held. -/
theorem linear_remove_result [BEq α] [LawfulBEq α] (x : α) (data : List α) :
    (removeLast x data).isSome = true ↔ x ∈ data :=
  removeLast_isSome_iff x data

/-! ## SqrtApprox -/

/-- `NearestNeighborsSqrtApprox`: its stored list is the Linear one for every operation sequence
(so `size`, `list`, `nearestK`, `nearestR` are Linear's, hence exact by `linear_exact`), and
`nearest` returns a current member whenever the structure is non-empty, leaving the contents
untouched. -/
theorem sqrt_member [BEq α] [LawfulBEq α] [LT D] [DecidableLT D] (dist : α → α → D) (q : α) (ops : List (Op α)) :
    let s := Sqrt.run ops
    s.data = linRun ops ∧
    (∀ b ∈ (s.nearest dist q).1, b.1 ∈ s.data) ∧
    (s.data ≠ [] → ((s.nearest dist q).1).isSome = true) ∧
    (s.nearest dist q).2.data = s.data := by
  intro s
  have hdata : s.data = linRun ops := sqrt_foldl_data ops {}
  have hchk : s.checks = 0 → s.data = [] := sqrt_foldl_checks ops {} (fun _ => rfl)
  refine ⟨hdata, ?_, ?_, ?_⟩
  · intro b hb
    unfold Sqrt.nearest at hb
    split at hb
    · exact sqrtProbe_mem dist q s b hb
    · simp at hb
  · intro hne
    have hc : 0 < s.checks := Nat.pos_of_ne_zero (fun h => hne (hchk h))
    have hn : 0 < s.data.length := List.length_pos_iff.mpr hne
    unfold Sqrt.nearest
    rw [if_pos ⟨hc, hn⟩]
    exact sqrtProbe_isSome dist q s hc hn
  · unfold Sqrt.nearest
    split <;> rfl

example : ((Sqrt.run [Op.addv [10, 20]]).nearest (fun (a b : Int) => (a - b).natAbs) 41).1.isSome = true := by
  have h := sqrt_member (fun (a b : Int) => (a - b).natAbs) 41 [Op.addv [10, 20]]
  exact h.2.2.1 (by rw [h.1]; decide)

theorem sqrt_size_list_abs [BEq α] [LawfulBEq α] (ops : List (Op α)) :
    (Sqrt.run ops).data.Perm (specRun ops) ∧ (Sqrt.run ops).data.length = (specRun ops).length := by
  have h : (Sqrt.run ops).data = linRun ops := sqrt_foldl_data ops {}
  rw [h]
  exact linear_size_list_abs ops

/-! ## GNAT queries -/

section Gnat
variable [CommRing D] [LinearOrder D] [IsStrictOrderedRing D]

/-- every child order the two variants can use is admitted by the theorems below. -/
theorem gnat_child_orders_are_permutations (rotate : Bool) (sz off : Nat) :
    (childOrder rotate sz off).Perm (List.range sz) ∧ (rotation sz off).Perm (List.range sz) :=
  ⟨childOrder_perm rotate sz off, rotation_perm sz off⟩

example : rotation 4 6 = [2, 3, 0, 1] := by decide

/-- **`nearestK` is exact.**  For every metric (symmetric, triangle inequality, `dist a a = 0`) on a
linearly ordered commutative ring, every tree satisfying the executable invariant `Node.inv`
(= `GnatInv`), every query, `k`, `eps`, and **every** child visiting order `ord` (any function giving a
permutation of the children per node visit — the rotating `offset_` and any shuffle are instances),
the model's `nearestK` (the code of `nearestKInternal` + `Node::nearestK` + `insertNeighborK` +
`postprocessNearest`) returns a list of stored non-removed copies that is sorted by distance, has
length `min k (#live)`, contains no stored copy more often than it is held (`answer ++ rest` is a
permutation of the live copies), and leaves out only copies at least as far as every returned one;
the distances reported with the answer are the true ones, and the traversal never runs out of fuel. -/
theorem nearestK_exact [BEq α] [LawfulBEq α] {dist : α → α → D} (hm : IsMetric dist)
    (hself : ∀ a, dist a a = 0) (g : Gnat α D) (hg : g.WF dist) (q : α) (k : Nat) (eps : D)
    {ord : Nat → Nat → List Nat} (hord : ∀ sz off, (ord sz off).Perm (List.range sz)) :
    IsKNearest (fun e => dist q e.val) k g.list ((g.nearestK dist eps ord q k).1.map Prod.snd) ∧
    (∀ x ∈ (g.nearestK dist eps ord q k).1, x.1 = dist q x.2.val) ∧
    (g.nearestK dist eps ord q k).2.2 = false := by
  have hempty : ∀ l : List (Elem α), (k = 0 ∨ l.length = 0) →
      IsKNearest (fun e => dist q e.val) k l (([] : List (D × Elem α)).map Prod.snd) := by
    intro l h
    refine ⟨List.Pairwise.nil, ?_, l, by simp, by simp⟩
    rcases h with h | h <;> simp [h]
  unfold Gnat.nearestK Gnat.list
  unfold Gnat.WF at hg
  by_cases hk : k = 0
  · rw [if_pos hk]
    exact ⟨hempty _ (Or.inl hk), by simp, rfl⟩
  · rw [if_neg hk]
    cases ht : g.tree with
    | none =>
      simp only [ht] at hg ⊢
      rw [if_pos hg]
      exact ⟨hempty _ (Or.inr rfl), by simp, rfl⟩
    | some t =>
      simp only [ht] at hg ⊢
      by_cases hs : g.size = 0
      · rw [if_pos hs]
        exact ⟨hempty _ (Or.inr (by rw [← hg.2, hs])), by simp, rfl⟩
      · rw [if_neg hs]
        obtain ⟨h1, h2, h3⟩ := nearestKInternal_exact hm hself g.removed t hg.1 q k eps hord g.offset
        refine ⟨h2, ?_, h1⟩
        intro x hx
        exact h3 x (List.mem_reverse.mp hx)

/-- **`nearestR` is exact**: sorted by distance and, as a multiset of stored copies, exactly the
non-removed copies within the radius (none twice, none missing) — for every child order. -/
theorem nearestR_exact {dist : α → α → D} (hm : IsMetric dist)
    (g : Gnat α D) (hg : g.WF dist) (q : α) (r : D)
    {ord : Nat → Nat → List Nat} (hord : ∀ sz off, (ord sz off).Perm (List.range sz)) :
    IsRNearest (fun e => dist q e.val) r g.list ((g.nearestR dist ord q r).1.map Prod.snd) ∧
    (∀ x ∈ (g.nearestR dist ord q r).1, x.1 = dist q x.2.val) ∧
    (g.nearestR dist ord q r).2.2 = false := by
  have hempty : ∀ l : List (Elem α), l.length = 0 →
      IsRNearest (fun e => dist q e.val) r l (([] : List (D × Elem α)).map Prod.snd) := by
    intro l h
    have : l = [] := List.length_eq_zero_iff.mp h
    subst this
    exact ⟨List.Pairwise.nil, by simp⟩
  unfold Gnat.nearestR Gnat.list
  unfold Gnat.WF at hg
  cases ht : g.tree with
  | none =>
    simp only [ht] at hg ⊢
    rw [if_pos hg]
    exact ⟨hempty _ rfl, by simp, rfl⟩
  | some t =>
    simp only [ht] at hg ⊢
    by_cases hs : g.size = 0
    · rw [if_pos hs]
      exact ⟨hempty _ (by rw [← hg.2, hs]), by simp, rfl⟩
    · rw [if_neg hs]
      obtain ⟨h1, h2, h3⟩ := nearestRInternal_exact hm g.removed t hg.1 q r hord g.offset
      refine ⟨h2, ?_, h1⟩
      intro x hx
      exact h3 x (List.mem_reverse.mp hx)

/-- **`nearest` is exact**: on a non-empty structure it returns a non-removed stored copy at the
minimum distance (the exception `none` exactly when nothing is held). -/
theorem nearest_exact [BEq α] [LawfulBEq α] {dist : α → α → D} (hm : IsMetric dist)
    (hself : ∀ a, dist a a = 0) (g : Gnat α D) (hg : g.WF dist) (q : α) (eps : D)
    {ord : Nat → Nat → List Nat} (hord : ∀ sz off, (ord sz off).Perm (List.range sz)) :
    match (g.nearest dist eps ord q).1 with
    | none => g.list = []
    | some (d, e) => e ∈ g.list ∧ d = dist q e.val ∧ ∀ y ∈ g.list, d ≤ dist q y.val := by
  unfold Gnat.nearest Gnat.list
  unfold Gnat.WF at hg
  cases ht : g.tree with
  | none =>
    simp only [ht] at hg ⊢
    rw [if_pos hg]
    trivial
  | some t =>
    simp only [ht] at hg ⊢
    by_cases hs : g.size = 0
    · rw [if_pos hs]
      exact List.length_eq_zero_iff.mp (by rw [← hg.2, hs])
    · rw [if_neg hs]
      obtain ⟨_, ⟨_, hlen, rest, hperm, hle⟩, h3⟩ :=
        nearestKInternal_exact hm hself g.removed t hg.1 q 1 eps hord g.offset
      simp only [postprocess, List.length_map, List.length_reverse] at hlen
      have hlive : 0 < (liveOf g.removed t.elems).length := by omega
      generalize (nearestKInternal dist g.removed q 1 eps ord g.offset t).nbh = nbh at *
      match nbh, hlen with
      | [x], _ =>
        obtain ⟨d, e⟩ := x
        simp only [postprocess, List.reverse_cons, List.reverse_nil, List.nil_append, List.map_cons,
          List.map_nil, List.cons_append] at hperm hle
        simp only [List.head?_cons]
        refine ⟨hperm.subset (by simp), h3 (d, e) (by simp), ?_⟩
        intro y hy
        have hd : d = dist q e.val := h3 (d, e) (by simp)
        rcases List.mem_cons.mp (hperm.symm.subset hy) with rfl | hy
        · rw [hd]
        · rw [hd]; exact hle e (by simp) y hy
      | [], h => simp at h; omega
      | _ :: _ :: _, h => simp at h; omega

/-! non-vacuity: a dump of a real tree (corpus/C10/smoke-gnat.txt, L1 metric on ℤ²) satisfies the
invariant, `|a-b|` on ℤ is a metric, the theorems apply to the driver's instance, and the model's
queries on that tree give the expected answers. -/

/-- the hypotheses of `nearestK_exact` are satisfiable, and its conclusion pins the answer down:
3 of the 6 live copies, for both variants' child orders. -/
example (rotate : Bool) : ((sampleGnat.nearestK l1 1 (childOrder rotate) (4, 4) 3).1.map Prod.snd).length = 3 :=
  (nearestK_exact l1_metric.1 l1_metric.2 sampleGnat sampleGnat_wf (4, 4) 3 1 (childOrder_perm rotate)).1.2.1
example (rotate : Bool) : ((sampleGnat.nearestR l1 (childOrder rotate) (0, 0) 3).1.map Prod.snd).Perm
    [⟨0, (1, 2)⟩, ⟨2, (0, 0)⟩, ⟨3, (1, 1)⟩] :=
  (nearestR_exact l1_metric.1 sampleGnat sampleGnat_wf (0, 0) 3 (childOrder_perm rotate)).1.2
example : outside (l1 (0, 0) (9, 9)) (2 : Int) (some (16, 18)) = false := by decide
example : outside (l1 (0, 0) (0, 0)) (2 : Int) (some (18, 18)) = true := by decide
example : IsMetric (fun (a b : Int) => |a - b|) :=
  ⟨fun a b => abs_sub_comm a b, fun a b c => abs_sub_le a b c⟩

end Gnat


/-! ## GNAT operations (`Model/NNGnatOps.lean`; compared in lock-step with the real code on every run) -/

section GnatOps

/-- **k-centers relation.**  For EVERY first centre (`first < data.size()`), the model's
`GreedyKCenters::kcenters` returns between 1 and `max k 1` valid indices, each centre at distance
`>= eps` from every centre chosen before it — duplicates / fewer distinct points than `k` are exactly
the `maxDist < eps` cut-off — and therefore (`dist x x = 0 <= dist x y`, `0 < eps`) the first-closest
centre of centre `i`, in the index order in which `split`'s assignment loop breaks ties, is `i` itself. -/
theorem kcenters_relation [LinearOrder D] [OfNat D 0] {dist : α → α → D} {eps : D} (hd : DistOK dist eps)
    (data : List (Elem α)) (k first : Nat) (hf : first < data.length) :
    let pivots := kcenters dist eps data k first
    (∀ c ∈ pivots, c < data.length) ∧ 1 ≤ pivots.length ∧ pivots.length ≤ 1 + (k - 1) ∧ pivots.Nodup ∧
    pivots.Pairwise (FarApart dist eps data) ∧
    ∀ (i pi : Nat) (x : Elem α), pivots[i]? = some pi → data[pi]? = some x →
      Asg dist (pivElems data pivots) x = i := by
  intro pivots
  obtain ⟨k1, k2, k3, k4⟩ := kcenters_spec dist eps data k first hf
  exact ⟨k1, k4, k3, pivots_nodup hd data pivots k1 k2, k2,
    fun i pi x hi hx => asg_pivot hd data pivots k1 k2 i pi x hi hx⟩

/-- **`split` establishes `GnatInv`**, for every draw sequence: a leaf with at least one element and
`degree_ >= 1` (parameters with `minDegree_, maxDegree_ >= 1`) becomes a subtree that satisfies the
invariant (with nothing marked removed — the only situation in which `split` runs), keeps pivot, radii
and ranges of the split node, stores exactly the same copies (a permutation), and has positive degrees
everywhere.  Running out of fuel or draws leaves the leaf unsplit, which satisfies all of this too. -/
theorem split_establishes_inv [LinearOrder D] [OfNat D 0] {U : Type} (ctx : Ctx α D U) (hctx : CtxOK ctx)
    (fuel : Nat) (n : Node α D) (us : List U) (hleaf : n.children = []) (hdata : n.data ≠ []) (hdeg : 0 < n.degree) :
    (splitNode ctx fuel n us).1.inv ctx.dist [] = true ∧ (splitNode ctx fuel n us).1.pivot = n.pivot ∧
    (splitNode ctx fuel n us).1.rad = n.rad ∧ (splitNode ctx fuel n us).1.ranges = n.ranges ∧
    (splitNode ctx fuel n us).1.elems.Perm n.elems ∧ (splitNode ctx fuel n us).1.degPos = true := by
  obtain ⟨h1, h2, h3, h4, h5, h6⟩ := splitNode_spec ctx hctx.dist hctx.params hctx.pick fuel n us hleaf hdata hdeg
  refine ⟨h1, h2, h3, h4, ?_, h6⟩
  rw [Node.elems_eq, h2, Node.elems_eq n]
  exact List.Perm.cons _ h5

/-- **`Node::add` preserves `GnatInv`** — unconditionally: for every tree satisfying the invariant with
positive degrees and every new copy, after the model's `Node::add` (descent to the first closest pivot,
`updateRange` of every sibling, `updateRadius`, leaf push, and — when `doSplit` — `split` of the
overflowing leaf) the invariant holds again, degrees stay positive, the root pivot is unchanged and the
tree stores exactly the old copies plus the new one.  (`doSplit` is only ever `true` when `removed_` is
empty; no metric law is needed beyond what `split` uses.) -/
theorem add_preserves_inv [LinearOrder D] [OfNat D 0] {U : Type} (ctx : Ctx α D U) (hctx : CtxOK ctx)
    (removed : List Nat) (doSplit : Bool) (hds : doSplit = true → removed = []) (x : Elem α) (t : Node α D)
    (ht : t.inv ctx.dist removed = true) (hdp : t.degPos = true) (us : List U) :
    (t.insert ctx doSplit x us).1.inv ctx.dist removed = true ∧ (t.insert ctx doSplit x us).1.degPos = true ∧
    (t.insert ctx doSplit x us).1.pivot = t.pivot ∧ (t.insert ctx doSplit x us).1.elems.Perm (x :: t.elems) := by
  have hS : doSplit = true → SplitSpec ctx removed := by
    intro h
    rw [hds h]
    exact splitSpec_nil ctx hctx.dist hctx.params hctx.pick
  obtain ⟨h1, _, _⟩ := Node.insert_spec ctx removed doSplit hS x t.count t (Nat.le_refl _) ht hdp us
  obtain ⟨p1, p2, p3⟩ := Node.insert_perm ctx removed doSplit hS x t.count t (Nat.le_refl _) ht hdp us
  refine ⟨h1, p3, p1, ?_⟩
  rw [Node.elems_eq, p1, Node.elems_eq t]
  exact (List.Perm.cons _ p2).trans (List.Perm.swap _ _ _)

/-- **`rebuildDataStructure`**: whatever the tree looked like (e.g. with a pivot marked removed), the
rebuilt structure satisfies the state invariant and `list()` is a permutation of the old `list()`. -/
theorem rebuild_abs [LinearOrder D] [OfNat D 0] {U : Type} (ctx : Ctx α D U) (hctx : CtxOK ctx) (g : Gnat α D)
    (us : List U) (hp : g.params = ctx.P) (hids : IdsOK g.nextId g.list) :
    (g.rebuild ctx us).1.Inv ctx ∧ (g.rebuild ctx us).1.list.Perm g.list :=
  ⟨(Gnat.rebuild_spec ctx hctx g us hp hids).1, (Gnat.rebuild_spec ctx hctx g us hp hids).2.1⟩

section Metric
variable [CommRing D] [LinearOrder D] [IsStrictOrderedRing D] [BEq α] [LawfulBEq α] {U : Type}

/-- **`remove` preserves the state invariant** (pivot test and rebuild included) and does what the
API says: it answers `true` iff the value is held, and then `list()` loses exactly one copy of it.
Uses: `nearestK_exact` for the 1-nearest query that locates the element (identity of indiscernibles
makes the nearest copy *the* value), `isPivot = false` ⟹ the copy found is a `data_` element, which
with distinct ids is not a pivot (so marking keeps "no pivot is marked"), and `rebuild_abs` otherwise. -/
theorem remove_preserves_inv (ctx : Ctx α D U) (hctx : CtxOK ctx) (hm : MetricOK ctx.dist)
    {ord : Nat → Nat → List Nat} (hord : ∀ sz off, (ord sz off).Perm (List.range sz))
    (g : Gnat α D) (x : α) (us : List U) (hg : g.Inv ctx) :
    (g.remove ctx ord x us).1.1.Inv ctx ∧
    ((g.remove ctx ord x us).1.1.list.map (fun e => e.val)).Perm ((g.list.map (fun e => e.val)).erase x) ∧
    ((g.remove ctx ord x us).2 = true ↔ x ∈ g.list.map (fun e => e.val)) :=
  Gnat.remove_spec ctx hctx hm hord g x us hg

/-- **Refinement.**  For every finite sequence of `add` / `add(vector)` / `remove` / `clear`, every
draw sequence (too few draws included) and every child order of the queries inside `remove`: the state
invariant holds (`Node.inv` = `GnatInv`, positive degrees, distinct ids), `size()` is the number of
held elements, and `list()` is a permutation of the abstract multiset. -/
theorem gnat_size_list_abs (ctx : Ctx α D U) (hctx : CtxOK ctx) (hm : MetricOK ctx.dist)
    {ord : Nat → Nat → List Nat} (hord : ∀ sz off, (ord sz off).Perm (List.range sz))
    (g0 : Gnat α D) (hg0 : g0.Inv ctx) (h0 : g0.tree = none) (ops : List (Op α)) (us : List U) :
    (gnatRun ctx ord ops g0 us).1.Inv ctx ∧ (gnatRun ctx ord ops g0 us).1.WF ctx.dist ∧
    (gnatRun ctx ord ops g0 us).1.size = (specRun ops).length ∧
    ((gnatRun ctx ord ops g0 us).1.list.map (fun e => e.val)).Perm (specRun ops) := by
  have hl0 : (g0.list.map (fun e => e.val)).Perm [] := by simp [Gnat.list, h0]
  obtain ⟨h1, h2⟩ := gnatRun_spec ctx hctx hm hord ops (g0, us) [] hg0 hl0
  obtain ⟨w1, w2⟩ := Gnat.Inv.wf ctx _ h1
  refine ⟨h1, w1, ?_, h2⟩
  unfold gnatRun specRun
  rw [w2, ← h2.length_eq, List.length_map]

/-- The refinement continues from ANY state satisfying the invariant (not only the empty one): this is what
chains histories across `setDistanceFunction` (below), which changes the context. -/
theorem gnat_size_list_abs_from (ctx : Ctx α D U) (hctx : CtxOK ctx) (hm : MetricOK ctx.dist)
    {ord : Nat → Nat → List Nat} (hord : ∀ sz off, (ord sz off).Perm (List.range sz))
    (g0 : Gnat α D) (hg0 : g0.Inv ctx) (m0 : List α) (h0 : (g0.list.map (fun e => e.val)).Perm m0)
    (ops : List (Op α)) (us : List U) :
    (gnatRun ctx ord ops g0 us).1.Inv ctx ∧ (gnatRun ctx ord ops g0 us).1.WF ctx.dist ∧
    ((gnatRun ctx ord ops g0 us).1.list.map (fun e => e.val)).Perm (ops.foldl specStep m0) := by
  obtain ⟨h1, h2⟩ := gnatRun_spec ctx hctx hm hord ops (g0, us) m0 hg0 h0
  exact ⟨h1, (Gnat.Inv.wf ctx _ h1).1, h2⟩

/-- **`setDistanceFunction` after elements were added** (GNAT: `if (tree_) rebuildDataStructure()` with the
new function): whatever the old function was, the state satisfies the invariant for the NEW context
(same parameters, new `dist`) and `list()` is a permutation of the old `list()` — so by
`gnat_size_list_abs_from` and `nearestK_exact` all later answers are exact for the new function. -/
theorem gnat_set_distance_function (ctx ctx' : Ctx α D U) (hctx' : CtxOK ctx') (hP : ctx'.P = ctx.P)
    (g : Gnat α D) (hg : g.Inv ctx) (us : List U) :
    (g.setDistanceFunction ctx' us).1.Inv ctx' ∧ (g.setDistanceFunction ctx' us).1.list.Perm g.list := by
  have hids := Gnat.list_ids ctx g hg
  obtain ⟨hp, hrem, h3⟩ := hg
  unfold Gnat.setDistanceFunction
  cases ht : g.tree with
  | none =>
    rw [ht] at h3
    refine ⟨⟨by rw [hp, hP], hrem, ?_⟩, List.Perm.refl _⟩
    rw [ht]
    exact h3
  | some t =>
    have := Gnat.rebuild_spec ctx' hctx' g us (by rw [hp, hP]) hids
    exact ⟨this.1, this.2.1⟩

/-- **After any history every query equals brute force.**  Whatever sequence of operations built the
structure, `nearestK` returns (as values) a k-nearest answer over the abstract multiset, `nearestR`
exactly the held elements within the radius, both sorted — for every child order of the query — and
the model's traversal never runs out of fuel. -/
theorem gnat_history_queries_exact (ctx : Ctx α D U) (hctx : CtxOK ctx) (hm : MetricOK ctx.dist)
    {ord ordq : Nat → Nat → List Nat} (hord : ∀ sz off, (ord sz off).Perm (List.range sz))
    (hordq : ∀ sz off, (ordq sz off).Perm (List.range sz))
    (g0 : Gnat α D) (hg0 : g0.Inv ctx) (h0 : g0.tree = none) (ops : List (Op α)) (us : List U)
    (q : α) (k : Nat) (eps rad : D) :
    let g := (gnatRun ctx ord ops g0 us).1
    IsKNearest (fun v => ctx.dist q v) k (specRun ops) ((g.nearestK ctx.dist eps ordq q k).1.map (fun x => x.2.val)) ∧
    IsRNearest (fun v => ctx.dist q v) rad (specRun ops) ((g.nearestR ctx.dist ordq q rad).1.map (fun x => x.2.val)) ∧
    (g.nearestK ctx.dist eps ordq q k).2.2 = false ∧ (g.nearestR ctx.dist ordq q rad).2.2 = false := by
  intro g
  obtain ⟨_, hwf, _, habs⟩ := gnat_size_list_abs ctx hctx hm hord g0 hg0 h0 ops us
  obtain ⟨k1, _, k3⟩ := nearestK_exact hm.metric hm.self g hwf q k eps hordq
  obtain ⟨r1, _, r3⟩ := nearestR_exact hm.metric g hwf q rad hordq
  refine ⟨?_, ?_, k3, r3⟩
  · have := isKNearest_vals (fun v => ctx.dist q v) k g.list _ (specRun ops) k1 habs
    rw [List.map_map] at this
    exact this
  · have := isRNearest_vals (fun v => ctx.dist q v) rad g.list _ (specRun ops) r1 habs
    rw [List.map_map] at this
    exact this

/-- **The two GNAT variants agree.**  `NearestNeighborsGNAT` and `NearestNeighborsGNATNoThreadSafety` run the
same tree code (`Model/NNGnatOps.lean`) and differ only in scratch-buffer placement (not modelled: no
observable effect) and in the child order function (`childOrder true` = rotating `offset_`,
`childOrder false` = the `Permutation` shuffle).  Corollary of `gnat_history_queries_exact`: for the same
history — whatever child orders `ord₁ ord₂` are used inside `remove`, whatever orders `ordq₁ ordq₂` in the
queries, and even for different draw sequences — `size()` agrees, `list()` agrees as a multiset, and
`nearestK` / `nearestR` return the same distance lists.  (The trees themselves need not be equal when
equal elements are stored: which copy `remove` marks may depend on the order; on the differential runs
the real variants' dumps were identical at every step.) -/
theorem gnat_variants_agree (ctx : Ctx α D U) (hctx : CtxOK ctx) (hm : MetricOK ctx.dist)
    {ord₁ ord₂ ordq₁ ordq₂ : Nat → Nat → List Nat}
    (h₁ : ∀ sz off, (ord₁ sz off).Perm (List.range sz)) (h₂ : ∀ sz off, (ord₂ sz off).Perm (List.range sz))
    (hq₁ : ∀ sz off, (ordq₁ sz off).Perm (List.range sz)) (hq₂ : ∀ sz off, (ordq₂ sz off).Perm (List.range sz))
    (g0 : Gnat α D) (hg0 : g0.Inv ctx) (h0 : g0.tree = none) (ops : List (Op α)) (us₁ us₂ : List U)
    (q : α) (k : Nat) (eps rad : D) :
    let g₁ := (gnatRun ctx ord₁ ops g0 us₁).1
    let g₂ := (gnatRun ctx ord₂ ops g0 us₂).1
    g₁.size = g₂.size ∧ (g₁.list.map (fun e => e.val)).Perm (g₂.list.map (fun e => e.val)) ∧
    (g₁.nearestK ctx.dist eps ordq₁ q k).1.map Prod.fst = (g₂.nearestK ctx.dist eps ordq₂ q k).1.map Prod.fst ∧
    (g₁.nearestR ctx.dist ordq₁ q rad).1.map Prod.fst = (g₂.nearestR ctx.dist ordq₂ q rad).1.map Prod.fst := by
  intro g₁ g₂
  obtain ⟨_, w₁, s₁, a₁⟩ := gnat_size_list_abs ctx hctx hm h₁ g0 hg0 h0 ops us₁
  obtain ⟨_, w₂, s₂, a₂⟩ := gnat_size_list_abs ctx hctx hm h₂ g0 hg0 h0 ops us₂
  obtain ⟨k₁, r₁, _, _⟩ := gnat_history_queries_exact ctx hctx hm h₁ hq₁ g0 hg0 h0 ops us₁ q k eps rad
  obtain ⟨k₂, r₂, _, _⟩ := gnat_history_queries_exact ctx hctx hm h₂ hq₂ g0 hg0 h0 ops us₂ q k eps rad
  obtain ⟨_, dk₁, _⟩ := nearestK_exact hm.metric hm.self g₁ w₁ q k eps hq₁
  obtain ⟨_, dk₂, _⟩ := nearestK_exact hm.metric hm.self g₂ w₂ q k eps hq₂
  obtain ⟨_, dr₁, _⟩ := nearestR_exact hm.metric g₁ w₁ q rad hq₁
  obtain ⟨_, dr₂, _⟩ := nearestR_exact hm.metric g₂ w₂ q rad hq₂
  have recorded : ∀ (ans : List (D × Elem α)), (∀ x ∈ ans, x.1 = ctx.dist q x.2.val) →
      ans.map Prod.fst = (ans.map (fun x => x.2.val)).map (fun v => ctx.dist q v) := by
    intro ans h
    rw [List.map_map]
    exact List.map_congr_left h
  refine ⟨by rw [s₁, s₂], a₁.trans a₂.symm, ?_, ?_⟩
  · rw [recorded _ dk₁, recorded _ dk₂]
    exact isKNearest_dists_unique _ k _ _ _ _ k₁ k₂ (List.Perm.refl _)
  · rw [recorded _ dr₁, recorded _ dr₂]
    exact isRNearest_dists_unique _ rad _ _ _ _ r₁ r₂ (List.Perm.refl _)

end Metric

end GnatOps

/-! ## round 10: the `dists` matrix of `kcenters`, degenerate degrees, the constructor -/

section KCentersMatrix

/-- **`kcenters` fills the matrix `split` reads, inside its bounds** (`k >= 1`).  `Model/NNKCenters.lean` is
`GreedyKCenters::kcenters` with its `Eigen` matrix: the `resize` test at the top, the column written by each pass
of the greedy loop, the final column, every write bounds-checked (`none` = a write outside the matrix) and every cell
`none` until written.  For EVERY matrix the caller passes, every `k >= 1`, every first centre `< n`: no write leaves
the matrix; the centres are those of the centres-only model `kcenters` (the object of `kcenters_relation`, used by
`splitNode`); the matrix is at least `n x k`; every cell `(j, i)` with `i < centers.size()` — exactly the cells
`Node::split` reads — was written and holds `dist data[j] data[centers[i]]` (the header's contract, and what
`splitNode` recomputes: the model's "call `dist` again" abstraction is sound); nothing else is written. -/
theorem kcenters_matrix_exact [LinearOrder D] (dist : α → α → D) (eps : D) (data : List (Elem α)) (k first : Nat)
    (M0 : Mat D) (hk : 1 ≤ k) (hf : first < data.length) :
    ∃ M', kcentersM dist eps data k first M0 = some (kcenters dist eps data k first, M') ∧
      data.length ≤ M'.rows ∧ k ≤ M'.cols ∧
      (M'.rows, M'.cols) = (if M0.rows < data.length ∨ M0.cols < k then (max (2 * M0.rows + 1) data.length, k)
        else (M0.rows, M0.cols)) ∧
      (∀ (i ci : Nat) (c : Elem α) (j : Nat) (x : Elem α), (kcenters dist eps data k first)[i]? = some ci →
        data[ci]? = some c → data[j]? = some x → M'.cell j i = some (dist x.val c.val)) ∧
      (∀ a b, (data.length ≤ a ∨ (kcenters dist eps data k first).length ≤ b) →
        M'.cell a b = (kcResize M0 data.length k).cell a b) := by
  obtain ⟨M', h1, hr, hc, h2, h3, h4, h5⟩ := kcentersM_spec dist eps data k first M0 hk hf
  refine ⟨M', h1, h2, h3, ?_, h4, h5⟩
  rw [hr, hc]
  unfold kcResize
  by_cases h : M0.rows < data.length ∨ M0.cols < k
  · have : (decide (M0.rows < data.length) || decide (M0.cols < k)) = true := by simpa using h
    rw [if_pos this, if_pos h]; rfl
  · have : ¬ (decide (M0.rows < data.length) || decide (M0.cols < k)) = true := by simpa using h
    rw [if_neg this, if_neg h]

/-- non-vacuity: four points with duplicates, `k = 3`, a `0 x 0` matrix passed in: resized to `4 x 3`, two centres
(the `maxDist < eps` cut-off), column 1 holds the distances to `data[2]`, column 2 is never written. -/
example : (kcentersM l1 1 [⟨0, (0, 0)⟩, ⟨1, (0, 0)⟩, ⟨2, (5, 5)⟩, ⟨3, (5, 5)⟩] 3 1 (Mat.new 0 0)).map
    (fun r => (r.1, [r.2.rows, r.2.cols], [r.2.cell 0 1, r.2.cell 3 0, r.2.cell 0 2])) =
    some ([1, 2], [4, 3], [some (10 : Int), some (10 : Int), none]) := by decide

/-- **`kcenters` with `k = 0` writes outside its matrix** — what `Node::split` does for a node whose `degree_` is 0:
`Matrix dists(n, 0)`, `kcenters(data_, 0, …)`: no `resize` (0 columns suffice for `k = 0`), the greedy loop does not
run, the final loop stores `dists(j, 0)`.  Holds for every non-empty data, every first centre. -/
theorem kcenters_zero_columns_fails [LinearOrder D] (dist : α → α → D) (eps : D) (data : List (Elem α)) (first : Nat)
    (hf : first < data.length) :
    kcentersM dist eps data 0 first (Mat.new data.length 0) = none :=
  kcentersM_zero_fails dist eps data first hf

/-- **A parameterisation the OLD constructor accepted reaches that call (F400; repaired in /repo 77efe5ce5 — this
theorem is about `Gnat.initOld`, the constructor before the repair, which the check selects when the tree under test
lacks it).**  `NearestNeighborsGNAT(degree = 2,
minDegree = 0, maxDegree = 2, maxNumPtsPerLeaf = 1, removedCacheSize = 0)`: after `add 1, 2, 3, 4` (first centre
`data_[0]`) the tree has a leaf child with `degree_ = min(max(2·|data|/3, 0), 2) = 0` that holds one element, so the
next element routed to it makes `needToSplit` true (`2 > 1 && 2 > 0`) and `split` calls `kcenters` with `k = 0`
(`kcenters_zero_columns_fails`).  Replay on the real code: `corpus/C10/f400-min-degree-zero-gnat.txt`. -/
theorem min_degree_zero_fails :
    (match (gnatRun (U := Nat) ⟨(Gnat.initOld (α := Int × Int) (D := Int) 2 0 2 1 0 false).params, l1, 1, fun u n => u % n⟩
        (childOrder true) [.add (1, 0), .add (2, 0), .add (3, 0), .add (4, 0)] (Gnat.initOld 2 0 2 1 0 false) [0]).1.tree with
      | none => false
      | some t => t.children.any (fun c => c.children.isEmpty && c.degree == 0 && c.data.length == 1 &&
          needToSplit (Gnat.initOld (α := Int × Int) (D := Int) 2 0 2 1 0 false).params c.degree (c.data.length + 1) &&
          (kcentersM l1 1 (c.data ++ [⟨9, (5, 0)⟩]) c.degree 0 (Mat.new (c.data.length + 1) c.degree)).isNone)) = true := by
  decide

end KCentersMatrix

section Ctor
variable [CommRing D] [LinearOrder D] [IsStrictOrderedRing D] [BEq α] [LawfulBEq α] {U : Type}

/-- **The invariant is established by the constructor, for EVERY argument vector** (the constructor as coded since
77efe5ce5: `degree_ = max(degree, 1)`, `minDegree_ = max(min(degree, minDegree), 1)`, `maxDegree_ = max(maxDegree,
degree, 1)`, `rebuildSize_ = rebalancing ? leaf·max(degree,1) : max`): the fresh state satisfies `Gnat.Inv`, has no
tree, and its parameters satisfy `ParamsOK` with `degree_ >= 1` — so `split` is defined and never asks `kcenters` for 0
centres.  `ParamsOK` is no longer a hypothesis anywhere below. -/
theorem gnat_ctor_establishes_inv (ctx : Ctx α D U) (degree minDegree maxDegree leaf cache : Nat) (rebal : Bool)
    (hP : ctx.P = (Gnat.init (α := α) (D := D) degree minDegree maxDegree leaf cache rebal).params) :
    (Gnat.init (α := α) (D := D) degree minDegree maxDegree leaf cache rebal).Inv ctx ∧
    (Gnat.init (α := α) (D := D) degree minDegree maxDegree leaf cache rebal).tree = none ∧
    ParamsOK ctx.P ∧ 1 ≤ ctx.P.degree := by
  obtain ⟨h1, h2⟩ := Gnat.init_inv ctx degree minDegree maxDegree leaf cache rebal hP
  refine ⟨h1, h2, ?_⟩
  rw [hP]
  exact Gnat.init_paramsOK degree minDegree maxDegree leaf cache rebal

/-- the constructor BEFORE the repair (`Gnat.initOld`, no clamping): its parameters satisfy `ParamsOK ∧ degree_ >= 1`
**iff** the user's `degree` and `minDegree` are at least 1 — the gap F400 fell through (`min_degree_zero_fails`). -/
theorem gnat_old_ctor_params_ok_iff (degree minDegree maxDegree leaf cache : Nat) (rebal : Bool) :
    (ParamsOK (Gnat.initOld (α := α) (D := D) degree minDegree maxDegree leaf cache rebal).params ∧
      1 ≤ (Gnat.initOld (α := α) (D := D) degree minDegree maxDegree leaf cache rebal).params.degree) ↔
    (1 ≤ degree ∧ 1 ≤ minDegree) :=
  Gnat.initOld_paramsOK degree minDegree maxDegree leaf cache rebal

/-- **From the constructor, for every argument vector and every history** (no invariant, no parameter condition
assumed): a structure constructed with ANY `degree`, `minDegree`, `maxDegree` (0 included), leaf size, removal-cache
size, rebalancing on or off; a genuine metric, `0 < eps`, a first-centre choice that is a valid index: after every finite
sequence of add / add(vector) / remove / clear with every draw sequence, `size()` and `list()` are those of the abstract
multiset and `nearestK` / `nearestR` are exact over it, for every child order. -/
theorem gnat_history_from_ctor (ctx : Ctx α D U) (hm : MetricOK ctx.dist) (heps : 0 < ctx.eps)
    (hpick : ∀ u n, 0 < n → ctx.pick u n < n)
    (degree minDegree maxDegree leaf cache : Nat) (rebal : Bool)
    (hP : ctx.P = (Gnat.init (α := α) (D := D) degree minDegree maxDegree leaf cache rebal).params)
    {ord ordq : Nat → Nat → List Nat} (hord : ∀ sz off, (ord sz off).Perm (List.range sz))
    (hordq : ∀ sz off, (ordq sz off).Perm (List.range sz)) (ops : List (Op α)) (us : List U)
    (q : α) (k : Nat) (eps rad : D) :
    let g := (gnatRun ctx ord ops (Gnat.init degree minDegree maxDegree leaf cache rebal) us).1
    g.size = (specRun ops).length ∧ (g.list.map (fun e => e.val)).Perm (specRun ops) ∧
    IsKNearest (fun v => ctx.dist q v) k (specRun ops) ((g.nearestK ctx.dist eps ordq q k).1.map (fun x => x.2.val)) ∧
    IsRNearest (fun v => ctx.dist q v) rad (specRun ops) ((g.nearestR ctx.dist ordq q rad).1.map (fun x => x.2.val)) := by
  intro g
  obtain ⟨hinv, hnone, hpar, hd1⟩ := gnat_ctor_establishes_inv ctx degree minDegree maxDegree leaf cache rebal hP
  have hctx : CtxOK ctx := ⟨hpar, hd1, hpick, ⟨hm.self, fun a b => dist_nonneg_of hm.metric hm.self a b, heps⟩⟩
  obtain ⟨_, _, hs, hl⟩ := gnat_size_list_abs ctx hctx hm hord _ hinv hnone ops us
  obtain ⟨hk, hr, _, _⟩ := gnat_history_queries_exact ctx hctx hm hord hordq _ hinv hnone ops us q k eps rad
  exact ⟨hs, hl, hk, hr⟩

/-- non-vacuity: ALL arguments 0 (degree, minDegree, maxDegree, leaf size, cache) with rebalancing — admitted. -/
example (ops : List (Op (Int × Int))) (us : List Nat) :
    (gnatRun ⟨(Gnat.init (α := Int × Int) (D := Int) 0 0 0 0 0 true).params, l1, 1, fun u n => u % n⟩ (childOrder true) ops
      (Gnat.init 0 0 0 0 0 true) us).1.size = (specRun ops).length :=
  (gnat_history_from_ctor ⟨(Gnat.init (α := Int × Int) (D := Int) 0 0 0 0 0 true).params, l1, 1, fun u n => u % n⟩
    sampleCtx_ok.2 (by decide) (fun u n hn => Nat.mod_lt u hn) 0 0 0 0 0 true rfl
    (childOrder_perm true) (childOrder_perm true) ops us (0, 0) 0 1 0).1
example : (Gnat.init (α := Int × Int) (D := Int) 0 0 0 3 0 true).params.degree = 1 ∧
    (Gnat.init (α := Int × Int) (D := Int) 0 0 0 3 0 true).rebuildSize = some 3 := by decide

/-- **Histories that change the distance function.**  Any number of segments, each `setDistanceFunction(f_i)` (GNAT:
rebuild under the new function if there is a tree) followed by any add / add(vector) / remove / clear sequence; every
`f_i` a genuine metric, same tree parameters throughout, every draw sequence, every child order: at the end the state
invariant holds for the LAST function, `list()` is the abstract multiset of the concatenated operations
(`setDistanceFunction` does not change the contents), and `nearestK` / `nearestR` are exact for the last function.
(`gnat_set_distance_function` + `gnat_size_list_abs_from`, chained by induction over the segments.) -/
theorem gnat_history_with_set_distance_function (P : Params) (segs : List (Ctx α D U × List (Op α)))
    (hall : ∀ s ∈ segs, CtxOK s.1 ∧ MetricOK s.1.dist ∧ s.1.P = P)
    {ord ordq : Nat → Nat → List Nat} (hord : ∀ sz off, (ord sz off).Perm (List.range sz))
    (hordq : ∀ sz off, (ordq sz off).Perm (List.range sz))
    (ctx0 : Ctx α D U) (hP0 : ctx0.P = P) (hm0 : IsMetric ctx0.dist) (hs0 : ∀ a, ctx0.dist a a = 0)
    (g0 : Gnat α D) (hg0 : g0.Inv ctx0) (h0 : g0.tree = none)
    (us : List U) (q : α) (k : Nat) (eps rad : D) :
    let g := (gnatRunSeg ord segs (g0, us)).1
    let ops := segs.flatMap (fun s => s.2)
    let d := (lastCtx ctx0 segs).dist
    g.Inv (lastCtx ctx0 segs) ∧ g.size = (specRun ops).length ∧ (g.list.map (fun e => e.val)).Perm (specRun ops) ∧
    IsKNearest (fun v => d q v) k (specRun ops) ((g.nearestK d eps ordq q k).1.map (fun x => x.2.val)) ∧
    IsRNearest (fun v => d q v) rad (specRun ops) ((g.nearestR d ordq q rad).1.map (fun x => x.2.val)) := by
  intro g ops d
  have hl0 : (g0.list.map (fun e => e.val)).Perm [] := by simp [Gnat.list, h0]
  obtain ⟨hinv, hperm⟩ := gnatRunSeg_spec hord P segs hall ctx0 g0 us [] hP0 hg0 hl0
  have hlast : IsMetric d ∧ ∀ a, d a a = 0 := by
    have : ∀ (segs : List (Ctx α D U × List (Op α))) (c0 : Ctx α D U),
        (∀ s ∈ segs, CtxOK s.1 ∧ MetricOK s.1.dist ∧ s.1.P = P) → IsMetric c0.dist → (∀ a, c0.dist a a = 0) →
        IsMetric (lastCtx c0 segs).dist ∧ ∀ a, (lastCtx c0 segs).dist a a = 0 := by
      intro segs
      induction segs with
      | nil => intro c0 _ h1 h2; exact ⟨h1, h2⟩
      | cons s rest ih =>
        intro c0 hall h1 h2
        obtain ⟨c, o⟩ := s
        have hc := (hall (c, o) (by simp)).2.1
        exact ih c (fun s hs => hall s (by simp [hs])) hc.metric hc.self
    exact this segs ctx0 hall hm0 hs0
  obtain ⟨hwf, hsz⟩ := Gnat.Inv.wf _ _ hinv
  obtain ⟨k1, _, _⟩ := nearestK_exact hlast.1 hlast.2 g hwf q k eps hordq
  obtain ⟨r1, _, _⟩ := nearestR_exact hlast.1 g hwf q rad hordq
  refine ⟨hinv, ?_, hperm, ?_, ?_⟩
  · have hlen := hperm.length_eq
    rw [List.length_map] at hlen
    rw [hsz]; exact hlen
  · have := isKNearest_vals (fun v => d q v) k g.list _ (specRun ops) k1 hperm
    rw [List.map_map] at this
    exact this
  · have := isRNearest_vals (fun v => d q v) rad g.list _ (specRun ops) r1 hperm
    rw [List.map_map] at this
    exact this

/-- non-vacuity: two segments (the L1 context set twice: the second `setDistanceFunction` finds a tree and rebuilds
it), a bulk add that splits, the removal of a pivot and of an absent value; the final size is pinned down. -/
example (us : List Nat) :
    (gnatRunSeg (childOrder true) [(sampleCtx, [.addv [(1, 2), (3, 4), (5, 6), (0, 0), (9, 9)], .remove (1, 2)]),
        (sampleCtx, [.add (7, 7), .remove (8, 8)])] (sampleG0, us)).1.size = 5 :=
  (gnat_history_with_set_distance_function sampleCtx.P _
    (by intro s hs; simp at hs; rcases hs with rfl | rfl <;> exact ⟨sampleCtx_ok.1, sampleCtx_ok.2, rfl⟩)
    (childOrder_perm true) (childOrder_perm true) sampleCtx rfl sampleCtx_ok.2.metric sampleCtx_ok.2.self sampleG0
    ⟨rfl, by simp [sampleG0], ⟨rfl, rfl⟩⟩ rfl us (0, 0) 0 1 0).2.1

end Ctor

/-! ## the result vector is an in/out parameter -/

/-- **A query's result does not depend on what the caller's vector held before.**  `nearestK` / `nearestR`
write into a caller-supplied `std::vector` that planners reuse for all their queries.  For the wrappers as
coded — GNAT and GNATNoThreadSafety: `nbh.clear()`, the `k == 0` / `size_ == 0` early-outs, search,
`postprocessNearest` (`resize` + assignment of every slot); Linear and SqrtApprox: `nbh = data_` resp.
`nbh.clear()` then push — the vector after the call is exactly the answer the returning model functions
give (the ones `nearestK_exact`, `nearestR_exact`, `linear_exact` are about), whatever it held before:
in particular empty for `k = 0` and on an empty structure.  (`nearest` returns by value.) -/
theorem query_result_independent_of_previous_contents [BEq α] [Add D] [Sub D] [LE D] [LT D] [DecidableLE D]
    [DecidableLT D] (dist : α → α → D) (eps : D) (ord : Nat → Nat → List Nat) (g : Gnat α D) (data : List α)
    (q : α) (k : Nat) (r : D) (nbh : List α) :
    g.nearestKInto dist eps ord q k nbh = (g.nearestK dist eps ord q k).1.map (fun x => x.2.val) ∧
    g.nearestRInto dist ord q r nbh = (g.nearestR dist ord q r).1.map (fun x => x.2.val) ∧
    linNearestKInto dist q k data nbh = linNearestK dist q k data ∧
    linNearestRInto dist q r data nbh = linNearestR dist q r data ∧
    (k = 0 ∨ g.size = 0 → g.nearestKInto dist eps ord q k nbh = []) ∧
    (g.size = 0 → g.nearestRInto dist ord q r nbh = []) := by
  refine ⟨?_, ?_, rfl, ?_, ?_, ?_⟩
  · unfold Gnat.nearestKInto Gnat.nearestK
    simp only [vecClear]
    split
    · rfl
    · split
      · rfl
      · split
        · rfl
        · rw [vecResizeAndOverwrite_eq]
  · unfold Gnat.nearestRInto Gnat.nearestR
    simp only [vecClear]
    split
    · rfl
    · split
      · rfl
      · rw [vecResizeAndOverwrite_eq]
  · simp [linNearestRInto, linNearestR, bruteR, vecClear]
  · intro h
    unfold Gnat.nearestKInto
    simp only [vecClear]
    rcases h with h | h
    · rw [if_pos h]
    · split
      · rfl
      · simp [h]
  · intro h
    unfold Gnat.nearestRInto
    simp only [vecClear]
    rw [if_pos h]

example : sampleGnat.nearestKInto l1 1 (childOrder true) (4, 4) 0 [(7, 7), (8, 8)] = [] := by
  exact (query_result_independent_of_previous_contents l1 1 (childOrder true) sampleGnat [] (4, 4) 0 0 _).2.2.2.2.1
    (Or.inl rfl)
example : linNearestKInto (fun (a b : Int) => (a - b).natAbs) 5 2 [9, 4, 7, 6] [100, 200, 300] =
    linNearestK (fun (a b : Int) => (a - b).natAbs) 5 2 [9, 4, 7, 6] := rfl

/-! ## which structure a planner gets -/

/-- **`getDefaultNearestNeighbors` selects a GNAT variant only for spaces that claim to be metric.**
The model of `tools::SelfConfig::getDefaultNearestNeighbors` (as coded: `isMetricSpace()` first, then
`specs.multithreaded`; no build flag is consulted): a structure whose exactness rests on the metric laws
(`needsMetric`: the two GNAT variants) is selected only if `space->isMetricSpace()`; then it is
`NearestNeighborsGNAT` for multithreaded planners and `NearestNeighborsGNATNoThreadSafety` otherwise, and by
`gnat_history_queries_exact` / `gnat_variants_agree` all answers are exact whenever the claim is TRUE (that
is C06's business).  Every space that does not claim to be metric — Dubins, and since fix 02d37426b Möbius
and Klein bottle, and (`compoundIsMetric` = `std::all_of`) every plain compound containing one — gets
`NearestNeighborsSqrtApprox`, which needs no metric law: by `sqrt_member` / `sqrt_size_list_abs` its
contents are the linear ones for every history, `nearestK` / `nearestR` are Linear's and exact by
`linear_exact` for ANY distance function, and `nearest` returns a current member (approximately nearest
by design). -/
theorem default_nn_exact_only_if_metric (isMetricSpace multithreaded : Bool) :
    ((defaultNN isMetricSpace multithreaded).needsMetric = true → isMetricSpace = true) ∧
    (isMetricSpace = true →
      defaultNN isMetricSpace multithreaded = if multithreaded then NNKind.gnat else NNKind.gnatNoThreadSafety) ∧
    (isMetricSpace = false → defaultNN isMetricSpace multithreaded = NNKind.sqrtApprox) ∧
    (∀ components : List Bool, compoundIsMetric components = true ↔ ∀ c ∈ components, c = true) := by
  refine ⟨?_, ?_, ?_, ?_⟩
  · cases isMetricSpace <;> cases multithreaded <;> simp [defaultNN, NNKind.needsMetric]
  · intro h; subst h; cases multithreaded <;> rfl
  · intro h; subst h; rfl
  · intro cs; simp [compoundIsMetric]

example : defaultNN (compoundIsMetric [true, false]) true = NNKind.sqrtApprox := by decide
example : defaultNN (compoundIsMetric [true, true]) false = NNKind.gnatNoThreadSafety := by decide
example : ∀ m t, defaultNN m t ≠ NNKind.linear := by decide

/-! non-vacuity of the operation theorems: the driver's kind of instance (L1 metric on ℤ², the sample
parameters) satisfies every hypothesis, and the theorems pin concrete histories down. -/

example : (sampleTree.insert sampleCtx false ⟨7, (8, 8)⟩ ([] : List Nat)).1.inv l1 [6] = true :=
  (add_preserves_inv sampleCtx sampleCtx_ok.1 [6] false (by intro h; cases h) ⟨7, (8, 8)⟩ sampleTree
    (by decide) (by decide) []).1
example : (sampleTree.insert sampleCtx false ⟨7, (8, 8)⟩ ([] : List Nat)).1.elems.map (·.id) = [0, 1, 7, 2, 3, 4, 5, 6] := by
  decide
/-- a history with a bulk add that splits (draw `5`), a removal of a pivot and one of an absent value. -/
example (us : List Nat) :
    ((gnatRun sampleCtx (childOrder true)
        [.addv [(1, 2), (3, 4), (5, 6), (0, 0), (9, 9)], .remove (1, 2), .remove (7, 7), .add (3, 4)] sampleG0 us).1.list.map
      (fun e => e.val)).Perm [(3, 4), (3, 4), (5, 6), (0, 0), (9, 9)] :=
  (gnat_size_list_abs sampleCtx sampleCtx_ok.1 sampleCtx_ok.2 (childOrder_perm true) sampleG0
    ⟨rfl, by simp [sampleG0], ⟨rfl, rfl⟩⟩ rfl _ us).2.2.2
example : kcenters l1 1 [⟨0, (0, 0)⟩, ⟨1, (0, 0)⟩, ⟨2, (5, 5)⟩, ⟨3, (5, 5)⟩] 3 1 = [1, 2] := by decide

end OmplModel.NN
