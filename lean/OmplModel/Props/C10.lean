import OmplModel.Proofs.NNLinear
import OmplModel.Proofs.NNGnat
import Mathlib.Algebra.Order.Ring.Int
/-!
C10 — nearest-neighbour structures answer exactly like exhaustive search.

Property theorems only (helpers: `Proofs/NNLinear.lean`, `Proofs/NNGnat.lean`).

Proved in full: Linear (`linear_exact`, `linear_nearestK_dists`, `linear_size_list_abs`,
`linear_remove_result`) and SqrtApprox (`sqrt_member`, `sqrt_size_list_abs`).

GNAT is `_partial`: the soundness of every pruning test of the query code is proved for every
metric on a linearly ordered commutative ring under the executable invariant `Node.inv`
(`gnat_sibling_prune_sound_partial`, `gnat_radius_prune_sound_partial`, `gnat_inv_descends_partial`),
and the leaf scan of the radius query is exact (`gnat_leaf_scanR_exact_partial`).
Not proved (checked on every dump of the real tree by checks/c10.py instead, and said so there):

  theorem nearestK_exact : Node.inv dist g.removed t = true → IsMetric dist →
      IsKNearest (dist q ·) k (liveOf g.removed t.elems |>.map (·.val))
                 ((g.nearestK dist eps rotate q k).1.map (·.2.val))        -- for every child order
  theorem nearestR_exact : … IsRNearest …
  theorem add_preserves_inv / split_establishes_inv / remove_preserves_inv / rebuild_abs
-/
namespace OmplModel.NN

variable {α D : Type}

/-! ## Linear -/

/-- `NearestNeighborsLinear`: `nearestK`, `nearestR` and `nearest` answer exactly like exhaustive
search over the stored list: sorted, the `k` smallest as a sub-multiset / exactly the elements
within the radius / a first minimum that is a stored element. -/
theorem linear_exact [LinearOrder D] (dist : α → α → D) (q : α) (k : Nat) (rad : D) (data : List α) :
    IsKNearest (fun x => dist x q) k data (linNearestK dist q k data) ∧
    IsRNearest (fun x => dist x q) rad data (linNearestR dist q rad data) ∧
    ScanInv (fun x => dist x q) (linNearest dist q data) data :=
  ⟨bruteK_spec _ k data, bruteR_spec _ rad data, linNearest_spec dist q data⟩

example : (linNearestK (fun (a b : Int) => (a - b).natAbs) 5 2 [9, 4, 7, 6]).length = 2 :=
  (linear_exact (fun (a b : Int) => (a - b).natAbs) 5 2 0 [9, 4, 7, 6]).1.2.1
example : (linNearest (fun (a b : Int) => (a - b).natAbs) 5 [9, 4, 7, 6]).map (·.1) = some 4 := by decide

/-- the distance list of the answer is the sorted distance list of the contents cut at `k`
(this is literally what the Python oracle compares against). -/
theorem linear_nearestK_dists [LinearOrder D] (dist : α → α → D) (q : α) (k : Nat) (data : List α) :
    (linNearestK dist q k data).map (fun x => dist x q) =
      ((data.map (fun x => dist x q)).mergeSort (fun a b => decide (a ≤ b))).take k :=
  bruteK_dists _ k data

example : ((linNearestK (fun (a b : Int) => (a - b).natAbs) 5 3 [9, 4, 7, 6, 4]).map (fun x => (x - 5).natAbs)).length = 3 := by
  have h := linear_nearestK_dists (fun (a b : Int) => (a - b).natAbs) 5 3 [9, 4, 7, 6, 4]
  rw [h]; simp

/-- after any sequence of add / add(vector) / remove / clear, the stored list is a permutation of
the multiset it should hold, and `size()` is its cardinality. -/
theorem linear_size_list_abs [BEq α] [LawfulBEq α] (ops : List (Op α)) :
    (linRun ops).Perm (specRun ops) ∧ (linRun ops).length = (specRun ops).length :=
  have h := lin_foldl_perm ops [] [] (List.Perm.refl _)
  ⟨h, h.length_eq⟩

example : linRun [Op.add 3, .addv [1, 3], .remove 3, .remove 7] = [3, 1] := by decide

/-- `remove` reports `true` exactly when the element is currently held. -/
theorem linear_remove_result [BEq α] [LawfulBEq α] (x : α) (data : List α) :
    (removeLast x data).isSome = true ↔ x ∈ data :=
  removeLast_isSome_iff x data

/-! ## SqrtApprox -/

/-- `NearestNeighborsSqrtApprox`: its stored list is the Linear one for every operation sequence
(so `size`, `list`, `nearestK`, `nearestR` are Linear's, hence exact by `linear_exact`), and
`nearest` returns a current member whenever the structure is non-empty, leaving the contents
untouched. -/
theorem sqrt_member [BEq α] [LawfulBEq α] [LT D] [DecidableLT D] (dist : α → α → D) (q : α) (ops : List (Op α)) :
    let s := Sqrt.run ops
    s.data = linRun ops ∧
    (∀ b ∈ (s.nearest dist q).1, b.1 ∈ s.data) ∧
    (s.data ≠ [] → ((s.nearest dist q).1).isSome = true) ∧
    (s.nearest dist q).2.data = s.data := by
  intro s
  have hdata : s.data = linRun ops := sqrt_foldl_data ops {}
  have hchk : s.checks = 0 → s.data = [] := sqrt_foldl_checks ops {} (fun _ => rfl)
  refine ⟨hdata, ?_, ?_, ?_⟩
  · intro b hb
    unfold Sqrt.nearest at hb
    split at hb
    · exact sqrtProbe_mem dist q s b hb
    · simp at hb
  · intro hne
    have hc : 0 < s.checks := Nat.pos_of_ne_zero (fun h => hne (hchk h))
    have hn : 0 < s.data.length := List.length_pos_iff.mpr hne
    unfold Sqrt.nearest
    rw [if_pos ⟨hc, hn⟩]
    exact sqrtProbe_isSome dist q s hc hn
  · unfold Sqrt.nearest
    split <;> rfl

example : ((Sqrt.run [Op.addv [10, 20]]).nearest (fun (a b : Int) => (a - b).natAbs) 41).1.isSome = true := by
  have h := sqrt_member (fun (a b : Int) => (a - b).natAbs) 41 [Op.addv [10, 20]]
  exact h.2.2.1 (by rw [h.1]; decide)

theorem sqrt_size_list_abs [BEq α] [LawfulBEq α] (ops : List (Op α)) :
    (Sqrt.run ops).data.Perm (specRun ops) ∧ (Sqrt.run ops).data.length = (specRun ops).length := by
  have h : (Sqrt.run ops).data = linRun ops := sqrt_foldl_data ops {}
  rw [h]
  exact linear_size_list_abs ops

/-! ## GNAT (pruning soundness under the invariant) -/

section Gnat
variable [CommRing D] [LinearOrder D] [IsStrictOrderedRing D]

omit [CommRing D] [IsStrictOrderedRing D] in
/-- the invariant evaluated on the dumps holds at every node the traversal can reach. -/
theorem gnat_inv_descends_partial (dist : α → α → D) (removed : List Nat) (t : Node α D)
    (h : t.inv dist removed = true) :
    isRemoved removed t.pivot = false ∧ localInv dist t.children = true ∧
      ∀ c ∈ t.children, c.inv dist removed = true := by
  obtain ⟨p, deg, r, rg, data, ch⟩ := t
  have := (Node.inv_mk dist removed p deg r rg data ch).mp h
  exact ⟨this.1, this.2.1, invL_mem dist removed ch this.2.2⟩

/-- **Sibling pruning never discards an answer element.**  In a node satisfying the invariant, when
the loop of `Node::nearestK` (`bound` = current k-th best distance `nbh.top().first`, reached only
when `nbh.size() == k`) or of `Node::nearestR` (`bound` = the radius) sets `permutation[j] = -1`,
every stored copy of the subtree of that sibling — pivot, removed copies and all — is strictly
farther from the query than `bound`. -/
theorem gnat_sibling_prune_sound_partial {dist : α → α → D} (hm : IsMetric dist) (removed : List Nat)
    (t : Node α D) (hinv : t.inv dist removed = true) {child : Node α D} (hc : child ∈ t.children)
    (q : α) (bound : D) (i : Nat) (perm : Array (PEntry D)) (j : Nat) (hj : j < perm.size)
    {c' : Nat} {cj : Node α D} (hact : perm[j].child? = some c') (hcj : t.children[c']? = some cj)
    (hpr : (pruneOthers child.ranges (dist q child.pivot.val) bound i perm)[j]'(by simpa using hj) = .pruned) :
    ∀ x ∈ cj.elems, bound < dist q x.val :=
  pruneOthers_sound hm (gnat_inv_descends_partial dist removed t hinv).2.1 hc q bound i perm j hj hact hcj hpr

/-- **Radius pruning never discards an answer element.**  A child that is not enqueued
(`inside … = false`) or that is skipped when dequeued (`outsideQ … = true`) stores nothing (besides
its pivot, already offered to the answer) within `bound` of the query. -/
theorem gnat_radius_prune_sound_partial {dist : α → α → D} (hm : IsMetric dist) (removed : List Nat)
    (t : Node α D) (hinv : t.inv dist removed = true) {child : Node α D} (hc : child ∈ t.children)
    (q : α) (bound : D)
    (hskip : inside (dist q child.pivot.val) bound child.rad = false ∨
             outsideQ (dist q child.pivot.val) bound child.rad = true) :
    ∀ x ∈ child.data ++ elemsL child.children, bound < dist q x.val := by
  have hl := (gnat_inv_descends_partial dist removed t hinv).2.1
  rcases hskip with h | h
  · exact enqueue_skip_sound hm hl hc q bound h
  · exact dequeue_skip_sound hm hl hc q bound h

end Gnat

/-- **Leaf level of the radius query is exact.**  The `data_` scan of `Node::nearestR` adds to the
answer queue exactly the non-removed elements of the leaf that lie within the radius — each once,
never one marked removed — and keeps the queue ordered (so the final answer is sorted). -/
theorem gnat_leaf_scanR_exact_partial [LinearOrder D] (dist : α → α → D) (removed : List Nat) (q : α) (r : D)
    (data : List (Elem α)) (nbh : Nbh α D) (hs : nbh.Pairwise (fun a b => b.1 ≤ a.1)) :
    (scanDataR dist removed q r data nbh).Perm
        ((((liveOf removed data).filter (fun e => decide (dist q e.val ≤ r))).map
            (fun e => (dist q e.val, e))) ++ nbh) ∧
      (scanDataR dist removed q r data nbh).Pairwise (fun a b => b.1 ≤ a.1) :=
  ⟨scanDataR_perm dist removed q r data nbh, scanDataR_sorted dist removed q r data nbh hs⟩

example : (scanDataR (fun (a b : Int) => |a - b|) [1] 5 2 [⟨0, 4⟩, ⟨1, 5⟩, ⟨2, 9⟩, ⟨3, 7⟩] []).map (·.2.id) = [3, 0] := by
  decide

/-! non-vacuity: a dump of a real tree (corpus/C10/smoke-gnat.txt, L1 metric on ℤ²) satisfies the
invariant, the metric laws hold for |a-b| on ℤ, and the pruning tests do fire. -/

def l1 (a b : Int × Int) : Int := |a.1 - b.1| + |a.2 - b.2|

def sampleTree : Node (Int × Int) Int :=
  .mk ⟨0, (1, 2)⟩ 3 none [none, none, none] []
    [ .mk ⟨1, (9, 9)⟩ 2 (some (0, 0)) [some (0, 0), some (16, 18), some (7, 11)] [] [],
      .mk ⟨2, (0, 0)⟩ 2 (some (0, 2)) [some (18, 18), some (0, 2), some (7, 11)] [⟨3, (1, 1)⟩] [],
      .mk ⟨4, (3, 4)⟩ 2 (some (0, 4)) [some (11, 11), some (5, 7), some (0, 4)] [⟨5, (5, 6)⟩, ⟨6, (3, 4)⟩] [] ]

example : sampleTree.inv l1 [6] = true := by decide
example : outside (l1 (0, 0) (9, 9)) (2 : Int) (some (16, 18)) = false := by decide
example : outside (l1 (0, 0) (0, 0)) (2 : Int) (some (18, 18)) = true := by decide
example : IsMetric (fun (a b : Int) => |a - b|) :=
  ⟨fun a b => abs_sub_comm a b, fun a b c => abs_sub_le a b c⟩

end OmplModel.NN
