import OmplModel.Proofs.NNLinear
import OmplModel.Proofs.NNGnat
import OmplModel.Proofs.NNGnatExact
import OmplModel.Proofs.NNGnatOps
import Mathlib.Algebra.Order.Ring.Int
/-!
C10 — nearest-neighbour structures answer exactly like exhaustive search.

Property theorems only (helpers: `Proofs/NNLinear.lean`, `Proofs/NNGnat.lean`, `Proofs/NNGnatQuery.lean`,
`Proofs/NNGnatExact.lean`, `Proofs/NNGnatOps.lean`).

Proved in full:
* Linear (`linear_exact`, `linear_nearestK_dists`, `linear_size_list_abs`, `linear_remove_result`),
  SqrtApprox (`sqrt_member`, `sqrt_size_list_abs`);
* GNAT queries: `nearestK_exact`, `nearestR_exact`, `nearest_exact` — `GnatInv` (the executable
  `Node.inv` evaluated on every dump of the real tree) implies that the model's query code returns
  exactly the brute-force answer, for every metric on a linearly ordered commutative ring and for
  **every** child visiting order; the fuel of the model's loops always suffices
  (`gnat_child_orders_are_permutations` shows the two variants' orders are admitted).

GNAT operations (`Model/NNGnatOps.lean`, compared in lock-step with the real code on every run) —
`_partial`:
* `add_preserves_inv_partial`: `Node::add` (descent, `updateRange`/`updateRadius`, leaf push) preserves
  `GnatInv`, keeps every pivot and stores only the old copies plus the new one — unconditionally when
  the leaf is not split in place, and given `SplitSpec` (= the statement of `split_establishes_inv`
  below) when it is;
* `remove_preserves_inv_partial`: marking a copy that is not a pivot preserves `GnatInv`.
Not proved (checked on every dump of the real tree by checks/c10.py instead, and said so there):

  theorem split_establishes_inv : KCentersRel ctx → SplitSpec ctx []
      -- i.e. for a leaf n with un-removed pivot: (splitNode ctx fuel n us).1.inv ∧ same pivot ∧ same copies
  theorem remove_preserves_inv : g.WF dist → ids distinct → ((g.remove ctx ord x us).1.1).WF dist
      -- missing: `isPivot = false` ⟹ the copy found is not a pivot; rebuild = build (needs split)
  theorem rebuild_abs : (g.rebuild ctx us).1.list ~ g.list ∧ WF
  theorem gnat_size_list_abs : ∀ ops, (run ops).list ~ specRun ops ∧ (run ops).WF dist
-/
namespace OmplModel.NN

variable {α D : Type}

/-! ## Linear -/

/-- `NearestNeighborsLinear`: `nearestK`, `nearestR` and `nearest` answer exactly like exhaustive
search over the stored list: sorted, the `k` smallest as a sub-multiset / exactly the elements
within the radius / a first minimum that is a stored element. -/
theorem linear_exact [LinearOrder D] (dist : α → α → D) (q : α) (k : Nat) (rad : D) (data : List α) :
    IsKNearest (fun x => dist x q) k data (linNearestK dist q k data) ∧
    IsRNearest (fun x => dist x q) rad data (linNearestR dist q rad data) ∧
    ScanInv (fun x => dist x q) (linNearest dist q data) data :=
  ⟨bruteK_spec _ k data, bruteR_spec _ rad data, linNearest_spec dist q data⟩

example : (linNearestK (fun (a b : Int) => (a - b).natAbs) 5 2 [9, 4, 7, 6]).length = 2 :=
  (linear_exact (fun (a b : Int) => (a - b).natAbs) 5 2 0 [9, 4, 7, 6]).1.2.1
example : (linNearest (fun (a b : Int) => (a - b).natAbs) 5 [9, 4, 7, 6]).map (·.1) = some 4 := by decide

/-- the distance list of the answer is the sorted distance list of the contents cut at `k`
(this is literally what the Python oracle compares against). -/
theorem linear_nearestK_dists [LinearOrder D] (dist : α → α → D) (q : α) (k : Nat) (data : List α) :
    (linNearestK dist q k data).map (fun x => dist x q) =
      ((data.map (fun x => dist x q)).mergeSort (fun a b => decide (a ≤ b))).take k :=
  bruteK_dists _ k data

example : ((linNearestK (fun (a b : Int) => (a - b).natAbs) 5 3 [9, 4, 7, 6, 4]).map (fun x => (x - 5).natAbs)).length = 3 := by
  have h := linear_nearestK_dists (fun (a b : Int) => (a - b).natAbs) 5 3 [9, 4, 7, 6, 4]
  rw [h]; simp

/-- after any sequence of add / add(vector) / remove / clear, the stored list is a permutation of
the multiset it should hold, and `size()` is its cardinality. -/
theorem linear_size_list_abs [BEq α] [LawfulBEq α] (ops : List (Op α)) :
    (linRun ops).Perm (specRun ops) ∧ (linRun ops).length = (specRun ops).length :=
  have h := lin_foldl_perm ops [] [] (List.Perm.refl _)
  ⟨h, h.length_eq⟩

example : linRun [Op.add 3, .addv [1, 3], .remove 3, .remove 7] = [3, 1] := by decide

/-- `remove` reports `true` exactly when the element is currently held. -/
theorem linear_remove_result [BEq α] [LawfulBEq α] (x : α) (data : List α) :
    (removeLast x data).isSome = true ↔ x ∈ data :=
  removeLast_isSome_iff x data

/-! ## SqrtApprox -/

/-- `NearestNeighborsSqrtApprox`: its stored list is the Linear one for every operation sequence
(so `size`, `list`, `nearestK`, `nearestR` are Linear's, hence exact by `linear_exact`), and
`nearest` returns a current member whenever the structure is non-empty, leaving the contents
untouched. -/
theorem sqrt_member [BEq α] [LawfulBEq α] [LT D] [DecidableLT D] (dist : α → α → D) (q : α) (ops : List (Op α)) :
    let s := Sqrt.run ops
    s.data = linRun ops ∧
    (∀ b ∈ (s.nearest dist q).1, b.1 ∈ s.data) ∧
    (s.data ≠ [] → ((s.nearest dist q).1).isSome = true) ∧
    (s.nearest dist q).2.data = s.data := by
  intro s
  have hdata : s.data = linRun ops := sqrt_foldl_data ops {}
  have hchk : s.checks = 0 → s.data = [] := sqrt_foldl_checks ops {} (fun _ => rfl)
  refine ⟨hdata, ?_, ?_, ?_⟩
  · intro b hb
    unfold Sqrt.nearest at hb
    split at hb
    · exact sqrtProbe_mem dist q s b hb
    · simp at hb
  · intro hne
    have hc : 0 < s.checks := Nat.pos_of_ne_zero (fun h => hne (hchk h))
    have hn : 0 < s.data.length := List.length_pos_iff.mpr hne
    unfold Sqrt.nearest
    rw [if_pos ⟨hc, hn⟩]
    exact sqrtProbe_isSome dist q s hc hn
  · unfold Sqrt.nearest
    split <;> rfl

example : ((Sqrt.run [Op.addv [10, 20]]).nearest (fun (a b : Int) => (a - b).natAbs) 41).1.isSome = true := by
  have h := sqrt_member (fun (a b : Int) => (a - b).natAbs) 41 [Op.addv [10, 20]]
  exact h.2.2.1 (by rw [h.1]; decide)

theorem sqrt_size_list_abs [BEq α] [LawfulBEq α] (ops : List (Op α)) :
    (Sqrt.run ops).data.Perm (specRun ops) ∧ (Sqrt.run ops).data.length = (specRun ops).length := by
  have h : (Sqrt.run ops).data = linRun ops := sqrt_foldl_data ops {}
  rw [h]
  exact linear_size_list_abs ops

/-! ## GNAT queries -/

section Gnat
variable [CommRing D] [LinearOrder D] [IsStrictOrderedRing D]

/-- every child order the two variants can use is admitted by the theorems below. -/
theorem gnat_child_orders_are_permutations (rotate : Bool) (sz off : Nat) :
    (childOrder rotate sz off).Perm (List.range sz) ∧ (rotation sz off).Perm (List.range sz) :=
  ⟨childOrder_perm rotate sz off, rotation_perm sz off⟩

example : rotation 4 6 = [2, 3, 0, 1] := by decide

/-- **`nearestK` is exact.**  For every metric (symmetric, triangle inequality, `dist a a = 0`) on a
linearly ordered commutative ring, every tree satisfying the executable invariant `Node.inv`
(= `GnatInv`), every query, `k`, `eps`, and **every** child visiting order `ord` (any function giving a
permutation of the children per node visit — the rotating `offset_` and any shuffle are instances),
the model's `nearestK` (the code of `nearestKInternal` + `Node::nearestK` + `insertNeighborK` +
`postprocessNearest`) returns a list of stored non-removed copies that is sorted by distance, has
length `min k (#live)`, contains no stored copy more often than it is held (`answer ++ rest` is a
permutation of the live copies), and leaves out only copies at least as far as every returned one;
the distances reported with the answer are the true ones, and the traversal never runs out of fuel. -/
theorem nearestK_exact [BEq α] [LawfulBEq α] {dist : α → α → D} (hm : IsMetric dist)
    (hself : ∀ a, dist a a = 0) (g : Gnat α D) (hg : g.WF dist) (q : α) (k : Nat) (eps : D)
    {ord : Nat → Nat → List Nat} (hord : ∀ sz off, (ord sz off).Perm (List.range sz)) :
    IsKNearest (fun e => dist q e.val) k g.list ((g.nearestK dist eps ord q k).1.map Prod.snd) ∧
    (∀ x ∈ (g.nearestK dist eps ord q k).1, x.1 = dist q x.2.val) ∧
    (g.nearestK dist eps ord q k).2.2 = false := by
  have hempty : ∀ l : List (Elem α), (k = 0 ∨ l.length = 0) →
      IsKNearest (fun e => dist q e.val) k l (([] : List (D × Elem α)).map Prod.snd) := by
    intro l h
    refine ⟨List.Pairwise.nil, ?_, l, by simp, by simp⟩
    rcases h with h | h <;> simp [h]
  unfold Gnat.nearestK Gnat.list
  unfold Gnat.WF at hg
  by_cases hk : k = 0
  · rw [if_pos hk]
    exact ⟨hempty _ (Or.inl hk), by simp, rfl⟩
  · rw [if_neg hk]
    cases ht : g.tree with
    | none =>
      simp only [ht] at hg ⊢
      rw [if_pos hg]
      exact ⟨hempty _ (Or.inr rfl), by simp, rfl⟩
    | some t =>
      simp only [ht] at hg ⊢
      by_cases hs : g.size = 0
      · rw [if_pos hs]
        exact ⟨hempty _ (Or.inr (by rw [← hg.2, hs])), by simp, rfl⟩
      · rw [if_neg hs]
        obtain ⟨h1, h2, h3⟩ := nearestKInternal_exact hm hself g.removed t hg.1 q k eps hord g.offset
        refine ⟨h2, ?_, h1⟩
        intro x hx
        exact h3 x (List.mem_reverse.mp hx)

/-- **`nearestR` is exact**: sorted by distance and, as a multiset of stored copies, exactly the
non-removed copies within the radius (none twice, none missing) — for every child order. -/
theorem nearestR_exact {dist : α → α → D} (hm : IsMetric dist)
    (g : Gnat α D) (hg : g.WF dist) (q : α) (r : D)
    {ord : Nat → Nat → List Nat} (hord : ∀ sz off, (ord sz off).Perm (List.range sz)) :
    IsRNearest (fun e => dist q e.val) r g.list ((g.nearestR dist ord q r).1.map Prod.snd) ∧
    (∀ x ∈ (g.nearestR dist ord q r).1, x.1 = dist q x.2.val) ∧
    (g.nearestR dist ord q r).2.2 = false := by
  have hempty : ∀ l : List (Elem α), l.length = 0 →
      IsRNearest (fun e => dist q e.val) r l (([] : List (D × Elem α)).map Prod.snd) := by
    intro l h
    have : l = [] := List.length_eq_zero_iff.mp h
    subst this
    exact ⟨List.Pairwise.nil, by simp⟩
  unfold Gnat.nearestR Gnat.list
  unfold Gnat.WF at hg
  cases ht : g.tree with
  | none =>
    simp only [ht] at hg ⊢
    rw [if_pos hg]
    exact ⟨hempty _ rfl, by simp, rfl⟩
  | some t =>
    simp only [ht] at hg ⊢
    by_cases hs : g.size = 0
    · rw [if_pos hs]
      exact ⟨hempty _ (by rw [← hg.2, hs]), by simp, rfl⟩
    · rw [if_neg hs]
      obtain ⟨h1, h2, h3⟩ := nearestRInternal_exact hm g.removed t hg.1 q r hord g.offset
      refine ⟨h2, ?_, h1⟩
      intro x hx
      exact h3 x (List.mem_reverse.mp hx)

/-- **`nearest` is exact**: on a non-empty structure it returns a non-removed stored copy at the
minimum distance (the exception `none` exactly when nothing is held). -/
theorem nearest_exact [BEq α] [LawfulBEq α] {dist : α → α → D} (hm : IsMetric dist)
    (hself : ∀ a, dist a a = 0) (g : Gnat α D) (hg : g.WF dist) (q : α) (eps : D)
    {ord : Nat → Nat → List Nat} (hord : ∀ sz off, (ord sz off).Perm (List.range sz)) :
    match (g.nearest dist eps ord q).1 with
    | none => g.list = []
    | some (d, e) => e ∈ g.list ∧ d = dist q e.val ∧ ∀ y ∈ g.list, d ≤ dist q y.val := by
  unfold Gnat.nearest Gnat.list
  unfold Gnat.WF at hg
  cases ht : g.tree with
  | none =>
    simp only [ht] at hg ⊢
    rw [if_pos hg]
    trivial
  | some t =>
    simp only [ht] at hg ⊢
    by_cases hs : g.size = 0
    · rw [if_pos hs]
      exact List.length_eq_zero_iff.mp (by rw [← hg.2, hs])
    · rw [if_neg hs]
      obtain ⟨_, ⟨_, hlen, rest, hperm, hle⟩, h3⟩ :=
        nearestKInternal_exact hm hself g.removed t hg.1 q 1 eps hord g.offset
      simp only [postprocess, List.length_map, List.length_reverse] at hlen
      have hlive : 0 < (liveOf g.removed t.elems).length := by omega
      generalize (nearestKInternal dist g.removed q 1 eps ord g.offset t).nbh = nbh at *
      match nbh, hlen with
      | [x], _ =>
        obtain ⟨d, e⟩ := x
        simp only [postprocess, List.reverse_cons, List.reverse_nil, List.nil_append, List.map_cons,
          List.map_nil, List.cons_append] at hperm hle
        simp only [List.head?_cons]
        refine ⟨hperm.subset (by simp), h3 (d, e) (by simp), ?_⟩
        intro y hy
        have hd : d = dist q e.val := h3 (d, e) (by simp)
        rcases List.mem_cons.mp (hperm.symm.subset hy) with rfl | hy
        · rw [hd]
        · rw [hd]; exact hle e (by simp) y hy
      | [], h => simp at h; omega
      | _ :: _ :: _, h => simp at h; omega

/-! non-vacuity: a dump of a real tree (corpus/C10/smoke-gnat.txt, L1 metric on ℤ²) satisfies the
invariant, `|a-b|` on ℤ is a metric, the theorems apply to the driver's instance, and the model's
queries on that tree give the expected answers. -/

/-- the hypotheses of `nearestK_exact` are satisfiable, and its conclusion pins the answer down:
3 of the 6 live copies, for both variants' child orders. -/
example (rotate : Bool) : ((sampleGnat.nearestK l1 1 (childOrder rotate) (4, 4) 3).1.map Prod.snd).length = 3 :=
  (nearestK_exact l1_metric.1 l1_metric.2 sampleGnat sampleGnat_wf (4, 4) 3 1 (childOrder_perm rotate)).1.2.1
example (rotate : Bool) : ((sampleGnat.nearestR l1 (childOrder rotate) (0, 0) 3).1.map Prod.snd).Perm
    [⟨0, (1, 2)⟩, ⟨2, (0, 0)⟩, ⟨3, (1, 1)⟩] :=
  (nearestR_exact l1_metric.1 sampleGnat sampleGnat_wf (0, 0) 3 (childOrder_perm rotate)).1.2
example : outside (l1 (0, 0) (9, 9)) (2 : Int) (some (16, 18)) = false := by decide
example : outside (l1 (0, 0) (0, 0)) (2 : Int) (some (18, 18)) = true := by decide
example : IsMetric (fun (a b : Int) => |a - b|) :=
  ⟨fun a b => abs_sub_comm a b, fun a b c => abs_sub_le a b c⟩

end Gnat


/-! ## GNAT operations (model of `Node::add` / `remove`; lock-step compared with the real code) -/

section GnatOps

/-- **`Node::add` preserves `GnatInv`.**  For every distance function (no metric law is needed: ranges
and radii record distances that were actually computed), every tree satisfying the invariant and every
new copy `x`: after the model's `Node::add` — descend to the first closest pivot, `updateRange` of every
sibling, `updateRadius` of the chosen child, push into the leaf — the invariant holds again, the
root pivot is unchanged, and the tree stores nothing but the old copies and `x`.
Unconditional when the leaf is not split in place (`doSplit = false`: the two `rebuildDataStructure`
branches, and every add that does not overflow a leaf — for those `insert … true = insert … false`);
when the leaf is split it assumes `SplitSpec` (what `split_establishes_inv` would provide). -/
theorem add_preserves_inv_partial {U : Type} [LinearOrder D] [OfNat D 0] (ctx : Ctx α D U) (removed : List Nat)
    (doSplit : Bool) (hS : doSplit = true → SplitSpec ctx removed) (x : Elem α) (t : Node α D)
    (ht : t.inv ctx.dist removed = true) (us : List U) :
    (t.insert ctx doSplit x us).1.inv ctx.dist removed = true ∧
    (t.insert ctx doSplit x us).1.pivot = t.pivot ∧
    ∀ y ∈ (t.insert ctx doSplit x us).1.elems, y = x ∨ y ∈ t.elems := by
  obtain ⟨h1, h2, h3⟩ := Node.insert_spec ctx removed doSplit hS x t.count t (Nat.le_refl _) ht us
  refine ⟨h1, h2, ?_⟩
  intro y hy
  rw [Node.elems_eq, h2] at hy
  rw [Node.elems_eq]
  rcases List.mem_cons.mp hy with h | h
  · exact Or.inr (by rw [h]; simp)
  · rcases h3 y h with h | h
    · exact Or.inl h
    · exact Or.inr (List.mem_cons_of_mem _ h)

/-- **`remove` of a non-pivot preserves `GnatInv`**: marking a stored copy whose id is not the id of
a pivot keeps the invariant (it bounds the distances to *all* stored copies, removed ones included). -/
theorem remove_preserves_inv_partial [LE D] [DecidableLE D] (dist : α → α → D) (removed : List Nat) (i : Nat)
    (t : Node α D) (ht : t.inv dist removed = true) (hp : ∀ p ∈ t.pivots, p.id ≠ i) :
    t.inv dist (i :: removed) = true :=
  Node.inv_mark dist removed i t ht hp

end GnatOps

/-! non-vacuity of the operation theorems on the sample tree -/

def sampleCtx : Ctx (Int × Int) Int Nat :=
  { P := ⟨3, 2, 3, 2, 3, false⟩, dist := l1, eps := 1, pick := fun u n => u % n }

example : ((sampleTree.insert sampleCtx false ⟨7, (8, 8)⟩ []).1.inv l1 [6] = true) :=
  (add_preserves_inv_partial sampleCtx [6] false (by intro h; cases h) ⟨7, (8, 8)⟩ sampleTree (by decide) []).1
example : (sampleTree.insert sampleCtx false ⟨7, (8, 8)⟩ ([] : List Nat)).1.elems.map (·.id) = [0, 1, 7, 2, 3, 4, 5, 6] := by
  decide
example : sampleTree.inv l1 [3, 6] = true :=
  remove_preserves_inv_partial l1 [6] 3 sampleTree (by decide) (by decide)

end OmplModel.NN
