import OmplModel.Model.NN
namespace OmplModel.NN
theorem linStep_clear {α} [BEq α] (d : List α) : linStep d .clear = [] := rfl
end OmplModel.NN
