import OmplModel.Proofs.Ptc
import OmplModel.Proofs.PtcCost
import OmplModel.Proofs.PtcNap
import OmplModel.Proofs.PtcNapQ
/-!
C18 - termination conditions mean exactly what they say.  Property theorems over the model
`OmplModel.Model.Ptc` (which the check ties to the C++ code by differential runs).
Every statement quantifies over *all* environments (predicate traces, clocks), all states reached
by whatever happened before, all nestings (structural induction) and all counts (induction on ℕ).
-/
namespace OmplModel.Props.C18
open OmplModel.Ptc

/-! ### a condition built from a predicate reports exactly the predicate -/

/-- one evaluation: the answer is the predicate's next scripted value, the predicate is invoked
exactly once (its own counter moves by one, nobody else's moves, one log entry). -/
theorem eval_pred (env : Env) (i id : Nat) (s : St) (h : s.term i = false) :
    (eval env (.leaf i false (.pred id)) s).1 = env.pred id (s.calls id) ∧
    (eval env (.leaf i false (.pred id)) s).2.calls id = s.calls id + 1 ∧
    (∀ j, j ≠ id → (eval env (.leaf i false (.pred id)) s).2.calls j = s.calls j) ∧
    (eval env (.leaf i false (.pred id)) s).2.log = (i, env.pred id (s.calls id)) :: s.log := by
  refine ⟨?_, ?_, ?_, ?_⟩ <;> simp [eval, h, callLeaf, upd]
  intro j hj hj'; exact absurd hj' hj

/-- every trace: `n` evaluations in a row return the next `n` values of the predicate's trace. -/
theorem eval_pred_trace (env : Env) (i id : Nat) (n : Nat) : ∀ (s : St), s.term i = false →
    (evalN env (.leaf i false (.pred id)) n s).1 = (List.range n).map (fun j => env.pred id (s.calls id + j)) := by
  induction n with
  | zero => intro s _; rfl
  | succ n ih =>
    intro s h
    have hp := eval_pred env i id s h
    have ht : (eval env (.leaf i false (.pred id)) s).2.term i = false := by rw [eval_term]; exact h
    simp only [evalN, List.range_succ_eq_map, List.map_cons, List.map_map]
    rw [ih _ ht, hp.1, hp.2.1]
    simp only [Nat.add_zero, List.cons.injEq, true_and]
    apply List.map_congr_left
    intro j _
    simp only [Function.comp, Nat.succ_eq_add_one]
    congr 1
    omega

example : (evalN { pred := fun _ k => k % 2 == 1, clock := fun _ => 0 } (.leaf 0 false (.pred 7)) 4 {}).1 = [false, true, false, true] := by
  decide

/-! ### terminate() is sticky -/

/-- once `terminate()` has been requested on `c` (or on any copy: a copy is the same tree), every
later evaluation reports true and invokes nothing, whatever operations happened in between. -/
theorem terminate_sticky {α} [PNum α] (env : Env) (c : Cond) (w : World α) (ops : List (Op α)) :
    eval env c ((w.step env (.terminate c)).run env ops).st = (true, ((w.step env (.terminate c)).run env ops).st) := by
  apply eval_of_term
  apply run_term_mono
  simp [World.step, terminate]

/-- the flag belongs to the impl object: any condition value sharing the impl is terminated too. -/
theorem terminate_sticky_shared {α} [PNum α] (env : Env) (c c' : Cond) (hshare : c'.impl = c.impl)
    (w : World α) (ops : List (Op α)) :
    (eval env c' ((w.step env (.terminate c)).run env ops).st).1 = true := by
  rw [eval_of_term]
  apply run_term_mono
  simp [World.step, terminate, hshare]

/-- through every or/and nesting: if the terminate flags force `c` (`Forced`: the flag of `c` itself,
of either operand of an `or`, of both operands of an `and`, recursively), then `c` evaluates to true
now and after any further operations. -/
theorem terminate_sticky_nested {α} [PNum α] (env : Env) (c : Cond) (w : World α) (ops : List (Op α))
    (h : Forced w.st c) : (eval env c (w.run env ops).st).1 = true :=
  eval_of_forced env c _ (Forced_mono (fun i hi => run_term_mono env ops w i hi) c h)

/-- terminating an operand forces every `or` that captured a copy of it, at any depth of `or`s. -/
theorem terminate_forces_or (t : Cond) (s : St) (i : Nat) (a b : Cond)
    (h : Forced (terminate t s) a ∨ Forced (terminate t s) b) : Forced (terminate t s) (.or i a b) :=
  Or.inr h

theorem terminate_forces_self (t : Cond) (s : St) : Forced (terminate t s) t :=
  Forced_self _ t (by simp [terminate])

example : (eval { pred := fun _ _ => false, clock := fun _ => 0 } (.or 2 (.and 3 (.leaf 0 false .never) (.leaf 1 false .never)) (.leaf 0 false .never))
    (terminate (.leaf 0 false .never) {})).1 = true := by decide

/-! ### or / and -/

/-- `or`: true exactly when either operand is; the second operand is evaluated (in the state the
first one left) iff the first one answered false. -/
theorem or_spec (env : Env) (i : Nat) (a b : Cond) (s : St) (h : s.term i = false) :
    (eval env (.or i a b) s).1 = ((eval env a s).1 || (eval env b (eval env a s).2).1) ∧
    (eval env (.or i a b) s).2 = (if (eval env a s).1 then (eval env a s).2 else (eval env b (eval env a s).2).2) := by
  simp only [eval, h]
  cases hx : (eval env a s).1 <;> simp

/-- `and`: true exactly when both operands are; the second is evaluated iff the first answered true. -/
theorem and_spec (env : Env) (i : Nat) (a b : Cond) (s : St) (h : s.term i = false) :
    (eval env (.and i a b) s).1 = ((eval env a s).1 && (eval env b (eval env a s).2).1) ∧
    (eval env (.and i a b) s).2 = (if (eval env a s).1 then (eval env b (eval env a s).2).2 else (eval env a s).2) := by
  simp only [eval, h]
  cases hx : (eval env a s).1 <;> simp

/-- the value in **every** state - in particular after any history of operations (`World.run env ops`), of
scripted operand changes and of `terminate()` calls on the combination, on its operands or on copies of them (copies
are the same tree): no hypothesis on the flags.  `or` is true exactly when it has been terminated itself or either
operand is (the second evaluated in the state the first left, only if the first was false). -/
theorem or_value (env : Env) (i : Nat) (a b : Cond) (s : St) :
    (eval env (.or i a b) s).1 = (s.term i || ((eval env a s).1 || (eval env b (eval env a s).2).1)) := by
  simp only [eval]
  cases ht : s.term i <;> cases hx : (eval env a s).1 <;> simp

theorem and_value (env : Env) (i : Nat) (a b : Cond) (s : St) :
    (eval env (.and i a b) s).1 = (s.term i || ((eval env a s).1 && (eval env b (eval env a s).2).1)) := by
  simp only [eval]
  cases ht : s.term i <;> cases hx : (eval env a s).1 <;> simp

/-- after any history: the statement above at the state an arbitrary list of operations leaves -/
theorem or_and_value_after_any_history {α} [PNum α] (env : Env) (i : Nat) (a b : Cond) (w : World α) (ops : List (Op α)) :
    (eval env (.or i a b) (w.run env ops).st).1 =
      ((w.run env ops).st.term i || ((eval env a (w.run env ops).st).1 || (eval env b (eval env a (w.run env ops).st).2).1)) ∧
    (eval env (.and i a b) (w.run env ops).st).1 =
      ((w.run env ops).st.term i || ((eval env a (w.run env ops).st).1 && (eval env b (eval env a (w.run env ops).st).2).1)) :=
  ⟨or_value env i a b _, and_value env i a b _⟩

-- three deep, combined *after* terminate() had been requested on an operand (impl 1): and(or(never₀, never₁), always₂)
-- inside or(never₃, ·) is true; without the request it is false
example : (eval { pred := fun _ _ => false, clock := fun _ => 0 }
      (.or 6 (.leaf 3 false .never) (.and 5 (.or 4 (.leaf 0 false .never) (.leaf 1 false .never)) (.leaf 2 false .always)))
      (terminate (.leaf 1 false .never) {})).1 = true ∧
    (eval { pred := fun _ _ => false, clock := fun _ => 0 }
      (.or 6 (.leaf 3 false .never) (.and 5 (.or 4 (.leaf 0 false .never) (.leaf 1 false .never)) (.leaf 2 false .always))) {}).1 = false := by
  decide

example : (eval { pred := fun _ _ => true, clock := fun _ => 0 } (.or 2 (.leaf 0 false (.pred 0)) (.leaf 1 false (.pred 1))) {}).2.calls 1 = 0 := by
  decide

/-! ### the constant conditions -/

theorem always_const (env : Env) (i : Nat) (s : St) : (eval env (.leaf i false .always) s).1 = true := by
  simp only [eval]; split <;> rfl

/-- never-terminating: false in every state, unless `terminate()` was requested on it -/
theorem never_const (env : Env) (i : Nat) (s : St) : (eval env (.leaf i false .never) s).1 = s.term i := by
  simp only [eval]
  split
  · rename_i h; simp [h]
  · rename_i h; simp [callLeaf, h]

/-! ### the iteration-count condition

`timesCalled_` is an `unsigned long long` since /repo 354f9f45d; the model counts modulo `env.ctrMod`
(`counterMod = 2^64` by default, `oldCounterMod = 2^32` = the code before the fix). -/

/-- closed form for every `k`, every `n`, every starting counter, every counter width: the `j`-th
evaluation (0-based) answers `(c₀ + j + 1) mod ctrMod > n`. -/
theorem iter_evalN (env : Env) (i n : Nat) (k : Nat) : ∀ (s : St), s.term i = false →
    (evalN env (.leaf i false (.iter n)) k s).1 =
      (List.range k).map (fun j => decide ((s.cnt i + j + 1) % env.ctrMod > n)) := by
  induction k with
  | zero => intro s _; rfl
  | succ k ih =>
    intro s h
    have ht : (eval env (.leaf i false (.iter n)) s).2.term i = false := by rw [eval_term]; exact h
    have h1 : (eval env (.leaf i false (.iter n)) s).1 = decide ((s.cnt i + 1) % env.ctrMod > n) := by
      simp [eval, h, callLeaf]
    have h2 : (eval env (.leaf i false (.iter n)) s).2.cnt i = (s.cnt i + 1) % env.ctrMod := by
      simp [eval, h, callLeaf]
    simp only [evalN, List.range_succ_eq_map, List.map_cons, List.map_map]
    rw [ih _ ht, h1, h2]
    simp only [Nat.add_zero, List.cons.injEq, true_and]
    apply List.map_congr_left
    intro j _
    simp only [Function.comp, Nat.succ_eq_add_one]
    rw [mod_step]

/-- every interleaving: the evaluations of an iteration condition may be separated by arbitrary
batches of other operations (evaluations, polls and terminations of conditions that do not contain
this impl, solution reports, cost reports, new cost-convergence conditions); the `j`-th evaluation
still answers `(c₀ + j + 1) mod ctrMod > n`. -/
theorem iter_spec_interleaved {α} [PNum α] (env : Env) (i n : Nat) (segs : List (List (Op α))) :
    ∀ (w : World α), w.st.term i = false → CbOk i w → (∀ seg ∈ segs, ∀ op ∈ seg, NoTouch i op) →
    (interleave env (.leaf i false (.iter n)) segs w).1 =
      (List.range segs.length).map (fun j => decide ((w.st.cnt i + j + 1) % env.ctrMod > n)) := by
  induction segs with
  | nil => intro w _ _ _; rfl
  | cons seg rest ih =>
    intro w ht hcb hall
    obtain ⟨f1, f2, f3⟩ := run_frame env i seg w (hall seg (List.mem_cons_self ..)) hcb
    have ht1 : (w.run env seg).st.term i = false := f1.trans ht
    have h1 : (eval env (.leaf i false (.iter n)) (w.run env seg).st).1 = decide ((w.st.cnt i + 1) % env.ctrMod > n) := by
      simp [eval, ht1, callLeaf, f2]
    have h2 : (eval env (.leaf i false (.iter n)) (w.run env seg).st).2.cnt i = (w.st.cnt i + 1) % env.ctrMod := by
      simp [eval, ht1, callLeaf, f2]
    have h3 : (eval env (.leaf i false (.iter n)) (w.run env seg).st).2.term i = false := by
      rw [eval_term]; exact ht1
    have ih' := ih { (w.run env seg) with st := (eval env (.leaf i false (.iter n)) (w.run env seg).st).2 } h3
      (fun cc hcc => f3 cc hcc) (fun s hs => hall s (List.mem_cons_of_mem _ hs))
    simp only [interleave, List.length_cons, List.range_succ_eq_map, List.map_cons, List.map_map]
    rw [ih', h1, h2]
    simp only [Nat.add_zero, List.cons.injEq, true_and]
    apply List.map_congr_left
    intro j _
    simp only [Function.comp, Nat.succ_eq_add_one]
    rw [mod_step]

/-- **the property, at full strength for the code as it is** (64-bit counter): a fresh iteration
condition is false for its first `n` evaluations and true from the `(n+1)`-th on, for every `n` and
every evaluation number below 2^64.  2^64 evaluations are not reachable: at 1 ns per evaluation they
take 584 years.  (Beyond that the general closed form `iter_evalN` applies.) -/
theorem iter_spec (env : Env) (henv : env.ctrMod = counterMod) (i n k : Nat) (s : St) (h : s.term i = false)
    (h0 : s.cnt i = 0) (j : Nat) (hj : j < k) (hreach : j + 1 < 18446744073709551616) :
    (evalN env (.leaf i false (.iter n)) k s).1[j]? = some (decide (n < j + 1)) := by
  rw [iter_evalN env i n k s h, h0, henv]
  simp [hj, counterMod, Nat.mod_eq_of_lt hreach]

/-- the hypothesis `s.cnt i = 0` of `iter_spec` is what the constructor and the cast establish: for an object as
`IterationTerminationCondition(n)` constructs it (`timesCalled_ = 0`), turned into a condition by the cast in
any state, evaluation `j+1` of that condition answers `n < j+1`. -/
theorem iter_spec_fresh_object (env : Env) (henv : env.ctrMod = counterMod) (i n k : Nat) (s : St) (h : s.term i = false)
    (j : Nat) (hj : j < k) (hreach : j + 1 < 18446744073709551616) :
    (evalN env (Itc.cast { max := n } i false s).1 k (Itc.cast { max := n } i false s).2).1[j]? =
      some (decide (n < j + 1)) :=
  iter_spec env henv i n k _ (by simpa [Itc.cast] using h) (by simp [Itc.cast]) j hj hreach

/-- the same between arbitrary batches of other operations -/
theorem iter_spec_every_interleaving {α} [PNum α] (env : Env) (henv : env.ctrMod = counterMod) (i n : Nat)
    (segs : List (List (Op α))) (w : World α) (ht : w.st.term i = false) (hcb : CbOk i w)
    (hall : ∀ seg ∈ segs, ∀ op ∈ seg, NoTouch i op) (h0 : w.st.cnt i = 0)
    (j : Nat) (hj : j < segs.length) (hreach : j + 1 < 18446744073709551616) :
    (interleave env (.leaf i false (.iter n)) segs w).1[j]? = some (decide (n < j + 1)) := by
  rw [iter_spec_interleaved env i n segs w ht hcb hall, h0, henv]
  simp [hj, counterMod, Nat.mod_eq_of_lt hreach]

/-- the code before /repo 354f9f45d (32-bit counter, `ctrMod = oldCounterMod`) did **not** satisfy
`iter_spec`: evaluation number 2^32 of an `n = 0` condition answered false (finding F16, fixed). -/
theorem iter_spec_old_fails :
    ¬ (∀ (env : Env), env.ctrMod = oldCounterMod → ∀ (i n k : Nat) (s : St), s.term i = false → s.cnt i = 0 →
        ∀ j, j < k → j + 1 < 18446744073709551616 →
        (evalN env (.leaf i false (.iter n)) k s).1[j]? = some (decide (n < j + 1))) := by
  intro hall
  have h := hall { pred := fun _ _ => false, clock := fun _ => 0, ctrMod := oldCounterMod } rfl
    0 0 4294967296 {} rfl rfl 4294967295 (by decide) (by decide)
  rw [iter_evalN _ 0 0 4294967296 {} rfl] at h
  simp [oldCounterMod] at h

example : (evalN { pred := fun _ _ => false, clock := fun _ => 0 } (.leaf 0 false (.iter 2)) 5 {}).1 =
    [false, false, true, true, true] := by
  decide

/-- `reset()` and the object's own `eval()`: after a reset the object starts over -/
theorem itc_reset (o : Itc) : (o.reset.eval counterMod).1 = decide (o.max < 1) := by
  simp [Itc.reset, Itc.eval, counterMod]

/-- `k` public `eval()` calls in a row are the closed form used by the driver's `itcspin` -/
theorem itc_spin (m : Nat) (o : Itc) (k : Nat) : ((o.spin m k).eval m).2 = o.spin m (k + 1) :=
  Itc.spin_succ m o k

/-- the cast copies the counter: the new condition continues from the object's count and shares
nothing with the object afterwards (the object is not part of the state). -/
theorem itc_cast (env : Env) (o : Itc) (i : Nat) (s : St) (h : s.term i = false) :
    (eval env (o.cast i false s).1 (o.cast i false s).2).1 = (o.eval env.ctrMod).1 := by
  simp [Itc.cast, Itc.eval, eval, h, callLeaf]

/-! ### timed conditions over an abstract monotone clock -/

/-- the idealisation over unbounded integers (`mkTimed`): a timed condition created at clock reading `r₀`
with duration `d` answers, at reading `r`, exactly whether more than `d` has elapsed. -/
theorem timed_exact_ideal (env : Env) (i : Nat) (d : Int) (s0 s : St)
    (h : s.term i = false) :
    (eval env (mkTimed env i false d s0).1 s).1 = decide (env.clock s.reads - env.clock s0.reads > d) := by
  simp only [mkTimed, eval, h, callLeaf]
  simp only [Bool.false_eq_true, ↓reduceIte]
  congr 1
  apply propext
  constructor <;> intro hh <;> omega

/-- **the code as it is** (`mkTimedCoded`: `endTimeAfter`, saturating, since /repo f29ac4e4e) meets the same
statement at full strength: for *every* integer duration `d` (in the clock's nanoseconds; no range
hypothesis on `d`), provided only that the clock's own readings are representable time points
(`time::point::min() < now ≤ time::point::max()`, i.e. the years 1678 … 2262 for the system clock):
false before and at the deadline, true after it - and when the deadline lies beyond the clock's range,
false (resp. true) at every reading. -/
theorem timed_exact (env : Env) (base : Int) (i : Nat) (d : Int) (s0 s : St) (h : s.term i = false)
    (hclock : ∀ k, -9223372036854775808 < base + env.clock k ∧ base + env.clock k ≤ 9223372036854775807) :
    (eval env (mkTimedCoded env base i false d s0).1 s).1 = decide (env.clock s.reads - env.clock s0.reads > d) := by
  have h0 := hclock s0.reads
  have h1 := hclock s.reads
  simp only [mkTimedCoded, endPointSat, eval, h, callLeaf]
  simp only [Bool.false_eq_true, ↓reduceIte]
  congr 1
  apply propext
  split
  · constructor <;> intro hh <;> omega
  · split
    · constructor <;> intro hh <;> omega
    · constructor <;> intro hh <;> omega

/-- every `double` duration: the `double` factories use `d = secondsToNsSat sec` (`saturatedSeconds`), so
the condition is true exactly when more than *that many nanoseconds* have elapsed.  What the conversion
does outside `time::seconds`' range is stated by `seconds_nan` (NaN counts as 0: the condition turns true
as soon as the clock has moved) and `seconds_huge` (+infinity, DBL_MAX, anything from ~292 years on:
`duration::max()`, and then `timed_huge_never_true`). -/
theorem timed_exact_double (env : Env) (base : Int) (i : Nat) (sec : Float) (s0 s : St) (h : s.term i = false)
    (hclock : ∀ k, -9223372036854775808 < base + env.clock k ∧ base + env.clock k ≤ 9223372036854775807) :
    (eval env (mkTimedCoded env base i false (secondsToNsSat sec) s0).1 s).1 =
      decide (env.clock s.reads - env.clock s0.reads > secondsToNsSat sec) :=
  timed_exact env base i _ s0 s h hclock

theorem seconds_nan (sec : Float) (h : sec.isNaN = true) : secondsToNsSat sec = 0 := by
  simp [secondsToNsSat, h]

theorem seconds_huge (sec : Float) (hn : sec.isNaN = false)
    (hbig : Float.ofInt 9223372036854775807 / 1000000000.0 - 1.0 ≤ sec) :
    secondsToNsSat sec = 9223372036854775807 := by
  simp [secondsToNsSat, hn, hbig]

/-- a condition whose duration saturated (`duration::max()`: "run for ever"), created at or after the clock's
epoch, is false at every representable reading of the clock - what F195 violated.  (Created before the
epoch, 292 years can really elapse within the clock's range; `timed_exact` covers that.) -/
theorem timed_huge_never_true (env : Env) (base : Int) (i : Nat) (s0 s : St) (h : s.term i = false)
    (hclock : ∀ k, -9223372036854775808 < base + env.clock k ∧ base + env.clock k ≤ 9223372036854775807)
    (hepoch : 0 ≤ base + env.clock s0.reads) :
    (eval env (mkTimedCoded env base i false 9223372036854775807 s0).1 s).1 = false := by
  rw [timed_exact env base i _ s0 s h hclock]
  have h0 := hclock s0.reads
  have h1 := hclock s.reads
  simp only [decide_eq_false_iff_not]
  omega

example : (eval { pred := fun _ _ => false, clock := fun k => (k : Int) * 1000000000 }
    (mkTimedCoded { pred := fun _ _ => false, clock := fun k => (k : Int) * 1000000000 } 1000000000000000 0 false
      9223372036854775807 {}).1 { reads := 5 }).1 = false := by decide

/-- the code **before** f29ac4e4e (`mkTimedOld`: wrapping 64-bit end point) met the statement only while
the end point fitted the clock's range … -/
theorem timed_exact_old_partial (env : Env) (base : Int) (i : Nat) (d : Int) (s0 s : St) (h : s.term i = false)
    (hlo : -9223372036854775808 ≤ base + env.clock s0.reads + d)
    (hhi : base + env.clock s0.reads + d < 9223372036854775808) :
    (eval env (mkTimedOld env base i false d s0).1 s).1 = decide (env.clock s.reads - env.clock s0.reads > d) := by
  simp only [mkTimedOld, endPointOld, wrap64_of_inRange _ hlo hhi, eval, h, callLeaf]
  simp only [Bool.false_eq_true, ↓reduceIte]
  congr 1
  apply propext
  constructor <;> intro hh <;> omega

/-- … and not beyond (F195, fixed): a duration of 2^63 ns (292 years; likewise +infinity, DBL_MAX,
`time::duration::max()` after the old conversion) wrapped around and the condition was true at the very
reading it was created at. -/
theorem timed_overflow_fails :
    ¬ (∀ (env : Env) (base : Int) (i : Nat) (d : Int) (s0 s : St), s.term i = false →
        (eval env (mkTimedOld env base i false d s0).1 s).1 = decide (env.clock s.reads - env.clock s0.reads > d)) := by
  intro hall
  have h := hall { pred := fun _ _ => false, clock := fun _ => 0 } 0 0 9223372036854775808 {} {} rfl
  revert h
  decide

/-- never reverting: with a monotone clock, once a timed condition has answered true it answers true
after any further operations (which may read the clock, terminate, poll, report costs …). -/
theorem timed_monotone {α} [PNum α] (env : Env) (hmono : ∀ m n, m ≤ n → env.clock m ≤ env.clock n)
    (i : Nat) (e : Int) (w : World α) (ops : List (Op α))
    (h1 : (eval env (.leaf i false (.timed e)) w.st).1 = true) :
    (eval env (.leaf i false (.timed e))
      (World.run env { w with st := (eval env (.leaf i false (.timed e)) w.st).2 } ops).st).1 = true := by
  generalize hw' : World.run env { w with st := (eval env (.leaf i false (.timed e)) w.st).2 } ops = w'
  cases hterm' : w'.st.term i with
  | true => rw [eval_of_term env _ _ (by simpa [Cond.impl] using hterm')]
  | false =>
    have hreads : w.st.reads ≤ w'.st.reads := by
      rw [← hw']
      exact Nat.le_trans (eval_reads env (.leaf i false (.timed e)) w.st)
        (run_reads_mono env ops { w with st := (eval env (.leaf i false (.timed e)) w.st).2 })
    cases hterm : w.st.term i with
    | true =>
      have : w'.st.term i = true := by
        rw [← hw']
        apply run_term_mono
        show (eval env (.leaf i false (.timed e)) w.st).2.term i = true
        rw [eval_term]; exact hterm
      rw [hterm'] at this; exact absurd this (by simp)
    | false =>
      simp only [eval, hterm, callLeaf] at h1
      simp only [eval, hterm', callLeaf]
      simp only [Bool.false_eq_true, ↓reduceIte, decide_eq_true_eq] at h1 ⊢
      have := hmono _ _ hreads
      omega

/-! ### the periodically evaluated form -/

/-- an evaluation of the polled form invokes nothing and returns the cache -/
theorem polled_eval (env : Env) (i : Nat) (k : Leaf) (s : St) (h : s.term i = false) :
    eval env (.leaf i true k) s = (s.cache i, s) := by
  simp [eval, h]

/-- the cache holds what the function returned at the last poll: an evaluation after a poll reports
the predicate's value *at that poll* (so it lags by at most one polling period). -/
theorem polled_lag (env : Env) (i : Nat) (k : Leaf) (s : St) (h : s.term i = false) :
    (eval env (.leaf i true k) (poll env (.leaf i true k) s)).1 = (callLeaf env i k s).1 := by
  have ht : (poll env (.leaf i true k) s).term i = false := by rw [poll_term]; exact h
  rw [polled_eval env i k _ ht]
  simp [poll, Cond.impl, h, callFn]

/-- once the predicate is true from its `K`-th invocation on and has been invoked `K` times, any one
poll makes the polled condition true: "no later than one period afterwards". -/
theorem polled_catches_up (env : Env) (i id K : Nat) (s : St) (h : s.term i = false)
    (htrue : ∀ j, K ≤ j → env.pred id j = true) (hK : K ≤ s.calls id) :
    (eval env (.leaf i true (.pred id)) (poll env (.leaf i true (.pred id)) s)).1 = true ∧
    K ≤ (poll env (.leaf i true (.pred id)) s).calls id := by
  constructor
  · rw [polled_lag env i _ s h]
    simp [callLeaf, htrue _ hK]
  · simp only [poll, Cond.impl, h, callFn, callLeaf]
    simp only [Bool.false_eq_true, ↓reduceIte, upd_same]
    omega

/-- the periodic timed form never reverts either: with a monotone clock, once some poll has read a clock
beyond the end point, every later poll (at a later reading) leaves the condition true. -/
theorem polled_timed_never_reverts (env : Env) (hmono : ∀ m n, m ≤ n → env.clock m ≤ env.clock n)
    (i : Nat) (e : Int) (s s' : St) (hpast : env.clock s.reads > e) (hle : s.reads ≤ s'.reads)
    (ht : s'.term i = false) :
    (eval env (.leaf i true (.timed e)) (poll env (.leaf i true (.timed e)) s')).1 = true := by
  rw [polled_lag env i _ s' ht]
  simp only [callLeaf, decide_eq_true_eq]
  have := hmono _ _ hle
  omega

/-- the poller stops working after `terminate()`: a poll changes nothing -/
theorem polled_stops (env : Env) (c : Cond) (s : St) (h : s.term c.impl = true) : poll env c s = s := by
  simp [poll, h]

example : (eval { pred := fun _ _ => true, clock := fun _ => 0 } (.leaf 0 true (.pred 0)) {}).1 = false ∧
    (eval { pred := fun _ _ => true, clock := fun _ => 0 } (.leaf 0 true (.pred 0)) (poll { pred := fun _ _ => true, clock := fun _ => 0 } (.leaf 0 true (.pred 0)) {})).1 = true := by
  decide

/-! ### the polled form, every thread interleaving

`PState.step` (Model/Ptc.lean) has one step per shared-memory action: the poller's `check` of the stop
flags, its `call` of the predicate, its `store` of the returned value, and `terminate` / `eval` /
`destroy` from other threads.  A list of steps is an interleaving; `results` records for every
evaluation whether `terminate()` had been requested before it (`req`) and what it answered. -/

/-- the step machine's `eval` is the tree model's `eval` of a polled leaf: `terminate_ || evalValue_` -/
theorem polled_eval_eq (env : Env) (i : Nat) (k : Leaf) (s : St) :
    (eval env (.leaf i true k) s).1 = (s.term i || s.cache i) := by
  simp only [eval]
  cases h : s.term i <;> simp

/-- **for EVERY interleaving** of poller steps (check / call predicate / store), `terminate()`,
evaluations and destruction, from the initial state, for every predicate trace: every evaluation
made after a `terminate()` request answers true - in particular when `terminate()` lands between the
poller's call of the predicate and the store of a `false` result. -/
theorem polled_terminate_sticky_all_interleavings (pred : Nat → Bool) (steps : List PStep) :
    ∀ p ∈ (PState.run .asCoded pred {} steps).results, p.1 = true → p.2 = true :=
  (pinv_run pred steps {} ⟨fun h => by simp at h, fun p hp => by simp at hp⟩).2

/-- the same from any state in which no terminate is pending unseen (e.g. any reachable state) -/
theorem polled_terminate_sticky_from (pred : Nat → Bool) (steps : List PStep) (s : PState) (h : PInv s) :
    ∀ p ∈ (s.run .asCoded pred steps).results, p.1 = true → p.2 = true :=
  (pinv_run pred steps s h).2

/-- the variant whose `eval` reads only the cache (and whose `terminate` writes the cache) is NOT
sticky: the poller calls the predicate (false), `terminate()` arrives, the poller stores its stale
`false`, sees the flag and exits; the evaluation after the request answers false, for ever. -/
theorem polled_cache_only_loses_terminate :
    ∃ (pred : Nat → Bool) (steps : List PStep),
      (true, false) ∈ (PState.run .cacheOnly pred {} steps).results ∧
      (PState.run .cacheOnly pred {} steps).pc = .done := by
  refine ⟨fun _ => false, [.check, .call, .terminate, .store, .check, .eval], ?_, ?_⟩ <;> decide

-- the same interleaving on the code as it is answers true
example : (PState.run .asCoded (fun _ => false) {} [.check, .call, .terminate, .store, .check, .eval]).results =
    [(true, true)] := by decide

/-! ### the periodically evaluated form: "no later than one period afterwards"

`TState.step` (Model/Ptc.lean) is `periodicEval` with its sleeps: the outer test of the stop flags, the call
of the predicate, the store, and `count` rounds of (test `i < count`, test the stop flags, `sleep_for(s)`);
`napPlan period` is the `count` and `s` the code computes from the period (run at `Float` by the driver
against the `nanosleep` calls of the real poller thread; theorems over ℚ).  Time is virtual: only the
poller's sleeps take time and it wakes up punctually (the scheduler's lateness is assumption σ, checked
against the real clock with a margin).  A list of steps is an interleaving of the poller with `terminate()`,
destruction and evaluations from other threads. -/

/-- the sleeps of one round add up to at most the period (and to no less than the period minus `count`
microseconds, `time::seconds` truncating each sleep to whole microseconds); there is at least one round;
every sleep is shorter than 2 ms, so the stop flags are looked at that often.  Every period the thread is
started with, below 46 days (beyond 2^32 ms the conversion of `count` to `unsigned int` is undefined). -/
theorem poll_schedule_within_period (period : ℚ) (h0 : 0 < period) (hbig : period ≤ 4000000) :
    1 ≤ (napPlan period).count ∧ 0 ≤ (napPlan period).nap ∧ (napPlan period).nap < 2000000 ∧
    (((napPlan period).count : Nat) : ℚ) * (((napPlan period).nap : Int) : ℚ) ≤ period * 1000000000 ∧
    period * 1000000000 - ((napPlan period).count : ℚ) * 1000 <
      (((napPlan period).count : Nat) : ℚ) * (((napPlan period).nap : Int) : ℚ) :=
  let h := napPlan_bounds period h0 hbig
  ⟨h.1, h.2.1, h.2.2.1, h.2.2.2.1, h.2.2.2.2.1⟩

-- the hypotheses are met by ordinary periods (0.3 s; at `Float` the driver computes 300 sleeps of 1 ms for it,
-- and the real poller thread makes exactly those): at least one sleep per round, of positive length
example : 1 ≤ (napPlan (3 / 10 : ℚ)).count ∧ 0 < (napPlan (3 / 10 : ℚ)).nap :=
  ⟨(poll_schedule_within_period _ (by norm_num) (by norm_num)).1, napPlan_nap_pos _ (by norm_num) (by norm_num)⟩

/-- **the clause at full strength** (virtual time, see above): for every period from 1 µs to 46 days, every
predicate that is true from time `T` on, and **every** interleaving of the poller's steps with `terminate()`,
destruction and evaluations from the initial state: every evaluation made at a time `≥ T + period` answered
true - the periodically evaluated condition reports true no later than one period after the predicate does.
(Below 1 µs the sleep is truncated to 0: the poller polls without pause and virtual time stands still.) -/
theorem polled_true_within_one_period (period : ℚ) (h1 : 1 / 1000000 ≤ period) (hbig : period ≤ 4000000)
    (pred : Nat → Bool) (T : Nat) (htrue : ∀ t, T ≤ t → pred t = true) (steps : List TStep) :
    ∀ p ∈ (TState.run (napPlan period).count (napPlan period).nap.toNat pred {} steps).results,
      (T : ℚ) + period * 1000000000 ≤ (p.1 : ℚ) → p.2 = true := by
  have h0 : 0 < period := lt_of_lt_of_le (by norm_num) h1
  obtain ⟨hc1, hn0, _, htot, _⟩ := poll_schedule_within_period period h0 hbig
  have hnpos := napPlan_nap_pos period h1 hbig
  have hcast : (((napPlan period).nap.toNat : Nat) : ℚ) = (((napPlan period).nap : Int) : ℚ) := by
    have : (((napPlan period).nap.toNat : Nat) : Int) = (napPlan period).nap := Int.toNat_of_nonneg hn0
    exact_mod_cast congrArg (fun z : Int => (z : ℚ)) this
  have hpos : 0 < (napPlan period).count * (napPlan period).nap.toNat :=
    Nat.mul_pos (by omega) (by omega)
  intro p hp hlate
  refine rinv_run _ _ pred T htrue hpos steps {} (tinv_init _ _ pred) (fun q hq => by simp at hq) p hp ?_
  have : (((T + (napPlan period).count * (napPlan period).nap.toNat : Nat)) : ℚ) ≤ (p.1 : ℚ) := by
    push_cast
    rw [hcast]
    linarith
  exact_mod_cast this

/-- the step-machine statement behind it, for any `count` and sleep length: an evaluation at a time
`≥ T + count·nap` answers true (arithmetic-free: it holds for whatever numbers the code computes). -/
theorem polled_true_within_count_naps (count nap : Nat) (hpos : 0 < count * nap) (pred : Nat → Bool) (T : Nat)
    (htrue : ∀ t, T ≤ t → pred t = true) (steps : List TStep) :
    ∀ p ∈ (TState.run count nap pred {} steps).results, T + count * nap ≤ p.1 → p.2 = true :=
  rinv_run count nap pred T htrue hpos steps {} (tinv_init count nap pred) (fun q hq => by simp at hq)

-- count 3, sleeps of 10: the predicate turns true at time 5; the call at time 0 still saw `false`, so the
-- evaluation at time 20 answers false; the next call is at time 30 = one round later, after it: true
example : (TState.run 3 10 (fun t => decide (5 ≤ t)) {}
    [.poller, .poller, .poller, .poller, .poller, .poller, .poller, .eval,
     .poller, .poller, .poller, .poller, .poller, .poller, .eval]).results = [(30, true), (20, false)] := by decide

/-- as long as neither `terminate()` nor destruction has been requested, the poller makes exactly `count`
`nanosleep` calls (none when the sleep length is 0) between two consecutive calls of the predicate, and none
before the first - in every interleaving.  (`lastGap` is what the harness reads at the gate.) -/
theorem poller_sleeps_count_times_between_calls (count nap : Nat) (pred : Nat → Bool) (steps : List TStep)
    (hreq : (TState.run count nap pred {} steps).req = false)
    (hpc : (TState.run count nap pred {} steps).pc = .store) :
    ((TState.run count nap pred {} steps).calls = 1 ∧ (TState.run count nap pred {} steps).lastGap = 0) ∨
    (2 ≤ (TState.run count nap pred {} steps).calls ∧
      (TState.run count nap pred {} steps).lastGap = napCalls nap count) := by
  have h := (ginv_run count nap pred steps {} (ginv_init count nap) hreq).2.2
  rw [hpc] at h
  exact h.2

example : (TState.run 2 7 (fun _ => false) {}
    [.poller, .poller, .poller, .poller, .poller, .poller, .poller, .poller, .poller, .poller, .poller]).lastGap = 2 := by
  decide

/-- once `terminate()` or destruction has been requested the poller starts at most one more sleep and at
most one more call of the predicate, in every interleaving … -/
theorem poller_stops_within_one_nap (count nap : Nat) (pred : Nat → Bool) (steps : List TStep) :
    (TState.run count nap pred {} steps).napsAfterReq ≤ 1 ∧ (TState.run count nap pred {} steps).callsAfterReq ≤ 1 := by
  obtain ⟨_, _, h3, h4⟩ := qinv_run count nap pred steps {} qinv_init
  exact ⟨by omega, by omega⟩

/-- … and, from any state in which a stop flag is set, it has left its loop after four of its own steps
(so the destructor's `join` returns within one sleep, which is shorter than 2 ms). -/
theorem poller_gone_after_four_steps (count nap : Nat) (pred : Nat → Bool) (s : TState)
    (h : (s.term || s.stop) = true) :
    (s.run count nap pred [.poller, .poller, .poller, .poller]).pc = .done :=
  tstop_four count nap pred s h

-- terminate() while the poller is inside its call: no further sleep, no further call
example : (TState.run 3 10 (fun _ => false) {} [.poller, .poller, .terminate, .poller, .poller, .poller, .poller, .poller]).pc = .done ∧
    (TState.run 3 10 (fun _ => false) {} [.poller, .poller, .terminate, .poller, .poller, .poller, .poller, .poller]).naps = 0 := by
  decide

/-! ### the exact-solution condition -/

/-- mirrors the problem definition: true iff it holds a solution that is not approximate -/
theorem exactSoln_mirrors (env : Env) (i : Nat) (s : St) (h : s.term i = false) :
    (eval env (.leaf i false .exact) s).1 = hasExact s.solns ∧
    (hasExact s.solns = true ↔ ∃ a ∈ s.solns, a = false) := by
  constructor
  · simp [eval, h, callLeaf]
  · simp [hasExact, List.any_eq_true]

theorem exactSoln_add (a : Bool) (s : St) : hasExact (addSoln a s).solns = (!a || hasExact s.solns) := by
  simp [addSoln, hasExact]

theorem exactSoln_clear (s : St) : hasExact (clearSolns s).solns = false := by
  simp [clearSolns, hasExact]

example : (eval { pred := fun _ _ => false, clock := fun _ => 0 } (.leaf 0 false .exact) (addSoln false (addSoln true {}))).1 = true := by decide

/-! ### cost convergence `[EX over ℚ]`

`avg`, `FiresAt`, `reportSeq` are defined in `Proofs/PtcCost.lean`: `avg win c k` is the property's
recurrence (`avg₀ = 0`, `avgₖ = ((m-1)·avgₖ₋₁ + cₖ)/m`, `m = min(k, window)` - the cumulative mean
of the first `window` costs, then an exponential smoothing with weight `1/window`);
`FiresAt win ε c k` says `k ≥ 1`, `k ≥ window` and `(1-ε)·avgₖ₋₁ < avgₖ < (1+ε)·avgₖ₋₁`;
`reportSeq c k w` pushes `c 0 … c (k-1)` through the callback (`processNewSolution`, as coded). -/

/-- after `k` reported solutions the condition is true iff some report `j ≤ k` qualified: it fires
at precisely the first qualifying report and stays fired.  Every window `1 ≤ win < 2^64`, every ε,
every cost sequence, every `k`. -/
theorem costConv_spec (env : Env) (i win : Nat) (eps : ℚ) (c : Nat → ℚ) (hw1 : 1 ≤ win) (hw2 : win < sizeMod)
    (w0 : World ℚ) (ht : w0.st.term i = false) (k : Nat) :
    (eval env (newCostConv i win eps w0).1 (reportSeq c k (newCostConv i win eps w0).2).st).1 = true ↔
      ∃ j, j ≤ k ∧ FiresAt win eps c j := by
  have h := (reportSeq_spec i win eps c hw1 hw2 (newCostConv i win eps w0).2
    (by simp [newCostConv, PNum.ofNat]) (by simpa [newCostConv] using ht) k).2
  simp only [newCostConv] at h ⊢
  rw [never_const]
  exact h

/-- not before the first qualifying report -/
theorem costConv_not_before (env : Env) (i win : Nat) (eps : ℚ) (c : Nat → ℚ) (hw1 : 1 ≤ win) (hw2 : win < sizeMod)
    (w0 : World ℚ) (ht : w0.st.term i = false) (k : Nat) (hnone : ∀ j, j ≤ k → ¬ FiresAt win eps c j) :
    (eval env (newCostConv i win eps w0).1 (reportSeq c k (newCostConv i win eps w0).2).st).1 = false := by
  cases hv : (eval env (newCostConv i win eps w0).1 (reportSeq c k (newCostConv i win eps w0).2).st).1 with
  | false => rfl
  | true =>
    obtain ⟨j, hj, hf⟩ := (costConv_spec env i win eps c hw1 hw2 w0 ht k).mp hv
    exact absurd hf (hnone j hj)

/-- from the qualifying report on, for ever -/
theorem costConv_stays_fired (env : Env) (i win : Nat) (eps : ℚ) (c : Nat → ℚ) (hw1 : 1 ≤ win) (hw2 : win < sizeMod)
    (w0 : World ℚ) (ht : w0.st.term i = false) (k0 k : Nat) (hf : FiresAt win eps c k0) (hk : k0 ≤ k) :
    (eval env (newCostConv i win eps w0).1 (reportSeq c k (newCostConv i win eps w0).2).st).1 = true :=
  (costConv_spec env i win eps c hw1 hw2 w0 ht k).mpr ⟨k0, hk, hf⟩

/-- **every interleaving**: report `j+1` may be preceded by an arbitrary batch `segs j` of other operations -
evaluations and polls of any condition (this one included), `terminate()` of other conditions, solution
reports - and a last batch may follow the `k`-th report; the condition is still true iff some report `j ≤ k`
qualified.  (Excluded, because they change the answer by design: `terminate()` of this very condition and the
construction of a second cost-convergence condition, which takes the callback away.) -/
theorem costConv_spec_every_interleaving (env : Env) (i win : Nat) (eps : ℚ) (c : Nat → ℚ) (hw1 : 1 ≤ win)
    (hw2 : win < sizeMod) (segs : Nat → List (Op ℚ)) (hq : ∀ k, ∀ op ∈ segs k, CostQuiet i op)
    (w0 : World ℚ) (ht : w0.st.term i = false) (k : Nat) :
    (eval env (newCostConv i win eps w0).1
      ((reportSeqI env c segs k (newCostConv i win eps w0).2).run env (segs k)).st).1 = true ↔
      ∃ j, j ≤ k ∧ FiresAt win eps c j := by
  have h := (reportSeqI_spec env i win eps c hw1 hw2 segs hq (newCostConv i win eps w0).2
    (by simp [newCostConv, PNum.ofNat]) (by simpa [newCostConv] using ht) k).2
  have hqk := (run_quiet env i (segs k) (reportSeqI env c segs k (newCostConv i win eps w0).2) (hq k)).2
  simp only [newCostConv] at h hqk ⊢
  rw [never_const, hqk]
  exact h

-- non-vacuity of the side condition: evaluations of the condition itself, polls, other terminations qualify
example : CostQuiet (α := ℚ) 3 (.eval (.leaf 3 false .never)) ∧ CostQuiet (α := ℚ) 3 (.terminate (.leaf 4 false .never)) ∧
    ¬ CostQuiet (α := ℚ) 3 (.terminate (.leaf 3 false .never)) := by
  refine ⟨trivial, ?_, ?_⟩
  · simp [CostQuiet, Cond.impl]
  · simp [CostQuiet, Cond.impl]

/-- the state the callback carries is exactly `(avgₖ, k)` -/
theorem costConv_state (i win : Nat) (eps : ℚ) (c : Nat → ℚ) (hw1 : 1 ≤ win) (hw2 : win < sizeMod)
    (w0 : World ℚ) (ht : w0.st.term i = false) (k : Nat) :
    (reportSeq c k (newCostConv i win eps w0).2).cb = some ⟨i, win, eps, avg win c k, k⟩ :=
  (reportSeq_spec i win eps c hw1 hw2 (newCostConv i win eps w0).2
    (by simp [newCostConv, PNum.ofNat]) (by simpa [newCostConv] using ht) k).1

-- window 2, ε = 1/10, constant cost 1: the second report qualifies, the first cannot (avg₀ = 0)
example : FiresAt 2 (1 / 10) (fun _ => 1) 2 ∧ ¬ FiresAt 2 (1 / 10) (fun _ => 1) 1 := by
  constructor
  · refine ⟨by norm_num, by norm_num, ?_, ?_⟩ <;> norm_num [avg]
  · intro h; exact absurd h.2.1 (by norm_num)

/-- window 1 (`solutionsWindow = 1`): the "average" is the last cost, so the condition fires at the first
report `k ≥ 2` whose cost is within the relative threshold of the previous one. -/
theorem costConv_window_one (eps : ℚ) (c : Nat → ℚ) (k : Nat) :
    FiresAt 1 eps c (k + 2) ↔ ((1 - eps) * c k < c (k + 1) ∧ c (k + 1) < (1 + eps) * c k) := by
  simp only [FiresAt, avg_window_one, show k + 2 - 1 = k + 1 by omega]
  constructor
  · rintro ⟨_, _, h1, h2⟩; exact ⟨h1, h2⟩
  · rintro ⟨h1, h2⟩; exact ⟨by omega, by omega, h1, h2⟩

/-- and the very first report can never fire, whatever the window (avg₀ = 0, both inequalities strict) -/
theorem costConv_first_never (win : Nat) (eps : ℚ) (c : Nat → ℚ) : ¬ FiresAt win eps c 1 := by
  rintro ⟨_, _, h1, h2⟩
  simp only [Nat.sub_self, avg, mul_zero] at h1 h2
  exact absurd (lt_trans h1 h2) (lt_irrefl _)

/-! ### "changed by less than the relative threshold": negative averages (finding F481)

The property's words, taken literally: report `k` qualifies when `|avgₖ − avgₖ₋₁| < ε·|avgₖ₋₁|` (`FiresAtRel`).
The code tests `(1−ε)·avgₖ₋₁ < avgₖ < (1+ε)·avgₖ₋₁` (`FiresAt`, what `costConv_spec` is stated with). -/

/-- the literal reading of "the moving average changed by less than the relative threshold" -/
def FiresAtRel (win : Nat) (eps : ℚ) (c : Nat → ℚ) (k : Nat) : Prop :=
  1 ≤ k ∧ win ≤ k ∧ |avg win c k - avg win c (k - 1)| < eps * |avg win c (k - 1)|

/-- the part that holds: while the previous average is not negative, the coded test *is* the literal reading -/
theorem costConv_relative_partial (win : Nat) (eps : ℚ) (c : Nat → ℚ) (k : Nat) (hnn : 0 ≤ avg win c (k - 1)) :
    FiresAt win eps c k ↔ FiresAtRel win eps c k := by
  simp only [FiresAt, FiresAtRel, abs_of_nonneg hnn, abs_lt]
  constructor
  · rintro ⟨h1, h2, h3, h4⟩; exact ⟨h1, h2, by linarith, by linarith⟩
  · rintro ⟨h1, h2, h3, h4⟩; exact ⟨h1, h2, by linarith, by linarith⟩

/-- with a negative previous average and `ε ≥ 0` the coded band `((1−ε)·avg, (1+ε)·avg)` is empty: the report can
never qualify, however little the average moved … -/
theorem costConv_negative_average_never_fires (win : Nat) (eps : ℚ) (c : Nat → ℚ) (k : Nat) (he : 0 ≤ eps)
    (hneg : avg win c (k - 1) < 0) : ¬ FiresAt win eps c k := by
  rintro ⟨_, _, h1, h2⟩
  nlinarith

/-- … so the full statement fails for the code as it is (F481): window 1, ε = 1/10, every reported cost −1: at the
second report the average has not changed at all, the literal reading fires, the coded test does not (and by
`costConv_spec` the condition stays false for ever). -/
theorem costConv_relative_fails :
    ¬ (∀ (win : Nat) (eps : ℚ) (c : Nat → ℚ) (k : Nat), FiresAt win eps c k ↔ FiresAtRel win eps c k) := by
  intro hall
  have hrel : FiresAtRel 1 (1 / 10) (fun _ => -1) 2 := by
    refine ⟨by norm_num, by norm_num, ?_⟩
    rw [avg_window_one, show 2 - 1 = 0 + 1 by norm_num, avg_window_one]
    norm_num
  have hf := (hall 1 (1 / 10) (fun _ => -1) 2).mpr hrel
  refine costConv_negative_average_never_fires 1 (1 / 10) (fun _ => -1) 2 (by norm_num) ?_ hf
  rw [show 2 - 1 = 0 + 1 by norm_num, avg_window_one]
  norm_num

-- the same sequence with cost +1 qualifies under both readings
example : FiresAt 1 (1 / 10) (fun _ => 1) 2 ∧ FiresAtRel 1 (1 / 10) (fun _ => 1) 2 := by
  have h : FiresAt 1 (1 / 10) (fun _ => 1) 2 := (costConv_window_one (1 / 10) (fun _ => 1) 0).mpr (by norm_num)
  exact ⟨h, (costConv_relative_partial 1 (1 / 10) (fun _ => 1) 2 (by
    rw [show 2 - 1 = 0 + 1 by norm_num, avg_window_one]; norm_num)).mp h⟩

/-- `ε = 0` (and any `ε ≤ 0`): both inequalities are strict, no report ever qualifies -/
theorem costConv_eps_nonpos_never_fires (win : Nat) (eps : ℚ) (c : Nat → ℚ) (k : Nat) (he : eps ≤ 0)
    (hnn : 0 ≤ avg win c (k - 1)) : ¬ FiresAt win eps c k := by
  rintro ⟨_, _, h1, h2⟩
  nlinarith

/-- `ε ≥ 1` with a positive previous average: the lower bound is no constraint for a positive new average; the
report qualifies iff the average did not grow to `(1+ε)` times its value (window reached) -/
theorem costConv_eps_ge_one (win : Nat) (eps : ℚ) (c : Nat → ℚ) (k : Nat) (he : 1 ≤ eps)
    (hp : 0 < avg win c (k - 1)) (hn : 0 < avg win c k) :
    FiresAt win eps c k ↔ (1 ≤ k ∧ win ≤ k ∧ avg win c k < (1 + eps) * avg win c (k - 1)) := by
  simp only [FiresAt]
  constructor
  · rintro ⟨h1, h2, _, h4⟩; exact ⟨h1, h2, h4⟩
  · rintro ⟨h1, h2, h4⟩; exact ⟨h1, h2, by nlinarith, h4⟩

/-! ### `timedPlannerTerminationCondition(duration, interval)`: the clamp `[EX over ℚ]` -/

/-- the period handed to the impl is `min(duration, interval)`; the condition is the periodic form iff both
are positive - in particular a non-positive duration gives the direct form whatever the interval. -/
theorem timed_interval_clamp (d i : ℚ) :
    timedInterval d i = min d i ∧ (0 < timedInterval d i ↔ (0 < d ∧ 0 < i)) := by
  refine ⟨timedInterval_eq_min d i, ?_⟩
  rw [timedInterval_eq_min, lt_min_iff]

/-! ### `Planner::solve(double)` `[EX over ℚ]` -/

/-- `solve(t)` uses the direct timed condition iff `t < 1`, otherwise the polled one with interval
`min(t/100, 0.1)`; that interval is positive (so the impl really polls) and not larger than the
duration (so `timedPlannerTerminationCondition(duration, interval)` does not clamp it). -/
theorem solve_double_picks_polled (t : ℚ) :
    (t < 1 → solveDouble t = .direct t) ∧
    (1 ≤ t → solveDouble t = .polled t (min (t / 100) (1 / 10)) ∧
      timedInterval t (min (t / 100) (1 / 10)) = min (t / 100) (1 / 10) ∧ 0 < min (t / 100) (1 / 10)) :=
  ⟨solveDouble_lt t, fun h => ⟨solveDouble_ge t h, solve_interval_ok t h⟩⟩

example : solveDouble (5 : ℚ) = .polled 5 (1 / 20) := by
  rw [solveDouble_ge 5 (by norm_num)]; norm_num

end OmplModel.Props.C18
