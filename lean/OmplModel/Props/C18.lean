import OmplModel.Model.Ptc
/-! C18 property theorems (placeholder while the proofs are written). -/
namespace OmplModel.Props.C18
open OmplModel.Ptc

theorem always_const (env : Env) (i : Nat) (s : St) (h : s.term i = false) :
    (eval env (.leaf i false .always) s).1 = true := by
  simp [eval, h, callLeaf]

end OmplModel.Props.C18
