import OmplModel.Proofs.PlannerProtoRoots
import OmplModel.Proofs.PlannerProtoControl
import OmplModel.Proofs.PlannerProtoPrm
import OmplModel.Proofs.PlannerProtoGoal
import OmplModel.Proofs.PlannerProtoForget
import OmplModel.Proofs.PlannerProtoConnect
/-!
# C03 — interrupting, resuming or clearing a planner never corrupts its result

Property theorems about the protocol machine `OmplModel.PlannerProto` (Model/PlannerProto.lean): the calls
`solve k | clear | clearQuery | setProblemDefinition | getPlannerData` (plus `addStartState`,
`setStartAndGoalStates`, `clearSolutionPaths`, destructor) acting on (core, `PlannerInputStates` counters,
problem-definition solution list, allocation log).  `k` is the number of evaluations for which the termination
condition stays false; **every theorem holds for every `k`** (including `k = 0`: the condition is true before the
first iteration), every list of oracle answers and every machine state / every history.  All theorems are
arithmetic-free: no law of the distance type `δ` (the `Float` of the driver) is used, so they hold of the
executable instance that the lock-step run compares with geometric::RRT.

The protocol-level theorems are generic in the search core (`CoreSpec`); those that need to know something about
the core take `LawfulCore cs`, and `rrt_core_lawful` discharges it for the RRT-like tree core.
-/
namespace OmplModel.Props.C03
open OmplModel.PlannerProto

variable {σ δ D C : Type}

/-- states reachable from a freshly constructed planner by any history of calls -/
def reach (cs : CoreSpec σ δ D C) (P : Params σ δ) (ops : List (Op σ D)) : M σ δ C := run cs P (M.init cs) ops

/-- **The status is truthful** — for every planner state `m` (hence after every history), every `k` and every
oracle answers: `EXACT_SOLUTION` ⇒ `hasExactSolution()`; `APPROXIMATE_SOLUTION` ⇒ the problem definition holds a
solution; `TIMEOUT` / `INVALID_START` / the `checkValidity` exception ⇒ this call added no solution and left the
problem definition as it was. -/
theorem solve_status_truthful (cs : CoreSpec σ δ D C) (P : Params σ δ) (m : M σ δ C) (k : Nat) (ds : List D) :
    ((solve cs P m k ds).status = .exact →
        ∃ pd', (solve cs P m k ds).m.pdef = some pd' ∧ pd'.hasExactSolution = true) ∧
    ((solve cs P m k ds).status = .approximate →
        ∃ pd', (solve cs P m k ds).m.pdef = some pd' ∧ pd'.hasSolution = true) ∧
    (((solve cs P m k ds).status = .timeout ∨ (solve cs P m k ds).status = .invalidStart ∨
        (solve cs P m k ds).status = .noPdef) →
        (solve cs P m k ds).added = [] ∧ (solve cs P m k ds).m.pdef = m.pdef) :=
  solve_spec cs P m k ds

/-- **A reported path is never empty** (any lawful core, any machine state, no hypothesis on the history): every
solution a `solve` call adds has at least one state and is the root-to-motion path of a motion that is in the tree
when the call returns (never a half-built chain through a motion that does not exist). -/
theorem solve_path_nonempty (cs : CoreSpec σ δ D C) (hl : LawfulCore cs) (P : Params σ δ) (m : M σ δ C)
    (k : Nat) (ds : List D) :
    ∀ s ∈ (solve cs P m k ds).added, s.path ≠ [] ∧
      ∃ i, i < cs.size (solve cs P m k ds).m.core ∧ s.path = cs.pathTo (solve cs P m k ds).m.core i :=
  solve_added cs hl P m k ds

/-- **… and it starts at a start state** (RRT-like core): for every history after which the tree cannot hold
motions of a replaced query — `dirtyAfter … = false`: since the last `setProblemDefinition` /
`setStartAndGoalStates` that hit a non-empty tree, `clear()` (or `clearQuery()`) was called — every path added by the
next `solve` (any `k`, any oracle answers) is non-empty and its first state is a VALID start state of the planner's
current problem definition.  Without the hypothesis the statement is false on the code as written
(`setProblemDefinition_keeps_core`, finding F47). -/
theorem solve_never_empty_path (P : Params σ δ) (ops : List (Op σ (Draw σ δ)))
    (hclean : dirtyAfter P (M.init rc) false ops = false) (k : Nat) (ds : List (Draw σ δ)) :
    ∀ s ∈ (solve rc P (reach rc P ops) k ds).added, s.path ≠ [] ∧
      ∃ st, s.path.head? = some st ∧ validStart (solve rc P (reach rc P ops) k ds).m st := by
  have I := run_inv P ops (M.init rc) false wf_empty (by intro i hi; simp [M.init] at hi)
    (fun _ => pure_of_empty _ rfl)
  intro s hs
  exact ⟨(solve_added rc rrt_lawful P _ k ds s hs).1, solve_head P _ k ds I.1 (I.2.2 hclean) s hs⟩

/-- **`lastGoalMotion_` never dangles** (RRT-like core, every history): it is null or the index of a motion of the
current tree, so `getPlannerData` never reads a freed motion — `clear()` resets it together with `freeMemory()`. -/
theorem lastGoalMotion_never_dangles (P : Params σ δ) (ops : List (Op σ (Draw σ δ))) :
    (∀ i, (reach rc P ops).lastGoal = some i → i < (reach rc P ops).core.size) ∧
      (plannerData rc (reach rc P ops)).2.2 = false := by
  have I := run_inv P ops (M.init rc) false wf_empty (by intro i hi; simp [M.init] at hi)
    (fun _ => pure_of_empty _ rfl)
  refine ⟨I.2.1, ?_⟩
  unfold plannerData
  cases h : (reach rc P ops).lastGoal with
  | none => rfl
  | some i =>
    have hi := I.2.1 i h
    show decide ((reach rc P ops).core.size ≤ i) = false
    exact decide_eq_false (Nat.not_le_of_lt hi)

/-- **`setProblemDefinition` does not forget** (the code as written: `pdef_ = pdef; pis_.update();`): the core —
the whole tree of the previous query, old start states included — and `lastGoalMotion_` survive; only the
`PlannerInputStates` counters restart.  This is the model-level statement of finding F47. -/
theorem setProblemDefinition_keeps_core (cs : CoreSpec σ δ D C) (P : Params σ δ) (m : M σ δ C) (id : Nat)
    (ss : List (σ × Bool)) :
    (step cs P m (.setProblemDefinition id ss)).core = m.core ∧
      (step cs P m (.setProblemDefinition id ss)).lastGoal = m.lastGoal := by
  simp only [step, setProblemDefinition]
  split
  · split <;> simp
  · simp

/-- **Resuming can only keep or improve the reported solution**: under every call on the planner object
(`solve` with any `k`, `clear`, `clearQuery`, `getPlannerData`, destructor) and `addStartState`, the top solution
of the problem definition either stays the same or is replaced by one that is strictly better in the problem
definition's own ordering (`PlannerSolution::operator<`).  The local ordering lemma is
`insertSol_head` (Proofs/PlannerProto.lean). -/
theorem resume_monotone (cs : CoreSpec σ δ D C) (P : Params σ δ) (m : M σ δ C) (op : Op σ D)
    (hop : op.keepsSolutions = true) (b : Sol σ δ) (hb : bestOf m = some b) :
    ∃ b', bestOf (step cs P m op) = some b' ∧ (b' = b ∨ Sol.lt P.ltD b' b = true) :=
  step_best cs P m op hop b hb

/-- **`clear()` forgets**: afterwards the core is the initial core, the `PlannerInputStates` counters are zero and
`lastGoalMotion_` is null; hence a `solve` after `clear()` is indistinguishable (status, added solutions,
allocation events, number of evaluations, resulting core / problem definition / counters) from the first `solve`
of a freshly constructed planner given the same problem definition and the same oracle answers. -/
theorem clear_forgets (cs : CoreSpec σ δ D C) (P : Params σ δ) (m : M σ δ C) (k : Nat) (ds : List D) :
    let fresh : M σ δ C := { M.init cs with pdef := m.pdef, next := m.next }
    (clear cs m).core = cs.init ∧ (clear cs m).pis.added = 0 ∧ (clear cs m).pis.sampledGoals = 0 ∧
    (clear cs m).lastGoal = none ∧
    (solve cs P (clear cs m) k ds).status = (solve cs P fresh k ds).status ∧
    (solve cs P (clear cs m) k ds).added = (solve cs P fresh k ds).added ∧
    (solve cs P (clear cs m) k ds).evs = (solve cs P fresh k ds).evs ∧
    (solve cs P (clear cs m) k ds).evals = (solve cs P fresh k ds).evals ∧
    (solve cs P (clear cs m) k ds).m.core = (solve cs P fresh k ds).m.core ∧
    (solve cs P (clear cs m) k ds).m.pdef = (solve cs P fresh k ds).m.pdef ∧
    (solve cs P (clear cs m) k ds).m.pis.added = (solve cs P fresh k ds).m.pis.added := by
  intro fresh
  have c := clear_spec cs m
  have h := solve_congr cs P (clear cs m) fresh k ds (by simp [fresh, c.1, M.init]) (by simp [fresh, c.2.1, M.init])
    (by simp [fresh, c.2.2.2.2.1]) (by simp [fresh, c.2.2.2.2.2]) (by simp [fresh, c.2.2.2.1, M.init])
  exact ⟨c.1, c.2.1, c.2.2.1, c.2.2.2.1, h.1, h.2.1, h.2.2.1, h.2.2.2.1, h.2.2.2.2.1, h.2.2.2.2.2.1, h.2.2.2.2.2.2.2.1⟩

/-- **`PlannerInputStates` remembers consumed starts**: after any `solve` (any `k`) no start state is left to be
consumed, so the prologue of a resumed `solve` adds no root motion and allocates nothing; after
`addStartState(s)` exactly `s` is left. -/
theorem resume_no_duplicate_starts (cs : CoreSpec σ δ D C) (P : Params σ δ) (m : M σ δ C) (k : Nat) (ds : List D) :
    newStarts (solve cs P m k ds).m = [] ∧
    (∀ pd, (solve cs P m k ds).m.pdef = some pd →
      (prologue cs (solve cs P m k ds).m pd).1.core = (solve cs P m k ds).m.core ∧
      (prologue cs (solve cs P m k ds).m pd).2 = []) := by
  refine ⟨solve_newStarts cs P m k ds, ?_⟩
  intro pd hpd
  have := resumed_prologue_noop cs _ pd hpd (solve_newStarts cs P m k ds)
  exact ⟨this.1, this.2.1⟩

/-- **Allocations are balanced** on the model's allocation log, for every history (every `k` in every `solve`,
every exit path: `INVALID_START` before `rmotion`/`xstate` exist, termination before the first iteration, goal
reached, draws exhausted): replaying the log never frees a state that is not live (no double free), never re-uses
an id, and the states still live are exactly the states owned by the tree's motions plus the states cloned into
solution paths — in particular `rmotion->state` and `xstate` of every `solve` have been freed. -/
theorem alloc_balanced (cs : CoreSpec σ δ D C) (hl : LawfulCore cs) (P : Params σ δ) (ops : List (Op σ D)) :
    ∃ L, replay ([], 0) (reach cs P ops).log = some (L, (reach cs P ops).next) ∧
      L.Perm (cs.owned (reach cs P ops).core ++ (reach cs P ops).handed) :=
  run_bal cs hl P ops _ (init_bal cs hl)

/-- … and after `clear()` (or the destructor) only the states handed to solution paths are live: every state the
planner allocated for itself has been freed exactly once. -/
theorem alloc_balanced_after_clear (cs : CoreSpec σ δ D C) (hl : LawfulCore cs) (P : Params σ δ) (ops : List (Op σ D)) :
    ∃ L, replay ([], 0) (clear cs (reach cs P ops)).log = some (L, (reach cs P ops).next) ∧
      L.Perm (reach cs P ops).handed :=
  (clear_bal cs hl _ (run_bal cs hl P ops _ (init_bal cs hl))).2

/-- the RRT-like tree core satisfies the laws the generic theorems assume -/
theorem rrt_core_lawful : LawfulCore (rrtCore : CoreSpec σ δ (Draw σ δ) (Tree σ)) := rrt_lawful

/-- the control-RRT core with intermediate states satisfies the same laws: whatever the propagation length, the
position of the first goal-satisfying propagated state, an invalid last step or a too short propagation, every
propagated state is adopted by exactly one motion or freed exactly once (`iterate_replay`), the tree only grows and
reported motions exist. -/
theorem crrt_core_lawful : LawfulCore (crrtCore : CoreSpec σ δ (CDraw σ δ) (Tree σ)) := crrt_lawful

/-- **Allocations are balanced for control::RRT with intermediate states**, for every history and every `k`: the
allocation log (start motions, `rmotion->state`, `xstate`, the `pstates` vector of every propagation — adopted or
freed —, path clones) replays without a double free or a re-used id, and the live states are exactly the states
owned by motions plus those cloned into solution paths.  (A core that forgets the "free any states after we hit the
goal" loop is not lawful: its log leaves the trailing propagated states live.) -/
theorem alloc_balanced_control (P : Params σ δ) (ops : List (Op σ (CDraw σ δ))) :
    ∃ L, replay ([], 0) (reach crrtCore P ops).log = some (L, (reach crrtCore P ops).next) ∧
      L.Perm ((crrtCore (σ := σ) (δ := δ)).owned (reach crrtCore P ops).core ++ (reach crrtCore P ops).handed) :=
  alloc_balanced crrtCore crrt_lawful P ops

/-- … and after `clear()` nothing the control planner allocated for itself is live -/
theorem alloc_balanced_control_after_clear (P : Params σ δ) (ops : List (Op σ (CDraw σ δ))) :
    ∃ L, replay ([], 0) (clear crrtCore (reach crrtCore P ops)).log = some (L, (reach crrtCore P ops).next) ∧
      L.Perm (reach crrtCore P ops).handed :=
  alloc_balanced_after_clear crrtCore crrt_lawful P ops

/-! ## Non-vacuity: a concrete run of the RRT-like core (states and distances are `Nat`) -/

def Pn : Params Nat Nat := { ltD := fun a b => decide (a < b), inf := 1000, zero := 0, pathLen := List.length }
def coreN : CoreSpec Nat Nat (Draw Nat Nat) (Tree Nat) := rrtCore
/-- start 7 (valid); two oracle answers: extend from motion 0 to state 8 (distance 5), then to 9 (goal reached) -/
def histN : List (Op Nat (Draw Nat Nat)) :=
  [.setProblemDefinition 1 [(7, true)], .solve 5 [⟨0, true, 8, false, 5⟩, ⟨1, true, 9, true, 0⟩]]

example : (reach coreN Pn histN).core.size = 3 := by decide
example : (reach coreN Pn histN).pis.added = 1 := by decide
example : (solve coreN Pn (reach coreN Pn [.setProblemDefinition 1 [(7, true)]]) 0 []).status = .timeout := by decide
example : (solve coreN Pn (reach coreN Pn [.setProblemDefinition 1 [(7, true)]]) 1 [⟨0, true, 8, false, 5⟩]).status
    = .approximate := by decide
example : (solve coreN Pn (reach coreN Pn [.setProblemDefinition 1 [(7, false)]]) 3 []).status = .invalidStart := by
  decide
/-- `k = 0`: start motion, `rmotion`, `xstate` allocated; `xstate`, `rmotion` freed; the tree keeps the start -/
example : (reach coreN Pn [.setProblemDefinition 1 [(7, true)], .solve 0 []]).log =
    [.alloc 0, .alloc 1, .alloc 2, .free 2, .free 1] := by decide
example : LawfulCore coreN := rrt_lawful

/-- control core, one loop body from a one-motion tree with fresh id 5: four steps propagated, the fourth invalid
(allocated and freed at once), the goal satisfied by the SECOND state: states 5 and 6 are adopted, state 7 is freed -/
def ccoreN : CoreSpec Nat Nat (CDraw Nat Nat) (Tree Nat) := crrtCore
def treeN : Tree Nat := #[⟨7, none, 0⟩]
def cdrawN : CDraw Nat Nat := ⟨0, [(10, false, 3), (11, true, 0), (12, false, 9)], true, true⟩
example : (ccoreN.iterate treeN 5 cdrawN).evs =
    [.alloc 5, .alloc 6, .alloc 7, .alloc 8, .free 8, .free 7] := by decide
example : (ccoreN.iterate treeN 5 cdrawN).res = [(1, false, 3), (2, true, 0)] := by decide
example : (ccoreN.iterate treeN 5 cdrawN).core.size = 3 ∧ (ccoreN.iterate treeN 5 cdrawN).next = 9 := by decide
/-- a propagation shorter than `getMinControlDuration()`: everything is freed, nothing adopted -/
example : (ccoreN.iterate treeN 5 ⟨0, [(10, false, 3)], false, false⟩).evs = [.alloc 5, .free 5] := by decide
/-- the hypothesis of `solve_never_empty_path` is satisfiable by histories that switch the problem definition
(switch on a non-empty tree, then `clear()`), and is violated by the same history without the `clear()` -/
example : dirtyAfter Pn (M.init rc) false
    [.setProblemDefinition 1 [(7, true)], .solve 1 [⟨0, true, 8, false, 5⟩], .setProblemDefinition 2 [(3, true)], .clear] = false := by
  decide
example : dirtyAfter Pn (M.init rc) false
    [.setProblemDefinition 1 [(7, true)], .solve 1 [⟨0, true, 8, false, 5⟩], .setProblemDefinition 2 [(3, true)]] = true := by
  decide

/-! ## Round 10: the intermediate-states branch of geometric::RRT, the goal test, evaluation count, resumed search -/

/-- the intermediate-states core of geometric::RRT (`getMotionStates` with `count = validSegmentCount - 1` interior
states, `states[0]` freed, the others adopted by chained motions) satisfies the laws of the generic theorems, whatever
`validSegmentCount` and `interpolate` compute -/
theorem rrti_core_lawful (G : Geom σ) : LawfulCore (rrtiCore G : CoreSpec σ δ (Draw σ δ) (Tree σ)) := rrti_lawful G

/-- **Allocations are balanced for geometric::RRT with intermediate states**, every history, every `k`: every state
`getMotionStates` allocates is freed once (`states[0]`) or owned by exactly one motion; after `clear()` only path
states are live.  (A branch that forgets `freeState(states[0])`, or adopts `states[0]` too, is not lawful.) -/
theorem alloc_balanced_intermediate (G : Geom σ) (P : Params σ δ) (ops : List (Op σ (Draw σ δ))) :
    (∃ L, replay ([], 0) (reach (rrtiCore G) P ops).log = some (L, (reach (rrtiCore G) P ops).next) ∧
      L.Perm ((rrtiCore (δ := δ) G).owned (reach (rrtiCore G) P ops).core ++ (reach (rrtiCore G) P ops).handed)) ∧
    (∃ L, replay ([], 0) (clear (rrtiCore G) (reach (rrtiCore G) P ops)).log = some (L, (reach (rrtiCore G) P ops).next) ∧
      L.Perm (reach (rrtiCore G) P ops).handed) :=
  ⟨alloc_balanced _ (rrti_lawful G) P ops, alloc_balanced_after_clear _ (rrti_lawful G) P ops⟩

/-- the three executable tree cores are `TreeCore`s: motions in an array, roots = consumed start states, a loop body only
appends children below existing motions and never touches an existing motion -/
theorem tree_cores : TreeCore (rrtCore : CoreSpec σ δ (Draw σ δ) (Tree σ)) ∧
    TreeCore (crrtCore : CoreSpec σ δ (CDraw σ δ) (Tree σ)) ∧
    ∀ G : Geom σ, TreeCore (rrtiCore G : CoreSpec σ δ (Draw σ δ) (Tree σ)) :=
  ⟨rrt_treeCore, crrt_treeCore, rrti_treeCore⟩

/-- **`solve_never_empty_path` and `lastGoalMotion_never_dangles` for every tree core** (in particular control::RRT with
intermediate states and geometric::RRT with intermediate states, which round 2 / round 6 had left to the generic
`solve_path_nonempty`): for every history `lastGoalMotion_` is null or inside the tree, and if the tree cannot hold
motions of a replaced query (`TG.dirtyAfter … = false`) every path added by the next `solve` (any `k`) is non-empty and
begins at a VALID start state of the current problem definition. -/
theorem tree_core_paths_start_at_start (cs : CoreSpec σ δ D (Tree σ)) (ht : TreeCore cs) (P : Params σ δ) (ops : List (Op σ D)) :
    (∀ i, (reach cs P ops).lastGoal = some i → i < (reach cs P ops).core.size) ∧
    (TG.dirtyAfter cs P (M.init cs) false ops = false → ∀ (k : Nat) (ds : List D),
      ∀ s ∈ (solve cs P (reach cs P ops) k ds).added, s.path ≠ [] ∧
        ∃ st, s.path.head? = some st ∧ validStart (solve cs P (reach cs P ops) k ds).m st) := by
  have I0 := TG.init_inv (δ := δ) cs ht
  have I := TG.run_inv cs ht P ops (M.init cs) false I0.1 I0.2.1 (fun _ => I0.2.2)
  refine ⟨I.2.1, ?_⟩
  intro hclean k ds s hs
  exact ⟨(solve_added cs ht.lawful P _ k ds s hs).1, TG.solve_head cs ht P _ k ds I.1 (I.2.2 hclean) s hs⟩

/-- **Calling `solve()` again continues the preserved search**: for every tree core and every history, the tree a
`solve` call (any `k`, any oracle answers) returns with has the tree it found as a PREFIX — every motion is still
there, at the same index, with the same state, parent and allocation id; only `clear()` / `clearQuery()` / the
destructor drop motions.  (The prologue only appends root motions, a loop body only appends children.) -/
theorem resume_continues_search (cs : CoreSpec σ δ D (Tree σ)) (ht : TreeCore cs) (P : Params σ δ) (ops : List (Op σ D))
    (k : Nat) (ds : List D) :
    (reach cs P ops).core.toList <+: (solve cs P (reach cs P ops) k ds).m.core.toList := by
  have I0 := TG.init_inv (δ := δ) cs ht
  have I := TG.run_inv cs ht P ops (M.init cs) false I0.1 I0.2.1 (fun _ => I0.2.2)
  exact TG.solve_prefix cs ht P _ k ds I.1

/-- **Bounded further evaluations** (any core, any machine state): with the termination condition false for its first
`k` evaluations, one `solve` call evaluates it at most `k + 1` times — never again after the first `true` — and
when the call ends with TIMEOUT or APPROXIMATE_SOLUTION (it returned because the condition fired, not because the goal
was reached) it evaluated it exactly `k + 1` times: the first `true` answer is the last evaluation. -/
theorem solve_evaluations_bounded (cs : CoreSpec σ δ D C) (P : Params σ δ) (m : M σ δ C) (k : Nat) (ds : List D) :
    (solve cs P m k ds).evals ≤ k + 1 ∧
    (((solve cs P m k ds).status = .timeout ∨ (solve cs P m k ds).status = .approximate) →
      (solve cs P m k ds).evals = k + 1) := by
  refine ⟨solve_evals cs P m k ds, ?_⟩
  unfold solve
  cases m.pdef with
  | none => simp
  | some pd =>
    simp only
    split
    · simp
    · have F := loop_evals_fired cs P.ltD k ds (prologue cs m pd).1.core ⟨none, none, P.inf⟩ ((prologue cs m pd).1.next + 2) rfl
      unfold finish
      split
      · rename_i i a hp
        intro hst
        simp only at hst ⊢
        have hstarved : (loop cs P.ltD k ds (prologue cs m pd).1.core ⟨none, none, P.inf⟩ ((prologue cs m pd).1.next + 2)).starved = false := by
          cases h : (loop cs P.ltD k ds (prologue cs m pd).1.core ⟨none, none, P.inf⟩ ((prologue cs m pd).1.next + 2)).starved with
          | false => rfl
          | true => simp [h] at hst
        have ha : a = true := by
          cases a with
          | true => rfl
          | false => simp [hstarved] at hst
        apply F hstarved
        unfold pick at hp
        split at hp
        · simp at hp; rw [ha] at hp; simp at hp
        · assumption
      · rename_i hp
        intro hst
        simp only at hst ⊢
        have hstarved : (loop cs P.ltD k ds (prologue cs m pd).1.core ⟨none, none, P.inf⟩ ((prologue cs m pd).1.next + 2)).starved = false := by
          cases h : (loop cs P.ltD k ds (prologue cs m pd).1.core ⟨none, none, P.inf⟩ ((prologue cs m pd).1.next + 2)).starved with
          | false => rfl
          | true => simp [h] at hst
        apply F hstarved
        unfold pick at hp
        split at hp
        · simp at hp
        · assumption

/-- **A solution stored as exact reaches the goal** — with the goal test computed by the model (`goalDraw g`: the loop
asks the goal `g` about the state the new motion holds, as `goal->isSatisfied(nmotion->state, &dist)` does): for the
geometric RRT core and for its intermediate-states variant (where the tested motion is the LAST of the chain and holds a
copy of `dstate`), whatever the planner state, `k`, and the oracle answers (nearest motion, motion valid?, new state):
every solution a `solve` call adds with `approximate = false` ends in a state the goal is satisfied by — never a
half-built path, never `approxsol` reported as exact. -/
theorem exact_solution_reaches_goal (g : σ → Bool × δ) (P : Params σ δ) (m : M σ δ (Tree σ)) (k : Nat) (raws : List (RawDraw σ)) :
    (∀ s ∈ (solve rrtCore P m k (raws.map (goalDraw g))).added, s.approx = false →
      ∃ last, s.path.getLast? = some last ∧ (g last).1 = true) ∧
    (∀ G : Geom σ, ∀ s ∈ (solve (rrtiCore G) P m k (raws.map (goalDraw g))).added, s.approx = false →
      ∃ last, s.path.getLast? = some last ∧ (g last).1 = true) :=
  ⟨solve_exact_goal rrtCore rrt_treeCore g (rrt_goalFaithful g) P m k raws,
   fun G => solve_exact_goal (rrtiCore G) (rrti_treeCore G) g (rrti_goalFaithful G g) P m k raws⟩

/-! non-vacuity (states and distances are `Nat`; a "segment" is one unit, interpolation walks the integers) -/

def GN : Geom Nat := { segs := fun a b => b - a, interp := fun a _ j _ => a + j }
def icoreN : CoreSpec Nat Nat (Draw Nat Nat) (Tree Nat) := rrtiCore GN
/-- goal: states `≥ 10`, distance `10 - s` -/
def gN : Nat → Bool × Nat := fun s => (decide (10 ≤ s), 10 - s)
/-- one loop body from a one-motion tree (state 7), fresh id 5, new state 10: three segments, `getMotionStates` allocates
`[7, 8, 9, 10]` as ids 5..8, frees id 5, the tree gains 8, 9, 10 and the goal is tested on motion 3 (state 10) -/
example : (icoreN.iterate treeN 5 (goalDraw gN ⟨0, true, 10⟩)).evs = [.alloc 5, .alloc 6, .alloc 7, .alloc 8, .free 5] := by decide
example : (icoreN.iterate treeN 5 (goalDraw gN ⟨0, true, 10⟩)).res = [(3, true, 0)] := by decide
example : ((icoreN.iterate treeN 5 (goalDraw gN ⟨0, true, 10⟩)).core.toList.map (·.state)) = [7, 8, 9, 10] := by decide
/-- `segments = 0` (same state): `count < 2` branch, two states allocated, one freed, one motion added -/
example : (icoreN.iterate treeN 5 (goalDraw gN ⟨0, true, 7⟩)).evs = [.alloc 5, .alloc 6, .free 5] := by decide
/-- a whole history: EXACT after one evaluation (`k = 5`: the goal `break`s the loop), tree 7, 8, 9, 10 -/
example : ((solve icoreN Pn (reach icoreN Pn [.setProblemDefinition 1 [(7, true)]]) 5 [goalDraw gN ⟨0, true, 10⟩]).m.core.toList.map (·.state))
    = [7, 8, 9, 10] := by decide
example : (solve icoreN Pn (reach icoreN Pn [.setProblemDefinition 1 [(7, true)]]) 5 [goalDraw gN ⟨0, true, 10⟩]).status = .exact ∧
    (solve icoreN Pn (reach icoreN Pn [.setProblemDefinition 1 [(7, true)]]) 5 [goalDraw gN ⟨0, true, 10⟩]).evals = 1 := by decide
/-- `evals = k + 1` exactly when the condition ends the call: `k = 1`, one iteration that does not reach the goal -/
example : (solve icoreN Pn (reach icoreN Pn [.setProblemDefinition 1 [(7, true)]]) 1 [goalDraw gN ⟨0, true, 9⟩, goalDraw gN ⟨0, true, 10⟩]).status
    = .approximate ∧
    (solve icoreN Pn (reach icoreN Pn [.setProblemDefinition 1 [(7, true)]]) 1 [goalDraw gN ⟨0, true, 9⟩, goalDraw gN ⟨0, true, 10⟩]).evals = 2 := by
  decide
/-- the hypothesis of `tree_core_paths_start_at_start` is satisfiable for the control core too -/
example : TG.dirtyAfter ccoreN Pn (M.init ccoreN) false
    [.setProblemDefinition 1 [(7, true)], .solve 1 [cdrawN], .setProblemDefinition 2 [(3, true)], .clear] = false := by decide
example : LawfulCore icoreN := rrti_lawful GN

/-! ## Round 10, second lap: `clear()` forgets completely (bisimulation), monotone best solution along a history -/

/-- **`clear()` forgets the old query completely — for every later history.**  Any core, any planner state `m` (hence
after any history): after `clear()` the planner is indistinguishable from one that was just constructed and holds the same
problem definition (`freshWith`: initial core, `lastGoalMotion_` null, `PlannerInputStates` counters zero; the allocation
counter continues at `m.next`) under EVERY finite history `ops` of solve (any `k`, any oracle answers) / clear /
clearQuery / setProblemDefinition / getPlannerData / addStartState / setStartAndGoalStates / clearSolutionPaths /
destructor: the two runs produce the same observations call by call — status, solutions added (their states included),
allocation events, number of evaluations, what `getPlannerData` reads, what a later `clear()` frees — and end in
equivalent states.  So nothing the old search left (motions, `lastGoalMotion_`, consumed-start counters) can influence,
let alone appear in, any later result.  (`clear_forgets` was the one-solve instance.) -/
theorem clear_forgets_every_history (cs : CoreSpec σ δ D C) (P : Params σ δ) (m : M σ δ C) (ops : List (Op σ D)) :
    trace cs P (clear cs m) ops = trace cs P (freshWith cs m.pdef m.next) ops ∧
      Eqv (run cs P (clear cs m) ops) (run cs P (freshWith cs m.pdef m.next) ops) :=
  trace_eqv cs P ops _ _ (clear_eqv_fresh cs m)

/-- **… and with a NEW problem definition the next `solve()` behaves like a first one**: `clear()` and
`setProblemDefinition(new object)`, in either order, leave exactly the planner that was just constructed and given that
problem definition — same observations under every later history (in particular every path of every later `solve` is
the path the fresh planner returns: built from the new query's start states and the new oracle answers only, never from a
state of the previous query).  Without the `clear()` this is false for the tree planners (F47,
`setProblemDefinition_keeps_core`). -/
theorem new_query_after_clear_is_first_query (cs : CoreSpec σ δ D C) (P : Params σ δ) (m : M σ δ C) (id : Nat)
    (ss : List (σ × Bool)) (hnew : ∀ pd, m.pdef = some pd → pd.id ≠ id) (ops : List (Op σ D)) :
    trace cs P (run cs P m [.clear, .setProblemDefinition id ss]) ops =
        trace cs P (run cs P { M.init cs with next := m.next } [.setProblemDefinition id ss]) ops ∧
    trace cs P (run cs P m [.setProblemDefinition id ss, .clear]) ops =
        trace cs P (run cs P { M.init cs with next := m.next } [.setProblemDefinition id ss]) ops :=
  ⟨(trace_eqv cs P ops _ _ (clear_setpd_eqv cs m id ss hnew).1).1, (trace_eqv cs P ops _ _ (clear_setpd_eqv cs m id ss hnew).2).1⟩

/-- **Resuming can only keep or improve the reported solution — along a whole history**: any core; if the comparison of
the numbers is transitive (the one law used; `<` on doubles is), then after ANY history of calls on the planner object
(`solve` any `k`, `clear`, `clearQuery`, `getPlannerData`, destructor) and `addStartState`, the top solution of the problem
definition is the one it was or one strictly better in `PlannerSolution::operator<`.  (`resume_monotone` is the one-call
version and needs no law.) -/
theorem resume_monotone_history (cs : CoreSpec σ δ D C) (P : Params σ δ)
    (htr : ∀ x y z : δ, P.ltD x y = true → P.ltD y z = true → P.ltD x z = true) (m : M σ δ C) (ops : List (Op σ D))
    (hops : ∀ op ∈ ops, op.keepsSolutions = true) (b : Sol σ δ) (hb : bestOf m = some b) :
    ∃ b', bestOf (run cs P m ops) = some b' ∧ (b' = b ∨ Sol.lt P.ltD b' b = true) :=
  run_best cs P htr ops m hops b hb

/-- non-vacuity: `Nat.lt` is transitive, and a concrete resumed history improves the top solution (approximate with
difference 5, then exact) -/
example : ∀ x y z : Nat, Pn.ltD x y = true → Pn.ltD y z = true → Pn.ltD x z = true := by
  intro x y z h1 h2; simp [Pn] at *; omega
example : (bestOf (reach coreN Pn [.setProblemDefinition 1 [(7, true)], .solve 1 [⟨0, true, 8, false, 5⟩]])).map (·.approx) = some true ∧
    (bestOf (reach coreN Pn [.setProblemDefinition 1 [(7, true)], .solve 1 [⟨0, true, 8, false, 5⟩],
      .solve 5 [⟨1, true, 9, true, 0⟩]])).map (·.approx) = some false := by decide
/-- the observations of a history after `clear()` on a planner that had searched: the same as on the fresh one (both sides
evaluated) -/
example : (trace coreN Pn (clear coreN (reach coreN Pn histN)) [.getPlannerData, .solve 0 []]).length = 2 := by decide

/-! ## Round 10, second lap: a bidirectional core — geometric::RRTConnect (`Model/PlannerProtoConnect.lean`) -/

/-- the two-tree core of RRTConnect (goal roots handed out by `nextGoal`, `growTree` on one tree, the connect loop on the
other, `connectionPoint_`, the alternating `startTree_`) satisfies the laws of the generic theorems: every motion either
tree gains is allocated exactly once, nothing is freed inside the loop, both trees only grow, a reported index exists and
its path (start-tree walk, or start-tree walk ++ reversed goal-tree walk for the connection) is non-empty -/
theorem rrtConnect_core_lawful : LawfulCore (rrtConnectCore : CoreSpec σ δ (BDraw σ δ) (BiTree σ)) := rrtConnect_lawful

/-- **RRTConnect: leak balance, status, bounded evaluations, forgetting** — the generic theorems instantiated: for every
history and every `k` the allocation log replays without double free / id re-use and the live states are those owned by
the motions of BOTH trees plus those handed to paths (after `clear()`: only the latter); every `solve` evaluates the
termination condition at most `k + 1` times; a status EXACT implies `hasExactSolution`; after `clear()` every later
history is observed exactly as on a fresh planner. -/
theorem rrtConnect_instances (P : Params σ δ) (ops : List (Op σ (BDraw σ δ))) (k : Nat) (ds : List (BDraw σ δ)) :
    (∃ L, replay ([], 0) (reach rrtConnectCore P ops).log = some (L, (reach rrtConnectCore P ops).next) ∧
      L.Perm ((rrtConnectCore (σ := σ) (δ := δ)).owned (reach rrtConnectCore P ops).core ++ (reach rrtConnectCore P ops).handed)) ∧
    (∃ L, replay ([], 0) (clear rrtConnectCore (reach rrtConnectCore P ops)).log = some (L, (reach rrtConnectCore P ops).next) ∧
      L.Perm (reach rrtConnectCore P ops).handed) ∧
    (solve rrtConnectCore P (reach rrtConnectCore P ops) k ds).evals ≤ k + 1 ∧
    ((solve rrtConnectCore P (reach rrtConnectCore P ops) k ds).status = .exact →
      ∃ pd', (solve rrtConnectCore P (reach rrtConnectCore P ops) k ds).m.pdef = some pd' ∧ pd'.hasExactSolution = true) ∧
    (∀ later : List (Op σ (BDraw σ δ)),
      trace rrtConnectCore P (clear rrtConnectCore (reach rrtConnectCore P ops)) later =
        trace rrtConnectCore P (freshWith rrtConnectCore (reach rrtConnectCore P ops).pdef (reach rrtConnectCore P ops).next) later) :=
  ⟨alloc_balanced _ rrtConnect_lawful P ops, alloc_balanced_after_clear _ rrtConnect_lawful P ops,
   (solve_evaluations_bounded _ P _ k ds).1, (solve_status_truthful _ P _ k ds).1,
   fun later => (clear_forgets_every_history _ P _ later).1⟩

/-- **RRTConnect: a resumed `solve()` continues the preserved search** — any planner state, any `k`, any oracle answers:
both trees the call found are prefixes of the trees it returns with (every old motion at its index with its state,
parent and allocation id). -/
theorem resume_continues_search_bidirectional (P : Params σ δ) (m : M σ δ (BiTree σ)) (k : Nat) (ds : List (BDraw σ δ)) :
    m.core.ts.toList <+: (solve rrtConnectCore P m k ds).m.core.ts.toList ∧
      m.core.tg.toList <+: (solve rrtConnectCore P m k ds).m.core.tg.toList := by
  show m.core.le (solve rcc P m k ds).m.core
  rcases solve_shape rcc rrtConnect_lawful P m k ds with ⟨_, hm, _⟩ | ⟨pd, hpd, hc | ⟨r, hr, hc, _⟩⟩
  · rw [hm]; exact BiTree.le_refl _
  · rw [hc.1]; exact connect_consumeStarts_le _ _ _
  · rw [hc, hr]
    exact BiTree.le_trans (connect_consumeStarts_le (δ := δ) (pd.starts.drop m.pis.added) m.core m.next) (connect_loop_le _ _ _ _ _ _)

/-! non-vacuity: start 7, goal 20; iteration 1 (start tree's turn) samples the goal root, extends the start tree to 9, the
connect call on the goal tree is TRAPPED; iteration 2 (goal tree's turn) extends the goal tree to 12 and the start tree
REACHES 12: the trees are connected. -/
def bcoreN : CoreSpec Nat Nat (BDraw Nat Nat) (BiTree Nat) := rrtConnectCore
def bdraw1 : BDraw Nat Nat := ⟨some 20, .added 0 9 false, [.trapped], true, 11⟩
def bdraw2 : BDraw Nat Nat := ⟨none, .added 0 12 false, [.added 1 12 true], true, 0⟩
example : (solve bcoreN Pn (reach bcoreN Pn [.setProblemDefinition 1 [(7, true)]]) 1 [bdraw1]).status = .approximate := by decide
example : (solve bcoreN Pn (reach bcoreN Pn [.setProblemDefinition 1 [(7, true)]]) 9 [bdraw1, bdraw2]).status = .exact ∧
    (solve bcoreN Pn (reach bcoreN Pn [.setProblemDefinition 1 [(7, true)]]) 9 [bdraw1, bdraw2]).evals = 2 ∧
    (solve bcoreN Pn (reach bcoreN Pn [.setProblemDefinition 1 [(7, true)]]) 9 [bdraw1, bdraw2]).m.core.conn = some (1, 1) := by decide
/-- allocation events of the first iteration: goal root, new start-tree motion -/
example : (bcoreN.iterate (reach bcoreN Pn [.setProblemDefinition 1 [(7, true)], .solve 0 []]).core 10 bdraw1).evs = [.alloc 10, .alloc 11] := by decide

/-! ## Third core: PRM's query bookkeeping (`Model/PlannerProtoPrm.lean`) -/

open OmplModel.PlannerProto.Prm in
/-- **`clearQuery()` forgets the query and keeps the roadmap**: `startM_` and `goalM_` are empty, the
`PlannerInputStates` counters are restarted, the roadmap and the problem definition are untouched. -/
theorem clearQuery_forgets_query_keeps_roadmap (p : Prm) :
    (Prm.clearQuery p).startM = [] ∧ (Prm.clearQuery p).goalM = [] ∧ (Prm.clearQuery p).pis.added = 0 ∧
      (Prm.clearQuery p).pis.sampledGoals = 0 ∧ (Prm.clearQuery p).vertices = p.vertices ∧
      (Prm.clearQuery p).pdef = p.pdef := by
  simp [Prm.clearQuery]

open OmplModel.PlannerProto.Prm in
/-- **`setProblemDefinition` re-reads the query — also for the pointer the planner already holds**: whatever the
planner state and whatever the id of `pd` (in particular the id of the current problem definition, i.e. a new query
written into the same object), the next `solve` keeps the roadmap, turns exactly the valid start states of `pd` into
start milestones, all of them NEW vertices (none is a milestone of the previous query), and reports `INVALID_START`
iff `pd` has no valid start state.  (A `setProblemDefinition` that skips `clearQuery()` when the pointer is unchanged
does not satisfy this.) -/
theorem setProblemDefinition_rereads_query (p : Prm) (pd : PrmPdef) (grow : Nat) :
    let r := Prm.solve (Prm.setProblemDefinition p pd) grow
    r.1.startM.length = countValid pd.starts ∧ (∀ i ∈ r.1.startM, p.vertices ≤ i) ∧
      p.vertices ≤ r.1.vertices ∧ (r.2 = .invalidStart ↔ countValid pd.starts = 0) := by
  intro r
  obtain ⟨h1, h2, h3, h4, h5, h6⟩ := setPD_fields p pd
  have C := consume_spec pd.starts p.vertices []
  have hr : r = Prm.solve (Prm.setProblemDefinition p pd) grow := rfl
  unfold Prm.solve at hr
  simp only [h5, h3, h1, h2, h4, h6, List.drop_zero] at hr
  by_cases he : (consume pd.starts p.vertices []).2.isEmpty = true
  · simp only [he, if_true] at hr
    have hl : (consume pd.starts p.vertices []).2.length = 0 := by
      simpa [List.isEmpty_iff] using he
    rw [hr]
    refine ⟨by simpa using C.2.1, ?_, by simp [C.1], ?_⟩
    · intro i hi
      rcases C.2.2 i hi with h | h
      · simp at h
      · exact h
    · have : countValid pd.starts = 0 := by have := C.2.1; simp at this; omega
      simp [this]
  · have hne : countValid pd.starts ≠ 0 := by
      intro h0
      apply he
      have := C.2.1
      simp only [h0, List.length_nil, Nat.add_zero] at this
      simpa [List.isEmpty_iff] using List.length_eq_zero_iff.mp this
    simp only [he, Bool.false_eq_true, if_false, List.isEmpty_nil, if_true] at hr
    by_cases hg : pd.goalValid = true
    · simp only [hg, if_true] at hr
      rw [hr]
      refine ⟨by simpa using C.2.1, ?_, by simp [C.1]; omega, by simp [hne]⟩
      intro i hi
      rcases C.2.2 i hi with h | h
      · simp at h
      · exact h
    · simp only [hg, Bool.false_eq_true, if_false] at hr
      rw [hr]
      refine ⟨by simpa using C.2.1, ?_, by simp [C.1], by simp [hne]⟩
      intro i hi
      rcases C.2.2 i hi with h | h
      · simp at h
      · exact h

open OmplModel.PlannerProto.Prm in
/-- non-vacuity: a second query written into the SAME problem definition object (id 1) and announced by
`setProblemDefinition`: the old start milestone 0 is gone from `startM_`, the new start is vertex 3, the roadmap
(3 vertices + growth) was kept -/
example : (Prm.run {} [.setProblemDefinition ⟨1, [true], true⟩, .solve 1, .mutate [true] true,
    .setProblemDefinition ⟨1, [true], true⟩, .solve 0]).startM = [3] := by decide

end OmplModel.Props.C03
