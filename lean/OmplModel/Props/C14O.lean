import OmplModel.Model.Owen
import OmplModel.Proofs.DubinsInteg
import OmplModel.Proofs.DubinsWords
/-!
# C14, round 4 — OwenStateSpace (Dubins with altitude): what is proved about `Model/Owen.lean`

`getPath`'s root search (boost TOMS748) is an oracle: `getPathWith` takes the root as a recorded answer; the
correspondence run compares everything else bit for bit.  Theorems:

* [AF] `owen_interp_z_linear`: for `0 < t < 1` the interpolated altitude is `z(from) + t·Δz` in every branch (low / high / medium).
* [AF] `owen_low_altitude_pitch`: a low-altitude result satisfies the code's pitch test `|Δz| ≤ rho·L·tan(maxPitch)` and is the
  plain Dubins path with radius `rho`, no turns, no initial turn.
* [EX] `owen_turn_is_arc`: `turn` drives a left (angle > 0) or right (angle ≤ 0) arc of the given radius: the unit-radius step of the
  Dubins model, scaled.
* [EX] `owen_turn_full_circles`: `k` full circles return to the start position with heading `θ + 2πk` (so the helix of a high-altitude
  path ends where the Dubins word starts).
* [EX] `owen_length_sq`, `owen_length_ge`: `length()² = (r·(L + 2πk + φ))² + Δz²`, and `length() ≥ |Δz|`.
  Note `length()` adds the *signed* `phi_` while `interpolate` walks `|phi_|`: for a medium-altitude path with a negative initial turn
  the reported length is `2·r·|φ|` (horizontally) shorter than the curve.  The real code only produced `φ ≈ -5e-7` on the explored inputs
  (notes/C14.md), inside its own 1e-5 root tolerance.

NOT proved: that a root exists / is found (finding F126), minimality of the 3D path, the medium/high end-point in world frame
(needs the root equation as a hypothesis and the Dubins world-frame theorem; the oracle checks it on the implementation).
-/
namespace OmplModel.Props.C14O
open OmplModel OmplModel.Dubins OmplModel.Owen

section AF
variable {α : Type} [DNum α]

/-- [AF] **Altitude is interpolated linearly**: for `0 < t < 1`, whatever the path category. -/
theorem owen_interp_z_linear (frm tgt : St4 α) (t : α) (p : OPath α) (h1 : ¬ 1 ≤ t) (h0 : ¬ t ≤ 0) :
    (interpWith frm tgt t p).z = frm.z + t * p.dz := by
  unfold interpWith
  rw [if_neg h1, if_neg h0]
  simp only
  split
  · split
    · rfl
    · split <;> rfl
  · split <;> rfl

/-- [AF] **Low-altitude result**: when the code's pitch test `|Δz| ≤ rho·L·tan(maxPitch)` holds, `getPath` returns the plain Dubins
path: radius `rho`, `Δz = z₂ − z₁`, no initial turn, no full circles (the root is not used). -/
theorem owen_low_altitude_pitch (rho tanp root : α) (s1 s2 : St4 α) (P : Path α)
    (hP : dubinsStates rho s1.pose s2.pose = .path P)
    (hlow : Num.abs (s2.z - s1.z) ≤ rho * P.len * tanp) :
    getPathWith rho tanp root s1 s2 = some ⟨P, rho, s2.z - s1.z, 0, 0⟩ := by
  unfold getPathWith dlen
  rw [hP]
  simp only
  rw [if_pos hlow]

end AF

attribute [-instance] Num.instOfNat
open DubinsR

/-- [EX] **`turn` is an arc of the vehicle model**: a left arc for `angle > 0`, a right arc (of length `-angle`) otherwise — the
unit-radius steps of the Dubins model from `(0, 0, θ)`, scaled by the radius and translated. -/
theorem owen_turn_is_arc (frm : Pose ℝ) (radius angle : ℝ) :
    turn frm radius angle =
      (if 0 < angle then
        ⟨frm.x + radius * (stepFwd .L angle ⟨0, 0, frm.th⟩).x, frm.y + radius * (stepFwd .L angle ⟨0, 0, frm.th⟩).y,
          (stepFwd .L angle ⟨0, 0, frm.th⟩).th⟩
      else
        ⟨frm.x + radius * (stepFwd .R (-angle) ⟨0, 0, frm.th⟩).x, frm.y + radius * (stepFwd .R (-angle) ⟨0, 0, frm.th⟩).y,
          (stepFwd .R (-angle) ⟨0, 0, frm.th⟩).th⟩) := by
  unfold turn
  simp only [sin_eq, cos_eq]
  by_cases h : 0 < angle
  · have h' : @LT.lt ℝ instNumRealD.toLT (@OfNat.ofNat ℝ 0 (Num.instOfNat 0)) angle := by rw [ofNat_zero]; exact h
    rw [if_pos h', if_pos h, stepFwd_L]
    simp only [zero_add]
    refine congr (congr (congrArg Pose.mk ?_) ?_) rfl <;> ring
  · have h' : ¬ @LT.lt ℝ instNumRealD.toLT (@OfNat.ofNat ℝ 0 (Num.instOfNat 0)) angle := by rw [ofNat_zero]; exact h
    rw [if_neg h', if_neg h, stepFwd_R]
    simp only [zero_add, sub_neg_eq_add]
    refine congr (congr (congrArg Pose.mk ?_) ?_) rfl <;> ring

/-- [EX] **Full circles return to the start**: turning by `2πk` (`k ≥ 1` circles, any radius) ends at the start position with heading
`θ + 2πk` — the helix of a high-altitude path ends where its Dubins word starts. -/
theorem owen_turn_full_circles (frm : Pose ℝ) (radius : ℝ) (k : ℕ) :
    turn frm radius ((k : ℝ) * (2 * Real.pi)) = ⟨frm.x, frm.y, frm.th + (k : ℝ) * (2 * Real.pi)⟩ := by
  unfold turn
  simp only [sin_eq, cos_eq]
  have hs : Real.sin (frm.th + (k : ℝ) * (2 * Real.pi)) = Real.sin frm.th := Real.sin_add_nat_mul_two_pi frm.th k
  have hc : Real.cos (frm.th + (k : ℝ) * (2 * Real.pi)) = Real.cos frm.th := Real.cos_add_nat_mul_two_pi frm.th k
  rw [hs, hc]
  refine congr (congr (congrArg Pose.mk ?_) ?_) rfl <;> ring

/-- [EX] **`length()`**: the square of the reported length is `(r·(L + 2πk + φ))² + Δz²`. -/
theorem owen_length_sq (p : OPath ℝ) :
    p.len ^ 2 = (p.r * (p.path.len + 2 * Real.pi * p.k + p.phi)) ^ 2 + p.dz ^ 2 := by
  unfold OPath.len
  simp only [sqrt_eq, twopi_eq]
  rw [Real.sq_sqrt (add_nonneg (mul_self_nonneg _) (mul_self_nonneg _))]
  ring

/-- [EX] the reported length is at least the altitude difference and at least the (signed-φ) horizontal length -/
theorem owen_length_ge (p : OPath ℝ) :
    |p.dz| ≤ p.len ∧ |p.r * (p.path.len + 2 * Real.pi * p.k + p.phi)| ≤ p.len := by
  have h := owen_length_sq p
  have hnn : 0 ≤ p.len := by unfold OPath.len; simp only [sqrt_eq]; exact Real.sqrt_nonneg _
  constructor
  · exact abs_le_of_sq_le_sq (by rw [h]; nlinarith [sq_nonneg (p.r * (p.path.len + 2 * Real.pi * p.k + p.phi))]) hnn
  · exact abs_le_of_sq_le_sq (by rw [h]; nlinarith [sq_nonneg p.dz]) hnn

/-- [EX] **`length()` as the code at HEAD computes it** (`std::abs(phi_)`, fix of F147; `owen_length_sq` / `owen_length_ge` above are about the
pre-fix signed form, which the code no longer uses): `(r·(L + 2πk + |φ|))² + Δz²`. -/
theorem owen_length_abs_sq (p : OPath ℝ) :
    p.lenAbs ^ 2 = (p.r * (p.path.len + 2 * Real.pi * p.k + |p.phi|)) ^ 2 + p.dz ^ 2 := by
  unfold OPath.lenAbs
  simp only [sqrt_eq, twopi_eq, abs_eq]
  rw [Real.sq_sqrt (add_nonneg (mul_self_nonneg _) (mul_self_nonneg _))]
  ring

/-- [EX] the reported length (HEAD form) is at least the altitude difference and the horizontal length of the curve `interpolate` walks;
for a negative initial turn it is at least the pre-fix value (which under-reported the curve by `2 r |φ|` horizontally). -/
theorem owen_length_abs_ge (p : OPath ℝ) :
    |p.dz| ≤ p.lenAbs ∧ |p.r * (p.path.len + 2 * Real.pi * p.k + |p.phi|)| ≤ p.lenAbs ∧
    (p.phi < 0 → 0 ≤ p.r → 0 ≤ p.path.len + 2 * Real.pi * p.k → p.len ≤ p.lenAbs) := by
  have h := owen_length_abs_sq p
  have hnn : 0 ≤ p.lenAbs := by unfold OPath.lenAbs; simp only [sqrt_eq]; exact Real.sqrt_nonneg _
  refine ⟨?_, ?_, ?_⟩
  · exact abs_le_of_sq_le_sq (by rw [h]; nlinarith [sq_nonneg (p.r * (p.path.len + 2 * Real.pi * p.k + |p.phi|))]) hnn
  · exact abs_le_of_sq_le_sq (by rw [h]; nlinarith [sq_nonneg p.dz]) hnn
  · intro hphi hr hL
    have hs := owen_length_sq p
    have hnn' : 0 ≤ p.len := by unfold OPath.len; simp only [sqrt_eq]; exact Real.sqrt_nonneg _
    apply abs_le_of_sq_le_sq' _ hnn |>.2
    rw [h, hs]
    have habs : |p.phi| = -p.phi := abs_of_neg hphi
    rw [habs]
    have : (p.r * (p.path.len + 2 * Real.pi * p.k + p.phi)) ^ 2 ≤ (p.r * (p.path.len + 2 * Real.pi * p.k + -p.phi)) ^ 2 := by
      have e : (p.r * (p.path.len + 2 * Real.pi * p.k + -p.phi)) ^ 2 - (p.r * (p.path.len + 2 * Real.pi * p.k + p.phi)) ^ 2
          = 4 * p.r ^ 2 * (p.path.len + 2 * Real.pi * p.k) * (-p.phi) := by ring
      have : 0 ≤ 4 * p.r ^ 2 * (p.path.len + 2 * Real.pi * p.k) * (-p.phi) := by
        have : 0 ≤ -p.phi := by linarith
        positivity
      linarith
    linarith

example : ((⟨⟨.LSL, 0, 3, 0, false⟩, 1, 3, -1, 0⟩ : OPath ℝ).lenAbs) ^ 2 = 25 := by
  rw [owen_length_abs_sq]; simp [Path.len]; norm_num

-- non-vacuity
example : turn (⟨0, 0, 0⟩ : Pose ℝ) 2 (Real.pi / 2) = ⟨2, 2, Real.pi / 2⟩ := by
  rw [owen_turn_is_arc, if_pos (by positivity), stepFwd_L]
  simp
example : ((⟨⟨.LSL, 0, 3, 0, false⟩, 1, 4, 0, 0⟩ : OPath ℝ).len) ^ 2 = 25 := by
  rw [owen_length_sq]; simp [Path.len]; norm_num

end OmplModel.Props.C14O
